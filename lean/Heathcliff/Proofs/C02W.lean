/- C02 (task W): BEHZ `bfvMultiply` of the MODEL, end to end.  All helper names carry the prefix `c02w_`.

   W1  `bfvMultiply_ok` / `bfvMultiply_canon`: for coefficient-form operands of ANY sizes ≥ 1 with canonical polynomials at a level
       satisfying `MulOK`, the model returns `.ok`, the result has size a+b−1, is canonical, and every residue equals the closed
       form `c02w_mulVal` (lazy NTT ∘ dyadic tensor ∘ INTT = negacyclic products in q and in Bsk, ·t, fast floor, Shenoy–Kumaresan).
       Refusals: `bfvMultiply_refuse_ntt`, `bfvMultiply_refuse_empty`.
       Bundles: `c02w_ToolMulOK` (constants of `RNSTool`), `MulOK` (level); both DERIVED from the constructors:
       `c02w_toolMulOK_of_new` (from `RNSTool.new`, t ≠ 0, |q| ≤ 62, auxiliary moduli well formed and ≥ 2^32 — needed for
       `ckSub b m̃` in `sm_mrq`), `c02w_mulOK_of_new` (plus `RNSBase.new`, `NTTTables.new` for the Bsk tables).
   W2  `bfvLift_spec` (lifted operand X ≡ input mod every q_i, 2·2^32·|X| ≤ Q(2^32 + 2|q|)), `bfvMultiply_coeff`: every returned
       residue is (⌊t·Z_k[c]/Q⌋ − α) mod q_i with ONE α < |q| per coefficient, Z_k = Σ_{x+y=k} X_x ⋆ Y_y over ℤ[X]/(X^N+1),
       under the explicit window `c02w_Window`: t·min(n1,n2)·N·Q + 2|q| + 2|B|·B ≤ B·m_sk, which follows from the sizing rule
       of `RNSTool.new` (`c02w_window_of_new`: auxiliary moduli ≥ 2^61 − 2^54, min(n1,n2)·N ≤ 2^30, t.value < 2^t.bits).
   W3  `bfvMultiply_phase` (ring form): in any commutative ring with ξ^N = −1 and any secret s,
       Q·phase_s(D) + phase_s(E) = t·phase_s(X)·phase_s(Y), D the exact lifts of the outputs, 0 ≤ E_k[c] < |q|·Q. -/
import Heathcliff.Model.Evaluator
import Heathcliff.Proofs.C01P
import Heathcliff.Proofs.C02V
import Heathcliff.Proofs.C10H
import Heathcliff.Proofs.C10I
import Heathcliff.Proofs.C07L
import Mathlib.Algebra.BigOperators.ModEq
import Mathlib.Algebra.Order.BigOperators.Group.Finset
import Mathlib.Tactic.Ring
import Mathlib.Tactic.Linarith
import Mathlib.Tactic.Positivity
namespace HC

/-! ## the model's `bfvMultiply` cut into named stages (definitional) -/

/-- steps (1)–(3) on one polynomial, base q part: lazy NTT of every component -/
def c02w_liftQ (l : Level) (p : RnsPoly) : RnsPoly :=
  Array.ofFn (n := l.qs.size) fun i => nttLazy (l.tbl i.val) (p.getD i.val #[])

/-- steps (1)–(3) on one polynomial, base Bsk part -/
def c02w_liftB (l : Level) (T : Array NTTTables) (p : RnsPoly) : R RnsPoly := do
  let ext ← l.tool.fastbconvMTilde p
  let red ← l.tool.smMrq ext
  pure (Array.ofFn (n := l.tool.baseBsk.base.size) fun i => nttLazy (T.getD i.val default) (red.getD i.val #[]))

def c02w_lift (l : Level) (T : Array NTTTables) (c : Ct) : R (List RnsPoly × List RnsPoly) := do
  let qs := c.polys.toList.map (c02w_liftQ l)
  let bs ← c.polys.toList.mapM (c02w_liftB l T)
  pure (qs, bs)

/-- step (4) -/
def c02w_tensor (n1 n2 : Nat) (ms : Array Modulus) (xs ys : List RnsPoly) (zero : RnsPoly) : R (List RnsPoly) :=
  (List.range (n1 + n2 - 1)).mapM fun i =>
    (mulPairs n1 n2 i).foldlM (fun acc p => do
      let pr ← compsZip ms (xs.getD p.1 #[]) (ys.getD p.2 #[]) mulMod
      compsZip ms acc pr addMod) zero

/-- steps (6)–(8) for output polynomial `i` -/
def c02w_finish (l : Level) (dq db : List RnsPoly) (i : Nat) : R RnsPoly := do
  let tq ← compsMap l.qs (dq.getD i #[]) (fun x m => mulMod x l.t.value m)
  let tb ← compsMap l.tool.baseBsk.base (db.getD i #[]) (fun x m => mulMod x l.t.value m)
  let fl ← l.tool.fastFloor (tq ++ tb)
  l.tool.fastbconvSk fl

theorem c02w_bfvMultiply_eq (l : Level) (T : Array NTTTables) (a b : Ct) :
    bfvMultiply l T a b =
      (if a.ntt ∨ b.ntt then .error .refused else
       if ctResizeRefuses (a.polys.size + b.polys.size - 1) then .error .refused else do
        let pa ← c02w_lift l T a
        let pb ← c02w_lift l T b
        if a.polys.size < 1 ∨ b.polys.size < 1 then .error .refused else do
        let dq ← c02w_tensor a.polys.size b.polys.size l.qs pa.1 pb.1 (Array.replicate l.qs.size (Array.replicate l.n 0))
        let db ← c02w_tensor a.polys.size b.polys.size l.tool.baseBsk.base pa.2 pb.2
                  (Array.replicate l.tool.baseBsk.base.size (Array.replicate l.n 0))
        let outs ← (List.range (a.polys.size + b.polys.size - 1)).mapM (c02w_finish l
          (dq.map fun p => Array.ofFn (n := l.qs.size) fun i => intt (l.tbl i.val) (p.getD i.val #[]))
          (db.map fun p => Array.ofFn (n := l.tool.baseBsk.base.size) fun i =>
                    intt (T.getD i.val default) (p.getD i.val #[])))
        pure { a with polys := outs.toArray }) := rfl

/-! ## generic helpers -/

/-- a level that only carries a family of moduli and a degree (to reuse the `rnsZip` lemmas for base Bsk) -/
def c02w_lv (ms : Array Modulus) (n : Nat) : Level := { (default : Level) with qs := ms, n := n }

theorem c02w_rnsZip_eq (l : Level) (a b : RnsPoly) (f : Nat → Nat → Modulus → R Nat) :
    rnsZip l a b f = compsZip l.qs a b f := rfl

/-- word-sized components of the right shape (the lazy NTT outputs) -/
def c02w_Lazy (ms : Array Modulus) (n : Nat) (p : RnsPoly) : Prop :=
  ∀ i, i < ms.size → (p.getD i #[]).size = n ∧ ∀ j, j < n → (p.getD i #[]).getD j 0 < 2^64

theorem c02w_dyadic_spec {ms : Array Modulus} {n : Nat} (hq : c02v_QsWF (c02w_lv ms n)) {a b : RnsPoly}
    (ha : c02w_Lazy ms n a) (hb : c02w_Lazy ms n b) :
    ∃ r, compsZip ms a b mulMod = .ok r ∧ RnsCanon (c02w_lv ms n) r ∧ ∀ i, i < ms.size → ∀ j, j < n →
      (r.getD i #[]).getD j 0 = ((a.getD i #[]).getD j 0 * (b.getD i #[]).getD j 0) % (ms.getD i default).value := by
  refine ⟨_, c01o_rnsZip_ok (l := c02w_lv ms n) (fun i x y => (x * y) % (ms.getD i default).value) (fun i hi j hj => ?_),
    ⟨c01o_zipVal_size _ _ _ _, fun i hi => ⟨?_, fun j hj => ?_⟩⟩, fun i hi j hj => ?_⟩
  · rw [(ha i hi).1] at hj
    exact mulMod_exact (hq i hi) ((ha i hi).2 j hj) ((hb i hi).2 j hj)
  · rw [c01o_zipVal_comp_size _ _ _ _ hi]; exact (ha i hi).1
  · rw [c01o_zipVal_coeff _ _ _ _ hi (by rw [(ha i hi).1]; exact hj)]
    exact Nat.mod_lt _ (Nat.lt_of_lt_of_le Nat.zero_lt_two (hq i hi).two_le)
  · exact c01o_zipVal_coeff (c02w_lv ms n) _ _ _ hi (by rw [(ha i hi).1]; exact hj)

/-- the accumulation loop of one output polynomial of the tensor step -/
theorem c02w_mulFold {ms : Array Modulus} {n : Nat} (hq : c02v_QsWF (c02w_lv ms n)) (X Y : Nat → RnsPoly) :
    ∀ (ps : List (Nat × Nat)) (acc : RnsPoly), RnsCanon (c02w_lv ms n) acc →
    (∀ p ∈ ps, c02w_Lazy ms n (X p.1) ∧ c02w_Lazy ms n (Y p.2)) →
    ∃ r, ps.foldlM (fun acc p => do
        let pr ← compsZip ms (X p.1) (Y p.2) mulMod
        compsZip ms acc pr addMod) acc = .ok r ∧ RnsCanon (c02w_lv ms n) r ∧ ∀ i, i < ms.size → ∀ j, j < n →
      (r.getD i #[]).getD j 0
        = ((acc.getD i #[]).getD j 0 + (ps.map (fun p => ((X p.1).getD i #[]).getD j 0 * ((Y p.2).getD i #[]).getD j 0)).sum)
            % (ms.getD i default).value := by
  intro ps
  induction ps with
  | nil =>
    intro acc hacc _
    refine ⟨acc, rfl, hacc, fun i hi j hj => ?_⟩
    simp only [List.map_nil, List.sum_nil, Nat.add_zero]
    exact (Nat.mod_eq_of_lt ((hacc.2 i hi).2 j hj)).symm
  | cons p ps ih =>
    intro acc hacc hmem
    obtain ⟨h1, h2⟩ := hmem p (by simp)
    obtain ⟨pr, hpr, cpr, vpr⟩ := c02w_dyadic_spec hq h1 h2
    obtain ⟨acc', hacc', cacc', vacc'⟩ := c02v_rnsAdd_spec hq hacc cpr
    obtain ⟨r, hr, cr, vr⟩ := ih acc' cacc' (fun p' hp' => hmem p' (by simp [hp']))
    refine ⟨r, ?_, cr, fun i hi j hj => ?_⟩
    · rw [List.foldlM_cons, hpr]
      simp only [bind, Except.bind]
      have e : compsZip ms acc pr addMod = .ok acc' := hacc'
      rw [e]
      exact hr
    · rw [vr i hi j hj, vacc' i hi j hj, vpr i hi j hj]
      simp only [List.map_cons, List.sum_cons]
      show _ = _ % (ms.getD i default).value
      have e : ((c02w_lv ms n).q i).value = (ms.getD i default).value := rfl
      rw [e, Nat.mod_add_mod, Nat.add_assoc, Nat.add_comm ((acc.getD i #[]).getD j 0), Nat.add_assoc, Nat.mod_add_mod]
      congr 1
      omega

theorem c02w_range_getD {m k : Nat} (hk : k < m) : (List.range m).getD k 0 = k := by
  simp [List.getD, List.getElem?_range hk]

/-- step (4) in one family of moduli: every output polynomial is the reduced sum of the position-wise products -/
theorem c02w_tensor_spec {ms : Array Modulus} {n : Nat} (hq : c02v_QsWF (c02w_lv ms n)) {n1 n2 : Nat}
    (h1 : 1 ≤ n1) (h2 : 1 ≤ n2) (xs ys : List RnsPoly)
    (hx : ∀ k, k < n1 → c02w_Lazy ms n (xs.getD k #[])) (hy : ∀ k, k < n2 → c02w_Lazy ms n (ys.getD k #[])) :
    ∃ out, c02w_tensor n1 n2 ms xs ys (Array.replicate ms.size (Array.replicate n 0)) = .ok out ∧
      out.length = n1 + n2 - 1 ∧ ∀ k, k < n1 + n2 - 1 → RnsCanon (c02w_lv ms n) (out.getD k #[]) ∧
        ∀ i, i < ms.size → ∀ j, j < n → ((out.getD k #[]).getD i #[]).getD j 0 =
          ((mulPairs n1 n2 k).map (fun p => ((xs.getD p.1 #[]).getD i #[]).getD j 0 * ((ys.getD p.2 #[]).getD i #[]).getD j 0)).sum
            % (ms.getD i default).value := by
  obtain ⟨z1, z2⟩ := c02v_rnsZero_spec hq
  obtain ⟨out, hout, hall⟩ := c02v_mapM_ok
    (fun (k : Nat) (y : RnsPoly) => RnsCanon (c02w_lv ms n) y ∧ ∀ i, i < ms.size → ∀ j, j < n →
      (y.getD i #[]).getD j 0 =
        ((mulPairs n1 n2 k).map (fun p => ((xs.getD p.1 #[]).getD i #[]).getD j 0 * ((ys.getD p.2 #[]).getD i #[]).getD j 0)).sum
          % (ms.getD i default).value)
    (fun k => (mulPairs n1 n2 k).foldlM (fun acc p => do
      let pr ← compsZip ms (xs.getD p.1 #[]) (ys.getD p.2 #[]) mulMod
      compsZip ms acc pr addMod) (Array.replicate ms.size (Array.replicate n 0)))
    (List.range (n1 + n2 - 1)) (fun k hk => by
      have hk := List.mem_range.mp hk
      obtain ⟨_, hmem⟩ := mulPairs_spec h1 h2 hk
      obtain ⟨r, hr, cr, vr⟩ := c02w_mulFold hq (fun x => xs.getD x #[]) (fun y => ys.getD y #[]) (mulPairs n1 n2 k)
        (rnsZero (c02w_lv ms n)) z1
        (fun p hp => by have := (hmem p.1 p.2).mp hp; exact ⟨hx _ this.1, hy _ this.2.1⟩)
      refine ⟨r, hr, cr, fun i hi j hj => ?_⟩
      rw [vr i hi j hj, z2 i hi j hj, Nat.zero_add])
  have hlen : out.length = n1 + n2 - 1 := by rw [← hall.length_eq]; simp
  refine ⟨out, hout, hlen, fun k hk => ?_⟩
  have := c02v_forall2_getD hall 0 #[] (k := k) (by simpa using hk)
  rw [c02w_range_getD hk] at this
  exact this

/-! ## steps (3)–(5) in one modulus: lazy NTT, accumulated dyadic products, inverse NTT = sum of negacyclic products -/

theorem c02w_comp_conv {t : NTTTables} (hw : t.WF) (A B : Nat → Array Nat) (ps : List (Nat × Nat))
    (hA : ∀ p ∈ ps, (A p.1).size = 2^t.k ∧ ∀ j, j < 2^t.k → (A p.1).getD j 0 < t.modulus.value)
    (hB : ∀ p ∈ ps, (B p.2).size = 2^t.k ∧ ∀ j, j < 2^t.k → (B p.2).getD j 0 < t.modulus.value)
    {z : Array Nat} (hz : z.size = 2^t.k)
    (hzv : ∀ j, j < 2^t.k → z.getD j 0 =
      (ps.map (fun p => (nttLazy t (A p.1)).getD j 0 * (nttLazy t (B p.2)).getD j 0)).sum % t.modulus.value) :
    ∀ c, c < 2^t.k → (intt t z).getD c 0
      = (ps.map (fun p => negMulNat (2^t.k) t.modulus.value (A p.1) (B p.2) c)).sum % t.modulus.value := by
  have hq2 := hw.mwf.two_le
  intro c hc
  have hsim : ∀ (a : Array Nat), a.size = 2^t.k → (∀ j, j < 2^t.k → a.getD j 0 < t.modulus.value) →
      (ntt t a).size = 2^t.k ∧ ∀ j, j < 2^t.k → (ntt t a).getD j 0 < t.modulus.value ∧
        (ntt t a).getD j 0 = (nttLazy t a).getD j 0 % t.modulus.value := by
    intro a has hal
    obtain ⟨n1, n2⟩ := ntt_sim hw a has (fun j hj => by have := hal j hj; omega)
    exact ⟨n1, fun j hj => ⟨(n2 j hj).2.1, (n2 j hj).1⟩⟩
  have h := c02v_comp_coeff hw (fun x => ntt t (A x)) (fun y => ntt t (B y)) ps
    (fun p hp => by
      obtain ⟨s1, s2⟩ := hsim _ (hA p hp).1 (hA p hp).2
      exact ⟨s1, fun j hj => (s2 j hj).1⟩)
    (fun p hp => by
      obtain ⟨s1, s2⟩ := hsim _ (hB p hp).1 (hB p hp).2
      exact ⟨s1, fun j hj => (s2 j hj).1⟩)
    hz (fun j hj => by
      rw [hzv j hj]
      apply RNSH.list_sum_mod_congr
      intro p hp
      show _ = ((ntt t (A p.1)).getD j 0 * (ntt t (B p.2)).getD j 0) % _
      rw [((hsim _ (hA p hp).1 (hA p hp).2).2 j hj).2, ((hsim _ (hB p hp).1 (hB p hp).2).2 j hj).2, ← Nat.mul_mod]) c hc
  rw [h]
  congr 2
  apply List.map_congr_left
  intro p hp
  show negMulNat _ _ (intt t (ntt t (A p.1))) (intt t (ntt t (B p.2))) c = _
  rw [intt_ntt hw _ (hA p hp).1 (hA p hp).2, intt_ntt hw _ (hB p hp).1 (hB p hp).2]

/-! ## fast base conversion with the explicit CRT sum (one α for every output modulus AND every converter of the same input) -/

/-- the integer `Σ_i [f_i · (Q/q_i)^{-1}]_{q_i} · (Q/q_i)` the fast base conversion reduces modulo the output moduli -/
def c02w_crtSum (b : RNSBase) (f : Nat → Nat) : Nat :=
  ((List.range b.size).map fun i =>
    ((f i * (b.invPunct.getD i default).operand) % (b.q i).value) * b.punct.getD i 0).sum

theorem c02w_crtSum_spec {b : RNSBase} (hb : b.WF) (f : Nat → Nat) {x : Nat} (hxl : x < b.prod)
    (hxr : ∀ i, i < b.size → x % (b.q i).value = f i % (b.q i).value) :
    ∃ alpha, alpha < b.size ∧ c02w_crtSum b f = x + alpha * b.prod := by
  obtain ⟨al, h1, h2⟩ := RNSH.crt_sum hb (xs := ((List.range b.size).map f).toArray) hxl
    (fun i hi => by rw [getD_rangeMap _ _ hi]; exact hxr i hi)
  refine ⟨al, h1, ?_⟩
  rw [← h2]
  unfold c02w_crtSum
  congr 1
  apply List.map_congr_left
  intro i hi
  rw [getD_rangeMap _ _ (List.mem_range.mp hi)]

theorem c02w_crtSum_congr (b : RNSBase) {f g : Nat → Nat} (h : ∀ i, i < b.size → f i = g i) :
    c02w_crtSum b f = c02w_crtSum b g := by
  unfold c02w_crtSum
  congr 1
  apply List.map_congr_left
  intro i hi
  rw [h i (List.mem_range.mp hi)]

theorem c02w_fastConvert_eq {ib ob : RNSBase} {c : BaseConverter} (hi : ib.WF) (ho : ob.WF)
    (hc : BaseConverter.new ib ob = .ok c) {xs : Array Nat} (hx : ∀ i, i < ib.size → xs.getD i 0 < 2^64) :
    c.fastConvert xs = .ok ((List.range ob.size).map fun j =>
      c02w_crtSum ib (fun i => xs.getD i 0) % (ob.q j).value).toArray := by
  rw [BaseConverter.new_eq hi ho] at hc
  injection hc with hc
  subst hc
  unfold BaseConverter.fastConvert
  rw [RNSH.scaled_ok _ hi hx]
  have key : (List.range ob.size).mapM (fun j =>
      dotProductMod ((List.range ib.size).map fun i =>
        (xs.getD i 0 * (ib.invPunct.getD i default).operand) % (ib.q i).value)
        ((((((List.range ob.size).map fun i => (List.range ib.size).map fun j =>
          ib.punct.getD j 0 % (ob.q i).value).map List.toArray).toArray).getD j #[]).toList) (ob.q j))
      = .ok ((List.range ob.size).map fun j => c02w_crtSum ib (fun i => xs.getD i 0) % (ob.q j).value) := by
    apply RNSH.mapM_ok_of_forall
    intro j hj
    have hj' := List.mem_range.mp hj
    have hM : ((((List.range ob.size).map fun i => (List.range ib.size).map fun j =>
          ib.punct.getD j 0 % (ob.q i).value).map List.toArray).toArray.getD j #[]).toList
        = (List.range ib.size).map (fun i => ib.punct.getD i 0 % (ob.q j).value) := by
      simp [Array.getD, hj']
    rw [hM, RNSH.dot_ok hi (ho.mwf j hj') _ (fun i hi' =>
      Nat.mod_lt _ (by have := (hi.mwf i hi').two_le; omega))]
    rfl
  simp only [bind, Except.bind]
  rw [key]
  rfl

theorem c02w_fca_size {c : BaseConverter} {p tg : RnsPoly} {n : Nat} (h : c.fastConvertArray p n = .ok tg) :
    tg.size = c.obase.size := by
  unfold BaseConverter.fastConvertArray at h
  obtain ⟨cols, _, h2⟩ := c01p_bind_ok h
  injection h2 with h2
  rw [← h2]
  simp [untranspose]

theorem c02w_new_bases {ib ob : RNSBase} {c : BaseConverter} (hi : ib.WF) (ho : ob.WF)
    (hc : BaseConverter.new ib ob = .ok c) : c.ibase = ib ∧ c.obase = ob := by
  rw [BaseConverter.new_eq hi ho] at hc
  injection hc with hc
  subst hc
  exact ⟨rfl, rfl⟩

/-- `fast_convert_array` on word-sized inputs: every output residue is the explicit CRT sum of its column, reduced -/
theorem c02w_fca {ib ob : RNSBase} {c : BaseConverter} (hi : ib.WF) (ho : ob.WF)
    (hc : BaseConverter.new ib ob = .ok c) (p : RnsPoly) (n : Nat) (hp : p.size = ib.size)
    (hx : ∀ i, i < ib.size → ∀ j, j < n → (p.getD i #[]).getD j 0 < 2^64) :
    ∃ tg, c.fastConvertArray p n = .ok tg ∧ tg.size = ob.size ∧ ∀ i, i < ob.size → (tg.getD i #[]).size = n ∧
      ∀ j, j < n → (tg.getD i #[]).getD j 0 =
        c02w_crtSum ib (fun i' => (p.getD i' #[]).getD j 0) % (ob.q i).value := by
  have hcol : ∀ j i, i < ib.size → (p.map (fun comp => comp.getD j 0)).getD i 0 = (p.getD i #[]).getD j 0 := by
    intro j i hi'
    have : i < p.size := by omega
    simp [Array.getD, this]
  have hfc : ∀ j, j < n → c.fastConvert (p.map (fun comp => comp.getD j 0)) = .ok ((List.range ob.size).map fun i =>
      c02w_crtSum ib (fun i' => (p.getD i' #[]).getD j 0) % (ob.q i).value).toArray := by
    intro j hj
    rw [c02w_fastConvert_eq hi ho hc (fun i hi' => by rw [hcol j i hi']; exact hx i hi' j hj)]
    congr 3
    funext i
    rw [c02w_crtSum_congr ib (fun i' hi' => hcol j i' hi')]
  obtain ⟨tg, h1, h2⟩ := c01p_fastConvertArray_spec c p n (fun j hj => ⟨_, hfc j hj⟩)
  obtain ⟨_, hob⟩ := c02w_new_bases hi ho hc
  refine ⟨tg, h1, by rw [c02w_fca_size h1, hob], fun i hi' => ?_⟩
  obtain ⟨s1, s2⟩ := h2 i (by rw [hob]; exact hi')
  refine ⟨s1, fun j hj => ?_⟩
  obtain ⟨y, hy, hv⟩ := s2 j hj
  rw [hfc j hj] at hy
  injection hy with hy
  rw [hv, ← hy, getD_rangeMap _ _ hi']

/-! ## shapes of the outputs of the `RNSTool` routines (by inversion of the definitions) -/

theorem c02w_foldPush_size {α β : Type} (F : α → R β) : ∀ (l : List α) (acc o : Array β),
    l.foldlM (fun acc x => do let y ← F x; pure (acc.push y)) acc = .ok o → o.size = acc.size + l.length
  | [], acc, o, h => by
    simp only [List.foldlM_nil, pure, Except.pure] at h
    injection h with h; rw [h]; simp
  | a :: l, acc, o, h => by
    rw [List.foldlM_cons] at h
    obtain ⟨acc', h1, h2⟩ := c01p_bind_ok h
    obtain ⟨y, _, h3⟩ := c01p_bind_ok h1
    injection h3 with h3
    have := c02w_foldPush_size F l acc' o h2
    rw [this, ← h3]
    simp; omega

theorem c02w_mapM'_size {a o : Array Nat} {f : Nat → R Nat} (h : mapM' a f = .ok o) : o.size = a.size := by
  unfold mapM' at h
  rw [← Array.foldlM_toList] at h
  have := c02w_foldPush_size f a.toList #[] o h
  simpa using this

theorem c02w_zipM'_size {a b o : Array Nat} {f : Nat → Nat → R Nat} (h : zipM' a b f = .ok o) : o.size = a.size := by
  unfold zipM' at h
  have := c02w_foldPush_size (fun i => f (a.getD i 0) (b.getD i 0)) (List.range a.size) #[] o h
  simpa using this

/-- a successful `List.mapM` over `range m`: length and every entry -/
theorem c02w_mapM_range_inv {β : Type} {F : Nat → R β} {m : Nat} {ys : List β} (d : β)
    (h : (List.range m).mapM F = .ok ys) : ys.length = m ∧ ∀ i, i < m → F i = .ok (ys.getD i d) := by
  have hf := RNSH.mapM_ok_inv _ _ _ h
  have hl : ys.length = m := by rw [← hf.length_eq]; simp
  refine ⟨hl, fun i hi => ?_⟩
  have := c02v_forall2_getD hf 0 d (k := i) (by simpa using hi)
  rw [c02w_range_getD hi] at this
  exact this

theorem c02w_smMrq_shape {r : RNSTool} {p out : RnsPoly} (h : r.smMrq p = .ok out) :
    out.size = r.baseBsk.size ∧ ∀ i, i < r.baseBsk.size → (out.getD i #[]).size = (p.getD r.baseBsk.size #[]).size := by
  unfold RNSTool.smMrq at h
  dsimp only at h
  obtain ⟨rmt, h1, h2⟩ := c01p_bind_ok h
  obtain ⟨outs, h3, h4⟩ := c01p_bind_ok h2
  injection h4 with h4
  obtain ⟨hl, hv⟩ := c02w_mapM_range_inv #[] h3
  subst h4
  refine ⟨by simpa using hl, fun i hi => ?_⟩
  rw [c02v_toArray_getD]
  obtain ⟨pq, _, h5⟩ := c01p_bind_ok (hv i hi)
  rw [c02w_zipM'_size h5, c02w_mapM'_size h1]

theorem c02w_fastFloor_shape {r : RNSTool} {p out : RnsPoly} (h : r.fastFloor p = .ok out) :
    out.size = r.baseBsk.size ∧
      ∀ i, i < r.baseBsk.size → (out.getD i #[]).size = (p.getD (r.baseQ.size + i) #[]).size := by
  unfold RNSTool.fastFloor at h
  dsimp only at h
  obtain ⟨conv, _, h2⟩ := c01p_bind_ok h
  obtain ⟨outs, h3, h4⟩ := c01p_bind_ok h2
  injection h4 with h4
  obtain ⟨hl, hv⟩ := c02w_mapM_range_inv #[] h3
  subst h4
  refine ⟨by simpa using hl, fun i hi => ?_⟩
  rw [c02v_toArray_getD]
  exact c02w_zipM'_size (hv i hi)

theorem c02w_fastbconvSk_shape {r : RNSTool} {p out temp : RnsPoly} (h : r.fastbconvSk p = .ok out)
    (htemp : r.bToMsk.fastConvertArray (p.extract 0 r.baseB.size) r.n = .ok temp) :
    out.size = r.baseQ.size ∧ ∀ i, i < r.baseQ.size → (out.getD i #[]).size = (temp.getD 0 #[]).size := by
  unfold RNSTool.fastbconvSk at h
  dsimp only at h
  obtain ⟨dest, _, h2⟩ := c01p_bind_ok h
  rw [htemp] at h2
  obtain ⟨temp', ht, h3⟩ := c01p_bind_ok h2
  injection ht with ht
  subst ht
  obtain ⟨alpha, ha, h4⟩ := c01p_bind_ok h3
  obtain ⟨outs, h5, h6⟩ := c01p_bind_ok h4
  injection h6 with h6
  obtain ⟨hl, hv⟩ := c02w_mapM_range_inv #[] h5
  subst h6
  refine ⟨by simpa using hl, fun i hi => ?_⟩
  rw [c02v_toArray_getD]
  obtain ⟨pb, _, h7⟩ := c01p_bind_ok (hv i hi)
  obtain ⟨npbv, _, h8⟩ := c01p_bind_ok h7
  obtain ⟨npb, _, h9⟩ := c01p_bind_ok h8
  rw [c02w_zipM'_size h9, c02w_zipM'_size ha]

/-! ## the constants of `RNSTool` that `bfv_multiply` relies on -/

/-- exactly the properties of the BEHZ constants needed by steps (1), (2), (7), (8); derived from `RNSTool.new`
    in `c02w_toolMulOK_of_new` -/
structure c02w_ToolMulOK (r : RNSTool) : Prop where
  qwf : r.baseQ.WF
  bwf : r.baseB.WF
  bskwf : r.baseBsk.WF
  bsk_size : r.baseBsk.size = r.baseB.size + 1
  bsk_q : ∀ i, i < r.baseB.size → r.baseBsk.q i = r.baseB.q i
  bsk_last : r.baseBsk.q r.baseB.size = r.mSk
  mtwf : r.mTilde.WF
  mt_val : r.mTilde.value = 2^32
  qToBsk : BaseConverter.new r.baseQ r.baseBsk = .ok r.qToBsk
  qToMt : ∃ bMt : RNSBase, bMt.WF ∧ bMt.size = 1 ∧ bMt.q 0 = r.mTilde ∧ BaseConverter.new r.baseQ bMt = .ok r.qToMt
  bToQ : BaseConverter.new r.baseB r.baseQ = .ok r.bToQ
  bToMsk : ∃ bMsk : RNSBase, bMsk.WF ∧ bMsk.size = 1 ∧ bMsk.q 0 = r.mSk ∧ BaseConverter.new r.baseB bMsk = .ok r.bToMsk
  negInvQ : WFOp r.mTilde r.negInvProdQModMt ∧ (r.negInvProdQModMt.operand * r.baseQ.prod + 1) % r.mTilde.value = 0
  bsk : ∀ i, i < r.baseBsk.size →
    r.mTilde.value ≤ (r.baseBsk.q i).value ∧
    r.prodQModBsk.getD i 0 = r.baseQ.prod % (r.baseBsk.q i).value ∧
    WFOp (r.baseBsk.q i) (r.invMtModBsk.getD i default) ∧
    ((r.invMtModBsk.getD i default).operand * r.mTilde.value) % (r.baseBsk.q i).value = 1 ∧
    WFOp (r.baseBsk.q i) (r.invProdQModBsk.getD i default) ∧
    ((r.invProdQModBsk.getD i default).operand * r.baseQ.prod) % (r.baseBsk.q i).value = 1
  invB : WFOp r.mSk r.invProdBModMsk ∧ (r.invProdBModMsk.operand * r.baseB.prod) % r.mSk.value = 1
  pbq : ∀ i, i < r.baseQ.size →
    r.prodBModQ.getD i 0 = r.baseB.prod % (r.baseQ.q i).value ∧ 0 < r.prodBModQ.getD i 0

theorem c02w_ToolMulOK.mskwf {r : RNSTool} (h : c02w_ToolMulOK r) : r.mSk.WF := by
  rw [← h.bsk_last]
  exact h.bskwf.mwf _ (by rw [h.bsk_size]; omega)

/-- canonical polynomial in the tool's base q -/
def c02w_ToolCanon (r : RNSTool) (p : RnsPoly) : Prop :=
  p.size = r.baseQ.size ∧ ∀ i, i < r.baseQ.size → (p.getD i #[]).size = r.n ∧
    ∀ j, j < r.n → (p.getD i #[]).getD j 0 < (r.baseQ.q i).value

theorem c02w_getD_append_left {β : Type} (a b : Array β) (d : β) {i : Nat} (hi : i < a.size) :
    (a ++ b).getD i d = a.getD i d := by
  simp [Array.getD, hi, Array.getElem_append_left, Nat.lt_add_right]

theorem c02w_getD_append_right {β : Type} (a b : Array β) (d : β) (i : Nat) :
    (a ++ b).getD (a.size + i) d = b.getD i d := by
  by_cases h : i < b.size
  · have h2 : a.size + i < (a ++ b).size := by rw [Array.size_append]; omega
    simp [Array.getD, h, Array.getElem_append_right]
  · have h2 : ¬ a.size + i < (a ++ b).size := by rw [Array.size_append]; omega
    simp [Array.getD, h]

/-! ## step (1): `fastbconvMTilde` -/

/-- the integer `m̃·x + α·Q` (explicit CRT sum of the residues `[m̃·x_i]_{q_i}`) of coefficient `j` -/
def c02w_mtSum (r : RNSTool) (p : RnsPoly) (j : Nat) : Nat :=
  c02w_crtSum r.baseQ (fun i => ((p.getD i #[]).getD j 0 * r.mTilde.value) % (r.baseQ.q i).value)

theorem c02w_fastbconvMTilde_spec {r : RNSTool} (hr : c02w_ToolMulOK r) {p : RnsPoly} (hp : c02w_ToolCanon r p) :
    ∃ ext, r.fastbconvMTilde p = .ok ext ∧
      (∀ i, i < r.baseBsk.size → (ext.getD i #[]).size = r.n ∧
        ∀ j, j < r.n → (ext.getD i #[]).getD j 0 = c02w_mtSum r p j % (r.baseBsk.q i).value) ∧
      (ext.getD r.baseBsk.size #[]).size = r.n ∧
        ∀ j, j < r.n → (ext.getD r.baseBsk.size #[]).getD j 0 = c02w_mtSum r p j % r.mTilde.value := by
  obtain ⟨bMt, hbMt, hbMt1, hbMt0, hcMt⟩ := hr.qToMt
  have hmt64 : r.mTilde.value < 2^64 := by rw [hr.mt_val]; norm_num
  have h1 : (List.range r.baseQ.size).mapM (fun i =>
      mapM' (p.getD i #[]) (fun x => mulMod x r.mTilde.value (r.baseQ.q i)))
      = .ok ((List.range r.baseQ.size).map fun i =>
          (p.getD i #[]).map (fun x => (x * r.mTilde.value) % (r.baseQ.q i).value)) := by
    apply listMapM_ok
    intro i hi
    have hi := List.mem_range.mp hi
    apply mapM'_ok
    intro x hx
    have hqi := hr.qwf.mwf i hi
    have := mem_lt_of_getD (B := (r.baseQ.q i).value)
      (fun j hj => (hp.2 i hi).2 j (by rw [← (hp.2 i hi).1]; exact hj)) x hx
    exact mulMod_exact hqi (by have := hqi.lt; omega) hmt64
  generalize htdef : ((List.range r.baseQ.size).map fun i =>
          (p.getD i #[]).map (fun x => (x * r.mTilde.value) % (r.baseQ.q i).value)).toArray = tmp at *
  have htsz : tmp.size = r.baseQ.size := by rw [← htdef]; simp
  have htv : ∀ i, i < r.baseQ.size → ∀ j, j < r.n →
      (tmp.getD i #[]).getD j 0 = ((p.getD i #[]).getD j 0 * r.mTilde.value) % (r.baseQ.q i).value := by
    intro i hi j hj
    rw [← htdef, getD_rangeMap' _ _ _ hi, c10i_getD_map_lt _ _ (by rw [(hp.2 i hi).1]; exact hj)]
  have htlt : ∀ i, i < r.baseQ.size → ∀ j, j < r.n → (tmp.getD i #[]).getD j 0 < 2^64 := by
    intro i hi j hj
    rw [htv i hi j hj]
    have hqi := hr.qwf.mwf i hi
    have := Nat.mod_lt ((p.getD i #[]).getD j 0 * r.mTilde.value) (show 0 < (r.baseQ.q i).value by have := hqi.two_le; omega)
    have := hqi.lt
    omega
  have hsum : ∀ j, j < r.n → c02w_crtSum r.baseQ (fun i' => (tmp.getD i' #[]).getD j 0) = c02w_mtSum r p j :=
    fun j hj => c02w_crtSum_congr _ (fun i hi => htv i hi j hj)
  obtain ⟨a, ha, hasz, hav⟩ := c02w_fca hr.qwf hr.bskwf hr.qToBsk tmp r.n htsz htlt
  obtain ⟨b, hb, hbsz, hbv⟩ := c02w_fca hr.qwf hbMt hcMt tmp r.n htsz htlt
  refine ⟨a ++ b, ?_, fun i hi => ?_, ?_⟩
  · unfold RNSTool.fastbconvMTilde
    rw [h1, ok_bind]
    simp only [htdef]
    rw [ha, ok_bind, hb, ok_bind]
    rfl
  · rw [c02w_getD_append_left _ _ _ (by rw [hasz]; exact hi)]
    refine ⟨(hav i hi).1, fun j hj => ?_⟩
    rw [(hav i hi).2 j hj, hsum j hj]
  · have e := c02w_getD_append_right a b #[] 0
    rw [Nat.add_zero, hasz] at e
    rw [e]
    obtain ⟨s1, s2⟩ := hbv 0 (by omega)
    refine ⟨s1, fun j hj => ?_⟩
    rw [s2 j hj, hsum j hj, hbMt0]

/-! ## step (2): `smMrq`, and the base-Bsk part of the lift -/

/-- residue modulo the i-th modulus of Bsk of the lifted (Montgomery-reduced) coefficient `j` -/
def c02w_liftVal (r : RNSTool) (p : RnsPoly) (i j : Nat) : Nat :=
  smMrqCoeff r.mTilde.value (r.baseBsk.q i).value (r.prodQModBsk.getD i 0)
    (r.invMtModBsk.getD i default).operand r.negInvProdQModMt.operand
    (c02w_mtSum r p j % (r.baseBsk.q i).value) (c02w_mtSum r p j % r.mTilde.value)

def c02w_liftArr (r : RNSTool) (p : RnsPoly) (i : Nat) : Array Nat :=
  ((List.range r.n).map (c02w_liftVal r p i)).toArray

theorem c02w_liftArr_size (r : RNSTool) (p : RnsPoly) (i : Nat) : (c02w_liftArr r p i).size = r.n := by
  simp [c02w_liftArr]

theorem c02w_liftArr_getD (r : RNSTool) (p : RnsPoly) (i : Nat) {j : Nat} (hj : j < r.n) :
    (c02w_liftArr r p i).getD j 0 = c02w_liftVal r p i j := getD_rangeMap _ _ hj

theorem c02w_liftVal_lt {r : RNSTool} (hr : c02w_ToolMulOK r) (p : RnsPoly) {i : Nat} (hi : i < r.baseBsk.size) (j : Nat) :
    c02w_liftVal r p i j < (r.baseBsk.q i).value := by
  unfold c02w_liftVal smMrqCoeff
  exact Nat.mod_lt _ (by have := (hr.bskwf.mwf i hi).two_le; omega)

theorem c02w_smMrq_lift {r : RNSTool} (hr : c02w_ToolMulOK r) {p : RnsPoly} (hp : c02w_ToolCanon r p) :
    ∃ ext red, r.fastbconvMTilde p = .ok ext ∧ r.smMrq ext = .ok red ∧ red.size = r.baseBsk.size ∧
      ∀ i, i < r.baseBsk.size → red.getD i #[] = c02w_liftArr r p i := by
  obtain ⟨ext, hext, h1, h2, h3⟩ := c02w_fastbconvMTilde_spec hr hp
  have hm2 := hr.mtwf.two_le
  obtain ⟨red, hred, hv⟩ := smMrq_spec (r := r) (p := ext) hr.mtwf hr.negInvQ.1
    (fun i hi => by
      obtain ⟨b1, b2, b3, _, _, _⟩ := hr.bsk i hi
      have hbw := hr.bskwf.mwf i hi
      exact ⟨hbw, b1, by rw [b2]; exact Nat.mod_lt _ (by have := hbw.two_le; omega), b3⟩)
    h2
    (fun i j hi hj => by
      rcases Nat.lt_or_ge i r.baseBsk.size with h | h
      · rw [(h1 i h).2 j hj]
        have hbw := hr.bskwf.mwf i h
        have := Nat.mod_lt (c02w_mtSum r p j) (show 0 < (r.baseBsk.q i).value by have := hbw.two_le; omega)
        have := hbw.lt
        omega
      · have : i = r.baseBsk.size := by omega
        subst this
        rw [h3 j hj]
        have := Nat.mod_lt (c02w_mtSum r p j) (show 0 < r.mTilde.value by omega)
        have := hr.mtwf.lt
        omega)
  obtain ⟨s1, s2⟩ := c02w_smMrq_shape hred
  refine ⟨ext, red, hext, hred, s1, fun i hi => ?_⟩
  apply array_ext_getD (n := r.n) (by rw [s2 i hi, h2]) (c02w_liftArr_size r p i)
  intro j hj
  rw [hv i j hi hj, c02w_liftArr_getD r p i hj, (h1 i hi).2 j hj, h3 j hj]
  rfl

/-! ## the level bundle -/

/-- what `bfvMultiply` needs from the level: well-formed NTT tables of the level's moduli (`Level.WF`), the tool is the BEHZ tool
    of the level's moduli and degree with well-formed constants (`c02w_ToolMulOK`), a word-sized plain modulus, and well-formed
    NTT tables `T` (`base_Bsk_ntt_tables`) of the moduli of Bsk for the same degree -/
structure MulOK (l : Level) (T : Array NTTTables) : Prop where
  lwf : l.WF
  n_eq : l.tool.n = l.n
  base_eq : l.tool.baseQ.base = l.qs
  t_lt : l.t.value < 2^64
  tool : c02w_ToolMulOK l.tool
  ttbl : ∀ i, i < l.tool.baseBsk.size →
    (T.getD i default).WF ∧ (T.getD i default).modulus = l.tool.baseBsk.q i ∧ (T.getD i default).k = l.k

theorem c02w_base_size {l : Level} {T : Array NTTTables} (hm : MulOK l T) : l.tool.baseQ.size = l.size := by
  unfold RNSBase.size Level.size; rw [hm.base_eq]

theorem c02w_base_q {l : Level} {T : Array NTTTables} (hm : MulOK l T) (i : Nat) : l.tool.baseQ.q i = l.q i := by
  unfold RNSBase.q Level.q
  rw [hm.base_eq]
  rfl

theorem c02w_toolCanon {l : Level} {T : Array NTTTables} (hm : MulOK l T) {p : RnsPoly} (hp : RnsCanon l p) :
    c02w_ToolCanon l.tool p := by
  refine ⟨by rw [c02w_base_size hm]; exact hp.1, fun i hi => ?_⟩
  rw [c02w_base_size hm] at hi
  rw [hm.n_eq, c02w_base_q hm]
  exact hp.2 i hi

theorem c02w_map_getD {α β : Type} (f : α → β) (xs : List α) (da : α) (db : β) {k : Nat} (hk : k < xs.length) :
    (xs.map f).getD k db = f (xs.getD k da) := by
  simp [List.getD, List.getElem?_eq_getElem hk]

theorem c02w_liftQ_getD (l : Level) (p : RnsPoly) {i : Nat} (hi : i < l.size) :
    (c02w_liftQ l p).getD i #[] = nttLazy (l.tbl i) (p.getD i #[]) := by
  unfold c02w_liftQ
  exact c01o_ofFn_getD _ _ _ hi

theorem c02w_nttLazy_lazy {t : NTTTables} (hw : t.WF) {a : Array Nat} {n : Nat} (hn : 2^t.k = n) (hs : a.size = n)
    (ha : ∀ j, j < n → a.getD j 0 < t.modulus.value) :
    (nttLazy t a).size = n ∧ ∀ j, j < n → (nttLazy t a).getD j 0 < 2^64 := by
  subst hn
  have hq := hw.mwf.lt
  obtain ⟨e1, e2⟩ := nttLazy_sim hw a hs (fun j hj => by have := ha j hj; omega)
  exact ⟨e1, fun j hj => by have := (e2 j hj).1; omega⟩

theorem c02w_liftQ_lazy {l : Level} (hl : l.WF) {p : RnsPoly} (hp : RnsCanon l p) : c02w_Lazy l.qs l.n (c02w_liftQ l p) := by
  intro i hi
  obtain ⟨htw, htm, htn, _⟩ := c01o_level_comp hl hi
  rw [c02w_liftQ_getD l p hi]
  exact c02w_nttLazy_lazy htw htn (hp.2 i hi).1 (fun j hj => by rw [htm]; exact (hp.2 i hi).2 j hj)

/-- steps (1)–(3), base Bsk part, one polynomial -/
theorem c02w_liftB_spec {l : Level} {T : Array NTTTables} (hm : MulOK l T) {p : RnsPoly} (hp : RnsCanon l p) :
    ∃ y, c02w_liftB l T p = .ok y ∧ ∀ i, i < l.tool.baseBsk.size →
      y.getD i #[] = nttLazy (T.getD i default) (c02w_liftArr l.tool p i) := by
  obtain ⟨ext, red, h1, h2, _, h4⟩ := c02w_smMrq_lift hm.tool (c02w_toolCanon hm hp)
  refine ⟨Array.ofFn (n := l.tool.baseBsk.base.size) fun i => nttLazy (T.getD i.val default) (red.getD i.val #[]),
    ?_, fun i hi => ?_⟩
  · unfold c02w_liftB
    rw [h1, ok_bind, h2, ok_bind]
    rfl
  · rw [c01o_ofFn_getD _ _ _ (show i < l.tool.baseBsk.base.size from hi), h4 i hi]

theorem c02w_liftB_lazy {l : Level} {T : Array NTTTables} (hm : MulOK l T) (p : RnsPoly) {y : RnsPoly}
    (hy : ∀ i, i < l.tool.baseBsk.size → y.getD i #[] = nttLazy (T.getD i default) (c02w_liftArr l.tool p i)) :
    c02w_Lazy l.tool.baseBsk.base l.n y := by
  intro i hi
  obtain ⟨tw, tm, tk⟩ := hm.ttbl i hi
  rw [hy i hi]
  refine c02w_nttLazy_lazy tw (by rw [tk, hm.lwf.npow]) (by rw [c02w_liftArr_size, hm.n_eq]) (fun j hj => ?_)
  rw [c02w_liftArr_getD _ _ _ (by rw [hm.n_eq]; exact hj), tm]
  exact c02w_liftVal_lt hm.tool p hi j

/-- steps (1)–(3) on a whole ciphertext -/
theorem c02w_lift_spec {l : Level} {T : Array NTTTables} (hm : MulOK l T) {c : Ct}
    (hc : ∀ k, k < c.polys.size → RnsCanon l (c.polys.getD k #[])) :
    ∃ bs, c02w_lift l T c = .ok (c.polys.toList.map (c02w_liftQ l), bs) ∧ bs.length = c.polys.size ∧
      ∀ k, k < c.polys.size → ∀ i, i < l.tool.baseBsk.size →
        (bs.getD k #[]).getD i #[] = nttLazy (T.getD i default) (c02w_liftArr l.tool (c.polys.getD k #[]) i) := by
  obtain ⟨bs, hbs, hall⟩ := c02v_mapM_ok
    (fun (p y : RnsPoly) => ∀ i, i < l.tool.baseBsk.size →
      y.getD i #[] = nttLazy (T.getD i default) (c02w_liftArr l.tool p i))
    (c02w_liftB l T) c.polys.toList (fun p hp => by
      obtain ⟨k, hk, rfl⟩ := Array.mem_iff_getElem.mp (Array.mem_toList_iff.mp hp)
      have := hc k hk
      rw [show c.polys.getD k #[] = c.polys[k] by simp [Array.getD, hk]] at this
      exact c02w_liftB_spec hm this)
  have hlen : bs.length = c.polys.size := by rw [← hall.length_eq]; simp
  refine ⟨bs, ?_, hlen, fun k hk => ?_⟩
  · unfold c02w_lift
    rw [hbs]
    rfl
  · have := c02v_forall2_getD hall #[] #[] (k := k) (by simpa using hk)
    rw [c02v_toList_getD c.polys] at this
    exact this

/-! ## steps (4)–(5) in one family of moduli -/

/-- coefficient `c` of component `i` of output polynomial `k` after step (5): Σ over the visited pairs of negacyclic products -/
def c02w_convVal (n1 n2 n : Nat) (q : Nat) (A B : Nat → Array Nat) (k c : Nat) : Nat :=
  ((mulPairs n1 n2 k).map (fun p => negMulNat n q (A p.1) (B p.2) c)).sum % q

theorem c02w_family {ms : Array Modulus} {n : Nat} (hq : c02v_QsWF (c02w_lv ms n)) (tb : Nat → NTTTables)
    (htb : ∀ i, i < ms.size → (tb i).WF ∧ (tb i).modulus = ms.getD i default ∧ 2^(tb i).k = n)
    {n1 n2 : Nat} (h1 : 1 ≤ n1) (h2 : 1 ≤ n2) (A B : Nat → Nat → Array Nat)
    (hA : ∀ k, k < n1 → ∀ i, i < ms.size → (A k i).size = n ∧ ∀ j, j < n → (A k i).getD j 0 < (ms.getD i default).value)
    (hB : ∀ k, k < n2 → ∀ i, i < ms.size → (B k i).size = n ∧ ∀ j, j < n → (B k i).getD j 0 < (ms.getD i default).value)
    (xs ys : List RnsPoly)
    (hxs : ∀ k, k < n1 → ∀ i, i < ms.size → (xs.getD k #[]).getD i #[] = nttLazy (tb i) (A k i))
    (hys : ∀ k, k < n2 → ∀ i, i < ms.size → (ys.getD k #[]).getD i #[] = nttLazy (tb i) (B k i)) :
    ∃ out, c02w_tensor n1 n2 ms xs ys (Array.replicate ms.size (Array.replicate n 0)) = .ok out ∧
      ∀ k, k < n1 + n2 - 1 →
        RnsCanon (c02w_lv ms n)
          ((out.map fun p => Array.ofFn (n := ms.size) fun i => intt (tb i.val) (p.getD i.val #[])).getD k #[]) ∧
        ∀ i, i < ms.size → ∀ c, c < n →
          (((out.map fun p => Array.ofFn (n := ms.size) fun i => intt (tb i.val) (p.getD i.val #[])).getD k #[]).getD i #[]).getD c 0
            = c02w_convVal n1 n2 n (ms.getD i default).value (fun x => A x i) (fun y => B y i) k c := by
  have hlx : ∀ k, k < n1 → c02w_Lazy ms n (xs.getD k #[]) := by
    intro k hk i hi
    obtain ⟨tw, tm, tn⟩ := htb i hi
    rw [hxs k hk i hi]
    exact c02w_nttLazy_lazy tw tn (hA k hk i hi).1 (fun j hj => by rw [tm]; exact (hA k hk i hi).2 j hj)
  have hly : ∀ k, k < n2 → c02w_Lazy ms n (ys.getD k #[]) := by
    intro k hk i hi
    obtain ⟨tw, tm, tn⟩ := htb i hi
    rw [hys k hk i hi]
    exact c02w_nttLazy_lazy tw tn (hB k hk i hi).1 (fun j hj => by rw [tm]; exact (hB k hk i hi).2 j hj)
  obtain ⟨out, hout, hlen, hv⟩ := c02w_tensor_spec hq h1 h2 xs ys hlx hly
  refine ⟨out, hout, fun k hk => ?_⟩
  obtain ⟨hcan, hval⟩ := hv k hk
  rw [c02w_map_getD _ out #[] #[] (by rw [hlen]; exact hk)]
  obtain ⟨_, hmem⟩ := mulPairs_spec h1 h2 hk
  have hcomp : ∀ i, i < ms.size →
      (Array.ofFn (n := ms.size) fun i => intt (tb i.val) ((out.getD k #[]).getD i.val #[])).getD i #[]
        = intt (tb i) ((out.getD k #[]).getD i #[]) := fun i hi => c01o_ofFn_getD _ _ _ hi
  have hconv : ∀ i, i < ms.size → (intt (tb i) ((out.getD k #[]).getD i #[])).size = n ∧ ∀ c, c < n →
      (intt (tb i) ((out.getD k #[]).getD i #[])).getD c 0 < (ms.getD i default).value ∧
      (intt (tb i) ((out.getD k #[]).getD i #[])).getD c 0
        = c02w_convVal n1 n2 n (ms.getD i default).value (fun x => A x i) (fun y => B y i) k c := by
    intro i hi
    obtain ⟨tw, tm, tn⟩ := htb i hi
    have hz : ((out.getD k #[]).getD i #[]).size = 2^(tb i).k := by rw [tn]; exact (hcan.2 i hi).1
    have hzl : ∀ j, j < 2^(tb i).k → ((out.getD k #[]).getD i #[]).getD j 0 < 2 * (tb i).modulus.value := by
      intro j hj
      have := (hcan.2 i hi).2 j (by rw [← tn]; exact hj)
      rw [tm]
      exact Nat.lt_of_lt_of_le this (Nat.le_mul_of_pos_left _ (by norm_num))
    obtain ⟨s1, s2⟩ := intt_sim tw _ hz hzl
    refine ⟨by rw [s1, tn], fun c hc => ⟨?_, ?_⟩⟩
    · have := (s2 c (by rw [tn]; exact hc)).1
      rwa [tm] at this
    · have := c02w_comp_conv tw (fun x => A x i) (fun y => B y i) (mulPairs n1 n2 k)
        (fun p hp => by
          have := (hmem p.1 p.2).mp hp
          rw [tn, tm]; exact hA _ this.1 i hi)
        (fun p hp => by
          have := (hmem p.1 p.2).mp hp
          rw [tn, tm]; exact hB _ this.2.1 i hi)
        hz (fun j hj => by
          rw [tm, hval i hi j (by rw [← tn]; exact hj)]
          congr 2
          apply List.map_congr_left
          intro p hp
          have := (hmem p.1 p.2).mp hp
          rw [hxs _ this.1 i hi, hys _ this.2.1 i hi]) c (by rw [tn]; exact hc)
      rw [tn, tm] at this
      exact this
  refine ⟨⟨by simp; rfl, fun i hi => ?_⟩, fun i hi c hc => ?_⟩
  · rw [hcomp i hi]
    exact ⟨(hconv i hi).1, fun c hc => ((hconv i hi).2 c hc).1⟩
  · rw [hcomp i hi]
    exact ((hconv i hi).2 c hc).2

/-! ## steps (7)–(8): `fastFloor`, `fastbconvSk` -/

theorem c02w_extract_append {β : Type} (a b : Array β) : (a ++ b).extract 0 a.size = a := by
  simp
theorem c02w_extract_size {β : Type} (a : Array β) {m : Nat} (hm : m ≤ a.size) : (a.extract 0 m).size = m := by
  simp; omega
theorem c02w_extract_getD {β : Type} (a : Array β) (d : β) {m i : Nat} (hm : m ≤ a.size) (hi : i < m) :
    (a.extract 0 m).getD i d = a.getD i d := by
  have h1 : i < a.size := by omega
  simp [Array.getD, hi, h1]

/-- canonical polynomial in base Bsk -/
def c02w_BskCanon (r : RNSTool) (p : RnsPoly) : Prop :=
  p.size = r.baseBsk.size ∧ ∀ i, i < r.baseBsk.size → (p.getD i #[]).size = r.n ∧
    ∀ j, j < r.n → (p.getD i #[]).getD j 0 < (r.baseBsk.q i).value

/-- `fast_floor` on residue functions `FQ` (base q) and `FB` (base Bsk) of one coefficient -/
def c02w_floorVal (r : RNSTool) (FQ FB : Nat → Nat → Nat) (i c : Nat) : Nat :=
  fastFloorCoeff (r.baseBsk.q i).value (r.invProdQModBsk.getD i default).operand (FB i c)
    (c02w_crtSum r.baseQ (fun i' => FQ i' c) % (r.baseBsk.q i).value)

/-- `fastbconv_sk` on the residue function `FL` (base Bsk) of one coefficient -/
def c02w_skVal (r : RNSTool) (FL : Nat → Nat → Nat) (i c : Nat) : Nat :=
  fastbconvSkCoeff r.mSk.value (r.baseQ.q i).value r.invProdBModMsk.operand (r.prodBModQ.getD i 0)
    (c02w_crtSum r.baseB (fun i' => FL i' c) % r.mSk.value) (FL r.baseB.size c)
    (c02w_crtSum r.baseB (fun i' => FL i' c) % (r.baseQ.q i).value)

theorem c02w_floorVal_congr (r : RNSTool) {FQ FQ' FB FB' : Nat → Nat → Nat} {i c : Nat}
    (h1 : ∀ i', i' < r.baseQ.size → FQ i' c = FQ' i' c) (h2 : FB i c = FB' i c) :
    c02w_floorVal r FQ FB i c = c02w_floorVal r FQ' FB' i c := by
  unfold c02w_floorVal
  rw [c02w_crtSum_congr r.baseQ h1, h2]

theorem c02w_skVal_congr (r : RNSTool) {FL FL' : Nat → Nat → Nat} {i c : Nat}
    (h : ∀ i', i' ≤ r.baseB.size → FL i' c = FL' i' c) :
    c02w_skVal r FL i c = c02w_skVal r FL' i c := by
  unfold c02w_skVal
  rw [c02w_crtSum_congr r.baseB (fun i' hi' => h i' (Nat.le_of_lt hi')), h _ (Nat.le_refl _)]

theorem c02w_floorVal_lt {r : RNSTool} (hr : c02w_ToolMulOK r) (FQ FB : Nat → Nat → Nat) {i : Nat}
    (hi : i < r.baseBsk.size) (c : Nat) : c02w_floorVal r FQ FB i c < (r.baseBsk.q i).value := by
  unfold c02w_floorVal fastFloorCoeff
  exact Nat.mod_lt _ (by have := (hr.bskwf.mwf i hi).two_le; omega)

theorem c02w_skVal_lt {r : RNSTool} (hr : c02w_ToolMulOK r) (FL : Nat → Nat → Nat) {i : Nat}
    (hi : i < r.baseQ.size) (c : Nat) : c02w_skVal r FL i c < (r.baseQ.q i).value := by
  have h0 : 0 < (r.baseQ.q i).value := by have := (hr.qwf.mwf i hi).two_le; omega
  unfold c02w_skVal fastbconvSkCoeff
  dsimp only
  split <;> exact Nat.mod_lt _ h0

theorem c02w_fastFloor_tool {r : RNSTool} (hr : c02w_ToolMulOK r) {tq tb : RnsPoly}
    (htq : c02w_ToolCanon r tq) (htb : c02w_BskCanon r tb) :
    ∃ fl, r.fastFloor (tq ++ tb) = .ok fl ∧ c02w_BskCanon r fl ∧ ∀ i, i < r.baseBsk.size → ∀ c, c < r.n →
      (fl.getD i #[]).getD c 0 =
        c02w_floorVal r (fun i c => (tq.getD i #[]).getD c 0) (fun i c => (tb.getD i #[]).getD c 0) i c := by
  have hext : (tq ++ tb).extract 0 r.baseQ.size = tq := by rw [← htq.1]; exact c02w_extract_append tq tb
  have hget : ∀ i, (tq ++ tb).getD (r.baseQ.size + i) #[] = tb.getD i #[] := by
    intro i; rw [← htq.1]; exact c02w_getD_append_right tq tb #[] i
  obtain ⟨conv, hconv, _, hcv⟩ := c02w_fca hr.qwf hr.bskwf hr.qToBsk tq r.n htq.1
    (fun i hi j hj => by
      have := (htq.2 i hi).2 j hj
      have := (hr.qwf.mwf i hi).lt
      omega)
  have hqb := (c02w_new_bases hr.qwf hr.bskwf hr.qToBsk)
  obtain ⟨fl, hfl, hv⟩ := fastFloor_spec (r := r) (p := tq ++ tb) (conv := conv) (by rw [hext]; exact hconv)
    (fun i hi => ⟨hr.bskwf.mwf i hi, (hr.bsk i hi).2.2.2.2.1⟩)
    (fun i hi => by rw [hget]; exact (htb.2 i hi).1)
    (fun i j hi hj => by
      rw [hget]
      have := (htb.2 i hi).2 j hj
      have := (hr.bskwf.mwf i hi).lt
      omega)
    (fun i j hi hj => by
      rw [(hcv i hi).2 j hj]
      exact Nat.le_of_lt (Nat.mod_lt _ (by have := (hr.bskwf.mwf i hi).two_le; omega)))
  obtain ⟨s1, s2⟩ := c02w_fastFloor_shape hfl
  have hval : ∀ i, i < r.baseBsk.size → ∀ c, c < r.n → (fl.getD i #[]).getD c 0 =
      c02w_floorVal r (fun i c => (tq.getD i #[]).getD c 0) (fun i c => (tb.getD i #[]).getD c 0) i c := by
    intro i hi c hc
    rw [hv i c hi hc, hget, (hcv i hi).2 c hc]
    rfl
  refine ⟨fl, hfl, ⟨s1, fun i hi => ⟨by rw [s2 i hi, hget]; exact (htb.2 i hi).1, fun c hc => ?_⟩⟩, hval⟩
  rw [hval i hi c hc]
  exact c02w_floorVal_lt hr _ _ hi c

theorem c02w_fastbconvSk_tool {r : RNSTool} (hr : c02w_ToolMulOK r) {fl : RnsPoly} (hfl : c02w_BskCanon r fl) :
    ∃ out, r.fastbconvSk fl = .ok out ∧ c02w_ToolCanon r out ∧ ∀ i, i < r.baseQ.size → ∀ c, c < r.n →
      (out.getD i #[]).getD c 0 = c02w_skVal r (fun i c => (fl.getD i #[]).getD c 0) i c := by
  obtain ⟨bMsk, hbMsk, hbMsk1, hbMsk0, hcMsk⟩ := hr.bToMsk
  have hmsk := hr.mskwf
  have hle : r.baseB.size ≤ fl.size := by rw [hfl.1, hr.bsk_size]; omega
  have hsz := c02w_extract_size fl hle
  have hxl : ∀ i, i < r.baseB.size → ∀ j, j < r.n → ((fl.extract 0 r.baseB.size).getD i #[]).getD j 0 < 2^64 := by
    intro i hi j hj
    rw [c02w_extract_getD fl #[] hle hi]
    have hi' : i < r.baseBsk.size := by rw [hr.bsk_size]; omega
    have := (hfl.2 i hi').2 j hj
    have := (hr.bskwf.mwf i hi').lt
    omega
  have hsum : ∀ j, c02w_crtSum r.baseB (fun i' => ((fl.extract 0 r.baseB.size).getD i' #[]).getD j 0)
      = c02w_crtSum r.baseB (fun i' => (fl.getD i' #[]).getD j 0) :=
    fun j => c02w_crtSum_congr _ (fun i hi => by rw [c02w_extract_getD fl #[] hle hi])
  obtain ⟨dest, hdest, _, hdv⟩ := c02w_fca hr.bwf hr.qwf hr.bToQ (fl.extract 0 r.baseB.size) r.n hsz hxl
  obtain ⟨temp, htemp, _, htv⟩ := c02w_fca hr.bwf hbMsk hcMsk (fl.extract 0 r.baseB.size) r.n hsz hxl
  obtain ⟨t1, t2⟩ := htv 0 (by omega)
  have hlast : r.baseB.size < r.baseBsk.size := by rw [hr.bsk_size]; omega
  obtain ⟨out, hout, hv⟩ := fastbconvSk_spec (r := r) (p := fl) (dest := dest) (temp := temp) hdest htemp hmsk hr.invB.1
    (fun i hi => by
      obtain ⟨e1, e2⟩ := hr.pbq i hi
      have hqi := hr.qwf.mwf i hi
      exact ⟨hqi, e2, by rw [e1]; exact Nat.mod_lt _ (by have := hqi.two_le; omega)⟩)
    t1
    (fun j hj => by
      rw [t2 j hj, hbMsk0]
      have := Nat.mod_lt (c02w_crtSum r.baseB fun i' => ((fl.extract 0 r.baseB.size).getD i' #[]).getD j 0)
        (show 0 < r.mSk.value by have := hmsk.two_le; omega)
      have := hmsk.lt
      omega)
    (fun j hj => by
      have := (hfl.2 _ hlast).2 j hj
      rw [hr.bsk_last] at this
      omega)
    (fun i j hi hj => by
      rw [(hdv i hi).2 j hj]
      have hqi := hr.qwf.mwf i hi
      have := Nat.mod_lt (c02w_crtSum r.baseB fun i' => ((fl.extract 0 r.baseB.size).getD i' #[]).getD j 0)
        (show 0 < (r.baseQ.q i).value by have := hqi.two_le; omega)
      have := hqi.lt
      omega)
  obtain ⟨s1, s2⟩ := c02w_fastbconvSk_shape hout htemp
  have hval : ∀ i, i < r.baseQ.size → ∀ c, c < r.n →
      (out.getD i #[]).getD c 0 = c02w_skVal r (fun i c => (fl.getD i #[]).getD c 0) i c := by
    intro i hi c hc
    rw [hv i c hi hc, t2 c hc, (hdv i hi).2 c hc, hsum, hbMsk0]
    rfl
  refine ⟨out, hout, ⟨s1, fun i hi => ⟨by rw [s2 i hi, t1], fun c hc => ?_⟩⟩, hval⟩
  rw [hval i hi c hc]
  exact c02w_skVal_lt hr _ hi c

/-! ## steps (6)–(8) at the level, and the assembly -/

/-- the residue the model returns, as a function of the residues `DQ` (base q) and `DB` (base Bsk) after step (5) -/
def c02w_outVal (l : Level) (DQ DB : Nat → Nat → Nat) (i c : Nat) : Nat :=
  c02w_skVal l.tool (c02w_floorVal l.tool
    (fun i c => (DQ i c * l.t.value) % (l.tool.baseQ.q i).value)
    (fun i c => (DB i c * l.t.value) % (l.tool.baseBsk.q i).value)) i c

theorem c02w_outVal_congr (l : Level) {DQ DQ' DB DB' : Nat → Nat → Nat} {i c : Nat}
    (h1 : ∀ i', i' < l.tool.baseQ.size → DQ i' c = DQ' i' c)
    (h2 : ∀ i', i' ≤ l.tool.baseB.size → DB i' c = DB' i' c) :
    c02w_outVal l DQ DB i c = c02w_outVal l DQ' DB' i c := by
  unfold c02w_outVal
  apply c02w_skVal_congr
  intro i' hi'
  apply c02w_floorVal_congr
  · intro i'' hi''
    show (DQ i'' c * _) % _ = (DQ' i'' c * _) % _
    rw [h1 i'' hi'']
  · show (DB i' c * _) % _ = (DB' i' c * _) % _
    rw [h2 i' hi']

theorem c02w_rnsCanon_of_tool {l : Level} {T : Array NTTTables} (hm : MulOK l T) {p : RnsPoly}
    (hp : c02w_ToolCanon l.tool p) : RnsCanon l p := by
  refine ⟨by rw [← c02w_base_size hm]; exact hp.1, fun i hi => ?_⟩
  rw [← c02w_base_size hm] at hi
  have := hp.2 i hi
  rw [hm.n_eq, c02w_base_q hm] at this
  exact this

theorem c02w_bskCanon_of_lv {l : Level} {T : Array NTTTables} (hm : MulOK l T) {p : RnsPoly}
    (hp : RnsCanon (c02w_lv l.tool.baseBsk.base l.n) p) : c02w_BskCanon l.tool p := by
  refine ⟨hp.1, fun i hi => ?_⟩
  rw [hm.n_eq]
  exact hp.2 i hi

theorem c02w_bsk_qsWF {l : Level} {T : Array NTTTables} (hm : MulOK l T) :
    c02v_QsWF (c02w_lv l.tool.baseBsk.base l.n) := fun i hi => hm.tool.bskwf.mwf i hi

theorem c02w_q_qsWF {l : Level} {T : Array NTTTables} (hm : MulOK l T) : c02v_QsWF (c02w_lv l.qs l.n) :=
  fun i hi => c02v_qsWF_of_levelWF hm.lwf i hi

theorem c02w_finish_spec {l : Level} {T : Array NTTTables} (hm : MulOK l T) (dq db : List RnsPoly) (k : Nat)
    (hdq : RnsCanon l (dq.getD k #[])) (hdb : RnsCanon (c02w_lv l.tool.baseBsk.base l.n) (db.getD k #[])) :
    ∃ out, c02w_finish l dq db k = .ok out ∧ RnsCanon l out ∧ ∀ i, i < l.size → ∀ c, c < l.n →
      (out.getD i #[]).getD c 0 =
        c02w_outVal l (fun i c => ((dq.getD k #[]).getD i #[]).getD c 0) (fun i c => ((db.getD k #[]).getD i #[]).getD c 0) i c := by
  obtain ⟨tq, htq, ctq, vtq⟩ := c02v_compsMap_spec (c02v_qsWF_of_levelWF hm.lwf) hm.t_lt hdq
  obtain ⟨tb, htb, ctb, vtb⟩ := c02v_compsMap_spec (c02w_bsk_qsWF hm) hm.t_lt hdb
  obtain ⟨fl, hfl, cfl, vfl⟩ := c02w_fastFloor_tool hm.tool (c02w_toolCanon hm ctq) (c02w_bskCanon_of_lv hm ctb)
  obtain ⟨out, hout, cout, vout⟩ := c02w_fastbconvSk_tool hm.tool cfl
  refine ⟨out, ?_, c02w_rnsCanon_of_tool hm cout, fun i hi c hc => ?_⟩
  · unfold c02w_finish
    rw [htq, ok_bind]
    have e : compsMap l.tool.baseBsk.base (db.getD k #[]) (fun x m => mulMod x l.t.value m) = .ok tb := htb
    rw [e, ok_bind, hfl, ok_bind, hout]
  · rw [vout i (by rw [c02w_base_size hm]; exact hi) c (by rw [hm.n_eq]; exact hc)]
    unfold c02w_outVal
    apply c02w_skVal_congr
    intro i' hi'
    have hi'' : i' < l.tool.baseBsk.size := by rw [hm.tool.bsk_size]; omega
    show (fl.getD i' #[]).getD c 0 = _
    rw [vfl i' hi'' c (by rw [hm.n_eq]; exact hc)]
    apply c02w_floorVal_congr
    · intro i'' hi''
      rw [c02w_base_size hm] at hi''
      show (tq.getD i'' #[]).getD c 0 = _
      rw [vtq i'' hi'' c hc, c02w_base_q hm]
    · show (tb.getD i' #[]).getD c 0 = _
      exact vtb i' hi'' c hc

/-- residue `c` of component `i` of output polynomial `k` of `bfvMultiply l T a b`, in closed form:
    negacyclic products in q and in Bsk (of the Montgomery-reduced lifts), times t, fast floor, Shenoy–Kumaresan -/
def c02w_mulVal (l : Level) (a b : Ct) (k i c : Nat) : Nat :=
  c02w_outVal l
    (fun i c => c02w_convVal a.polys.size b.polys.size l.n (l.tool.baseQ.q i).value
      (fun x => (a.polys.getD x #[]).getD i #[]) (fun y => (b.polys.getD y #[]).getD i #[]) k c)
    (fun i c => c02w_convVal a.polys.size b.polys.size l.n (l.tool.baseBsk.q i).value
      (fun x => c02w_liftArr l.tool (a.polys.getD x #[]) i) (fun y => c02w_liftArr l.tool (b.polys.getD y #[]) i) k c) i c

theorem c02w_core {l : Level} {T : Array NTTTables} (hm : MulOK l T) {a b : Ct}
    (ha : ∀ k, k < a.polys.size → RnsCanon l (a.polys.getD k #[]))
    (hb : ∀ k, k < b.polys.size → RnsCanon l (b.polys.getD k #[]))
    (hna : a.ntt = false) (hnb : b.ntt = false) (h1 : 1 ≤ a.polys.size) (h2 : 1 ≤ b.polys.size)
    (hsz : ctResizeRefuses (a.polys.size + b.polys.size - 1) = false) :
    ∃ outs : List RnsPoly, bfvMultiply l T a b = .ok { a with polys := outs.toArray } ∧
      outs.length = a.polys.size + b.polys.size - 1 ∧
      ∀ k, k < a.polys.size + b.polys.size - 1 → RnsCanon l (outs.getD k #[]) ∧
        ∀ i, i < l.size → ∀ c, c < l.n → ((outs.getD k #[]).getD i #[]).getD c 0 = c02w_mulVal l a b k i c := by
  obtain ⟨ab, hA, hAl, hAv⟩ := c02w_lift_spec hm ha
  obtain ⟨bb, hB, hBl, hBv⟩ := c02w_lift_spec hm hb
  -- base q
  obtain ⟨dq, hdq, vdq⟩ := c02w_family (c02w_q_qsWF hm) l.tbl
    (fun i hi => by
      obtain ⟨tw, tm, tn, _⟩ := c01o_level_comp hm.lwf hi
      exact ⟨tw, by rw [(hm.lwf.twf i hi).2.1]; rfl, tn⟩)
    h1 h2 (fun x i => (a.polys.getD x #[]).getD i #[]) (fun y i => (b.polys.getD y #[]).getD i #[])
    (fun k hk i hi => (ha k hk).2 i hi) (fun k hk i hi => (hb k hk).2 i hi)
    (a.polys.toList.map (c02w_liftQ l)) (b.polys.toList.map (c02w_liftQ l))
    (fun k hk i hi => by
      rw [c02w_map_getD _ _ #[] #[] (by simpa using hk), c02v_toList_getD, c02w_liftQ_getD l _ hi])
    (fun k hk i hi => by
      rw [c02w_map_getD _ _ #[] #[] (by simpa using hk), c02v_toList_getD, c02w_liftQ_getD l _ hi])
  -- base Bsk
  obtain ⟨db, hdb, vdb⟩ := c02w_family (ms := l.tool.baseBsk.base) (n := l.n) (c02w_bsk_qsWF hm) (fun i => T.getD i default)
    (fun i hi => by
      obtain ⟨tw, tm, tk⟩ := hm.ttbl i hi
      exact ⟨tw, tm, by rw [tk, hm.lwf.npow]⟩)
    h1 h2 (fun x i => c02w_liftArr l.tool (a.polys.getD x #[]) i) (fun y i => c02w_liftArr l.tool (b.polys.getD y #[]) i)
    (fun k _ i hi => ⟨by rw [c02w_liftArr_size, hm.n_eq], fun j hj => by
      rw [c02w_liftArr_getD _ _ _ (by rw [hm.n_eq]; exact hj)]; exact c02w_liftVal_lt hm.tool _ hi j⟩)
    (fun k _ i hi => ⟨by rw [c02w_liftArr_size, hm.n_eq], fun j hj => by
      rw [c02w_liftArr_getD _ _ _ (by rw [hm.n_eq]; exact hj)]; exact c02w_liftVal_lt hm.tool _ hi j⟩)
    ab bb (fun k hk i hi => hAv k hk i hi) (fun k hk i hi => hBv k hk i hi)
  generalize hdq' : (dq.map fun p => Array.ofFn (n := l.qs.size) fun i => intt (l.tbl i.val) (p.getD i.val #[])) = dq' at vdq
  generalize hdb' : (db.map fun p => Array.ofFn (n := l.tool.baseBsk.base.size) fun i =>
      intt (T.getD i.val default) (p.getD i.val #[])) = db' at vdb
  obtain ⟨outs, houts, hall⟩ := c02v_mapM_ok
    (fun (k : Nat) (y : RnsPoly) => RnsCanon l y ∧ ∀ i, i < l.size → ∀ c, c < l.n →
      (y.getD i #[]).getD c 0 = c02w_mulVal l a b k i c)
    (c02w_finish l dq' db') (List.range (a.polys.size + b.polys.size - 1)) (fun k hk => by
      have hk := List.mem_range.mp hk
      obtain ⟨out, hout, cout, vout⟩ := c02w_finish_spec hm dq' db' k (vdq k hk).1 (vdb k hk).1
      refine ⟨out, hout, cout, fun i hi c hc => ?_⟩
      rw [vout i hi c hc]
      unfold c02w_mulVal
      apply c02w_outVal_congr
      · intro i' hi'
        rw [c02w_base_size hm] at hi'
        show ((dq'.getD k #[]).getD i' #[]).getD c 0 = _
        rw [(vdq k hk).2 i' hi' c hc, c02w_base_q hm]
        rfl
      · intro i' hi'
        show ((db'.getD k #[]).getD i' #[]).getD c 0 = _
        rw [(vdb k hk).2 i' (show i' < l.tool.baseBsk.size by rw [hm.tool.bsk_size]; omega) c hc]
        rfl)
  have hlen : outs.length = a.polys.size + b.polys.size - 1 := by rw [← hall.length_eq]; simp
  refine ⟨outs, ?_, hlen, fun k hk => ?_⟩
  · rw [c02w_bfvMultiply_eq, if_neg (by simp [hna, hnb]), if_neg (by simp [hsz]), hA, ok_bind, hB, ok_bind, if_neg (by omega)]
    dsimp only
    rw [hdq, ok_bind, hdb, ok_bind, hdq', hdb', houts]
    rfl
  · have := c02v_forall2_getD hall 0 #[] (k := k) (by simpa using hk)
    rw [c02w_range_getD hk] at this
    exact this

/-! ## `c02w_ToolMulOK` from the constructor `RNSTool.new` -/

/-- everything `RNSTool.new` does for the constants of `bfv_multiply` (t ≠ 0), read off its definition -/
theorem c02w_new_inv {n : Nat} {q : RNSBase} {t : Modulus} {aux : List Modulus} {r : RNSTool}
    (h : RNSTool.new n q t aux = .ok r) (ht0 : ¬ t.value = 0) :
    ∃ (mTilde : Modulus) (baseB baseBsk bMt bMsk : RNSBase) (pbq : List Nat) (ipq imt : List MulOperand)
      (tb tq : Nat) (pqb : List Nat),
      1 ≤ q.size ∧ q.size ≤ 64 ∧
      baseBSize q.size t.bits (bitCount q.prod) + 2 ≤ aux.length ∧
      Modulus.mk? (2^32) = .ok mTilde ∧
      RNSBase.new ((aux.drop 2).take (baseBSize q.size t.bits (bitCount q.prod))) = .ok baseB ∧
      RNSBase.new ((aux.drop 2).take (baseBSize q.size t.bits (bitCount q.prod)) ++ [aux.getD 0 default]) = .ok baseBsk ∧
      BaseConverter.new q baseBsk = .ok r.qToBsk ∧
      RNSBase.new [mTilde] = .ok bMt ∧ BaseConverter.new q bMt = .ok r.qToMt ∧
      BaseConverter.new baseB q = .ok r.bToQ ∧
      RNSBase.new [aux.getD 0 default] = .ok bMsk ∧ BaseConverter.new baseB bMsk = .ok r.bToMsk ∧
      q.base.toList.mapM (fun m => moduloUint (limbsOf baseB.size baseB.prod) m) = .ok pbq ∧
      baseBsk.base.toList.mapM (fun m => do
          let t ← moduloUint (limbsOf q.size q.prod) m
          let o ← tryInvert t m.value
          match o with
          | none => .error .refused
          | some iv => MulOperand.new iv m) = .ok ipq ∧
      moduloUint (limbsOf baseB.size baseB.prod) (aux.getD 0 default) = .ok tb ∧
      (do let o ← tryInvert tb (aux.getD 0 default).value
          match o with
          | none => .error .refused
          | some iv => MulOperand.new iv (aux.getD 0 default) : R MulOperand) = .ok r.invProdBModMsk ∧
      baseBsk.base.toList.mapM (fun m => do
          let r ← barrett64 mTilde.value m
          let o ← tryInvert r m.value
          match o with
          | none => .error .refused
          | some iv => MulOperand.new iv m) = .ok imt ∧
      moduloUint (limbsOf q.size q.prod) mTilde = .ok tq ∧
      (do let o ← tryInvert tq mTilde.value
          match o with
          | none => .error .refused
          | some iv => do
            let ng ← negateMod iv mTilde
            MulOperand.new ng mTilde : R MulOperand) = .ok r.negInvProdQModMt ∧
      baseBsk.base.toList.mapM (fun m => moduloUint (limbsOf q.size q.prod) m) = .ok pqb ∧
      r.n = n ∧ r.baseQ = q ∧ r.baseB = baseB ∧ r.baseBsk = baseBsk ∧ r.mTilde = mTilde ∧ r.mSk = aux.getD 0 default ∧
      r.prodBModQ = pbq.toArray ∧ r.invProdQModBsk = ipq.toArray ∧ r.invMtModBsk = imt.toArray ∧
      r.prodQModBsk = pqb.toArray := by
  unfold RNSTool.new at h
  split at h
  · cases h
  rename_i hqs
  split at h
  · cases h
  dsimp only at h
  split at h
  · cases h
  rename_i hlen
  obtain ⟨mTilde, hmt, h1⟩ := c01p_bind_ok h; clear h
  obtain ⟨baseB, hbB, h⟩ := c01p_bind_ok h1; clear h1
  obtain ⟨baseBsk, hbBsk, h1⟩ := c01p_bind_ok h; clear h
  obtain ⟨baseBskMt, hbBskMt, h⟩ := c01p_bind_ok h1; clear h1
  obtain ⟨btg, hbtg, h1⟩ := c01p_bind_ok h; clear h
  rw [c01p_pure_bind] at h1
  obtain ⟨bt, hbt, h⟩ := c01p_bind_ok h1; clear h1
  obtain ⟨cT, hcT, h1⟩ := c01p_bind_ok h; clear h
  rw [c01p_pure_bind] at h1
  obtain ⟨qToBsk, hqToBsk, h⟩ := c01p_bind_ok h1; clear h1
  obtain ⟨bMt, hbMt, h1⟩ := c01p_bind_ok h; clear h
  obtain ⟨qToMt, hqToMt, h⟩ := c01p_bind_ok h1; clear h1
  obtain ⟨bToQ, hbToQ, h1⟩ := c01p_bind_ok h; clear h
  obtain ⟨bMsk, hbMsk, h⟩ := c01p_bind_ok h1; clear h1
  obtain ⟨bToMsk, hbToMsk, h1⟩ := c01p_bind_ok h; clear h
  dsimp only at h1
  obtain ⟨conv, hconv, h⟩ := c01p_bind_ok h1; clear h1
  rw [c01p_pure_bind] at h
  obtain ⟨prodBModQ, hprodBModQ, h1⟩ := c01p_bind_ok h; clear h
  obtain ⟨invProdQModBsk, hinvProdQModBsk, h⟩ := c01p_bind_ok h1; clear h1
  obtain ⟨tb, htb, h1⟩ := c01p_bind_ok h; clear h
  obtain ⟨invProdBModMsk, hinvProdBModMsk, h⟩ := c01p_bind_ok h1; clear h1
  obtain ⟨invMtModBsk, hinvMtModBsk, h1⟩ := c01p_bind_ok h; clear h
  obtain ⟨tq, htq, h⟩ := c01p_bind_ok h1; clear h1
  obtain ⟨otq, hotq, h1⟩ := c01p_bind_ok h; clear h
  cases otq with
  | none => cases h1
  | some ivq =>
  dsimp only at h1
  obtain ⟨ngq, hngq, h⟩ := c01p_bind_ok h1; clear h1
  obtain ⟨negInv, hnegInv, h1⟩ := c01p_bind_ok h; clear h
  obtain ⟨prodQModBsk, hprodQModBsk, h⟩ := c01p_bind_ok h1; clear h1
  obtain ⟨g, hg, h1⟩ := c01p_bind_ok h; clear h
  obtain ⟨ig, hig, h⟩ := c01p_bind_ok h1; clear h1
  obtain ⟨ptg, hptg, h1⟩ := c01p_bind_ok h; clear h
  obtain ⟨niq, hniq, h⟩ := c01p_bind_ok h1; clear h1
  rw [c01p_pure_bind] at h
  dsimp only at h
  obtain ⟨invQLastModQ, hinvQLastModQ, h1⟩ := c01p_bind_ok h; clear h
  obtain ⟨oql, hoql, h⟩ := c01p_bind_ok h1; clear h1
  cases oql with
  | none => cases h
  | some ivl =>
  dsimp only at h
  rw [c01p_pure_bind] at h
  injection h with h
  subst h
  have hneg' : (do let o ← tryInvert tq mTilde.value
                   match o with
                   | none => .error .refused
                   | some iv => do
                     let ng ← negateMod iv mTilde
                     MulOperand.new ng mTilde : R MulOperand) = .ok negInv := by
    rw [hotq, ok_bind]
    dsimp only
    rw [hngq, ok_bind]
    exact hnegInv
  exact ⟨mTilde, baseB, baseBsk, bMt, bMsk, prodBModQ, invProdQModBsk, invMtModBsk, tb, tq, prodQModBsk,
    by omega, by omega, by omega, hmt, hbB, hbBsk, hqToBsk, hbMt, hqToMt, hbToQ, hbMsk, hbToMsk, hprodBModQ,
    hinvProdQModBsk, htb, hinvProdBModMsk, hinvMtModBsk, htq, hneg', hprodQModBsk,
    rfl, rfl, rfl, rfl, rfl, rfl, rfl, rfl, rfl, rfl⟩

theorem c02w_mapM_base_get {β : Type} {b : RNSBase} {F : Modulus → R β} {ys : List β} (d : β)
    (h : b.base.toList.mapM F = .ok ys) :
    ys.length = b.size ∧ ∀ i, i < b.size → F (b.q i) = .ok (ys.toArray.getD i d) := by
  have hF := RNSH.mapM_ok_inv _ _ _ h
  have hl : ys.length = b.size := by rw [← hF.length_eq]; simp [RNSBase.size]
  refine ⟨hl, fun i hi => ?_⟩
  have := c02v_forall2_getD hF (⟨0,0,0,0,0⟩ : Modulus) d (k := i) (by simpa [RNSBase.size] using hi)
  rw [c02v_toList_getD, ← c02v_toArray_getD] at this
  exact this

theorem c02w_inv_mod {op g b : Nat} (h : (op * (g % b)) % b = 1) : (op * g) % b = 1 := by
  rwa [Nat.mul_mod_mod] at h

theorem c02w_coprime_of_inv {x Q b : Nat} (h : (x * Q) % b = 1) (hb : 2 ≤ b) : Nat.Coprime Q b := by
  have : Q * x ≡ 1 [MOD b] := by
    unfold Nat.ModEq
    rw [Nat.mul_comm, h, Nat.mod_eq_of_lt (by omega)]
  exact Nat.coprime_of_mul_modEq_one x this

theorem c02w_baseBSize_le (k tb tot : Nat) : k ≤ baseBSize k tb tot ∧ baseBSize k tb tot ≤ k + 1 := by
  unfold baseBSize
  split <;> omega

theorem c02w_base_q_of_list {b : RNSBase} {ms : List Modulus} (hb : b.base = ms.toArray) (i : Nat) :
    b.q i = ms.getD i ⟨0,0,0,0,0⟩ := by
  unfold RNSBase.q
  rw [hb, c02v_toArray_getD]

/-- `RNSTool.new` (t ≠ 0, at most 62 moduli, auxiliary moduli well formed and at least 2^32) establishes `c02w_ToolMulOK` -/
theorem c02w_toolMulOK_of_new {n : Nat} {q : RNSBase} {t : Modulus} {aux : List Modulus} {r : RNSTool}
    (hq : q.WF) (hq62 : q.size ≤ 62) (ht0 : ¬ t.value = 0) (haux : ∀ m ∈ aux, m.WF ∧ 2^32 ≤ m.value)
    (h : RNSTool.new n q t aux = .ok r) :
    c02w_ToolMulOK r ∧ r.n = n ∧ r.baseQ = q ∧
      r.baseB.size = baseBSize q.size t.bits (bitCount q.prod) ∧ (∀ i, i < r.baseBsk.size → r.baseBsk.q i ∈ aux) := by
  obtain ⟨mTilde, baseB, baseBsk, bMt, bMsk, pbq, ipq, imt, tb, tq, pqb, hq1, _, hlen, hmt, hbB, hbBsk, hqToBsk, hbMt,
    hqToMt, hbToQ, hbMsk, hbToMsk, hpbq, hipq, htb, hinvB, himt, htq, hneg, hpqb,
    rn, rq, rB, rBsk, rmt, rmsk, rpbq, ripq, rimt, rpqb⟩ := c02w_new_inv h ht0
  obtain ⟨hbs1, hbs2⟩ := c02w_baseBSize_le q.size t.bits (bitCount q.prod)
  generalize hbSz : baseBSize q.size t.bits (bitCount q.prod) = bSize at *
  generalize hbP : (aux.drop 2).take bSize = bP at *
  have hbPlen : bP.length = bSize := by rw [← hbP, List.length_take, List.length_drop]; omega
  have hbPmem : ∀ m ∈ bP, m ∈ aux := by
    intro m hm; rw [← hbP] at hm
    exact List.mem_of_mem_drop (List.mem_of_mem_take hm)
  have hmsk_mem : aux.getD 0 default ∈ aux := by
    have e : aux.getD 0 default = aux[0] := by
      simp [List.getD, List.getElem?_eq_getElem (by omega : 0 < aux.length)]
    rw [e]; exact List.getElem_mem _
  generalize hmskdef : aux.getD 0 default = mSk at *
  obtain ⟨hmskwf, hmsk32⟩ := haux mSk hmsk_mem
  obtain ⟨hmtwf, hmtv⟩ := Modulus.mk?_wf hmt (by norm_num)
  obtain ⟨hBwf, hBbase⟩ := RNSBase.new_wf (ms := bP) (fun m hm => (haux m (hbPmem m hm)).1) (by omega) hbB
  obtain ⟨hBskwf, hBskbase⟩ := RNSBase.new_wf (ms := bP ++ [mSk])
    (fun m hm => by
      rcases List.mem_append.mp hm with h1 | h1
      · exact (haux m (hbPmem m h1)).1
      · simp only [List.mem_cons, List.not_mem_nil, or_false] at h1; rw [h1]; exact hmskwf)
    (by simp; omega) hbBsk
  obtain ⟨hMtwf, hMtbase⟩ := RNSBase.new_wf (ms := [mTilde])
    (fun m hm => by simp only [List.mem_cons, List.not_mem_nil, or_false] at hm; rw [hm]; exact hmtwf) (by simp) hbMt
  obtain ⟨hMskwf, hMskbase⟩ := RNSBase.new_wf (ms := [mSk])
    (fun m hm => by simp only [List.mem_cons, List.not_mem_nil, or_false] at hm; rw [hm]; exact hmskwf) (by simp) hbMsk
  have hBsz : baseB.size = bSize := by unfold RNSBase.size; rw [hBbase]; simpa using hbPlen
  have hBsksz : baseBsk.size = bSize + 1 := by unfold RNSBase.size; rw [hBskbase]; simp [hbPlen]
  have hBskq : ∀ i, i < bSize → baseBsk.q i = baseB.q i := by
    intro i hi
    rw [c02w_base_q_of_list hBskbase, c02w_base_q_of_list hBbase]
    simp [List.getD, List.getElem?_append_left (by omega : i < bP.length)]
  have hBsklast : baseBsk.q bSize = mSk := by
    rw [c02w_base_q_of_list hBskbase]
    simp [List.getD, ← hbPlen]
  have hBskmem : ∀ i, i < baseBsk.size → baseBsk.q i ∈ aux := by
    intro i hi
    rcases Nat.lt_or_ge i bSize with h1 | h1
    · rw [hBskq i h1, c02w_base_q_of_list hBbase]
      apply hbPmem
      have e : bP.getD i ⟨0,0,0,0,0⟩ = bP[i] := by simp [List.getD, List.getElem?_eq_getElem (by omega : i < bP.length)]
      rw [e]; exact List.getElem_mem _
    · have : i = bSize := by omega
      rw [this, hBsklast]; exact hmsk_mem
  have hQlt := hq.prod_lt
  have hBlt := hBwf.prod_lt
  -- per-modulus constants of Bsk
  obtain ⟨_, gpqb⟩ := c02w_mapM_base_get 0 hpqb
  obtain ⟨_, gipq⟩ := c02w_mapM_base_get default hipq
  obtain ⟨_, gimt⟩ := c02w_mapM_base_get default himt
  obtain ⟨_, gpbq⟩ := c02w_mapM_base_get 0 hpbq
  have hbsk : ∀ i, i < baseBsk.size →
      mTilde.value ≤ (baseBsk.q i).value ∧
      pqb.toArray.getD i 0 = q.prod % (baseBsk.q i).value ∧
      WFOp (baseBsk.q i) (imt.toArray.getD i default) ∧
      ((imt.toArray.getD i default).operand * mTilde.value) % (baseBsk.q i).value = 1 ∧
      WFOp (baseBsk.q i) (ipq.toArray.getD i default) ∧
      ((ipq.toArray.getD i default).operand * q.prod) % (baseBsk.q i).value = 1 := by
    intro i hi
    have hbw := hBskwf.mwf i hi
    have hb2 := hbw.two_le
    have hb61 := hbw.lt
    have h32 := (haux _ (hBskmem i hi)).2
    have e1 := gpqb i hi
    rw [RNSH.moduloUint_limbs hbw (by omega : 0 < q.size) hQlt] at e1
    injection e1 with e1
    have e2 := gimt i hi
    rw [barrett64_exact hbw (by rw [hmtv]; norm_num), ok_bind] at e2
    obtain ⟨w2, i2⟩ := c01p_invOf_spec hbw
      (by have := Nat.mod_lt mTilde.value (show 0 < (baseBsk.q i).value by omega); omega) e2
    have e3 := gipq i hi
    rw [RNSH.moduloUint_limbs hbw (by omega : 0 < q.size) hQlt, ok_bind] at e3
    obtain ⟨w3, i3⟩ := c01p_invOf_spec hbw
      (by have := Nat.mod_lt q.prod (show 0 < (baseBsk.q i).value by omega); omega) e3
    exact ⟨by rw [hmtv]; exact h32, e1.symm, w2, c02w_inv_mod i2, w3, c02w_inv_mod i3⟩
  -- inverse of B modulo m_sk
  rw [RNSH.moduloUint_limbs hmskwf (by omega : 0 < baseB.size) hBlt] at htb
  injection htb with htb
  obtain ⟨wB, iB⟩ := c01p_invOf_spec hmskwf
    (by have := Nat.mod_lt baseB.prod (show 0 < mSk.value by have := hmskwf.two_le; omega)
        have := hmskwf.lt; omega) hinvB
  rw [← htb] at iB
  -- negated inverse of Q modulo m̃
  have hnegspec := c01p_negInv_spec hmtwf (by omega : 0 < q.size) hQlt (o := r.negInvProdQModMt) (by
    rw [htq, ok_bind]; exact hneg)
  -- B modulo q_i
  have hcop : ∀ i, i < q.size → Nat.Coprime (q.q i).value baseB.prod := by
    intro i hi
    rw [hBwf.prod_eq]
    apply Nat.coprime_list_prod_right_iff.mpr
    intro x hx
    simp only [List.mem_map, List.mem_range] at hx
    obtain ⟨j, hj, rfl⟩ := hx
    rw [hBsz] at hj
    have hj' : j < baseBsk.size := by omega
    obtain ⟨_, _, _, _, _, i3⟩ := hbsk j hj'
    have hc := c02w_coprime_of_inv i3 (hBskwf.mwf j hj').two_le
    rw [hBskq j hj] at hc
    exact Nat.Coprime.coprime_dvd_left (hq.q_dvd_prod hi) hc
  have hpbqv : ∀ i, i < q.size → pbq.toArray.getD i 0 = baseB.prod % (q.q i).value ∧ 0 < pbq.toArray.getD i 0 := by
    intro i hi
    have hqw := hq.mwf i hi
    have e1 := gpbq i hi
    rw [RNSH.moduloUint_limbs hqw (by omega : 0 < baseB.size) hBlt] at e1
    injection e1 with e1
    refine ⟨e1.symm, ?_⟩
    rw [← e1]
    apply Nat.pos_of_ne_zero
    intro h0
    have hd : (q.q i).value ∣ baseB.prod := Nat.dvd_of_mod_eq_zero h0
    have := Nat.eq_one_of_dvd_coprimes (hcop i hi) (dvd_refl _) hd
    have := hqw.two_le
    omega
  refine ⟨⟨by rw [rq]; exact hq, by rw [rB]; exact hBwf, by rw [rBsk]; exact hBskwf, ?_, ?_, ?_,
    by rw [rmt]; exact hmtwf, by rw [rmt]; exact hmtv, by rw [rq, rBsk]; exact hqToBsk, ?_, by rw [rB, rq]; exact hbToQ, ?_, ?_, ?_, ?_, ?_⟩,
    rn, rq, by rw [rB]; exact hBsz, by rw [rBsk]; exact hBskmem⟩
  · rw [rBsk, rB, hBsksz, hBsz]
  · intro i hi; rw [rB, hBsz] at hi; rw [rBsk, rB]; exact hBskq i hi
  · rw [rBsk, rB, rmsk, hBsz]; exact hBsklast
  · refine ⟨bMt, hMtwf, ?_, ?_, by rw [rq]; exact hqToMt⟩
    · unfold RNSBase.size; rw [hMtbase]; rfl
    · rw [rmt, c02w_base_q_of_list hMtbase]; rfl
  · refine ⟨bMsk, hMskwf, ?_, ?_, by rw [rB]; exact hbToMsk⟩
    · unfold RNSBase.size; rw [hMskbase]; rfl
    · rw [rmsk, c02w_base_q_of_list hMskbase]; rfl
  · rw [rmt, rq]; exact hnegspec
  · intro i hi
    rw [rBsk] at hi ⊢
    rw [rmt, rpqb, rimt, ripq, rq]
    exact hbsk i hi
  · rw [rmsk, rB]; exact ⟨wB, c02w_inv_mod iB⟩
  · intro i hi
    rw [rq] at hi ⊢
    rw [rpbq, rB]
    exact hpbqv i hi

/-- NON-VACUITY of `MulOK`: a level with well-formed tables whose tool was built by the model's constructors (`RNSBase.new` on the
    level's moduli, `RNSTool.new` with the level's degree and plain modulus, auxiliary moduli well formed and ≥ 2^32) and Bsk
    tables built by `NTTTables.new` satisfies `MulOK` -/
theorem c02w_mulOK_of_new {l : Level} {T : Array NTTTables} {q : RNSBase} {aux : List Modulus}
    (hl : l.WF) (hlen : l.qs.size ≤ 62) (hk : l.k ≤ 60) (ht : l.t.WF) (haux : ∀ m ∈ aux, m.WF ∧ 2^32 ≤ m.value)
    (hq : RNSBase.new l.qs.toList = .ok q) (h : RNSTool.new l.n q l.t aux = .ok l.tool)
    (hT : ∀ i, i < l.tool.baseBsk.size → ∃ pr root0, root0 < 2^64 ∧
      NTTTables.new l.k (l.tool.baseBsk.q i) pr root0 = .ok (T.getD i default)) : MulOK l T := by
  have hmw : ∀ m ∈ l.qs.toList, m.WF := by
    intro m hm
    obtain ⟨i, hi, rfl⟩ := Array.mem_iff_getElem.mp (Array.mem_toList_iff.mp hm)
    have := (c01o_level_comp hl (i := i) hi).2.2.2
    unfold Level.q at this
    simpa [Array.getD, hi] using this
  obtain ⟨hqwf, hqbase⟩ := RNSBase.new_wf hmw (by simpa using (by omega : l.qs.size ≤ 64)) hq
  have hqs : q.size = l.qs.size := by unfold RNSBase.size; rw [hqbase]
  have ht2 := ht.two_le
  have ht61 := ht.lt
  obtain ⟨h1, h2, h3, _, _⟩ := c02w_toolMulOK_of_new hqwf (by omega) (by omega) haux h
  refine ⟨hl, h2, by rw [h3, hqbase], by omega, h1, fun i hi => ?_⟩
  obtain ⟨pr, root0, hr, hnew⟩ := hT i hi
  obtain ⟨w1, w2, w3, _⟩ := NTTTables.new_wf_u64 (h1.bskwf.mwf i hi) hk hr hnew
  exact ⟨w1, w3, w2⟩

/-! ## W2: integer semantics -/

open Finset in
/-- `negMulNat` of residue vectors is the integer negacyclic product of ANY integer representatives, modulo q -/
theorem c02w_negMulNat_modEq {q n : Nat} (hq : 0 < q) (A B : Array Nat) (X Y : Nat → Int)
    (hA : ∀ j, j < n → (A.getD j 0 : Int) ≡ X j [ZMOD q]) (hB : ∀ j, j < n → (B.getD j 0 : Int) ≡ Y j [ZMOD q])
    {c : Nat} (hc : c < n) :
    (negMulNat n q A B c : Int) ≡ negMulR n X Y c [ZMOD q] := by
  unfold negMulNat negMulR
  have hqz : (0 : Int) < (q : Int) := by exact_mod_cast hq
  rw [Int.toNat_of_nonneg (Int.emod_nonneg _ (by omega))]
  refine (Int.mod_modEq _ _).trans ?_
  apply Int.ModEq.sum
  intro i hi
  have hi := Finset.mem_range.mp hi
  split
  · push_cast
    exact (hA i hi).mul (hB _ (by omega))
  · push_cast
    exact ((hA i hi).mul (hB _ (by omega))).neg



/-- coefficient `c` of `Z_k = Σ_{x+y=k} X_x ⋆ Y_y` over ℤ[X]/(X^n+1) -/
def c02w_Z (n1 n2 n : Nat) (X Y : Nat → Nat → Int) (k c : Nat) : Int :=
  ((mulPairs n1 n2 k).map (fun p => negMulR n (X p.1) (Y p.2) c)).sum

theorem c02w_convVal_modEq {q n n1 n2 : Nat} (hq : 0 < q) (A B : Nat → Array Nat) (X Y : Nat → Nat → Int) (k : Nat)
    (hA : ∀ p ∈ mulPairs n1 n2 k, ∀ j, j < n → ((A p.1).getD j 0 : Int) ≡ X p.1 j [ZMOD q])
    (hB : ∀ p ∈ mulPairs n1 n2 k, ∀ j, j < n → ((B p.2).getD j 0 : Int) ≡ Y p.2 j [ZMOD q])
    {c : Nat} (hc : c < n) :
    (c02w_convVal n1 n2 n q A B k c : Int) ≡ c02w_Z n1 n2 n X Y k c [ZMOD q] := by
  unfold c02w_convVal c02w_Z
  rw [Int.natCast_mod]
  refine (Int.mod_modEq _ _).trans ?_
  rw [Nat.cast_list_sum, List.map_map]
  apply Int.ModEq.listSum_map
  intro p hp
  exact c02w_negMulNat_modEq hq _ _ _ _ (hA p hp) (hB p hp) hc

/-- existence of the CRT lift -/
theorem c02w_crt_exists {b : RNSBase} (hb : b.WF) (f : Nat → Nat) :
    ∃ x, x < b.prod ∧ ∀ i, i < b.size → x % (b.q i).value = f i % (b.q i).value := by
  obtain ⟨h1, h2⟩ := c01p_crt_spec hb ((List.range b.size).map f)
  refine ⟨_, h1, fun i hi => ?_⟩
  rw [h2 i hi]
  congr 1
  simp [List.getD, hi]

/-- the CRT lift of integer-congruent residues: `x = V mod Q` -/
theorem c02w_crt_int {b : RNSBase} (hb : b.WF) (f : Nat → Nat) (V : Int)
    (hf : ∀ i, i < b.size → (f i : Int) ≡ V [ZMOD (b.q i).value]) :
    ∃ x : Nat, x < b.prod ∧ (x : Int) = V % b.prod ∧ ∀ i, i < b.size → x % (b.q i).value = f i % (b.q i).value := by
  have hQ := hb.prod_pos
  have hQz : (0 : Int) < (b.prod : Int) := by exact_mod_cast hQ
  have hnn := Int.emod_nonneg V (ne_of_gt hQz)
  have hlt := Int.emod_lt_of_pos V hQz
  refine ⟨(V % b.prod).toNat, by omega, Int.toNat_of_nonneg hnn, fun i hi => ?_⟩
  have hd : ((b.q i).value : Int) ∣ (b.prod : Int) := by exact_mod_cast hb.q_dvd_prod hi
  have h1 : (((V % b.prod).toNat : Nat) : Int) ≡ V [ZMOD (b.q i).value] := by
    rw [Int.toNat_of_nonneg hnn]
    exact (Int.mod_modEq V b.prod).of_dvd hd
  have h2 := h1.trans (hf i hi).symm
  exact Int.natCast_modEq_iff.mp h2

/-- the lifted operand coefficient: the Montgomery-reduced integer `(S + Q·r̃)/m̃`, `S = m̃·x + αQ` the fast conversion of `[m̃x]_Q`,
    `r̃` the centred residue of `−S·Q^{-1}` modulo `m̃` -/
def c02w_liftZ (r : RNSTool) (p : RnsPoly) (j : Nat) : Int :=
  ((c02w_mtSum r p j : Int) + (r.baseQ.prod : Int) *
    (if ((c02w_mtSum r p j % r.mTilde.value) * r.negInvProdQModMt.operand) % r.mTilde.value ≥ r.mTilde.value / 2
     then ((((c02w_mtSum r p j % r.mTilde.value) * r.negInvProdQModMt.operand) % r.mTilde.value : Nat) : Int) - r.mTilde.value
     else ((((c02w_mtSum r p j % r.mTilde.value) * r.negInvProdQModMt.operand) % r.mTilde.value : Nat) : Int)))
    / r.mTilde.value

theorem c02w_coprime_of_neginv {x Q m : Nat} (h : (x * Q + 1) % m = 0) : Nat.Coprime Q m := by
  have hd : Nat.gcd Q m ∣ x * Q + 1 := Nat.dvd_trans (Nat.gcd_dvd_right Q m) (Nat.dvd_of_mod_eq_zero h)
  have hd2 : Nat.gcd Q m ∣ x * Q := Dvd.dvd.mul_left (Nat.gcd_dvd_left Q m) x
  exact Nat.dvd_one.mp ((Nat.dvd_add_right hd2).mp hd)

theorem c02w_mtSum_facts {r : RNSTool} (hr : c02w_ToolMulOK r) (p : RnsPoly) (j : Nat) :
    c02w_mtSum r p j < r.baseQ.size * r.baseQ.prod ∧
    ∀ i, i < r.baseQ.size →
      c02w_mtSum r p j % (r.baseQ.q i).value = ((p.getD i #[]).getD j 0 * r.mTilde.value) % (r.baseQ.q i).value := by
  obtain ⟨y, hy, hyr⟩ := c02w_crt_exists hr.qwf
    (fun i => ((p.getD i #[]).getD j 0 * r.mTilde.value) % (r.baseQ.q i).value)
  obtain ⟨al, hal, hS⟩ := c02w_crtSum_spec hr.qwf _ hy hyr
  have hS' : c02w_mtSum r p j = y + al * r.baseQ.prod := hS
  refine ⟨?_, fun i hi => ?_⟩
  · rw [hS']
    have : al * r.baseQ.prod ≤ (r.baseQ.size - 1) * r.baseQ.prod := Nat.mul_le_mul_right _ (by omega)
    have e : r.baseQ.size * r.baseQ.prod = (r.baseQ.size - 1) * r.baseQ.prod + r.baseQ.prod := by
      rw [← Nat.succ_mul]; congr 1; have := hr.qwf.pos; omega
    omega
  · rw [hS']
    obtain ⟨c, hc⟩ := hr.qwf.q_dvd_prod hi
    rw [hc, ← Nat.mul_assoc, Nat.mul_comm al, Nat.mul_assoc, Nat.add_mul_mod_self_left, hyr i hi, Nat.mod_mod]

theorem c02w_liftZ_spec {r : RNSTool} (hr : c02w_ToolMulOK r) (p : RnsPoly) (j : Nat) :
    (∀ i, i < r.baseQ.size → c02w_liftZ r p j ≡ ((p.getD i #[]).getD j 0 : Int) [ZMOD (r.baseQ.q i).value]) ∧
    (∀ i, i < r.baseBsk.size → (c02w_liftVal r p i j : Int) = c02w_liftZ r p j % (r.baseBsk.q i).value) ∧
    2 * (r.mTilde.value : Int) * |c02w_liftZ r p j| ≤ r.baseQ.prod * ((r.mTilde.value : Int) + 2 * r.baseQ.size) := by
  obtain ⟨hSlt, hSr⟩ := c02w_mtSum_facts hr p j
  have hscal : ∀ i, i < r.baseBsk.size → _ := fun i hi =>
    smMrq_scalar (mt := r.mTilde.value) (bi := (r.baseBsk.q i).value) (qModB := r.prodQModBsk.getD i 0)
      (invMt := (r.invMtModBsk.getD i default).operand) (negInvQ := r.negInvProdQModMt.operand)
      (yi := c02w_mtSum r p j % (r.baseBsk.q i).value) (ym := c02w_mtSum r p j % r.mTilde.value)
      (q := r.baseQ.prod) (Y := (c02w_mtSum r p j : Int))
      (hr.bsk i hi).1 (by rw [(hr.bsk i hi).2.1]; exact cast_mod_modEq _ _) (hr.bsk i hi).2.2.2.1 hr.negInvQ.2
      (cast_mod_modEq _ _) (cast_mod_modEq _ _)
  dsimp only at hscal
  unfold c02w_liftVal c02w_liftZ
  generalize (if ((c02w_mtSum r p j % r.mTilde.value) * r.negInvProdQModMt.operand) % r.mTilde.value ≥ r.mTilde.value / 2
     then ((((c02w_mtSum r p j % r.mTilde.value) * r.negInvProdQModMt.operand) % r.mTilde.value : Nat) : Int) - r.mTilde.value
     else ((((c02w_mtSum r p j % r.mTilde.value) * r.negInvProdQModMt.operand) % r.mTilde.value : Nat) : Int)) = rmc at *
  have h0 : r.baseB.size < r.baseBsk.size := by rw [hr.bsk_size]; omega
  obtain ⟨hdvd, _, _, _, hbound⟩ := hscal _ h0
  have hmt0 : (0 : Int) < r.mTilde.value := by have := hr.mtwf.two_le; exact_mod_cast (by omega : 0 < r.mTilde.value)
  obtain ⟨Z, hZ⟩ := hdvd
  have hquo : ((c02w_mtSum r p j : Int) + r.baseQ.prod * rmc) / r.mTilde.value = Z := by
    rw [hZ, Int.mul_ediv_cancel_left _ (ne_of_gt hmt0)]
  refine ⟨fun i hi => ?_, fun i hi => (hscal i hi).2.1, ?_⟩
  · -- cancel m̃ modulo q_i
    have hqw := hr.qwf.mwf i hi
    have hcop : Nat.Coprime r.mTilde.value (r.baseQ.q i).value :=
      (Nat.Coprime.coprime_dvd_left (hr.qwf.q_dvd_prod hi) (c02w_coprime_of_neginv hr.negInvQ.2)).symm
    obtain ⟨m, _, hm⟩ := Nat.exists_mul_mod_eq_one_of_coprime hcop (by have := hqw.two_le; omega)
    have hmz : (r.mTilde.value : Int) * m ≡ 1 [ZMOD (r.baseQ.q i).value] := by
      have : ((r.mTilde.value * m : Nat) : Int) ≡ ((1 : Nat) : Int) [ZMOD (r.baseQ.q i).value] := by
        apply Int.natCast_modEq_iff.mpr
        unfold Nat.ModEq
        rw [hm, Nat.mod_eq_of_lt (by have := hqw.two_le; omega)]
      simpa using this
    rw [hquo]
    have hQ0 : (r.baseQ.prod : Int) ≡ 0 [ZMOD (r.baseQ.q i).value] := by
      apply Int.modEq_zero_iff_dvd.mpr
      exact_mod_cast hr.qwf.q_dvd_prod hi
    have hS : (c02w_mtSum r p j : Int) ≡ ((p.getD i #[]).getD j 0 : Int) * r.mTilde.value [ZMOD (r.baseQ.q i).value] := by
      have : ((c02w_mtSum r p j : Nat) : Int) ≡ (((p.getD i #[]).getD j 0 * r.mTilde.value : Nat) : Int)
          [ZMOD (r.baseQ.q i).value] := Int.natCast_modEq_iff.mpr (hSr i hi)
      simpa using this
    have h1 : (r.mTilde.value : Int) * Z ≡ ((p.getD i #[]).getD j 0 : Int) * r.mTilde.value [ZMOD (r.baseQ.q i).value] := by
      rw [← hZ]
      have := hS.add (hQ0.mul_right rmc)
      simpa using this
    have h2 := h1.mul_right (m : Int)
    have e1 : (r.mTilde.value : Int) * Z * m = Z * ((r.mTilde.value : Int) * m) := by ring
    have e2 : ((p.getD i #[]).getD j 0 : Int) * r.mTilde.value * m = ((p.getD i #[]).getD j 0 : Int) * ((r.mTilde.value : Int) * m) := by ring
    rw [e1, e2] at h2
    have h3 := ((hmz.mul_left Z).symm.trans h2).trans (hmz.mul_left _)
    simpa using h3
  · have heven : r.mTilde.value % 2 = 0 := by rw [hr.mt_val]; norm_num
    have hb := hbound
    rw [heven, Nat.add_zero] at hb
    have habs : |(c02w_mtSum r p j : Int)| = c02w_mtSum r p j := abs_of_nonneg (by positivity)
    rw [habs] at hb
    have hS2 : (c02w_mtSum r p j : Int) ≤ r.baseQ.size * r.baseQ.prod := by exact_mod_cast hSlt.le
    nlinarith

/-- step (7) on integers: the residues returned by `fast_floor` are those of `⌊V/Q⌋ − α` for ONE `α < |q|` -/
theorem c02w_floor_int {r : RNSTool} (hr : c02w_ToolMulOK r) (FQ FB : Nat → Nat → Nat) (V : Int) (c : Nat)
    (hFQ : ∀ i, i < r.baseQ.size → (FQ i c : Int) ≡ V [ZMOD (r.baseQ.q i).value])
    (hFB : ∀ i, i < r.baseBsk.size → (FB i c : Int) ≡ V [ZMOD (r.baseBsk.q i).value]) :
    ∃ al : Nat, al < r.baseQ.size ∧ ∀ i, i < r.baseBsk.size →
      (c02w_floorVal r FQ FB i c : Int) = (V / r.baseQ.prod - al) % (r.baseBsk.q i).value := by
  obtain ⟨x, hxl, hxV, hxr⟩ := c02w_crt_int hr.qwf (fun i => FQ i c) V hFQ
  obtain ⟨al, hal, hS⟩ := c02w_crtSum_spec hr.qwf (fun i => FQ i c) hxl hxr
  refine ⟨al, hal, fun i hi => ?_⟩
  have hbw := hr.bskwf.mwf i hi
  have hb0 : 0 < (r.baseBsk.q i).value := by have := hbw.two_le; omega
  have hQz : (0 : Int) < (r.baseQ.prod : Int) := by exact_mod_cast hr.qwf.prod_pos
  have hx0 : (0 : Int) ≤ (x : Int) := by positivity
  have hxQ : (x : Int) < r.baseQ.prod := by exact_mod_cast hxl
  have key := fastFloor_scalar (bi := (r.baseBsk.q i).value) (invQ := (r.invProdQModBsk.getD i default).operand)
    (yi := FB i c) (d := c02w_crtSum r.baseQ (fun i' => FQ i' c) % (r.baseBsk.q i).value) (Q := r.baseQ.prod)
    (Y := V) (x := (x : Int)) (α := (al : Int))
    (Nat.le_of_lt (Nat.mod_lt _ hb0)) (hr.bsk i hi).2.2.2.2.2 (hFB i hi)
    (by
      refine (cast_mod_modEq _ _).trans ?_
      rw [hS]; push_cast; exact Int.ModEq.refl _)
    (by rw [hxV]; exact (Int.mod_modEq _ _).symm)
  exact (key.2.2 hx0 hxQ).2

/-- step (8) on integers: Shenoy–Kumaresan returns the residues of `W` itself when `W` is in the window -/
theorem c02w_sk_int {r : RNSTool} (hr : c02w_ToolMulOK r) (FL : Nat → Nat → Nat) (W : Int) (c : Nat)
    (hFL : ∀ i, i < r.baseBsk.size → (FL i c : Int) = W % (r.baseBsk.q i).value)
    (hwin : 2 * |W| + 2 * (r.baseB.size : Int) * r.baseB.prod ≤ (r.baseB.prod : Int) * r.mSk.value) :
    ∀ i, i < r.baseQ.size → (c02w_skVal r FL i c : Int) = W % (r.baseQ.q i).value := by
  have hFB : ∀ i, i < r.baseB.size → (FL i c : Int) ≡ W [ZMOD (r.baseB.q i).value] := by
    intro i hi
    rw [hFL i (by rw [hr.bsk_size]; omega), hr.bsk_q i hi]
    exact Int.mod_modEq _ _
  obtain ⟨y, hyl, hyW, hyr⟩ := c02w_crt_int hr.bwf (fun i => FL i c) W hFB
  obtain ⟨be, hbe, hS⟩ := c02w_crtSum_spec hr.bwf (fun i => FL i c) hyl hyr
  have hlast : r.baseB.size < r.baseBsk.size := by rw [hr.bsk_size]; omega
  have hmsk := hr.mskwf
  have hm0 : 0 < r.mSk.value := by have := hmsk.two_le; omega
  have hsk := hFL _ hlast
  rw [hr.bsk_last] at hsk
  have hxlt : FL r.baseB.size c < r.mSk.value := by
    have h1 := Int.emod_lt_of_pos W (show (0 : Int) < (r.mSk.value : Int) by exact_mod_cast hm0)
    rw [← hsk] at h1
    exact_mod_cast h1
  intro i hi
  have hqw := hr.qwf.mwf i hi
  have hq0 : 0 < (r.baseQ.q i).value := by have := hqw.two_le; omega
  obtain ⟨e1, _⟩ := hr.pbq i hi
  have hSz : ((c02w_crtSum r.baseB (fun i' => FL i' c) : Nat) : Int) = W % r.baseB.prod + (be : Int) * r.baseB.prod := by
    rw [hS]; push_cast; rw [hyW]
  have key := fastbconvSk_scalar_bound (msk := r.mSk.value) (qi := (r.baseQ.q i).value)
    (invB := r.invProdBModMsk.operand) (bModQ := r.prodBModQ.getD i 0)
    (tv := c02w_crtSum r.baseB (fun i' => FL i' c) % r.mSk.value) (xsk := FL r.baseB.size c)
    (d := c02w_crtSum r.baseB (fun i' => FL i' c) % (r.baseQ.q i).value) (B := r.baseB.prod) (k := r.baseB.size)
    (V := W) (α := (be : Int))
    hxlt.le (by rw [e1]; exact (Nat.mod_lt _ hq0).le) (by rw [e1]; exact cast_mod_modEq _ _) hr.invB.2
    (by rw [hsk]; exact Int.mod_modEq _ _)
    (by refine (cast_mod_modEq _ _).trans ?_; rw [hSz])
    (by refine (cast_mod_modEq _ _).trans ?_; rw [hSz])
    (by positivity) (by exact_mod_cast hbe) hwin
  exact key.2

/-! ### size bounds -/

theorem c02w_two_mul_le {a b Q M k : Int} (_ha : 0 ≤ a) (hb : 0 ≤ b) (hM : 0 < M) (hQ : 0 ≤ Q) (hk0 : 0 ≤ k)
    (hk : (M + 2 * k)^2 ≤ 2 * M^2) (h1 : 2 * M * a ≤ Q * (M + 2 * k)) (h2 : 2 * M * b ≤ Q * (M + 2 * k)) :
    2 * a * b ≤ Q^2 := by
  have h3 : (2 * M * a) * (2 * M * b) ≤ (Q * (M + 2 * k)) * (Q * (M + 2 * k)) :=
    mul_le_mul h1 h2 (by positivity) (by positivity)
  have h4 : (Q * (M + 2 * k)) * (Q * (M + 2 * k)) ≤ Q^2 * (2 * M^2) := by
    have : Q^2 * (M + 2 * k)^2 ≤ Q^2 * (2 * M^2) := mul_le_mul_of_nonneg_left hk (by positivity)
    nlinarith
  have h5 : 2 * M^2 * (2 * a * b) ≤ 2 * M^2 * Q^2 := by nlinarith
  exact le_of_mul_le_mul_left h5 (by positivity)

open Finset in
theorem c02w_negMulR_bound {n : Nat} (X Y : Nat → Int) (Bd : Int)
    (h : ∀ i j, i < n → j < n → 2 * |X i| * |Y j| ≤ Bd) {c : Nat} (hc : c < n) :
    2 * |negMulR n X Y c| ≤ n * Bd := by
  unfold negMulR
  have h1 : |∑ i ∈ range n, if i ≤ c then X i * Y (c - i) else -(X i * Y (n + c - i))|
      ≤ ∑ i ∈ range n, |if i ≤ c then X i * Y (c - i) else -(X i * Y (n + c - i))| := Finset.abs_sum_le_sum_abs _ _
  have h2 : ∑ i ∈ range n, 2 * |if i ≤ c then X i * Y (c - i) else -(X i * Y (n + c - i))| ≤ ∑ _i ∈ range n, Bd := by
    apply Finset.sum_le_sum
    intro i hi
    have hi := Finset.mem_range.mp hi
    split
    · rw [abs_mul, ← mul_assoc]; exact h i _ hi (by omega)
    · rw [abs_neg, abs_mul, ← mul_assoc]; exact h i _ hi (by omega)
  rw [← Finset.mul_sum] at h2
  rw [Finset.sum_const, Finset.card_range, nsmul_eq_mul] at h2
  linarith

theorem c02w_listSum_bound {α : Type} (f : α → Int) (Bd : Int) : ∀ (l : List α), (∀ x ∈ l, 2 * |f x| ≤ Bd) →
    2 * |(l.map f).sum| ≤ l.length * Bd
  | [], _ => by simp
  | a :: l, h => by
    have ih := c02w_listSum_bound f Bd l (fun x hx => h x (by simp [hx]))
    have ha := h a (by simp)
    simp only [List.map_cons, List.sum_cons, List.length_cons]
    have := abs_add_le (f a) (l.map f).sum
    push_cast
    linarith

theorem c02w_mulPairs_length_le (n1 n2 k : Nat) (h1 : 1 ≤ n1) (h2 : 1 ≤ n2) : (mulPairs n1 n2 k).length ≤ min n1 n2 := by
  simp only [mulPairs, List.length_map, List.length_range]
  omega

theorem c02w_floor_abs {V : Int} {Q : Int} (hQ : 0 < Q) : Q * |V / Q| ≤ |V| + Q := by
  have h1 := Int.emod_add_mul_ediv V Q
  have h2 := Int.emod_nonneg V (ne_of_gt hQ)
  have h3 := Int.emod_lt_of_pos V hQ
  have h4 : |Q * (V / Q)| ≤ |V| + Q := by
    rw [abs_le]
    have := le_abs_self V
    have := neg_abs_le V
    constructor <;> linarith
  rwa [abs_mul, abs_of_pos hQ] at h4

/-- the explicit window condition of W2: `t·min(n1,n2)·N·Q + 2|q| + 2|B|·B ≤ B·m_sk` -/
def c02w_Window (l : Level) (n1 n2 : Nat) : Prop :=
  l.t.value * min n1 n2 * l.n * l.tool.baseQ.prod + 2 * l.tool.baseQ.size + 2 * l.tool.baseB.size * l.tool.baseB.prod
    ≤ l.tool.baseB.prod * l.tool.mSk.value

theorem c02w_lift_prod_bound {r : RNSTool} (hr : c02w_ToolMulOK r) (p p' : RnsPoly) (j j' : Nat) :
    2 * |c02w_liftZ r p j| * |c02w_liftZ r p' j'| ≤ (r.baseQ.prod : Int)^2 := by
  have h1 := (c02w_liftZ_spec hr p j).2.2
  have h2 := (c02w_liftZ_spec hr p' j').2.2
  have hk : (r.baseQ.size : Int) ≤ 64 := by exact_mod_cast hr.qwf.le64
  have hk0 : (0 : Int) ≤ (r.baseQ.size : Int) := by positivity
  have hM : (r.mTilde.value : Int) = 2^32 := by rw [hr.mt_val]; norm_num
  rw [hM] at h1 h2
  refine c02w_two_mul_le (M := 2^32) (k := r.baseQ.size) (abs_nonneg _) (abs_nonneg _) (by norm_num) (by positivity) hk0 ?_ h1 h2
  nlinarith

theorem c02w_mulVal_int {l : Level} {T : Array NTTTables} (hm : MulOK l T) {a b : Ct}
    (h1 : 1 ≤ a.polys.size) (h2 : 1 ≤ b.polys.size)
    (hwin : c02w_Window l a.polys.size b.polys.size) (k : Nat) {c : Nat} (hc : c < l.n) :
    ∃ al : Nat, al < l.tool.baseQ.size ∧ ∀ i, i < l.tool.baseQ.size →
      (c02w_mulVal l a b k i c : Int) =
        ((l.t.value : Int) * c02w_Z a.polys.size b.polys.size l.n
            (fun x j => c02w_liftZ l.tool (a.polys.getD x #[]) j) (fun y j => c02w_liftZ l.tool (b.polys.getD y #[]) j) k c
          / l.tool.baseQ.prod - al) % (l.tool.baseQ.q i).value := by
  have hr := hm.tool
  generalize hZ : c02w_Z a.polys.size b.polys.size l.n
      (fun x j => c02w_liftZ l.tool (a.polys.getD x #[]) j) (fun y j => c02w_liftZ l.tool (b.polys.getD y #[]) j) k c = Zkc
  -- residues after step (5)
  have hDQ : ∀ i, i < l.tool.baseQ.size →
      (c02w_convVal a.polys.size b.polys.size l.n (l.tool.baseQ.q i).value
        (fun x => (a.polys.getD x #[]).getD i #[]) (fun y => (b.polys.getD y #[]).getD i #[]) k c : Int)
        ≡ Zkc [ZMOD (l.tool.baseQ.q i).value] := by
    intro i hi
    rw [← hZ]
    exact c02w_convVal_modEq (by have := (hr.qwf.mwf i hi).two_le; omega)
      (fun x => (a.polys.getD x #[]).getD i #[]) (fun y => (b.polys.getD y #[]).getD i #[])
      (fun x j => c02w_liftZ l.tool (a.polys.getD x #[]) j) (fun y j => c02w_liftZ l.tool (b.polys.getD y #[]) j) k
      (fun p _ j _ => ((c02w_liftZ_spec hr (a.polys.getD p.1 #[]) j).1 i hi).symm)
      (fun p _ j _ => ((c02w_liftZ_spec hr (b.polys.getD p.2 #[]) j).1 i hi).symm) hc
  have hDB : ∀ i, i < l.tool.baseBsk.size →
      (c02w_convVal a.polys.size b.polys.size l.n (l.tool.baseBsk.q i).value
        (fun x => c02w_liftArr l.tool (a.polys.getD x #[]) i) (fun y => c02w_liftArr l.tool (b.polys.getD y #[]) i) k c : Int)
        ≡ Zkc [ZMOD (l.tool.baseBsk.q i).value] := by
    intro i hi
    rw [← hZ]
    refine c02w_convVal_modEq (by have := (hr.bskwf.mwf i hi).two_le; omega)
      (fun x => c02w_liftArr l.tool (a.polys.getD x #[]) i) (fun y => c02w_liftArr l.tool (b.polys.getD y #[]) i)
      (fun x j => c02w_liftZ l.tool (a.polys.getD x #[]) j) (fun y j => c02w_liftZ l.tool (b.polys.getD y #[]) j) k
      (fun p _ j hj => ?_) (fun p _ j hj => ?_) hc
    · show ((c02w_liftArr l.tool (a.polys.getD p.1 #[]) i).getD j 0 : Int) ≡ c02w_liftZ l.tool (a.polys.getD p.1 #[]) j [ZMOD _]
      rw [c02w_liftArr_getD _ _ _ (by rw [hm.n_eq]; exact hj), (c02w_liftZ_spec hr _ j).2.1 i hi]
      exact Int.mod_modEq _ _
    · show ((c02w_liftArr l.tool (b.polys.getD p.2 #[]) i).getD j 0 : Int) ≡ c02w_liftZ l.tool (b.polys.getD p.2 #[]) j [ZMOD _]
      rw [c02w_liftArr_getD _ _ _ (by rw [hm.n_eq]; exact hj), (c02w_liftZ_spec hr _ j).2.1 i hi]
      exact Int.mod_modEq _ _
  -- times t
  have hmulT : ∀ (d q : Nat), (d : Int) ≡ Zkc [ZMOD q] →
      (((d * l.t.value) % q : Nat) : Int) ≡ (l.t.value : Int) * Zkc [ZMOD q] := by
    intro d q hd
    refine (cast_mul_modEq _ _ _).trans ?_
    rw [mul_comm (l.t.value : Int)]
    exact hd.mul_right _
  obtain ⟨al, hal, hfl⟩ := c02w_floor_int hr
    (fun i c => (c02w_convVal a.polys.size b.polys.size l.n (l.tool.baseQ.q i).value
        (fun x => (a.polys.getD x #[]).getD i #[]) (fun y => (b.polys.getD y #[]).getD i #[]) k c * l.t.value)
          % (l.tool.baseQ.q i).value)
    (fun i c => (c02w_convVal a.polys.size b.polys.size l.n (l.tool.baseBsk.q i).value
        (fun x => c02w_liftArr l.tool (a.polys.getD x #[]) i) (fun y => c02w_liftArr l.tool (b.polys.getD y #[]) i) k c
          * l.t.value) % (l.tool.baseBsk.q i).value)
    ((l.t.value : Int) * Zkc) c (fun i hi => hmulT _ _ (hDQ i hi)) (fun i hi => hmulT _ _ (hDB i hi))
  refine ⟨al, hal, ?_⟩
  -- the window
  have hQpos : (0 : Int) < (l.tool.baseQ.prod : Int) := by exact_mod_cast hr.qwf.prod_pos
  have hZb : 2 * |Zkc| ≤ (min a.polys.size b.polys.size : Nat) * ((l.n : Int) * (l.tool.baseQ.prod : Int)^2) := by
    rw [← hZ]
    unfold c02w_Z
    have hl := c02w_listSum_bound
      (fun p : Nat × Nat => negMulR l.n (fun j => c02w_liftZ l.tool (a.polys.getD p.1 #[]) j)
        (fun j => c02w_liftZ l.tool (b.polys.getD p.2 #[]) j) c)
      ((l.n : Int) * (l.tool.baseQ.prod : Int)^2) (mulPairs a.polys.size b.polys.size k)
      (fun p _ => c02w_negMulR_bound _ _ _ (fun i j _ _ => c02w_lift_prod_bound hr _ _ i j) hc)
    have hlen : ((mulPairs a.polys.size b.polys.size k).length : Int) ≤ (min a.polys.size b.polys.size : Nat) := by
      exact_mod_cast c02w_mulPairs_length_le _ _ k h1 h2
    have hnn : (0 : Int) ≤ (l.n : Int) * (l.tool.baseQ.prod : Int)^2 := by positivity
    exact le_trans hl (mul_le_mul_of_nonneg_right hlen hnn)
  have hwinZ : 2 * |(l.t.value : Int) * Zkc / l.tool.baseQ.prod - al|
      + 2 * (l.tool.baseB.size : Int) * l.tool.baseB.prod ≤ (l.tool.baseB.prod : Int) * l.tool.mSk.value := by
    have hw : ((l.t.value * min a.polys.size b.polys.size * l.n * l.tool.baseQ.prod + 2 * l.tool.baseQ.size
        + 2 * l.tool.baseB.size * l.tool.baseB.prod : Nat) : Int) ≤ ((l.tool.baseB.prod * l.tool.mSk.value : Nat) : Int) := by
      exact_mod_cast hwin
    push_cast at hw
    have hfa := c02w_floor_abs (V := (l.t.value : Int) * Zkc) hQpos
    have hV : 2 * |(l.t.value : Int) * Zkc| ≤ (l.t.value : Int) *
        ((min a.polys.size b.polys.size : Nat) * ((l.n : Int) * (l.tool.baseQ.prod : Int)^2)) := by
      rw [abs_mul, abs_of_nonneg (by positivity : (0 : Int) ≤ (l.t.value : Int))]
      have := mul_le_mul_of_nonneg_left hZb (by positivity : (0 : Int) ≤ (l.t.value : Int))
      linarith
    have hal' : (al : Int) + 1 ≤ l.tool.baseQ.size := by exact_mod_cast hal
    have hal0 : (0 : Int) ≤ (al : Int) := by positivity
    have hsub : |(l.t.value : Int) * Zkc / l.tool.baseQ.prod - al| ≤ |(l.t.value : Int) * Zkc / l.tool.baseQ.prod| + al := by
      have := abs_sub ((l.t.value : Int) * Zkc / l.tool.baseQ.prod) (al : Int)
      rwa [abs_of_nonneg hal0] at this
    have hkey : (l.tool.baseQ.prod : Int) * (2 * |(l.t.value : Int) * Zkc / l.tool.baseQ.prod - al|)
        ≤ (l.tool.baseQ.prod : Int) * ((l.t.value : Int) * (min a.polys.size b.polys.size : Nat) * l.n * l.tool.baseQ.prod
            + 2 * l.tool.baseQ.size) := by
      have h3 : (l.tool.baseQ.prod : Int) * |(l.t.value : Int) * Zkc / l.tool.baseQ.prod - al|
          ≤ (l.tool.baseQ.prod : Int) * (|(l.t.value : Int) * Zkc / l.tool.baseQ.prod| + al) :=
        mul_le_mul_of_nonneg_left hsub hQpos.le
      have h4 : (l.tool.baseQ.prod : Int) * (al : Int) ≤ (l.tool.baseQ.prod : Int) * (l.tool.baseQ.size - 1) :=
        mul_le_mul_of_nonneg_left (by linarith) hQpos.le
      nlinarith
    have := le_of_mul_le_mul_left hkey hQpos
    push_cast at hw this ⊢
    linarith
  intro i hi
  exact c02w_sk_int hr _ _ c hfl hwinZ i hi


/-! ## the window condition from the sizing rule of `RNSTool.new` -/


/-- Bernoulli: A^(m+1) − m·d·A^m ≤ A·(A−d)^m for 0 ≤ d ≤ A -/
theorem c02w_bernoulli {A d : Int} (hd : 0 ≤ d) (hA : d ≤ A) : ∀ m : Nat,
    A^(m+1) - m * d * A^m ≤ A * (A - d)^m
  | 0 => by simp
  | m+1 => by
    have ih := c02w_bernoulli hd hA m
    have hA0 : 0 ≤ A := le_trans hd hA
    have h1 : (A - d) * (A^(m+1) - m * d * A^m) ≤ (A - d) * (A * (A - d)^m) :=
      mul_le_mul_of_nonneg_left ih (by linarith)
    have h2 : (0 : Int) ≤ m * d^2 * A^m := by positivity
    have e1 : A * (A - d)^(m+1) = (A - d) * (A * (A - d)^m) := by ring
    have e2 : A^(m+1+1) - ((m+1 : Nat) : Int) * d * A^(m+1)
        = (A - d) * (A^(m+1) - m * d * A^m) - m * d^2 * A^m := by push_cast; ring
    rw [e1, e2]
    linarith

/-- products of `m ≤ 64` numbers that are at least `2^61 − 2^54` are at least `2^(61m−1)` -/
theorem c02w_pow_lower {m : Nat} (hm : m ≤ 64) : 2^(61*m) ≤ 2 * (2^61 - 2^54 : Nat)^m := by
  have hb := c02w_bernoulli (A := 2^61) (d := 2^54) (by norm_num) (by norm_num) m
  have hmz : (m : Int) ≤ 64 := by exact_mod_cast hm
  have hp : (0 : Int) < (2^61 : Int)^m := by positivity
  have e : ((2:Int)^61)^(m+1) - m * 2^54 * (2^61)^m = (2^61)^m * (2^61 - m * 2^54) := by ring
  rw [e] at hb
  have h3 : (2^61 : Int)^m * 2^60 ≤ (2^61)^m * (2^61 - m * 2^54) :=
    mul_le_mul_of_nonneg_left (by nlinarith) hp.le
  have h4 : (2^61 : Int)^m * 2^60 ≤ 2^61 * (2^61 - 2^54)^m := le_trans h3 hb
  have h5 : (2^61 : Int)^m ≤ 2 * (2^61 - 2^54)^m := by nlinarith
  have h6 : ((2^(61*m) : Nat) : Int) ≤ ((2 * (2^61 - 2^54 : Nat)^m : Nat) : Int) := by
    push_cast
    rw [pow_mul]
    have : (2^61 - 2^54 : Int) = 2287828610704211968 := by norm_num
    rw [this] at h5
    exact h5
  exact_mod_cast h6

theorem c02w_list_prod_ge (l : List Nat) (c : Nat) (h : ∀ x ∈ l, c ≤ x) : c ^ l.length ≤ l.prod := by
  induction l with
  | nil => simp
  | cons a l ih =>
    simp only [List.length_cons, List.prod_cons, pow_succ]
    have := ih (fun x hx => h x (by simp [hx]))
    have := h a (by simp)
    calc c ^ l.length * c ≤ l.prod * a := Nat.mul_le_mul ‹_› ‹_›
      _ = a * l.prod := Nat.mul_comm _ _

theorem c02w_base_prod_ge {b : RNSBase} (hb : b.WF) (c : Nat) (h : ∀ i, i < b.size → c ≤ (b.q i).value) :
    c ^ b.size ≤ b.prod := by
  rw [hb.prod_eq]
  have := c02w_list_prod_ge ((List.range b.size).map (fun i => (b.q i).value)) c (by
    intro x hx
    simp only [List.mem_map, List.mem_range] at hx
    obtain ⟨i, hi, rfl⟩ := hx
    exact h i hi)
  simpa using this

theorem c02w_base_prod_le {b : RNSBase} (hb : b.WF) : b.prod ≤ (2^61) ^ b.size := by
  rw [hb.prod_eq]
  have := RNSH.list_prod_le ((List.range b.size).map (fun i => (b.q i).value)) (2^61) (by
    intro x hx
    simp only [List.mem_map, List.mem_range] at hx
    obtain ⟨i, hi, rfl⟩ := hx
    exact (hb.mwf i hi).lt.le)
  simpa using this

/-- the window condition follows from the sizing rule of `RNSTool.new` (|B| = |q| or |q|+1 by the bit counts) when the auxiliary
    moduli are 61-bit values close to 2^61 (≥ 2^61 − 2^54, as `get_primes(2n, 61, ·)` delivers) and `min(n1,n2)·N ≤ 2^30` -/
theorem c02w_window_tool {n : Nat} {q : RNSBase} {t : Modulus} {aux : List Modulus} {r : RNSTool}
    (hq : q.WF) (hq62 : q.size ≤ 62) (ht : t.WF) (htb : t.value < 2^t.bits)
    (haux : ∀ m ∈ aux, m.WF ∧ 2^61 - 2^54 ≤ m.value) (h : RNSTool.new n q t aux = .ok r) (PN : Nat) (hPN : PN ≤ 2^30) :
    t.value * PN * r.baseQ.prod + 2 * r.baseQ.size + 2 * r.baseB.size * r.baseB.prod ≤ r.baseB.prod * r.mSk.value := by
  have ht2 := ht.two_le
  have ht61 := ht.lt
  obtain ⟨hr, _, rq, rBsz, rmem⟩ := c02w_toolMulOK_of_new hq hq62 (by omega)
    (fun m hm => ⟨(haux m hm).1, le_trans (by norm_num) (haux m hm).2⟩) h
  have hkB64 := hr.bwf.le64
  have hlast : r.baseB.size < r.baseBsk.size := by rw [hr.bsk_size]; omega
  have hmsk : 2^61 - 2^54 ≤ r.mSk.value := by
    have := (haux _ (rmem _ hlast)).2
    rwa [hr.bsk_last] at this
  have hBge : (2^61 - 2^54)^r.baseB.size ≤ r.baseB.prod := c02w_base_prod_ge hr.bwf _ (fun i hi => by
    have := (haux _ (rmem i (by omega))).2
    rwa [hr.bsk_q i hi] at this)
  have hB2 : 2^(61 * r.baseB.size) ≤ 2 * r.baseB.prod :=
    le_trans (c02w_pow_lower hkB64) (Nat.mul_le_mul_left 2 hBge)
  have hQle : r.baseQ.prod ≤ 2^(61 * r.baseQ.size) := by
    rw [pow_mul]; exact c02w_base_prod_le hr.qwf
  rw [rq] at hQle ⊢
  -- products with literal coefficients only
  have ha : t.value * PN * q.prod ≤ (t.value * q.prod) * 2^30 := by
    calc t.value * PN * q.prod = (t.value * q.prod) * PN := by ring
      _ ≤ (t.value * q.prod) * 2^30 := Nat.mul_le_mul_left _ hPN
  have hb : 2 * r.baseB.size * r.baseB.prod ≤ 130 * r.baseB.prod := Nat.mul_le_mul_right _ (by omega)
  have hc : r.baseB.prod * (2^61 - 2^54) ≤ r.baseB.prod * r.mSk.value := Nat.mul_le_mul_left _ hmsk
  have hE1 : 1 ≤ 2^(61 * q.size) := Nat.one_le_two_pow
  have hBpos := hr.bwf.prod_pos
  unfold baseBSize at rBsz
  split at rBsz
  · -- |B| = |q| + 1
    rw [rBsz] at hB2
    have e : 2^(61 * (q.size + 1)) = 2^61 * 2^(61 * q.size) := by rw [Nat.mul_succ, Nat.pow_add, Nat.mul_comm]
    rw [e] at hB2
    have hX : t.value * q.prod ≤ 2^61 * 2^(61 * q.size) := Nat.mul_le_mul ht61.le hQle
    generalize t.value * q.prod = X at *
    generalize 2^(61 * q.size) = E at *
    generalize r.baseB.prod = B at *
    generalize r.mSk.value = M at *
    generalize t.value * PN * q.prod = L at *
    generalize 2 * r.baseB.size * B = L2 at *
    generalize B * M = BM at *
    norm_num at *
    omega
  · -- |B| = |q|
    rename_i hcase
    rw [rBsz] at hB2
    have hQlt : q.prod < 2^(bitCount q.prod) := (bitCount_le_iff _ _).mp (Nat.le_refl _)
    have hX : t.value * q.prod < 2^(t.bits + bitCount q.prod) := by
      rw [Nat.pow_add]
      exact Nat.mul_lt_mul'' htb hQlt
    have hpw : 2^(t.bits + bitCount q.prod) ≤ 2^(61 * q.size + 28) := Nat.pow_le_pow_right (by norm_num) (by omega)
    have e2 : 2^(61 * q.size + 28) = 2^(61 * q.size) * 2^28 := Nat.pow_add _ _ _
    rw [e2] at hpw
    clear hQlt htb
    generalize t.value * q.prod = X at *
    generalize 2^(t.bits + bitCount q.prod) = Y at *
    generalize 2^(61 * q.size) = E at *
    generalize r.baseB.prod = B at *
    generalize r.mSk.value = M at *
    generalize t.value * PN * q.prod = L at *
    generalize 2 * r.baseB.size * B = L2 at *
    generalize B * M = BM at *
    norm_num at *
    omega


/-- NON-VACUITY of `c02w_Window` at a level whose tool was built by `RNSTool.new` -/
theorem c02w_window_of_new {l : Level} {q : RNSBase} {aux : List Modulus}
    (hq : q.WF) (hq62 : q.size ≤ 62) (ht : l.t.WF) (htb : l.t.value < 2^l.t.bits)
    (haux : ∀ m ∈ aux, m.WF ∧ 2^61 - 2^54 ≤ m.value) (h : RNSTool.new l.n q l.t aux = .ok l.tool)
    {n1 n2 : Nat} (hPN : min n1 n2 * l.n ≤ 2^30) : c02w_Window l n1 n2 := by
  unfold c02w_Window
  have := c02w_window_tool hq hq62 ht htb haux h (min n1 n2 * l.n) hPN
  rwa [← Nat.mul_assoc] at this

/-! ## W3 helpers: readings of integer coefficient vectors in a ring with ξ^N = −1 -/


/-- reading of an integer coefficient vector in a commutative ring `S` at `ξ` (`ξ^N = −1`: the image of `X`) -/
def c02w_ev {S : Type} [CommRing S] (n : Nat) (ξ : S) (F : Nat → Int) : S := ∑ c ∈ Finset.range n, ((F c : Int) : S) * ξ^c

theorem c02w_negMulR_cast {S : Type} [CommRing S] (n : Nat) (F G : Nat → Int) (c : Nat) :
    ((negMulR n F G c : Int) : S) = negMulR n (fun i => ((F i : Int) : S)) (fun i => ((G i : Int) : S)) c := by
  unfold negMulR
  rw [Int.cast_sum]
  apply Finset.sum_congr rfl
  intro i _
  split <;> push_cast <;> rfl

theorem c02w_ev_negMul {S : Type} [CommRing S] {n : Nat} (hn : 0 < n) {ξ : S} (hξ : ξ^n = -1) (F G : Nat → Int) :
    c02w_ev n ξ (negMulR n F G) = c02w_ev n ξ F * c02w_ev n ξ G := by
  unfold c02w_ev
  rw [← eval_negMul n hn ξ hξ]
  apply Finset.sum_congr rfl
  intro c _
  rw [c02w_negMulR_cast]

theorem c02w_ev_Z {S : Type} [CommRing S] {n : Nat} (hn : 0 < n) {ξ : S} (hξ : ξ^n = -1) (n1 n2 : Nat)
    (X Y : Nat → Nat → Int) (k : Nat) :
    c02w_ev n ξ (c02w_Z n1 n2 n X Y k) =
      ((mulPairs n1 n2 k).map (fun p => c02w_ev n ξ (X p.1) * c02w_ev n ξ (Y p.2))).sum := by
  have h1 : c02w_ev n ξ (c02w_Z n1 n2 n X Y k) = ∑ c ∈ Finset.range n,
      ((mulPairs n1 n2 k).map (fun p => ((negMulR n (X p.1) (Y p.2) c : Int) : S) * ξ^c)).sum := by
    unfold c02w_ev c02w_Z
    apply Finset.sum_congr rfl
    intro c _
    rw [Int.cast_list_sum, List.map_map, ← List.sum_map_mul_right]
    rfl
  rw [h1, c02v_sum_list n (fun p c => ((negMulR n (X p.1) (Y p.2) c : Int) : S) * ξ^c)]
  congr 1
  apply List.map_congr_left
  intro p _
  exact c02w_ev_negMul hn hξ _ _

theorem c02w_ev_lin {S : Type} [CommRing S] (n : Nat) (ξ : S) (a : Int) (F G : Nat → Int) :
    c02w_ev n ξ (fun c => a * F c + G c) = (a : S) * c02w_ev n ξ F + c02w_ev n ξ G := by
  unfold c02w_ev
  rw [Finset.mul_sum, ← Finset.sum_add_distrib]
  apply Finset.sum_congr rfl
  intro c _
  push_cast
  ring

theorem c02w_ev_congr {S : Type} [CommRing S] (n : Nat) (ξ : S) {F G : Nat → Int} (h : ∀ c, c < n → F c = G c) :
    c02w_ev n ξ F = c02w_ev n ξ G := by
  unfold c02w_ev
  apply Finset.sum_congr rfl
  intro c hc
  rw [h c (Finset.mem_range.mp hc)]

theorem c02w_ev_smul {S : Type} [CommRing S] (n : Nat) (ξ : S) (a : Int) (F : Nat → Int) :
    c02w_ev n ξ (fun c => a * F c) = (a : S) * c02w_ev n ξ F := by
  unfold c02w_ev
  rw [Finset.mul_sum]
  apply Finset.sum_congr rfl
  intro c _
  push_cast
  ring


/-! ## Property theorems -/

/-! ### W1 -/

/-- W1 (totality, shape, closed form).  For coefficient-form operands of ANY sizes ≥ 1 whose polynomials are canonical at a level
    satisfying `MulOK` and whose destination size `resize` accepts (`ctResizeRefuses … = false`, i.e. 2 ≤ n1 + n2 − 1 ≤ 16; anything
    else is refused: `bfvMultiply_refuse_size`), `bfvMultiply` succeeds (no overflow / out-of-range branch is reachable); the result has
    `size a + size b − 1` canonical polynomials, stays in coefficient form, keeps the correction factor, and every residue is the
    closed form `c02w_mulVal`. -/
theorem bfvMultiply_ok {l : Level} {T : Array NTTTables} (hm : MulOK l T) {a b : Ct}
    (ha : ∀ k, k < a.polys.size → RnsCanon l (a.polys.getD k #[]))
    (hb : ∀ k, k < b.polys.size → RnsCanon l (b.polys.getD k #[]))
    (hna : a.ntt = false) (hnb : b.ntt = false) (h1 : 1 ≤ a.polys.size) (h2 : 1 ≤ b.polys.size)
    (hsz : ctResizeRefuses (a.polys.size + b.polys.size - 1) = false) :
    ∃ r, bfvMultiply l T a b = .ok r ∧ r.polys.size = a.polys.size + b.polys.size - 1 ∧ r.ntt = false ∧ r.cf = a.cf ∧
      (∀ k, k < a.polys.size + b.polys.size - 1 → RnsCanon l (r.polys.getD k #[])) ∧
      ∀ k, k < a.polys.size + b.polys.size - 1 → ∀ i, i < l.size → ∀ c, c < l.n →
        r.c02v_res k i c = c02w_mulVal l a b k i c := by
  obtain ⟨outs, hr, hlen, hv⟩ := c02w_core hm ha hb hna hnb h1 h2 hsz
  refine ⟨_, hr, by simpa using hlen, hna, rfl, fun k hk => ?_, fun k hk i hi c hc => ?_⟩
  · show RnsCanon l (outs.toArray.getD k #[])
    rw [c02v_toArray_getD]; exact (hv k hk).1
  · show ((outs.toArray.getD k #[]).getD i #[]).getD c 0 = _
    rw [c02v_toArray_getD outs]; exact (hv k hk).2 i hi c hc

/-- W1 for valid BFV ciphertexts: canonical operands with `size a + size b − 1 ≤ 16` give a canonical ciphertext -/
theorem bfvMultiply_canon {l : Level} {T : Array NTTTables} (hm : MulOK l T) {a b : Ct}
    (ha : CtCanon l a) (hb : CtCanon l b) (hna : a.ntt = false) (hnb : b.ntt = false)
    (h16 : a.polys.size + b.polys.size - 1 ≤ 16) :
    ∃ r, bfvMultiply l T a b = .ok r ∧ CtCanon l r ∧ r.polys.size = a.polys.size + b.polys.size - 1 ∧ r.ntt = false := by
  have h2a := ha.two_le; have h2b := hb.two_le
  obtain ⟨r, hr, hsz, hntt, hcf, hcan, _⟩ := bfvMultiply_ok hm ha.canon hb.canon hna hnb (by omega) (by omega)
    ((ctResizeRefuses_eq_false_iff _).mpr (by omega))
  refine ⟨r, hr, ⟨⟨by omega, by omega, fun k hk => hcan k (by omega)⟩, ?_⟩, hsz, hntt⟩
  rw [hcf]; exact ha.cf

/-- refusal: an operand in NTT form -/
theorem bfvMultiply_refuse_ntt (l : Level) (T : Array NTTTables) (a b : Ct) (h : a.ntt = true ∨ b.ntt = true) :
    bfvMultiply l T a b = .error .refused := by
  rw [c02w_bfvMultiply_eq, if_pos h]

/-- refusal (size): `resize` comes first in `bfv_multiply`; a destination size n1 + n2 − 1 that it refuses (1, or more than 16)
    is refused whatever the operands and the level are -/
theorem bfvMultiply_refuse_size (l : Level) (T : Array NTTTables) (a b : Ct)
    (h : ctResizeRefuses (a.polys.size + b.polys.size - 1) = true) : bfvMultiply l T a b = .error .refused := by
  rw [c02w_bfvMultiply_eq]
  split
  · rfl
  · first | rfl | rw [if_pos h]

/-- a successful BEHZ product had an admissible destination size -/
theorem bfvMultiply_ok_size {l : Level} {T : Array NTTTables} {a b r : Ct} (hr : bfvMultiply l T a b = .ok r) :
    ctResizeRefuses (a.polys.size + b.polys.size - 1) = false := by
  cases h : ctResizeRefuses (a.polys.size + b.polys.size - 1) with
  | false => rfl
  | true => rw [bfvMultiply_refuse_size l T a b h] at hr; cases hr

theorem bfvMultiply_ok_le16 {l : Level} {T : Array NTTTables} {a b r : Ct} (hr : bfvMultiply l T a b = .ok r) :
    a.polys.size + b.polys.size - 1 ≤ 16 := by
  have := (ctResizeRefuses_eq_false_iff _).mp (bfvMultiply_ok_size hr)
  omega

/-- refusal: an operand without polynomials (by `resize` when the other operand has two, otherwise after the lifts of both
    operands succeeded) -/
theorem bfvMultiply_refuse_empty {l : Level} {T : Array NTTTables} (hm : MulOK l T) {a b : Ct}
    (ha : ∀ k, k < a.polys.size → RnsCanon l (a.polys.getD k #[]))
    (hb : ∀ k, k < b.polys.size → RnsCanon l (b.polys.getD k #[]))
    (hna : a.ntt = false) (hnb : b.ntt = false) (h : a.polys.size < 1 ∨ b.polys.size < 1) :
    bfvMultiply l T a b = .error .refused := by
  obtain ⟨ab, hA, _, _⟩ := c02w_lift_spec hm ha
  obtain ⟨bb, hB, _, _⟩ := c02w_lift_spec hm hb
  cases hsz : ctResizeRefuses (a.polys.size + b.polys.size - 1) with
  | true => exact bfvMultiply_refuse_size l T a b hsz
  | false =>
    rw [c02w_bfvMultiply_eq, if_neg (by simp [hna, hnb]), if_neg (by simp [hsz]), hA, ok_bind, hB, ok_bind, if_pos h]

/-! ### W2 -/

/-- W2, operands: the lifted coefficient `c02w_liftZ` of a canonical polynomial is congruent to the input residue modulo every
    q_i and satisfies `2·m̃·|X| ≤ Q·(m̃ + 2|q|)` (|X| ≤ Q/2 + |q|·Q/m̃, m̃ = 2^32): the "small BEHZ offset" -/
theorem bfvLift_spec {l : Level} {T : Array NTTTables} (hm : MulOK l T) (p : RnsPoly) (j : Nat) :
    (∀ i, i < l.size → c02w_liftZ l.tool p j ≡ ((p.getD i #[]).getD j 0 : Int) [ZMOD (l.q i).value]) ∧
    2 * (2^32 : Int) * |c02w_liftZ l.tool p j| ≤ (l.tool.baseQ.prod : Int) * (2^32 + 2 * (l.size : Int)) := by
  obtain ⟨h1, _, h3⟩ := c02w_liftZ_spec hm.tool p j
  refine ⟨fun i hi => ?_, ?_⟩
  · have := h1 i (by rw [c02w_base_size hm]; exact hi)
    rwa [c02w_base_q hm] at this
  · rw [hm.tool.mt_val, c02w_base_size hm] at h3
    exact_mod_cast h3

/-- W2, exact integer semantics of every output coefficient: under the window condition `c02w_Window`, for every output
    polynomial `k` and coefficient `c` there is ONE `α < |q|` (the fast-floor error) such that for every prime q_i the residue
    returned by the model is `⌊t·Z_k[c]/Q⌋ − α  mod q_i`, where `Z_k = Σ_{x+y=k} X_x ⋆ Y_y` over ℤ[X]/(X^N+1) is formed from the
    lifted operand coefficients (`bfvLift_spec`); the Montgomery correction is exact and Shenoy–Kumaresan is exact in the window. -/
theorem bfvMultiply_coeff {l : Level} {T : Array NTTTables} (hm : MulOK l T) {a b r : Ct}
    (ha : ∀ k, k < a.polys.size → RnsCanon l (a.polys.getD k #[]))
    (hb : ∀ k, k < b.polys.size → RnsCanon l (b.polys.getD k #[]))
    (hna : a.ntt = false) (hnb : b.ntt = false) (h1 : 1 ≤ a.polys.size) (h2 : 1 ≤ b.polys.size)
    (hwin : c02w_Window l a.polys.size b.polys.size) (hr : bfvMultiply l T a b = .ok r) :
    ∀ k, k < a.polys.size + b.polys.size - 1 → ∀ c, c < l.n → ∃ al : Nat, al < l.size ∧ ∀ i, i < l.size →
      (r.c02v_res k i c : Int) =
        ((l.t.value : Int) * c02w_Z a.polys.size b.polys.size l.n
            (fun x j => c02w_liftZ l.tool (a.polys.getD x #[]) j) (fun y j => c02w_liftZ l.tool (b.polys.getD y #[]) j) k c
          / l.tool.baseQ.prod - al) % (l.q i).value := by
  obtain ⟨r', hr', _, _, _, _, hv⟩ := bfvMultiply_ok hm ha hb hna hnb h1 h2 (bfvMultiply_ok_size hr)
  rw [hr] at hr'
  obtain rfl := Except.ok.inj hr'
  intro k hk c hc
  obtain ⟨al, hal, hval⟩ := c02w_mulVal_int hm h1 h2 hwin k hc
  refine ⟨al, by rw [← c02w_base_size hm]; exact hal, fun i hi => ?_⟩
  rw [hv k hk i hi c hc, hval i (by rw [c02w_base_size hm]; exact hi), c02w_base_q hm]


/-- W2 with every hypothesis discharged from the model's constructors: level tables well formed, tool built by `RNSBase.new` +
    `RNSTool.new` (auxiliary moduli well formed and ≥ 2^61 − 2^54), Bsk tables built by `NTTTables.new`, `min(n1,n2)·N ≤ 2^30` -/
theorem bfvMultiply_coeff_of_new {l : Level} {T : Array NTTTables} {q : RNSBase} {aux : List Modulus}
    (hl : l.WF) (hlen : l.qs.size ≤ 62) (hk : l.k ≤ 60) (ht : l.t.WF) (htb : l.t.value < 2^l.t.bits)
    (haux : ∀ m ∈ aux, m.WF ∧ 2^61 - 2^54 ≤ m.value)
    (hq : RNSBase.new l.qs.toList = .ok q) (h : RNSTool.new l.n q l.t aux = .ok l.tool)
    (hT : ∀ i, i < l.tool.baseBsk.size → ∃ pr root0, root0 < 2^64 ∧
      NTTTables.new l.k (l.tool.baseBsk.q i) pr root0 = .ok (T.getD i default))
    {a b r : Ct}
    (ha : ∀ k, k < a.polys.size → RnsCanon l (a.polys.getD k #[]))
    (hb : ∀ k, k < b.polys.size → RnsCanon l (b.polys.getD k #[]))
    (hna : a.ntt = false) (hnb : b.ntt = false) (h1 : 1 ≤ a.polys.size) (h2 : 1 ≤ b.polys.size)
    (hPN : min a.polys.size b.polys.size * l.n ≤ 2^30) (hr : bfvMultiply l T a b = .ok r) :
    ∀ k, k < a.polys.size + b.polys.size - 1 → ∀ c, c < l.n → ∃ al : Nat, al < l.size ∧ ∀ i, i < l.size →
      (r.c02v_res k i c : Int) =
        ((l.t.value : Int) * c02w_Z a.polys.size b.polys.size l.n
            (fun x j => c02w_liftZ l.tool (a.polys.getD x #[]) j) (fun y j => c02w_liftZ l.tool (b.polys.getD y #[]) j) k c
          / l.tool.baseQ.prod - al) % (l.q i).value := by
  have haux' : ∀ m ∈ aux, m.WF ∧ 2^32 ≤ m.value := fun m hm => ⟨(haux m hm).1, le_trans (by norm_num) (haux m hm).2⟩
  have hm := c02w_mulOK_of_new hl hlen hk ht haux' hq h hT
  have hmw : ∀ m ∈ l.qs.toList, m.WF := by
    intro m hm'
    obtain ⟨i, hi, rfl⟩ := Array.mem_iff_getElem.mp (Array.mem_toList_iff.mp hm')
    have := (c01o_level_comp hl (i := i) hi).2.2.2
    unfold Level.q at this
    simpa [Array.getD, hi] using this
  obtain ⟨hqwf, hqbase⟩ := RNSBase.new_wf hmw (by simpa using (by omega : l.qs.size ≤ 64)) hq
  have hqs : q.size ≤ 62 := by unfold RNSBase.size; rw [hqbase]; simpa using hlen
  exact bfvMultiply_coeff hm ha hb hna hnb h1 h2 (c02w_window_of_new hqwf hqs ht htb haux h hPN) hr

/-! ### W3 -/

/-- W3 (ring form).  In ANY commutative ring `S` with an element `ξ`, `ξ^N = −1` (e.g. `ℤ[X]/(X^N+1)` or `ℤ_Q[X]/(X^N+1)`) and for ANY
    secret `s ∈ S`: there are integer polynomials `D_k` (the exact lifts of the output polynomials: every residue the model returns
    is `D_k[c] mod q_i`) and `E_k` with `0 ≤ E_k[c] < |q|·Q` such that
    `Q · phase_s(D) + phase_s(E) = t · phase_s(X) · phase_s(Y)`, i.e. `phase(result) = (t·phase(X)·phase(Y) − phase_s(E))/Q`,
    where `X`, `Y` are the lifted operands of `bfvLift_spec` (≡ the inputs modulo every q_i, size ≤ Q/2 + |q|Q/2^32). -/
theorem bfvMultiply_phase {S : Type} [CommRing S] {l : Level} {T : Array NTTTables} (hm : MulOK l T) {a b r : Ct}
    (ha : ∀ k, k < a.polys.size → RnsCanon l (a.polys.getD k #[]))
    (hb : ∀ k, k < b.polys.size → RnsCanon l (b.polys.getD k #[]))
    (hna : a.ntt = false) (hnb : b.ntt = false) (h1 : 1 ≤ a.polys.size) (h2 : 1 ≤ b.polys.size)
    (hwin : c02w_Window l a.polys.size b.polys.size) (hr : bfvMultiply l T a b = .ok r)
    (ξ s : S) (hξ : ξ^l.n = -1) :
    ∃ D E : Nat → Nat → Int,
      (∀ k, k < a.polys.size + b.polys.size - 1 → ∀ c, c < l.n → ∀ i, i < l.size →
        (r.c02v_res k i c : Int) ≡ D k c [ZMOD (l.q i).value]) ∧
      (∀ k, k < a.polys.size + b.polys.size - 1 → ∀ c, c < l.n →
        0 ≤ E k c ∧ E k c < (l.size : Int) * l.tool.baseQ.prod) ∧
      ((l.tool.baseQ.prod : Int) : S) * ctPhase (a.polys.size + b.polys.size - 1) (fun k => c02w_ev l.n ξ (D k)) s
        + ctPhase (a.polys.size + b.polys.size - 1) (fun k => c02w_ev l.n ξ (E k)) s
        = ((l.t.value : Int) : S) *
          (ctPhase a.polys.size (fun x => c02w_ev l.n ξ (fun j => c02w_liftZ l.tool (a.polys.getD x #[]) j)) s *
           ctPhase b.polys.size (fun y => c02w_ev l.n ξ (fun j => c02w_liftZ l.tool (b.polys.getD y #[]) j)) s) := by
  have hcoeff := bfvMultiply_coeff hm ha hb hna hnb h1 h2 hwin hr
  choose! al hal hval using hcoeff
  have hn0 : 0 < l.n := by rw [hm.lwf.npow]; exact Nat.pos_of_ne_zero (by positivity)
  have hQpos : (0 : Int) < (l.tool.baseQ.prod : Int) := by exact_mod_cast hm.tool.qwf.prod_pos
  generalize hZdef : c02w_Z a.polys.size b.polys.size l.n
      (fun x j => c02w_liftZ l.tool (a.polys.getD x #[]) j) (fun y j => c02w_liftZ l.tool (b.polys.getD y #[]) j) = Z at hval
  refine ⟨fun k c => (l.t.value : Int) * Z k c / l.tool.baseQ.prod - al k c,
    fun k c => (l.t.value : Int) * Z k c
      - (l.tool.baseQ.prod : Int) * ((l.t.value : Int) * Z k c / l.tool.baseQ.prod - al k c), ?_, ?_, ?_⟩
  · intro k hk c hc i hi
    rw [hval k hk c hc i hi]
    exact Int.mod_modEq _ _
  · intro k hk c hc
    have e1 := Int.emod_add_mul_ediv ((l.t.value : Int) * Z k c) l.tool.baseQ.prod
    have e2 := Int.emod_nonneg ((l.t.value : Int) * Z k c) (ne_of_gt hQpos)
    have e3 := Int.emod_lt_of_pos ((l.t.value : Int) * Z k c) hQpos
    have e4 : (al k c : Int) + 1 ≤ l.size := by exact_mod_cast hal k hk c hc
    have e5 : (0 : Int) ≤ (al k c : Int) := by positivity
    have e6 : (l.tool.baseQ.prod : Int) * (al k c : Int) ≤ (l.tool.baseQ.prod : Int) * ((l.size : Int) - 1) :=
      mul_le_mul_of_nonneg_left (by linarith) hQpos.le
    have e7 : (0 : Int) ≤ (l.tool.baseQ.prod : Int) * (al k c : Int) := mul_nonneg hQpos.le e5
    constructor <;> nlinarith
  · have hk : ∀ k, ((l.tool.baseQ.prod : Int) : S) *
          c02w_ev l.n ξ (fun c => (l.t.value : Int) * Z k c / l.tool.baseQ.prod - al k c)
        + c02w_ev l.n ξ (fun c => (l.t.value : Int) * Z k c
            - (l.tool.baseQ.prod : Int) * ((l.t.value : Int) * Z k c / l.tool.baseQ.prod - al k c))
        = ((l.t.value : Int) : S) * c02w_ev l.n ξ (Z k) := by
      intro k
      rw [← c02w_ev_lin, ← c02w_ev_smul]
      apply c02w_ev_congr
      intro c _
      ring
    have hmul := ct_mul_phase (R := S) h1 h2
      (fun x => c02w_ev l.n ξ (fun j => c02w_liftZ l.tool (a.polys.getD x #[]) j))
      (fun y => c02w_ev l.n ξ (fun j => c02w_liftZ l.tool (b.polys.getD y #[]) j)) s
    rw [← hmul]
    unfold ctPhase
    rw [Finset.mul_sum, Finset.mul_sum, ← Finset.sum_add_distrib]
    apply Finset.sum_congr rfl
    intro k _
    have hz := c02w_ev_Z hn0 hξ a.polys.size b.polys.size
      (fun x j => c02w_liftZ l.tool (a.polys.getD x #[]) j) (fun y j => c02w_liftZ l.tool (b.polys.getD y #[]) j) k
    rw [hZdef] at hz
    beta_reduce at hz ⊢
    rw [← hz, ← mul_assoc, ← mul_assoc, ← add_mul, hk k]


end HC
