/-
  Translator phase 4i (stream mode): property-level statements about the GENERATED serializers (Gen/SerFns.lean), restated in
  Props/C14.lean (`c14g_*`) and Props/C15.lean (`c15g_*`).
-/
import Heathcliff.Proofs.GenSerL
import Heathcliff.Proofs.CodecExact
import Heathcliff.Proofs.Sink
import Heathcliff.Proofs.SinkI
namespace HC.GS
open HC HC.Codec HC.GenS

/-! ### C14: source writers produce `enc`, source readers are `dec`, source sizes are `size` -/

theorem gs_ideal {α} (c : Codec α) (x : α) (w : W Bytes Empty Nat) (hw : w = runChunks idealStream (c.chunks x)) (s : Bytes) :
    w s = (.ok (c.enc x).length, s ++ c.enc x) := by
  rw [hw, runChunks_ideal]; rfl

/-- On an in-memory stream that takes everything, every generated writer appends exactly the model's encoding and returns its length.
    Typing hypotheses: a `u8` / a `SchemeType as u8` is a byte, a `ParmsID` has 4 words, a limited value fits its width. -/
theorem c14g_writers_produce_enc (s : Bytes) :
    (∀ v, u64_serialize idealStream v s = (.ok (u64C.enc v).length, s ++ u64C.enc v)) ∧
    (∀ v, usize_serialize idealStream v s = (.ok (usizeC.enc v).length, s ++ usizeC.enc v)) ∧
    (∀ v, v < 256 → u8_serialize idealStream v s = (.ok (u8C.enc v).length, s ++ u8C.enc v)) ∧
    (∀ b, bool_serialize idealStream b s = (.ok (boolC.enc b).length, s ++ boolC.enc b)) ∧
    (∀ v, f64_serialize idealStream v s = (.ok (f64C.enc v).length, s ++ f64C.enc v)) ∧
    (∀ v, modulus_serialize idealStream v s = (.ok (modulusC.enc v).length, s ++ modulusC.enc v)) ∧
    (∀ v, v < 256 → scheme_serialize idealStream v s = (.ok (schemeC.enc v).length, s ++ schemeC.enc v)) ∧
    (∀ l : List Nat, vec_serialize idealStream (u64_serialize idealStream) l s = (.ok ((vecC u64C).enc l).length, s ++ (vecC u64C).enc l)) ∧
    (∀ l : List Nat, vec_serialize idealStream (modulus_serialize idealStream) l s
        = (.ok ((vecC modulusC).enc l).length, s ++ (vecC modulusC).enc l)) ∧
    (∀ l : List Nat, l.length = 4 → pid_serialize idealStream l s = (.ok (pidC.enc l).length, s ++ pidC.enc l)) ∧
    (∀ p : Params, p.scheme < 256 → params_serialize idealStream p s = (.ok (paramsC.enc p).length, s ++ paramsC.enc p)) ∧
    (∀ p : Plain, p.pid.length = 4 → plain_serialize idealStream p s = (.ok (plainC.enc p).length, s ++ plainC.enc p)) ∧
    (∀ v limit, v < 256 ^ limit →
        write_u64_limited idealStream v limit s = (.ok ((limC limit).enc v).length, s ++ (limC limit).enc v)) :=
  ⟨fun v => gs_ideal u64C v _ (gs_u64_serialize _ v) s, fun v => gs_ideal usizeC v _ (gs_usize_serialize _ v) s,
   fun v hv => gs_ideal u8C v _ (gs_u8_serialize _ v hv) s, fun b => gs_ideal boolC b _ (gs_bool_serialize _ b) s,
   fun v => gs_ideal f64C v _ (gs_f64_serialize _ v) s, fun v => gs_ideal modulusC v _ (gs_modulus_serialize _ v) s,
   fun v hv => gs_ideal schemeC v _ (gs_scheme_serialize _ v hv) s,
   fun l => gs_ideal (vecC u64C) l _ (gs_vec_serialize _ _ u64C l (fun x _ => gs_u64_serialize _ x)) s,
   fun l => gs_ideal (vecC modulusC) l _ (gs_vec_serialize _ _ modulusC l (fun x _ => gs_modulus_serialize _ x)) s,
   fun l hl => gs_ideal pidC l _ (gs_pid_serialize _ l hl) s,
   fun p hp => gs_ideal paramsC p _ (gs_params_serialize _ p hp) s,
   fun p hp => gs_ideal plainC p _ (gs_plain_serialize _ p hp) s,
   fun v limit hv => gs_ideal (limC limit) v _ (gl_write_u64_limited _ v limit hv) s⟩

/-- Every generated reader IS the model's decoder (as functions on byte lists); `EncryptionParameters` up to the count check of
    `set_coeff_modulus` (see `gr_params_deserialize`); `read_u64_limited` for the widths `get_u64_limit` can return. -/
theorem c14g_readers_are_dec :
    u64_deserialize = u64C.dec ∧ usize_deserialize = usizeC.dec ∧ u8_deserialize = u8C.dec ∧ bool_deserialize = boolC.dec ∧
    f64_deserialize = f64C.dec ∧ modulus_deserialize = modulusC.dec ∧ scheme_deserialize = schemeC.dec ∧
    vec_deserialize u64_deserialize = (vecC u64C).dec ∧ vec_deserialize modulus_deserialize = (vecC modulusC).dec ∧
    pid_deserialize = pidC.dec ∧ plain_deserialize = plainC.dec ∧
    (∀ bs, params_deserialize bs = match paramsC.dec bs with
      | .ok (p, r) => if coeffCountOk p then .ok (p, r) else .error .bad
      | .error e => .error e) ∧
    (∀ limit, limit ≤ 8 → ∀ bs : Bytes, (∀ b ∈ bs, b < 256) → read_u64_limited limit bs = (limC limit).dec bs) :=
  ⟨gr_u64_deserialize, gr_usize_deserialize, gr_u8_deserialize, gr_bool_deserialize, gr_f64_deserialize, gr_modulus_deserialize,
   gr_scheme_deserialize, gr_vec_deserialize _ u64C gr_u64_deserialize, gr_vec_deserialize _ modulusC gr_modulus_deserialize,
   gr_pid_deserialize, gr_plain_deserialize, gr_params_deserialize, gl_read_u64_limited⟩

theorem gs_plain_norm (p : Plain) (hv : plainC.valid p) : plainC.norm p = p := by
  obtain ⟨h1, h2, h3⟩ := hv
  have e1 := pidC_exact p.pid h1
  have e2 := vecC_exact u64C u64C_exact p.data h2
  have e3 := u64C_exact p.scale h3
  show Plain.mk (pidC.norm p.pid) ((vecC u64C).norm p.data) (f64C.norm p.scale) = p
  have e3' : f64C.norm p.scale = p.scale := e3
  rw [e1, e2, e3']

/-- FROM SOURCE TO SOURCE: what the generated `Plaintext::deserialize` reads back from the bytes the generated
    `Plaintext::serialize` wrote (followed by anything) is the plaintext itself, and exactly those bytes are consumed. -/
theorem c14g_plain_source_round_trip (p : Plain) (hv : plainC.valid p) (hl : p.pid.length = 4) (rest : Bytes) :
    plain_deserialize ((plain_serialize idealStream p []).2 ++ rest) = .ok (p, rest) := by
  have hw := gs_ideal plainC p _ (gs_plain_serialize idealStream p hl) []
  rw [hw, gr_plain_deserialize]
  simp only [List.nil_append]
  rw [plainC_lawful.rt p hv rest, gs_plain_norm p hv]

/-- the same for `EncryptionParameters` whose coefficient modulus count is one `set_coeff_modulus` accepts -/
theorem c14g_params_source_round_trip (p : Params) (hv : paramsC.valid p) (hs : p.scheme < 256)
    (hn : paramsC.norm p = p) (hc : coeffCountOk p = true) (rest : Bytes) :
    params_deserialize ((params_serialize idealStream p []).2 ++ rest) = .ok (p, rest) := by
  have hw := gs_ideal paramsC p _ (gs_params_serialize idealStream p hs) []
  rw [hw, gr_params_deserialize]
  simp only [List.nil_append]
  rw [paramsC_lawful.rt p hv rest, hn]
  simp [hc]

/-- … and the EXCLUDED POINT: parameters without coefficient moduli (e.g. a fresh `EncryptionParameters::new(BFV)`) are
    serialized, the model decodes the bytes, the code's reader panics in `set_coeff_modulus` after reading them -/
theorem c14g_params_empty_modulus_refused :
    paramsC.valid ⟨1, 0, [], 0, false⟩ ∧
    paramsC.dec (paramsC.enc ⟨1, 0, [], 0, false⟩) = .ok (⟨1, 0, [], 0, false⟩, []) ∧
    params_deserialize ((params_serialize idealStream ⟨1, 0, [], 0, false⟩ []).2) = .error .bad := by
  refine ⟨?_, by rfl, ?_⟩
  · refine ⟨⟨⟨?_, ?_⟩, rfl, ?_, ?_, ?_, ?_⟩, ?_⟩
    · show (1 : Nat) < 256 ^ 1; decide
    · rfl
    · show (0 : Nat) < 256 ^ 8; decide
    · refine ⟨?_, rfl, trivial⟩
      show (0 : Nat) < 256 ^ 8; decide
    · exact ⟨(by show (0 : Nat) < 256 ^ 8; decide), trivial⟩
    · show (0 : Nat) < 256 ^ 1; decide
    · rfl
  · have hw := gs_ideal paramsC ⟨1, 0, [], 0, false⟩ _ (gs_params_serialize idealStream ⟨1, 0, [], 0, false⟩ (by decide)) []
    rw [hw, gr_params_deserialize]
    rfl

/-- Every generated size function is the model's `size` / closed-form size function. -/
theorem c14g_sizes_are_model :
    (∀ v, u64_serialized_size v = u64C.size v) ∧ (∀ v, usize_serialized_size v = usizeC.size v) ∧ (∀ v, u8_serialized_size v = u8C.size v) ∧
    (∀ b, bool_serialized_size b = boolC.size b) ∧ (∀ v, f64_serialized_size v = f64C.size v) ∧
    (∀ v, modulus_serialized_size v = modulusC.size v) ∧ (∀ v, scheme_serialized_size v = schemeC.size v) ∧
    (∀ l : List Nat, l.length = 4 → pid_serialized_size l = pidC.size l) ∧
    (∀ l : List Nat, vec_serialized_size u64_serialized_size l = (vecC u64C).size l) ∧
    (∀ l : List Nat, vec_serialized_size modulus_serialized_size l = (vecC modulusC).size l) ∧
    (∀ p, params_serialized_size p = paramsSerializedSize p) ∧ (∀ p, params_serialized_size p = paramsC.size p) ∧
    (∀ p, plain_serialized_size p = plainSerializedSize p) ∧
    (∀ q, q < 2 ^ 64 → get_u64_limit q = .ok (u64Limit q) ∧ u64Limit q ≤ 8) ∧
    (∀ ctx lv v, ctx.find v.pid = some lv → ct_serialized_full_size ctx v = .ok (ctSerializedFullSize lv (fullSentV v))) ∧
    (∀ ctx lv v, ctx.find v.pid = some lv → (∀ q ∈ lv.moduli, q < 2 ^ 64) →
        ct_serialized_size ctx v = .ok (ctSerializedSize lv v.size v.seeded)) ∧
    (∀ ctx lv v tc, ctx.find v.pid = some lv → (∀ q ∈ lv.moduli, q < 2 ^ 64) → (v.seeded = true ∨ 1 ≤ v.size) →
        ct_serialized_terms_size ctx v tc = .ok (ctSerializedTermsSize lv v.size v.seeded tc)) ∧
    (∀ ctx v tc, ctx.find v.pid = none → ct_serialized_full_size ctx v = .error .other ∧ ct_serialized_size ctx v = .error .other ∧
        ct_serialized_terms_size ctx v tc = .error .other) := by
  refine ⟨fun _ => rfl, fun _ => rfl, fun _ => rfl, fun _ => rfl, fun _ => rfl, fun _ => rfl, fun _ => rfl, ?_,
    fun l => gr_vec_size _ u64C rfl l, fun l => gr_vec_size _ modulusC rfl l, gr_params_size, ?_, gr_plain_size,
    fun q hq => ⟨gr_get_u64_limit q hq, gl_u64Limit_le q hq⟩, gr_ct_full_size, gr_ct_size,
    fun ctx lv v tc h1 h2 h3 => gr_ct_terms_size ctx lv v tc h1 h2 h3, gr_ct_sizes_unknown_pid⟩
  · intro l hl
    match l, hl with
    | [a, b, c, d], _ => rfl
  · intro p; rw [gr_params_size]
    unfold paramsSerializedSize
    show _ = 1 + (8 + ((8 + seqSize (List.replicate p.coeffMod.length modulusC) p.coeffMod) +
      (seqSize (List.replicate (if hasPlain p.scheme then 1 else 0) modulusC) (if hasPlain p.scheme then [p.plainMod] else []) + 1)))
    rw [gr_seqSize_replicate]
    have : (p.coeffMod.map modulusC.size).sum = 8 * p.coeffMod.length := gr_sum_const p.coeffMod 8
    rw [this]
    cases hasPlain p.scheme <;> simp [seqSize, modulusC, u64C, scalarC] <;> omega

/-! ### C15: the generated writers on faulty sinks -/

theorem gs_clean (cs : List Chunk) (s : Sink) :
    (∀ n, (runChunks sinkStream cs s).1 = .ok n → n = (flat cs).length ∧ (runChunks sinkStream cs s).2.out = s.out ++ flat cs) ∧
    (∀ e, (runChunks sinkStream cs s).1 = .error e →
      (∃ io, e = .io io) ∧ ∃ j, j ≤ (flat cs).length ∧ (runChunks sinkStream cs s).2.out = s.out ++ (flat cs).take j) := by
  have hc : Clean (flat cs) s (Codec.serialize (fun _ => .writeAll) cs s) := serialize_clean _ (fun _ => rfl) cs s
  rw [runChunks_sink]
  rcases h : Codec.serialize (fun _ => WMode.writeAll) cs s with ⟨r, s'⟩
  rw [h] at hc
  cases r with
  | ok n =>
    refine ⟨fun m hm => ?_, fun e he => ?_⟩
    · simp only [liftIO] at hm ⊢
      have : m = n := by injection hm with hm; exact hm.symm
      subst this
      exact hc.1 m rfl
    · simp [liftIO] at he
  | error e0 =>
    refine ⟨fun m hm => ?_, fun e he => ?_⟩
    · simp [liftIO] at hm
    · simp only [liftIO] at he ⊢
      have : e = .io e0 := by injection he with he; exact he.symm
      exact ⟨⟨e0, this⟩, hc.2 e0 rfl⟩

/-- a writer program that is the chunk program of `c` at `x`, run on ANY faulty sink: `Ok n` with `n = |enc x|` and exactly `enc x`
    appended, or the STREAM's error (never a panic) with a prefix of `enc x` appended -/
theorem gs_writer_clean {α} (c : Codec α) (x : α) (w : W Sink IOErr Nat) (hw : w = runChunks sinkStream (c.chunks x)) (s : Sink) :
    (∀ n, (w s).1 = .ok n → n = (c.enc x).length ∧ (w s).2.out = s.out ++ c.enc x) ∧
    (∀ e, (w s).1 = .error e → (∃ io, e = .io io) ∧ ∃ j, j ≤ (c.enc x).length ∧ (w s).2.out = s.out ++ (c.enc x).take j) := by
  rw [hw]; exact gs_clean (c.chunks x) s

/-- The GENERATED composite writers (`EncryptionParameters`, `Plaintext` = `SecretKey`, `Vec<u64>`, `Vec<Modulus>`, the limited
    writer) on every faulty sink, any prior state: complete encoding and the right count, or the stream's error and a prefix. -/
theorem c15g_source_writers_fail_cleanly (s : Sink) :
    (∀ p : Params, p.scheme < 256 →
      (∀ n, (params_serialize sinkStream p s).1 = .ok n →
          n = (paramsC.enc p).length ∧ (params_serialize sinkStream p s).2.out = s.out ++ paramsC.enc p) ∧
      (∀ e, (params_serialize sinkStream p s).1 = .error e → (∃ io, e = .io io) ∧
          ∃ j, j ≤ (paramsC.enc p).length ∧ (params_serialize sinkStream p s).2.out = s.out ++ (paramsC.enc p).take j)) ∧
    (∀ p : Plain, p.pid.length = 4 →
      (∀ n, (plain_serialize sinkStream p s).1 = .ok n →
          n = (plainC.enc p).length ∧ (plain_serialize sinkStream p s).2.out = s.out ++ plainC.enc p) ∧
      (∀ e, (plain_serialize sinkStream p s).1 = .error e → (∃ io, e = .io io) ∧
          ∃ j, j ≤ (plainC.enc p).length ∧ (plain_serialize sinkStream p s).2.out = s.out ++ (plainC.enc p).take j)) ∧
    (∀ l : List Nat,
      (∀ n, (vec_serialize sinkStream (u64_serialize sinkStream) l s).1 = .ok n →
          n = ((vecC u64C).enc l).length ∧ (vec_serialize sinkStream (u64_serialize sinkStream) l s).2.out = s.out ++ (vecC u64C).enc l) ∧
      (∀ e, (vec_serialize sinkStream (u64_serialize sinkStream) l s).1 = .error e → (∃ io, e = .io io) ∧
          ∃ j, j ≤ ((vecC u64C).enc l).length ∧
            (vec_serialize sinkStream (u64_serialize sinkStream) l s).2.out = s.out ++ ((vecC u64C).enc l).take j)) ∧
    (∀ v limit, v < 256 ^ limit →
      (∀ n, (write_u64_limited sinkStream v limit s).1 = .ok n →
          n = ((limC limit).enc v).length ∧ (write_u64_limited sinkStream v limit s).2.out = s.out ++ (limC limit).enc v) ∧
      (∀ e, (write_u64_limited sinkStream v limit s).1 = .error e → (∃ io, e = .io io) ∧
          ∃ j, j ≤ ((limC limit).enc v).length ∧ (write_u64_limited sinkStream v limit s).2.out = s.out ++ ((limC limit).enc v).take j)) :=
  ⟨fun p hp => gs_writer_clean paramsC p _ (gs_params_serialize _ p hp) s,
   fun p hp => gs_writer_clean plainC p _ (gs_plain_serialize _ p hp) s,
   fun l => gs_writer_clean (vecC u64C) l _ (gs_vec_serialize _ _ u64C l (fun x _ => gs_u64_serialize _ x)) s,
   fun v limit hv => gs_writer_clean (limC limit) v _ (gl_write_u64_limited _ v limit hv) s⟩

/-- The generated writers on a C15 sink ARE the model's `serialize` (the object the existing C15 theorems are about), with the write
    primitive the SOURCE uses in each scalar impl — here read off the translated bodies, not off the pattern table. -/
theorem c15g_source_writers_are_model_serialize (s : Sink) :
    (∀ v, u64_serialize sinkStream v s = liftIO (Codec.serialize (fun _ => .writeAll) (u64C.chunks v) s)) ∧
    (∀ v, usize_serialize sinkStream v s = liftIO (Codec.serialize (fun _ => .writeAll) (usizeC.chunks v) s)) ∧
    (∀ v, v < 256 → u8_serialize sinkStream v s = liftIO (Codec.serialize (fun _ => .writeAll) (u8C.chunks v) s)) ∧
    (∀ p : Params, p.scheme < 256 →
        params_serialize sinkStream p s = liftIO (Codec.serialize (fun _ => .writeAll) (paramsC.chunks p) s)) ∧
    (∀ p : Plain, p.pid.length = 4 →
        plain_serialize sinkStream p s = liftIO (Codec.serialize (fun _ => .writeAll) (plainC.chunks p) s)) := by
  refine ⟨fun v => ?_, fun v => ?_, fun v hv => ?_, fun p hp => ?_, fun p hp => ?_⟩
  · rw [gs_u64_serialize, runChunks_sink]
  · rw [gs_usize_serialize, runChunks_sink]
  · rw [gs_u8_serialize _ v hv, runChunks_sink]
  · rw [gs_params_serialize _ p hp, runChunks_sink]
  · rw [gs_plain_serialize _ p hp, runChunks_sink]

/-- the writer's panic is not an I/O fault: a value that does not fit its width is written truncated, THEN the assertion fires -/
theorem c15g_limited_writer_panics_after_writing (v limit : Nat) (hv : 256 ^ limit ≤ v) (s : Bytes) :
    write_u64_limited idealStream v limit s = (.error .panic, s ++ (limC limit).enc v) := by
  rw [gl_write_u64_limited_panics idealStream v limit hv]
  simp only [wbind, runChunks_ideal, wpanic]
  rfl

/-- The generated readers on any strict prefix of a valid encoding: `Err(UnexpectedEof)` — for `Plaintext` and for
    `EncryptionParameters` (whose count check comes after all reads, so it cannot turn a truncation into a panic). -/
theorem c15g_source_readers_truncation :
    (∀ (p : Plain), plainC.valid p → ∀ k, k < (plainC.enc p).length →
      ∃ sk, plain_deserialize ((plainC.enc p).take k) = .error (.eof sk)) ∧
    (∀ (p : Params), paramsC.valid p → ∀ k, k < (paramsC.enc p).length →
      ∃ sk, params_deserialize ((paramsC.enc p).take k) = .error (.eof sk)) ∧
    (∀ (l : List Nat), (vecC u64C).valid l → ∀ k, k < ((vecC u64C).enc l).length →
      ∃ sk, vec_deserialize u64_deserialize (((vecC u64C).enc l).take k) = .error (.eof sk)) := by
  refine ⟨fun p hv k hk => ?_, fun p hv k hk => ?_, fun l hv k hk => ?_⟩
  · rw [gr_plain_deserialize]; exact plainC_lawful.pre p hv k hk
  · obtain ⟨sk, h⟩ := paramsC_lawful.pre p hv k hk
    exact ⟨sk, by rw [gr_params_deserialize, h]⟩
  · rw [gr_vec_deserialize _ u64C gr_u64_deserialize]; exact (vecC_lawful u64C u64C_lawful).pre l hv k hk

end HC.GS
