/-
  C20M: `MatmulBoltCp` end to end over the model (`Model/Matmul.lean`): for every helper the model's constructor accepts,
  encode inputs → encode weights → baby-step / giant-step rotate-multiply-accumulate schedule → decode  =  x·w  (any commutative ring).

    * `c20_CpOK`            the arithmetic facts about an accepted helper (N = s·gap, s = irc·orc = 2·half, orc even, m ≤ gap);
    * `c20_boltCpNew_ok`    `BoltCp.new` establishes them for N a power of two below 2^64 (the split search returns a power of two < s);
    * `c20_boltCpEncW_spec` one weight polynomial as a function of (column, entry);
    * `c20_cpTail_spec`     the giant-step tail (rotate the running sum, add the class, set the half that crossed the row boundary
                            aside with rows exchanged, add the half sum);
    * `c20_cpMulPart_spec`  `MatmulBoltCpSmall::multiply` for one row part;
    * `c20_boltCp_whole`, `c20_boltCp_new`   the end-to-end theorems.
-/
import Heathcliff.Proofs.C20L
namespace HC
open Finset HC.MM

variable {S : Type}

/-! ### the accepted helpers -/

structure c20_CpOK (h : BoltCp) (half h2 : Nat) : Prop where
  hN : h.N = h.s * h.gap
  hs : h.s = 2 * half
  hio : h.irc * h.orc = h.s
  ho : h.orc = 2 * h2
  hh2 : 0 < h2
  hirc : 0 < h.irc
  hm0 : 0 < h.m
  hmg : h.m ≤ h.gap
  hr : 0 < h.r
  hn : 0 < h.n

theorem c20_CpOK.half_eq {h : BoltCp} {half h2 : Nat} (ok : c20_CpOK h half h2) : half = h.irc * h2 := by
  have h1 := ok.hio
  rw [ok.ho, ok.hs] at h1
  have : 2 * (h.irc * h2) = 2 * half := by rw [← h1]; ring
  omega

theorem c20_CpOK.half_pos {h : BoltCp} {half h2 : Nat} (ok : c20_CpOK h half h2) : 0 < half := by
  rw [ok.half_eq]; exact Nat.mul_pos ok.hirc ok.hh2

theorem c20_CpOK.gap_pos {h : BoltCp} {half h2 : Nat} (ok : c20_CpOK h half h2) : 0 < h.gap :=
  lt_of_lt_of_le ok.hm0 ok.hmg

theorem c20_CpOK.hN2 {h : BoltCp} {half h2 : Nat} (ok : c20_CpOK h half h2) : h.N = 2 * (half * h.gap) := by
  rw [ok.hN, ok.hs, Nat.mul_assoc]

theorem c20_ceilTwoPower_go_spec (n : Nat) : ∀ f k, ∃ a, ceilTwoPower.go n f (2^k) = 2^a ∧ (n ≤ 2^(k+f) → n ≤ 2^a)
  | 0, k => ⟨k, rfl, fun h => h⟩
  | f+1, k => by
    unfold ceilTwoPower.go
    split
    · obtain ⟨a, ha, hle⟩ := c20_ceilTwoPower_go_spec n f (k+1)
      refine ⟨a, by rw [← ha, Nat.pow_succ, Nat.mul_comm], fun h => hle (by rw [Nat.add_right_comm, Nat.add_assoc] at *; exact h)⟩
    · exact ⟨k, rfl, fun _ => by omega⟩

theorem c20_ceilTwoPower_spec (n : Nat) : ∃ a, ceilTwoPower n = 2^a ∧ (n ≤ 2^64 → n ≤ 2^a) := by
  obtain ⟨a, ha, hle⟩ := c20_ceilTwoPower_go_spec n 64 0
  exact ⟨a, ha, fun h => hle (by simpa using h)⟩

theorem c20_boltCpSplit_go_spec (s ic oc : Nat) : ∀ f c bi best, (∃ b, bi = 2^b ∧ 2^b < s) →
    ∃ b, boltCpSplit.go s ic oc f (2^c) bi best = 2^b ∧ 2^b < s
  | 0, _, _, _, h => h
  | f+1, c, bi, best, h => by
    unfold boltCpSplit.go
    split
    · rename_i hlt
      have e : 2 * 2^c = 2^(c+1) := by rw [Nat.pow_succ, Nat.mul_comm]
      dsimp only
      split
      · rw [e]; exact c20_boltCpSplit_go_spec s ic oc f (c+1) _ _ ⟨c, rfl, hlt⟩
      · rw [e]; exact c20_boltCpSplit_go_spec s ic oc f (c+1) _ _ h
    · exact h

theorem c20_boltCpSplit_spec (s ic oc : Nat) (hs : 2 ≤ s) : ∃ b, boltCpSplit s ic oc = 2^b ∧ 2^b < s :=
  c20_boltCpSplit_go_spec s ic oc 64 0 1 usizeMax ⟨0, rfl, by omega⟩

/-- **`MatmulBoltCp::new`**: every helper the constructor accepts for a power-of-two `N` in the `usize` range satisfies `c20_CpOK` -/
theorem c20_boltCpNew_ok {m r n N : Nat} {h : BoltCp} (hnew : BoltCp.new m r n N = .ok h) (hpow : ∃ e, N = 2^e) (hN64 : N < 2^64) :
    h.N = N ∧ h.mAll = m ∧ h.m = min m (N / 2) ∧ h.r = r ∧ h.n = n ∧ ∃ half h2, c20_CpOK h half h2 := by
  obtain ⟨e, rfl⟩ := hpow
  unfold BoltCp.new at hnew
  obtain ⟨a, ha, hale⟩ := c20_ceilTwoPower_spec (min m (2^e / 2))
  simp only [ha] at hnew
  split at hnew
  · cases hnew
  rename_i hc
  have hc' : min m (2^e / 2) ≠ 0 ∧ r ≠ 0 ∧ n ≠ 0 ∧ 2 ≤ 2^e / 2^a := by
    refine ⟨fun h => hc (Or.inl h), fun h => hc (Or.inr (Or.inl h)), fun h => hc (Or.inr (Or.inr (Or.inl h))), ?_⟩
    by_contra h; exact hc (Or.inr (Or.inr (Or.inr (by omega))))
  obtain ⟨hmr, hr, hn, hs2⟩ := hc'
  have hae : a < e := by
    by_contra hge
    have : 2^e ≤ 2^a := Nat.pow_le_pow_right (by decide) (by omega)
    have : 2^e / 2^a ≤ 1 := by
      rw [Nat.div_le_iff_le_mul_add_pred (Nat.two_pow_pos a)]; omega
    omega
  have hs : 2^e / 2^a = 2^(e - a) := Nat.pow_div (by omega) (by decide)
  rw [hs] at hnew hs2
  obtain ⟨b, hb, hblt⟩ := c20_boltCpSplit_spec (2^(e-a)) (ceilDiv r (2^(e-a))) (ceilDiv n (2^(e-a))) hs2
  simp only [hb] at hnew
  split at hnew
  · cases hnew
  cases hnew
  have hbe : b < e - a := by
    by_contra hge
    have : 2^(e-a) ≤ 2^b := Nat.pow_le_pow_right (by decide) (by omega)
    omega
  have ho : 2^(e-a) / 2^b = 2^(e-a-b) := Nat.pow_div (by omega) (by decide)
  refine ⟨rfl, rfl, rfl, rfl, rfl, 2^(e-a-1), 2^(e-a-b-1), ?_⟩
  have hmle : min m (2^e / 2) ≤ 2^a := hale (by
    have : 2^e / 2 ≤ 2^e := Nat.div_le_self _ _
    omega)
  exact {
    hN := by show 2^e = 2^(e-a) * 2^a; rw [← Nat.pow_add]; congr 1; omega
    hs := by show 2^(e-a) = 2 * 2^(e-a-1); rw [Nat.mul_comm, ← Nat.pow_succ]; congr 1; omega
    hio := by show 2^b * (2^(e-a) / 2^b) = 2^(e-a); rw [ho, ← Nat.pow_add]; congr 1; omega
    ho := by show 2^(e-a) / 2^b = 2 * 2^(e-a-b-1); rw [ho, Nat.mul_comm, ← Nat.pow_succ]; congr 1; omega
    hh2 := Nat.two_pow_pos _
    hirc := Nat.two_pow_pos _
    hm0 := Nat.pos_of_ne_zero hmr
    hmg := hmle
    hr := Nat.pos_of_ne_zero hr
    hn := Nat.pos_of_ne_zero hn }

/-! ### column shifts -/

theorem c20_boltShift_inj {half rot k k' : Nat} (hh : 0 < half) (hk : k < 2 * half) (hk' : k' < 2 * half)
    (h : boltShift half k rot = boltShift half k' rot) : k = k' := by
  obtain ⟨d1, m1⟩ := c20_boltShift_split half k rot hh
  obtain ⟨d2, m2⟩ := c20_boltShift_split half k' rot hh
  rw [h, d2] at d1
  rw [h, m2] at m1
  have hm : k % half = k' % half := by
    have : rot + k' ≡ rot + k [MOD half] := m1
    exact (Nat.ModEq.add_left_cancel' rot this).symm
  have hq : k / half < 2 := by rw [Nat.div_lt_iff_lt_mul hh]; omega
  have hq' : k' / half < 2 := by rw [Nat.div_lt_iff_lt_mul hh]; omega
  have hd : k / half = k' / half := by
    generalize rot / half = A at d1
    generalize k / half = B at d1 hq ⊢
    generalize k' / half = B' at d1 hq' ⊢
    omega
  have e1 := Nat.div_add_mod' k half
  have e2 := Nat.div_add_mod' k' half
  rw [hd, hm] at e1
  omega

/-- shifting by a multiple of `irc` and then by less than `irc` is the shift by the sum (no carry: `irc` divides `half`) -/
theorem c20_boltShift_comp {half irc h2 k or ir : Nat} (hhalf : half = irc * h2) (hh : 0 < half) (hir : ir < irc) :
    boltShift half (boltShift half k (or * irc)) ir = boltShift half k (or * irc + ir) := by
  obtain ⟨d1, m1⟩ := c20_boltShift_split half k (or * irc) hh
  have hirc : 0 < irc := by omega
  have hdiv : (or * irc + ir) / half = or * irc / half := by
    rw [hhalf, ← Nat.div_div_eq_div_mul, ← Nat.div_div_eq_div_mul, Nat.mul_comm or irc, Nat.mul_add_div hirc,
      Nat.div_eq_of_lt hir, Nat.add_zero, Nat.mul_div_cancel_left _ hirc]
  have hir0 : ir / half = 0 := Nat.div_eq_of_lt (by rw [hhalf]; exact lt_of_lt_of_le hir (Nat.le_mul_of_pos_right _ (by
    rcases Nat.eq_zero_or_pos h2 with h | h
    · rw [h] at hhalf; omega
    · exact h)))
  show (ir + boltShift half k (or * irc)) % half + (ir / half + boltShift half k (or * irc) / half) % 2 * half
    = (or * irc + ir + k) % half + ((or * irc + ir) / half + k / half) % 2 * half
  rw [← Nat.add_mod_mod ir, m1, d1, Nat.add_mod_mod, hir0, Nat.zero_add, Nat.mod_mod, hdiv]
  congr 2
  ring

/-! ### the encoders -/

/-- one weight polynomial (rotation class `ir`, `or`; output polynomial `i`, input polynomial `j`) as a function of (column, entry):
    the column `boltShift half k corr` holds `b[j·s + boltShift half k rot][i·s + k]` in every entry -/
theorem c20_boltCpEncW_spec (z : S) (h : BoltCp) {half h2 : Nat} (ok : c20_CpOK h half h2) (b : Nat → S) (ir or i j : Nat) :
    ∃ arr, boltCpEncW h z b ir or i j = .ok arr ∧ arr.size = h.N ∧
      ∀ k t, k < h.s → t < h.gap → arr.getD (boltShift half k (or * h.irc % h.s) * h.gap + t) z =
        if j * h.s + boltShift half k (or * h.irc + ir) < h.r ∧ i * h.s + k < h.n
        then b ((j * h.s + boltShift half k (or * h.irc + ir)) * h.n + (i * h.s + k)) else z := by
  have hh := ok.half_pos
  have hs2 : h.s / 2 = half := by rw [ok.hs, Nat.mul_div_cancel_left _ (by decide : 0 < 2)]
  unfold boltCpEncW
  simp only [hs2]
  have hmemI : ∀ kt : Nat × Nat, kt ∈ ((pairs h.s h.gap).filter fun kt =>
      j * h.s + boltShift half kt.1 (or * h.irc + ir) < h.r ∧ i * h.s + kt.1 < h.n) ↔
      (kt.1 < h.s ∧ kt.2 < h.gap) ∧ (j * h.s + boltShift half kt.1 (or * h.irc + ir) < h.r ∧ i * h.s + kt.1 < h.n) := by
    intro kt
    rw [List.mem_filter, c20_mem_pairs, decide_eq_true_eq]
  obtain ⟨arr, hok, hsz, hz, hv⟩ := c20_scatter_map z h.N h.N
    ((pairs h.s h.gap).filter fun kt => j * h.s + boltShift half kt.1 (or * h.irc + ir) < h.r ∧ i * h.s + kt.1 < h.n)
    (fun kt => boltShift half kt.1 (or * h.irc % h.s) * h.gap + kt.2)
    (fun kt => b ((j * h.s + boltShift half kt.1 (or * h.irc + ir)) * h.n + (i * h.s + kt.1)))
    (by
      intro kt hkt
      obtain ⟨⟨h1, h2'⟩, _⟩ := (hmemI kt).mp hkt
      have hlt := c20_boltShift_lt half kt.1 (or * h.irc % h.s) hh
      rw [← ok.hs] at hlt
      have := c20_succ_mul_le (ib := h.gap) hlt
      show boltShift half kt.1 (or * h.irc % h.s) * h.gap + kt.2 < h.N ∧ boltShift half kt.1 (or * h.irc % h.s) * h.gap + kt.2 < h.N
      rw [ok.hN]
      omega)
    (by
      intro k hk k' hk' heq
      obtain ⟨⟨h1, h2'⟩, _⟩ := (hmemI k).mp hk
      obtain ⟨⟨h1', h2''⟩, _⟩ := (hmemI k').mp hk'
      obtain ⟨e2, e1⟩ := c20_digit_unique (W := h.gap) h2'' h2' heq
      have e3 : k.1 = k'.1 := c20_boltShift_inj hh (by rw [← ok.hs]; exact h1) (by rw [← ok.hs]; exact h1') e1
      show b _ = b _
      rw [e3])
  refine ⟨arr, hok, hsz, ?_⟩
  intro k t hk ht
  split
  · rename_i hcond
    exact hv (k, t) ((hmemI (k, t)).mpr ⟨⟨hk, ht⟩, hcond⟩)
  · rename_i hcond
    apply hz
    intro kt hkt heq
    obtain ⟨⟨h1, h2'⟩, h3⟩ := (hmemI kt).mp hkt
    obtain ⟨e2, e1⟩ := c20_digit_unique (W := h.gap) ht h2' heq
    have e3 : kt.1 = k := c20_boltShift_inj hh (by rw [← ok.hs]; exact h1) (by rw [← ok.hs]; exact hk) e1
    rw [e3] at h3
    exact hcond h3

/-- the weight polynomial of rotation class (`ir`, `or`), output polynomial `i`, input polynomial `j` -/
def c20_cpW (z : S) (h : BoltCp) (w : Nat → S) (ir or i j : Nat) : Array S := c20_val #[] (boltCpEncW h z w ir or i j)

theorem c20_boltCpEncodeWeights_ok (z : S) (h : BoltCp) {half h2 : Nat} (ok : c20_CpOK h half h2) (w : Nat → S) :
    boltCpEncodeWeights h z w (h.r * h.n)
      = .ok ((pairs h.irc h.orc).map fun io => (pairs (ceilDiv h.n h.s) (ceilDiv h.r h.s)).map fun ij =>
          c20_cpW z h w io.1 io.2 ij.1 ij.2) := by
  unfold boltCpEncodeWeights
  rw [if_neg (by simp)]
  apply c20_mapM_eq
  intro io _
  apply c20_mapM_eq
  intro ij _
  obtain ⟨arr, hok, _⟩ := c20_boltCpEncW_spec z h ok w io.1 io.2 ij.1 ij.2
  exact c20_val_ok #[] hok

theorem c20_cpW_get (z : S) (h : BoltCp) {half h2 : Nat} (ok : c20_CpOK h half h2) (w : Nat → S) (ir i j : Nat) {or k t : Nat}
    (hor : or < h.orc) (hk : k < h.s) (ht : t < h.gap) :
    (c20_cpW z h w ir or i j).size = h.N ∧
    (c20_cpW z h w ir or i j).getD (boltShift half k (or * h.irc) * h.gap + t) z =
      if j * h.s + boltShift half k (or * h.irc + ir) < h.r ∧ i * h.s + k < h.n
      then w ((j * h.s + boltShift half k (or * h.irc + ir)) * h.n + (i * h.s + k)) else z := by
  obtain ⟨arr, hok, hsz, hget⟩ := c20_boltCpEncW_spec z h ok w ir or i j
  have e : c20_cpW z h w ir or i j = arr := by unfold c20_cpW; rw [hok]; rfl
  have hlt : or * h.irc < h.s := by
    have := c20_succ_mul_le (ib := h.irc) hor
    have := ok.hio
    have := ok.hirc
    rw [Nat.mul_comm h.irc] at *
    omega
  have := hget k t hk ht
  rw [Nat.mod_eq_of_lt hlt] at this
  rw [e]
  exact ⟨hsz, this⟩

theorem c20_boltCpEncodeInputs_ok (z : S) (h : BoltCp) {half h2 : Nat} (ok : c20_CpOK h half h2) (x : Nat → S) :
    boltCpEncodeInputs h z x (h.mAll * h.r)
      = .ok ((List.range (ceilDiv h.mAll h.m)).map fun p => (List.range (ceilDiv h.r h.s)).map fun i =>
          c20_colMajorArr z h.N h.gap h.s h.m h.mAll h.r x p i) := by
  unfold boltCpEncodeInputs
  rw [if_neg (by simp)]
  exact c20_boltRowParts_ok z h.N h.gap h.s h.m h.mAll h.r x ok.hN ok.hmg

/-! ### the giant-step tail -/

/-- one iteration of the giant-step loop (`for (i, outputs_partial) in outputs.into_iter().enumerate().rev()`), as a pure function -/
def c20_cpTailStep [Add S] [Zero S] (h : BoltCp) (outs : List (Option (Array S))) (st : Option (Array S) × Option (Array S))
    (or : Nat) : Option (Array S) × Option (Array S) :=
  let sum := match st.1 with
    | some v => if h.irc * h.gap < h.N / 2 then some (rotRows 0 h.N (h.irc * h.gap) v) else some v
    | none => none
  let sum := match outs.getD or none with
    | some p => accAdd (· + ·) 0 h.N sum p
    | none => sum
  if or = h.orc / 2 then
    match sum with
    | some v => (none, some (swapRows 0 h.N v))
    | none => (sum, st.2)
  else (sum, st.2)

/-- the invariant of the giant-step loop after the classes `q ≤ or < orc` have been processed (`H` slots per row, `ρ` the slot map
    of the rotation by `irc` columns, `σ` of the row exchange, `O or` the slot view of class `or`) -/
structure c20_TailInv [AddCommMonoid S] (h : BoltCp) (H h2 : Nat) (O : Nat → Nat → S) (q : Nat)
    (st : Option (Array S) × Option (Array S)) : Prop where
  wf1 : c20_wf h.N st.1
  wf2 : c20_wf h.N st.2
  hf_none : h2 < q → st.2 = none
  hf_some : q ≤ h2 → st.2 ≠ none
  sm_none : st.1 = none ↔ (q = h.orc ∨ q = h2)
  sm_val : ∀ p, p < h.N → c20_og st.1 p
      = ∑ or ∈ Ico q (if h2 < q then h.orc else h2), O or ((c20_rho H (h.irc * h.gap))^[or - q] p)
  hf_val : q ≤ h2 → ∀ p, p < h.N → c20_og st.2 p
      = ∑ or ∈ Ico h2 h.orc, O or ((c20_rho H (h.irc * h.gap))^[or - h2] (c20_sigma H p))

theorem c20_cpTailStep_inv [AddCommMonoid S] (h : BoltCp) {half h2 : Nat} (ok : c20_CpOK h half h2)
    (outs : List (Option (Array S))) (O : Nat → Nat → S)
    (houts : ∀ or, or < h.orc → ∃ v, outs.getD or none = some v ∧ v.size = h.N ∧ ∀ p, p < h.N → v.getD p 0 = O or p)
    (q : Nat) (hq : q < h.orc) (st : Option (Array S) × Option (Array S))
    (inv : c20_TailInv h (half * h.gap) h2 O (q + 1) st) :
    c20_TailInv h (half * h.gap) h2 O q (c20_cpTailStep h outs st q) := by
  have hH : 0 < half * h.gap := Nat.mul_pos ok.half_pos ok.gap_pos
  have hN2 := ok.hN2
  have hNdiv : h.N / 2 = half * h.gap := by rw [hN2, Nat.mul_div_cancel_left _ (by decide : 0 < 2)]
  have ho2 : h.orc / 2 = h2 := by rw [ok.ho, Nat.mul_div_cancel_left _ (by decide : 0 < 2)]
  obtain ⟨v, hv, hvs, hvg⟩ := houts q hq
  -- the rotated running sum
  obtain ⟨sum1, hsum1, hs1n, hs1wf, hs1v⟩ : ∃ sum1 : Option (Array S),
      (match st.1 with
        | some v => if h.irc * h.gap < h.N / 2 then some (rotRows 0 h.N (h.irc * h.gap) v) else some v
        | none => none) = sum1 ∧ (sum1 = none ↔ st.1 = none) ∧ c20_wf h.N sum1 ∧
      ∀ p, p < h.N → c20_og sum1 p = c20_og st.1 (c20_rho (half * h.gap) (h.irc * h.gap) p) := by
    cases hst : st.1 with
    | none => exact ⟨none, rfl, Iff.rfl, c20_wf_none _, fun p _ => rfl⟩
    | some u =>
      have hu : u.size = h.N := inv.wf1 u hst
      by_cases hc : h.irc * h.gap < h.N / 2
      · refine ⟨some (rotRows 0 h.N (h.irc * h.gap) u), by simp only [hc, if_true], by simp, ?_, ?_⟩
        · intro w hw; cases hw; exact c20_rotRows_size _ _ _ _
        · intro p hp
          show (rotRows 0 h.N (h.irc * h.gap) u).getD p 0 = u.getD _ 0
          rw [hN2] at hp ⊢
          exact c20_rotRows_get 0 _ _ u hp
      · refine ⟨some u, by simp only [hc, if_false], by simp, fun w hw => by cases hw; exact hu, ?_⟩
        intro p hp
        -- no rotation is made when `irc` columns are a whole row: the rotation is the identity
        have hirc : h.irc * h.gap = half * h.gap := by
          have h1 : h.irc ≤ half := by rw [ok.half_eq]; exact Nat.le_mul_of_pos_right _ ok.hh2
          have := Nat.mul_le_mul_right h.gap h1
          omega
        show u.getD p 0 = u.getD (c20_rho (half * h.gap) (h.irc * h.gap) p) 0
        congr 1
        unfold c20_rho
        rw [hirc, Nat.add_mod_right, Nat.mod_mod, Nat.div_add_mod']
  -- the class is added
  have hsum2n : accAdd (· + ·) 0 h.N sum1 v ≠ none := c20_accAdd_ne_none _ _ _ _
  have hsum2wf : c20_wf h.N (accAdd (· + ·) 0 h.N sum1 v) := c20_accAdd_wf _ _ _ _ hvs
  have hsum2v : ∀ p, p < h.N → c20_og (accAdd (· + ·) 0 h.N sum1 v) p
      = c20_og st.1 (c20_rho (half * h.gap) (h.irc * h.gap) p) + O q p := by
    intro p hp
    rw [c20_accAdd_og _ _ _ hp, hs1v p hp, hvg p hp]
  have hrho : ∀ p, p < h.N → c20_rho (half * h.gap) (h.irc * h.gap) p < h.N := by
    intro p hp; rw [hN2] at hp ⊢; exact c20_rho_lt hH hp
  -- the sum of the invariant after the rotation and the addition
  have hsumstep : ∀ T, q < T → (T = if h2 < q + 1 then h.orc else h2) → ∀ p, p < h.N →
      c20_og st.1 (c20_rho (half * h.gap) (h.irc * h.gap) p) + O q p
        = ∑ or ∈ Ico q T, O or ((c20_rho (half * h.gap) (h.irc * h.gap))^[or - q] p) := by
    intro T hqT hT p hp
    rw [inv.sm_val _ (hrho p hp), ← hT, Finset.sum_eq_sum_Ico_succ_bot hqT, Nat.sub_self, Function.iterate_zero, id, add_comm]
    congr 1
    apply Finset.sum_congr rfl
    intro or hor
    have := (Finset.mem_Ico.mp hor).1
    rw [← Function.iterate_succ_apply]
    congr 2
    omega
  unfold c20_cpTailStep
  simp only [hsum1, hv, ho2]
  by_cases hqh : q = h2
  · rw [if_pos hqh]
    obtain ⟨u, hu⟩ := Option.ne_none_iff_exists'.mp hsum2n
    simp only [hu]
    have huwf : u.size = h.N := hsum2wf u hu
    have huv : ∀ p, p < h.N → u.getD p 0 = c20_og st.1 (c20_rho (half * h.gap) (h.irc * h.gap) p) + O q p := by
      intro p hp; have := hsum2v p hp; rw [hu] at this; exact this
    exact {
      wf1 := c20_wf_none _
      wf2 := by intro w hw; cases hw; exact c20_swapRows_size _ _ _
      hf_none := by intro hlt; omega
      hf_some := by intro _; simp
      sm_none := by simp [hqh]
      sm_val := by
        intro p _
        rw [if_neg (by omega), hqh, Finset.Ico_self, Finset.sum_empty]; rfl
      hf_val := by
        intro _ p hp
        have hsg : c20_sigma (half * h.gap) p < h.N := by rw [hN2]; exact c20_sigma_lt hH
        show (swapRows 0 h.N u).getD p 0 = _
        rw [hN2] at hp
        have e := c20_swapRows_get (0 : S) (half * h.gap) u hp
        rw [← hN2] at e
        rw [e, huv _ hsg, hsumstep h.orc hq (by rw [if_pos (by omega)]) _ hsg, hqh] }
  · rw [if_neg hqh]
    have hT : q < (if h2 < q then h.orc else h2) := by
      split
      · exact hq
      · have := inv.hf_none; omega
    have hTeq : (if h2 < q then h.orc else h2) = if h2 < q + 1 then h.orc else h2 := by
      by_cases hlt : h2 < q
      · rw [if_pos hlt, if_pos (by omega)]
      · rw [if_neg hlt, if_neg (by omega)]
    exact {
      wf1 := hsum2wf
      wf2 := inv.wf2
      hf_none := fun hlt => inv.hf_none (by omega)
      hf_some := fun hle => inv.hf_some (by omega)
      sm_none := by
        constructor
        · intro hnone; exact absurd hnone hsum2n
        · intro hor; omega
      sm_val := by
        intro p hp
        show c20_og (accAdd (· + ·) 0 h.N sum1 v) p = _
        rw [hsum2v p hp, hsumstep _ hT hTeq p hp]
      hf_val := fun hle => inv.hf_val (by omega) }

/-- **the giant-step tail**: the loop over the classes from the last one down (never fails on `orc ≥ 2` classes that are all present)
    returns `Σ_{or < orc/2} O_or ∘ ρ^or  +  Σ_{orc/2 ≤ or < orc} O_or ∘ ρ^(or − orc/2) ∘ σ` -/
theorem c20_cpTail_spec [AddCommMonoid S] (h : BoltCp) {half h2 : Nat} (ok : c20_CpOK h half h2)
    (outs : List (Option (Array S))) (O : Nat → Nat → S)
    (houts : ∀ or, or < h.orc → ∃ v, outs.getD or none = some v ∧ v.size = h.N ∧ ∀ p, p < h.N → v.getD p 0 = O or p) :
    ∃ (hv fin : Array S),
      ((List.range h.orc).reverse.foldl (c20_cpTailStep h outs) (none, none)).2 = some hv ∧
      accAdd (· + ·) 0 h.N ((List.range h.orc).reverse.foldl (c20_cpTailStep h outs) (none, none)).1 hv = some fin ∧
      fin.size = h.N ∧
      ∀ p, p < h.N → fin.getD p 0
        = ∑ or ∈ range h2, O or ((c20_rho (half * h.gap) (h.irc * h.gap))^[or] p)
          + ∑ or ∈ Ico h2 h.orc, O or ((c20_rho (half * h.gap) (h.irc * h.gap))^[or - h2] (c20_sigma (half * h.gap) p)) := by
  have key : ∀ q, q ≤ h.orc → ∀ st, c20_TailInv h (half * h.gap) h2 O q st →
      c20_TailInv h (half * h.gap) h2 O 0 ((List.range q).reverse.foldl (c20_cpTailStep h outs) st) := by
    intro q
    induction q with
    | zero => intro _ st inv; exact inv
    | succ q ih =>
      intro hq st inv
      rw [List.range_succ, List.reverse_append, List.reverse_singleton, List.singleton_append, List.foldl_cons]
      exact ih (by omega) _ (c20_cpTailStep_inv h ok outs O houts q (by omega) st inv)
  have h2lt : h2 < h.orc := by have := ok.ho; have := ok.hh2; omega
  have inv0 : c20_TailInv h (half * h.gap) h2 O h.orc ((none, none) : Option (Array S) × Option (Array S)) := {
    wf1 := c20_wf_none _
    wf2 := c20_wf_none _
    hf_none := fun _ => rfl
    hf_some := fun hle => by omega
    sm_none := by simp
    sm_val := by
      intro p _
      rw [if_pos h2lt, Finset.Ico_self, Finset.sum_empty]; rfl
    hf_val := fun hle => by omega }
  have inv := key h.orc (le_refl _) _ inv0
  generalize (List.range h.orc).reverse.foldl (c20_cpTailStep h outs) (none, none) = st at inv
  obtain ⟨hv, hhv⟩ := Option.ne_none_iff_exists'.mp (inv.hf_some (Nat.zero_le _))
  have hne : accAdd (· + ·) 0 h.N st.1 hv ≠ none := c20_accAdd_ne_none _ _ _ _
  obtain ⟨fin, hfin⟩ := Option.ne_none_iff_exists'.mp hne
  refine ⟨hv, fin, hhv, hfin, c20_accAdd_wf _ _ _ _ (inv.wf2 hv hhv) fin hfin, ?_⟩
  intro p hp
  have h1 := c20_accAdd_og h.N st.1 hv hp
  rw [hfin] at h1
  have h3 := inv.hf_val (Nat.zero_le _) p hp
  rw [hhv] at h3
  have h4 := inv.sm_val p hp
  rw [if_neg (by omega)] at h4
  show c20_og (some fin) p = _
  rw [h1, h4, ← h3]
  congr 1
  rw [Finset.range_eq_Ico]
  rfl

/-! ### the slot maps of the tail in (column, entry) form -/

theorem c20_rho_iter_col {half gap irc : Nat} (hh : 0 < half) (a c t : Nat) (hc : c < 2 * half) (ht : t < gap) :
    (c20_rho (half * gap) (irc * gap))^[a] (c * gap + t) = (c / half * half + (c % half + a * irc) % half) * gap + t := by
  have hg : 0 < gap := by omega
  have hp : c * gap + t < 2 * (half * gap) := by
    have := c20_succ_mul_le (ib := gap) hc
    rw [← Nat.mul_assoc]; omega
  rw [c20_rho_iter (Nat.mul_pos hh hg) hp]
  unfold c20_rho
  obtain ⟨d1, d2⟩ := c20_col_divmod (x := c) (w := half) hh ht
  rw [d1, d2]
  have e : c % half * gap + t + a * (irc * gap) = (c % half + a * irc) * gap + t := by ring
  rw [e, (c20_col_divmod (x := c % half + a * irc) (w := half) hh ht).2]
  ring

theorem c20_sigma_col {half gap : Nat} (hh : 0 < half) (c t : Nat) (ht : t < gap) :
    c20_sigma (half * gap) (c * gap + t) = (c + half) % (2 * half) * gap + t := by
  unfold c20_sigma
  have e : c * gap + t + half * gap = (c + half) * gap + t := by ring
  rw [e, ← Nat.mul_assoc, (c20_col_divmod (x := c + half) (w := 2 * half) (by omega) ht).2]

/-- the first half of the giant steps: `or` rotations by `irc` columns move column `boltShift half k (or·irc)` to column `k` -/
theorem c20_cp_connect_lo {half gap irc h2 : Nat} (hhalf : half = irc * h2) (hh : 0 < half) {or k t : Nat} (hor : or < h2)
    (hk : k < 2 * half) (ht : t < gap) :
    (c20_rho (half * gap) (irc * gap))^[or] (k * gap + t) = boltShift half k (or * irc) * gap + t := by
  rw [c20_rho_iter_col hh or k t hk ht]
  congr 2
  have hlt : or * irc < half := by
    rw [hhalf, Nat.mul_comm irc]
    exact Nat.mul_lt_mul_of_pos_right hor (by
      rcases Nat.eq_zero_or_pos irc with h | h
      · rw [h] at hhalf; omega
      · exact h)
  have hq : k / half < 2 := by rw [Nat.div_lt_iff_lt_mul hh]; omega
  unfold boltShift
  rw [Nat.div_eq_of_lt hlt, Nat.zero_add, Nat.mod_eq_of_lt hq, Nat.add_comm (k / half * half), Nat.add_comm (k % half),
    Nat.add_mod_mod]

/-- the second half: the row exchange followed by `or − orc/2` rotations -/
theorem c20_cp_connect_hi {half gap irc h2 : Nat} (hhalf : half = irc * h2) (hh : 0 < half) {or k t : Nat} (hor1 : h2 ≤ or)
    (hor2 : or < 2 * h2) (hk : k < 2 * half) (ht : t < gap) :
    (c20_rho (half * gap) (irc * gap))^[or - h2] (c20_sigma (half * gap) (k * gap + t)) = boltShift half k (or * irc) * gap + t := by
  rw [c20_sigma_col hh k t ht, ← c20_shift_half hh hk,
    c20_rho_iter_col hh (or - h2) _ t (c20_boltShift_lt half k half hh) ht]
  congr 2
  obtain ⟨d1, m1⟩ := c20_boltShift_split half k half hh
  have hirc : 0 < irc := by
    rcases Nat.eq_zero_or_pos irc with h | h
    · rw [h] at hhalf; omega
    · exact h
  have hlt : (or - h2) * irc < half := by
    rw [hhalf, Nat.mul_comm irc]
    exact Nat.mul_lt_mul_of_pos_right (by omega) hirc
  have e : or * irc = half + (or - h2) * irc := by
    have : or = h2 + (or - h2) := by omega
    calc or * irc = (h2 + (or - h2)) * irc := by rw [← this]
      _ = _ := by rw [hhalf]; ring
  rw [d1, m1, Nat.div_self hh, Nat.add_mod_left]
  unfold boltShift
  rw [e, Nat.add_assoc, Nat.add_mod_left, Nat.add_div_left _ hh, Nat.div_eq_of_lt hlt, Nat.zero_add,
    Nat.add_comm (k % half), Nat.add_mod_mod, Nat.add_comm (((or - h2) * irc + k) % half)]

/-! ### `MatmulBoltCpSmall::multiply` -/

theorem c20_mapM_spec {α β : Type} (f : α → R β) (P : α → β → Prop) :
    ∀ (l : List α), (∀ a ∈ l, ∃ b, f a = .ok b ∧ P a b) →
      ∃ bs, l.mapM f = .ok bs ∧ bs.length = l.length ∧ ∀ i (hi : i < l.length), ∃ b, bs[i]? = some b ∧ P l[i] b
  | [], _ => ⟨[], by simp [pure, Except.pure], rfl, fun i hi => by simp at hi⟩
  | a :: l, h => by
    obtain ⟨b, hb, hP⟩ := h a (by simp)
    obtain ⟨bs, hbs, hlen, hall⟩ := c20_mapM_spec f P l (fun a' ha' => h a' (by simp [ha']))
    refine ⟨b :: bs, by rw [List.mapM_cons, hb, hbs]; rfl, by simp [hlen], ?_⟩
    intro i hi
    cases i with
    | zero => exact ⟨b, rfl, hP⟩
    | succ i =>
      obtain ⟨b', hb', hP'⟩ := hall i (by simpa using hi)
      exact ⟨b', by simpa using hb', by simpa using hP'⟩

theorem c20_mapM_spec' {α β : Type} (f : α → R β) (P : α → β → Prop) (Q : List β → Prop) (l : List α)
    (h1 : ∀ a ∈ l, ∃ b, f a = .ok b ∧ P a b)
    (h2 : ∀ bs, bs.length = l.length → (∀ i (hi : i < l.length), ∃ b, bs[i]? = some b ∧ P l[i] b) → Q bs) :
    ∃ bs, l.mapM f = .ok bs ∧ Q bs := by
  obtain ⟨bs, hbs, hlen, hall⟩ := c20_mapM_spec f P l h1
  exact ⟨bs, hbs, h2 bs hlen hall⟩

theorem c20_pairs_ne_nil {A C : Nat} (hA : 0 < A) (hC : 0 < C) : pairs A C ≠ [] :=
  List.ne_nil_of_mem (c20_mem_pairs.mpr ⟨hA, hC⟩ : ((0, 0) : Nat × Nat) ∈ pairs A C)

theorem c20_ceilDiv_pos {a b : Nat} (ha : 0 < a) (hb : 0 < b) : 0 < ceilDiv a b := by
  unfold ceilDiv
  exact Nat.div_pos (by omega) hb

/-- **`MatmulBoltCpSmall::multiply`** for one row part, on ANY input polynomials `fa j` and weight polynomials `fB ir or i j`: the
    schedule never fails and output polynomial `i` holds at column `k`, entry `t`
    `Σ_or Σ_ir Σ_j (fa j)[boltShift half k (or·irc + ir)][t] · (fB ir or i j)[boltShift half k (or·irc)][t]` -/
theorem c20_cpMulPart_spec [CommRing S] (h : BoltCp) {half h2 : Nat} (ok : c20_CpOK h half h2)
    (fa : Nat → Array S) (fB : Nat → Nat → Nat → Nat → Array S) :
    ∃ Yp, boltCpMulPart h (· + ·) (· * ·) 0 ((List.range (ceilDiv h.r h.s)).map fa)
        ((pairs h.irc h.orc).map fun io => (pairs (ceilDiv h.n h.s) (ceilDiv h.r h.s)).map fun ij => fB io.1 io.2 ij.1 ij.2) = .ok Yp ∧
      Yp.length = ceilDiv h.n h.s ∧
      ∀ i, i < ceilDiv h.n h.s → ∃ v, Yp[i]? = some v ∧ v.size = h.N ∧ ∀ k t, k < h.s → t < h.gap →
        v.getD (k * h.gap + t) 0 = ∑ or ∈ range h.orc, ∑ ir ∈ range h.irc, ∑ j ∈ range (ceilDiv h.r h.s),
          (fa j).getD (boltShift half k (or * h.irc + ir) * h.gap + t) 0
            * (fB ir or i j).getD (boltShift half k (or * h.irc) * h.gap + t) 0 := by
  have hh := ok.half_pos
  have hspos : 0 < h.s := by rw [ok.hs]; omega
  have hic : 0 < ceilDiv h.r h.s := c20_ceilDiv_pos ok.hr hspos
  unfold boltCpMulPart
  simp only [List.length_map, List.length_range, ne_eq, not_true_eq_false, if_false]
  refine c20_mapM_spec' _ (fun (i : Nat) (v : Array S) => v.size = h.N ∧ ∀ k t, k < h.s → t < h.gap →
        v.getD (k * h.gap + t) 0 = ∑ or ∈ range h.orc, ∑ ir ∈ range h.irc, ∑ j ∈ range (ceilDiv h.r h.s),
          (fa j).getD (boltShift half k (or * h.irc + ir) * h.gap + t) 0
            * (fB ir or i j).getD (boltShift half k (or * h.irc) * h.gap + t) 0) _ (List.range (ceilDiv h.n h.s)) ?_ ?_
  swap
  · intro Yp hlen hall
    refine ⟨by simpa using hlen, ?_⟩
    intro i hi
    obtain ⟨v, hv, hP⟩ := hall i (by simpa using hi)
    rw [List.getElem_range] at hP
    exact ⟨v, hv, hP⟩
  intro i _hmem
  -- the classes
  let gterm : Nat → Nat × Nat → Array S := fun or x =>
    slotZip (· * ·) 0 h.N (boltCpRotIn h 0 (fa x.2) x.1) (fB x.1 or i x.2)
  let outsL : List (Option (Array S)) := (List.range h.orc).map fun or =>
    (pairs h.irc (ceilDiv h.r h.s)).foldl (fun acc x => accAdd (· + ·) 0 h.N acc (gterm or x)) none
  have houtsM : (List.range h.orc).mapM (fun or =>
      (pairs h.irc (ceilDiv h.r h.s)).foldlM (fun (acc : Option (Array S)) irj => do
        let aj ← getSlots ((List.range (ceilDiv h.r h.s)).map fa) irj.2
        let row ← getRow ((pairs h.irc h.orc).map fun (io : Nat × Nat) =>
          (pairs (ceilDiv h.n h.s) (ceilDiv h.r h.s)).map fun (ij : Nat × Nat) => fB io.1 io.2 ij.1 ij.2) (irj.1 * h.orc + or)
        let b ← getSlots row (i * ceilDiv h.r h.s + irj.2)
        (pure (accAdd (· + ·) 0 h.N acc (slotZip (· * ·) 0 h.N (boltCpRotIn h 0 aj irj.1) b)) : R (Option (Array S)))) none)
      = .ok outsL := by
    apply c20_mapM_eq
    intro or hor
    apply c20_foldlM_pure
    intro st x hx
    obtain ⟨hx1, hx2⟩ := c20_mem_pairs.mp hx
    rw [c20_getSlots_map _ _ _ hx2]
    have hrow : getRow ((pairs h.irc h.orc).map fun io =>
        (pairs (ceilDiv h.n h.s) (ceilDiv h.r h.s)).map fun ij => fB io.1 io.2 ij.1 ij.2) (x.1 * h.orc + or)
        = .ok ((pairs (ceilDiv h.n h.s) (ceilDiv h.r h.s)).map fun ij => fB x.1 or ij.1 ij.2) := by
      unfold getRow
      rw [c20_pairs_map_getElem? _ _ _ _ _ hx1 (List.mem_range.mp hor)]
    have hb : getSlots ((pairs (ceilDiv h.n h.s) (ceilDiv h.r h.s)).map fun ij => fB x.1 or ij.1 ij.2) (i * ceilDiv h.r h.s + x.2)
        = .ok (fB x.1 or i x.2) := by
      unfold getSlots
      rw [c20_pairs_map_getElem? _ _ _ _ _ (List.mem_range.mp _hmem) hx2]
    show (do
        let row ← getRow _ (x.1 * h.orc + or)
        let b ← getSlots row (i * ceilDiv h.r h.s + x.2)
        (pure (accAdd (· + ·) 0 h.N st (slotZip (· * ·) 0 h.N (boltCpRotIn h 0 (fa x.2) x.1) b)) : R (Option (Array S)))) = _
    rw [hrow]
    show (do
        let b ← getSlots _ (i * ceilDiv h.r h.s + x.2)
        (pure (accAdd (· + ·) 0 h.N st (slotZip (· * ·) 0 h.N (boltCpRotIn h 0 (fa x.2) x.1) b)) : R (Option (Array S)))) = _
    rw [hb]
    rfl
  rw [houtsM]
  -- the tail as a pure fold
  have hbind : ∀ {α β : Type} (a : α) (f : α → R β), (Except.ok a >>= f) = f a := fun _ _ => rfl
  simp only [hbind]
  rw [c20_foldlM_pure _ (c20_cpTailStep h outsL)]
  swap
  · intro st or _
    obtain ⟨s1, s2⟩ := st
    unfold c20_cpTailStep
    by_cases hc : h.irc * h.gap < h.N / 2 <;> by_cases ho : or = h.orc / 2 <;>
      cases s1 <;> cases outsL.getD or none <;> (try simp only [hc, ho, if_true, if_false]) <;> (try rfl)
  simp only [hbind]
  -- the slot view of class `or`
  have houts : ∀ or, or < h.orc → ∃ v, outsL.getD or none = some v ∧ v.size = h.N ∧ ∀ p, p < h.N → v.getD p 0
      = ∑ ir ∈ range h.irc, ∑ j ∈ range (ceilDiv h.r h.s), (boltCpRotIn h 0 (fa j) ir).getD p 0 * (fB ir or i j).getD p 0 := by
    intro or hor
    have hne := c20_accFold_ne_none (· + ·) h.N (gterm or) (pairs h.irc (ceilDiv h.r h.s)) none
      (Or.inl (c20_pairs_ne_nil ok.hirc hic))
    obtain ⟨v, hv⟩ := Option.ne_none_iff_exists'.mp hne
    refine ⟨v, by rw [c20_range_map_getD _ _ _ _ hor]; exact hv, ?_, ?_⟩
    · exact c20_accFold_wf (· + ·) h.N (gterm or) _ none (fun x _ => c20_slotZip_size _ _ _ _ _) (c20_wf_none _) v hv
    · intro p hp
      have := c20_accFold_og h.N (gterm or) hp (pairs h.irc (ceilDiv h.r h.s)) none
      rw [hv, c20_list_sum_pairs] at this
      show c20_og (some v) p = _
      rw [this]
      show 0 + _ = _
      rw [zero_add]
      apply Finset.sum_congr rfl
      intro ir _
      apply Finset.sum_congr rfl
      intro j _
      exact c20_slotZip_get _ _ _ _ _ hp
  obtain ⟨hv, fin, hst2, hfin, hfsz, hfv⟩ := c20_cpTail_spec h ok outsL _ houts
  refine ⟨fin, ?_, hfsz, ?_⟩
  · simp only [hst2]
    rw [hfin]
    rfl
  · intro k t hk ht
    have hk' : k < 2 * half := by rw [← ok.hs]; exact hk
    have hp : k * h.gap + t < h.N := by
      rw [ok.hN]; have := c20_succ_mul_le (ib := h.gap) hk; omega
    have hN' : h.N = 2 * half * h.gap := by rw [ok.hN, ok.hs]
    have hval : ∀ or, or < h.orc →
        (∑ ir ∈ range h.irc, ∑ j ∈ range (ceilDiv h.r h.s),
          (boltCpRotIn h 0 (fa j) ir).getD (boltShift half k (or * h.irc) * h.gap + t) 0
            * (fB ir or i j).getD (boltShift half k (or * h.irc) * h.gap + t) 0)
        = ∑ ir ∈ range h.irc, ∑ j ∈ range (ceilDiv h.r h.s),
          (fa j).getD (boltShift half k (or * h.irc + ir) * h.gap + t) 0
            * (fB ir or i j).getD (boltShift half k (or * h.irc) * h.gap + t) 0 := by
      intro or _
      apply Finset.sum_congr rfl
      intro ir hir
      have hir' := Finset.mem_range.mp hir
      have hirs : ir < 2 * half := by
        have : h.irc ≤ half := by rw [ok.half_eq]; exact Nat.le_mul_of_pos_right _ ok.hh2
        omega
      apply Finset.sum_congr rfl
      intro j _
      rw [c20_boltCpRotIn_col h 0 half hh ok.hs hN' (fa j) ir hirs _ t (c20_boltShift_lt half k _ hh) ht,
        c20_boltShift_comp ok.half_eq hh hir']
    rw [hfv _ hp, ← Finset.sum_range_add_sum_Ico _ (by have := ok.ho; omega : h2 ≤ h.orc)]
    congr 1
    · apply Finset.sum_congr rfl
      intro or hor
      have hor' := Finset.mem_range.mp hor
      rw [c20_cp_connect_lo ok.half_eq hh hor' hk' ht]
      exact hval or (by have := ok.ho; omega)
    · apply Finset.sum_congr rfl
      intro or hor
      obtain ⟨hor1, hor2⟩ := Finset.mem_Ico.mp hor
      rw [c20_cp_connect_hi ok.half_eq hh hor1 (by rw [← ok.ho]; exact hor2) hk' ht]
      exact hval or hor2

/-! ### end to end -/

theorem c20_sum_range_mul {M : Type} [AddCommMonoid M] (F : Nat → M) (A B : Nat) :
    ∑ a ∈ range A, ∑ b ∈ range B, F (a * B + b) = ∑ x ∈ range (A * B), F x := by
  induction A with
  | zero => simp
  | succ A ih => rw [Finset.sum_range_succ, ih, Nat.succ_mul, Finset.sum_range_add]

theorem c20_readAt_getD (z : S) (a : Array S) {i : Nat} (hi : i < a.size) : readAt a i = .ok (a.getD i z) := by
  unfold readAt
  rw [Array.getElem?_eq_getElem hi]
  simp [Array.getD, hi]

/-- **`MatmulBoltCp`, whole pipeline** (any commutative ring, every helper satisfying `c20_CpOK`: every shape, every split
    `s = irc·orc` with `orc` even): encode the inputs (column-major row parts) and the weights (one polynomial per rotation class
    and polynomial pair), run the rotate-multiply-accumulate schedule of `multiply` on the slot vectors and decode:
    the result is the matrix product `x · w`, row major `m × n`. -/
theorem c20_boltCp_whole [CommRing S] (h : BoltCp) {half h2 : Nat} (ok : c20_CpOK h half h2) (x w : Nat → S) :
    ∃ X W Y out, boltCpEncodeInputs h 0 x (h.mAll * h.r) = .ok X ∧ boltCpEncodeWeights h 0 w (h.r * h.n) = .ok W ∧
      boltCpMultiply h (· + ·) (· * ·) 0 X W = .ok Y ∧ boltCpDecodeOutputs h 0 Y = .ok out ∧ out.size = h.mAll * h.n ∧
      ∀ i j, i < h.mAll → j < h.n → out.getD (i * h.n + j) 0 = ∑ k ∈ range h.r, x (i * h.r + k) * w (k * h.n + j) := by
  have hh := ok.half_pos
  have hspos : 0 < h.s := by rw [ok.hs]; omega
  -- the product of every row part
  obtain ⟨Y, hY, hlen, hall⟩ := c20_mapM_spec
    (fun a => boltCpMulPart h (· + ·) (· * ·) 0 a
      ((pairs h.irc h.orc).map fun io => (pairs (ceilDiv h.n h.s) (ceilDiv h.r h.s)).map fun ij => c20_cpW 0 h w io.1 io.2 ij.1 ij.2))
    (fun (a : List (Array S)) (Yp : List (Array S)) => Yp.length = ceilDiv h.n h.s ∧
      ∀ i, i < ceilDiv h.n h.s → ∃ v, Yp[i]? = some v ∧ v.size = h.N ∧ ∀ k t, k < h.s → t < h.gap →
        v.getD (k * h.gap + t) 0 = ∑ or ∈ range h.orc, ∑ ir ∈ range h.irc, ∑ j ∈ range (ceilDiv h.r h.s),
          (a.getD j #[]).getD (boltShift half k (or * h.irc + ir) * h.gap + t) 0
            * (c20_cpW 0 h w ir or i j).getD (boltShift half k (or * h.irc) * h.gap + t) 0)
    ((List.range (ceilDiv h.mAll h.m)).map fun p => (List.range (ceilDiv h.r h.s)).map fun i =>
      c20_colMajorArr 0 h.N h.gap h.s h.m h.mAll h.r x p i)
    (by
      intro a ha
      obtain ⟨p, _, rfl⟩ := List.mem_map.mp ha
      obtain ⟨Yp, hYp, hl, hv⟩ := c20_cpMulPart_spec h ok (fun i => c20_colMajorArr 0 h.N h.gap h.s h.m h.mAll h.r x p i)
        (fun ir or i j => c20_cpW 0 h w ir or i j)
      refine ⟨Yp, hYp, hl, ?_⟩
      intro i hi
      obtain ⟨v, h1, h2', h3⟩ := hv i hi
      refine ⟨v, h1, h2', ?_⟩
      intro k t hk ht
      rw [h3 k t hk ht]
      apply Finset.sum_congr rfl; intro or _
      apply Finset.sum_congr rfl; intro ir _
      apply Finset.sum_congr rfl; intro j hj
      rw [c20_range_map_getD _ _ _ _ (Finset.mem_range.mp hj)])
  simp only [List.length_map, List.length_range] at hlen hall
  have hmul : boltCpMultiply h (· + ·) (· * ·) 0
      ((List.range (ceilDiv h.mAll h.m)).map fun p => (List.range (ceilDiv h.r h.s)).map fun i =>
        c20_colMajorArr 0 h.N h.gap h.s h.m h.mAll h.r x p i)
      ((pairs h.irc h.orc).map fun io => (pairs (ceilDiv h.n h.s) (ceilDiv h.r h.s)).map fun ij => c20_cpW 0 h w io.1 io.2 ij.1 ij.2)
      = .ok Y := by
    unfold boltCpMultiply
    rw [if_neg (by simp)]
    exact hY
  -- decoding
  have hany : (Y.any fun p => p.length ≠ ceilDiv h.n h.s) = false := by
    rw [List.any_eq_false]
    intro part hpart
    obtain ⟨p, hp, hget⟩ := List.getElem_of_mem hpart
    obtain ⟨b, hb, hbl, _⟩ := hall p (by omega)
    rw [List.getElem?_eq_getElem hp, hget] at hb
    cases hb
    simp [hbl]
  obtain ⟨out, hout, hosz, hoval⟩ := c20_boltColMajorDecode_spec (0 : S) h.gap h.s h.m h.mAll h.n Y
    (fun row col => ∑ k ∈ range h.r, x (row * h.r + k) * w (k * h.n + col)) ok.hm0 hlen
    (by
      intro p hp
      obtain ⟨part, hpart, hpl, hpv⟩ := hall p hp
      refine ⟨part, by unfold getRow; rw [hpart], ?_⟩
      intro i j hi hj
      have hjo : j / h.s < ceilDiv h.n h.s := c20_div_lt_ceilDiv hspos hj
      have hjk : j % h.s < h.s := Nat.mod_lt _ hspos
      have hig : i < h.gap := by have := ok.hmg; omega
      obtain ⟨v, hv, hvs, hvv⟩ := hpv (j / h.s) hjo
      refine ⟨v, by unfold getSlots; rw [hv], ?_⟩
      have hlt : j % h.s * h.gap + i < v.size := by
        rw [hvs, ok.hN]; have := c20_succ_mul_le (ib := h.gap) hjk; omega
      rw [c20_readAt_getD 0 v hlt, hvv _ _ hjk hig]
      congr 1
      -- the value: re-index the rotation classes, then the columns
      have ej : j / h.s * h.s + j % h.s = j := Nat.div_add_mod' j h.s
      let G : Nat → S := fun q => if q < h.r then x ((p * h.m + i) * h.r + q) * w (q * h.n + j) else 0
      have hterm : ∀ or, or < h.orc → ∀ ir jj,
          ((((List.range (ceilDiv h.mAll h.m)).map fun p => (List.range (ceilDiv h.r h.s)).map fun i =>
              c20_colMajorArr 0 h.N h.gap h.s h.m h.mAll h.r x p i)[p]'(by simpa using hp)).getD jj #[]).getD
                (boltShift half (j % h.s) (or * h.irc + ir) * h.gap + i) 0
            * (c20_cpW 0 h w ir or (j / h.s) jj).getD (boltShift half (j % h.s) (or * h.irc) * h.gap + i) 0
          = if jj < ceilDiv h.r h.s then G (jj * h.s + boltShift half (j % h.s) (or * h.irc + ir)) else 0 := by
        intro or hor ir jj
        rw [List.getElem_map, List.getElem_range]
        by_cases hjj : jj < ceilDiv h.r h.s
        · rw [if_pos hjj, c20_range_map_getD _ _ _ _ hjj]
          have hc : boltShift half (j % h.s) (or * h.irc + ir) < h.s := by rw [ok.hs]; exact c20_boltShift_lt _ _ _ hh
          rw [(c20_colMajorArr_get 0 h.N h.gap h.s h.m h.mAll h.r x ok.hN ok.hmg p jj hc hig).2,
            (c20_cpW_get 0 h ok w ir (j / h.s) jj hor hjk hig).2]
          show _ = if _ < h.r then _ else 0
          by_cases hq : jj * h.s + boltShift half (j % h.s) (or * h.irc + ir) < h.r
          · rw [if_pos ⟨by omega, hq⟩, if_pos ⟨hq, by omega⟩, if_pos hq, ej]
          · rw [if_neg (fun hc' => hq hc'.2), if_neg hq, zero_mul]
        · rw [if_neg hjj]
          have : ((List.range (ceilDiv h.r h.s)).map fun i => c20_colMajorArr 0 h.N h.gap h.s h.m h.mAll h.r x p i).getD jj #[] = #[] := by
            simp [List.getD, hjj]
          rw [this]
          simp
      have hsum1 : (∑ or ∈ range h.orc, ∑ ir ∈ range h.irc, ∑ jj ∈ range (ceilDiv h.r h.s),
          ((((List.range (ceilDiv h.mAll h.m)).map fun p => (List.range (ceilDiv h.r h.s)).map fun i =>
              c20_colMajorArr 0 h.N h.gap h.s h.m h.mAll h.r x p i)[p]'(by simpa using hp)).getD jj #[]).getD
                (boltShift half (j % h.s) (or * h.irc + ir) * h.gap + i) 0
            * (c20_cpW 0 h w ir or (j / h.s) jj).getD (boltShift half (j % h.s) (or * h.irc) * h.gap + i) 0)
          = ∑ rot ∈ range (h.orc * h.irc), ∑ jj ∈ range (ceilDiv h.r h.s), G (jj * h.s + boltShift half (j % h.s) rot) := by
        rw [← c20_sum_range_mul]
        apply Finset.sum_congr rfl; intro or hor
        apply Finset.sum_congr rfl; intro ir _
        apply Finset.sum_congr rfl; intro jj hjj
        rw [hterm or (Finset.mem_range.mp hor) ir jj, if_pos (Finset.mem_range.mp hjj)]
      rw [hsum1, Nat.mul_comm h.orc, ok.hio, Finset.sum_comm]
      have hsum2 : ∀ jj, (∑ rot ∈ range h.s, G (jj * h.s + boltShift half (j % h.s) rot)) = ∑ c ∈ range h.s, G (jj * h.s + c) := by
        intro jj
        rw [ok.hs]
        exact c20_bolt_bsgs_sum (fun c => G (jj * (2 * half) + c)) half (j % (2 * half)) hh
      rw [Finset.sum_congr rfl (fun jj _ => hsum2 jj), c20_sum_range_mul G]
      have hsub : range h.r ⊆ range (ceilDiv h.r h.s * h.s) := by
        intro q hq
        have := c20_le_ceilDiv_mul h.r h.s hspos
        exact Finset.mem_range.mpr (lt_of_lt_of_le (Finset.mem_range.mp hq) this)
      rw [← Finset.sum_subset hsub (fun q _ hq => by
        show (if q < h.r then _ else 0) = 0
        rw [if_neg (fun hlt => hq (Finset.mem_range.mpr hlt))])]
      apply Finset.sum_congr rfl
      intro q hq
      show (if q < h.r then _ else 0) = _
      rw [if_pos (Finset.mem_range.mp hq)])
  refine ⟨_, _, Y, out, c20_boltCpEncodeInputs_ok 0 h ok x, c20_boltCpEncodeWeights_ok 0 h ok w, hmul, ?_, hosz, hoval⟩
  unfold boltCpDecodeOutputs
  rw [hany]
  exact hout

/-- **... for every helper `MatmulBoltCp::new` accepts** (positive dimensions, `N` a power of two with at least two columns per
    polynomial, `usize` range), with the baby-step / giant-step split the constructor's search returns -/
theorem c20_boltCp_new [CommRing S] {m r n N : Nat} {h : BoltCp} (hnew : BoltCp.new m r n N = .ok h) (hpow : ∃ e, N = 2^e)
    (hN64 : N < 2^64) (x w : Nat → S) :
    ∃ X W Y out, boltCpEncodeInputs h 0 x (m * r) = .ok X ∧ boltCpEncodeWeights h 0 w (r * n) = .ok W ∧
      boltCpMultiply h (· + ·) (· * ·) 0 X W = .ok Y ∧ boltCpDecodeOutputs h 0 Y = .ok out ∧ out.size = m * n ∧
      ∀ i j, i < m → j < n → out.getD (i * n + j) 0 = ∑ k ∈ range r, x (i * r + k) * w (k * n + j) := by
  obtain ⟨_, hm, _, hr, hn, half, h2, ok⟩ := c20_boltCpNew_ok hnew hpow hN64
  have := c20_boltCp_whole h ok x w
  rw [hm, hr, hn] at this
  exact this

end HC
