/- C02 (task X): BEHZ `bfvMultiply` of the MODEL — invariant-noise bound, exact decoding, model-level decryption of the product.
   All helper names carry the prefix `c02x_`.  Built on C02W (`bfvMultiply_phase`, `bfvLift_spec`), C01Q (`bfvDecrypt_eq_spec`),
   C07S/C07L (`Spec.budget`, `c07l_v`, `exact_below_threshold`), C05U/C01J (norm bounds of the negacyclic product).

   Method.  `bfvMultiply_phase` (any commutative ring with ξ^N = −1) is instantiated in the concrete ring ℤ[X]/(X^N+1)
   (`AdjoinRoot`), where reading a coefficient vector at the root is injective (`c02x_ev_inj`); this pulls the ring identity back
   to integer coefficients (`c02x_mul_coeff`) for the integer Horner phase `c02x_phZ` (Σ_k C_k ⋆ s^k, ⋆ = `negMulR` over ℤ).
   `Spec.phase` is congruent modulo Q to `c02x_phZ` of any integer lifts of the residues (`c02x_phase_link`).  The noise algebra
   `Q·(t·D − Q·M_a⋆M_b) = Q·(M_a⋆ν_b + ν_a⋆M_b) + ν_a⋆ν_b − t·E` (`c02x_noise_algebra`) and the norm bounds give X1.

   X1  `bfv_noise_split`, `bfvMultiply_noise` (ANY sizes), `bfvMultiply_noise_2x2`: t·x_r = Q·μ + ν, μ ≡ m_a ⋆ m_b (mod t),
       2·2^33·|ν| ≤ `c02x_F N t |q| ‖s‖₁ n_a n_b V_a V_b`.
   X2  `bfvMultiply_decode` (F < 2^33·Q ⇒ decode(x_r) = decode(x_a) ⋆ decode(x_b) mod (X^N+1, t), `Spec.negMul`),
       `bfvMultiply_budget` (budget(r) ≥ min(budget a, budget b, bits Q − 2) − L if `c02x_G ≤ 2^(34+L)`),
       `bfvMultiply_decode_of_budget`, `pred_mul_sound_2x2` (the harness rule is sound for 2 × 2: L = lt + 2k + 8),
       `pred_mul_sound_general` (sizes ≥ 2: L = lt + (n_a+n_b−2)·k + 8), `bfvMultiply_budget_split` / `bfvMultiply_decode_of_budget_split`
       (multiplicative part `c02x_G1` and additive BEHZ part separated), `pred_mul_sound_small` (the harness rule's value is a lower
       bound of the true budget for 2×2, 3×2, 2×3 with ≤ 8 moduli and N ≤ 256), `bfvMultiply_noiseLe` (chaining form of X1).
   X3  `bfvDecrypt_bfvMultiply` (threshold γ·F + 2^34·|q|·Q ≤ 2^33·Q·γ), `bfvDecrypt_bfvMultiply_of_new` (constructors,
       F ≤ (2^33−1)·Q), `bfvDecrypt_bfvMultiply_of_budget`, `pred_mul_decrypt_2x2_of_new`; refusals `…_refuses_1x1`, `…_refuses_ntt`.
   No new hypothesis bundle is introduced: `MulOK`, `DecOK`, `c02w_Window` are derived from the constructors in C02W / C01P
   (`c02w_mulOK_of_new`, `c01p_decOK_of_new`, `c02w_window_of_new`); `c02x_NoiseLe` is satisfied by `V = noiseNorm` (`c07l_getD_le`);
   the numeric thresholds are satisfiable (`c02x_threshold_example`). -/
import Heathcliff.Proofs.C02W
import Heathcliff.Proofs.C01Q
import Heathcliff.Proofs.C04K
import Mathlib.RingTheory.AdjoinRoot
namespace HC
open Finset Polynomial

/-- the concrete ring ℤ[X]/(X^n+1) -/
noncomputable abbrev c02x_Rn (n : Nat) : Type := AdjoinRoot ((X : ℤ[X])^n + 1)

theorem c02x_root_pow (n : Nat) : (AdjoinRoot.root ((X : ℤ[X])^n + 1))^n = -1 := by
  have h := AdjoinRoot.eval₂_root ((X : ℤ[X])^n + 1)
  simp only [eval₂_add, eval₂_pow, eval₂_X, eval₂_one] at h
  exact eq_neg_of_add_eq_zero_left h

/-- the polynomial Σ_{c<n} F(c)·X^c -/
noncomputable def c02x_poly (n : Nat) (F : Nat → Int) : ℤ[X] := ∑ c ∈ range n, C (F c) * X^c

theorem c02x_poly_coeff (n : Nat) (F : Nat → Int) {c : Nat} (hc : c < n) : (c02x_poly n F).coeff c = F c := by
  unfold c02x_poly
  rw [finsetSum_coeff]
  simp only [coeff_C_mul_X_pow]
  rw [Finset.sum_eq_single c]
  · simp
  · intro b _ hb; rw [if_neg (Ne.symm hb)]
  · intro h; exact absurd (mem_range.mpr hc) h

theorem c02x_poly_degree_lt (n : Nat) (F : Nat → Int) : (c02x_poly n F).degree < n := by
  unfold c02x_poly
  refine lt_of_le_of_lt (degree_sum_le _ _) ?_
  rw [Finset.sup_lt_iff (by exact WithBot.bot_lt_coe n)]
  intro c hc
  refine lt_of_le_of_lt (degree_C_mul_X_pow_le _ _) ?_
  exact_mod_cast mem_range.mp hc

theorem c02x_ev_mk (n : Nat) (F : Nat → Int) :
    c02w_ev n (AdjoinRoot.root ((X : ℤ[X])^n + 1)) F = AdjoinRoot.mk ((X : ℤ[X])^n + 1) (c02x_poly n F) := by
  unfold c02w_ev c02x_poly
  rw [map_sum]
  apply Finset.sum_congr rfl
  intro c _
  rw [map_mul, map_pow, AdjoinRoot.mk_X, AdjoinRoot.mk_C]
  simp

/-- evaluation at the root of X^n+1 in ℤ[X]/(X^n+1) is injective on coefficient vectors of length n -/
theorem c02x_ev_inj {n : Nat} (hn : 0 < n) {F G : Nat → Int}
    (h : c02w_ev n (AdjoinRoot.root ((X : ℤ[X])^n + 1)) F = c02w_ev n (AdjoinRoot.root ((X : ℤ[X])^n + 1)) G) :
    ∀ c, c < n → F c = G c := by
  rw [c02x_ev_mk, c02x_ev_mk, AdjoinRoot.mk_eq_mk] at h
  have hmon : ((X : ℤ[X])^n + 1).Monic := monic_X_pow_add_C 1 (by omega)
  have hdeg : (c02x_poly n F - c02x_poly n G).degree < ((X : ℤ[X])^n + 1).degree := by
    have e : ((X : ℤ[X])^n + 1).degree = n := by
      have := degree_X_pow_add_C hn (1 : ℤ)
      rwa [C_1] at this
    rw [e]
    exact lt_of_le_of_lt (degree_sub_le _ _) (max_lt (c02x_poly_degree_lt n F) (c02x_poly_degree_lt n G))
  have h0 : c02x_poly n F - c02x_poly n G = 0 := by
    by_contra hne
    exact absurd (hmon.not_dvd_of_degree_lt hne hdeg) (not_not.mpr h)
  intro c hc
  rw [← c02x_poly_coeff n F hc, ← c02x_poly_coeff n G hc, sub_eq_zero.mp h0]

/-! ## the integer phase Σ_k C_k ⋆ s^k over ℤ[X]/(X^n+1) in Horner form, on coefficient functions -/

/-- coefficient function of `C_0 + (C_1 + (C_2 + …)⋆s)⋆s` (m polynomials), ⋆ = negacyclic product `negMulR` over ℤ -/
def c02x_phZ (n : Nat) (s : Nat → Int) : Nat → (Nat → Nat → Int) → Nat → Int
  | 0, _ => fun _ => 0
  | m+1, C => fun c => C 0 c + negMulR n (c02x_phZ n s m (fun k => C (k+1))) s c

theorem c02x_ev_add {S : Type} [CommRing S] (n : Nat) (ξ : S) (F G : Nat → Int) :
    c02w_ev n ξ (fun c => F c + G c) = c02w_ev n ξ F + c02w_ev n ξ G := by
  have := c02w_ev_lin n ξ 1 F G
  simpa using this

theorem c02x_ev_sub {S : Type} [CommRing S] (n : Nat) (ξ : S) (F G : Nat → Int) :
    c02w_ev n ξ (fun c => F c - G c) = c02w_ev n ξ F - c02w_ev n ξ G := by
  unfold c02w_ev
  rw [← Finset.sum_sub_distrib]
  apply Finset.sum_congr rfl
  intro c _
  push_cast
  ring

theorem c02x_ev_zero {S : Type} [CommRing S] (n : Nat) (ξ : S) : c02w_ev n ξ (fun _ => 0) = 0 := by
  unfold c02w_ev; simp

/-- the Horner phase read in any ring with ξ^n = −1 is the phase Σ_k ev(C_k)·ev(s)^k -/
theorem c02x_ev_phZ {S : Type} [CommRing S] {n : Nat} (hn : 0 < n) {ξ : S} (hξ : ξ^n = -1) (s : Nat → Int) (m : Nat)
    (C : Nat → Nat → Int) :
    c02w_ev n ξ (c02x_phZ n s m C) = ctPhase m (fun k => c02w_ev n ξ (C k)) (c02w_ev n ξ s) := by
  induction m generalizing C with
  | zero => simp [c02x_phZ, ctPhase, c02x_ev_zero]
  | succ m ih =>
    have e : c02x_phZ n s (m+1) C = fun c => C 0 c + negMulR n (c02x_phZ n s m (fun k => C (k+1))) s c := rfl
    rw [e, c02x_ev_add, c02w_ev_negMul hn hξ, ih]
    unfold ctPhase
    rw [Finset.sum_range_succ', Finset.sum_mul]
    simp only [pow_zero, mul_one]
    rw [add_comm]
    congr 1
    apply Finset.sum_congr rfl
    intro k _
    ring

/-- pull an identity of evaluations in ℤ[X]/(X^n+1) back to the coefficients -/
theorem c02x_pull {n : Nat} (hn : 0 < n) {F G : Nat → Int}
    (h : c02w_ev n (AdjoinRoot.root ((X : ℤ[X])^n + 1)) F = c02w_ev n (AdjoinRoot.root ((X : ℤ[X])^n + 1)) G) :
    ∀ c, c < n → F c = G c := c02x_ev_inj hn h

/-! ## `bfvMultiply_phase` on integer coefficients -/

/-- W3 of C02W pulled back to ℤ: coefficient-wise over ℤ[X]/(X^N+1), for every integer secret `s`,
    `Q·phase_s(D) + phase_s(E) = t·(phase_s(X) ⋆ phase_s(Y))` -/
theorem c02x_mul_coeff {l : Level} {T : Array NTTTables} (hm : MulOK l T) {a b r : Ct}
    (ha : ∀ k, k < a.polys.size → RnsCanon l (a.polys.getD k #[]))
    (hb : ∀ k, k < b.polys.size → RnsCanon l (b.polys.getD k #[]))
    (hna : a.ntt = false) (hnb : b.ntt = false) (h1 : 1 ≤ a.polys.size) (h2 : 1 ≤ b.polys.size)
    (hwin : c02w_Window l a.polys.size b.polys.size) (hr : bfvMultiply l T a b = .ok r) (s : Nat → Int) :
    ∃ D E : Nat → Nat → Int,
      (∀ k, k < a.polys.size + b.polys.size - 1 → ∀ c, c < l.n → ∀ i, i < l.size →
        (r.c02v_res k i c : Int) ≡ D k c [ZMOD (l.q i).value]) ∧
      (∀ k, k < a.polys.size + b.polys.size - 1 → ∀ c, c < l.n →
        0 ≤ E k c ∧ E k c < (l.size : Int) * l.tool.baseQ.prod) ∧
      ∀ c, c < l.n →
        (l.tool.baseQ.prod : Int) * c02x_phZ l.n s (a.polys.size + b.polys.size - 1) D c
          + c02x_phZ l.n s (a.polys.size + b.polys.size - 1) E c
        = (l.t.value : Int) * negMulR l.n
            (c02x_phZ l.n s a.polys.size (fun x j => c02w_liftZ l.tool (a.polys.getD x #[]) j))
            (c02x_phZ l.n s b.polys.size (fun y j => c02w_liftZ l.tool (b.polys.getD y #[]) j)) c := by
  have hn0 : 0 < l.n := by rw [hm.lwf.npow]; exact Nat.pos_of_ne_zero (by positivity)
  have hξ := c02x_root_pow l.n
  obtain ⟨D, E, hD, hE, hph⟩ := bfvMultiply_phase (S := c02x_Rn l.n) hm ha hb hna hnb h1 h2 hwin hr
    (AdjoinRoot.root ((X : ℤ[X])^l.n + 1)) (c02w_ev l.n (AdjoinRoot.root ((X : ℤ[X])^l.n + 1)) s) hξ
  refine ⟨D, E, hD, hE, ?_⟩
  apply c02x_pull hn0
  rw [c02x_ev_add, c02w_ev_smul, c02w_ev_smul, c02w_ev_negMul hn0 hξ, c02x_ev_phZ hn0 hξ, c02x_ev_phZ hn0 hξ,
    c02x_ev_phZ hn0 hξ, c02x_ev_phZ hn0 hξ]
  exact hph

/-! ## the invariant-noise algebra of a product (pure ring identity, pulled back to coefficients) -/

/-- if `t·P_a = Q·M_a + ν_a`, `t·P_b = Q·M_b + ν_b` and `Q·D + E = t·(P_a ⋆ P_b)` coefficient-wise, then
    `Q·(t·D − Q·(M_a ⋆ M_b)) = Q·(M_a ⋆ ν_b + ν_a ⋆ M_b) + ν_a ⋆ ν_b − t·E`: the product's noise is
    `ν_mul = t·D − Q·(M_a ⋆ M_b) = M_a ⋆ ν_b + ν_a ⋆ M_b + (ν_a ⋆ ν_b − t·E)/Q` -/
theorem c02x_noise_algebra {n : Nat} (hn : 0 < n) (t Q : Int) (Pa Pb Ma Mb νa νb D E : Nat → Int)
    (ha : ∀ c, c < n → t * Pa c = Q * Ma c + νa c) (hb : ∀ c, c < n → t * Pb c = Q * Mb c + νb c)
    (hd : ∀ c, c < n → Q * D c + E c = t * negMulR n Pa Pb c) :
    ∀ c, c < n → Q * (t * D c - Q * negMulR n Ma Mb c)
      = Q * (negMulR n Ma νb c + negMulR n νa Mb c) + negMulR n νa νb c - t * E c := by
  have hξ := c02x_root_pow n
  apply c02x_pull hn
  generalize hξd : AdjoinRoot.root ((X : ℤ[X])^n + 1) = ξ at hξ ⊢
  have ea : ((t : Int) : c02x_Rn n) * c02w_ev n ξ Pa = (Q : c02x_Rn n) * c02w_ev n ξ Ma + c02w_ev n ξ νa := by
    rw [← c02w_ev_smul n ξ t Pa, ← c02w_ev_lin n ξ Q Ma νa]; exact c02w_ev_congr n ξ ha
  have eb : ((t : Int) : c02x_Rn n) * c02w_ev n ξ Pb = (Q : c02x_Rn n) * c02w_ev n ξ Mb + c02w_ev n ξ νb := by
    rw [← c02w_ev_smul n ξ t Pb, ← c02w_ev_lin n ξ Q Mb νb]; exact c02w_ev_congr n ξ hb
  have ed : (Q : c02x_Rn n) * c02w_ev n ξ D + c02w_ev n ξ E
      = ((t : Int) : c02x_Rn n) * (c02w_ev n ξ Pa * c02w_ev n ξ Pb) := by
    rw [← c02w_ev_negMul hn hξ, ← c02w_ev_smul n ξ t (negMulR n Pa Pb), ← c02w_ev_lin n ξ Q D E]
    exact c02w_ev_congr n ξ hd
  have e1 : c02w_ev n ξ (fun c => Q * (t * D c - Q * negMulR n Ma Mb c))
      = (Q : c02x_Rn n) * ((t : c02x_Rn n) * c02w_ev n ξ D - (Q : c02x_Rn n) * (c02w_ev n ξ Ma * c02w_ev n ξ Mb)) := by
    rw [c02w_ev_smul n ξ Q (fun c => t * D c - Q * negMulR n Ma Mb c),
      c02x_ev_sub n ξ (fun c => t * D c) (fun c => Q * negMulR n Ma Mb c), c02w_ev_smul, c02w_ev_smul,
      c02w_ev_negMul hn hξ]
  have e2 : c02w_ev n ξ (fun c => Q * (negMulR n Ma νb c + negMulR n νa Mb c) + negMulR n νa νb c - t * E c)
      = (Q : c02x_Rn n) * (c02w_ev n ξ Ma * c02w_ev n ξ νb + c02w_ev n ξ νa * c02w_ev n ξ Mb)
        + c02w_ev n ξ νa * c02w_ev n ξ νb - (t : c02x_Rn n) * c02w_ev n ξ E := by
    rw [c02x_ev_sub n ξ (fun c => Q * (negMulR n Ma νb c + negMulR n νa Mb c) + negMulR n νa νb c) (fun c => t * E c),
      c02w_ev_lin n ξ Q (fun c => negMulR n Ma νb c + negMulR n νa Mb c) (negMulR n νa νb),
      c02x_ev_add n ξ (negMulR n Ma νb) (negMulR n νa Mb), c02w_ev_smul,
      c02w_ev_negMul hn hξ, c02w_ev_negMul hn hξ, c02w_ev_negMul hn hξ]
  rw [e1, e2]
  linear_combination (t : c02x_Rn n) * ed + ((t : c02x_Rn n) * c02w_ev n ξ Pb) * ea
    + ((Q : c02x_Rn n) * c02w_ev n ξ Ma + c02w_ev n ξ νa) * eb

/-! ## norm bounds -/

/-- geometric sum `Σ_{k<m} S^k` (the norm of `1 + s + … + s^{m-1}` for `‖s‖₁ ≤ S`) -/
def c02x_geo (S : Nat) : Nat → Nat
  | 0 => 0
  | m+1 => 1 + S * c02x_geo S m

theorem c02x_geo_eq (S m : Nat) : c02x_geo S m = ∑ k ∈ range m, S^k := by
  induction m with
  | zero => rfl
  | succ m ih =>
    rw [c02x_geo, ih, Finset.sum_range_succ', Finset.mul_sum, add_comm]
    congr 1
    apply Finset.sum_congr rfl
    intro k _
    ring

theorem c02x_geo_mono (S : Nat) {m m' : Nat} (h : m ≤ m') : c02x_geo S m ≤ c02x_geo S m' := by
  rw [c02x_geo_eq, c02x_geo_eq]
  exact Finset.sum_le_sum_of_subset (Finset.range_mono h)

/-- ‖Σ_k C_k ⋆ s^k‖∞ ≤ B·Σ_{k<m} ‖s‖₁^k when every ‖C_k‖∞ ≤ B (with a weight `w` on the left to carry scaled bounds) -/
theorem c02x_phZ_bound (n : Nat) (s : Nat → Int) (w B : Nat) : ∀ (m : Nat) (C : Nat → Nat → Int),
    (∀ k, k < m → ∀ c, c < n → w * (C k c).natAbs ≤ B) →
    ∀ c, c < n → w * (c02x_phZ n s m C c).natAbs ≤ B * c02x_geo (∑ k ∈ range n, (s k).natAbs) m
  | 0, _, _, c, _ => by simp [c02x_phZ, c02x_geo]
  | m+1, C, h, c, hc => by
    have ih := c02x_phZ_bound n s w B m (fun k => C (k+1)) (fun k hk c hc => h (k+1) (by omega) c hc)
    have e : c02x_phZ n s (m+1) C c = C 0 c + negMulR n (c02x_phZ n s m (fun k => C (k+1))) s c := rfl
    have h0 := h 0 (by omega) c hc
    have h1 := c05u_negMul_bound n (fun i => (w : Int) * c02x_phZ n s m (fun k => C (k+1)) i) s
      (B * c02x_geo (∑ k ∈ range n, (s k).natAbs) m) c hc
      (fun i hi => by rw [Int.natAbs_mul, Int.natAbs_natCast]; exact ih i hi)
    rw [c05u_negMul_smul, Int.natAbs_mul, Int.natAbs_natCast] at h1
    rw [e, c02x_geo]
    have h2 := Int.natAbs_add_le (C 0 c) (negMulR n (c02x_phZ n s m (fun k => C (k+1))) s c)
    calc w * (C 0 c + negMulR n (c02x_phZ n s m (fun k => C (k+1))) s c).natAbs
        ≤ w * ((C 0 c).natAbs + (negMulR n (c02x_phZ n s m (fun k => C (k+1))) s c).natAbs) :=
          Nat.mul_le_mul_left _ h2
      _ = w * (C 0 c).natAbs + w * (negMulR n (c02x_phZ n s m (fun k => C (k+1))) s c).natAbs := Nat.mul_add _ _ _
      _ ≤ B + B * c02x_geo (∑ k ∈ range n, (s k).natAbs) m * ∑ k ∈ range n, (s k).natAbs := Nat.add_le_add h0 h1
      _ = B * (1 + (∑ k ∈ range n, (s k).natAbs) * c02x_geo (∑ k ∈ range n, (s k).natAbs) m) := by ring

/-- size of the "message" part: from `t·P = Q·M + ν`, `w|P| ≤ Q·B_P`, `2|ν| ≤ Q`: `2w|M| ≤ 2t·B_P + w` -/
theorem c02x_M_bound {t Q w BP V : Nat} (hQ : 0 < Q) {P M ν : Int} (h : (t : Int) * P = Q * M + ν)
    (hP : w * P.natAbs ≤ Q * BP) (hν : ν.natAbs ≤ V) (h2 : 2 * V ≤ Q) : 2 * w * M.natAbs ≤ 2 * t * BP + w := by
  have e : (Q : Int) * M = t * P - ν := by linarith
  have h1 : Q * M.natAbs ≤ t * P.natAbs + ν.natAbs := by
    have := congrArg Int.natAbs e
    rw [Int.natAbs_mul, Int.natAbs_natCast] at this
    rw [this]
    refine le_trans (Int.natAbs_sub_le _ _) ?_
    rw [Int.natAbs_mul, Int.natAbs_natCast]
  have a1 : 2 * t * (w * P.natAbs) ≤ 2 * t * (Q * BP) := Nat.mul_le_mul_left _ hP
  have a2 : w * (2 * ν.natAbs) ≤ w * Q := Nat.mul_le_mul_left _ (by omega)
  have a3 : 2 * w * (Q * M.natAbs) ≤ 2 * w * (t * P.natAbs + ν.natAbs) := Nat.mul_le_mul_left _ h1
  have : (2 * w * M.natAbs) * Q ≤ (2 * t * BP + w) * Q := by nlinarith
  exact Nat.le_of_mul_le_mul_right this hQ

theorem c02x_scaled_negMul_bound (n : Nat) (M ν : Nat → Int) (w MB V c : Nat) (hc : c < n)
    (hM : ∀ i, i < n → w * (M i).natAbs ≤ MB) (hν : ∀ i, i < n → (ν i).natAbs ≤ V) :
    w * (negMulR n M ν c).natAbs ≤ n * MB * V := by
  have h := negMul_norm_le n (fun i => (w : Int) * M i) ν MB V
    (fun i hi => by rw [Int.natAbs_mul, Int.natAbs_natCast]; exact hM i hi) hν c hc
  rwa [c05u_negMul_smul, Int.natAbs_mul, Int.natAbs_natCast] at h

/-- the abstract multiplication-noise bound.  With `t·P_a = Q·M_a + ν_a`, `t·P_b = Q·M_b + ν_b`, `Q·D + E = t·(P_a ⋆ P_b)`,
    `w‖P_a‖ ≤ Q·B_a`, `w‖P_b‖ ≤ Q·B_b`, `‖ν_a‖ ≤ V_a ≤ Q/2`, `‖ν_b‖ ≤ V_b ≤ Q/2`, `‖E‖ ≤ Q·B_E`:
    `t·D = Q·(M_a ⋆ M_b) + ν` with `2w‖ν‖ ≤ n·((2t·B_a + w)·V_b + (2t·B_b + w)·V_a) + w·n·V_b + 2w·t·B_E` -/
theorem c02x_noise_bound {n : Nat} (hn : 0 < n) {t Q : Nat} (hQ : 0 < Q) (Pa Pb Ma Mb νa νb D E : Nat → Int)
    (ha : ∀ c, c < n → (t : Int) * Pa c = Q * Ma c + νa c) (hb : ∀ c, c < n → (t : Int) * Pb c = Q * Mb c + νb c)
    (hd : ∀ c, c < n → (Q : Int) * D c + E c = t * negMulR n Pa Pb c)
    {w BPa BPb Va Vb BE : Nat}
    (hPa : ∀ c, c < n → w * (Pa c).natAbs ≤ Q * BPa) (hPb : ∀ c, c < n → w * (Pb c).natAbs ≤ Q * BPb)
    (hVa : ∀ c, c < n → (νa c).natAbs ≤ Va) (hVb : ∀ c, c < n → (νb c).natAbs ≤ Vb)
    (h2a : 2 * Va ≤ Q) (h2b : 2 * Vb ≤ Q) (hE : ∀ c, c < n → (E c).natAbs ≤ Q * BE) :
    ∀ c, c < n → 2 * w * ((t : Int) * D c - Q * negMulR n Ma Mb c).natAbs
      ≤ n * ((2 * t * BPa + w) * Vb + (2 * t * BPb + w) * Va) + w * n * Vb + 2 * w * t * BE := by
  intro c hc
  have halg := c02x_noise_algebra hn (t : Int) (Q : Int) Pa Pb Ma Mb νa νb D E ha hb hd c hc
  have hMa : ∀ i, i < n → 2 * w * (Ma i).natAbs ≤ 2 * t * BPa + w :=
    fun i hi => c02x_M_bound hQ (ha i hi) (hPa i hi) (hVa i hi) h2a
  have hMb : ∀ i, i < n → 2 * w * (Mb i).natAbs ≤ 2 * t * BPb + w :=
    fun i hi => c02x_M_bound hQ (hb i hi) (hPb i hi) (hVb i hi) h2b
  have b1 := c02x_scaled_negMul_bound n Ma νb (2 * w) _ Vb c hc hMa hVb
  have b2 := c02x_scaled_negMul_bound n Mb νa (2 * w) _ Va c hc hMb hVa
  rw [← c04k_comm n νa Mb hc] at b2
  have b3 := negMul_norm_le n νa νb Va Vb hVa hVb c hc
  have b4 := hE c hc
  generalize (t : Int) * D c - Q * negMulR n Ma Mb c = ν at halg ⊢
  generalize negMulR n Ma νb c = A1 at halg b1
  generalize negMulR n νa Mb c = A2 at halg b2
  generalize negMulR n νa νb c = A3 at halg b3
  generalize E c = e at halg b4
  have h1 : Q * ν.natAbs ≤ Q * (A1.natAbs + A2.natAbs) + A3.natAbs + t * e.natAbs := by
    have := congrArg Int.natAbs halg
    rw [Int.natAbs_mul, Int.natAbs_natCast] at this
    rw [this]
    refine le_trans (Int.natAbs_sub_le _ _) ?_
    rw [Int.natAbs_mul, Int.natAbs_natCast]
    refine Nat.add_le_add_right (le_trans (Int.natAbs_add_le _ _) ?_) _
    rw [Int.natAbs_mul, Int.natAbs_natCast]
    exact Nat.add_le_add_right (Nat.mul_le_mul_left _ (Int.natAbs_add_le _ _)) _
  have c3 : 2 * (n * Va * Vb) ≤ n * Q * Vb := by
    have : n * (2 * Va) * Vb ≤ n * Q * Vb := Nat.mul_le_mul_right _ (Nat.mul_le_mul_left _ h2a)
    linarith
  have hfin : (2 * w * ν.natAbs) * Q
      ≤ (n * ((2 * t * BPa + w) * Vb + (2 * t * BPb + w) * Va) + w * n * Vb + 2 * w * t * BE) * Q := by
    have d1 : 2 * w * (Q * ν.natAbs) ≤ 2 * w * (Q * (A1.natAbs + A2.natAbs) + A3.natAbs + t * e.natAbs) :=
      Nat.mul_le_mul_left _ h1
    have d2 : Q * (2 * w * A1.natAbs) ≤ Q * (n * (2 * t * BPa + w) * Vb) := Nat.mul_le_mul_left _ b1
    have d3 : Q * (2 * w * A2.natAbs) ≤ Q * (n * (2 * t * BPb + w) * Va) := Nat.mul_le_mul_left _ b2
    have d4 : w * (2 * A3.natAbs) ≤ w * (n * Q * Vb) := Nat.mul_le_mul_left _ (by omega)
    have d5 : 2 * w * t * e.natAbs ≤ 2 * w * t * (Q * BE) := Nat.mul_le_mul_left _ b4
    nlinarith
  exact Nat.le_of_mul_le_mul_right hfin hQ

/-! ## `Spec.phase` is the integer Horner phase modulo Q -/

/-- CRT uniqueness on integers: congruent modulo every q_i ⇒ congruent modulo Q -/
theorem c02x_crt_int {b : RNSBase} (hb : b.WF) {V W : Int}
    (h : ∀ i, i < b.size → V ≡ W [ZMOD (b.q i).value]) : V ≡ W [ZMOD b.prod] := by
  have hQ := hb.prod_pos
  have hQz : (0 : Int) < (b.prod : Int) := by exact_mod_cast hQ
  have hx := Int.toNat_of_nonneg (Int.emod_nonneg V (ne_of_gt hQz))
  have hy := Int.toNat_of_nonneg (Int.emod_nonneg W (ne_of_gt hQz))
  have hxl := Int.emod_lt_of_pos V hQz
  have hyl := Int.emod_lt_of_pos W hQz
  have hxy : (V % b.prod).toNat = (W % b.prod).toNat := by
    apply crt_unique hb (by omega) (by omega)
    intro i hi
    have hd : ((b.q i).value : Int) ∣ (b.prod : Int) := by exact_mod_cast hb.q_dvd_prod hi
    have h1 : (((V % b.prod).toNat : Nat) : Int) ≡ V [ZMOD (b.q i).value] := by
      rw [hx]; exact (Int.mod_modEq V b.prod).of_dvd hd
    have h2 : (((W % b.prod).toNat : Nat) : Int) ≡ W [ZMOD (b.q i).value] := by
      rw [hy]; exact (Int.mod_modEq W b.prod).of_dvd hd
    exact Int.natCast_modEq_iff.mp ((h1.trans (h i hi)).trans h2.symm)
  unfold Int.ModEq
  rw [← hx, ← hy, hxy]

/-- the integer Horner phase read in `ZMod q` is the Horner evaluation of C07S -/
theorem c02x_phZ_cast (q n : Nat) (s : Nat → Int) (σ : Nat → ZMod q) (hσ : ∀ i, i < n → σ i = ((s i : Int) : ZMod q)) :
    ∀ (L : List (Nat → ZMod q)) (C : Nat → Nat → Int),
      (∀ k, k < L.length → ∀ c, c < n → L.getD k 0 c = ((C k c : Int) : ZMod q)) →
      ∀ j, j < n → ((c02x_phZ n s L.length C j : Int) : ZMod q) = c07s_evalZ (c07s_mulS q n σ) L j
  | [], _, _, j, _ => by simp [c02x_phZ, c07s_evalZ]
  | c :: L, C, h, j, hj => by
    have ih := c02x_phZ_cast q n s σ hσ L (fun k => C (k+1))
      (fun k hk c' hc' => by have := h (k+1) (by simp; omega) c' hc'; simpa using this)
    have e : c02x_phZ n s (c :: L).length C j = C 0 j + negMulR n (c02x_phZ n s L.length (fun k => C (k+1))) s j := rfl
    rw [e, c07s_evalZ, Pi.add_apply, Int.cast_add, c02w_negMulR_cast]
    have h0 := h 0 (by simp) j hj
    simp only [List.getD_cons_zero] at h0
    rw [← h0]
    congr 1
    have em : ∀ Y, c07s_mulS q n σ Y j = c07s_sumZ q n Y σ j := fun Y => if_pos hj
    rw [em]
    have hcg := c07s_sumZ_congr (q := q) (n := n) hj (fun i hi => ih i hi) (fun i hi => (hσ i hi).symm)
    exact hcg

theorem c02x_centred_modEq {X Q : Nat} (hX : X < Q) : Spec.centred X Q ≡ (X : Int) [ZMOD Q] := by
  unfold Spec.centred
  rw [Nat.mod_eq_of_lt hX]
  split
  · apply Int.ModEq.symm
    rw [Int.modEq_iff_dvd]
    exact ⟨-1, by ring⟩
  · rfl

/-- `Spec.phase` (exact, centred) of canonical polynomials is congruent modulo Q to the integer Horner phase of ANY integer
    coefficient functions `C_k` that agree with the residues modulo every q_i -/
theorem c02x_phase_link {l : Level} (hl : l.WF) (hq : c07s_LevelQ l) {sk : Array Int} (hsk : sk.size = l.n)
    {polys : List RnsPoly} (hne : polys ≠ []) (hcan : ∀ p ∈ polys, RnsCanon l p) (C : Nat → Nat → Int)
    (hC : ∀ k, k < polys.length → ∀ i, i < l.size → ∀ c, c < l.n →
        ((((polys.getD k #[]).getD i #[]).getD c 0 : Nat) : Int) ≡ C k c [ZMOD (l.q i).value])
    {j : Nat} (hj : j < l.n) :
    (Spec.phase (c01p_qvals l) l.n sk polys).getD j 0
      ≡ c02x_phZ l.n (fun i => sk.getD i 0) polys.length C j [ZMOD l.tool.baseQ.prod] := by
  obtain ⟨-, X, x1, x2, x3⟩ := c01q_phase_general hq (sk := sk) hne (fun p hp => (hcan p hp).1) hj
  rw [x2]
  refine (c02x_centred_modEq x1).trans (c02x_crt_int hq.bwf (fun i hi => ?_))
  have hi' : i < l.size := by rw [← hq.size_eq]; exact hi
  rw [hq.q_eq hi']
  obtain ⟨a, a1, a2⟩ := x3 i hi'
  have hq0 : 0 < (l.q i).value := by have := (c01o_level_comp hl hi').2.2.2.two_le; omega
  obtain ⟨a', b1, -, b3⟩ := c01q_hornerRes_vec hq0 (skRes l sk i) (polys.map (fun p => p.getD i #[]))
    (by simpa using hne)
    (fun c hc => by obtain ⟨p, hp, rfl⟩ := List.mem_map.mp hc; exact ((hcan p hp).2 i hi').1)
  rw [a1] at b1
  obtain rfl := Option.some.inj b1
  have hcast := c02x_phZ_cast (l.q i).value l.n (fun i => sk.getD i 0) (c07s_vecN (l.q i).value (skRes l sk i))
    (fun k hk => c07s_skRes_cast l sk i hq0 (by rw [hsk]; exact hk))
    ((polys.map (fun p => p.getD i #[])).map (c07s_vecN (l.q i).value)) C
    (fun k hk c hc => by
      have hk' : k < polys.length := by simpa using hk
      rw [c02w_map_getD _ _ #[] 0 (by simpa using hk'), c02w_map_getD _ _ #[] #[] hk']
      unfold c07s_vecN
      have := (ZMod.intCast_eq_intCast_iff _ _ _).mpr (hC k hk' i hi' c hc)
      simpa using this) j hj
  have hlen : ((polys.map (fun p => p.getD i #[])).map (c07s_vecN (l.q i).value)).length = polys.length := by simp
  rw [hlen, ← b3] at hcast
  apply (ZMod.intCast_eq_intCast_iff _ _ _).mp
  rw [hcast]
  unfold c07s_vecN
  rw [Int.cast_natCast]
  exact (ZMod.natCast_eq_natCast_iff' _ _ _).mpr a2

/-! ## the invariant-noise splitting `t·x = Q·m + ν` of a phase coefficient -/

/-- the message part `m = (t·x − ν)/Q` of a phase coefficient, `ν = [t·x]_Q` (centred) the invariant noise `c07l_v true t Q x`
    measured by `Spec.budget` -/
def c02x_msg (t Q : Nat) (x : Int) : Int := ((t : Int) * x - c07l_v true t Q x) / (Q : Int)

theorem c02x_centred_le (v Q : Nat) (hQ : 0 < Q) : 2 * (Spec.centred v Q).natAbs ≤ Q := by
  unfold Spec.centred
  have := Nat.mod_lt v hQ
  split <;> omega

/-- `t·x = Q·m + ν` with `2|ν| ≤ Q`, always -/
theorem c02x_split (t : Nat) {Q : Nat} (hQ : 0 < Q) (x : Int) :
    (t : Int) * x = Q * c02x_msg t Q x + c07l_v true t Q x ∧ 2 * (c07l_v true t Q x).natAbs ≤ Q := by
  obtain ⟨κ, hκ⟩ := c01j_centred_imod ((t : Int) * x) hQ
  have hv : c07l_v true t Q x = (t : Int) * x - Q * κ := by unfold c07l_v; simpa using hκ
  refine ⟨?_, ?_⟩
  · unfold c02x_msg
    rw [hv]
    have : (t : Int) * x - ((t : Int) * x - Q * κ) = Q * κ := by ring
    rw [this, Int.mul_ediv_cancel_left _ (by omega)]
    ring
  · unfold c07l_v
    simp only [if_true]
    exact c02x_centred_le _ _ hQ

/-- the same splitting for any integer representative `P ≡ x (mod Q)` of the phase: same noise, message congruent modulo t -/
theorem c02x_split_rep (t : Nat) {Q : Nat} (hQ : 0 < Q) {x P : Int} (h : x ≡ P [ZMOD Q]) :
    ∃ M : Int, (t : Int) * P = Q * M + c07l_v true t Q x ∧ M ≡ c02x_msg t Q x [ZMOD t] := by
  obtain ⟨h1, -⟩ := c02x_split t hQ x
  obtain ⟨r, hr⟩ := (Int.modEq_iff_dvd.mp h)
  refine ⟨c02x_msg t Q x + t * r, ?_, ?_⟩
  · have : P = x + Q * r := by linarith
    rw [this, mul_add, h1]; ring
  · rw [Int.modEq_iff_dvd]
    exact ⟨-r, by ring⟩

theorem c02x_negMulR_modEq (n : Nat) (t : Int) {A A' B B' : Nat → Int}
    (hA : ∀ i, i < n → A i ≡ A' i [ZMOD t]) (hB : ∀ i, i < n → B i ≡ B' i [ZMOD t]) {c : Nat} (hc : c < n) :
    negMulR n A B c ≡ negMulR n A' B' c [ZMOD t] := by
  unfold negMulR
  apply Int.ModEq.sum
  intro i hi
  have hi := Finset.mem_range.mp hi
  split
  · exact (hA i hi).mul (hB _ (by omega))
  · exact ((hA i hi).mul (hB _ (by omega))).neg

/-- the explicit noise-growth bound of `bfvMultiply` (scaled by `2·2^33`): N = degree, t, K = |q|, S ≥ ‖s‖₁, operand sizes
    `na`, `nb`, `Va ≥ ‖ν_a‖∞`, `Vb ≥ ‖ν_b‖∞`.  Reading: `‖ν_mul‖∞ ≤ N·t·(½ + K/2^32)·(G_a·V_b + G_b·V_a) + N·(V_a + V_b)/2 + N·V_b/2
    + t·K·G_r` with `G_x = Σ_{k<n_x} S^k`, `G_r = Σ_{k<na+nb−1} S^k`; the last term is the BEHZ floor error `α` and remainder `E`,
    the factor `(1 + 2K/2^32)` the BEHZ lift offset (`bfvLift_spec`) -/
def c02x_F (N t K S na nb Va Vb : Nat) : Nat :=
  N * ((2 * t * ((2^32 + 2 * K) * c02x_geo S na) + 2^33) * Vb + (2 * t * ((2^32 + 2 * K) * c02x_geo S nb) + 2^33) * Va)
    + 2^33 * N * Vb + 2 * 2^33 * t * (K * c02x_geo S (na + nb - 1))

/-! ## X1: the noise form of the product -/

theorem c02x_levelQ {l : Level} {T : Array NTTTables} (hm : MulOK l T) : c07s_LevelQ l := ⟨hm.tool.qwf, hm.base_eq⟩

theorem c02x_lift_nat {l : Level} {T : Array NTTTables} (hm : MulOK l T) (p : RnsPoly) (j : Nat) :
    2^33 * (c02w_liftZ l.tool p j).natAbs ≤ l.tool.baseQ.prod * (2^32 + 2 * l.size) := by
  have h := (bfvLift_spec hm p j).2
  have : ((2^33 * (c02w_liftZ l.tool p j).natAbs : Nat) : Int) ≤ ((l.tool.baseQ.prod * (2^32 + 2 * l.size) : Nat) : Int) := by
    push_cast
    linarith
  exact_mod_cast this

theorem c02x_toList_getD (polys : Array RnsPoly) (k : Nat) : polys.toList.getD k #[] = polys.getD k #[] :=
  (c07s_arr_getD_toList polys k #[]).symm

theorem c02x_toList_canon {l : Level} {polys : Array RnsPoly} (hc : ∀ k, k < polys.size → RnsCanon l (polys.getD k #[])) :
    ∀ p ∈ polys.toList, RnsCanon l p := c01q_polys_mem hc

theorem c02x_toList_ne {polys : Array RnsPoly} (h1 : 1 ≤ polys.size) : polys.toList ≠ [] := by
  intro h
  have h1' := congrArg List.length h
  rw [Array.length_toList, List.length_nil] at h1'
  omega

/-- the exact phase of a canonical ciphertext is congruent modulo Q to the integer Horner phase of its BEHZ-lifted polynomials -/
theorem c02x_operand_link {l : Level} {T : Array NTTTables} (hm : MulOK l T) {sk : Array Int} (hsk : sk.size = l.n)
    {polys : Array RnsPoly} (h1 : 1 ≤ polys.size) (hc : ∀ k, k < polys.size → RnsCanon l (polys.getD k #[]))
    {j : Nat} (hj : j < l.n) :
    (Spec.phase (c01p_qvals l) l.n sk polys.toList).getD j 0
      ≡ c02x_phZ l.n (fun i => sk.getD i 0) polys.size (fun x c => c02w_liftZ l.tool (polys.getD x #[]) c) j
        [ZMOD l.tool.baseQ.prod] := by
  have h := c02x_phase_link hm.lwf (c02x_levelQ hm) hsk (c02x_toList_ne h1) (c02x_toList_canon hc)
    (fun x c => c02w_liftZ l.tool (polys.getD x #[]) c)
    (fun k _ i hi c _ => by
      rw [c02x_toList_getD]
      exact ((bfvLift_spec hm (polys.getD k #[]) c).1 i hi).symm) hj
  rwa [Array.length_toList] at h

theorem c02x_choose_M (t : Nat) {Q n : Nat} (hQ : 0 < Q) (x P : Nat → Int) (h : ∀ j, j < n → x j ≡ P j [ZMOD Q]) :
    ∃ M : Nat → Int, ∀ j, j < n →
      (t : Int) * P j = Q * M j + c07l_v true t Q (x j) ∧ M j ≡ c02x_msg t Q (x j) [ZMOD t] := by
  have hex : ∀ j, ∃ M : Int, j < n →
      (t : Int) * P j = Q * M + c07l_v true t Q (x j) ∧ M ≡ c02x_msg t Q (x j) [ZMOD t] := by
    intro j
    by_cases hj : j < n
    · obtain ⟨M, hM⟩ := c02x_split_rep t hQ (h j hj)
      exact ⟨M, fun _ => hM⟩
    · exact ⟨0, fun h' => absurd h' hj⟩
  choose M hM using hex
  exact ⟨M, hM⟩

/-- X1 core (Q = `l.tool.baseQ.prod`) -/
theorem c02x_noise_core {l : Level} {T : Array NTTTables} (hm : MulOK l T) {a b r : Ct}
    (ha : ∀ k, k < a.polys.size → RnsCanon l (a.polys.getD k #[]))
    (hb : ∀ k, k < b.polys.size → RnsCanon l (b.polys.getD k #[]))
    (hna : a.ntt = false) (hnb : b.ntt = false) (h1 : 1 ≤ a.polys.size) (h2 : 1 ≤ b.polys.size)
    (hwin : c02w_Window l a.polys.size b.polys.size) (hr : bfvMultiply l T a b = .ok r)
    {sk : Array Int} (hsk : sk.size = l.n) {Va Vb : Nat}
    (hVa : ∀ j, j < l.n → (c07l_v true l.t.value l.tool.baseQ.prod
      ((Spec.phase (c01p_qvals l) l.n sk a.polys.toList).getD j 0)).natAbs ≤ Va)
    (hVb : ∀ j, j < l.n → (c07l_v true l.t.value l.tool.baseQ.prod
      ((Spec.phase (c01p_qvals l) l.n sk b.polys.toList).getD j 0)).natAbs ≤ Vb)
    (h2a : 2 * Va ≤ l.tool.baseQ.prod) (h2b : 2 * Vb ≤ l.tool.baseQ.prod) :
    ∀ c, c < l.n → ∃ μ ν : Int,
      (l.t.value : Int) * (Spec.phase (c01p_qvals l) l.n sk r.polys.toList).getD c 0 = l.tool.baseQ.prod * μ + ν ∧
      μ ≡ negMulR l.n
          (fun j => c02x_msg l.t.value l.tool.baseQ.prod ((Spec.phase (c01p_qvals l) l.n sk a.polys.toList).getD j 0))
          (fun j => c02x_msg l.t.value l.tool.baseQ.prod ((Spec.phase (c01p_qvals l) l.n sk b.polys.toList).getD j 0)) c
        [ZMOD l.t.value] ∧
      2 * 2^33 * ν.natAbs ≤ c02x_F l.n l.t.value l.size (∑ k ∈ range l.n, (sk.getD k 0).natAbs)
        a.polys.size b.polys.size Va Vb := by
  have hn0 : 0 < l.n := c01q_n_pos hm.lwf
  have hQ := hm.tool.qwf.prod_pos
  obtain ⟨r', hr', hsz, -, -, hcanr, -⟩ := bfvMultiply_ok hm ha hb hna hnb h1 h2 (bfvMultiply_ok_size hr)
  rw [hr] at hr'
  obtain rfl := Except.ok.inj hr'
  obtain ⟨D, E, hD, hE, hid⟩ := c02x_mul_coeff hm ha hb hna hnb h1 h2 hwin hr (fun i => sk.getD i 0)
  generalize hS : (∑ k ∈ range l.n, (sk.getD k 0).natAbs) = S
  -- operands
  obtain ⟨Ma, hMa⟩ := c02x_choose_M l.t.value hQ _ _ (fun j hj => c02x_operand_link hm hsk h1 ha hj)
  obtain ⟨Mb, hMb⟩ := c02x_choose_M l.t.value hQ _ _ (fun j hj => c02x_operand_link hm hsk h2 hb hj)
  have hPa : ∀ c, c < l.n → 2^33 * (c02x_phZ l.n (fun i => sk.getD i 0) a.polys.size
      (fun x c => c02w_liftZ l.tool (a.polys.getD x #[]) c) c).natAbs
      ≤ l.tool.baseQ.prod * ((2^32 + 2 * l.size) * c02x_geo S a.polys.size) := by
    intro c hc
    rw [← Nat.mul_assoc, ← hS]
    exact c02x_phZ_bound l.n _ _ _ _ _ (fun k _ c _ => c02x_lift_nat hm _ c) c hc
  have hPb : ∀ c, c < l.n → 2^33 * (c02x_phZ l.n (fun i => sk.getD i 0) b.polys.size
      (fun x c => c02w_liftZ l.tool (b.polys.getD x #[]) c) c).natAbs
      ≤ l.tool.baseQ.prod * ((2^32 + 2 * l.size) * c02x_geo S b.polys.size) := by
    intro c hc
    rw [← Nat.mul_assoc, ← hS]
    exact c02x_phZ_bound l.n _ _ _ _ _ (fun k _ c _ => c02x_lift_nat hm _ c) c hc
  have hEb : ∀ c, c < l.n → (c02x_phZ l.n (fun i => sk.getD i 0) (a.polys.size + b.polys.size - 1) E c).natAbs
      ≤ l.tool.baseQ.prod * (l.size * c02x_geo S (a.polys.size + b.polys.size - 1)) := by
    intro c hc
    have h := c02x_phZ_bound l.n (fun i => sk.getD i 0) 1 (l.size * l.tool.baseQ.prod) _ E
      (fun k hk c hc => by
        obtain ⟨e1, e2⟩ := hE k hk c hc
        have e3 : ((E k c).natAbs : Int) < ((l.size * l.tool.baseQ.prod : Nat) : Int) := by
          push_cast; rw [abs_of_nonneg e1]; exact e2
        have : (E k c).natAbs < l.size * l.tool.baseQ.prod := by exact_mod_cast e3
        omega) c hc
    rw [hS, Nat.one_mul] at h
    calc _ ≤ _ := h
      _ = _ := by ring
  intro c hc
  have hbd := c02x_noise_bound hn0 hQ _ _ Ma Mb _ _ _ _ (fun j hj => (hMa j hj).1) (fun j hj => (hMb j hj).1) hid
    hPa hPb hVa hVb h2a h2b hEb c hc
  -- the result
  have hlr := c02x_phase_link hm.lwf (c02x_levelQ hm) hsk (c02x_toList_ne (by rw [hsz]; omega))
    (c02x_toList_canon (fun k hk => hcanr k (by rw [← hsz]; exact hk))) D
    (fun k hk i hi c hc => by
      rw [c02x_toList_getD]
      exact hD k (by rw [← hsz, ← Array.length_toList]; exact hk) c hc i hi) hc
  rw [Array.length_toList, hsz] at hlr
  obtain ⟨w, hw⟩ := Int.modEq_iff_dvd.mp hlr
  refine ⟨negMulR l.n Ma Mb c - l.t.value * w, _, ?_, ?_, hbd⟩
  · linear_combination (-(l.t.value : Int)) * hw
  · have e1 : negMulR l.n Ma Mb c - l.t.value * w ≡ negMulR l.n Ma Mb c [ZMOD l.t.value] := by
      rw [Int.modEq_iff_dvd]; exact ⟨w, by ring⟩
    exact e1.trans (c02x_negMulR_modEq l.n _ (fun j hj => (hMa j hj).2) (fun j hj => (hMb j hj).2) hc)

/-! ## `Spec.negMul` is the negacyclic product modulo q -/

theorem c02x_foldl_pm (p : Nat → Prop) [DecidablePred p] (f : Nat → Int) : ∀ (L : List Nat) (acc : Int),
    L.foldl (fun acc i => if p i then acc + f i else acc - f i) acc
      = acc + (L.map (fun i => if p i then f i else - f i)).sum
  | [], acc => by simp
  | i :: L, acc => by
    rw [List.foldl_cons, c02x_foldl_pm p f L, List.map_cons, List.sum_cons]
    split <;> ring

theorem c02x_specNegMul_size (a b : Array Nat) (q : Nat) : (Spec.negMul a b q).size = a.size := by
  unfold Spec.negMul; simp

theorem c02x_specNegMul_getD (a b : Array Nat) (q : Nat) {k : Nat} (hk : k < a.size) :
    (Spec.negMul a b q).getD k 0
      = Spec.imod (negMulR a.size (fun i => ((a.getD i 0 : Nat) : Int)) (fun i => ((b.getD i 0 : Nat) : Int)) k) q := by
  unfold Spec.negMul Spec.imod
  simp only
  have e : ∀ (f : Fin a.size → Nat), (Array.ofFn f).getD k 0 = f ⟨k, hk⟩ := by
    intro f; simp [Array.getD, hk]
  rw [e]
  simp only
  rw [c02x_foldl_pm (fun i => i ≤ k) (fun i => ((a.getD i 0 : Nat) : Int) * ((b.getD ((k + a.size - i) % a.size) 0 : Nat) : Int)),
    c07s_list_sum_range, zero_add]
  congr 2
  unfold negMulR
  apply Finset.sum_congr rfl
  intro i hi
  have hi := Finset.mem_range.mp hi
  split
  · rename_i hik
    have : (k + a.size - i) % a.size = k - i := by
      have : k + a.size - i = (k - i) + a.size := by omega
      rw [this, Nat.add_mod_right, Nat.mod_eq_of_lt (by omega)]
    rw [this]
    simp [Array.getD, hi]
  · rename_i hik
    have : (k + a.size - i) % a.size = a.size + k - i := by
      rw [Nat.mod_eq_of_lt (by omega)]; omega
    rw [this]
    simp [Array.getD, hi]

/-! ## X2: decoding -/

theorem c02x_imod_congr {x y : Int} {t : Nat} (h : x ≡ y [ZMOD t]) : Spec.imod x t = Spec.imod y t := by
  unfold Spec.imod; rw [h]

theorem c02x_imod_modEq {t : Nat} (ht : 0 < t) (x : Int) : ((Spec.imod x t : Nat) : Int) ≡ x [ZMOD t] := by
  rw [c07l_imod_cast ht]; exact Int.mod_modEq x t

theorem c02x_decode_getD (t Q : Nat) (ph : Array Int) {j : Nat} (hj : j < ph.size) :
    (Spec.bfvDecode t Q ph).getD j 0 = Spec.imod (Spec.roundDiv ((t : Int) * ph.getD j 0) Q) t := by
  unfold Spec.bfvDecode
  rw [c07s_map_getD ph _ (0 : Int) (0 : Nat) hj]

/-- below the threshold the decoded coefficient is the message part modulo t -/
theorem c02x_decode_msg (t : Nat) {Q : Nat} (hQ : 0 < Q) (ph : Array Int) {j : Nat} (hj : j < ph.size)
    (hν : 2 * (c07l_v true t Q (ph.getD j 0)).natAbs < Q) :
    (Spec.bfvDecode t Q ph).getD j 0 = Spec.imod (c02x_msg t Q (ph.getD j 0)) t := by
  rw [c02x_decode_getD t Q ph hj, exact_below_threshold hQ (c02x_split t hQ _).1 hν]

theorem c02x_phase_size {l : Level} {T : Array NTTTables} (hm : MulOK l T) (sk : Array Int)
    {polys : Array RnsPoly} (h1 : 1 ≤ polys.size) (hc : ∀ k, k < polys.size → RnsCanon l (polys.getD k #[])) :
    (Spec.phase (c01p_qvals l) l.n sk polys.toList).size = l.n :=
  (c01q_phase_general (c02x_levelQ hm) (sk := sk) (c02x_toList_ne h1) (fun p hp => (c02x_toList_canon hc p hp).1)
    (c01q_n_pos hm.lwf)).1

/-- X2 core (Q = `l.tool.baseQ.prod`): exact decoding of the product below the threshold `F < 2^33·Q` -/
theorem c02x_decode_core {l : Level} {T : Array NTTTables} (hm : MulOK l T) (ht : 0 < l.t.value) {a b r : Ct}
    (ha : ∀ k, k < a.polys.size → RnsCanon l (a.polys.getD k #[]))
    (hb : ∀ k, k < b.polys.size → RnsCanon l (b.polys.getD k #[]))
    (hna : a.ntt = false) (hnb : b.ntt = false) (h1 : 1 ≤ a.polys.size) (h2 : 1 ≤ b.polys.size)
    (hwin : c02w_Window l a.polys.size b.polys.size) (hr : bfvMultiply l T a b = .ok r)
    {sk : Array Int} (hsk : sk.size = l.n) {Va Vb : Nat}
    (hVa : ∀ j, j < l.n → (c07l_v true l.t.value l.tool.baseQ.prod
      ((Spec.phase (c01p_qvals l) l.n sk a.polys.toList).getD j 0)).natAbs ≤ Va)
    (hVb : ∀ j, j < l.n → (c07l_v true l.t.value l.tool.baseQ.prod
      ((Spec.phase (c01p_qvals l) l.n sk b.polys.toList).getD j 0)).natAbs ≤ Vb)
    (h2a : 2 * Va < l.tool.baseQ.prod) (h2b : 2 * Vb < l.tool.baseQ.prod)
    (hF : c02x_F l.n l.t.value l.size (∑ k ∈ range l.n, (sk.getD k 0).natAbs) a.polys.size b.polys.size Va Vb
      < 2^33 * l.tool.baseQ.prod) :
    Spec.bfvDecode l.t.value l.tool.baseQ.prod (Spec.phase (c01p_qvals l) l.n sk r.polys.toList)
      = Spec.negMul (Spec.bfvDecode l.t.value l.tool.baseQ.prod (Spec.phase (c01p_qvals l) l.n sk a.polys.toList))
          (Spec.bfvDecode l.t.value l.tool.baseQ.prod (Spec.phase (c01p_qvals l) l.n sk b.polys.toList)) l.t.value := by
  have hQ := hm.tool.qwf.prod_pos
  obtain ⟨r', hr', hsz, -, -, hcanr, -⟩ := bfvMultiply_ok hm ha hb hna hnb h1 h2 (bfvMultiply_ok_size hr)
  rw [hr] at hr'
  obtain rfl := Except.ok.inj hr'
  have hsa := c02x_phase_size hm sk h1 ha
  have hsb := c02x_phase_size hm sk h2 hb
  have hsr := c02x_phase_size hm sk (by rw [hsz]; omega) (fun k hk => hcanr k (by rw [← hsz]; exact hk))
  have hda : (Spec.bfvDecode l.t.value l.tool.baseQ.prod (Spec.phase (c01p_qvals l) l.n sk a.polys.toList)).size = l.n := by
    unfold Spec.bfvDecode; rw [Array.size_map, hsa]
  apply array_ext_getD (n := l.n)
  · unfold Spec.bfvDecode; rw [Array.size_map, hsr]
  · rw [c02x_specNegMul_size, hda]
  intro c hc
  obtain ⟨μ, ν, e1, e2, e3⟩ := c02x_noise_core hm ha hb hna hnb h1 h2 hwin hr hsk hVa hVb (by omega) (by omega) c hc
  have hν : 2 * ν.natAbs < l.tool.baseQ.prod := by omega
  rw [c02x_decode_getD _ _ _ (by rw [hsr]; exact hc), exact_below_threshold hQ e1 hν,
    c02x_specNegMul_getD _ _ _ (by rw [hda]; exact hc), hda]
  apply c02x_imod_congr
  refine e2.trans (c02x_negMulR_modEq l.n _ (fun j hj => ?_) (fun j hj => ?_) hc)
  · rw [c02x_decode_msg _ hQ _ (by rw [hsa]; exact hj) (by have := hVa j hj; omega)]
    exact (c02x_imod_modEq ht _).symm
  · rw [c02x_decode_msg _ hQ _ (by rw [hsb]; exact hj) (by have := hVb j hj; omega)]
    exact (c02x_imod_modEq ht _).symm

/-! ## X3: model level -/

theorem c02x_F_lt_of_gamma {g F K Q : Nat} (hK : 0 < K) (hQ : 0 < Q) (h : g * F + 2^34 * K * Q ≤ 2^33 * Q * g) :
    F < 2^33 * Q := by
  by_contra hc
  have h1 : g * (2^33 * Q) ≤ g * F := Nat.mul_le_mul_left _ (by omega)
  have h2 : 0 < 2^34 * K * Q := by positivity
  have h3 : g * (2^33 * Q) = 2^33 * Q * g := by ring
  omega

theorem c02x_behz_coeff {g F K Q : Nat} {ν : Int} (h : g * F + 2^34 * K * Q ≤ 2^33 * Q * g)
    (hν : 2 * 2^33 * ν.natAbs ≤ F) :
    2 * (g : Int) * |ν| + 2 * (K : Int) * (Q : Int) ≤ (Q : Int) * (g : Int) := by
  have h1 : g * (2 * 2^33 * ν.natAbs) ≤ g * F := Nat.mul_le_mul_left _ hν
  have h2 : 2^33 * (2 * g * ν.natAbs + 2 * K * Q) ≤ 2^33 * (Q * g) := by
    have e1 : 2^33 * (2 * g * ν.natAbs + 2 * K * Q) = g * (2 * 2^33 * ν.natAbs) + 2^34 * K * Q := by ring
    have e2 : 2^33 * (Q * g) = 2^33 * Q * g := by ring
    rw [e1, e2]; omega
  have h3 : 2 * g * ν.natAbs + 2 * K * Q ≤ Q * g := Nat.le_of_mul_le_mul_left h2 (by positivity)
  rw [Int.abs_eq_natAbs]
  exact_mod_cast h3

/-- X3 core: decryption of the product returns the negacyclic product modulo t of the exact decodings of the operands, under the
    BEHZ decryption threshold `γ·F + 2^34·|q|·Q ≤ 2^33·Q·γ` (i.e. `‖ν_mul‖∞ ≤ F/2^34 ≤ Q·(1/2 − |q|/γ)`) -/
theorem c02x_decrypt_core {l : Level} {T : Array NTTTables} (hm : MulOK l T) (hd : DecOK l) (ht : 0 < l.t.value) {a b r : Ct}
    (ha : ∀ k, k < a.polys.size → RnsCanon l (a.polys.getD k #[]))
    (hb : ∀ k, k < b.polys.size → RnsCanon l (b.polys.getD k #[]))
    (hna : a.ntt = false) (hnb : b.ntt = false) (h1 : 1 ≤ a.polys.size) (h2 : 1 ≤ b.polys.size)
    (h3 : 3 ≤ a.polys.size + b.polys.size)
    (hwin : c02w_Window l a.polys.size b.polys.size) (hr : bfvMultiply l T a b = .ok r)
    {sk : Array Int} (hsk : sk.size = l.n) {Va Vb : Nat}
    (hVa : ∀ j, j < l.n → (c07l_v true l.t.value l.tool.baseQ.prod
      ((Spec.phase (c01p_qvals l) l.n sk a.polys.toList).getD j 0)).natAbs ≤ Va)
    (hVb : ∀ j, j < l.n → (c07l_v true l.t.value l.tool.baseQ.prod
      ((Spec.phase (c01p_qvals l) l.n sk b.polys.toList).getD j 0)).natAbs ≤ Vb)
    (h2a : 2 * Va < l.tool.baseQ.prod) (h2b : 2 * Vb < l.tool.baseQ.prod)
    (hF : l.tool.gamma.value *
        c02x_F l.n l.t.value l.size (∑ k ∈ range l.n, (sk.getD k 0).natAbs) a.polys.size b.polys.size Va Vb
        + 2^34 * l.size * l.tool.baseQ.prod ≤ 2^33 * l.tool.baseQ.prod * l.tool.gamma.value) :
    bfvDecrypt l sk r = .ok (Spec.trim
      (Spec.negMul (Spec.bfvDecode l.t.value l.tool.baseQ.prod (Spec.phase (c01p_qvals l) l.n sk a.polys.toList))
          (Spec.bfvDecode l.t.value l.tool.baseQ.prod (Spec.phase (c01p_qvals l) l.n sk b.polys.toList)) l.t.value)) := by
  have hQ := hm.tool.qwf.prod_pos
  have hK : 0 < l.size := by rw [← c02w_base_size hm]; exact hm.tool.qwf.pos
  have hFlt := c02x_F_lt_of_gamma hK hQ hF
  obtain ⟨r', hr', hsz, hntt, -, hcanr, -⟩ := bfvMultiply_ok hm ha hb hna hnb h1 h2 (bfvMultiply_ok_size hr)
  rw [hr] at hr'
  obtain rfl := Except.ok.inj hr'
  have hre : r = ⟨r.polys, false, r.cf⟩ := by
    cases r; simp_all
  have hPQ := c01p_prodL_qvals hd
  have hdec := bfvDecrypt_eq_spec hm.lwf hd hsk (polys := r.polys) (by rw [hsz]; omega)
    (fun k hk => hcanr k (by rw [← hsz]; exact hk)) r.cf
    (by
      intro j hj
      rw [hPQ]
      obtain ⟨μ, ν, e1, -, e3⟩ := c02x_noise_core hm ha hb hna hnb h1 h2 hwin hr hsk hVa hVb (by omega) (by omega) j hj
      have hν : 2 * ν.natAbs < l.tool.baseQ.prod := by omega
      rw [exact_below_threshold hQ e1 hν]
      have : (l.t.value : Int) * (Spec.phase (c01p_qvals l) l.n sk r.polys.toList).getD j 0 - l.tool.baseQ.prod * μ = ν := by
        rw [e1]; ring
      rw [this]
      exact c02x_behz_coeff hF e3)
  rw [← hre, hPQ] at hdec
  rw [hdec, c02x_decode_core hm ht ha hb hna hnb h1 h2 hwin hr hsk hVa hVb h2a h2b hFlt]

theorem c02x_prodL {l : Level} {T : Array NTTTables} (hm : MulOK l T) : Spec.prodL (c01p_qvals l) = l.tool.baseQ.prod := by
  rw [c01q_qvals_eq (c02x_levelQ hm), c01p_prodL_bvals hm.tool.qwf]

theorem c02x_F_mono (N t K S na nb : Nat) {Va Vb Va' Vb' : Nat} (ha : Va ≤ Va') (hb : Vb ≤ Vb') :
    c02x_F N t K S na nb Va Vb ≤ c02x_F N t K S na nb Va' Vb' := by
  unfold c02x_F
  gcongr

theorem c02x_geo_two (S : Nat) : c02x_geo S 2 = 1 + S := by simp [c02x_geo]
theorem c02x_geo_three (S : Nat) : c02x_geo S 3 = 1 + S + S^2 := by simp [c02x_geo]; ring

/-- the invariant noise of the coefficients of a phase polynomial is bounded by `V` -/
def c02x_NoiseLe (t Q : Nat) (ph : Spec.ZPoly) (n V : Nat) : Prop :=
  ∀ j, j < n → (c07l_v true t Q (ph.getD j 0)).natAbs ≤ V


/-! ## budget form -/

/-- the noise-growth factor: `F ≤ G·max(V_a, V_b, 1)` -/
def c02x_G (N t K S na nb : Nat) : Nat :=
  N * ((2 * t * ((2^32 + 2 * K) * c02x_geo S na) + 2^33) + (2 * t * ((2^32 + 2 * K) * c02x_geo S nb) + 2^33))
    + 2^33 * N + 2 * 2^33 * t * (K * c02x_geo S (na + nb - 1))

theorem c02x_F_le_G_aux (N A B C p V Va Vb : Nat) (h1 : Va ≤ V) (h2 : Vb ≤ V) (h3 : 1 ≤ V) :
    N * (A * Vb + B * Va) + p * N * Vb + C ≤ (N * (A + B) + p * N + C) * V := by
  have e : (N * (A + B) + p * N + C) * V = N * (A * V + B * V) + p * N * V + C * V := by ring
  rw [e]
  exact Nat.add_le_add (Nat.add_le_add
    (Nat.mul_le_mul_left N (Nat.add_le_add (Nat.mul_le_mul_left A h2) (Nat.mul_le_mul_left B h1)))
    (Nat.mul_le_mul_left _ h2)) (Nat.le_mul_of_pos_right C h3)

theorem c02x_F_le_G (N t K S na nb Va Vb : Nat) :
    c02x_F N t K S na nb Va Vb ≤ c02x_G N t K S na nb * max (max Va Vb) 1 :=
  c02x_F_le_G_aux N _ _ _ _ _ Va Vb (le_trans (le_max_left _ _) (le_max_left _ _))
    (le_trans (le_max_right _ _) (le_max_left _ _)) (le_max_right _ _)

/-- the budget noise of a coefficient is at most the size of ANY noise term of a splitting `t·x = Q·μ + ν` -/
theorem c02x_v_le_any {t Q : Nat} (hQ : 0 < Q) {x μ ν : Int} (h : (t : Int) * x = Q * μ + ν) :
    (c07l_v true t Q x).natAbs ≤ ν.natAbs := by
  by_cases hν : 2 * ν.natAbs < Q
  · rw [c07s_noise_unique h hν]
  · have := (c02x_split t hQ x).2
    omega

theorem c02x_noiseNorm_le {t Q : Nat} (ph : Array Int) (B : Nat)
    (h : ∀ j, j < ph.size → (c07l_v true t Q (ph.getD j 0)).natAbs ≤ B) : noiseNorm true t Q ph ≤ B := by
  rw [c07l_noiseNorm_le_iff]
  intro x hx
  obtain ⟨j, hj, rfl⟩ := List.mem_iff_getElem.mp hx
  have hj' : j < ph.size := by simpa using hj
  have := h j hj'
  simpa [Array.getD, hj'] using this

theorem c02x_bitCount_lt (v : Nat) : v < 2^(bitCount v) := (bitCount_le_iff v _).1 (Nat.le_refl _)

theorem c02x_bitCount_max (a b : Nat) : bitCount (max (max a b) 1) = max (max (bitCount a) (bitCount b)) 1 := by
  apply Nat.le_antisymm
  · rw [bitCount_le_iff]
    have ha := c02x_bitCount_lt a
    have hb := c02x_bitCount_lt b
    have h1 : 2^(bitCount a) ≤ 2^(max (max (bitCount a) (bitCount b)) 1) := Nat.pow_le_pow_right (by norm_num) (by omega)
    have h2 : 2^(bitCount b) ≤ 2^(max (max (bitCount a) (bitCount b)) 1) := Nat.pow_le_pow_right (by norm_num) (by omega)
    have h3 : 2^1 ≤ 2^(max (max (bitCount a) (bitCount b)) 1) := Nat.pow_le_pow_right (by norm_num) (by omega)
    omega
  · have h1 := bitCount_mono (le_trans (le_max_left a b) (le_max_left _ 1))
    have h2 := bitCount_mono (le_trans (le_max_right a b) (le_max_left _ 1))
    have h3 := bitCount_mono (le_max_right (max a b) 1)
    have e : bitCount 1 = 1 := by decide
    omega

/-- half of Q has fewer bits than Q -/
theorem c02x_bitCount_half {V Q : Nat} (hQ : 0 < Q) (h : 2 * V ≤ Q) : bitCount V + 1 ≤ bitCount Q := by
  have h1 := c02x_bitCount_lt Q
  have hb : 1 ≤ bitCount Q := by unfold bitCount; rw [if_neg (by omega)]; omega
  have hp : 2^(bitCount Q) = 2^(bitCount Q - 1) * 2 := by rw [← pow_succ]; congr 1; omega
  have h2 : bitCount V ≤ bitCount Q - 1 := by
    rw [bitCount_le_iff]
    omega
  omega


theorem c02x_pow_le_of_bitCount {Q : Nat} (hQ : 0 < Q) : 2^(bitCount Q - 1) ≤ Q := by
  by_contra hc
  have h1 := (bitCount_le_iff Q (bitCount Q - 1)).2 (by omega)
  have hb : 1 ≤ bitCount Q := by unfold bitCount; rw [if_neg (by omega)]; omega
  omega

/-- the 2 × 2 growth factor for a secret with `‖s‖₁ ≤ N`, `t ≤ T`, at most 64 moduli: `G ≤ 2^42·T·N²` -/
theorem c02x_G_2x2 {N t K S T : Nat} (hN : 1 ≤ N) (hT1 : 1 ≤ T) (hT : t ≤ T) (hK : K ≤ 64) (hS : S ≤ N) :
    c02x_G N t K S 2 2 ≤ 2^42 * (T * N^2) := by
  unfold c02x_G
  rw [c02x_geo_two, show 2 + 2 - 1 = 3 from rfl, c02x_geo_three]
  have h1 : 1 + S ≤ 2 * N := by omega
  have h2 : S^2 ≤ N^2 := Nat.pow_le_pow_left hS 2
  have h3 : 1 + S + S^2 ≤ 3 * N^2 := by nlinarith
  have h4 : 2^32 + 2 * K ≤ 2^32 + 128 := by omega
  have step : N * ((2 * t * ((2^32 + 2 * K) * (1 + S)) + 2^33) + (2 * t * ((2^32 + 2 * K) * (1 + S)) + 2^33))
      + 2^33 * N + 2 * 2^33 * t * (K * (1 + S + S^2))
      ≤ N * ((2 * T * ((2^32 + 128) * (2 * N)) + 2^33) + (2 * T * ((2^32 + 128) * (2 * N)) + 2^33))
      + 2^33 * N + 2 * 2^33 * T * (64 * (3 * N^2)) := by gcongr
  refine le_trans step ?_
  have hNN : N ≤ N^2 := by nlinarith
  have e : N * ((2 * T * ((2^32 + 128) * (2 * N)) + 2^33) + (2 * T * ((2^32 + 128) * (2 * N)) + 2^33))
      + 2^33 * N + 2 * 2^33 * T * (64 * (3 * N^2))
      = (8 * (2^32 + 128) + 3 * 2^40) * (T * N^2) + 3 * 2^33 * N := by ring
  rw [e]
  have hX : N ≤ T * N^2 := le_trans hNN (Nat.le_mul_of_pos_left _ hT1)
  generalize T * N^2 = Y at hX ⊢
  omega


/-- the auxiliary prime γ of a tool built by `RNSTool.new` is the second auxiliary modulus -/
theorem c02x_gamma_of_new {n : Nat} {q : RNSBase} {t : Modulus} {aux : List Modulus} {r : RNSTool}
    (ht : t.WF) (h : RNSTool.new n q t aux = .ok r) : r.gamma ∈ aux := by
  have ht2 := ht.two_le
  obtain ⟨_, _, _, _, _, _, _, _, hlen, _, _, _, _, _, _, _, _, _, _, _, _, rgam, _⟩ := c01p_new_inv h (by omega)
  rw [rgam]
  have e : aux.getD 1 default = aux[1] := by
    simp [List.getD, List.getElem?_eq_getElem (by omega : 1 < aux.length)]
  rw [e]; exact List.getElem_mem _

theorem c02x_threshold_of_gamma {g F K Q : Nat} (hg : 2^40 ≤ g) (hK : K ≤ 64) (hF : F ≤ (2^33 - 1) * Q) :
    g * F + 2^34 * K * Q ≤ 2^33 * Q * g := by
  have h1 : g * F ≤ g * ((2^33 - 1) * Q) := Nat.mul_le_mul_left _ hF
  have h2 : 2^34 * K * Q ≤ 2^34 * 64 * Q := Nat.mul_le_mul_right _ (Nat.mul_le_mul_left _ hK)
  have h3 : 2^40 * Q ≤ g * Q := Nat.mul_le_mul_right _ hg
  have e1 : g * ((2^33 - 1) * Q) + g * Q = 2^33 * Q * g := by
    have : (2^33 - 1 : Nat) + 1 = 2^33 := by norm_num
    calc g * ((2^33 - 1) * Q) + g * Q = g * Q * ((2^33 - 1) + 1) := by ring
      _ = 2^33 * Q * g := by rw [this]; ring
  have e2 : 2^34 * 64 * Q = 2^40 * Q := by norm_num
  omega


theorem c02x_geo_le_S (S N : Nat) (hS : S ≤ N) : ∀ m, c02x_geo S m ≤ c02x_geo N m
  | 0 => Nat.le_refl _
  | m+1 => by
    have ih := c02x_geo_le_S S N hS m
    show 1 + S * c02x_geo S m ≤ 1 + N * c02x_geo N m
    exact Nat.add_le_add_left (Nat.mul_le_mul hS ih) 1

/-- `Σ_{j≤m} N^j + 1 ≤ 2·N^m` for `N ≥ 2` -/
theorem c02x_geo_pow (N : Nat) (hN : 2 ≤ N) : ∀ m, c02x_geo N (m+1) + 1 ≤ 2 * N^m
  | 0 => by simp [c02x_geo]
  | m+1 => by
    have ih := c02x_geo_pow N hN m
    have e : c02x_geo N (m+1+1) = 1 + N * c02x_geo N (m+1) := rfl
    have h1 : N * (c02x_geo N (m+1) + 1) ≤ N * (2 * N^m) := Nat.mul_le_mul_left _ ih
    have e2 : N * (2 * N^m) = 2 * N^(m+1) := by ring
    have e3 : N * (c02x_geo N (m+1) + 1) = N * c02x_geo N (m+1) + N := by ring
    omega

theorem c02x_geo_bound {S N : Nat} (hS : S ≤ N) (hN : 2 ≤ N) {m : Nat} (hm : 1 ≤ m) : c02x_geo S m ≤ 2 * N^(m-1) := by
  obtain ⟨m', rfl⟩ : ∃ m', m = m' + 1 := ⟨m - 1, by omega⟩
  have := c02x_geo_pow N hN m'
  have := c02x_geo_le_S S N hS (m'+1)
  simp only [Nat.add_sub_cancel]
  omega

/-- the growth factor for operand sizes `na, nb ≥ 2`, `‖s‖₁ ≤ N`, `N ≥ 2`, `t ≤ T`, at most 64 moduli: `G ≤ 2^42·T·N^(na+nb−2)` -/
theorem c02x_G_general {N t K S T na nb : Nat} (hN : 2 ≤ N) (hT1 : 1 ≤ T) (hT : t ≤ T) (hK : K ≤ 64) (hS : S ≤ N)
    (ha : 2 ≤ na) (hb : 2 ≤ nb) : c02x_G N t K S na nb ≤ 2^42 * (T * N^(na + nb - 2)) := by
  unfold c02x_G
  have ga := c02x_geo_bound hS hN (show 1 ≤ na by omega)
  have gb := c02x_geo_bound hS hN (show 1 ≤ nb by omega)
  have gr := c02x_geo_bound hS hN (show 1 ≤ na + nb - 1 by omega)
  have h4 : 2^32 + 2 * K ≤ 2^32 + 128 := by omega
  have step : N * ((2 * t * ((2^32 + 2 * K) * c02x_geo S na) + 2^33) + (2 * t * ((2^32 + 2 * K) * c02x_geo S nb) + 2^33))
      + 2^33 * N + 2 * 2^33 * t * (K * c02x_geo S (na + nb - 1))
      ≤ N * ((2 * T * ((2^32 + 128) * (2 * N^(na-1))) + 2^33) + (2 * T * ((2^32 + 128) * (2 * N^(nb-1))) + 2^33))
      + 2^33 * N + 2 * 2^33 * T * (64 * (2 * N^(na + nb - 1 - 1))) := by gcongr
  refine le_trans step ?_
  have hN1 : 1 ≤ N := by omega
  have p1 : N * N^(na-1) ≤ N^(na + nb - 2) := by
    rw [← pow_succ']; exact Nat.pow_le_pow_right hN1 (by omega)
  have p2 : N * N^(nb-1) ≤ N^(na + nb - 2) := by
    rw [← pow_succ']; exact Nat.pow_le_pow_right hN1 (by omega)
  have p3 : N ≤ N^(na + nb - 2) := by
    calc N = N^1 := (pow_one N).symm
      _ ≤ N^(na + nb - 2) := Nat.pow_le_pow_right hN1 (by omega)
  have p4 : na + nb - 1 - 1 = na + nb - 2 := by omega
  rw [p4]
  have q1 : T * (N * N^(na-1)) ≤ T * N^(na + nb - 2) := Nat.mul_le_mul_left _ p1
  have q2 : T * (N * N^(nb-1)) ≤ T * N^(na + nb - 2) := Nat.mul_le_mul_left _ p2
  have q3 : N ≤ T * N^(na + nb - 2) := le_trans p3 (Nat.le_mul_of_pos_left _ hT1)
  have e : N * ((2 * T * ((2^32 + 128) * (2 * N^(na-1))) + 2^33) + (2 * T * ((2^32 + 128) * (2 * N^(nb-1))) + 2^33))
      + 2^33 * N + 2 * 2^33 * T * (64 * (2 * N^(na + nb - 2)))
      = 4 * (2^32 + 128) * (T * (N * N^(na-1))) + 4 * (2^32 + 128) * (T * (N * N^(nb-1))) + 3 * 2^33 * N
        + 2^41 * (T * N^(na + nb - 2)) := by ring
  rw [e]
  generalize T * (N * N^(na-1)) = u1 at q1 ⊢
  generalize T * (N * N^(nb-1)) = u2 at q2 ⊢
  generalize T * N^(na + nb - 2) = Y at q1 q2 q3 ⊢
  omega


/-- arithmetic core of the budget rules: operand noise norms `Va, Vb` with budgets `≥ L + 2 + e`, `F ≤ G·max(Va,Vb,1)`,
    `G ≤ 2^(34+L)` give `2^e·F < 2^33·Q` and `2Va, 2Vb < Q` -/
theorem c02x_budget_arith {Q Va Vb F G L e : Nat} (hQ : 0 < Q) (hF : F ≤ G * max (max Va Vb) 1) (hG : G ≤ 2^(34 + L))
    (hβ : L + 2 + e ≤ min (((bitCount Q : Int) - (bitCount Va : Int) - 1).toNat)
      (((bitCount Q : Int) - (bitCount Vb : Int) - 1).toNat)) :
    2^e * F < 2^33 * Q ∧ 2 * Va < Q ∧ 2 * Vb < Q := by
  have hQp := c02x_pow_le_of_bitCount hQ
  have hbm := c02x_bitCount_max Va Vb
  have hla := c02x_bitCount_lt Va
  have hlb := c02x_bitCount_lt Vb
  have hlv := c02x_bitCount_lt (max (max Va Vb) 1)
  rw [hbm] at hlv
  have pa : 2^(bitCount Va + 1) ≤ 2^(bitCount Q - 1) := Nat.pow_le_pow_right (by norm_num) (by omega)
  have pb : 2^(bitCount Vb + 1) ≤ 2^(bitCount Q - 1) := Nat.pow_le_pow_right (by norm_num) (by omega)
  rw [pow_succ] at pa pb
  have pv : 2^e * (2^(34 + L) * 2^(max (max (bitCount Va) (bitCount Vb)) 1)) ≤ 2^33 * 2^(bitCount Q - 1) := by
    rw [← pow_add, ← pow_add, ← pow_add]
    exact Nat.pow_le_pow_right (by norm_num) (by omega)
  refine ⟨?_, by omega, by omega⟩
  have s1 := Nat.mul_le_mul_right (max (max Va Vb) 1) hG
  have s2 : 2^(34 + L) * max (max Va Vb) 1 < 2^(34 + L) * 2^(max (max (bitCount Va) (bitCount Vb)) 1) :=
    Nat.mul_lt_mul_of_pos_left hlv (by positivity)
  have s3 : 2^33 * 2^(bitCount Q - 1) ≤ 2^33 * Q := Nat.mul_le_mul_left _ hQp
  have s4 : 2^e * F < 2^e * (2^(34 + L) * 2^(max (max (bitCount Va) (bitCount Vb)) 1)) :=
    Nat.mul_lt_mul_of_pos_left (by omega) (by positivity)
  omega


/-- the multiplicative part of the growth factor (`F ≤ G1·max(V_a, V_b) + C`, `C = 2^34·t·|q|·G_r` the additive BEHZ part) -/
def c02x_G1 (N t K S na nb : Nat) : Nat :=
  N * ((2 * t * ((2^32 + 2 * K) * c02x_geo S na) + 2^33) + (2 * t * ((2^32 + 2 * K) * c02x_geo S nb) + 2^33)) + 2^33 * N

theorem c02x_F_le_G1_aux (N A B C p V Va Vb : Nat) (h1 : Va ≤ V) (h2 : Vb ≤ V) :
    N * (A * Vb + B * Va) + p * N * Vb + C ≤ (N * (A + B) + p * N) * V + C := by
  have e : (N * (A + B) + p * N) * V = N * (A * V + B * V) + p * N * V := by ring
  rw [e]
  exact Nat.add_le_add_right (Nat.add_le_add
    (Nat.mul_le_mul_left N (Nat.add_le_add (Nat.mul_le_mul_left A h2) (Nat.mul_le_mul_left B h1)))
    (Nat.mul_le_mul_left _ h2)) C

theorem c02x_F_le_G1 (N t K S na nb Va Vb : Nat) :
    c02x_F N t K S na nb Va Vb
      ≤ c02x_G1 N t K S na nb * max Va Vb + 2 * 2^33 * t * (K * c02x_geo S (na + nb - 1)) :=
  c02x_F_le_G1_aux N _ _ _ _ _ Va Vb (le_max_left _ _) (le_max_right _ _)

theorem c02x_bitCount_max2 (a b : Nat) : bitCount (max a b) = max (bitCount a) (bitCount b) := by
  rcases le_total a b with h | h
  · rw [max_eq_right h, max_eq_right (bitCount_mono h)]
  · rw [max_eq_left h, max_eq_left (bitCount_mono h)]


/-- arithmetic core of the split budget rule -/
theorem c02x_budget_arith_split {Q Va Vb F G1 C L1 L2 : Nat} (hQ : 0 < Q) (hF : F ≤ G1 * max Va Vb + C)
    (hG : G1 ≤ 2^(34 + L1)) (hC : C ≤ 2^(34 + L2))
    (hβ : L1 + 2 ≤ min (((bitCount Q : Int) - (bitCount Va : Int) - 1).toNat)
      (((bitCount Q : Int) - (bitCount Vb : Int) - 1).toNat)) (hQ2 : L2 + 3 ≤ bitCount Q) :
    F < 2^33 * Q ∧ 2 * Va < Q ∧ 2 * Vb < Q := by
  have hQp := c02x_pow_le_of_bitCount hQ
  have hla := c02x_bitCount_lt Va
  have hlb := c02x_bitCount_lt Vb
  have hlv := c02x_bitCount_lt (max Va Vb)
  rw [c02x_bitCount_max2] at hlv
  have pa : 2^(bitCount Va + 1) ≤ 2^(bitCount Q - 1) := Nat.pow_le_pow_right (by norm_num) (by omega)
  have pb : 2^(bitCount Vb + 1) ≤ 2^(bitCount Q - 1) := Nat.pow_le_pow_right (by norm_num) (by omega)
  rw [pow_succ] at pa pb
  refine ⟨?_, by omega, by omega⟩
  have s1 := Nat.mul_le_mul_right (max Va Vb) hG
  have s2 : 2^(34 + L1) * max Va Vb < 2^(34 + L1) * 2^(max (bitCount Va) (bitCount Vb)) :=
    Nat.mul_lt_mul_of_pos_left hlv (by positivity)
  have s3 : 2^(34 + L1) * 2^(max (bitCount Va) (bitCount Vb)) ≤ 2^32 * 2^(bitCount Q - 1) := by
    rw [← pow_add, ← pow_add]; exact Nat.pow_le_pow_right (by norm_num) (by omega)
  have s4 : 2^(34 + L2) ≤ 2^32 * 2^(bitCount Q - 1) := by
    rw [← pow_add]; exact Nat.pow_le_pow_right (by norm_num) (by omega)
  have s5 : 2^33 * 2^(bitCount Q - 1) ≤ 2^33 * Q := Nat.mul_le_mul_left _ hQp
  have e : (2:Nat)^33 * 2^(bitCount Q - 1) = 2^32 * 2^(bitCount Q - 1) + 2^32 * 2^(bitCount Q - 1) := by
    rw [show (2:Nat)^33 = 2^32 + 2^32 by norm_num, Nat.add_mul]
  omega

/-- closed forms for small operand sizes (`n_a, n_b ≤ 3`, `n_a + n_b ≤ 5`: 2×2, 3×2, 2×3), `‖s‖₁ ≤ N`, `N ≥ 2`, `t ≤ T`, `|q| ≤ 8` -/
theorem c02x_G1_small {N t K S T na nb : Nat} (hN : 2 ≤ N) (hT1 : 1 ≤ T) (hT : t ≤ T) (hK : K ≤ 64) (hS : S ≤ N)
    (ha : na ≤ 3) (hb : nb ≤ 3) : c02x_G1 N t K S na nb ≤ 2^36 * (T * N^3) := by
  unfold c02x_G1
  have g3 : c02x_geo S 3 ≤ 2 * N^2 := c02x_geo_bound hS hN (by norm_num)
  have ga := le_trans (c02x_geo_mono S ha) g3
  have gb := le_trans (c02x_geo_mono S hb) g3
  have h4 : 2^32 + 2 * K ≤ 2^32 + 128 := by omega
  have step : N * ((2 * t * ((2^32 + 2 * K) * c02x_geo S na) + 2^33) + (2 * t * ((2^32 + 2 * K) * c02x_geo S nb) + 2^33))
      + 2^33 * N
      ≤ N * ((2 * T * ((2^32 + 128) * (2 * N^2)) + 2^33) + (2 * T * ((2^32 + 128) * (2 * N^2)) + 2^33)) + 2^33 * N := by
    gcongr
  refine le_trans step ?_
  have p3 : 4 * N ≤ N^3 := by
    have : 4 ≤ N^2 := by nlinarith
    calc 4 * N ≤ N^2 * N := Nat.mul_le_mul_right _ this
      _ = N^3 := by ring
  have q3 : 4 * N ≤ T * N^3 := le_trans p3 (Nat.le_mul_of_pos_left _ hT1)
  have e : N * ((2 * T * ((2^32 + 128) * (2 * N^2)) + 2^33) + (2 * T * ((2^32 + 128) * (2 * N^2)) + 2^33)) + 2^33 * N
      = 8 * (2^32 + 128) * (T * N^3) + 3 * 2^33 * N := by ring
  rw [e]
  generalize T * N^3 = Y at q3 ⊢
  omega

theorem c02x_C_small {N t K S T m : Nat} (hN : 2 ≤ N) (hT : t ≤ T) (hK : K ≤ 8) (hS : S ≤ N) (hm : m ≤ 4) :
    2 * 2^33 * t * (K * c02x_geo S m) ≤ 2^38 * (T * N^3) := by
  have g4 : c02x_geo S 4 ≤ 2 * N^3 := c02x_geo_bound hS hN (by norm_num)
  have gm := le_trans (c02x_geo_mono S hm) g4
  have step : 2 * 2^33 * t * (K * c02x_geo S m) ≤ 2 * 2^33 * T * (8 * (2 * N^3)) := by gcongr
  refine le_trans step (le_of_eq ?_)
  ring

/-! ## Property theorems -/

/-- X1, operands (the invariant-noise convention of `Spec.budget`): every phase coefficient splits as `t·x = Q·m + ν` with
    `ν = [t·x]_Q` the centred residue measured by the budget (`c07l_v true t Q x`), `2|ν| ≤ Q`, `m = c02x_msg t Q x` -/
theorem bfv_noise_split (t : Nat) {Q : Nat} (hQ : 0 < Q) (x : Int) :
    (t : Int) * x = Q * c02x_msg t Q x + c07l_v true t Q x ∧ 2 * (c07l_v true t Q x).natAbs ≤ Q := c02x_split t hQ x

/-- X1 (ANY operand sizes ≥ 1, any integer secret key).  With the exact centred phases `x_a, x_b, x_r` (`Spec.phase`) of the
    operands and of the result of `bfvMultiply`, `Q = Π q_i`, `t·x_a = Q·m_a + ν_a`, `t·x_b = Q·m_b + ν_b` (`bfv_noise_split`),
    `‖ν_a‖∞ ≤ V_a`, `‖ν_b‖∞ ≤ V_b`: for every coefficient `c`
    `t·x_r[c] = Q·μ + ν`,  `μ ≡ (m_a ⋆ m_b)[c] (mod t)` (⋆ negacyclic over ℤ),  `2·2^33·|ν| ≤ c02x_F N t |q| ‖s‖₁ n_a n_b V_a V_b`,
    i.e. `‖ν_mul‖∞ ≤ N·t·(½+|q|/2^32)·(G_a·V_b + G_b·V_a) + N·(V_a+2V_b)/2 + t·|q|·G_r`, `G_x = Σ_{k<n_x}‖s‖₁^k`, `G_r = Σ_{k<n_a+n_b−1}‖s‖₁^k`. -/
theorem bfvMultiply_noise {l : Level} {T : Array NTTTables} (hm : MulOK l T) {a b r : Ct}
    (ha : ∀ k, k < a.polys.size → RnsCanon l (a.polys.getD k #[]))
    (hb : ∀ k, k < b.polys.size → RnsCanon l (b.polys.getD k #[]))
    (hna : a.ntt = false) (hnb : b.ntt = false) (h1 : 1 ≤ a.polys.size) (h2 : 1 ≤ b.polys.size)
    (hwin : c02w_Window l a.polys.size b.polys.size) (hr : bfvMultiply l T a b = .ok r)
    {sk : Array Int} (hsk : sk.size = l.n) {Va Vb : Nat}
    (hVa : c02x_NoiseLe l.t.value (Spec.prodL (c01p_qvals l)) (Spec.phase (c01p_qvals l) l.n sk a.polys.toList) l.n Va)
    (hVb : c02x_NoiseLe l.t.value (Spec.prodL (c01p_qvals l)) (Spec.phase (c01p_qvals l) l.n sk b.polys.toList) l.n Vb) :
    ∀ c, c < l.n → ∃ μ ν : Int,
      (l.t.value : Int) * (Spec.phase (c01p_qvals l) l.n sk r.polys.toList).getD c 0
        = (Spec.prodL (c01p_qvals l) : Int) * μ + ν ∧
      μ ≡ negMulR l.n
          (fun j => c02x_msg l.t.value (Spec.prodL (c01p_qvals l)) ((Spec.phase (c01p_qvals l) l.n sk a.polys.toList).getD j 0))
          (fun j => c02x_msg l.t.value (Spec.prodL (c01p_qvals l)) ((Spec.phase (c01p_qvals l) l.n sk b.polys.toList).getD j 0)) c
        [ZMOD l.t.value] ∧
      2 * 2^33 * ν.natAbs ≤ c02x_F l.n l.t.value l.size (∑ k ∈ range l.n, (sk.getD k 0).natAbs)
        a.polys.size b.polys.size Va Vb := by
  rw [c02x_prodL hm] at hVa hVb ⊢
  have hQ := hm.tool.qwf.prod_pos
  intro c hc
  have hVa' : ∀ j, j < l.n → (c07l_v true l.t.value l.tool.baseQ.prod
      ((Spec.phase (c01p_qvals l) l.n sk a.polys.toList).getD j 0)).natAbs ≤ min Va (l.tool.baseQ.prod / 2) := by
    intro j hj
    have h1 := hVa j hj
    have h2 := (c02x_split l.t.value hQ ((Spec.phase (c01p_qvals l) l.n sk a.polys.toList).getD j 0)).2
    omega
  have hVb' : ∀ j, j < l.n → (c07l_v true l.t.value l.tool.baseQ.prod
      ((Spec.phase (c01p_qvals l) l.n sk b.polys.toList).getD j 0)).natAbs ≤ min Vb (l.tool.baseQ.prod / 2) := by
    intro j hj
    have h1 := hVb j hj
    have h2 := (c02x_split l.t.value hQ ((Spec.phase (c01p_qvals l) l.n sk b.polys.toList).getD j 0)).2
    omega
  obtain ⟨μ, ν, e1, e2, e3⟩ := c02x_noise_core hm ha hb hna hnb h1 h2 hwin hr hsk hVa' hVb' (by omega) (by omega) c hc
  exact ⟨μ, ν, e1, e2, le_trans e3 (c02x_F_mono _ _ _ _ _ _ (Nat.min_le_left _ _) (Nat.min_le_left _ _))⟩

/-- X1 for two fresh-size ciphertexts (2 × 2 → size 3, phase `c0 + c1·s + c2·s²`): the bound with the geometric sums spelled out -/
theorem bfvMultiply_noise_2x2 {l : Level} {T : Array NTTTables} (hm : MulOK l T) {a b r : Ct}
    (ha : ∀ k, k < a.polys.size → RnsCanon l (a.polys.getD k #[]))
    (hb : ∀ k, k < b.polys.size → RnsCanon l (b.polys.getD k #[]))
    (hna : a.ntt = false) (hnb : b.ntt = false) (h1 : a.polys.size = 2) (h2 : b.polys.size = 2)
    (hwin : c02w_Window l 2 2) (hr : bfvMultiply l T a b = .ok r)
    {sk : Array Int} (hsk : sk.size = l.n) {Va Vb S : Nat} (hS : ∑ k ∈ range l.n, (sk.getD k 0).natAbs = S)
    (hVa : c02x_NoiseLe l.t.value (Spec.prodL (c01p_qvals l)) (Spec.phase (c01p_qvals l) l.n sk a.polys.toList) l.n Va)
    (hVb : c02x_NoiseLe l.t.value (Spec.prodL (c01p_qvals l)) (Spec.phase (c01p_qvals l) l.n sk b.polys.toList) l.n Vb) :
    r.polys.size = 3 ∧ ∀ c, c < l.n → ∃ μ ν : Int,
      (l.t.value : Int) * (Spec.phase (c01p_qvals l) l.n sk r.polys.toList).getD c 0
        = (Spec.prodL (c01p_qvals l) : Int) * μ + ν ∧
      μ ≡ negMulR l.n
          (fun j => c02x_msg l.t.value (Spec.prodL (c01p_qvals l)) ((Spec.phase (c01p_qvals l) l.n sk a.polys.toList).getD j 0))
          (fun j => c02x_msg l.t.value (Spec.prodL (c01p_qvals l)) ((Spec.phase (c01p_qvals l) l.n sk b.polys.toList).getD j 0)) c
        [ZMOD l.t.value] ∧
      2 * 2^33 * ν.natAbs ≤
        l.n * ((2 * l.t.value * ((2^32 + 2 * l.size) * (1 + S)) + 2^33) * Vb
             + (2 * l.t.value * ((2^32 + 2 * l.size) * (1 + S)) + 2^33) * Va)
          + 2^33 * l.n * Vb + 2 * 2^33 * l.t.value * (l.size * (1 + S + S^2)) := by
  obtain ⟨r', hr', hsz, -⟩ := bfvMultiply_ok hm ha hb hna hnb (by omega) (by omega) (bfvMultiply_ok_size hr)
  rw [hr] at hr'
  obtain rfl := Except.ok.inj hr'
  refine ⟨by rw [hsz, h1, h2], ?_⟩
  have h := bfvMultiply_noise hm ha hb hna hnb (by omega) (by omega) (by rw [h1, h2]; exact hwin) hr hsk hVa hVb
  rw [h1, h2, hS] at h
  unfold c02x_F at h
  rw [c02x_geo_two, show 2 + 2 - 1 = 3 from rfl, c02x_geo_three] at h
  exact h

/-- X2 (decoding, ANY sizes): if the operand noises are below Q/2 and the bound `F` of `bfvMultiply_noise` is below `2^33·Q`
    (i.e. `‖ν_mul‖∞ < Q/2`), the exact decoding of the product's phase is the negacyclic product modulo `(X^N+1, t)` of the
    exact decodings of the operands' phases -/
theorem bfvMultiply_decode {l : Level} {T : Array NTTTables} (hm : MulOK l T) (ht : 0 < l.t.value) {a b r : Ct}
    (ha : ∀ k, k < a.polys.size → RnsCanon l (a.polys.getD k #[]))
    (hb : ∀ k, k < b.polys.size → RnsCanon l (b.polys.getD k #[]))
    (hna : a.ntt = false) (hnb : b.ntt = false) (h1 : 1 ≤ a.polys.size) (h2 : 1 ≤ b.polys.size)
    (hwin : c02w_Window l a.polys.size b.polys.size) (hr : bfvMultiply l T a b = .ok r)
    {sk : Array Int} (hsk : sk.size = l.n) {Va Vb : Nat}
    (hVa : c02x_NoiseLe l.t.value (Spec.prodL (c01p_qvals l)) (Spec.phase (c01p_qvals l) l.n sk a.polys.toList) l.n Va)
    (hVb : c02x_NoiseLe l.t.value (Spec.prodL (c01p_qvals l)) (Spec.phase (c01p_qvals l) l.n sk b.polys.toList) l.n Vb)
    (h2a : 2 * Va < Spec.prodL (c01p_qvals l)) (h2b : 2 * Vb < Spec.prodL (c01p_qvals l))
    (hF : c02x_F l.n l.t.value l.size (∑ k ∈ range l.n, (sk.getD k 0).natAbs) a.polys.size b.polys.size Va Vb
      < 2^33 * Spec.prodL (c01p_qvals l)) :
    Spec.bfvDecode l.t.value (Spec.prodL (c01p_qvals l)) (Spec.phase (c01p_qvals l) l.n sk r.polys.toList)
      = Spec.negMul (Spec.bfvDecode l.t.value (Spec.prodL (c01p_qvals l)) (Spec.phase (c01p_qvals l) l.n sk a.polys.toList))
          (Spec.bfvDecode l.t.value (Spec.prodL (c01p_qvals l)) (Spec.phase (c01p_qvals l) l.n sk b.polys.toList))
          l.t.value := by
  rw [c02x_prodL hm] at hVa hVb h2a h2b hF ⊢
  exact c02x_decode_core hm ht ha hb hna hnb h1 h2 hwin hr hsk hVa hVb h2a h2b hF

/-- X3 (model level): `bfvDecrypt (bfvMultiply a b) = trim (decode(a) ⋆ decode(b) mod (X^N+1, t))` under the BEHZ decryption
    threshold `γ·F + 2^34·|q|·Q ≤ 2^33·Q·γ` (`‖ν_mul‖∞ ≤ Q·(½ − |q|/γ)`; it implies X2's condition `F < 2^33·Q`) -/
theorem bfvDecrypt_bfvMultiply {l : Level} {T : Array NTTTables} (hm : MulOK l T) (hd : DecOK l) (ht : 0 < l.t.value)
    {a b r : Ct}
    (ha : ∀ k, k < a.polys.size → RnsCanon l (a.polys.getD k #[]))
    (hb : ∀ k, k < b.polys.size → RnsCanon l (b.polys.getD k #[]))
    (hna : a.ntt = false) (hnb : b.ntt = false) (h1 : 1 ≤ a.polys.size) (h2 : 1 ≤ b.polys.size)
    (h3 : 3 ≤ a.polys.size + b.polys.size)
    (hwin : c02w_Window l a.polys.size b.polys.size) (hr : bfvMultiply l T a b = .ok r)
    {sk : Array Int} (hsk : sk.size = l.n) {Va Vb : Nat}
    (hVa : c02x_NoiseLe l.t.value (Spec.prodL (c01p_qvals l)) (Spec.phase (c01p_qvals l) l.n sk a.polys.toList) l.n Va)
    (hVb : c02x_NoiseLe l.t.value (Spec.prodL (c01p_qvals l)) (Spec.phase (c01p_qvals l) l.n sk b.polys.toList) l.n Vb)
    (h2a : 2 * Va < Spec.prodL (c01p_qvals l)) (h2b : 2 * Vb < Spec.prodL (c01p_qvals l))
    (hF : l.tool.gamma.value *
        c02x_F l.n l.t.value l.size (∑ k ∈ range l.n, (sk.getD k 0).natAbs) a.polys.size b.polys.size Va Vb
        + 2^34 * l.size * Spec.prodL (c01p_qvals l) ≤ 2^33 * Spec.prodL (c01p_qvals l) * l.tool.gamma.value) :
    bfvDecrypt l sk r = .ok (Spec.trim
      (Spec.negMul (Spec.bfvDecode l.t.value (Spec.prodL (c01p_qvals l)) (Spec.phase (c01p_qvals l) l.n sk a.polys.toList))
          (Spec.bfvDecode l.t.value (Spec.prodL (c01p_qvals l)) (Spec.phase (c01p_qvals l) l.n sk b.polys.toList))
          l.t.value)) := by
  rw [c02x_prodL hm] at hVa hVb h2a h2b hF ⊢
  exact c02x_decrypt_core hm hd ht ha hb hna hnb h1 h2 h3 hwin hr hsk hVa hVb h2a h2b hF

theorem c02x_noiseNorm_half (t : Nat) {Q : Nat} (hQ : 0 < Q) (ph : Array Int) : 2 * noiseNorm true t Q ph ≤ Q := by
  have := c02x_noiseNorm_le (t := t) (Q := Q) ph (Q / 2) (fun j _ => by
    have := (c02x_split t hQ (ph.getD j 0)).2
    omega)
  omega

/-- X2, budget form (ANY sizes).  With the noise-growth factor `G = c02x_G N t |q| ‖s‖₁ n_a n_b`
    (`≈ N·t·(2^33+4|q|)·(G_a + G_b) + 3·2^33·N + 2^34·t·|q|·G_r`, scaled by 2^34) and any `L` with `G ≤ 2^(34+L)`:
    `budget(result) ≥ min(budget a, budget b, bits(Q) − 2) − L`. -/
theorem bfvMultiply_budget {l : Level} {T : Array NTTTables} (hm : MulOK l T) {a b r : Ct}
    (ha : ∀ k, k < a.polys.size → RnsCanon l (a.polys.getD k #[]))
    (hb : ∀ k, k < b.polys.size → RnsCanon l (b.polys.getD k #[]))
    (hna : a.ntt = false) (hnb : b.ntt = false) (h1 : 1 ≤ a.polys.size) (h2 : 1 ≤ b.polys.size)
    (hwin : c02w_Window l a.polys.size b.polys.size) (hr : bfvMultiply l T a b = .ok r)
    {sk : Array Int} (hsk : sk.size = l.n) (L : Nat)
    (hG : c02x_G l.n l.t.value l.size (∑ k ∈ range l.n, (sk.getD k 0).natAbs) a.polys.size b.polys.size ≤ 2^(34 + L)) :
    min (min (Spec.budget true l.t.value (Spec.prodL (c01p_qvals l)) (Spec.phase (c01p_qvals l) l.n sk a.polys.toList))
             (Spec.budget true l.t.value (Spec.prodL (c01p_qvals l)) (Spec.phase (c01p_qvals l) l.n sk b.polys.toList)))
        (bitCount (Spec.prodL (c01p_qvals l)) - 2)
      ≤ Spec.budget true l.t.value (Spec.prodL (c01p_qvals l)) (Spec.phase (c01p_qvals l) l.n sk r.polys.toList) + L := by
  have hQ : 0 < Spec.prodL (c01p_qvals l) := by rw [c02x_prodL hm]; exact hm.tool.qwf.prod_pos
  obtain ⟨r', hr', hsz, -, -, hcanr, -⟩ := bfvMultiply_ok hm ha hb hna hnb h1 h2 (bfvMultiply_ok_size hr)
  rw [hr] at hr'
  obtain rfl := Except.ok.inj hr'
  have hsr := c02x_phase_size hm sk (by rw [hsz]; omega) (fun k hk => hcanr k (by rw [← hsz]; exact hk))
  generalize hQd : Spec.prodL (c01p_qvals l) = Q at *
  generalize hpa : Spec.phase (c01p_qvals l) l.n sk a.polys.toList = pha at *
  generalize hpb : Spec.phase (c01p_qvals l) l.n sk b.polys.toList = phb at *
  generalize hpr : Spec.phase (c01p_qvals l) l.n sk r.polys.toList = phr at *
  have hnoise := bfvMultiply_noise hm ha hb hna hnb h1 h2 hwin hr hsk
    (Va := noiseNorm true l.t.value Q pha) (Vb := noiseNorm true l.t.value Q phb)
    (by rw [hQd, hpa]; exact fun j _ => c07l_getD_le true l.t.value Q pha j)
    (by rw [hQd, hpb]; exact fun j _ => c07l_getD_le true l.t.value Q phb j)
  rw [hQd, hpa, hpb, hpr] at hnoise
  generalize hVa : noiseNorm true l.t.value Q pha = Va at hnoise
  generalize hVb : noiseNorm true l.t.value Q phb = Vb at hnoise
  have hnr : noiseNorm true l.t.value Q phr ≤ 2^L * max (max Va Vb) 1 := by
    apply c02x_noiseNorm_le
    intro j hj
    obtain ⟨μ, ν, e1, -, e3⟩ := hnoise j (by rw [← hsr]; exact hj)
    refine le_trans (c02x_v_le_any hQ e1) ?_
    have h4 := le_trans e3 (c02x_F_le_G _ _ _ _ _ _ Va Vb)
    have h5 := Nat.mul_le_mul_right (max (max Va Vb) 1) hG
    have h6 : 2^34 * ν.natAbs ≤ 2^34 * (2^L * max (max Va Vb) 1) := by
      rw [← Nat.mul_assoc, ← pow_add]
      have : 2^34 * ν.natAbs = 2 * 2^33 * ν.natAbs := by norm_num
      omega
    exact Nat.le_of_mul_le_mul_left h6 (by positivity)
  have hbr : bitCount (noiseNorm true l.t.value Q phr) ≤ L + bitCount (max (max Va Vb) 1) := by
    refine le_trans (bitCount_mono hnr) ?_
    rw [bitCount_le_iff, pow_add]
    exact Nat.mul_lt_mul_of_pos_left (c02x_bitCount_lt _) (by positivity)
  rw [c02x_bitCount_max] at hbr
  have ha1 := c02x_bitCount_half hQ (c02x_noiseNorm_half l.t.value hQ pha)
  have hb1 := c02x_bitCount_half hQ (c02x_noiseNorm_half l.t.value hQ phb)
  rw [hVa] at ha1
  rw [hVb] at hb1
  rw [budget_eq, budget_eq, budget_eq, hVa, hVb]
  omega

/-- X2 from budgets (ANY sizes): if `G ≤ 2^(34+L)` and both operand budgets are at least `L + 2` bits, the decoding of the product
    is exact (X2's threshold holds) -/
theorem bfvMultiply_decode_of_budget {l : Level} {T : Array NTTTables} (hm : MulOK l T) (ht : 0 < l.t.value) {a b r : Ct}
    (ha : ∀ k, k < a.polys.size → RnsCanon l (a.polys.getD k #[]))
    (hb : ∀ k, k < b.polys.size → RnsCanon l (b.polys.getD k #[]))
    (hna : a.ntt = false) (hnb : b.ntt = false) (h1 : 1 ≤ a.polys.size) (h2 : 1 ≤ b.polys.size)
    (hwin : c02w_Window l a.polys.size b.polys.size) (hr : bfvMultiply l T a b = .ok r)
    {sk : Array Int} (hsk : sk.size = l.n) (L : Nat)
    (hG : c02x_G l.n l.t.value l.size (∑ k ∈ range l.n, (sk.getD k 0).natAbs) a.polys.size b.polys.size ≤ 2^(34 + L))
    (hβ : L + 2 ≤ min
      (Spec.budget true l.t.value (Spec.prodL (c01p_qvals l)) (Spec.phase (c01p_qvals l) l.n sk a.polys.toList))
      (Spec.budget true l.t.value (Spec.prodL (c01p_qvals l)) (Spec.phase (c01p_qvals l) l.n sk b.polys.toList))) :
    Spec.bfvDecode l.t.value (Spec.prodL (c01p_qvals l)) (Spec.phase (c01p_qvals l) l.n sk r.polys.toList)
      = Spec.negMul (Spec.bfvDecode l.t.value (Spec.prodL (c01p_qvals l)) (Spec.phase (c01p_qvals l) l.n sk a.polys.toList))
          (Spec.bfvDecode l.t.value (Spec.prodL (c01p_qvals l)) (Spec.phase (c01p_qvals l) l.n sk b.polys.toList))
          l.t.value := by
  have hQ : 0 < Spec.prodL (c01p_qvals l) := by rw [c02x_prodL hm]; exact hm.tool.qwf.prod_pos
  rw [budget_eq, budget_eq] at hβ
  obtain ⟨f1, f2, f3⟩ := c02x_budget_arith (e := 0) hQ (c02x_F_le_G _ _ _ _ _ _ _ _) hG (by omega)
  rw [pow_zero, Nat.one_mul] at f1
  exact bfvMultiply_decode hm ht ha hb hna hnb h1 h2 hwin hr hsk
    (fun j _ => c07l_getD_le true _ _ _ j) (fun j _ => c07l_getD_le true _ _ _ j) f2 f3 f1

/-- X2, the harness rule `Prog::pred_mul` (harness/src/c02.rs: `min(pred a, pred b) − (log2 t + 2·log2 N + 10 + size a + size b)`)
    is SOUND for 2 × 2 products, for every secret with `‖s‖₁ ≤ N` (e.g. ternary), `t ≤ 2^lt`, `N = 2^k`:
    (i) the true budget of the product is at least `min(budget a, budget b) − (lt + 2k + 9)` — the rule subtracts `lt + 2k + 14`;
    (ii) whenever `min(budget a, budget b) ≥ lt + 2k + 10` (in particular whenever the rule predicts ≥ 1 bit from lower bounds of
    the operand budgets) the decoding of the product is exact. -/
theorem pred_mul_sound_2x2 {l : Level} {T : Array NTTTables} (hm : MulOK l T) (ht : 0 < l.t.value) {a b r : Ct}
    (ha : ∀ k, k < a.polys.size → RnsCanon l (a.polys.getD k #[]))
    (hb : ∀ k, k < b.polys.size → RnsCanon l (b.polys.getD k #[]))
    (hna : a.ntt = false) (hnb : b.ntt = false) (h1 : a.polys.size = 2) (h2 : b.polys.size = 2)
    (hwin : c02w_Window l 2 2) (hr : bfvMultiply l T a b = .ok r)
    {sk : Array Int} (hsk : sk.size = l.n) (hS : ∑ k ∈ range l.n, (sk.getD k 0).natAbs ≤ l.n)
    {lt : Nat} (hlt : l.t.value ≤ 2^lt) :
    (min (Spec.budget true l.t.value (Spec.prodL (c01p_qvals l)) (Spec.phase (c01p_qvals l) l.n sk a.polys.toList))
         (Spec.budget true l.t.value (Spec.prodL (c01p_qvals l)) (Spec.phase (c01p_qvals l) l.n sk b.polys.toList))
      ≤ Spec.budget true l.t.value (Spec.prodL (c01p_qvals l)) (Spec.phase (c01p_qvals l) l.n sk r.polys.toList)
          + (lt + 2 * l.k + 9)) ∧
    (lt + 2 * l.k + 10 ≤ min
        (Spec.budget true l.t.value (Spec.prodL (c01p_qvals l)) (Spec.phase (c01p_qvals l) l.n sk a.polys.toList))
        (Spec.budget true l.t.value (Spec.prodL (c01p_qvals l)) (Spec.phase (c01p_qvals l) l.n sk b.polys.toList)) →
      Spec.bfvDecode l.t.value (Spec.prodL (c01p_qvals l)) (Spec.phase (c01p_qvals l) l.n sk r.polys.toList)
        = Spec.negMul (Spec.bfvDecode l.t.value (Spec.prodL (c01p_qvals l)) (Spec.phase (c01p_qvals l) l.n sk a.polys.toList))
            (Spec.bfvDecode l.t.value (Spec.prodL (c01p_qvals l)) (Spec.phase (c01p_qvals l) l.n sk b.polys.toList))
            l.t.value) := by
  have hK : l.size ≤ 64 := by rw [← c02w_base_size hm]; exact hm.tool.qwf.le64
  have hG : c02x_G l.n l.t.value l.size (∑ k ∈ range l.n, (sk.getD k 0).natAbs) a.polys.size b.polys.size
      ≤ 2^(34 + (lt + 2 * l.k + 8)) := by
    rw [h1, h2]
    refine le_trans (c02x_G_2x2 (c01q_n_pos hm.lwf) (Nat.one_le_two_pow) hlt hK hS) ?_
    rw [hm.lwf.npow, ← pow_mul, ← pow_add, ← pow_add]
    exact Nat.pow_le_pow_right (by norm_num) (by omega)
  have hwin' : c02w_Window l a.polys.size b.polys.size := by rw [h1, h2]; exact hwin
  constructor
  · have hQ : 0 < Spec.prodL (c01p_qvals l) := by rw [c02x_prodL hm]; exact hm.tool.qwf.prod_pos
    have hbud := bfvMultiply_budget hm ha hb hna hnb (by omega) (by omega) hwin' hr hsk _ hG
    have hha := c02x_bitCount_half hQ (c02x_noiseNorm_half l.t.value hQ (Spec.phase (c01p_qvals l) l.n sk a.polys.toList))
    rw [budget_eq, budget_eq, budget_eq] at hbud ⊢
    omega
  · intro hβ
    exact bfvMultiply_decode_of_budget hm ht ha hb hna hnb (by omega) (by omega) hwin' hr hsk _ hG (by omega)

/-- X3 with every hypothesis bundle discharged from the model's constructors (`RNSBase.new`, `RNSTool.new`, `NTTTables.new`; at most
    62 moduli, auxiliary moduli ≥ 2^61 − 2^54, `min(n_a, n_b)·N ≤ 2^30`): decryption of the product is the negacyclic product of the
    operands' exact decodings whenever the noise bound satisfies `F ≤ (2^33 − 1)·Q` (`‖ν_mul‖∞ ≤ Q/2·(1 − 2^-33)`; the BEHZ
    γ-correction costs nothing more because γ > 2^60) -/
theorem bfvDecrypt_bfvMultiply_of_new {l : Level} {T : Array NTTTables} {q : RNSBase} {aux : List Modulus}
    (hl : l.WF) (hlen : l.qs.size ≤ 62) (hk : l.k ≤ 60) (ht : l.t.WF) (htb : l.t.value < 2^l.t.bits)
    (haux : ∀ m ∈ aux, m.WF ∧ 2^61 - 2^54 ≤ m.value)
    (hq : RNSBase.new l.qs.toList = .ok q) (h : RNSTool.new l.n q l.t aux = .ok l.tool)
    (hT : ∀ i, i < l.tool.baseBsk.size → ∃ pr root0, root0 < 2^64 ∧
      NTTTables.new l.k (l.tool.baseBsk.q i) pr root0 = .ok (T.getD i default))
    {a b r : Ct}
    (ha : ∀ k, k < a.polys.size → RnsCanon l (a.polys.getD k #[]))
    (hb : ∀ k, k < b.polys.size → RnsCanon l (b.polys.getD k #[]))
    (hna : a.ntt = false) (hnb : b.ntt = false) (h1 : 1 ≤ a.polys.size) (h2 : 1 ≤ b.polys.size)
    (h3 : 3 ≤ a.polys.size + b.polys.size) (hPN : min a.polys.size b.polys.size * l.n ≤ 2^30)
    (hr : bfvMultiply l T a b = .ok r)
    {sk : Array Int} (hsk : sk.size = l.n) {Va Vb : Nat}
    (hVa : c02x_NoiseLe l.t.value (Spec.prodL (c01p_qvals l)) (Spec.phase (c01p_qvals l) l.n sk a.polys.toList) l.n Va)
    (hVb : c02x_NoiseLe l.t.value (Spec.prodL (c01p_qvals l)) (Spec.phase (c01p_qvals l) l.n sk b.polys.toList) l.n Vb)
    (h2a : 2 * Va < Spec.prodL (c01p_qvals l)) (h2b : 2 * Vb < Spec.prodL (c01p_qvals l))
    (hF : c02x_F l.n l.t.value l.size (∑ k ∈ range l.n, (sk.getD k 0).natAbs) a.polys.size b.polys.size Va Vb
      ≤ (2^33 - 1) * Spec.prodL (c01p_qvals l)) :
    bfvDecrypt l sk r = .ok (Spec.trim
      (Spec.negMul (Spec.bfvDecode l.t.value (Spec.prodL (c01p_qvals l)) (Spec.phase (c01p_qvals l) l.n sk a.polys.toList))
          (Spec.bfvDecode l.t.value (Spec.prodL (c01p_qvals l)) (Spec.phase (c01p_qvals l) l.n sk b.polys.toList))
          l.t.value)) := by
  have haux' : ∀ m ∈ aux, m.WF ∧ 2^32 ≤ m.value := fun m hm => ⟨(haux m hm).1, le_trans (by norm_num) (haux m hm).2⟩
  have hm := c02w_mulOK_of_new hl hlen hk ht haux' hq h hT
  have hmw : ∀ m ∈ l.qs.toList, m.WF := by
    intro m hm'
    obtain ⟨i, hi, rfl⟩ := Array.mem_iff_getElem.mp (Array.mem_toList_iff.mp hm')
    have := (c01o_level_comp hl (i := i) hi).2.2.2
    unfold Level.q at this
    simpa [Array.getD, hi] using this
  obtain ⟨hqwf, hqbase⟩ := RNSBase.new_wf hmw (by simpa using (by omega : l.qs.size ≤ 64)) hq
  have hqs : q.size ≤ 62 := by unfold RNSBase.size; rw [hqbase]; simpa using hlen
  have hd := c01p_decOK_of_new hmw (by omega) ht (fun m hm => (haux m hm).1) hq h
  have hwin := c02w_window_of_new hqwf hqs ht htb haux h hPN
  have hg : 2^40 ≤ l.tool.gamma.value := le_trans (by norm_num) (haux _ (c02x_gamma_of_new ht h)).2
  have hK : l.size ≤ 64 := by rw [← c02w_base_size hm]; exact hm.tool.qwf.le64
  have ht0 : 0 < l.t.value := by have := ht.two_le; omega
  exact bfvDecrypt_bfvMultiply hm hd ht0 ha hb hna hnb h1 h2 h3 hwin hr hsk hVa hVb h2a h2b
    (c02x_threshold_of_gamma hg hK hF)

/-- X2, the worst-case-sound form of the product rule for ANY operand sizes `n_a, n_b ≥ 2` (secret with `‖s‖₁ ≤ N`, `N = 2^k ≥ 2`,
    `t ≤ 2^lt`): (i) `budget(result) ≥ min(budget a, budget b) − (lt + (n_a+n_b−2)·k + 9)`; (ii) decoding of the product is exact
    whenever `min(budget a, budget b) ≥ lt + (n_a+n_b−2)·k + 10`.  The harness rule subtracts `lt + 2k + 10 + n_a + n_b`; it is
    covered by this worst-case bound exactly when `(n_a+n_b−4)·k ≤ n_a+n_b` (always for 2 × 2, see `pred_mul_sound_2x2`). -/
theorem pred_mul_sound_general {l : Level} {T : Array NTTTables} (hm : MulOK l T) (ht : 0 < l.t.value) {a b r : Ct}
    (ha : ∀ k, k < a.polys.size → RnsCanon l (a.polys.getD k #[]))
    (hb : ∀ k, k < b.polys.size → RnsCanon l (b.polys.getD k #[]))
    (hna : a.ntt = false) (hnb : b.ntt = false) (h1 : 2 ≤ a.polys.size) (h2 : 2 ≤ b.polys.size)
    (hwin : c02w_Window l a.polys.size b.polys.size) (hr : bfvMultiply l T a b = .ok r)
    {sk : Array Int} (hsk : sk.size = l.n) (hS : ∑ k ∈ range l.n, (sk.getD k 0).natAbs ≤ l.n) (hk1 : 1 ≤ l.k)
    {lt : Nat} (hlt : l.t.value ≤ 2^lt) :
    (min (Spec.budget true l.t.value (Spec.prodL (c01p_qvals l)) (Spec.phase (c01p_qvals l) l.n sk a.polys.toList))
         (Spec.budget true l.t.value (Spec.prodL (c01p_qvals l)) (Spec.phase (c01p_qvals l) l.n sk b.polys.toList))
      ≤ Spec.budget true l.t.value (Spec.prodL (c01p_qvals l)) (Spec.phase (c01p_qvals l) l.n sk r.polys.toList)
          + (lt + (a.polys.size + b.polys.size - 2) * l.k + 9)) ∧
    (lt + (a.polys.size + b.polys.size - 2) * l.k + 10 ≤ min
        (Spec.budget true l.t.value (Spec.prodL (c01p_qvals l)) (Spec.phase (c01p_qvals l) l.n sk a.polys.toList))
        (Spec.budget true l.t.value (Spec.prodL (c01p_qvals l)) (Spec.phase (c01p_qvals l) l.n sk b.polys.toList)) →
      Spec.bfvDecode l.t.value (Spec.prodL (c01p_qvals l)) (Spec.phase (c01p_qvals l) l.n sk r.polys.toList)
        = Spec.negMul (Spec.bfvDecode l.t.value (Spec.prodL (c01p_qvals l)) (Spec.phase (c01p_qvals l) l.n sk a.polys.toList))
            (Spec.bfvDecode l.t.value (Spec.prodL (c01p_qvals l)) (Spec.phase (c01p_qvals l) l.n sk b.polys.toList))
            l.t.value) := by
  have hK : l.size ≤ 64 := by rw [← c02w_base_size hm]; exact hm.tool.qwf.le64
  have hN2 : 2 ≤ l.n := by
    rw [hm.lwf.npow]
    calc 2 = 2^1 := rfl
      _ ≤ 2^l.k := Nat.pow_le_pow_right (by norm_num) hk1
  have hG : c02x_G l.n l.t.value l.size (∑ k ∈ range l.n, (sk.getD k 0).natAbs) a.polys.size b.polys.size
      ≤ 2^(34 + (lt + (a.polys.size + b.polys.size - 2) * l.k + 8)) := by
    refine le_trans (c02x_G_general hN2 (Nat.one_le_two_pow) hlt hK hS h1 h2) ?_
    rw [hm.lwf.npow, ← pow_mul, ← pow_add, ← pow_add]
    apply Nat.pow_le_pow_right (by norm_num)
    rw [Nat.mul_comm l.k]
    omega
  constructor
  · have hQ : 0 < Spec.prodL (c01p_qvals l) := by rw [c02x_prodL hm]; exact hm.tool.qwf.prod_pos
    have hbud := bfvMultiply_budget hm ha hb hna hnb (by omega) (by omega) hwin hr hsk _ hG
    have hha := c02x_bitCount_half hQ (c02x_noiseNorm_half l.t.value hQ (Spec.phase (c01p_qvals l) l.n sk a.polys.toList))
    rw [budget_eq, budget_eq, budget_eq] at hbud ⊢
    omega
  · intro hβ
    exact bfvMultiply_decode_of_budget hm ht ha hb hna hnb (by omega) (by omega) hwin hr hsk _ hG (by omega)

/-- X3 from budgets (ANY sizes): with `G ≤ 2^(34+L)`, both operand budgets `≥ L + 3` bits and γ ≥ 2^40, the model's decryption
    of the model's product is the negacyclic product modulo t of the operands' exact decodings -/
theorem bfvDecrypt_bfvMultiply_of_budget {l : Level} {T : Array NTTTables} (hm : MulOK l T) (hd : DecOK l)
    (ht : 0 < l.t.value) (hγ : 2^40 ≤ l.tool.gamma.value) {a b r : Ct}
    (ha : ∀ k, k < a.polys.size → RnsCanon l (a.polys.getD k #[]))
    (hb : ∀ k, k < b.polys.size → RnsCanon l (b.polys.getD k #[]))
    (hna : a.ntt = false) (hnb : b.ntt = false) (h1 : 1 ≤ a.polys.size) (h2 : 1 ≤ b.polys.size)
    (h3 : 3 ≤ a.polys.size + b.polys.size)
    (hwin : c02w_Window l a.polys.size b.polys.size) (hr : bfvMultiply l T a b = .ok r)
    {sk : Array Int} (hsk : sk.size = l.n) (L : Nat)
    (hG : c02x_G l.n l.t.value l.size (∑ k ∈ range l.n, (sk.getD k 0).natAbs) a.polys.size b.polys.size ≤ 2^(34 + L))
    (hβ : L + 3 ≤ min
      (Spec.budget true l.t.value (Spec.prodL (c01p_qvals l)) (Spec.phase (c01p_qvals l) l.n sk a.polys.toList))
      (Spec.budget true l.t.value (Spec.prodL (c01p_qvals l)) (Spec.phase (c01p_qvals l) l.n sk b.polys.toList))) :
    bfvDecrypt l sk r = .ok (Spec.trim
      (Spec.negMul (Spec.bfvDecode l.t.value (Spec.prodL (c01p_qvals l)) (Spec.phase (c01p_qvals l) l.n sk a.polys.toList))
          (Spec.bfvDecode l.t.value (Spec.prodL (c01p_qvals l)) (Spec.phase (c01p_qvals l) l.n sk b.polys.toList))
          l.t.value)) := by
  have hQ : 0 < Spec.prodL (c01p_qvals l) := by rw [c02x_prodL hm]; exact hm.tool.qwf.prod_pos
  have hK : l.size ≤ 64 := by rw [← c02w_base_size hm]; exact hm.tool.qwf.le64
  rw [budget_eq, budget_eq] at hβ
  obtain ⟨f1, f2, f3⟩ := c02x_budget_arith (e := 1) hQ (c02x_F_le_G _ _ _ _ _ _ _ _) hG (by omega)
  refine bfvDecrypt_bfvMultiply hm hd ht ha hb hna hnb h1 h2 h3 hwin hr hsk
    (fun j _ => c07l_getD_le true _ _ _ j) (fun j _ => c07l_getD_le true _ _ _ j) f2 f3
    (c02x_threshold_of_gamma hγ hK ?_)
  have e : (2^33 - 1 : Nat) = 2^32 + (2^32 - 1) := by norm_num
  rw [e, Nat.add_mul]
  rw [pow_one] at f1
  have : 2^33 * Spec.prodL (c01p_qvals l) = 2 * (2^32 * Spec.prodL (c01p_qvals l)) := by ring
  omega

/-- X3, end to end for two size-2 ciphertexts on a level built by the model's constructors, in the terms of the harness rule:
    whenever both operand budgets are at least `lt + 2k + 11` bits (in particular whenever `Prog::pred_mul`, which subtracts
    `lt + 2k + 14`, predicts ≥ 1 bit from lower bounds of the operand budgets), `bfvDecrypt (bfvMultiply a b)` succeeds and equals
    `trim (decode a ⋆ decode b mod (X^N+1, t))` -/
theorem pred_mul_decrypt_2x2_of_new {l : Level} {T : Array NTTTables} {q : RNSBase} {aux : List Modulus}
    (hl : l.WF) (hlen : l.qs.size ≤ 62) (hk : l.k ≤ 29) (ht : l.t.WF) (htb : l.t.value < 2^l.t.bits)
    (haux : ∀ m ∈ aux, m.WF ∧ 2^61 - 2^54 ≤ m.value)
    (hq : RNSBase.new l.qs.toList = .ok q) (h : RNSTool.new l.n q l.t aux = .ok l.tool)
    (hT : ∀ i, i < l.tool.baseBsk.size → ∃ pr root0, root0 < 2^64 ∧
      NTTTables.new l.k (l.tool.baseBsk.q i) pr root0 = .ok (T.getD i default))
    {a b r : Ct}
    (ha : ∀ k, k < a.polys.size → RnsCanon l (a.polys.getD k #[]))
    (hb : ∀ k, k < b.polys.size → RnsCanon l (b.polys.getD k #[]))
    (hna : a.ntt = false) (hnb : b.ntt = false) (h1 : a.polys.size = 2) (h2 : b.polys.size = 2)
    (hr : bfvMultiply l T a b = .ok r)
    {sk : Array Int} (hsk : sk.size = l.n) (hS : ∑ k ∈ range l.n, (sk.getD k 0).natAbs ≤ l.n)
    {lt : Nat} (hlt : l.t.value ≤ 2^lt)
    (hβ : lt + 2 * l.k + 11 ≤ min
      (Spec.budget true l.t.value (Spec.prodL (c01p_qvals l)) (Spec.phase (c01p_qvals l) l.n sk a.polys.toList))
      (Spec.budget true l.t.value (Spec.prodL (c01p_qvals l)) (Spec.phase (c01p_qvals l) l.n sk b.polys.toList))) :
    bfvDecrypt l sk r = .ok (Spec.trim
      (Spec.negMul (Spec.bfvDecode l.t.value (Spec.prodL (c01p_qvals l)) (Spec.phase (c01p_qvals l) l.n sk a.polys.toList))
          (Spec.bfvDecode l.t.value (Spec.prodL (c01p_qvals l)) (Spec.phase (c01p_qvals l) l.n sk b.polys.toList))
          l.t.value)) := by
  have haux' : ∀ m ∈ aux, m.WF ∧ 2^32 ≤ m.value := fun m hm => ⟨(haux m hm).1, le_trans (by norm_num) (haux m hm).2⟩
  have hm := c02w_mulOK_of_new hl hlen (by omega) ht haux' hq h hT
  have hmw : ∀ m ∈ l.qs.toList, m.WF := by
    intro m hm'
    obtain ⟨i, hi, rfl⟩ := Array.mem_iff_getElem.mp (Array.mem_toList_iff.mp hm')
    have := (c01o_level_comp hl (i := i) hi).2.2.2
    unfold Level.q at this
    simpa [Array.getD, hi] using this
  obtain ⟨hqwf, hqbase⟩ := RNSBase.new_wf hmw (by simpa using (by omega : l.qs.size ≤ 64)) hq
  have hqs : q.size ≤ 62 := by unfold RNSBase.size; rw [hqbase]; simpa using hlen
  have hd := c01p_decOK_of_new hmw (by omega) ht (fun m hm => (haux m hm).1) hq h
  have hPN : min a.polys.size b.polys.size * l.n ≤ 2^30 := by
    rw [h1, h2, hl.npow]
    calc min 2 2 * 2^l.k = 2^(l.k + 1) := by rw [pow_succ]; simp [Nat.mul_comm]
      _ ≤ 2^30 := Nat.pow_le_pow_right (by norm_num) (by omega)
  have hwin := c02w_window_of_new hqwf hqs ht htb haux h hPN
  have hg : 2^40 ≤ l.tool.gamma.value := le_trans (by norm_num) (haux _ (c02x_gamma_of_new ht h)).2
  have hK : l.size ≤ 64 := by rw [← c02w_base_size hm]; exact hm.tool.qwf.le64
  have ht0 : 0 < l.t.value := by have := ht.two_le; omega
  have hG : c02x_G l.n l.t.value l.size (∑ k ∈ range l.n, (sk.getD k 0).natAbs) a.polys.size b.polys.size
      ≤ 2^(34 + (lt + 2 * l.k + 8)) := by
    rw [h1, h2]
    refine le_trans (c02x_G_2x2 (c01q_n_pos hl) (Nat.one_le_two_pow) hlt hK hS) ?_
    rw [hl.npow, ← pow_mul, ← pow_add, ← pow_add]
    exact Nat.pow_le_pow_right (by norm_num) (by omega)
  exact bfvDecrypt_bfvMultiply_of_budget hm hd ht0 hg ha hb hna hnb (by omega) (by omega) (by omega) hwin hr hsk _ hG
    (by omega)

/-- `c02x_NoiseLe` is always satisfied by the norm `Spec.budget` is computed from -/
theorem c02x_noiseLe_norm (t Q : Nat) (ph : Spec.ZPoly) (n : Nat) : c02x_NoiseLe t Q ph n (noiseNorm true t Q ph) :=
  fun j _ => c07l_getD_le true t Q ph j

/-- X2, budget form with the multiplicative and the additive (BEHZ) parts separated (ANY sizes): if `c02x_G1 ≤ 2^(34+L1)` and
    `2^34·t·|q|·G_r ≤ 2^(34+L2)` then `budget(result) ≥ min(budget a, budget b) − L1 − 1` or `budget(result) ≥ bits(Q) − L2 − 3`
    (i.e. `budget(result) ≥ min(min(budget a, budget b) − L1 − 1, bits(Q) − L2 − 3)`) -/
theorem bfvMultiply_budget_split {l : Level} {T : Array NTTTables} (hm : MulOK l T) {a b r : Ct}
    (ha : ∀ k, k < a.polys.size → RnsCanon l (a.polys.getD k #[]))
    (hb : ∀ k, k < b.polys.size → RnsCanon l (b.polys.getD k #[]))
    (hna : a.ntt = false) (hnb : b.ntt = false) (h1 : 1 ≤ a.polys.size) (h2 : 1 ≤ b.polys.size)
    (hwin : c02w_Window l a.polys.size b.polys.size) (hr : bfvMultiply l T a b = .ok r)
    {sk : Array Int} (hsk : sk.size = l.n) (L1 L2 : Nat)
    (hG : c02x_G1 l.n l.t.value l.size (∑ k ∈ range l.n, (sk.getD k 0).natAbs) a.polys.size b.polys.size ≤ 2^(34 + L1))
    (hC : 2 * 2^33 * l.t.value * (l.size * c02x_geo (∑ k ∈ range l.n, (sk.getD k 0).natAbs) (a.polys.size + b.polys.size - 1))
      ≤ 2^(34 + L2)) :
    min (Spec.budget true l.t.value (Spec.prodL (c01p_qvals l)) (Spec.phase (c01p_qvals l) l.n sk a.polys.toList))
        (Spec.budget true l.t.value (Spec.prodL (c01p_qvals l)) (Spec.phase (c01p_qvals l) l.n sk b.polys.toList))
      ≤ Spec.budget true l.t.value (Spec.prodL (c01p_qvals l)) (Spec.phase (c01p_qvals l) l.n sk r.polys.toList) + L1 + 1 ∨
    bitCount (Spec.prodL (c01p_qvals l))
      ≤ Spec.budget true l.t.value (Spec.prodL (c01p_qvals l)) (Spec.phase (c01p_qvals l) l.n sk r.polys.toList) + L2 + 3 := by
  have hQ : 0 < Spec.prodL (c01p_qvals l) := by rw [c02x_prodL hm]; exact hm.tool.qwf.prod_pos
  obtain ⟨r', hr', hsz, -, -, hcanr, -⟩ := bfvMultiply_ok hm ha hb hna hnb h1 h2 (bfvMultiply_ok_size hr)
  rw [hr] at hr'
  obtain rfl := Except.ok.inj hr'
  have hsr := c02x_phase_size hm sk (by rw [hsz]; omega) (fun k hk => hcanr k (by rw [← hsz]; exact hk))
  rw [budget_eq, budget_eq, budget_eq]
  have hnoise := bfvMultiply_noise hm ha hb hna hnb h1 h2 hwin hr hsk
    (c02x_noiseLe_norm _ _ _ _) (c02x_noiseLe_norm _ _ _ _)
  have ha1 := c02x_bitCount_half hQ (c02x_noiseNorm_half l.t.value hQ (Spec.phase (c01p_qvals l) l.n sk a.polys.toList))
  have hb1 := c02x_bitCount_half hQ (c02x_noiseNorm_half l.t.value hQ (Spec.phase (c01p_qvals l) l.n sk b.polys.toList))
  generalize noiseNorm true l.t.value (Spec.prodL (c01p_qvals l)) (Spec.phase (c01p_qvals l) l.n sk a.polys.toList) = Va at *
  generalize noiseNorm true l.t.value (Spec.prodL (c01p_qvals l)) (Spec.phase (c01p_qvals l) l.n sk b.polys.toList) = Vb at *
  have hnr : noiseNorm true l.t.value (Spec.prodL (c01p_qvals l)) (Spec.phase (c01p_qvals l) l.n sk r.polys.toList)
      ≤ 2^L1 * max Va Vb + 2^L2 := by
    apply c02x_noiseNorm_le
    intro j hj
    obtain ⟨μ, ν, e1, -, e3⟩ := hnoise j (by rw [← hsr]; exact hj)
    refine le_trans (c02x_v_le_any hQ e1) ?_
    have h4 := le_trans e3 (c02x_F_le_G1 _ _ _ _ _ _ Va Vb)
    have h5 := Nat.mul_le_mul_right (max Va Vb) hG
    have h6 : 2^34 * ν.natAbs ≤ 2^34 * (2^L1 * max Va Vb + 2^L2) := by
      rw [Nat.mul_add, ← Nat.mul_assoc, ← pow_add, ← pow_add]
      have : 2^34 * ν.natAbs = 2 * 2^33 * ν.natAbs := by norm_num
      omega
    exact Nat.le_of_mul_le_mul_left h6 (by positivity)
  have hbr : bitCount (noiseNorm true l.t.value (Spec.prodL (c01p_qvals l)) (Spec.phase (c01p_qvals l) l.n sk r.polys.toList))
      ≤ max (L1 + max (bitCount Va) (bitCount Vb)) (L2 + 1) + 1 := by
    refine le_trans (bitCount_mono hnr) ?_
    rw [bitCount_le_iff]
    have hv := c02x_bitCount_lt (max Va Vb)
    rw [c02x_bitCount_max2] at hv
    have k1 : 2^L1 * max Va Vb < 2^(L1 + max (bitCount Va) (bitCount Vb)) := by
      rw [pow_add]; exact Nat.mul_lt_mul_of_pos_left hv (by positivity)
    have k2 : 2^(L1 + max (bitCount Va) (bitCount Vb)) ≤ 2^(max (L1 + max (bitCount Va) (bitCount Vb)) (L2 + 1)) :=
      Nat.pow_le_pow_right (by norm_num) (le_max_left _ _)
    have k3 : 2^L2 < 2^(L2 + 1) := Nat.pow_lt_pow_right (by norm_num) (by omega)
    have k4 : 2^(L2 + 1) ≤ 2^(max (L1 + max (bitCount Va) (bitCount Vb)) (L2 + 1)) :=
      Nat.pow_le_pow_right (by norm_num) (le_max_right _ _)
    rw [pow_succ]
    omega
  omega

/-- X2 from budgets, split form (ANY sizes): `c02x_G1 ≤ 2^(34+L1)`, additive part `≤ 2^(34+L2)`, both operand budgets `≥ L1 + 2`
    and `bits(Q) ≥ L2 + 3` give exact decoding of the product -/
theorem bfvMultiply_decode_of_budget_split {l : Level} {T : Array NTTTables} (hm : MulOK l T) (ht : 0 < l.t.value) {a b r : Ct}
    (ha : ∀ k, k < a.polys.size → RnsCanon l (a.polys.getD k #[]))
    (hb : ∀ k, k < b.polys.size → RnsCanon l (b.polys.getD k #[]))
    (hna : a.ntt = false) (hnb : b.ntt = false) (h1 : 1 ≤ a.polys.size) (h2 : 1 ≤ b.polys.size)
    (hwin : c02w_Window l a.polys.size b.polys.size) (hr : bfvMultiply l T a b = .ok r)
    {sk : Array Int} (hsk : sk.size = l.n) (L1 L2 : Nat)
    (hG : c02x_G1 l.n l.t.value l.size (∑ k ∈ range l.n, (sk.getD k 0).natAbs) a.polys.size b.polys.size ≤ 2^(34 + L1))
    (hC : 2 * 2^33 * l.t.value * (l.size * c02x_geo (∑ k ∈ range l.n, (sk.getD k 0).natAbs) (a.polys.size + b.polys.size - 1))
      ≤ 2^(34 + L2))
    (hβ : L1 + 2 ≤ min
      (Spec.budget true l.t.value (Spec.prodL (c01p_qvals l)) (Spec.phase (c01p_qvals l) l.n sk a.polys.toList))
      (Spec.budget true l.t.value (Spec.prodL (c01p_qvals l)) (Spec.phase (c01p_qvals l) l.n sk b.polys.toList)))
    (hQ2 : L2 + 3 ≤ bitCount (Spec.prodL (c01p_qvals l))) :
    Spec.bfvDecode l.t.value (Spec.prodL (c01p_qvals l)) (Spec.phase (c01p_qvals l) l.n sk r.polys.toList)
      = Spec.negMul (Spec.bfvDecode l.t.value (Spec.prodL (c01p_qvals l)) (Spec.phase (c01p_qvals l) l.n sk a.polys.toList))
          (Spec.bfvDecode l.t.value (Spec.prodL (c01p_qvals l)) (Spec.phase (c01p_qvals l) l.n sk b.polys.toList))
          l.t.value := by
  have hQ : 0 < Spec.prodL (c01p_qvals l) := by rw [c02x_prodL hm]; exact hm.tool.qwf.prod_pos
  rw [budget_eq, budget_eq] at hβ
  obtain ⟨f1, f2, f3⟩ := c02x_budget_arith_split hQ (c02x_F_le_G1 _ _ _ _ _ _ _ _) hG hC hβ hQ2
  exact bfvMultiply_decode hm ht ha hb hna hnb h1 h2 hwin hr hsk
    (c02x_noiseLe_norm _ _ _ _) (c02x_noiseLe_norm _ _ _ _) f2 f3 f1

/-- X2, the harness rule `Prog::pred_mul` is SOUND for the directed shapes of the harness (2×2, 3×2, 2×3), for at most 8 moduli,
    `N = 2^k` with `1 ≤ k ≤ 8`, `‖s‖₁ ≤ N`, `t ≤ 2^lt`:
    (i) the rule's value `p = min(budget a, budget b) − (lt + 2k + 10 + n_a + n_b)` is a LOWER BOUND of the true budget of the product;
    (ii) when the rule predicts at least one bit the decoding of the product is exact. -/
theorem pred_mul_sound_small {l : Level} {T : Array NTTTables} (hm : MulOK l T) (ht : 0 < l.t.value) {a b r : Ct}
    (ha : ∀ k, k < a.polys.size → RnsCanon l (a.polys.getD k #[]))
    (hb : ∀ k, k < b.polys.size → RnsCanon l (b.polys.getD k #[]))
    (hna : a.ntt = false) (hnb : b.ntt = false) (h1 : 2 ≤ a.polys.size) (h2 : 2 ≤ b.polys.size)
    (h5 : a.polys.size + b.polys.size ≤ 5)
    (hwin : c02w_Window l a.polys.size b.polys.size) (hr : bfvMultiply l T a b = .ok r)
    {sk : Array Int} (hsk : sk.size = l.n) (hS : ∑ k ∈ range l.n, (sk.getD k 0).natAbs ≤ l.n)
    (hk1 : 1 ≤ l.k) (hk8 : l.k ≤ 8) (hK8 : l.size ≤ 8) {lt : Nat} (hlt : l.t.value ≤ 2^lt) :
    (∀ p, p + (lt + 2 * l.k + 10 + (a.polys.size + b.polys.size)) ≤ min
        (Spec.budget true l.t.value (Spec.prodL (c01p_qvals l)) (Spec.phase (c01p_qvals l) l.n sk a.polys.toList))
        (Spec.budget true l.t.value (Spec.prodL (c01p_qvals l)) (Spec.phase (c01p_qvals l) l.n sk b.polys.toList)) →
      p ≤ Spec.budget true l.t.value (Spec.prodL (c01p_qvals l)) (Spec.phase (c01p_qvals l) l.n sk r.polys.toList)) ∧
    (1 + (lt + 2 * l.k + 10 + (a.polys.size + b.polys.size)) ≤ min
        (Spec.budget true l.t.value (Spec.prodL (c01p_qvals l)) (Spec.phase (c01p_qvals l) l.n sk a.polys.toList))
        (Spec.budget true l.t.value (Spec.prodL (c01p_qvals l)) (Spec.phase (c01p_qvals l) l.n sk b.polys.toList)) →
      Spec.bfvDecode l.t.value (Spec.prodL (c01p_qvals l)) (Spec.phase (c01p_qvals l) l.n sk r.polys.toList)
        = Spec.negMul (Spec.bfvDecode l.t.value (Spec.prodL (c01p_qvals l)) (Spec.phase (c01p_qvals l) l.n sk a.polys.toList))
            (Spec.bfvDecode l.t.value (Spec.prodL (c01p_qvals l)) (Spec.phase (c01p_qvals l) l.n sk b.polys.toList))
            l.t.value) := by
  have hK : l.size ≤ 64 := by omega
  have hN2 : 2 ≤ l.n := by
    rw [hm.lwf.npow]
    calc 2 = 2^1 := rfl
      _ ≤ 2^l.k := Nat.pow_le_pow_right (by norm_num) hk1
  have hTN : (2:Nat)^lt * l.n^3 = 2^(lt + 3 * l.k) := by
    rw [hm.lwf.npow, ← pow_mul, ← pow_add]; congr 1; ring
  have hG : c02x_G1 l.n l.t.value l.size (∑ k ∈ range l.n, (sk.getD k 0).natAbs) a.polys.size b.polys.size
      ≤ 2^(34 + (lt + 3 * l.k + 2)) := by
    refine le_trans (c02x_G1_small hN2 (Nat.one_le_two_pow) hlt hK hS (by omega) (by omega)) ?_
    rw [hTN, ← pow_add]
    exact Nat.pow_le_pow_right (by norm_num) (by omega)
  have hC : 2 * 2^33 * l.t.value * (l.size * c02x_geo (∑ k ∈ range l.n, (sk.getD k 0).natAbs) (a.polys.size + b.polys.size - 1))
      ≤ 2^(34 + (lt + 3 * l.k + 4)) := by
    refine le_trans (c02x_C_small hN2 hlt hK8 hS (by omega)) ?_
    rw [hTN, ← pow_add]
    exact Nat.pow_le_pow_right (by norm_num) (by omega)
  have hQ : 0 < Spec.prodL (c01p_qvals l) := by rw [c02x_prodL hm]; exact hm.tool.qwf.prod_pos
  have hha := c02x_bitCount_half hQ (c02x_noiseNorm_half l.t.value hQ (Spec.phase (c01p_qvals l) l.n sk a.polys.toList))
  constructor
  · intro p hp
    have hsp := bfvMultiply_budget_split hm ha hb hna hnb (by omega) (by omega) hwin hr hsk _ _ hG hC
    rw [budget_eq, budget_eq, budget_eq] at hsp
    rw [budget_eq, budget_eq] at hp
    rw [budget_eq]
    omega
  · intro hβ
    refine bfvMultiply_decode_of_budget_split hm ht ha hb hna hnb (by omega) (by omega) hwin hr hsk _ _ hG hC (by omega) ?_
    rw [budget_eq, budget_eq] at hβ
    omega

/-- X1, chaining form: the invariant noise of the product (the quantity `Spec.budget` measures) is bounded by `F / 2^34`, so the
    result can be fed to the next `bfvMultiply_noise` -/
theorem bfvMultiply_noiseLe {l : Level} {T : Array NTTTables} (hm : MulOK l T) {a b r : Ct}
    (ha : ∀ k, k < a.polys.size → RnsCanon l (a.polys.getD k #[]))
    (hb : ∀ k, k < b.polys.size → RnsCanon l (b.polys.getD k #[]))
    (hna : a.ntt = false) (hnb : b.ntt = false) (h1 : 1 ≤ a.polys.size) (h2 : 1 ≤ b.polys.size)
    (hwin : c02w_Window l a.polys.size b.polys.size) (hr : bfvMultiply l T a b = .ok r)
    {sk : Array Int} (hsk : sk.size = l.n) {Va Vb : Nat}
    (hVa : c02x_NoiseLe l.t.value (Spec.prodL (c01p_qvals l)) (Spec.phase (c01p_qvals l) l.n sk a.polys.toList) l.n Va)
    (hVb : c02x_NoiseLe l.t.value (Spec.prodL (c01p_qvals l)) (Spec.phase (c01p_qvals l) l.n sk b.polys.toList) l.n Vb) :
    c02x_NoiseLe l.t.value (Spec.prodL (c01p_qvals l)) (Spec.phase (c01p_qvals l) l.n sk r.polys.toList) l.n
      (c02x_F l.n l.t.value l.size (∑ k ∈ range l.n, (sk.getD k 0).natAbs) a.polys.size b.polys.size Va Vb / (2 * 2^33)) := by
  intro c hc
  have hQ : 0 < Spec.prodL (c01p_qvals l) := by rw [c02x_prodL hm]; exact hm.tool.qwf.prod_pos
  obtain ⟨μ, ν, e1, -, e3⟩ := bfvMultiply_noise hm ha hb hna hnb h1 h2 hwin hr hsk hVa hVb c hc
  refine le_trans (c02x_v_le_any hQ e1) ?_
  rw [Nat.le_div_iff_mul_le (by positivity)]
  rw [Nat.mul_comm]; exact e3

/-- why X3 needs `n_a + n_b ≥ 3`: the product of two single-polynomial operands would have size 1, which `resize` refuses (as in
    the code: `[Invalid argument] Size invalid.`), so nothing reaches decryption — for every level and all operands -/
theorem bfvDecrypt_bfvMultiply_refuses_1x1 (l : Level) (T : Array NTTTables) (a b : Ct)
    (h1 : a.polys.size = 1) (h2 : b.polys.size = 1) (sk : Array Int) :
    bfvMultiply l T a b = .error .refused ∧ (bfvMultiply l T a b >>= bfvDecrypt l sk) = .error .refused := by
  have h : bfvMultiply l T a b = .error .refused :=
    bfvMultiply_refuse_size l T a b (by rw [h1, h2, ctResizeRefuses_eq_true_iff]; omega)
  exact ⟨h, by rw [h]; rfl⟩

/-- refusal: operands in NTT form never reach decryption -/
theorem bfvDecrypt_bfvMultiply_refuses_ntt (l : Level) (T : Array NTTTables) (a b : Ct) (sk : Array Int)
    (h : a.ntt = true ∨ b.ntt = true) :
    (bfvMultiply l T a b >>= bfvDecrypt l sk) = .error .refused := by
  rw [bfvMultiply_refuse_ntt l T a b h]; rfl

/-! ### satisfiability of the numeric thresholds (N = 4096, t = 65537, three moduli, worst-case ternary secret ‖s‖₁ = N,
    operand noises ≤ 2^40, Q = 2^109): the X2/X3 threshold holds with a wide margin, and so does the 2 × 2 growth-factor bound -/

theorem c02x_threshold_example :
    c02x_F 4096 65537 3 4096 2 2 (2^40) (2^40) ≤ (2^33 - 1) * 2^109 ∧
    c02x_G 4096 65537 3 4096 2 2 ≤ 2^(34 + (17 + 2 * 12 + 8)) := by
  constructor <;> decide

end HC
