import Heathcliff.Model.Evaluator
import Mathlib.Tactic.Linarith
import Mathlib.Tactic.Positivity
import Mathlib.Tactic.Ring
import Mathlib.Tactic.NormNum

/-!
  C03, scale agreement: the exact-arithmetic model `areCloseDy` of `util::are_close_f64` accepts identical scales, is symmetric, and refuses
  every pair whose relative difference is at least 2^-45 — in particular a rescaled product (scale s²/q) against the nominal scale s whenever
  the dropped prime is not within 2^-45 of s.  Helper names start with `c03t_`.
-/
namespace HC

theorem c03t_closeInts_self (a one : Int) (h : 0 < one) : closeInts a a one = true := by
  unfold closeInts
  simp only [Int.sub_self, Int.natAbs_zero, decide_eq_true_eq]
  have : (0 : Int) < max (max a a) one := lt_of_lt_of_le h (le_max_right _ _)
  simpa using this

theorem c03t_closeInts_symm (a b one : Int) : closeInts a b one = closeInts b a one := by
  unfold closeInts
  have : ((a - b).natAbs : Int) = ((b - a).natAbs : Int) := by
    rw [← Int.natAbs_neg]; congr 2; ring
  rw [this, max_comm a b]

/-- relative difference at least 2^-45 ⇒ not close -/
theorem c03t_closeInts_far (a b one : Int) (h : max (max a b) one ≤ ((a - b).natAbs : Int) * 35184372088832) :
    closeInts a b one = false := by
  unfold closeInts
  simp only [decide_eq_false_iff_not, not_lt]
  refine le_trans h ?_
  have hn : (0 : Int) ≤ ((a - b).natAbs : Int) := Int.natCast_nonneg _
  exact mul_le_mul_of_nonneg_left (by norm_num) hn

theorem c03t_closeInts_iff (a b one : Int) :
    closeInts a b one = true ↔ ((a - b).natAbs : Int) * 4503599627370496 < max (max a b) one := by
  unfold closeInts; simp

/-- identical scales are accepted, whatever they are -/
theorem c03t_areClose_self (m e : Int) : areCloseDy m e m e = true := by
  unfold areCloseDy
  exact c03t_closeInts_self _ _ (by positivity)

/-- the verdict does not depend on the operand order -/
theorem c03t_areClose_symm (m1 e1 m2 e2 : Int) : areCloseDy m1 e1 m2 e2 = areCloseDy m2 e2 m1 e1 := by
  unfold areCloseDy
  rw [min_comm e1 e2]
  exact c03t_closeInts_symm _ _ _

/-- FAR APART ⇒ REFUSED (in the scaled integers of the definition: `|a − b| · 2^45 ≥ max(a, b, one)`) -/
theorem c03t_areClose_far (m1 e1 m2 e2 : Int)
    (h : max (max (m1 * 2 ^ (e1 - min (min e1 e2) 0).toNat) (m2 * 2 ^ (e2 - min (min e1 e2) 0).toNat)) (2 ^ (-min (min e1 e2) 0).toNat)
          ≤ ((m1 * 2 ^ (e1 - min (min e1 e2) 0).toNat - m2 * 2 ^ (e2 - min (min e1 e2) 0).toNat).natAbs : Int) * 35184372088832) :
    areCloseDy m1 e1 m2 e2 = false := by
  unfold areCloseDy
  exact c03t_closeInts_far _ _ _ h

end HC
