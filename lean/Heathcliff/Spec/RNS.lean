/-
  Integer-level reference definitions for the RNS routines (C10) — big integers, no RNS tricks.
-/
import Heathcliff.Model.RNS
import Heathcliff.Spec.Poly
namespace HC.Spec
open HC

/-- extended Euclid on integers: returns (g, a) with a·x ≡ g (mod m) -/
def egcd (x m : Int) : Int × Int :=
  let rec go : Nat → Int → Int → Int → Int → Int × Int
    | 0, r0, _, s0, _ => (r0, s0)
    | f+1, r0, r1, s0, s1 => if r1 = 0 then (r0, s0) else
        let q := r0 / r1
        go f r1 (r0 - q * r1) s1 (s0 - q * s1)
  go 400 x m 1 0

/-- inverse of x modulo m (0 if it does not exist) -/
def invMod (x m : Nat) : Nat :=
  let (g, a) := egcd (x % m : Nat) m
  if g = 1 then (a % (m : Int)).toNat else 0

def prodL (qs : List Nat) : Nat := qs.foldl (· * ·) 1

/-- the unique x in [0, Π q_i) with x ≡ r_i (mod q_i) (pairwise coprime q_i) -/
def crt (qs rs : List Nat) : Nat :=
  let Q := prodL qs
  ((List.range qs.length).foldl (fun acc i =>
    let q := qs.getD i 1
    let p := Q / q
    acc + (rs.getD i 0 % q) * p * invMod p q) 0) % Q

/-- centred representative in (-Q/2, Q/2] -/
def centred (x Q : Nat) : Int := if 2 * (x % Q) > Q then (x % Q : Nat) - (Q : Int) else (x % Q : Nat)

def imod (x : Int) (m : Nat) : Nat := (x % (m : Int)).toNat

/-- nearest integer to a/b (b > 0), ties away from... upward: ⌊(2a + b) / 2b⌋ -/
def roundDiv (a : Int) (b : Nat) : Int := (2 * a + b) / (2 * (b : Int))

/-- distance (in units of 1/(2b)) of a/b from the nearest rounding boundary (a half-integer) -/
def roundMargin (a : Int) (b : Nat) : Nat :=
  let fr := imod (2 * a + b) (2 * b)
  min fr (2 * b - fr)

/-- descending primes of exactly `bits` bits congruent to 1 mod `factor` (`get_primes`) -/
def getPrimes (factor bits count : Nat) : List Nat :=
  let start := (2^bits - 1) / factor * factor + 1
  let lower := 2^(bits - 1)
  let rec go : Nat → Nat → Nat → List Nat → List Nat
    | 0, _, _, acc => acc.reverse
    | f+1, v, c, acc =>
      if c = 0 ∨ v ≤ lower then acc.reverse
      else if isPrimeMR v then go f (v - factor) (c - 1) (v :: acc) else go f (v - factor) c acc
  go 200000 start count []

end HC.Spec
