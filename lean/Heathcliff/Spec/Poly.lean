/-
  Mathematical reference definitions on coefficient vectors (executable; used as the oracle by the driver
  and as the right-hand sides of theorems).
-/
import Heathcliff.Model.NTT
namespace HC.Spec
open HC

/-- a^e mod q by square and multiply (spec-side, big integers) -/
def powMod (x e q : Nat) : Nat := HC.powModNat x e q

/-- evaluation of the polynomial with coefficients `a` at `x` modulo `q` (Horner) -/
def evalAt (a : Array Nat) (x q : Nat) : Nat :=
  a.foldr (fun c acc => (acc * x + c) % q) 0

/-- negacyclic product modulo (X^n + 1, q) by the explicit double sum -/
def negMul (a b : Array Nat) (q : Nat) : Array Nat :=
  let n := a.size
  Array.ofFn (n := n) fun k =>
    let s : Int := (List.range n).foldl (fun (acc : Int) i =>
      let j1 := (k.val + n - i) % n
      let t : Int := (a.getD i 0 : Nat) * (b.getD j1 0 : Nat)
      if i ≤ k.val then acc + t else acc - t) 0
    (s % (q : Int)).toNat

/-- is `x` a primitive 2N-th root of unity modulo q in the sense the library uses: x^N ≡ -1 -/
def isPrim2N (x n q : Nat) : Bool := powMod x n q == q - 1

/-- some primitive 2N-th root (deterministic search standing in for the random search of the code) -/
def somePrimitiveRoot (n q : Nat) : Option Nat :=
  if q < 2 ∨ (q - 1) % (2*n) ≠ 0 then none else
  let e := (q - 1) / (2*n)
  (List.range 2000).findSome? fun c =>
    let g := powMod (c + 2) e q
    if isPrim2N g n q then some g else none

/-- the minimal primitive 2N-th root: brute force for small q, minimum over odd powers otherwise -/
def minimalRoot (n q : Nat) : Option Nat :=
  if q < 2 ∨ (q - 1) % (2*n) ≠ 0 then none
  else if q < 70000 then (List.range q).find? (fun x => x ≠ 0 ∧ isPrim2N x n q)
  else match somePrimitiveRoot n q with
    | none => none
    | some g =>
      let g2 := g * g % q
      let (best, _) := (List.range n).foldl (fun (bc : Nat × Nat) _ =>
        (if bc.2 < bc.1 then bc.2 else bc.1, bc.2 * g2 % q)) (g, g)
      some best

/-- the NTT as the documented evaluation map: output i = a(psi^(2*brev k i + 1)) -/
def nttSpec (k : Nat) (psi q : Nat) (a : Array Nat) : Array Nat :=
  let n := 2^k
  -- sparse evaluation: only non-zero coefficients contribute
  let nz := (List.range a.size).filter (fun j => a.getD j 0 % q ≠ 0)
  Array.ofFn (n := n) fun i =>
    let x := powMod psi (2 * brev k i.val + 1) q
    if nz.length * 4 < a.size then
      nz.foldl (fun acc j => (acc + a.getD j 0 % q * powMod x j q) % q) 0
    else evalAt a x q

/-- trial division (spec side; only used for q < 2^40) -/
def isPrimeNat (q : Nat) : Bool :=
  let rec go : Nat → Nat → Bool
    | 0, _ => true
    | f+1, d => if d * d > q then true else if q % d = 0 then false else go f (d+1)
  q ≥ 2 && go (Nat.sqrt q + 1) 2

/-- deterministic Miller–Rabin with the first 12 primes as bases (a published result, trusted: exact below 3.3·10^24);
    stands in for `Modulus::is_prime` (40 random rounds) in the driver -/
def isPrimeMR (q : Nat) : Bool :=
  if q < 2 then false
  else if [2,3,5,7,11,13,17,19,23,29,31,37].contains q then true
  else if [2,3,5,7,11,13,17,19,23,29,31,37].any (fun p => q % p = 0) then false
  else
    let rec split : Nat → Nat → Nat → Nat × Nat
      | 0, d, r => (d, r)
      | f+1, d, r => if d % 2 = 0 then split f (d/2) (r+1) else (d, r)
    let (d, r) := split 64 (q - 1) 0
    [2,3,5,7,11,13,17,19,23,29,31,37].all fun a =>
      let x := powMod a d q
      if x = 1 ∨ x = q - 1 then true
      else
        let rec sq : Nat → Nat → Bool
          | 0, _ => false
          | f+1, x => let x' := x * x % q; if x' = q - 1 then true else sq f x'
        sq (r - 1) x

end HC.Spec
