/-
  Mathematical reference definitions for C13 (executable: the driver uses them as oracle, the theorems of
  Props/C13.lean are phrased with them).  Independent of the model's control flow: plain predicates and big-integer formulas.
-/
import Heathcliff.Model.Context
namespace HC.Spec.Ctx
open HC HC.Ctx HC.Gen

/-- THE REQUESTED SECURITY STANDARD, independent of the code: HomomorphicEncryption.org Security Standard (Albrecht et al., 2018), Table 1,
    maximal log2(q) for ternary secrets at classical security 128 / 192 / 256 bits, degrees 1024 … 32768 (the values SEAL's `hestdparms.h` ships);
    0 = the standard makes no statement for this degree (every non-empty modulus is then "outside the standard") -/
def heStd128 : Nat → Nat
  | 1024 => 27 | 2048 => 54 | 4096 => 109 | 8192 => 218 | 16384 => 438 | 32768 => 881 | _ => 0
def heStd192 : Nat → Nat
  | 1024 => 19 | 2048 => 37 | 4096 => 75 | 8192 => 152 | 16384 => 305 | 32768 => 611 | _ => 0
def heStd256 : Nat → Nat
  | 1024 => 14 | 2048 => 29 | 4096 => 58 | 8192 => 118 | 16384 => 237 | 32768 => 476 | _ => 0
def heStandardTernary : SecLevel → Nat → Nat
  | .None, _ => 2147483647
  | .Tc128, n => heStd128 n
  | .Tc192, n => heStd192 n
  | .Tc256, n => heStd256 n

/-- the degrees the standard covers -/
def heStandardDegrees : List Nat := [1024, 2048, 4096, 8192, 16384, 32768]

/-- the preconditions a valid parameter set must satisfy (`isPrime` = the primality notion in force) -/
def validParams (isPrime : Nat → Bool) (p : Params) (sec : SecLevel) : Bool :=
  let k := p.q.length
  let Q := prodL p.q
  decide (p.scheme ≠ .None) &&
  decide (1 ≤ k ∧ k ≤ 64) &&
  p.q.all (fun q => decide (2 ≤ q ∧ q < 2^60)) &&
  decide (2 ≤ p.n ∧ p.n ≤ 131072) && decide (∃ e ∈ List.range 18, p.n = 2^e) &&
  (decide (sec = .None) || decide (bitCount Q ≤ Gen.maxBitCount sec p.n)) &&
  p.q.Pairwise (fun a b => Nat.gcd a b = 1) &&
  p.q.all (fun q => isPrime q && decide (q % (2 * p.n) = 1)) &&
  (match p.scheme with
   | .BFV | .BGV => decide (2 ≤ p.t ∧ p.t < 2^60) && p.q.all (fun q => decide (Nat.gcd q p.t = 1)) && decide (p.t < Q)
   | .CKKS => decide (p.t = 0)
   | .None => false)

def dropLastQ (p : Params) : Params := { p with q := p.q.dropLast }

/-- number of further levels reachable by dropping the last modulus while the result stays valid -/
def down (isPrime : Nat → Bool) (sec : SecLevel) : Nat → Params → Nat
  | 0, _ => 0
  | f+1, p => if p.q.length > 1 ∧ validParams isPrime (dropLastQ p) sec then 1 + down isPrime sec f (dropLastQ p) else 0

/-- expected (number of levels, position of the first data level) -/
def chainShape (isPrime : Nat → Bool) (p : Params) (expand : Bool) (sec : SecLevel) : Nat × Nat :=
  if !validParams isPrime p sec then (1, 0)
  else
    let nextOk := decide (p.q.length > 1) && !p.special && validParams isPrime (dropLastQ p) sec
    let first := if nextOk then 1 else 0
    if expand then (1 + down isPrime sec p.q.length p, first) else (1 + first, first)

/-- limbs of a big integer -/
def limbs (k v : Nat) : List Nat := fromNat k v

structure LevelConsts where
  total : List Nat
  bits : Nat
  cdp : List (Nat × Nat)       -- (operand, quotient)
  qModT : Nat
  puht : Nat
  puhi : List Nat
  uht : List Nat
  flags : List Bool            -- fft, ntt, batching, fast_plain_lift, descending
  sec : SecLevel
  deriving BEq

/-- the constants of a valid level by their definitions -/
def levelConsts (isPrime : Nat → Bool) (p : Params) (sec : SecLevel) : LevelConsts :=
  let k := p.q.length
  let Q := prodL p.q
  let desc := p.q.Pairwise (fun a b => a > b) -- strictly decreasing (adjacent test of the code is equivalent to pairwise by transitivity)
  let secOut := if bitCount Q ≤ Gen.maxBitCount sec p.n then sec else .None
  match p.scheme with
  | .CKKS =>
    { total := limbs k Q, bits := bitCount Q, cdp := [], qModT := 0, puht := 2^63,
      puhi := p.q.map (fun q => (q - 2^64 % q) % q), uht := limbs k ((Q + 1) / 2),
      flags := [true, true, true, false, desc], sec := secOut }
  | _ =>
    let t := p.t
    let fast := p.q.all (fun q => decide (q > t))
    { total := limbs k Q, bits := bitCount Q,
      cdp := p.q.map (fun q => let o := (Q / t) % q; (o, o * 2^64 / q)),
      qModT := Q % t, puht := (t + 1) / 2,
      puhi := if fast then p.q.map (fun q => q - t) else limbs k (Q - t), uht := [],
      flags := [true, true, isPrime t && decide (t % (2 * p.n) = 1), fast, desc], sec := secOut }

end HC.Spec.Ctx
