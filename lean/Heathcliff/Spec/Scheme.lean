/-
  Exact-integer reference for ciphertext-level properties: the phase c(s) = Σ c_i s^i in Z_Q[X]/(X^N+1) by schoolbook
  negacyclic arithmetic on big integers, centred lift, and the three decodings.
-/
import Heathcliff.Model.Scheme
import Heathcliff.Spec.RNS
namespace HC.Spec
open HC

abbrev ZPoly := Array Int

/-- negacyclic product of integer polynomials modulo Q (result in [0,Q)) -/
def zNegMul (a b : ZPoly) (Q : Nat) : ZPoly :=
  let n := a.size
  -- sparse in `b` (secret keys are ternary, many zero coefficients)
  let nzb := (List.range n).filter (fun j => b.getD j 0 ≠ 0)
  let acc := nzb.foldl (fun (acc : Array Int) j =>
    let bj := b.getD j 0
    (List.range n).foldl (fun (acc : Array Int) i =>
      let k := i + j
      let t := a.getD i 0 * bj
      if k < n then acc.modify k (· + t) else acc.modify (k - n) (· - t)) acc) (Array.replicate n (0 : Int))
  acc.map (fun x => x % (Q : Int))

def zAdd (a b : ZPoly) (Q : Nat) : ZPoly := Array.ofFn (n := a.size) fun i => (a.getD i.val 0 + b.getD i.val 0) % (Q : Int)

/-- coefficient-form big-integer polynomial of an RNS polynomial (given in coefficient form) -/
def crtPoly (qs : List Nat) (p : RnsPoly) (n : Nat) : ZPoly :=
  Array.ofFn (n := n) fun j => (crt qs (p.toList.map (fun c => c.getD j.val 0)) : Int)

/-- exact phase, centred: input ciphertext polys in coefficient form -/
def phase (qs : List Nat) (n : Nat) (sk : Array Int) (polys : List RnsPoly) : ZPoly :=
  let Q := prodL qs
  -- Horner in s: (((c_m) s + c_{m-1}) s + … ) + c_0
  let zs := polys.map (fun p => crtPoly qs p n)
  let r := zs.reverse.foldl (fun (acc : Option ZPoly) c =>
      match acc with
      | none => some c
      | some a => some (zAdd (zNegMul a sk Q) c Q)) none
  (r.getD (Array.replicate n 0)).map (fun x => centred x.toNat Q)

/-- BFV decoding: round(t·x̃/Q) mod t, and the margin to the rounding boundary per coefficient -/
def bfvDecode (t Q : Nat) (ph : ZPoly) : Array Nat := ph.map (fun x => imod (roundDiv (t * x) Q) t)

/-- BGV decoding: x̃ mod t, times cf^{-1} -/
def bgvDecode (t cf : Nat) (ph : ZPoly) : Array Nat :=
  let fix := invMod cf t
  ph.map (fun x => (imod x t * fix) % t)

/-- the invariant-noise budget by its definition: bits(Q) - bits(‖[t·x̃]_Q‖∞) - 1 (BFV), resp. without the factor t (BGV) -/
def budget (bfv : Bool) (t Q : Nat) (ph : ZPoly) : Nat :=
  let norm := ph.foldl (fun acc x =>
      let v := if bfv then centred (imod (t * x) Q) Q else x
      max acc v.natAbs) 0
  ((bitCount Q : Int) - (bitCount norm : Int) - 1).toNat

def trim (p : Array Nat) : Array Nat := HC.trimPlain p

end HC.Spec
