/-
  Model of src/util/galois.rs (Galois automorphisms on coefficient and NTT representations, rotation step ↦ element,
  default key elements), of the NAF composition in `Evaluator::rotate_internal`, and of the slot index map and
  encode / decode of src/batch_encoder.rs.
-/
import Heathcliff.Model.NTT
namespace HC

def galoisGenerator : Nat := 3

/-- `GaloisTool::apply`: coefficient i goes to index (i·g mod N), negated when ⌊i·g/N⌋ is odd -/
def galoisApply (k : Nat) (a : Array Nat) (g : Nat) (m : Modulus) : R (Array Nat) :=
  let n := 2^k
  (List.range n).foldlM (fun (res : Array Nat) i => do
      let raw := i * g
      let idx := raw % n
      let x := a.getD i 0
      let v ← if (raw / n) % 2 = 1 then negateMod x m else pure x
      pure (res.setIfInBounds idx v)) (Array.replicate n 0)

/-- `generate_table_ntt(g)`: entry i = brev_k( ((g · brev_{k+1}(i + N)) / 2) mod N ) -/
def galoisTableNtt (k g : Nat) : Array Nat :=
  let n := 2^k
  Array.ofFn (n := n) fun i =>
    let reversed := brev (k+1) (i.val + n)
    brev k (((g * reversed) / 2) % n)

/-- `apply_ntt`: result[i] = operand[table[i]] -/
def galoisApplyNtt (k : Nat) (a : Array Nat) (g : Nat) : Array Nat :=
  (galoisTableNtt k g).map fun t => a.getD t 0

/-- `get_elt_from_step` -/
def eltFromStep (k : Nat) (step : Int) : R Nat :=
  let n := 2^k
  let m := 2 * n
  if step = 0 then pure (m - 1) else
  let pos := step.natAbs
  if pos ≥ n / 2 then .error .refused else
  let s := if step < 0 then n / 2 - pos else pos
  pure ((List.range s).foldl (fun e _ => (e * galoisGenerator) % m) 1)

/-- `get_elts_all`: 2N-1, then 3^(2^i) and 3^-(2^i) for i = 0 .. log N - 2 -/
def eltsAll (k : Nat) : R (List Nat) := do
  let m := 2 * 2^k
  match ← tryInvert galoisGenerator m with
  | none => .error .refused
  | some inv =>
    let (l, _, _) := (List.range (k - 1)).foldl (fun (acc : List Nat × Nat × Nat) _ =>
      let (l, p, q) := acc
      (l ++ [p, q], (p * p) % m, (q * q) % m)) ([m - 1], galoisGenerator, inv)
    pure l

/-- the sequence of key-backed rotations `rotate_internal` performs for `steps` when only the elements in `keys` have keys:
    direct if present, else the NAF digits (those equal to ±N/2 skipped), recursively (fuel = recursion depth) -/
def rotatePlan (k : Nat) (keys : List Nat) : Nat → Int → R (List Nat)
  | 0, _ => .error .other
  | fuel+1, steps =>
    if steps = 0 then pure [] else do
    let e ← eltFromStep k steps
    if keys.contains e then pure [e] else do
    let ds ← naf steps
    if ds.length = 1 then .error .refused else
    ds.foldlM (fun acc d => do
      if d.natAbs = 2^k / 2 then pure acc else do
        let r ← rotatePlan k keys fuel d
        pure (acc ++ r)) []

/-- `BatchEncoder::new`: matrix_reps_index_map -/
def batchIndexMap (k : Nat) : Array Nat :=
  let n := 2^k
  let m := 2 * n
  let row := n / 2
  let (a, _) := (List.range row).foldl (fun (acc : Array Nat × Nat) i =>
    let (arr, pos) := acc
    let i1 := (pos - 1) / 2
    let i2 := (m - pos - 1) / 2
    ((arr.setIfInBounds i (brev k i1)).setIfInBounds (i + row) (brev k i2), (pos * galoisGenerator) % m)) (Array.replicate n 0, 1)
  a

/-- `encode`: scatter through the index map (missing values are 0), inverse NTT with the plain-modulus tables -/
def batchEncode (t : NTTTables) (vals : Array Nat) : R (Array Nat) :=
  let n := 2^t.k
  if vals.size > n then .error .refused else
  let map := batchIndexMap t.k
  let scattered := (List.range n).foldl (fun (d : Array Nat) i => d.setIfInBounds (map.getD i 0) (vals.getD i 0)) (Array.replicate n 0)
  pure (intt t scattered)

/-- `decode`: zero-pad, forward NTT, gather through the index map -/
def batchDecode (t : NTTTables) (plain : Array Nat) : Array Nat :=
  let n := 2^t.k
  let padded := Array.ofFn (n := n) fun i => plain.getD i.val 0
  let tr := ntt t padded
  (batchIndexMap t.k).map fun j => tr.getD j 0

end HC
