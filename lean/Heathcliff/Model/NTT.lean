/-
  Model of the generic butterfly network (src/util/dwthandler.rs), of its modular instance and the
  table construction (src/util/ntt.rs), and of the polynomial wrappers that use them
  (src/util/polysmallmod.rs: ntt*, intt*, dyadic_product, negacyclic_shift).

  The network is written in *gather* form (new[p] as a function of the old vector): each output of a
  layer depends only on its own input pair, so this is the value semantics of the in-place pair update.
  `runFwdA`/`runInvA` cache every layer in an `Array` (execution); `runFwd`/`runInv` are the same layers on
  plain functions (the object of the theorems; `runFwdA_eq` relates them on indices below `2^k`).
-/
import Heathcliff.Model.Word
namespace HC

/-- bit reversal of the low `k` bits (`reverse_bits_u64(i, k)` for `i < 2^k`) -/
def brev : Nat → Nat → Nat
  | 0, _ => 0
  | k+1, i => (i % 2) * 2^k + brev k (i / 2)

/-- the `Arithmetic` trait of `DWTHandler` (values, roots; scalars share the root type here) -/
structure Arith (α ρ : Type) where
  add : α → α → α
  sub : α → α → α
  mulRoot : α → ρ → α
  guard : α → α

variable {α ρ : Type}

def arrFn [Inhabited α] (a : Array α) : Nat → α := fun i => a.getD i default

/-- one layer of `transform_to_rev`: layer `l` (0-based) of a size-`2^k` transform -/
def fwdLayer (A : Arith α ρ) (k l : Nat) (roots : Nat → ρ) (v : Nat → α) (p : Nat) : α :=
  let gap := 2^(k-l-1)
  let i := p / (2*gap)
  let o := p % (2*gap)
  let r := roots (2^l + i)
  if o < gap then A.add (A.guard (v p)) (A.mulRoot (v (p+gap)) r)
  else A.sub (A.guard (v (p-gap))) (A.mulRoot (v p) r)

/-- one layer of `transform_from_rev`: layer `lam`, gap `2^lam`, `m = 2^(k-1-lam)` blocks,
    block `i` uses `roots[n - 2m + 1 + i]` -/
def invLayer (A : Arith α ρ) (k lam : Nat) (roots : Nat → ρ) (v : Nat → α) (p : Nat) : α :=
  let gap := 2^lam
  let m := 2^(k-1-lam)
  let i := p / (2*gap)
  let o := p % (2*gap)
  let r := roots (2^k - 2*m + 1 + i)
  if o < gap then A.guard (A.add (v p) (v (p+gap)))
  else A.mulRoot (A.sub (v (p-gap)) (v p)) r

/-- `layers` forward layers (pure function form: the object of the theorems) -/
def runFwd (A : Arith α ρ) (k : Nat) (roots : Nat → ρ) (a : Nat → α) : Nat → (Nat → α)
  | 0 => a
  | l+1 => fwdLayer A k l roots (runFwd A k roots a l)

def runInv (A : Arith α ρ) (k : Nat) (roots : Nat → ρ) (a : Nat → α) : Nat → (Nat → α)
  | 0 => a
  | l+1 => invLayer A k l roots (runInv A k roots a l)

/-- executable forms: every layer cached in an array of length `2^k` -/
def runFwdA [Inhabited α] (A : Arith α ρ) (k : Nat) (roots : Nat → ρ) (a : Array α) : Nat → Array α
  | 0 => a
  | l+1 =>
    let prev := runFwdA A k roots a l
    Array.ofFn (n := 2^k) (fun i => fwdLayer A k l roots (arrFn prev) i.val)

def runInvA [Inhabited α] (A : Arith α ρ) (k : Nat) (roots : Nat → ρ) (a : Array α) : Nat → Array α
  | 0 => a
  | l+1 =>
    let prev := runInvA A k roots a l
    Array.ofFn (n := 2^k) (fun i => invLayer A k l roots (arrFn prev) i.val)

/-- `transform_to_rev(values, log_n, roots, None)` -/
def transformToRev [Inhabited α] (A : Arith α ρ) (k : Nat) (roots : Nat → ρ) (a : Array α) : Array α :=
  runFwdA A k roots a k

/-- `transform_from_rev(values, log_n, roots, Some scalar)` -/
def transformFromRev [Inhabited α] (A : Arith α ρ) (k : Nat) (roots : Nat → ρ) (scalar : ρ) (a : Array α) : Array α :=
  (runInvA A k roots a k).map (fun x => A.mulRoot x scalar)

/-! ### the modular instance `ModArithLazy` -/

instance : Inhabited MulOperand := ⟨⟨0, 0⟩⟩

/-- `ModArithLazy` (plain `+`/`-` of the code: the theorems show the documented ranges exclude overflow) -/
def modArithLazy (m : Modulus) : Arith Nat MulOperand where
  add a b := a + b
  sub a b := a + 2 * m.value - b
  mulRoot a r := mulOperandModLazy a r m
  guard a := if a ≥ 2 * m.value then a - 2 * m.value else a

structure NTTTables where
  k : Nat
  modulus : Modulus
  root : Nat
  rootPowers : Array MulOperand       -- bit-reversed order
  invRootPowers : Array MulOperand    -- scrambled order
  invDegree : MulOperand

/-- modular exponentiation used only to *find* some primitive root in the driver (not part of the code) -/
def powModNat (x e q : Nat) : Nat :=
  let rec go : Nat → Nat → Nat → Nat → Nat
    | 0, _, _, acc => acc
    | f+1, b, e, acc => if e = 0 then acc else
        go f (b * b % q) (e / 2) (if e % 2 = 1 then acc * b % q else acc)
  go 64 (x % q) e (1 % q)

/-- `try_minimal_primitive_root` after `try_primitive_root` handed in `root0`
    (the random search is an input): minimum over the `degree/2` odd powers -/
def minimalRootFrom (degree : Nat) (m : Modulus) (root0 : Nat) : R Nat := do
  let gsq ← mulMod root0 root0 m
  let rec go : Nat → Nat → Nat → R Nat
    | 0, best, _ => pure best
    | n+1, best, cur => do
      let best' := if cur < best then cur else best
      let cur' ← mulMod cur gsq m
      go n best' cur'
  go ((degree + 1) / 2) root0 root0

/-- `is_primitive_root(root, degree, modulus)` -/
def isPrimitiveRoot (root degree : Nat) (m : Modulus) : R Bool :=
  if root = 0 then pure false else do
    let p ← exponentiateMod root (degree / 2) m
    pure (p = m.value - 1)

/-- `NTTTables::new` given the primitive root `root0` found by the random search.
    The divisibility test `(q-1) % 2N = 0` is the one inside `try_primitive_root`. -/
def NTTTables.new (k : Nat) (m : Modulus) (isPrime : Bool) (root0 : Nat) : R NTTTables := do
  let n := 2^k
  if !isPrime then .error .refused          -- `modulus.is_prime()` (cached Miller–Rabin verdict)
  else if m.value < 2 then .error .refused
  else if (m.value - 1) % (2*n) ≠ 0 then .error .refused
  else do
  let okr ← isPrimitiveRoot root0 (2*n) m
  if !okr then .error .refused else do
  let root ← minimalRootFrom (2*n) m root0
  let inv ← tryInvert root m.value
  match inv with
  | none => .error .refused
  | some invRoot => do
    let rootOp ← MulOperand.new root m
    let one ← MulOperand.new 1 m
    -- powers psi^1 .. psi^(n-1) placed at brev(i)
    let rec fill (tbl : Array MulOperand) (op : MulOperand) (idx : Nat → Nat) : Nat → Nat → Nat → R (Array MulOperand)
      | 0, _, _ => pure tbl
      | cnt+1, i, power => do
        let e ← MulOperand.new power m
        let tbl' := tbl.setIfInBounds (idx i) e
        let power' ← mulOperandMod power op m
        fill tbl' op idx cnt (i+1) power'
    let rp ← fill (Array.replicate n default) rootOp (fun i => brev k i) (n-1) 1 root
    let rp := rp.setIfInBounds 0 one
    let invOp ← MulOperand.new invRoot m
    let irp ← fill (Array.replicate n default) invOp (fun i => brev k (i-1) + 1) (n-1) 1 invRoot
    let irp := irp.setIfInBounds 0 one
    let invN ← tryInvert n m.value
    match invN with
    | none => .error .refused
    | some dinv => do
      let d ← MulOperand.new dinv m
      pure ⟨k, m, root, rp, irp, d⟩

def NTTTables.n (t : NTTTables) : Nat := 2^t.k

/-- `ntt_negacyclic_harvey_lazy` -/
def nttLazy (t : NTTTables) (a : Array Nat) : Array Nat :=
  transformToRev (modArithLazy t.modulus) t.k (arrFn t.rootPowers) a

/-- `ntt_negacyclic_harvey`: two conditional subtractions -/
def ntt (t : NTTTables) (a : Array Nat) : Array Nat :=
  let q := t.modulus.value
  (nttLazy t a).map fun x =>
    let x := if x ≥ 2*q then x - 2*q else x
    if x ≥ q then x - q else x

/-- `inverse_ntt_negacyclic_harvey_lazy` -/
def inttLazy (t : NTTTables) (a : Array Nat) : Array Nat :=
  transformFromRev (modArithLazy t.modulus) t.k (arrFn t.invRootPowers) t.invDegree a

def intt (t : NTTTables) (a : Array Nat) : Array Nat :=
  let q := t.modulus.value
  (inttLazy t a).map fun x => if x ≥ q then x - q else x

/-- `dyadic_product` (the loop body is `barrett_reduce_u128` of the 128-bit product, inlined in the code) -/
def dyadicProduct (a b : Array Nat) (m : Modulus) : R (Array Nat) :=
  (List.range a.size).foldlM (fun acc i => do
      let r ← mulMod (a.getD i 0) (b.getD i 0) m
      pure (acc.push r)) #[]

/-- `negacyclic_shift(component, shift, modulus, result)`, `n = result.len()` a power of two -/
def negacyclicShift (a : Array Nat) (shift : Nat) (m : Modulus) : Array Nat :=
  let n := a.size
  if shift = 0 then a else
  (List.range n).foldl (fun (res : Array Nat) i =>
      let raw := shift + i
      let idx := raw % n
      let x := a.getD i 0
      let v := if x = 0 ∨ (raw / n) % 2 = 0 then x else m.value - x
      res.setIfInBounds idx v) (Array.replicate n 0)

end HC
