/-
  Byte-level model of Heathcliff's (de)serialization (src/serialize.rs, src/app/matmul/cipher{1,2,3}d.rs,
  src/app/rns_plain/serialize.rs) — shared by C14 (round trips) and C15 (I/O faults).

  * A `Codec α` mirrors one `serialize`/`deserialize` pair: `chunks x` is the ordered list of scalar
    I/O calls the Rust serializer issues (which scalar impl issued it + the bytes handed to the
    stream), `enc x` their concatenation, `dec` the reader over a byte list (`read_exact` = all or
    `eof`), `size` the Rust `serialized_size`, `norm` what a round trip yields (identity except for
    seed expansion / term selection / zero padding), `valid` the domain on which the laws hold.
  * Composite (de)serializers are built with combinators (`pairC`, `depC`, `mapC`, `guardC`, `seqC`,
    `repC`, `vecC`) in exactly the field order of the Rust code.
  * Writers: `Sink` is a stream obeying the `Write` contract, defined by per-call acceptance limits
    and an optional failure point; `writeAll` is the loop of `std::io::Write::write_all`.
  External functions are parameters: `expand` (seed -> uniform polynomial: blake3 + rejection
  sampling), `fwd`/`inv` (NTT / inverse NTT of one RNS component).
  Core Lean only (compiled into the driver).
-/
namespace HC.Codec

/-- which scalar impl of `Serializable` issued an I/O call (`impl Serializable for u64 / usize / u8`) -/
inductive SK where
  | u64 | usize | u8
  deriving DecidableEq, Repr, Inhabited

/-- `eof s`: `read_exact` inside the scalar reader `s` hit the end of the stream (io::ErrorKind::UnexpectedEof);
    `bad`: any other refusal (panic on an unknown parms id / invalid scheme byte, `Err(InvalidData)`). -/
inductive DErr where
  | eof (s : SK) | bad
  deriving DecidableEq, Repr, Inhabited

abbrev Bytes := List Nat   -- each < 256

structure Chunk where
  kind : SK
  bytes : Bytes
  deriving DecidableEq, Repr

def flat : List Chunk → Bytes
  | [] => []
  | c :: cs => c.bytes ++ flat cs

structure Codec (α : Type) where
  chunks : α → List Chunk
  dec : Bytes → Except DErr (α × Bytes)
  valid : α → Prop
  size : α → Nat
  norm : α → α

def Codec.enc {α} (c : Codec α) (x : α) : Bytes := flat (c.chunks x)

/-! ### scalars -/

/-- `to_le_bytes` truncated to `n` bytes -/
def leBytes : Nat → Nat → Bytes
  | 0, _ => []
  | n+1, v => (v % 256) :: leBytes n (v / 256)

/-- `from_le_bytes` -/
def leVal : Bytes → Nat
  | [] => 0
  | b :: r => b + 256 * leVal r

/-- `Read::read_exact` on an in-memory stream: all `n` bytes or `UnexpectedEof` -/
def readExact (s : SK) (n : Nat) (bs : Bytes) : Except DErr (Bytes × Bytes) :=
  if bs.length < n then .error (.eof s) else .ok (bs.take n, bs.drop n)

/-- `impl Serializable for u64 / usize / u8`: one I/O call of `n` bytes -/
def scalarC (s : SK) (n : Nat) : Codec Nat where
  chunks v := [⟨s, leBytes n v⟩]
  dec bs := match readExact s n bs with
    | .error e => .error e
    | .ok (b, r) => .ok (leVal b, r)
  valid v := v < 256 ^ n
  size _ := n
  norm v := v

def u64C : Codec Nat := scalarC .u64 8
def usizeC : Codec Nat := scalarC .usize 8
def u8C : Codec Nat := scalarC .u8 1

/-! ### combinators -/

def pairC {α β} (a : Codec α) (b : Codec β) : Codec (α × β) where
  chunks p := a.chunks p.1 ++ b.chunks p.2
  dec bs := match a.dec bs with
    | .error e => .error e
    | .ok (x, r) => match b.dec r with
      | .error e => .error e
      | .ok (y, r') => .ok ((x, y), r')
  valid p := a.valid p.1 ∧ b.valid p.2
  size p := a.size p.1 + b.size p.2
  norm p := (a.norm p.1, b.norm p.2)

/-- the format of the second field depends on the value of the first (scheme, size, seed flag …) -/
def depC {α β} (a : Codec α) (b : α → Codec β) : Codec (α × β) where
  chunks p := a.chunks p.1 ++ (b p.1).chunks p.2
  dec bs := match a.dec bs with
    | .error e => .error e
    | .ok (x, r) => match (b x).dec r with
      | .error e => .error e
      | .ok (y, r') => .ok ((x, y), r')
  valid p := a.valid p.1 ∧ a.norm p.1 = p.1 ∧ (b p.1).valid p.2
  size p := a.size p.1 + (b p.1).size p.2
  norm p := (p.1, (b p.1).norm p.2)

/-- view an object through its wire tuple: `f` = what `serialize` reads off the object,
    `g` = how `deserialize` assembles the object -/
def mapC {α β} (c : Codec α) (f : β → α) (g : α → β) : Codec β where
  chunks y := c.chunks (f y)
  dec bs := match c.dec bs with
    | .error e => .error e
    | .ok (x, r) => .ok (g x, r)
  valid y := c.valid (f y)
  size y := c.size (f y)
  norm y := g (c.norm (f y))

/-- a check made by the reader after the bytes were consumed (panic / `Err(InvalidData)`) -/
def guardC {α} (c : Codec α) (p : α → Bool) : Codec α where
  chunks := c.chunks
  dec bs := match c.dec bs with
    | .error e => .error e
    | .ok (x, r) => if p x then .ok (x, r) else .error .bad
  valid x := c.valid x ∧ p (c.norm x) = true
  size := c.size
  norm := c.norm

/-- same wire format, smaller domain (a precondition the writer asserts) -/
def restrictC {α} (c : Codec α) (P : α → Prop) : Codec α where
  chunks := c.chunks
  dec := c.dec
  valid x := c.valid x ∧ P x
  size := c.size
  norm := c.norm

def seqChunks {α} : List (Codec α) → List α → List Chunk
  | c :: cs, x :: xs => c.chunks x ++ seqChunks cs xs
  | _, _ => []

def seqDec {α} : List (Codec α) → Bytes → Except DErr (List α × Bytes)
  | [], bs => .ok ([], bs)
  | c :: cs, bs => match c.dec bs with
    | .error e => .error e
    | .ok (x, r) => match seqDec cs r with
      | .error e => .error e
      | .ok (xs, r') => .ok (x :: xs, r')

def seqValid {α} : List (Codec α) → List α → Prop
  | [], [] => True
  | c :: cs, x :: xs => c.valid x ∧ seqValid cs xs
  | _, _ => False

def seqSize {α} : List (Codec α) → List α → Nat
  | c :: cs, x :: xs => c.size x + seqSize cs xs
  | _, _ => 0

def seqNorm {α} : List (Codec α) → List α → List α
  | c :: cs, x :: xs => c.norm x :: seqNorm cs xs
  | _, _ => []

/-- a fixed-length sequence, item `i` in format `cs[i]` (RNS components, rns_plain components) -/
def seqC {α} (cs : List (Codec α)) : Codec (List α) where
  chunks := seqChunks cs
  dec := seqDec cs
  valid := seqValid cs
  size := seqSize cs
  norm := seqNorm cs

/-- exactly `n` items, no length prefix (`for _ in 0..n`) -/
def repC {α} (n : Nat) (c : Codec α) : Codec (List α) := seqC (List.replicate n c)

/-- `impl Serializable for Vec<I>` (and the context variant, `Cipher1d`, `Plain1d`, …):
    `usize` length, then the items -/
def vecC {α} (c : Codec α) : Codec (List α) :=
  mapC (depC usizeC (fun n => repC n c)) (fun l => (l.length, l)) (fun p => p.2)

/-! ### scalar-like fields -/

/-- `impl Serializable for bool`: `1u8` / `0u8`; reader `value == 1` -/
def boolC : Codec Bool := mapC u8C (fun b => if b then 1 else 0) (fun v => v == 1)

/-- `f64` as its IEEE bit pattern (`to_bits` / `from_bits`), through the `u64` impl -/
def f64C : Codec Nat := u64C

/-- `Modulus`: its value through the `u64` impl (the reader rebuilds `Modulus::new(value)`) -/
def modulusC : Codec Nat := u64C

/-- `SchemeType` as `u8` (0 None, 1 BFV, 2 CKKS, 3 BGV); `SchemeType::from` panics above 3 -/
def schemeC : Codec Nat := guardC u8C (fun v => v ≤ 3)

/-- `ParmsID = [u64; 4]`, no length prefix -/
def pidC : Codec (List Nat) := repC 4 u64C

/-- `get_u64_limit`: bytes needed for values below the modulus `q` -/
def bitCount (v : Nat) : Nat := if v = 0 then 0 else Nat.log2 v + 1
def u64Limit (q : Nat) : Nat := (bitCount q + 7) / 8

/-- `write_u64_limited` / `read_u64_limited`: `limit` single-byte calls through the `u8` impl;
    the writer asserts that nothing is left of the value (`assert_eq!(value, 0)`) -/
def limC (limit : Nat) : Codec Nat :=
  restrictC (mapC (repC limit u8C) (leBytes limit) leVal) (fun v => v < 256 ^ limit)

/-! ### EncryptionParameters, Plaintext -/

structure Params where
  scheme : Nat
  n : Nat
  coeffMod : List Nat
  plainMod : Nat          -- `Modulus::new(0)` when the scheme has none (CKKS)
  special : Bool
  deriving DecidableEq, Repr

def hasPlain (scheme : Nat) : Bool := scheme == 1 || scheme == 3

/-- scheme, poly_modulus_degree, coeff_modulus, [plain_modulus if BFV/BGV], use_special_prime;
    the reader returns `Err(InvalidData)` for scheme None after consuming everything -/
def paramsC : Codec Params :=
  mapC
    (guardC
      (depC schemeC (fun s =>
        pairC usizeC (pairC (vecC modulusC) (pairC (repC (if hasPlain s then 1 else 0) modulusC) boolC))))
      (fun w => w.1 != 0))
    (fun p => (p.scheme, p.n, p.coeffMod, (if hasPlain p.scheme then [p.plainMod] else []), p.special))
    (fun w => ⟨w.1, w.2.1, w.2.2.1, w.2.2.2.1.headD 0, w.2.2.2.2⟩)

structure Plain where
  pid : List Nat
  data : List Nat
  scale : Nat        -- f64 bits
  deriving DecidableEq, Repr

/-- parms_id, data (`Vec<u64>`), scale -/
def plainC : Codec Plain :=
  mapC (pairC pidC (pairC (vecC u64C) f64C))
    (fun p => (p.pid, p.data, p.scale)) (fun w => ⟨w.1, w.2.1, w.2.2⟩)

/-! ### contexts -/

/-- what one `ContextData` contributes to (de)serialization -/
structure Level where
  pid : List Nat
  scheme : Nat
  n : Nat
  moduli : List Nat
  deriving DecidableEq, Repr

structure Ctx where
  levels : List Level
  plainMod : Nat     -- first_context_data().parms().plain_modulus()
  firstN : Nat       -- first_context_data().parms().poly_modulus_degree()
  deriving Repr

/-- `context.get_context_data(&parms_id)`; the callers `unwrap()` it -/
def Ctx.find (ctx : Ctx) (pid : List Nat) : Option Level := ctx.levels.find? (fun l => l.pid == pid)

def noLevel : Level := ⟨[], 0, 0, []⟩

/-- `CIPHERTEXT_SEED_FLAG` -/
def seedFlag : Nat := 18446744073709551615
/-- `(size_of::<PRNGSeed>() + 7) / 8` -/
def seedWords : Nat := 8
/-- bit pattern of `1.0f64` (default scale of non-CKKS objects) -/
def oneF64 : Nat := 4607182418800017408

/-! ### Ciphertext -/

/-- a polynomial: `[component][coefficient]` -/
abbrev Poly := List (List Nat)

/-- Structured view of a `Ciphertext`.  A seed-compressed ciphertext (size 2, `poly(1)[0] = FLAG`) is
    `polys = [c0]`, `seed = the 8 seed words`; its expanded form is `polys = [c0, expand seed]`, `seed = []`. -/
structure Ct where
  pid : List Nat
  size : Nat
  ntt : Bool
  scale : Nat      -- f64 bits; 1.0 unless CKKS
  cf : Nat         -- correction factor; 1 unless BGV
  polys : List Poly
  seed : List Nat
  deriving DecidableEq, Repr

def Ct.seeded (c : Ct) : Bool := !c.seed.isEmpty

/-- the scheme-dependent header field: CKKS scale, BGV correction factor, BFV nothing -/
def extraC (scheme : Nat) : Codec (List Nat) :=
  if scheme == 2 then repC 1 f64C else if scheme == 3 then repC 1 u64C else repC 0 u64C

/-- one polynomial in the compact format: per component `N` coefficients of `limit(q_j)` bytes -/
def polyC (lv : Level) : Codec Poly :=
  seqC (lv.moduli.map (fun q => repC lv.n (limC (u64Limit q))))

/-- wire tuple of the compact / terms formats:
    (parms_id, (size, (is_ntt_form, (extra, (contains_seed, (polys, seed words)))))) -/
abbrev CtWire := List Nat × Nat × Bool × List Nat × Bool × List Poly × List Nat

/-- body after the header; `first` is the codec of polynomial 0 (all coefficients, or the selected terms) -/
def ctBodyC (lv : Level) (size : Nat) (first : Codec Poly) : Codec (Bool × List Poly × List Nat) :=
  depC boolC (fun seeded =>
    pairC (seqC (if seeded then [first] else (first :: List.replicate (size - 1) (polyC lv)).take size))
          (repC (if seeded then seedWords else 0) u64C))

/-- header + body; an unknown parms id is a refusal (`get_context_data(..).unwrap()`), as is a
    scheme-None level on the writer side -/
def ctWireC (ctx : Ctx) (first : Level → Codec Poly) : Codec CtWire :=
  depC (guardC pidC (fun pid => (ctx.find pid).isSome)) (fun pid =>
    let lv := (ctx.find pid).getD noLevel
    depC usizeC (fun size => pairC boolC (pairC (extraC lv.scheme) (ctBodyC lv size (first lv)))))

def ctToWire (ctx : Ctx) (tr : Level → Bool → Poly → Poly) (c : Ct) : CtWire :=
  let lv := (ctx.find c.pid).getD noLevel
  let extra := if lv.scheme == 2 then [c.scale] else if lv.scheme == 3 then [c.cf] else []
  let polys := match c.polys with
    | [] => []
    | p0 :: ps => tr lv c.ntt p0 :: ps
  (c.pid, c.size, c.ntt, extra, c.seeded, polys, c.seed)

/-- `from_members` + `expand_seed` when the seed flag is set -/
def ctOfWire (ctx : Ctx) (expand : List Nat → Level → Poly) (tr : Level → Bool → Poly → Poly) (w : CtWire) : Ct :=
  let lv := (ctx.find w.1).getD noLevel
  let extra := w.2.2.2.1
  let scale := if lv.scheme == 2 then extra.headD oneF64 else oneF64
  let cf := if lv.scheme == 3 then extra.headD 1 else 1
  let polys := match w.2.2.2.2.2.1 with
    | [] => []
    | p0 :: ps => tr lv w.2.2.1 p0 :: ps
  let seeded := w.2.2.2.2.1
  ⟨w.1, w.2.1, w.2.2.1, scale, cf,
   if seeded then polys ++ [expand w.2.2.2.2.2.2 lv] else polys, []⟩

/-- `impl SerializableWithHeContext for Ciphertext` (compact format) -/
def ctC (ctx : Ctx) (expand : List Nat → Level → Poly) : Codec Ct :=
  mapC (ctWireC ctx polyC) (ctToWire ctx (fun _ _ p => p)) (ctOfWire ctx expand (fun _ _ p => p))

/-- raw variant: what is on the wire, without seed expansion (used to re-encode decoded bytes) -/
def ctOfWireRaw (ctx : Ctx) (tr : Level → Bool → Poly → Poly) (w : CtWire) : Ct :=
  let c := ctOfWire ctx (fun _ _ => []) tr w
  if w.2.2.2.2.1 then { c with polys := c.polys.take 1, seed := w.2.2.2.2.2.2 } else c

def ctRawC (ctx : Ctx) : Codec Ct :=
  mapC (ctWireC ctx polyC) (ctToWire ctx (fun _ _ p => p)) (ctOfWireRaw ctx (fun _ _ p => p))

/-! ### selected-terms format -/

def gather (terms : List Nat) (v : List Nat) : List Nat := terms.map (fun t => v.getD t 0)

/-- `component[term_index] = value` over a zeroed component, in stream order -/
def scatter (n : Nat) (terms : List Nat) (vals : List Nat) : List Nat :=
  (terms.zip vals).foldl (fun acc tv => acc.set tv.1 tv.2) (List.replicate n 0)

/-- polynomial 0 in the terms format: per component `|terms|` coefficients -/
def termsPolyC (nTerms : Nat) (lv : Level) : Codec Poly :=
  seqC (lv.moduli.map (fun q => repC nTerms (limC (u64Limit q))))

def mapIdx {α β} (f : Nat → α → β) : Nat → List α → List β
  | _, [] => []
  | i, x :: xs => f i x :: mapIdx f (i+1) xs

/-- `Ciphertext::serialize_terms` / `deserialize_terms`: polynomial 0 is taken to coefficient form
    (`inv lv j` if the ciphertext is in NTT form), only `terms` are written; the reader scatters them
    into a zero polynomial and transforms back (`fwd lv j`) -/
def ctTermsC (ctx : Ctx) (expand : List Nat → Level → Poly)
    (fwd inv : Level → Nat → List Nat → List Nat) (terms : List Nat) : Codec Ct :=
  mapC (ctWireC ctx (termsPolyC terms.length))
    (ctToWire ctx (fun lv ntt p => mapIdx (fun j comp => gather terms (if ntt then inv lv j comp else comp)) 0 p))
    (ctOfWire ctx expand (fun lv ntt p => mapIdx (fun j vals =>
        let comp := scatter lv.n terms vals
        if ntt then fwd lv j comp else comp) 0 p))

def ctTermsRawC (ctx : Ctx) (fwd inv : Level → Nat → List Nat → List Nat) (terms : List Nat) : Codec Ct :=
  mapC (ctWireC ctx (termsPolyC terms.length))
    (ctToWire ctx (fun lv ntt p => mapIdx (fun j comp => gather terms (if ntt then inv lv j comp else comp)) 0 p))
    (ctOfWireRaw ctx (fun lv ntt p => mapIdx (fun j vals =>
        let comp := scatter lv.n terms vals
        if ntt then fwd lv j comp else comp) 0 p))

/-! ### full format (`serialize_full`): flat `u64` words -/

structure CtFull where
  pid : List Nat
  size : Nat
  ntt : Bool
  scale : Nat
  cf : Nat
  data : List Nat          -- the flat `Vec<u64>`; for a seeded ciphertext only `k·N + 1 + 8` words are sent
  deriving DecidableEq, Repr

abbrev CtFullWire := List Nat × Nat × Bool × List Nat × List Nat

def ctFullWireC (ctx : Ctx) : Codec CtFullWire :=
  depC (guardC pidC (fun pid => (ctx.find pid).isSome)) (fun pid =>
    let lv := (ctx.find pid).getD noLevel
    pairC usizeC (pairC boolC (pairC (extraC lv.scheme) (vecC u64C))))

/-- number of words actually sent -/
def fullSent (lv : Level) (c : CtFull) : Nat :=
  let kn := lv.moduli.length * lv.n
  if c.size == 2 && c.data.getD kn 0 == seedFlag then kn + 1 + seedWords else c.data.length

/-- zero-filled buffer of `k·size·N` words, received words copied in, then `expand_seed` if flagged -/
def fullAssemble (expand : List Nat → Level → List Nat) (lv : Level) (size : Nat) (words : List Nat) : List Nat :=
  let kn := lv.moduli.length * lv.n
  let data := words ++ List.replicate (kn * size - words.length) 0
  if size == 2 && data.getD kn 0 == seedFlag then
    data.take kn ++ expand ((data.drop (kn + 1)).take seedWords) lv
  else data

def ctFullC (ctx : Ctx) (expand : List Nat → Level → List Nat) : Codec CtFull :=
  mapC (guardC (ctFullWireC ctx) (fun w =>
          let lv := (ctx.find w.1).getD noLevel
          w.2.2.2.2.length ≤ lv.moduli.length * lv.n * w.2.1))
    (fun c =>
      let lv := (ctx.find c.pid).getD noLevel
      let extra := if lv.scheme == 2 then [c.scale] else if lv.scheme == 3 then [c.cf] else []
      (c.pid, c.size, c.ntt, extra, c.data.take (fullSent lv c)))
    (fun w =>
      let lv := (ctx.find w.1).getD noLevel
      let extra := w.2.2.2.1
      ⟨w.1, w.2.1, w.2.2.1, if lv.scheme == 2 then extra.headD oneF64 else oneF64,
       if lv.scheme == 3 then extra.headD 1 else 1, fullAssemble expand lv w.2.1 w.2.2.2.2⟩)

/-! ### keys and containers -/

/-- `SecretKey` = its plaintext; `PublicKey` = its ciphertext (compact format) -/
structure KSwitch (γ : Type) where
  pid : List Nat
  keys : List (List γ)

/-- `KSwitchKeys` (= `RelinKeys`, `GaloisKeys`): parms_id, then `Vec<Vec<PublicKey>>`; a missing
    entry is an empty inner vector -/
def kswitchC {γ} (pk : Codec γ) : Codec (KSwitch γ) :=
  mapC (pairC pidC (vecC (vecC pk))) (fun k => (k.pid, k.keys)) (fun w => ⟨w.1, w.2⟩)

/-- `Cipher1d/2d/3d`, `Plain1d/2d/3d`: nested length-prefixed vectors -/
def c1dC {γ} (c : Codec γ) : Codec (List γ) := vecC c
def c2dC {γ} (c : Codec γ) : Codec (List (List γ)) := vecC (vecC c)
def c3dC {γ} (c : Codec γ) : Codec (List (List (List γ))) := vecC (vecC (vecC c))

/-- rns_plain objects: one component per component context, no length prefix -/
def rnspC {γ} (cs : List (Codec γ)) : Codec (List γ) := seqC cs

/-! ### PolynomialSerializer -/

def pidZero : List Nat := [0, 0, 0, 0]

/-- (parms_id, coefficients).  Non-zero id: `k·N` coefficients by component, compact widths.
    Zero id (plaintext polynomial): exactly `N` coefficients of `limit(t)` bytes, zero padded. -/
def polySerC (ctx : Ctx) : Codec (List Nat × Poly) :=
  depC (guardC pidC (fun pid => pid == pidZero || (ctx.find pid).isSome)) (fun pid =>
    if pid == pidZero then
      mapC (repC ctx.firstN (limC (u64Limit ctx.plainMod)))
        (fun p => let d := p.headD []; (d ++ List.replicate (ctx.firstN - d.length) 0).take ctx.firstN)
        (fun l => [l])
    else polyC ((ctx.find pid).getD noLevel))

/-! ### the Rust `serialized_size` formulas (closed forms, as written in the code) -/

def sumLimits (lv : Level) : Nat := (lv.moduli.map u64Limit).sum

def headerSize (lv : Level) : Nat := 32 + 8 + 1 + (if lv.scheme == 2 || lv.scheme == 3 then 8 else 0)

/-- `Ciphertext::serialized_size` -/
def ctSerializedSize (lv : Level) (size : Nat) (seeded : Bool) : Nat :=
  headerSize lv + 1 + (lv.moduli.map (fun q => (if seeded then 1 else size) * lv.n * u64Limit q)).sum
    + (if seeded then seedWords * 8 else 0)

/-- `Ciphertext::serialized_terms_size` -/
def ctSerializedTermsSize (lv : Level) (size : Nat) (seeded : Bool) (nTerms : Nat) : Nat :=
  headerSize lv + 1
    + (lv.moduli.map (fun q => (nTerms + ((if seeded then 1 else size) - 1) * lv.n) * u64Limit q)).sum
    + (if seeded then seedWords * 8 else 0)

/-- `Ciphertext::serialized_full_size` -/
def ctSerializedFullSize (lv : Level) (sent : Nat) : Nat := headerSize lv + 8 + sent * 8

/-- `EncryptionParameters::serialized_size` -/
def paramsSerializedSize (p : Params) : Nat :=
  1 + 8 + (8 + 8 * p.coeffMod.length) + (if hasPlain p.scheme then 8 else 0) + 1

/-- `Plaintext::serialized_size` -/
def plainSerializedSize (p : Plain) : Nat := 32 + (8 + 8 * p.data.length) + 8

/-! ### writers: streams obeying the `Write` contract, `write_all`, and the serializer driver -/

inductive WMode where
  | write       -- `stream.write(buf)` and return its count (pinned code)
  | writeAll    -- `stream.write_all(buf)?; Ok(buf.len())`
  deriving DecidableEq, Repr

inductive IOErr where
  | fault       -- the stream's own error
  | writeZero   -- `write_all` got `Ok(0)` (ErrorKind::WriteZero)
  deriving DecidableEq, Repr

/-- a stream defined by per-call acceptance limits (cycled) and an optional failing call index -/
structure Sink where
  limits : List Nat
  failAt : Option Nat
  calls : Nat
  out : Bytes
  deriving DecidableEq, Repr

def Sink.limit (s : Sink) : Nat :=
  if s.limits.isEmpty then 8 else s.limits.getD (s.calls % s.limits.length) 8

/-- one `Write::write` call: an error transmits nothing; otherwise `min limit |buf|` bytes are taken -/
def Sink.write (s : Sink) (buf : Bytes) : Except IOErr Nat × Sink :=
  if s.failAt = some s.calls then (.error .fault, { s with calls := s.calls + 1 })
  else
    let n := min s.limit buf.length
    (.ok n, { s with calls := s.calls + 1, out := s.out ++ buf.take n })

/-- the loop of `std::io::Write::write_all` with explicit fuel (`none` = fuel exhausted) -/
def writeAllFuel : Nat → Sink → Bytes → Option (Except IOErr Unit × Sink)
  | _, s, [] => some (.ok (), s)
  | 0, _, _ :: _ => none
  | f+1, s, b :: bs =>
    match s.write (b :: bs) with
    | (.error e, s') => some (.error e, s')
    | (.ok 0, s') => some (.error .writeZero, s')
    | (.ok (n+1), s') => writeAllFuel f s' ((b :: bs).drop (n+1))

/-- `write_all`; `|buf|` iterations always suffice (theorem `write_all_total`) -/
def writeAll (s : Sink) (buf : Bytes) : Except IOErr Unit × Sink :=
  (writeAllFuel buf.length s buf).getD (.error .fault, s)

/-- a scalar `serialize`: returns the byte count it claims -/
def scalarWrite (m : WMode) (s : Sink) (buf : Bytes) : Except IOErr Nat × Sink :=
  match m with
  | .write => s.write buf
  | .writeAll => match writeAll s buf with
    | (.ok (), s') => (.ok buf.length, s')
    | (.error e, s') => (.error e, s')

/-- a composite `serialize`: scalar calls in order, `?` on each, counts summed -/
def serialize (mode : SK → WMode) : List Chunk → Sink → Except IOErr Nat × Sink
  | [], s => (.ok 0, s)
  | c :: cs, s => match scalarWrite (mode c.kind) s c.bytes with
    | (.error e, s') => (.error e, s')
    | (.ok n, s') => match serialize mode cs s' with
      | (.error e, s'') => (.error e, s'')
      | (.ok m, s'') => (.ok (n + m), s'')

/-! ### writers that also report `ErrorKind::Interrupted` (part of the standard `Write` contract: "retry")

`std::io::Write::write_all` retries an interrupted call without consuming input; a direct `stream.write` does not. -/

/-- a stream that answers the `write` calls whose index (counted on this wrapper) is in `intr` with `Interrupted`
    (nothing transmitted, the underlying stream does not see the call) and passes every other call to `s` -/
structure SinkI where
  s : Sink
  intr : List Nat
  icalls : Nat
  deriving DecidableEq, Repr

inductive IOErrI where
  | interrupted
  | io (e : IOErr)
  deriving DecidableEq, Repr

def SinkI.write (w : SinkI) (buf : Bytes) : Except IOErrI Nat × SinkI :=
  if w.icalls ∈ w.intr then (.error .interrupted, { w with icalls := w.icalls + 1 })
  else match w.s.write buf with
    | (.ok n, s') => (.ok n, { w with s := s', icalls := w.icalls + 1 })
    | (.error e, s') => (.error (.io e), { w with s := s', icalls := w.icalls + 1 })

/-- interrupts still ahead of the call counter -/
def SinkI.pending (w : SinkI) : Nat := w.intr.countP (fun i => w.icalls ≤ i)

/-- the loop of `write_all`: `Interrupted` ⇒ `continue` -/
def writeAllIFuel : Nat → SinkI → Bytes → Option (Except IOErr Unit × SinkI)
  | _, w, [] => some (.ok (), w)
  | 0, _, _ :: _ => none
  | f+1, w, b :: bs =>
    match w.write (b :: bs) with
    | (.error .interrupted, w') => writeAllIFuel f w' (b :: bs)
    | (.error (.io e), w') => some (.error e, w')
    | (.ok 0, w') => some (.error .writeZero, w')
    | (.ok (n+1), w') => writeAllIFuel f w' ((b :: bs).drop (n+1))

/-- `|buf|` + the number of pending interrupts iterations always suffice (theorem `writeAllI_erase`) -/
def writeAllI (w : SinkI) (buf : Bytes) : Except IOErr Unit × SinkI :=
  (writeAllIFuel (buf.length + w.intr.length) w buf).getD (.error .fault, w)

/-- scalar writer over an interrupting stream: the pinned `stream.write` form surfaces the interruption as an error -/
def scalarWriteI (m : WMode) (w : SinkI) (buf : Bytes) : Except IOErrI Nat × SinkI :=
  match m with
  | .write => w.write buf
  | .writeAll => match writeAllI w buf with
    | (.ok (), w') => (.ok buf.length, w')
    | (.error e, w') => (.error (.io e), w')

def serializeI (mode : SK → WMode) : List Chunk → SinkI → Except IOErrI Nat × SinkI
  | [], w => (.ok 0, w)
  | c :: cs, w => match scalarWriteI (mode c.kind) w c.bytes with
    | (.error e, w') => (.error e, w')
    | (.ok n, w') => match serializeI mode cs w' with
      | (.error e, w'') => (.error e, w'')
      | (.ok m, w'') => (.ok (n + m), w'')

/-! ### readers: `unwrap()` (pinned) vs `?` -/

inductive RMode where
  | unwrap | propagate
  deriving DecidableEq, Repr

inductive ROut (α : Type) where
  | ok (x : α) (rest : Bytes)
  | err            -- `Err(_)` returned because the stream ended
  | panic          -- the reader panicked on the `read_exact` error
  | refused        -- any other refusal (unknown parms id, invalid scheme byte, InvalidData)
  deriving Repr

/-- outcome of `deserialize` as the caller sees it, given how each scalar reader treats `read_exact` errors -/
def readOutcome {α} (mode : SK → RMode) (r : Except DErr (α × Bytes)) : ROut α :=
  match r with
  | .ok (x, rest) => .ok x rest
  | .error (.eof s) => if mode s = .unwrap then .panic else .err
  | .error .bad => .refused

end HC.Codec
