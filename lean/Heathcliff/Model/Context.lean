/-
  Model of parameter validation, the modulus-switching chain and modulus generation of Heathcliff
  (src/context.rs, src/encryption_parameters.rs, src/modulus.rs, src/util/number_theory.rs `is_prime`/`get_primes`,
   src/util/rns.rs constructors as far as `HeContext::validate` observes them, src/util/hash.rs pre-image).

  Conventions (DESIGN.md §4, FRAMEWORK.md):
  * a modulus is its `u64` value (`Nat`); `Modulus::new` refuses 1 and values of more than 61 bits; 0 is the zero modulus;
  * the cached flag `Modulus::is_prime` (Miller–Rabin with 40 random rounds, `isPrimeW` below with the witnesses as
    inputs) enters `validate` / `getPrimes` as a predicate `isPrime : Nat → Bool`;
  * "NTT tables exist" = `isPrime q ∧ q ≡ 1 (mod 2N)` (`NTTTables::new` after the `fix:` commit; the random search for a
    primitive root, which fails with probability 2^-100 for a prime, is assumed to succeed);
  * multi-word constants are given by their value (`fromNat k v` = the `k` little-endian limbs of `v`); the word-level
    mirror of the same code paths built from `Model/Word.lean` is `wordConsts` (compared with the code by the driver);
    single-word steps use the `Model/Word.lean` functions the code calls (`barrett64`, `mulMod`, `MulOperand.new`, `gcdU64`,
    `tryInvert`);
  * the SHA-256 of `util::hash` is not modelled: a parameter id is represented by its pre-image (`Params.preimage`).
  No Mathlib imports: this file is compiled into the native driver.
-/
import Heathcliff.Model.Word
import Heathcliff.Gen.Constants
import Heathcliff.Gen.Standard
namespace HC.Ctx
open HC HC.Gen

abbrev Scheme := Gen.SchemeType
abbrev SecLevel := Gen.SecurityLevel
abbrev ErrorType := Gen.ErrorType

def prodL : List Nat → Nat
  | [] => 1
  | x :: xs => x * prodL xs

/-- `get_power_of_two`: `none` = −1 (value semantics of `value == 0 || value & (value-1) != 0`) -/
def powerOfTwo? (v : Nat) : Option Nat :=
  if v = 0 then none else if 2 ^ Nat.log2 v = v then some (Nat.log2 v) else none

/-! ## `is_prime` (number_theory.rs) with the random witnesses as inputs -/

/-- `while (d & 1) == 0 { d >>= 1; r += 1 }` -/
def splitPow2 : Nat → Nat → Nat → Nat × Nat
  | 0, d, r => (d, r)
  | f+1, d, r => if d % 2 = 0 then splitPow2 f (d / 2) (r + 1) else (d, r)

/-- `loop { x = x*x; count += 1; if x == value-1 || count >= r-1 {break} }` -/
def mrInner (m : Modulus) : Nat → Nat → Nat → Nat → R Nat
  | 0, x, _, _ => pure x
  | f+1, x, count, r => do
    let x' ← mulMod x x m
    if x' = m.value - 1 ∨ count + 2 ≥ r then pure x' else mrInner m f x' (count + 1) r

/-- rounds `i, i+1, …` (`n` of them); witness of round 0 is 2, of round `i > 0` it is `wit i ∈ [3, value)` -/
def mrRounds (m : Modulus) (d r : Nat) (wit : Nat → Nat) : Nat → Nat → R Bool
  | 0, _ => pure true
  | n+1, i => do
    let a := if i = 0 then 2 else wit i
    let x ← exponentiateMod a d m
    if x = 1 ∨ x = m.value - 1 then mrRounds m d r wit n (i + 1)
    else do
      let x' ← mrInner m 64 x 0 r
      if x' ≠ m.value - 1 then pure false else mrRounds m d r wit n (i + 1)

def isPrimeW (m : Modulus) (wit : Nat → Nat) : R Bool :=
  let v := m.value
  if v < 2 then pure false
  else if v = 2 then pure true else if v % 2 = 0 then pure false
  else if v = 3 then pure true else if v % 3 = 0 then pure false
  else if v = 5 then pure true else if v % 5 = 0 then pure false
  else if v = 7 then pure true else if v % 7 = 0 then pure false
  else if v = 11 then pure true else if v % 11 = 0 then pure false
  else if v = 13 then pure true else if v % 13 = 0 then pure false
  else
    let dr := splitPow2 64 (v - 1) 0
    if dr.2 = 0 then pure false
    else mrRounds m dr.1 dr.2 wit Gen.IS_PRIME_NUM_ROUNDS 0

/-! ## `get_primes`, `CoeffModulus::{create, max_bit_count, bfv_default}`, `PlainModulus::batching` -/

/-- the `while count > 0 && value > lower_bound` loop; `fuel` bounds the iterations (`value` decreases by `factor ≥ 1`) -/
def getPrimesLoop (isPrime : Nat → Bool) (factor lower : Nat) : Nat → Nat → Nat → List Nat → R (List Nat)
  | 0, _, _, _ => .error .other
  | fuel+1, value, count, acc =>
    if count > 0 ∧ value > lower then
      if value / 2^Gen.HE_MOD_BIT_COUNT_MAX ≠ 0 ∨ value = 1 then .error .refused      -- `Modulus::new(value)`
      else do
        let value' ← ckSub value factor
        if isPrime value then getPrimesLoop isPrime factor lower fuel value' (count - 1) (acc ++ [value])
        else getPrimesLoop isPrime factor lower fuel value' count acc
    else if count > 0 then .error .refused                                             -- "Failed to find enough qualifying primes"
    else pure acc

def getPrimes (isPrime : Nat → Bool) (factor bitSize count : Nat) : R (List Nat) :=
  if bitSize ≥ 64 then .error .overflow            -- `0x1u64 << bit_size`
  else if factor = 0 then .error .other            -- division by zero
  else if bitSize = 0 then .error .overflow        -- `bit_size - 1` on usize
  else
    let value := (2^bitSize - 1) / factor * factor + 1
    getPrimesLoop isPrime factor (2^(bitSize - 1)) (value + 1) value count []

def degreeOk (n : Nat) : Bool :=
  decide (Gen.HE_POLY_MOD_DEGREE_MIN ≤ n ∧ n ≤ Gen.HE_POLY_MOD_DEGREE_MAX) && (powerOfTwo? n).isSome

/-- `CoeffModulus::create`: the `j`-th occurrence of bit size `b` (which occurs `v` times) receives the `(v-1-j)`-th
    prime of `get_primes(2N, b, v)` (the code pops from the back of the per-size vector) -/
def createEntries (isPrime : Nat → Bool) (factor : Nat) (all : List Nat) : List Nat → List Nat → R (List Nat)
  | _, [] => pure []
  | seen, b :: rest => do
    let v := all.count b
    let j := seen.count b
    let ps ← getPrimes isPrime factor b v
    match ps[v - 1 - j]? with
    | none => .error .other
    | some p => do
      let tl ← createEntries isPrime factor all (seen ++ [b]) rest
      pure (p :: tl)

def create (isPrime : Nat → Bool) (n : Nat) (bitSizes : List Nat) : R (List Nat) :=
  if !degreeOk n then .error .refused
  else if bitSizes.length > Gen.HE_COEFF_MOD_COUNT_MAX then .error .refused
  else if bitSizes.length < Gen.HE_COEFF_MOD_COUNT_MIN then .error .refused
  else if bitSizes.any (· > Gen.HE_USER_MOD_BIT_COUNT_MAX) then .error .refused
  else if bitSizes.any (· < Gen.HE_USER_MOD_BIT_COUNT_MIN) then .error .refused
  else createEntries isPrime (2 * n) bitSizes [] bitSizes

def batching (isPrime : Nat → Bool) (n bitSize : Nat) : R Nat := do
  match ← create isPrime n [bitSize] with
  | p :: _ => pure p
  | [] => .error .other

def maxBitCount (n : Nat) (sec : SecLevel) : Nat := Gen.maxBitCount sec n

def bfvDefault (n : Nat) (sec : SecLevel) : R (List Nat) :=
  if maxBitCount n sec = 0 then .error .refused
  else match Gen.bfvDefault sec n with
    | some l => pure l
    | none => .error .refused

/-! ## `EncryptionParameters` (builder guards, id pre-image) -/

structure Params where
  scheme : Scheme
  n : Nat                -- poly_modulus_degree
  q : List Nat           -- coeff_modulus values
  t : Nat                -- plain_modulus value
  special : Bool         -- use_special_prime_for_encryption
  deriving Repr, DecidableEq

/-- the `u64` vector fed to the hash by `compute_parms_id` -/
def Params.preimage (p : Params) : List Nat := p.scheme.code :: p.n :: (p.q ++ [p.t])

/-- `Modulus::new` as a guard -/
def modulusOk (v : Nat) : Bool := v = 0 || (v / 2^Gen.HE_MOD_BIT_COUNT_MAX = 0 && v ≠ 1)

def Params.new (s : Scheme) : Params := ⟨s, 0, [], 0, false⟩

def Params.setDegree (p : Params) (n : Nat) : R Params :=
  if p.scheme = .None ∧ n > 0 then .error .refused else pure { p with n := n }

/-- `set_coeff_modulus(&[Modulus::new(v) …])` -/
def Params.setCoeff (p : Params) (q : List Nat) : R Params :=
  if !q.all modulusOk then .error .refused
  else if p.scheme = .None ∧ !q.isEmpty then .error .refused
  else if q.length > Gen.HE_COEFF_MOD_COUNT_MAX ∨ q.length < Gen.HE_COEFF_MOD_COUNT_MIN then .error .refused
  else pure { p with q := q }

def Params.setPlain (p : Params) (t : Nat) : R Params :=
  if !modulusOk t then .error .refused
  else if p.scheme ≠ .BFV ∧ p.scheme ≠ .BGV ∧ t ≠ 0 then .error .refused
  else pure { p with t := t }

/-- builder call sequence used by the harness: `new(s)`, `set_poly_modulus_degree(n)`, optionally `set_coeff_modulus(q)`,
    `set_plain_modulus_u64(t)`, `set_use_special_prime_for_encryption(sp)` -/
def Params.build (s : Scheme) (n : Nat) (q : Option (List Nat)) (t : Nat) (sp : Bool) : R Params := do
  let p ← (Params.new s).setDegree n
  let p ← match q with
    | none => pure p
    | some l => p.setCoeff l
  let p ← p.setPlain t
  pure { p with special := sp }

/-! ## `HeContext::validate` -/

structure ContextData where
  parms : Params
  err : ErrorType := .None
  fft : Bool := false
  ntt : Bool := false
  batching : Bool := false
  fastLift : Bool := false
  descending : Bool := false
  sec : SecLevel := .None
  total : List Nat := []                      -- total_coeff_modulus
  totalBits : Nat := 0
  coeffDivPlain : List MulOperand := []       -- coeff_div_plain_modulus
  plainUpperHalfThreshold : Nat := 0
  plainUpperHalfIncrement : List Nat := []
  upperHalfThreshold : List Nat := []
  upperHalfIncrement : List Nat := []         -- (no public accessor in the crate)
  qModT : Nat := 0                            -- coeff_modulus_mod_plain_modulus
  deriving Repr

def ContextData.valid (c : ContextData) : Bool := c.err = .Success

/-- "NTT tables exist" for `2^k` coefficients -/
def nttOk (isPrime : Nat → Bool) (k q : Nat) : Bool := isPrime q && (q - 1) % (2 * 2^k) == 0

def pairwiseCoprimeB : List Nat → Bool
  | [] => true
  | x :: xs => xs.all (fun y => gcdU64 x y ≤ 1) && pairwiseCoprimeB xs

def prodExcept (qs : List Nat) (i : Nat) : Nat := prodL (qs.take i ++ qs.drop (i + 1))

def invertible (v m : Nat) : R Bool := do
  match ← tryInvert v m with
  | some _ => pure true
  | none => pure false

/-- `RNSBase::new` + `initialize`: `true` = `Ok`, `false` = `Err` -/
def rnsBaseNew (qs : List Nat) : R Bool :=
  if qs.isEmpty then pure false
  else if qs.any (· = 0) then pure false
  else if !pairwiseCoprimeB qs then pure false
  else if qs.length > 1 then
    (List.range qs.length).foldlM (fun ok i =>
      if !ok then pure false else invertible (prodExcept qs i % qs.getD i 0) (qs.getD i 0)) true
  else pure true

/-- every `assert!(try_invert …)` of `RNSTool::new` -/
def assertAll (l : List (Nat × Nat)) : R Unit :=
  l.forM (fun vm => do
    if !(← invertible vm.1 vm.2) then .error .other else pure ())

/-- `RNSTool::new(poly_modulus_degree, q, t)` as far as its outcome goes: `true` = `Ok`, `false` = `Err`,
    `.error` = panic (`get_primes`, `unwrap`, `assert!`) -/
def rnsToolNew (isPrime : Nat → Bool) (n : Nat) (qs : List Nat) (t : Nat) : R Bool := do
  let k := qs.length
  if k < Gen.HE_COEFF_MOD_COUNT_MIN ∨ k > Gen.HE_COEFF_MOD_COUNT_MAX then pure false
  else if !degreeOk n then pure false
  else
    let kp := Nat.log2 n
    let Q := prodL qs
    let bSize := if 32 + bitCount t + bitCount Q ≥ Gen.HE_INTERNAL_MOD_BIT_COUNT * k + Gen.HE_INTERNAL_MOD_BIT_COUNT
                 then k + 1 else k
    let primes ← getPrimes isPrime (2 * n) Gen.HE_INTERNAL_MOD_BIT_COUNT (bSize + 2)
    match primes with
    | msk :: gamma :: bPrimes =>
      let mTilde := 2^32
      let bsk := bPrimes ++ [msk]
      if !(← rnsBaseNew bPrimes) then pure false
      else if !(← rnsBaseNew bsk) then pure false
      else if !(← rnsBaseNew (bsk ++ [mTilde])) then pure false
      else if t ≠ 0 ∧ !(← rnsBaseNew [t, gamma]) then pure false
      else if !bsk.all (nttOk isPrime kp) then .error .other          -- `create_ntt_tables(..).unwrap()`
      else do
        let pB := prodL bPrimes
        let last := qs.getLastD 0
        assertAll (bsk.map (fun m => (Q % m, m)))
        assertAll [(pB % msk, msk)]
        assertAll (bsk.map (fun m => (mTilde % m, m)))
        assertAll [(Q % mTilde, mTilde)]
        if t ≠ 0 then assertAll [(gamma % t, t), (Q % t, t), (Q % gamma, gamma)]
        assertAll (qs.dropLast.map (fun b => (last, b)))
        if t ≠ 0 then assertAll [(last, t)]
        pure true
    | _ => .error .other                                               -- `next().unwrap()`

def descendingB : List Nat → Bool
  | [] => true
  | [_] => true
  | x :: y :: rest => decide (x > y) && descendingB (y :: rest)

/-- scheme-specific part for BFV / BGV (after the NTT test) -/
def validateBfv (isPrime : Nat → Bool) (c : ContextData) (kp : Nat) (Q : Nat) : R (ContextData × Bool) :=
  let qs := c.parms.q
  let t := c.parms.t
  let k := qs.length
  if t / 2^Gen.HE_PLAIN_MOD_BIT_COUNT_MAX > 0 ∨ t / 2^(Gen.HE_PLAIN_MOD_BIT_COUNT_MIN - 1) = 0 then
    pure ({ c with err := .InvalidPlainModulusBitCount }, false)
  else if qs.any (fun q => gcdU64 q t > 1) then pure ({ c with err := .InvalidPlainModulusCoprimality }, false)
  else if !(t < Q) then pure ({ c with err := .InvalidPlainModulusTooLarge }, false)
  else do
    let batching := nttOk isPrime kp t
    let fast := qs.all (fun q => !(q ≤ t))
    let quot := Q / t                                   -- divide_uint(total, wide_plain, quotient, remainder)
    let rem := Q % t
    -- decompose: identity for a single modulus, `modulo_uint` otherwise
    let dec (v : Nat) : List Nat := if k > 1 then qs.map (fun q => v % q) else fromNat k v
    let cdp ← ((dec quot).zip qs).mapM (fun xq => do
      let m ← Modulus.mk? xq.2
      MulOperand.new xq.1 m)
    let puhi ← if fast then qs.mapM (fun q => ckSub q t) else pure (fromNat k (Q - t))
    pure ({ c with batching := batching, fastLift := fast, coeffDivPlain := cdp, upperHalfIncrement := dec rem,
                   qModT := (fromNat k rem).headD 0, plainUpperHalfThreshold := (t + 1) / 2,
                   plainUpperHalfIncrement := puhi }, true)

/-- scheme-specific part for CKKS -/
def validateCkks (c : ContextData) (Q : Nat) : R (ContextData × Bool) :=
  let qs := c.parms.q
  let k := qs.length
  if c.parms.t ≠ 0 then pure ({ c with err := .InvalidPlainModulusNonzero }, false)
  else do
    let puhi ← qs.mapM (fun q => do
      let m ← Modulus.mk? q
      let tmp ← barrett64 (2^63) m                      -- coeff_modulus[i].reduce(1 << 63)
      let qm2 ← ckSub q 2
      mulMod tmp qm2 m)
    pure ({ c with batching := true, fastLift := false, plainUpperHalfThreshold := 2^63,
                   plainUpperHalfIncrement := puhi,
                   upperHalfThreshold := fromNat k (((Q + 1) % B64^k) / 2) }, true)

/-- the scheme-specific step of `validate` (plain-modulus tests and constants) -/
def schemeStep (isPrime : Nat → Bool) (p : Params) (kp Q : Nat) (c : ContextData) : R (ContextData × Bool) :=
  match p.scheme with
  | .BFV | .BGV => validateBfv isPrime { c with ntt := true } kp Q
  | .CKKS => validateCkks { c with ntt := true } Q
  | .None => pure ({ c with ntt := true, err := .InvalidScheme }, false)     -- "This should never be executed"

/-- part of `validate` after the security test: RNS base, NTT tables, scheme-specific constants, RNS tool, Galois tool
    (written with explicit binds so that the term stays small) -/
def validateTail (isPrime : Nat → Bool) (p : Params) (kp Q : Nat) (c : ContextData) : R ContextData :=
  rnsBaseNew p.q >>= fun b =>
    if !b then pure { c with err := .FailedCreatingRNSBase }
    else if !p.q.all (nttOk isPrime kp) then pure { c with ntt := false, err := .InvalidCoeffModulusNoNTT }
    else schemeStep isPrime p kp Q c >>= fun r =>
      if !r.2 then pure r.1
      else rnsToolNew isPrime p.n p.q p.t >>= fun b2 =>
        if !b2 then pure { r.1 with err := .FailedCreatingRNSTool }
        else pure { r.1 with descending := descendingB p.q }

/-- the object as it is when the moduli have passed the size tests (product and bit count stored) -/
def ctx1 (p : Params) : ContextData :=
  { parms := p, err := .Success, total := fromNat p.q.length (prodL p.q), totalBits := bitCount (prodL p.q) }

/-- … and after the degree tests: `using_fft`, and the security level (downgraded to `None` if the total bit count exceeds
    the standard's table) -/
def ctx2 (p : Params) (sec : SecLevel) : ContextData :=
  { ctx1 p with fft := true, sec := if bitCount (prodL p.q) > maxBitCount p.n sec then .None else sec }

def validate (isPrime : Nat → Bool) (p : Params) (sec : SecLevel) : R ContextData :=
  let k := p.q.length
  if p.scheme = .None then pure { parms := p, err := .InvalidScheme }
  else if k > Gen.HE_COEFF_MOD_COUNT_MAX ∨ k < Gen.HE_COEFF_MOD_COUNT_MIN then pure { parms := p, err := .InvalidCoeffModulusSize }
  else if p.q.any (fun q => q / 2^Gen.HE_USER_MOD_BIT_COUNT_MAX > 0 ∨ q / 2^(Gen.HE_USER_MOD_BIT_COUNT_MIN - 1) = 0) then
    pure { parms := p, err := .InvalidCoeffModulusBitCount }
  else if p.n < Gen.HE_POLY_MOD_DEGREE_MIN ∨ p.n > Gen.HE_POLY_MOD_DEGREE_MAX then
    pure { ctx1 p with err := .InvalidPolyModulusDegree }
  else match powerOfTwo? p.n with
    | none => pure { ctx1 p with err := .InvalidPolyModulusDegreeNonPowerOfTwo }
    | some kp =>
      if k * p.n ≥ B64 then pure { ctx1 p with err := .InvalidParametersTooLarge }        -- `overflowing_mul` on usize
      else if bitCount (prodL p.q) > maxBitCount p.n sec ∧ sec ≠ .None then
        pure { ctx2 p sec with err := .InvalidParametersInsecure }
      else validateTail isPrime p kp (prodL p.q) (ctx2 p sec)

/-! ## `create_next_context_data`, `HeContext::new` -/

/-- `none` = `PARMS_ID_ZERO` (next level invalid); the new level drops the last modulus.
    (`set_coeff_modulus` would refuse an empty list; the callers only come here with ≥ 2 moduli.) -/
def createNext (isPrime : Nat → Bool) (prev : Params) (sec : SecLevel) : R (Option ContextData) := do
  let next ← prev.setCoeff prev.q.dropLast
  let c ← validate isPrime next sec
  if c.valid then pure (some c) else pure none

/-- the `while … coeff_modulus().len() > 1` loop of `HeContext::new` -/
def expandFrom (isPrime : Nat → Bool) (sec : SecLevel) : Nat → Params → R (List ContextData)
  | 0, _ => pure []
  | fuel+1, prev =>
    if prev.q.length > 1 then do
      match ← createNext isPrime prev sec with
      | none => pure []
      | some c => do
        let rest ← expandFrom isPrime sec fuel c.parms
        pure (c :: rest)
    else pure []

structure Context where
  levels : List ContextData      -- the chain in `next_context_data` order, key level first
  firstIdx : Nat                 -- position of `first_parms_id` in `levels` (key = 0)
  usingKeyswitching : Bool
  sec : SecLevel
  deriving Repr

def Context.lastIdx (x : Context) : Nat := x.levels.length - 1
/-- `chain_index` of the level at position `i`: `context_data_map.len() - 1 - i` -/
def Context.chainIndex (x : Context) (i : Nat) : Nat := x.levels.length - 1 - i

def Context.new (isPrime : Nat → Bool) (p : Params) (expand : Bool) (sec : SecLevel) : R Context := do
  let key ← validate isPrime p sec
  let first? ← if !key.valid || p.q.length == 1 || p.special then pure none else createNext isPrime p sec
  let firstData := first?.getD key
  let rest ← if expand && firstData.valid then expandFrom isPrime sec firstData.parms.q.length firstData.parms else pure []
  pure { levels := key :: (first?.toList ++ rest), firstIdx := if first?.isSome then 1 else 0,
         usingKeyswitching := first?.isSome, sec := sec }

/-! ## word-level mirror of the multi-word code paths of `validate` (tied to the code by the driver) -/

structure WordConsts where
  total : List Nat
  totalBits : Nat
  quotDec : List Nat          -- decomposed coeff_div_plain_modulus operands
  remDec : List Nat           -- decomposed upper_half_increment
  qModT : Nat
  puhiSlow : List Nat         -- total - plain (non-fast-lift branch)
  uht : List Nat              -- CKKS upper_half_threshold

def decomposeW (qs : List Nat) (v : List Nat) : R (List Nat) :=
  if qs.length > 1 then qs.mapM (fun q => do let m ← Modulus.mk? q; moduloUint v m) else pure v

def wordConsts (qs : List Nat) (t : Nat) : R WordConsts := do
  let k := qs.length
  let total ← multiplyManyU64 qs k
  let bits ← bitCountUint total
  let wideT := t :: List.replicate (k - 1) 0
  let (quot, rem) ← if t = 0 then pure (List.replicate k 0, List.replicate k 0) else do
    let (r, q) ← divideUint total wideT k
    pure (q, r)
  let quotDec ← decomposeW qs quot
  let remDec ← decomposeW qs rem
  let (slow, _) ← subUint total wideT k
  let (inc, _) ← addUintU64 total 1 k
  let uht ← rightShiftUint inc 1 k
  pure ⟨total, bits, quotDec, remDec, rem.headD 0, slow, uht⟩

end HC.Ctx
