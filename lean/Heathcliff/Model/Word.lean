/-
  Model of the word-level and multi-word arithmetic of Heathcliff
  (src/util/basic.rs, src/util/uintsmallmod.rs, src/util/number_theory.rs, src/modulus.rs).

  Conventions (DESIGN.md §4):
  * a `u64` is a `Nat` (< 2^64 carried as hypothesis in the theorems);
  * Rust `wrapping_*`   -> explicit `% 2^64`;
  * Rust plain `+ - *`  -> *checked* operations in `Except Err` (the harness is compiled with
    overflow checks, so an overflow is an observable refusal);
  * `&mut` outputs      -> returned values; slices -> `List Nat` (little endian limbs).
  No imports: this file is compiled into the native driver.
-/
namespace HC

inductive Err where
  | overflow | refused | oob | other
  deriving DecidableEq, Repr, Inhabited

def Err.toStr : Err → String
  | .overflow => "overflow" | .refused => "refused" | .oob => "oob" | .other => "other"

abbrev R := Except Err

def B64 : Nat := 18446744073709551616      -- 2^64

def ckAdd (a b : Nat) : R Nat := if a + b < B64 then .ok (a + b) else .error .overflow
def ckSub (a b : Nat) : R Nat := if b ≤ a then .ok (a - b) else .error .overflow
def ckMul (a b : Nat) : R Nat := if a * b < B64 then .ok (a * b) else .error .overflow
def wAdd (a b : Nat) : Nat := (a + b) % B64
def wSub (a b : Nat) : Nat := (a + B64 - b % B64) % B64
def wMul (a b : Nat) : Nat := (a * b) % B64
def notW (a : Nat) : Nat := B64 - 1 - a

/-! ### L0: single-word carry primitives -/

/-- `add_u64`: (result, carry) ; carry = (result < operand1) -/
def addU64 (a b : Nat) : Nat × Nat :=
  let r := wAdd a b
  (r, if r < a then 1 else 0)

/-- `add_u64_carry`: a' = a+b wrapped; result = a'+carry wrapped;
    carry_out = (a' < b) || (!a' < carry) -/
def addU64Carry (a b c : Nat) : Nat × Nat :=
  let a' := wAdd a b
  (wAdd a' c, if a' < b ∨ notW a' < c then 1 else 0)

/-- `sub_u64`: (result, borrow) -/
def subU64 (a b : Nat) : Nat × Nat := (wSub a b, if b > a then 1 else 0)

/-- `sub_u64_borrow` -/
def subU64Borrow (a b bw : Nat) : Nat × Nat :=
  let d := wSub a b
  (wSub d (if bw ≠ 0 then 1 else 0), if d > a ∨ d < bw then 1 else 0)

def mulHi (a b : Nat) : Nat := (a * b) / B64
def mulLo (a b : Nat) : Nat := (a * b) % B64

/-- `get_significant_bit_count` -/
def bitCount (v : Nat) : Nat := if v = 0 then 0 else Nat.log2 v + 1

/-! ### Modulus -/

structure Modulus where
  value : Nat
  cr0 : Nat      -- const_ratio[0] : low  word of floor(2^128 / value)
  cr1 : Nat      -- const_ratio[1] : high word of floor(2^128 / value)
  cr2 : Nat      -- const_ratio[2] : 2^128 mod value
  bits : Nat
  deriving Repr

/-- `Modulus::new` / `set_value` (value 0 gives the zero modulus; 1 or > 61 bits refused).
    `divide_u192_u64_inplace` on numerator 2^128 is modelled by its quotient / remainder
    (the shift-subtract loop itself is modelled as `divideUint` below and tied by correspondence). -/
def Modulus.mk? (v : Nat) : R Modulus :=
  if v = 0 then .ok ⟨0, 0, 0, 0, 0⟩
  else if v / 2^61 ≠ 0 ∨ v = 1 then .error .refused
  else
    let q := 2^128 / v
    .ok ⟨v, q % B64, q / B64, 2^128 % v, bitCount v⟩

/-! ### L2: modular primitives on one word (src/util/uintsmallmod.rs) -/

def incrementMod (x : Nat) (m : Modulus) : R Nat := do
  let x ← ckAdd x 1
  if x ≥ m.value then ckSub x m.value else pure x

def decrementMod (x : Nat) (m : Modulus) : R Nat :=
  if x = 0 then ckSub m.value 1 else ckSub x 1

def negateMod (x : Nat) (m : Modulus) : R Nat :=
  if x = 0 then pure 0 else ckSub m.value x

def div2Mod (x : Nat) (m : Modulus) : R Nat :=
  if x % 2 = 1 then
    let (t, c) := addU64 x m.value
    let r := t / 2
    pure (if c > 0 then r + 2^63 - (r / 2^63 % 2) * 2^63 else r)   -- r | (1<<63)
  else pure (x / 2)

def addMod (a b : Nat) (m : Modulus) : R Nat := do
  let s ← ckAdd a b
  if s ≥ m.value then ckSub s m.value else pure s

def subMod (a b : Nat) (m : Modulus) : R Nat :=
  let (t, bw) := subU64 a b
  pure (if bw > 0 then wAdd t m.value else t)

/-- `barrett_reduce_u128(input = [x0, x1])` -/
def barrett128 (x0 x1 : Nat) (m : Modulus) : R Nat := do
  let carry := mulHi x0 m.cr0
  let t0 := mulLo x0 m.cr1
  let t1 := mulHi x0 m.cr1
  let (tmp1, c1) := addU64 t0 carry
  let tmp3 ← ckAdd t1 c1
  let u0 := mulLo x1 m.cr0
  let u1 := mulHi x1 m.cr0
  let (_, c2) := addU64 tmp1 u0
  let carry2 ← ckAdd u1 c2
  let tmp1' := wAdd (wAdd (wMul x1 m.cr1) tmp3) carry2
  let tmp3' := wSub x0 (wMul tmp1' m.value)
  if tmp3' ≥ m.value then ckSub tmp3' m.value else pure tmp3'

/-- `barrett_reduce_u64` -/
def barrett64 (x : Nat) (m : Modulus) : R Nat := do
  let t := mulHi x m.cr1
  let p ← ckMul t m.value
  let r ← ckSub x p
  if r ≥ m.value then ckSub r m.value else pure r

def mulMod (a b : Nat) (m : Modulus) : R Nat :=
  barrett128 (mulLo a b) (mulHi a b) m

structure MulOperand where
  operand : Nat
  quotient : Nat
  deriving Repr

/-- `MultiplyU64ModOperand::new` : quotient = low word of floor(operand * 2^64 / modulus)
    (`divide_u128_u64_inplace` is a native `u128` division in the code) -/
def MulOperand.new (y : Nat) (m : Modulus) : R MulOperand :=
  if m.value = 0 then .error .other
  else pure ⟨y, (y * B64 / m.value) % B64⟩

def mulOperandModLazy (x : Nat) (y : MulOperand) (m : Modulus) : Nat :=
  let t := mulHi x y.quotient
  wSub (wMul y.operand x) (wMul t m.value)

def mulOperandMod (x : Nat) (y : MulOperand) (m : Modulus) : R Nat :=
  let r := mulOperandModLazy x y m
  if r ≥ m.value then ckSub r m.value else pure r

/-- `modulo_uint` -/
def moduloUint (v : List Nat) (m : Modulus) : R Nat :=
  match v with
  | [] => .error .oob
  | [x] => if x < m.value then pure x else barrett64 x m
  | _ =>
    let rv := v.reverse
    match rv with
    | [] => .error .oob
    | top :: rest => rest.foldlM (fun acc lo => barrett128 lo acc m) top

def mulAddMod (a b c : Nat) (m : Modulus) : R Nat := do
  let lo := mulLo a b
  let hi := mulHi a b
  let (lo', cy) := addU64 lo c
  let hi' ← ckAdd hi cy
  barrett128 lo' hi' m

def mulOperandAddMod (a : Nat) (b : MulOperand) (c : Nat) (m : Modulus) : R Nat := do
  let p ← mulOperandMod a b m
  let c' ← barrett64 c m
  addMod p c' m

/-- `exponentiate_u64_mod`: square-and-multiply, LSB first; fuel = 64 bits of exponent -/
def expLoop (m : Modulus) : Nat → Nat → Nat → Nat → R Nat
  | 0, _, _, inter => pure inter
  | fuel+1, power, e, inter => do
    let inter' ← if e % 2 = 1 then mulMod power inter m else pure inter
    let e' := e / 2
    if e' = 0 then pure inter'
    else do
      let power' ← mulMod power power m
      expLoop m fuel power' e' inter'

def exponentiateMod (x e : Nat) (m : Modulus) : R Nat :=
  if e = 0 then pure 1
  else if e = 1 then pure x
  else expLoop m 64 x e 1

/-- `add_u128_inplace` (carry out ignored by the caller) -/
def addU128 (a0 a1 b0 b1 : Nat) : Nat × Nat :=
  let (r0, c) := addU64 a0 b0
  let (r1, _) := addU64Carry a1 b1 c
  (r0, r1)

/-- `dot_product_mod` -/
def dotProductMod (xs ys : List Nat) (m : Modulus) : R Nat :=
  if ys.length < xs.length then .error .oob else
  let acc := (xs.zip ys).foldl (fun (acc : Nat × Nat) (p : Nat × Nat) =>
      addU128 acc.1 acc.2 (mulLo p.1 p.2) (mulHi p.1 p.2)) (0, 0)
  barrett128 acc.1 acc.2 m

/-! ### number_theory.rs -/

/-- `gcd` (recursion as in the code; fuel bounds the Euclid steps: 2*64+2 suffices for u64) -/
def gcdLoop : Nat → Nat → Nat → Nat
  | 0, x, _ => x
  | fuel+1, x, y =>
    if x < y then gcdLoop fuel y x
    else if y = 0 then x
    else
      let f := x % y
      if f = 0 then y else gcdLoop fuel y f

def gcdU64 (x y : Nat) : Nat := gcdLoop 200 x y

/-- `xgcd` with `i64` coefficients (checked: overflow of the `i64` products is a refusal) -/
def ckI64 (v : Int) : R Int := if -(2^63 : Int) ≤ v ∧ v < 2^63 then pure v else .error .overflow

/-- `v as i64` for a `u64` value -/
def asI64 (v : Nat) : Int := if v < 2^63 then Int.ofNat v else Int.ofNat v - 2^64

def xgcdLoop : Nat → Nat → Nat → Int → Int → Int → Int → R (Nat × Int × Int)
  | 0, _, _, _, _, _, _ => .error .other
  | fuel+1, x, y, prevA, a, prevB, b =>
    if y = 0 then pure (x, prevA, prevB)
    else do
      let q := asI64 (x / y)          -- `(x / y) as i64` (reinterpreting cast, never panics)
      let qa ← ckI64 (q * a)
      let a' ← ckI64 (prevA - qa)
      let qb ← ckI64 (q * b)
      let b' ← ckI64 (prevB - qb)
      xgcdLoop fuel y (x % y) a a' b b'

def xgcd (x y : Nat) : R (Nat × Int × Int) := xgcdLoop 200 x y 1 0 0 1

/-- `try_invert_u64_mod_u64`: none = returns false -/
def tryInvert (v m : Nat) : R (Option Nat) :=
  if v = 0 then pure none else do
    let (g, a, _) ← xgcd v m
    if g ≠ 1 then pure none
    else if a < 0 then do
      let s ← ckI64 (Int.ofNat m + a)
      pure (some s.toNat)
    else pure (some a.toNat)

/-- `naf` on `i32` (value.abs() overflows for i32::MIN: refused) -/
def nafLoop : Nat → Nat → Nat → Bool → List Int → List Int
  | 0, _, _, _, acc => acc.reverse
  | fuel+1, v, i, sign, acc =>
    if v = 0 then acc.reverse else
    let zi : Int := if v % 2 = 1 then 2 - Int.ofNat (v % 4) else 0
    let v' := ((Int.ofNat v - zi) / 2).toNat
    let acc' := if zi ≠ 0 then ((if sign then -zi else zi) * (2^i : Nat)) :: acc else acc
    nafLoop fuel v' (i+1) sign acc'

def naf (value : Int) : R (List Int) :=
  if value ≤ -(2^31 : Int) ∨ value ≥ 2^31 then .error .overflow
  else pure (nafLoop 40 value.natAbs 0 (value < 0) [])

/-! ### L1: multi-word helpers (src/util/basic.rs) -/

def toNat : List Nat → Nat
  | [] => 0
  | x :: xs => x + B64 * toNat xs

def getD0 (l : List Nat) (i : Nat) : Nat := l.getD i 0

/-- generic ripple: `add_uint_carry` style (missing limbs read as 0), `n` result limbs -/
def addLimbs : Nat → List Nat → List Nat → Nat → List Nat × Nat
  | 0, _, _, c => ([], c)
  | n+1, a, b, c =>
    let (r, c') := addU64Carry (a.headD 0) (b.headD 0) c
    let (rs, cf) := addLimbs n a.tail b.tail c'
    (r :: rs, cf)

def subLimbs : Nat → List Nat → List Nat → Nat → List Nat × Nat
  | 0, _, _, c => ([], c)
  | n+1, a, b, c =>
    let (r, c') := subU64Borrow (a.headD 0) (b.headD 0) c
    let (rs, cf) := subLimbs n a.tail b.tail c'
    (r :: rs, cf)

/-- `add_uint(op1, op2, result)` with `result.len() = n ≥ 1`; indexes op1[i], op2[i] directly
    (out of bounds if an operand is shorter than the result) -/
def addUint (a b : List Nat) (n : Nat) : R (List Nat × Nat) :=
  if n = 0 ∨ a.length < n ∨ b.length < n then .error .oob
  else
    let (r0, c0) := addU64 (a.headD 0) (b.headD 0)
    let (rs, c) := addLimbs (n-1) a.tail b.tail c0
    pure (r0 :: rs, c)

/-- `sub_uint`: first limb direct index, later limbs zero-extended -/
def subUint (a b : List Nat) (n : Nat) : R (List Nat × Nat) :=
  if n = 0 ∨ a.length < 1 ∨ b.length < 1 then .error .oob
  else
    let (r0, c0) := subU64 (a.headD 0) (b.headD 0)
    let (rs, c) := subLimbs (n-1) a.tail b.tail c0
    pure (r0 :: rs, c)

def addUintU64 (a : List Nat) (b : Nat) (n : Nat) : R (List Nat × Nat) :=
  if n = 0 ∨ a.length < n then .error .oob
  else
    let (r0, c0) := addU64 (a.headD 0) b
    let (rs, c) := addLimbs (n-1) a.tail [] c0
    pure (r0 :: rs, c)

def subUintU64 (a : List Nat) (b : Nat) (n : Nat) : R (List Nat × Nat) :=
  if n = 0 ∨ a.length < n then .error .oob
  else
    let (r0, c0) := subU64 (a.headD 0) b
    let (rs, c) := subLimbs (n-1) a.tail [] c0
    pure (r0 :: rs, c)

/-- `negate_uint` -/
def negateUint (a : List Nat) (n : Nat) : R (List Nat) :=
  if n = 0 ∨ a.length < n then .error .oob
  else
    let (r0, c0) := addU64 (notW (a.headD 0)) 1
    let (rs, _) := addLimbs (n-1) ((a.tail.take (n-1)).map notW) [] c0
    pure (r0 :: rs)

/-- `multiply_uint_u64(op1, w, result)` with `n = result.len()`.
    `carry = hi + carrybit` is a plain `+` (cannot overflow: hi ≤ 2^64-2). -/
def mulLimbsU64 : List Nat → Nat → Nat → Nat → R (List Nat × Nat)
  | _, _, 0, carry => pure ([], carry)
  | [], _, _+1, carry => pure ([], carry)
  | x :: xs, w, k+1, carry => do
    let lo := mulLo x w
    let hi := mulHi x w
    let (t, c) := addU64Carry lo carry 0
    let carry' ← ckAdd hi c
    let (rs, cf) ← mulLimbsU64 xs w k carry'
    pure (t :: rs, cf)

def padTo (l : List Nat) (n : Nat) : List Nat := l ++ List.replicate (n - l.length) 0

def multiplyUintU64 (a : List Nat) (w : Nat) (n : Nat) : R (List Nat) :=
  if a.isEmpty ∨ w = 0 then pure (List.replicate n 0)
  else if n = 1 then pure [wMul (a.headD 0) w]
  else do
    let k := min a.length n
    let (rs, carry) ← mulLimbsU64 a w k 0
    if k < n then pure (padTo (rs ++ [carry]) n) else pure rs

def sigWords (l : List Nat) : Nat :=
  (l.reverse.dropWhile (· = 0)).length

/-- inner loop of `multiply_uint`: add `x * b` into `res` starting at offset `i` -/
def mulRow : Nat → List Nat → List Nat → Nat → Nat → R (List Nat × Nat)
  -- x, remaining b limbs, remaining result limbs (from offset), max count, carry
  | _, _, [], _, carry => pure ([], carry)
  | _, [], res, _, carry => pure (res, carry)   -- marker: caller stores carry at head of `res`
  | x, y :: ys, r :: rs, k, carry =>
    if k = 0 then pure (r :: rs, carry) else do
    let lo := mulLo x y
    let hi := mulHi x y
    let (t0, c0) := addU64Carry lo carry 0
    let carry1 ← ckAdd hi c0
    let (t, c1) := addU64Carry r t0 0
    let carry2 ← ckAdd carry1 c1
    let (rest, cf) ← mulRow x ys rs (k-1) carry2
    pure (t :: rest, cf)

/-- outer loop of `multiply_uint`: rows `i, i+1, …` for the remaining limbs of operand1 -/
def mulOuter (b : List Nat) (n : Nat) : List Nat → Nat → List Nat → R (List Nat)
  | [], _, res => pure res
  | x :: xs, i, res =>
    if i ≥ n then pure res else do
      let jmax := min b.length (n - i)
      let pre := res.take i
      let suf := res.drop i
      let (done, carry) ← mulRow x (b.take jmax) (suf.take jmax) jmax 0
      let tail := suf.drop jmax
      let tail' := if i + jmax < n then carry :: tail.drop 1 else tail
      mulOuter b n xs (i+1) (pre ++ done ++ tail')

/-- full `multiply_uint(op1, op2, result)` with `n = result.len()` -/
def multiplyUint (a b : List Nat) (n : Nat) : R (List Nat) :=
  if a.isEmpty ∨ b.isEmpty then pure (List.replicate n 0)
  else if n = 1 then pure [wMul (a.headD 0) (b.headD 0)]
  else if sigWords a = 1 then multiplyUintU64 b (a.headD 0) n
  else if sigWords b = 1 then multiplyUintU64 a (b.headD 0) n
  else mulOuter b n a 0 (List.replicate n 0)

/-- shift helpers on a fixed count of limbs (value semantics of the in-place loops) -/
def fromNat (n : Nat) (v : Nat) : List Nat :=
  match n with
  | 0 => []
  | k+1 => (v % B64) :: fromNat k (v / B64)

/-- `left_shift_uint(operand, s, cnt)`; the code requires `s < 64*cnt` (usize underflow otherwise) -/
def leftShiftUint (a : List Nat) (s cnt : Nat) : R (List Nat) :=
  if a.length < cnt then .error .oob
  else if s / 64 > cnt then .error .overflow
  else
    let ws := s / 64
    let bs := s % 64
    let moved := List.replicate ws 0 ++ a.take (cnt - ws)
    if bs = 0 then pure moved
    else
      pure ((List.range cnt).map fun i =>
        let cur := moved.getD i 0
        let prev := if i = 0 then 0 else moved.getD (i-1) 0
        ((cur * 2^bs) % B64) + prev / 2^(64 - bs))

def rightShiftUint (a : List Nat) (s cnt : Nat) : R (List Nat) :=
  if a.length < cnt then .error .oob
  else if s / 64 > cnt then .error .overflow
  else
    let ws := s / 64
    let bs := s % 64
    let moved := (a.take cnt).drop ws ++ List.replicate ws 0
    if bs = 0 then pure moved
    else if cnt = 0 then .error .overflow
    else
      pure ((List.range cnt).map fun i =>
        let cur := moved.getD i 0
        let nxt := moved.getD (i+1) 0
        cur / 2^bs + (if i + 1 < cnt then (nxt * 2^(64 - bs)) % B64 else 0))

/-- `left_shift_u192` (3 limbs; only bits 7,6 and 0..5 of the amount are looked at) -/
def leftShiftU192 (a : List Nat) (s : Nat) : R (List Nat) :=
  if a.length < 3 then .error .oob else
  let a0 := a.getD 0 0; let a1 := a.getD 1 0; let a2 := a.getD 2 0
  let (r0, r1, r2) :=
    if s / 128 % 2 = 1 then (0, 0, a0)
    else if s / 64 % 2 = 1 then (0, a0, a1)
    else (a0, a1, a2)
  let bs := s % 64
  if bs = 0 then pure [r0, r1, r2]
  else pure [ (r0 * 2^bs) % B64,
              (r1 * 2^bs) % B64 + r0 / 2^(64-bs),
              (r2 * 2^bs) % B64 + r1 / 2^(64-bs) ]

/-- `right_shift_u192(operand, s, result)`; `res0` = previous content of `result`
    (the pinned code did not copy the operand when `s < 64`; after the fix it does). -/
def rightShiftU192 (a : List Nat) (s : Nat) : R (List Nat) :=
  if a.length < 3 then .error .oob else
  let a0 := a.getD 0 0; let a1 := a.getD 1 0; let a2 := a.getD 2 0
  let (r0, r1, r2) :=
    if s / 128 % 2 = 1 then (a2, 0, 0)
    else if s / 64 % 2 = 1 then (a1, a2, 0)
    else (a0, a1, a2)
  let bs := s % 64
  if bs = 0 then pure [r0, r1, r2]
  else pure [ r0 / 2^bs + (r1 * 2^(64-bs)) % B64,
              r1 / 2^bs + (r2 * 2^(64-bs)) % B64,
              r2 / 2^bs ]

/-- `half_round_up_uint(operand, result)` with `n = result.len()` -/
def halfRoundUp (a : List Nat) (n : Nat) : R (List Nat) :=
  if n = 0 then pure []
  else if a.length < n then .error .oob
  else
    let low := a.headD 0 % 2 = 1
    let sh := (List.range n).map fun i =>
      a.getD i 0 / 2 + (if i + 1 < n then (a.getD (i+1) 0 % 2) * 2^63 else 0)
    if low then do
      let (r, _) ← addUintU64 sh 1 n
      pure r
    else pure sh

/-- `compare_uint`: -1 / 0 / 1 -/
def compareUint (a b : List Nat) : Int :=
  let n := max a.length b.length
  let rec go : Nat → Int
    | 0 => 0
    | i+1 =>
      let x := a.getD i 0
      let y := b.getD i 0
      if x < y then -1 else if x > y then 1 else go i
  go n

/-- loop of `multiply_many_u64`: `k = operands.len()` (length of the temporary), `i` = index of `w` -/
def mulManyLoop (k : Nat) : List Nat → Nat → List Nat → R (List Nat)
  | [], _, res => pure res
  | w :: ws, i, res => do
    let tmp ← multiplyUintU64 res w k
    mulManyLoop k ws (i+1) (tmp.take (i+1) ++ res.drop (i+1))

/-- `multiply_many_u64(operands, result)`, `n = result.len()`; needs n ≥ operands.len() -/
def multiplyManyU64 (ops : List Nat) (n : Nat) : R (List Nat) :=
  match ops with
  | [] => pure (List.replicate n 0)     -- result untouched (caller passes zeros)
  | o0 :: rest =>
    if n < ops.length then .error .oob
    else mulManyLoop ops.length rest 1 (o0 :: List.replicate (n-1) 0)

def geUint (a b : List Nat) : Bool := compareUint a b ≥ 0

/-- `add_uint_mod` (result length = modulus length) -/
def addUintMod (a b m : List Nat) : R (List Nat) := do
  let n := m.length
  let (s, c) ← addUint a b n
  if c ≠ 0 ∨ geUint s m then do
    let (d, _) ← subUint s m n
    pure d
  else pure s

def subUintMod (a b m : List Nat) : R (List Nat) := do
  let n := m.length
  let (d, bw) ← subUint a b n
  if bw ≠ 0 then do
    let (s, _) ← addUint d m n
    pure s
  else pure d

def negateUintMod (a m : List Nat) : R (List Nat) :=
  if a.all (· = 0) then pure (List.replicate m.length 0)
  else do
    let (d, _) ← subUint m a m.length
    pure d

/-- bit count of a multi-word value (`get_significant_bit_count_uint`; empty slice: usize underflow) -/
def bitCountUint (l : List Nat) : R Nat :=
  if l.isEmpty then .error .overflow else pure (bitCount (toNat l))

/-- `divide_uint_inplace(numerator, denominator, quotient)`: schoolbook shift-subtract.
    State: (num, quot, numBits, remainingShifts); `den` already shifted, `cnt` working limbs. -/
def divLoop (cnt : Nat) (sden : List Nat) (denBits : Nat) :
    Nat → List Nat → List Nat → Nat → Nat → R (List Nat × List Nat × Nat)
  | 0, _, _, _, _ => .error .other
  | fuel+1, num, quot, numBits, rem =>
    if numBits ≠ denBits then pure (num, quot, numBits) else do
    let (diff0, bw) ← subUint num sden cnt
    -- borrow: numerator < shifted denominator
    let step : R (Option (List Nat × List Nat × Nat)) :=
      if bw ≠ 0 then
        if rem = 0 then pure none
        else do
          let (d, _) ← addUint diff0 num cnt
          let q ← leftShiftUint quot 1 cnt
          pure (some (d, q, rem - 1))
      else pure (some (diff0, quot, rem))
    match ← step with
    | none => pure (num, quot, numBits)
    | some (diff, quot1, rem1) =>
      let quot2 := match quot1 with
        | [] => []
        | q0 :: qs => (q0 - q0 % 2 + 1) :: qs          -- quotient[0] |= 1
      let nb := bitCount (toNat (diff.take cnt))
      let sh0 ← ckSub denBits nb
      let sh := if sh0 > rem1 then rem1 else sh0
      let (num', nb') ←
        if nb > 0 then do
          let s ← leftShiftUint diff sh cnt
          pure (s, nb + sh)
        else pure (List.replicate cnt 0, nb)
      let quot3 ← leftShiftUint quot2 sh cnt
      let rem2 ← ckSub rem1 sh
      divLoop cnt sden denBits fuel num' quot3 nb' rem2

/-- returns (remainder limbs, quotient limbs), both of length `quotient.len() = n`
    (numerator and denominator are given with at least `n` limbs) -/
def divideUint (num den : List Nat) (n : Nat) : R (List Nat × List Nat) :=
  if n = 0 then pure (num, [])
  else if num.isEmpty ∨ den.isEmpty then .error .overflow
  else
    let nb := bitCount (toNat num)
    let db := bitCount (toNat den)
    let q0 := List.replicate n 0
    if nb < db then pure (num, q0)
    else
      let cnt := (nb + 63) / 64
      if cnt = 1 then
        if den.headD 0 = 0 then .error .other   -- division by zero panic
        else
          let q := num.headD 0 / den.headD 0
          pure ((num.headD 0 - q * den.headD 0) :: num.tail, q :: q0.tail)
      else if den.length < cnt ∨ num.length < cnt ∨ n < cnt then .error .oob
      else do
        let shift := nb - db
        let sden ← leftShiftUint den shift cnt
        let (num', quot', nb') ← divLoop cnt sden (db + shift) (64 * cnt + 2)
                                   (num.take cnt) (q0.take cnt) nb shift
        let num'' ← if nb' > 0 then rightShiftUint num' shift cnt else pure num'
        pure (num'' ++ num.drop cnt, quot' ++ q0.drop cnt)

end HC
