/-
  Model of src/util/rns.rs: RNSBase (CRT tables, decompose / compose), BaseConverter (fast and exact
  conversion), RNSTool (BEHZ toolbox: fastbconv_m_tilde, sm_mrq, fast_floor, fastbconv_sk,
  divide_and_round_q_last(_ntt), mod_t_and_divide_q_last(_ntt), decrypt_scale_and_round, decrypt_mod_t).

  RNS polynomials are `Array (Array Nat)` = [component][coefficient] (the code's flat layout
  `[i * coeff_count + j]`).  Multi-word values (`base_prod`, `punctured_prod`) are carried as `Nat`
  (their limb arithmetic is the subject of C08: `multiply_uint_u64`, `add_uint_mod`, `modulo_uint`
  are used here through the value-level functions that C08's theorems show them equal to).
-/
import Heathcliff.Model.NTT
namespace HC

abbrev Poly := Array Nat
abbrev RnsPoly := Array (Array Nat)

structure RNSBase where
  base : Array Modulus
  prod : Nat                        -- base_prod
  punct : Array Nat                 -- punctured_prod[i] = prod / q_i
  invPunct : Array MulOperand       -- (prod / q_i)^-1 mod q_i
  deriving Inhabited

def RNSBase.size (b : RNSBase) : Nat := b.base.size
def RNSBase.q (b : RNSBase) (i : Nat) : Modulus := b.base.getD i ⟨0,0,0,0,0⟩

instance : Inhabited Modulus := ⟨⟨0,0,0,0,0⟩⟩

/-- the limbs of a multi-word value (for `modulo_uint`) -/
def limbsOf (n v : Nat) : List Nat := fromNat n v

/-- `RNSBase::new` + `initialize` -/
def RNSBase.new (ms : List Modulus) : R RNSBase := do
  if ms.isEmpty then .error .refused else
  if ms.any (·.value = 0) then .error .refused else
  -- pairwise coprime
  let vals := ms.map (·.value)
  let rec coprimeAll : List Nat → Bool
    | [] => true
    | x :: xs => xs.all (fun y => gcdU64 x y ≤ 1) && coprimeAll xs
  if !coprimeAll vals then .error .refused else
  let n := ms.length
  if n = 1 then
    let m := ms.headD default
    let one ← MulOperand.new 1 m
    pure ⟨ms.toArray, m.value, #[1], #[one]⟩
  else do
    let prod := vals.foldl (· * ·) 1
    let punct := vals.map (fun v => prod / v)
    let inv ← (List.range n).mapM fun i => do
      let m := ms.getD i default
      let t ← moduloUint (limbsOf n (punct.getD i 0)) m
      match ← tryInvert t m.value with
      | none => .error .refused
      | some iv => MulOperand.new iv m
    pure ⟨ms.toArray, prod, punct.toArray, inv.toArray⟩

/-- `decompose`: one multi-word value ↦ residues (the value is given as a `Nat` below 2^(64·size)) -/
def RNSBase.decompose (b : RNSBase) (v : Nat) : R (Array Nat) :=
  if b.size > 1 then
    (List.range b.size).foldlM (fun acc i => do
      let r ← moduloUint (limbsOf b.size v) (b.q i)
      pure (acc.push r)) #[]
  else pure #[v]

/-- `compose`: residues ↦ the value below the base product -/
def RNSBase.compose (b : RNSBase) (res : Array Nat) : R Nat :=
  if b.size > 1 then
    (List.range b.size).foldlM (fun acc i => do
      let tp ← mulOperandMod (res.getD i 0) (b.invPunct.getD i default) (b.q i)
      let term := (b.punct.getD i 0 * tp) % 2^(64 * b.size)        -- multiply_uint_u64 into `size` limbs
      -- add_uint_mod_inplace(value, term, base_prod): one conditional subtraction
      let s := acc + term
      pure (if s ≥ 2^(64 * b.size) ∨ s ≥ b.prod then (s + 2^(64 * b.size) - b.prod) % 2^(64 * b.size) else s)) 0
  else pure (res.getD 0 0)

structure BaseConverter where
  ibase : RNSBase
  obase : RNSBase
  matrix : Array (Array Nat)      -- [obase index][ibase index] = punct_j mod p_i
  deriving Inhabited

def BaseConverter.new (ib ob : RNSBase) : R BaseConverter := do
  let rows ← (List.range ob.size).mapM fun i =>
    (List.range ib.size).mapM fun j => moduloUint (limbsOf ib.size (ib.punct.getD j 0)) (ob.q i)
  pure ⟨ib, ob, (rows.map List.toArray).toArray⟩

/-- the scaled residues `temp[i] = x_i · (Q/q_i)^-1 mod q_i` (with the `operand == 1` shortcut) -/
def BaseConverter.scaled (c : BaseConverter) (x : Array Nat) : R (List Nat) :=
  (List.range c.ibase.size).mapM fun i =>
    let op := c.ibase.invPunct.getD i default
    if op.operand = 1 then barrett64 (x.getD i 0) (c.ibase.q i)
    else mulOperandMod (x.getD i 0) op (c.ibase.q i)

/-- `fast_convert_array` on one coefficient: residues in ibase ↦ residues in obase -/
def BaseConverter.fastConvert (c : BaseConverter) (x : Array Nat) : R (Array Nat) := do
  let temp ← c.scaled x
  let out ← (List.range c.obase.size).mapM fun i =>
    dotProductMod temp (c.matrix.getD i #[]).toList (c.obase.q i)
  pure out.toArray

def transpose (p : RnsPoly) (n : Nat) : Array (Array Nat) :=
  Array.ofFn (n := n) fun j => p.map (fun comp => comp.getD j.val 0)

def untranspose (cols : Array (Array Nat)) (k : Nat) : RnsPoly :=
  Array.ofFn (n := k) fun i => cols.map (fun col => col.getD i.val 0)

/-- `fast_convert_array`: [ibase comp][coeff] ↦ [obase comp][coeff] -/
def BaseConverter.fastConvertArray (c : BaseConverter) (p : RnsPoly) (n : Nat) : R RnsPoly := do
  let cols ← (transpose p n).toList.mapM (fun x => c.fastConvert x)
  pure (untranspose cols.toArray c.obase.size)

/-- the rounded quotient `round(Σ temp_i / q_i)` of `exact_convey_array`, in exact rational arithmetic.
    The code computes it in `f64`; `exactRoundAmbiguous` flags inputs where a double cannot decide. -/
def exactRound (c : BaseConverter) (temp : List Nat) : Nat :=
  let Q := c.ibase.prod
  let num := (List.range c.ibase.size).foldl (fun acc i => acc + temp.getD i 0 * (Q / (c.ibase.q i).value)) 0
  (2 * num + Q) / (2 * Q)

/-- distance of the fractional part from 1/2 is below size·2^-48 (doubles cannot be trusted there) -/
def exactRoundAmbiguous (c : BaseConverter) (temp : List Nat) : Bool :=
  let Q := c.ibase.prod
  let num := (List.range c.ibase.size).foldl (fun acc i => acc + temp.getD i 0 * (Q / (c.ibase.q i).value)) 0
  let fr := (2 * num + Q) % (2 * Q)       -- in [0, 2Q): distance from rounding boundary = min(fr, 2Q - fr)
  let d := min fr (2 * Q - fr)
  d * 2^48 < 2 * Q * (c.ibase.size + 1) * 4

/-- `exact_convey_array` on one coefficient (obase has exactly one modulus) -/
def BaseConverter.exactConvey (c : BaseConverter) (x : Array Nat) : R Nat := do
  if c.obase.size ≠ 1 then .error .refused else
  let temp ← c.scaled x
  let p := c.obase.q 0
  let qModP ← moduloUint (limbsOf c.ibase.size c.ibase.prod) p
  let sum ← dotProductMod temp (c.matrix.getD 0 #[]).toList p
  let v := exactRound c temp
  let vq ← mulMod v qModP p
  subMod sum vq p

/-! ### RNSTool -/

structure RNSTool where
  n : Nat
  k : Nat                      -- log2 n
  baseQ : RNSBase
  baseB : RNSBase
  baseBsk : RNSBase
  baseBskMt : RNSBase
  baseTGamma : Option RNSBase
  qToBsk : BaseConverter
  qToMt : BaseConverter
  bToQ : BaseConverter
  bToMsk : BaseConverter
  qToTGamma : Option BaseConverter
  qToT : Option BaseConverter
  invProdQModBsk : Array MulOperand
  negInvProdQModMt : MulOperand
  invProdBModMsk : MulOperand
  invGammaModT : Option MulOperand
  prodBModQ : Array Nat
  invMtModBsk : Array MulOperand
  prodQModBsk : Array Nat
  negInvQModTGamma : Array MulOperand
  prodTGammaModQ : Array MulOperand
  invQLastModQ : Array MulOperand
  mTilde : Modulus
  mSk : Modulus
  t : Modulus
  gamma : Modulus
  invQLastModT : Nat
  deriving Inhabited

def isPow2 (n : Nat) : Bool := n ≠ 0 && (n &&& (n - 1)) = 0

/-- the base-B sizing rule of `RNSTool::new` -/
def baseBSize (qSize tBits totalBits : Nat) : Nat :=
  if 32 + tBits + totalBits ≥ 61 * qSize + 61 then qSize + 1 else qSize

/-- `RNSTool::new(poly_modulus_degree, q, t)`; `auxPrimes` = `get_primes(2n, 61, base_Bsk_m_tilde_size)`
    (descending 61-bit primes ≡ 1 mod 2n: m_sk, gamma, then base B), handed in by the caller. -/
def RNSTool.new (n : Nat) (q : RNSBase) (t : Modulus) (auxPrimes : List Modulus) : R RNSTool := do
  if q.size < 1 ∨ q.size > 64 then .error .refused else
  if !(isPow2 n) ∨ n < 2 ∨ n > 131072 then .error .refused else
  let k := Nat.log2 n
  let totalBits := bitCount q.prod
  let bSize := baseBSize q.size t.bits totalBits
  if auxPrimes.length < bSize + 2 then .error .refused else
  let mSk := auxPrimes.getD 0 default
  let gamma := auxPrimes.getD 1 default
  let bPrimes := (auxPrimes.drop 2).take bSize
  let mTilde ← Modulus.mk? (2^32)
  let baseB ← RNSBase.new bPrimes
  let baseBsk ← RNSBase.new (bPrimes ++ [mSk])
  let baseBskMt ← RNSBase.new (bPrimes ++ [mSk, mTilde])
  let baseTGamma ← if t.value = 0 then pure none else do let b ← RNSBase.new [t, gamma]; pure (some b)
  let qToT ← if t.value = 0 then pure none else do
    let bt ← RNSBase.new [t]; let c ← BaseConverter.new q bt; pure (some c)
  let qToBsk ← BaseConverter.new q baseBsk
  let bMt ← RNSBase.new [mTilde]
  let qToMt ← BaseConverter.new q bMt
  let bToQ ← BaseConverter.new baseB q
  let bMsk ← RNSBase.new [mSk]
  let bToMsk ← BaseConverter.new baseB bMsk
  let qToTGamma ← match baseTGamma with
    | none => pure none
    | some b => do let c ← BaseConverter.new q b; pure (some c)
  let qLimbs := limbsOf q.size q.prod
  let bLimbs := limbsOf baseB.size baseB.prod
  let prodBModQ ← q.base.toList.mapM (fun m => moduloUint bLimbs m)
  let invOf (v : Nat) (m : Modulus) : R MulOperand := do
    match ← tryInvert v m.value with
    | none => .error .refused
    | some iv => MulOperand.new iv m
  let invProdQModBsk ← baseBsk.base.toList.mapM fun m => do
    let t ← moduloUint qLimbs m; invOf t m
  let tb ← moduloUint bLimbs mSk
  let invProdBModMsk ← invOf tb mSk
  let invMtModBsk ← baseBsk.base.toList.mapM fun m => do
    let r ← barrett64 mTilde.value m; invOf r m
  let tq ← moduloUint qLimbs mTilde
  let negInvProdQModMt ← do
    match ← tryInvert tq mTilde.value with
    | none => .error .refused
    | some iv => do let ng ← negateMod iv mTilde; MulOperand.new ng mTilde
  let prodQModBsk ← baseBsk.base.toList.mapM (fun m => moduloUint qLimbs m)
  let (invGammaModT, prodTGammaModQ, negInvQModTGamma) ←
    match baseTGamma with
    | none => pure (none, [], [])
    | some btg => do
      let g ← barrett64 gamma.value t
      let ig ← invOf g t
      let ptg ← q.base.toList.mapM fun m => do
        let v ← mulMod t.value gamma.value m; MulOperand.new v m
      let niq ← btg.base.toList.mapM fun m => do
        let op ← moduloUint qLimbs m
        match ← tryInvert op m.value with
        | none => .error .refused
        | some iv => do let ng ← negateMod iv m; MulOperand.new ng m
      pure (some ig, ptg, niq)
  let lastQ := q.q (q.size - 1)
  let invQLastModQ ← (List.range (q.size - 1)).mapM fun i => invOf lastQ.value (q.q i)
  let invQLastModT ← if t.value = 0 then pure 1 else do
    match ← tryInvert lastQ.value t.value with
    | none => .error .refused
    | some iv => pure iv
  pure { n := n, k := k, baseQ := q, baseB := baseB, baseBsk := baseBsk, baseBskMt := baseBskMt,
         baseTGamma := baseTGamma, qToBsk := qToBsk, qToMt := qToMt, bToQ := bToQ, bToMsk := bToMsk,
         qToTGamma := qToTGamma, qToT := qToT, invProdQModBsk := invProdQModBsk.toArray,
         negInvProdQModMt := negInvProdQModMt, invProdBModMsk := invProdBModMsk,
         invGammaModT := invGammaModT, prodBModQ := prodBModQ.toArray, invMtModBsk := invMtModBsk.toArray,
         prodQModBsk := prodQModBsk.toArray, negInvQModTGamma := negInvQModTGamma.toArray,
         prodTGammaModQ := prodTGammaModQ.toArray, invQLastModQ := invQLastModQ.toArray,
         mTilde := mTilde, mSk := mSk, t := t, gamma := gamma, invQLastModT := invQLastModT }

def mapM' (a : Array Nat) (f : Nat → R Nat) : R (Array Nat) :=
  a.foldlM (fun acc x => do let y ← f x; pure (acc.push y)) #[]

def zipM' (a b : Array Nat) (f : Nat → Nat → R Nat) : R (Array Nat) :=
  (List.range a.size).foldlM (fun acc i => do let y ← f (a.getD i 0) (b.getD i 0); pure (acc.push y)) #[]

/-- `divide_and_round_q_last_inplace`: returns the first `size-1` components (the last one is scratch) -/
def RNSTool.divideAndRoundQLast (r : RNSTool) (p : RnsPoly) : R RnsPoly := do
  let s := r.baseQ.size
  let last := r.baseQ.q (s - 1)
  let half := last.value / 2
  let lastc ← mapM' (p.getD (s-1) #[]) (fun x => addMod x half last)
  let outs ← (List.range (s - 1)).mapM fun i => do
    let b := r.baseQ.q i
    let halfMod ← barrett64 half b
    let temp ← mapM' lastc (fun x => do let y ← barrett64 x b; subMod y halfMod b)
    let d ← zipM' (p.getD i #[]) temp (fun x y => subMod x y b)
    mapM' d (fun x => mulOperandMod x (r.invQLastModQ.getD i default) b)
  pure (outs.toArray.push lastc)

/-- `divide_and_round_q_last_ntt_inplace` (input components in NTT form) -/
def RNSTool.divideAndRoundQLastNtt (r : RNSTool) (tables : Array NTTTables) (p : RnsPoly) : R RnsPoly := do
  let s := r.baseQ.size
  let last := r.baseQ.q (s - 1)
  let half := last.value / 2
  let lastc0 := intt (tables.getD (s-1) dflt) (p.getD (s-1) #[])
  let lastc ← mapM' lastc0 (fun x => addMod x half last)
  let outs ← (List.range (s - 1)).mapM fun i => do
    let b := r.baseQ.q i
    let temp0 ← if b.value < last.value then mapM' lastc (fun x => barrett64 x b) else pure lastc
    let hm ← barrett64 half b
    let negHalf ← ckSub b.value hm
    let temp1 ← mapM' temp0 (fun x => ckAdd x negHalf)
    let qiLazy := b.value * 4
    let temp2 := nttLazy (tables.getD i dflt) temp1
    let d ← zipM' (p.getD i #[]) temp2 (fun x y => do let z ← ckSub qiLazy y; ckAdd x z)
    mapM' d (fun x => mulOperandMod x (r.invQLastModQ.getD i default) b)
  pure (outs.toArray.push lastc)
where
  dflt : NTTTables := ⟨0, ⟨0,0,0,0,0⟩, 0, #[], #[], ⟨0,0⟩⟩

/-- `fastbconv_m_tilde`: base q ↦ base Bsk ∪ {m_tilde} of (m_tilde · x) -/
def RNSTool.fastbconvMTilde (r : RNSTool) (p : RnsPoly) : R RnsPoly := do
  let temp ← (List.range r.baseQ.size).mapM fun i =>
    mapM' (p.getD i #[]) (fun x => mulMod x r.mTilde.value (r.baseQ.q i))
  let a ← r.qToBsk.fastConvertArray temp.toArray r.n
  let b ← r.qToMt.fastConvertArray temp.toArray r.n
  pure (a ++ b)

/-- `sm_mrq`: Montgomery reduction modulo q in base Bsk ∪ {m_tilde} ↦ base Bsk -/
def RNSTool.smMrq (r : RNSTool) (p : RnsPoly) : R RnsPoly := do
  let sB := r.baseBsk.size
  let half := r.mTilde.value / 2
  let rmt ← mapM' (p.getD sB #[]) (fun x => mulOperandMod x r.negInvProdQModMt r.mTilde)
  let outs ← (List.range sB).mapM fun i => do
    let b := r.baseBsk.q i
    let pq ← MulOperand.new (r.prodQModBsk.getD i 0) b
    zipM' rmt (p.getD i #[]) fun rm x => do
      let temp ← if rm ≥ half then do let d ← ckSub b.value r.mTilde.value; ckAdd rm d else pure rm
      let u ← mulOperandAddMod temp pq x b
      mulOperandMod u (r.invMtModBsk.getD i default) b
  pure outs.toArray

/-- `fast_floor`: input in base q ∪ Bsk ↦ ⌊x/q⌋ (up to the fast-conversion error) in base Bsk -/
def RNSTool.fastFloor (r : RNSTool) (p : RnsPoly) : R RnsPoly := do
  let sq := r.baseQ.size
  let conv ← r.qToBsk.fastConvertArray (p.extract 0 sq) r.n
  let outs ← (List.range r.baseBsk.size).mapM fun i => do
    let b := r.baseBsk.q i
    zipM' (p.getD (sq + i) #[]) (conv.getD i #[]) fun x d => do
      let nd ← ckSub b.value d
      let s ← ckAdd x nd
      mulOperandMod s (r.invProdQModBsk.getD i default) b
  pure outs.toArray

/-- `fastbconv_sk`: Shenoy–Kumaresan conversion base Bsk ↦ base q -/
def RNSTool.fastbconvSk (r : RNSTool) (p : RnsPoly) : R RnsPoly := do
  let sB := r.baseB.size
  let dest ← r.bToQ.fastConvertArray (p.extract 0 sB) r.n
  let temp ← r.bToMsk.fastConvertArray (p.extract 0 sB) r.n
  let alpha ← zipM' (temp.getD 0 #[]) (p.getD sB #[]) fun tv x => do
    let d ← ckSub r.mSk.value x
    let s ← ckAdd tv d
    mulOperandMod s r.invProdBModMsk r.mSk
  let half := r.mSk.value / 2
  let outs ← (List.range r.baseQ.size).mapM fun i => do
    let b := r.baseQ.q i
    let pb ← MulOperand.new (r.prodBModQ.getD i 0) b
    let npbv ← ckSub b.value (r.prodBModQ.getD i 0)
    let npb ← MulOperand.new npbv b
    zipM' alpha (dest.getD i #[]) fun a d =>
      if a > half then do
        let na ← negateMod a r.mSk
        mulOperandAddMod na pb d b
      else mulOperandAddMod a npb d b
  pure outs.toArray

/-- `decrypt_scale_and_round`: phase in base q ↦ round(t·x/q) mod t (BEHZ gamma-correction) -/
def RNSTool.decryptScaleAndRound (r : RNSTool) (p : RnsPoly) : R Poly := do
  match r.baseTGamma, r.qToTGamma, r.invGammaModT with
  | some _, some conv, some ig => do
    let temp ← (List.range r.baseQ.size).mapM fun i =>
      mapM' (p.getD i #[]) (fun x => mulOperandMod x (r.prodTGammaModQ.getD i default) (r.baseQ.q i))
    let tg ← conv.fastConvertArray temp.toArray r.n
    let tpart ← mapM' (tg.getD 0 #[]) (fun x => mulOperandMod x (r.negInvQModTGamma.getD 0 default) r.t)
    let gpart ← mapM' (tg.getD 1 #[]) (fun x => mulOperandMod x (r.negInvQModTGamma.getD 1 default) r.gamma)
    let gdiv2 := r.gamma.value / 2
    zipM' tpart gpart fun a g => do
      let d ← if g > gdiv2 then do
                let ng ← ckSub r.gamma.value g
                let rg ← barrett64 ng r.t
                addMod a rg r.t
              else do
                let rg ← barrett64 g r.t
                subMod a rg r.t
      if d ≠ 0 then mulOperandMod d ig r.t else pure d
  | _, _, _ => .error .refused

/-- `mod_t_and_divide_q_last_inplace` (coefficient form) -/
def RNSTool.modTAndDivideQLast (r : RNSTool) (p : RnsPoly) : R RnsPoly := do
  let s := r.baseQ.size
  let lastv := (r.baseQ.q (s - 1)).value
  let lastc := p.getD (s-1) #[]
  let neg0 ← mapM' lastc (fun x => do let y ← barrett64 x r.t; negateMod y r.t)
  let neg ← if r.invQLastModT ≠ 1 then mapM' neg0 (fun x => mulMod x r.invQLastModT r.t) else pure neg0
  let outs ← (List.range (s - 1)).mapM fun i => do
    let b := r.baseQ.q i
    let delta ← mapM' neg (fun x => do let y ← barrett64 x b; mulMod y lastv b)
    let two := b.value * 2
    let d ← (List.range r.n).foldlM (fun acc j => do
        let cl ← barrett64 (lastc.getD j 0) b
        let a ← ckSub two cl
        let a2 ← ckSub a (delta.getD j 0)
        let v ← ckAdd ((p.getD i #[]).getD j 0) a2
        pure (acc.push v)) (#[] : Array Nat)
    mapM' d (fun x => mulOperandMod x (r.invQLastModQ.getD i default) b)
  pure (outs.toArray.push lastc)

/-- `mod_t_and_divide_q_last_ntt_inplace` -/
def RNSTool.modTAndDivideQLastNtt (r : RNSTool) (tables : Array NTTTables) (p : RnsPoly) : R RnsPoly := do
  let s := r.baseQ.size
  let lastv := (r.baseQ.q (s - 1)).value
  let lastc := intt (tables.getD (s-1) dflt) (p.getD (s-1) #[])
  let neg0 ← mapM' lastc (fun x => do let y ← barrett64 x r.t; negateMod y r.t)
  let neg ← if r.invQLastModT ≠ 1 then mapM' neg0 (fun x => mulMod x r.invQLastModT r.t) else pure neg0
  let outs ← (List.range (s - 1)).mapM fun i => do
    let b := r.baseQ.q i
    let delta0 ← mapM' neg (fun x => do let y ← barrett64 x b; mulMod y lastv b)
    let delta1 ← zipM' delta0 lastc (fun d c => do let cl ← barrett64 c b; ckAdd d cl)
    let delta2 := ntt (tables.getD i dflt) delta1
    let d ← zipM' (p.getD i #[]) delta2 (fun x y => subMod x y b)
    mapM' d (fun x => mulOperandMod x (r.invQLastModQ.getD i default) b)
  pure (outs.toArray.push lastc)
where
  dflt : NTTTables := ⟨0, ⟨0,0,0,0,0⟩, 0, #[], #[], ⟨0,0⟩⟩

/-- `decrypt_mod_t`: exact conversion base q ↦ {t} (centred residue mod t) -/
def RNSTool.decryptModT (r : RNSTool) (p : RnsPoly) : R Poly := do
  match r.qToT with
  | none => .error .refused
  | some conv =>
    let cols ← (transpose p r.n).toList.mapM (fun x => conv.exactConvey x)
    pure cols.toArray

end HC
