/-
  Model of the seeded generator and the samplers of Heathcliff
  (src/util/random_generator.rs: BlakeRNG, BlakeRNGFactory; src/util/rlwe.rs: sample::{ternary,
  centered_binomial, uniform}; where encrypt_zero / key generation obtain generators).

  Conventions (DESIGN.md §4):
  * BLAKE3 is external: the block function `xof seed counter` (the 4096 bytes that
    `blake3::Hasher::new().update(seed).update(counter.to_le_bytes()).finalize_xof().fill(buffer)` writes)
    is a PARAMETER.  The driver instantiates it with the real block bytes computed by the harness.
  * OS entropy (`ChaCha20Rng::from_entropy()`) is a parameter `ent : Nat → Seed` indexed by the number of
    entropy requests made so far.
  * `rand`'s `Uniform` is a parameter (`Uniform`); `randUniform` is the instance that follows rand 0.8.5
    (`UniformInt::sample`, widening multiply + rejection zone) and is what the driver runs.
  * bytes are `Nat` (< 256), `u64` are `Nat`; the buffer is an `Array Nat` read with `getD · 0`.
  * constants (buffer size, alignment masks, CBD masks / signs, ternary range) come from `Gen/Rng.lean`,
    regenerated from the Rust source on every run.
  No Mathlib: this file is compiled into the native driver.
-/
import Heathcliff.Model.Word
import Heathcliff.Gen.Rng
namespace HC.Rng
open HC

abbrev Seed := List Nat
/-- `xof seed counter` = content of the buffer after `refill_buffer` with that seed / counter -/
abbrev Xof := Seed → Nat → Array Nat

/-- `BUFFER_SIZE` -/
def BUF : Nat := Gen.BUFFER_SIZE

/-- `struct BlakeRNG` -/
structure St where
  buffer : Array Nat
  seed : Seed
  counter : Nat
  pos : Nat            -- buffer_current
  deriving Repr

/-- `SeedableRng::from_seed` -/
def fromSeed (seed : Seed) : St := { buffer := Array.replicate BUF 0, seed := seed, counter := 0, pos := BUF }

/-- `refill_buffer` -/
def refill (xof : Xof) (s : St) : St :=
  { s with buffer := xof s.seed s.counter, pos := 0, counter := (s.counter + 1) % B64 }

/-- `buffer[p .. p+len]` -/
def bufSlice (b : Array Nat) (p len : Nat) : List Nat := (List.range len).map fun k => b.getD (p + k) 0

/-- the test at the head of the `fill_bytes` loop body -/
def preFill (xof : Xof) (s : St) : St := if s.pos ≥ BUF then refill xof s else s

theorem BUF_pos : 0 < BUF := by decide

theorem preFill_pos_lt (xof : Xof) (s : St) : (preFill xof s).pos < BUF := by
  unfold preFill
  by_cases h : s.pos ≥ BUF
  · rw [if_pos h]; exact BUF_pos
  · rw [if_neg h]; exact Nat.lt_of_not_ge h

/-- `fill_bytes(dest)` with `dest.len() = n`: returns the bytes written and the new state.
    One recursion step = one iteration of the `while i < dest.len()` loop. -/
def fillBytes (xof : Xof) (s : St) (n : Nat) : List Nat × St :=
  if _h : n = 0 then ([], s) else
    let s1 := preFill xof s
    let len := min n (BUF - s1.pos)
    let r := fillBytes xof { s1 with pos := s1.pos + len } (n - len)
    (bufSlice s1.buffer s1.pos len ++ r.1, r.2)
termination_by n
decreasing_by
  have := preFill_pos_lt xof s
  omega

/-- native-endian (little-endian host) read of `w` bytes at `p` -/
def leRead (b : Array Nat) (p w : Nat) : Nat :=
  (List.range w).foldr (fun k acc => b.getD (p + k) 0 + 256 * acc) 0

/-- `next_u32` / `next_u64`: `pos = (pos + add) & !mask` (mask = 2^k - 1: clears the low k bits),
    refill if fewer than `w` bytes are left, read `w` bytes little endian, advance. -/
def nextWord (add mask w : Nat) (xof : Xof) (s : St) : Nat × St :=
  let s := { s with pos := (s.pos + add) / (mask + 1) * (mask + 1) }
  let s := if s.pos + w > BUF then refill xof s else s
  (leRead s.buffer s.pos w, { s with pos := s.pos + w })

def nextU32 : Xof → St → Nat × St := nextWord Gen.U32_ALIGN_ADD Gen.U32_ALIGN_MASK Gen.U32_WIDTH
def nextU64 : Xof → St → Nat × St := nextWord Gen.U64_ALIGN_ADD Gen.U64_ALIGN_MASK Gen.U64_WIDTH

/-! ### operation sequences (what the harness drives) -/

inductive Op where
  | fill (n : Nat) | u32 | u64
  deriving Repr, DecidableEq

inductive Out where
  | bytes (l : List Nat) | word (v : Nat)
  deriving Repr, DecidableEq

def step (xof : Xof) (s : St) : Op → Out × St
  | .fill n => let r := fillBytes xof s n; (.bytes r.1, r.2)
  | .u32 => let r := nextU32 xof s; (.word r.1, r.2)
  | .u64 => let r := nextU64 xof s; (.word r.1, r.2)

def run (xof : Xof) : St → List Op → List Out × St
  | s, [] => ([], s)
  | s, o :: os => let r := step xof s o; let r2 := run xof r.2 os; (r.1 :: r2.1, r2.2)

/-- successive `fill_bytes` calls with the given lengths -/
def runFills (xof : Xof) : St → List Nat → List (List Nat) × St
  | s, [] => ([], s)
  | s, n :: ns => let r := fillBytes xof s n; let r2 := runFills xof r.2 ns; (r.1 :: r2.1, r2.2)

/-! ### the stream the generator is specified by -/

/-- byte `i` of `xof seed 0 ++ xof seed 1 ++ …` (counters wrap at 2^64 like the code's `wrapping_add`) -/
def byteAt (xof : Xof) (seed : Seed) (i : Nat) : Nat := (xof seed ((i / BUF) % B64)).getD (i % BUF) 0

/-- `stream[a .. a+n]` -/
def streamSlice (xof : Xof) (seed : Seed) (a n : Nat) : List Nat := (List.range n).map fun k => byteAt xof seed (a + k)

/-- cursor semantics: the generator is a position in the stream; `next_u32`/`next_u64` first round the
    position up to a multiple of 4 / 8 -/
def streamWord (xof : Xof) (seed : Seed) (a w : Nat) : Nat :=
  (List.range w).foldr (fun k acc => byteAt xof seed (a + k) + 256 * acc) 0

def cursorStep (xof : Xof) (seed : Seed) (off : Nat) : Op → Out × Nat
  | .fill n => (.bytes (streamSlice xof seed off n), off + n)
  | .u32 => let a := (off + 3) / 4 * 4; (.word (streamWord xof seed a 4), a + 4)
  | .u64 => let a := (off + 7) / 8 * 8; (.word (streamWord xof seed a 8), a + 8)

def cursorRun (xof : Xof) (seed : Seed) : Nat → List Op → List Out × Nat
  | off, [] => ([], off)
  | off, o :: os => let r := cursorStep xof seed off o; let r2 := cursorRun xof seed r.2 os; (r.1 :: r2.1, r2.2)

/-! ### `rand::distributions::Uniform` -/

/-- `Uniform::new_inclusive(lo, hi)` followed by `rng.sample(distribution)` on a `BlakeRNG`, for the two
    integer types the samplers use.  `Except` because construction can panic (`lo > hi`). -/
structure Uniform where
  i32 : Int → Int → Xof → St → R (Int × St)
  u64 : Nat → Nat → Xof → St → R (Nat × St)

/-- rejection loop of `UniformInt::sample` (rand 0.8.5): `v = rng.gen(); (hi, lo) = v.wmul(range);
    if lo <= zone { return hi }`.  `W` = 2^32 / 2^64.  Fuel exhaustion = the real loop would still spin. -/
def randLoop (next : Xof → St → Nat × St) (range zone W : Nat) (xof : Xof) : Nat → St → R (Nat × St)
  | 0, _ => .error .other
  | fuel + 1, s =>
    let r := next xof s
    let m := r.1 * range
    if m % W ≤ zone then .ok (m / W, r.2) else randLoop next range zone W xof fuel r.2

def RAND_FUEL : Nat := 4096

def wrapI32 (x : Int) : Int := (x + 2^31) % 2^32 - 2^31

/-- `Uniform::<i32>::new_inclusive(lo, hi)` + `sample` -/
def randI32 (lo hi : Int) (xof : Xof) (s : St) : R (Int × St) :=
  if lo > hi then .error .refused else
  let range := ((hi - lo + 1) % 2^32).toNat
  if range = 0 then
    let r := nextU32 xof s; .ok (wrapI32 r.1, r.2)
  else
    let z := (2^32 - range) % range          -- (unsigned_max - range + 1) % range
    let zone := 2^32 - 1 - z
    match randLoop nextU32 range zone (2^32) xof RAND_FUEL s with
    | .ok (h, s') => .ok (wrapI32 (lo + h), s')
    | .error e => .error e

/-- `Uniform::<u64>::new_inclusive(lo, hi)` + `sample` -/
def randU64 (lo hi : Nat) (xof : Xof) (s : St) : R (Nat × St) :=
  if lo > hi then .error .refused else
  let range := (hi - lo + 1) % B64
  if range = 0 then
    let r := nextU64 xof s; .ok (r.1, r.2)
  else
    let z := (B64 - range) % range
    let zone := B64 - 1 - z
    match randLoop nextU64 range zone B64 xof RAND_FUEL s with
    | .ok (h, s') => .ok ((lo + h) % B64, s')
    | .error e => .error e

def randUniform : Uniform := ⟨randI32, randU64⟩

/-! ### samplers (output layout `[component][coefficient]`) -/

/-- `n` successive draws -/
def sampleMany {α : Type} (draw : St → R (α × St)) : Nat → St → R (List α × St)
  | 0, s => .ok ([], s)
  | n + 1, s =>
    match draw s with
    | .error e => .error e
    | .ok (v, s1) =>
      match sampleMany draw n s1 with
      | .error e => .error e
      | .ok (vs, s2) => .ok (v :: vs, s2)

/-- RNS encoding of a ternary sample (`match sampled { -1 => q - 1, 0 => 0, 1 => 1, _ => unreachable!() }`) -/
def encTernary (q : Nat) (v : Int) : R Nat :=
  if v = -1 then ckSub q 1 else if v = 0 then .ok 0 else if v = 1 then .ok 1 else .error .other

/-- RNS encoding of an error sample (after the repair of the small-modulus underflow):
    `let magnitude = sampled.unsigned_abs() as u64 % q;
     if sampled >= 0 || magnitude == 0 { magnitude } else { q - magnitude }`  (`% 0` panics) -/
def encError (q : Nat) (v : Int) : R Nat :=
  if q = 0 then .error .other else
  if v ≥ 0 ∨ v.natAbs % q = 0 then .ok (v.natAbs % q) else ckSub q (v.natAbs % q)

/-- `mapM` in `Except`, written out (first refusal wins) -/
def mapR {α β : Type} (f : α → R β) : List α → R (List β)
  | [] => .ok []
  | a :: l =>
    match f a with
    | .error e => .error e
    | .ok b =>
      match mapR f l with
      | .error e => .error e
      | .ok bs => .ok (b :: bs)

def encodeAll (enc : Nat → Int → R Nat) (moduli : List Nat) (vs : List Int) : R (List (List Nat)) :=
  mapR (fun q => mapR (enc q) vs) moduli

/-- `sample::ternary` -/
def ternary (U : Uniform) (xof : Xof) (s : St) (n : Nat) (moduli : List Nat) : R (List (List Nat) × St) :=
  match sampleMany (U.i32 Gen.TERNARY_LOW Gen.TERNARY_HIGH xof) n s with
  | .error e => .error e
  | .ok (vs, s') =>
    match encodeAll encTernary moduli vs with
    | .error e => .error e
    | .ok c => .ok (c, s')

/-- `util::hamming_weight(x: u8) -> i32` as coded -/
def hammingWeight (x : Nat) : Nat :=
  let t := x
  let t := t - ((t >>> 1) &&& 0x55)
  let t := (t &&& 0x33) + ((t >>> 2) &&& 0x33)
  (t + (t >>> 4)) &&& 0x0F

/-- `x[i] &= m` for the generated mask list -/
def applyMasks (masks : List (Nat × Nat)) (x : List Nat) : List Nat :=
  masks.foldl (fun x im => x.set im.1 (x.getD im.1 0 &&& im.2)) x

/-- the `cbd` closure applied to the bytes it drew -/
def cbdValue (bytes : List Nat) : Int :=
  let x := applyMasks Gen.CBD_MASKS bytes
  (Gen.CBD_TERMS.map fun t => t.1 * (hammingWeight (x.getD t.2 0) : Int)).sum

/-- one `cbd(rng)` call -/
def cbdDraw (xof : Xof) (s : St) : R (Int × St) :=
  let r := fillBytes xof s Gen.CBD_BYTES
  .ok (cbdValue r.1, r.2)

/-- `sample::centered_binomial` -/
def centeredBinomial (xof : Xof) (s : St) (n : Nat) (moduli : List Nat) : R (List (List Nat) × St) :=
  if Gen.NOISE_STD_DEV_X10 * Gen.NOISE_WIDTH_MULTIPLIER_X10 = 0 then .ok (moduli.map fun _ => List.replicate n 0, s)
  else if Gen.NOISE_STD_DEV_X10 ≠ 32 then .error .refused
  else
    match sampleMany (cbdDraw xof) n s with
    | .error e => .error e
    | .ok (vs, s') =>
      match encodeAll encError moduli vs with
      | .error e => .error e
      | .ok c => .ok (c, s')

/-- `sample::uniform`: component by component, `Uniform::new_inclusive(0, q - 1)` -/
def uniformPoly (U : Uniform) (xof : Xof) (s : St) (n : Nat) : List Nat → R (List (List Nat) × St)
  | [] => .ok ([], s)
  | q :: qs =>
    match ckSub q 1 with
    | .error e => .error e
    | .ok hi =>
      match sampleMany (U.u64 0 hi xof) n s with
      | .error e => .error e
      | .ok (vs, s1) =>
        match uniformPoly U xof s1 n qs with
        | .error e => .error e
        | .ok (rest, s2) => .ok (vs :: rest, s2)

/-! ### factory and the places where generators are obtained -/

/-- `struct BlakeRNGFactory` -/
structure Factory where
  useRandomSeed : Bool
  seed : Seed
  deriving Repr

/-- `BlakeRNGFactory::new()` (what `HeContext::new` stores: `Gen.CONTEXT_FACTORY_IS_NEW`) -/
def Factory.new : Factory := ⟨Gen.FACTORY_NEW_USES_RANDOM_SEED, List.replicate Gen.PRNG_SEED_BYTES 0⟩
/-- `BlakeRNGFactory::from_seed` -/
def Factory.fromSeed (seed : Seed) : Factory := ⟨false, seed⟩

/-- the OS entropy source as seen through `ChaCha20Rng::from_entropy().fill_bytes(&mut [0; 64])`:
    `ent i` = the 64 bytes obtained by the `i`-th request of the process -/
abbrev Entropy := Nat → Seed

/-- `get_rng`: with `use_random_seed` EVERY call makes a new entropy request (there is no stored
    state in the factory: freshness rests on the entropy source alone); otherwise the fixed seed.
    `w` = number of entropy requests so far. -/
def Factory.getRng (f : Factory) (ent : Entropy) (w : Nat) : St × Nat :=
  if f.useRandomSeed then (Rng.fromSeed (ent w), w + 1) else (Rng.fromSeed f.seed, w)

/-- operations of a history on one context -/
inductive HOp where
  | keygen                          -- KeyGenerator::new → generate_sk: one generator, ternary secret
  | symmetric                       -- encrypt_zero::symmetric (public key, key-switching keys, symmetric encryption)
  | symmetricWith (c1prng : St)     -- encrypt_zero::symmetric_with_c1_prng with a caller-supplied generator
  | asymmetric                      -- encrypt_zero::asymmetric
  | asymmetricWith (uprng : St)     -- encrypt_zero::asymmetric_with_u_prng

/-- what one operation drew -/
structure Draw where
  /-- seeds of the generators taken from the factory, in order of creation -/
  factorySeeds : List Seed
  /-- seed stored in / expanded for the c1 polynomial (symmetric) -/
  publicSeed : Option Seed
  /-- the mask: c1 = `uniform` (symmetric), u = `ternary` (asymmetric), secret (keygen) -/
  mask : R (List (List Nat))
  /-- noise polynomials (centered binomial): 1 for symmetric, `encSize` for asymmetric -/
  noise : List (R (List (List Nat)))

/-- parameters visible to the samplers -/
structure Parms where
  n : Nat
  moduli : List Nat
  encSize : Nat := 2

/-- `symmetric_with_c1_prng` given the c1 generator and the noise generator -/
def symCore (U : Uniform) (xof : Xof) (P : Parms) (c1prng boot : St) (fs : List Seed) : Draw × St :=
  let r := fillBytes xof c1prng Gen.PRNG_SEED_BYTES          -- c1_prng.fill_bytes(public_prng_seed)
  let cprng := fromSeed r.1                                  -- ciphertext_prng
  let c1 := (uniformPoly U xof cprng P.n P.moduli).map (·.1)
  let e := (centeredBinomial xof boot P.n P.moduli).map (·.1)
  ({ factorySeeds := fs, publicSeed := some r.1, mask := c1, noise := [e] }, r.2)

/-- `n` noise polynomials drawn one after the other from one generator -/
def noiseMany (xof : Xof) (P : Parms) : Nat → St → List (R (List (List Nat)))
  | 0, _ => []
  | k + 1, s =>
    match centeredBinomial xof s P.n P.moduli with
    | .error e => [.error e]
    | .ok (c, s') => .ok c :: noiseMany xof P k s'

/-- `asymmetric_with_u_prng` given the u generator and the noise generator -/
def asymCore (U : Uniform) (xof : Xof) (P : Parms) (uprng noisePrng : St) (fs : List Seed) : Draw × St :=
  let u := ternary U xof uprng P.n P.moduli
  ({ factorySeeds := fs, publicSeed := none, mask := u.map (·.1), noise := noiseMany xof P P.encSize noisePrng },
   match u with | .ok (_, s') => s' | .error _ => uprng)

/-- one operation: which generators it takes from the factory (order as in the code) and what it derives -/
def hstep (U : Uniform) (xof : Xof) (P : Parms) (f : Factory) (ent : Entropy) (w : Nat) : HOp → Draw × Nat
  | .keygen =>
    let g := f.getRng ent w
    ({ factorySeeds := [g.1.seed], publicSeed := none, mask := (ternary U xof g.1 P.n P.moduli).map (·.1), noise := [] }, g.2)
  | .symmetric =>
    let g1 := f.getRng ent w            -- `symmetric`: c1_prng = context.create_random_generator()
    let g2 := f.getRng ent g1.2         -- `symmetric_with_c1_prng`: bootstrap_prng = context.create_random_generator()
    ((symCore U xof P g1.1 g2.1 [g1.1.seed, g2.1.seed]).1, g2.2)
  | .symmetricWith c1prng =>
    let g2 := f.getRng ent w
    ((symCore U xof P c1prng g2.1 [g2.1.seed]).1, g2.2)
  | .asymmetric =>
    let g1 := f.getRng ent w            -- `asymmetric`: prng (for u)
    let g2 := f.getRng ent g1.2         -- `asymmetric_with_u_prng`: prng (for the errors)
    ((asymCore U xof P g1.1 g2.1 [g1.1.seed, g2.1.seed]).1, g2.2)
  | .asymmetricWith uprng =>
    let g2 := f.getRng ent w
    ((asymCore U xof P uprng g2.1 [g2.1.seed]).1, g2.2)

/-- a history of operations on one context -/
def hrun (U : Uniform) (xof : Xof) (P : Parms) (f : Factory) (ent : Entropy) : Nat → List HOp → List Draw × Nat
  | w, [] => ([], w)
  | w, o :: os =>
    let r := hstep U xof P f ent w o
    let r2 := hrun U xof P f ent r.2 os
    (r.1 :: r2.1, r2.2)

end HC.Rng
