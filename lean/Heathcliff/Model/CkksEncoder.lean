/-
  Model of src/ckks_encoder.rs (the integer / index side; no floating point):

  * `CKKSEncoder::new`: the slot index map `matrix_reps_index_map` (powers of 3 modulo 2N, bit reversal) and the index /
    mirror / sign logic of `ComplexRoots::get_root` (8-fold symmetry) as a function returning WHICH stored octant entry is
    used and which of (swap re/im, negate re, negate im) is applied; the indices of `root_powers` / `inv_root_powers`.
  * the integer → RNS conversion of ONE rounded coefficient on each of the three magnitude paths of the `encode_internal_*`
    functions (`<= 64` bits: `Modulus::reduce`; `<= 128` bits: `barrett_reduce_u128`; otherwise limbs + `RNSBase::decompose`),
    as a function of the rounded coefficient (an `Int`); the `f64` operations that touch the integer are modelled by their
    exact definitions: `round` (half away from zero) on a dyadic rational, `as u64` (saturating), `% 2^64`, `/ 2^64`.
    Everything before that point (the floating-point FFT, `log2`) is an INPUT of the model: the coefficient vector and the
    path-selecting bit count are observed through the cfg(verif) tap `verif::ckks_hooks`.
  * `encode_internal_i64_single` (completely: no floating point is involved),
  * decode: inverse NTT, CRT composition, centred lift and the limb-to-value fold as an exact rational.

  The butterfly network itself (src/util/dwthandler.rs) is `runFwd` / `runInv` of Model/NTT.lean, generic in the arithmetic.
  Defects of the pinned tree modelled in their REPAIRED form (DESIGN.md §7): negative integers in `encode_internal_i64_single`
  (`negate(reduce(|v|))`), path selection of `encode_internal_f64_polynomial` from the scaled values (the bit count is an input
  here, so only the harness / oracle see that one).
-/
import Heathcliff.Model.RNS
namespace HC
namespace Ckks

/-! ### slot index map -/

/-- `matrix_reps_index_map` of `CKKSEncoder::new` for N = 2^k: entry `i` (first row) = brev((3^i mod 2N − 1)/2),
    entry `i | N/2` (second row) = brev((2N − 3^i mod 2N − 1)/2).  `& (m-1)` is `% m` (m a power of two). -/
def indexMap (k : Nat) : Array Nat :=
  let n := 2^k
  let m := 2 * n
  let slots := n / 2
  let (a, _) := (List.range slots).foldl (fun (acc : Array Nat × Nat) i =>
    let (arr, pos) := acc
    let index1 := (pos - 1) / 2
    let index2 := (m - pos - 1) / 2
    ((arr.setIfInBounds i (brev k index1)).setIfInBounds (i ||| slots) (brev k index2), (pos * 3) % m)) (Array.replicate n 0, 1)
  a

/-! ### `ComplexRoots::get_root` -/

/-- which stored value `roots[idx]` (idx ≤ m/8) is returned and how: `swap` = `mirror` (exchange re and im), applied first,
    then the two sign flips -/
structure RootSel where
  idx : Nat
  swap : Bool
  negRe : Bool
  negIm : Bool
  deriving Repr, BEq, DecidableEq, Inhabited

def RootSel.conj (s : RootSel) : RootSel := { s with negIm := !s.negIm }
def RootSel.neg (s : RootSel) : RootSel := { s with negRe := !s.negRe, negIm := !s.negIm }

/-- `get_root(index)` for `degree_of_roots = m` (a power of two ≥ 8); `fuel` bounds the recursion depth (2 suffices) -/
def getRootSel (m : Nat) : Nat → Nat → R RootSel
  | 0, _ => .error .other
  | fuel+1, index =>
    let index := index % m                                   -- `index &= m - 1`
    if index ≤ m / 8 then pure ⟨index, false, false, false⟩
    else if index ≤ m / 4 then pure ⟨m / 4 - index, true, false, false⟩          -- mirror(roots[m/4 - index])
    else if index < m / 2 then do                                                -- -get_root(m/2 - index).conj()
      let s ← getRootSel m fuel (m / 2 - index); pure s.conj.neg
    else if index ≤ 3 * m / 4 then do                                            -- -get_root(index - m/2)
      let s ← getRootSel m fuel (index - m / 2); pure s.neg
    else do                                                                      -- get_root(m - index).conj()
      let s ← getRootSel m fuel (m - index); pure s.conj

/-- apply a selection to a table of (re, im) pairs with an abstract negation -/
def RootSel.apply {α : Type} [Inhabited α] (neg : α → α) (table : Nat → α × α) (s : RootSel) : α × α :=
  let (a, b) := table s.idx
  let (x, y) := if s.swap then (b, a) else (a, b)
  (if s.negRe then neg x else x, if s.negIm then neg y else y)

/-- `root_powers[i] = get_root(reverse_bits(i, logn))` (1 ≤ i < N, m = 2N ≥ 8) -/
def rootPowerSel (k i : Nat) : R RootSel := getRootSel (2 * 2^k) 3 (brev k i)
/-- `inv_root_powers[i] = get_root(reverse_bits(i - 1, logn) + 1).conj()` -/
def invRootPowerSel (k i : Nat) : R RootSel := do
  let s ← getRootSel (2 * 2^k) 3 (brev k (i - 1) + 1); pure s.conj

/-! ### one rounded coefficient ↦ residues -/

/-- `f64::round` (half away from zero) of the dyadic rational `m · 2^e` -/
def roundDyadic (m e : Int) : Int :=
  if e ≥ 0 then m * 2 ^ e.toNat
  else
    let d := 2 ^ (-e).toNat
    let r := (2 * m.natAbs + d) / (2 * d)
    if m < 0 then -(r : Int) else (r : Int)

/-- `x as u64` for a non-negative integral double: saturating -/
def satU64 (a : Nat) : Nat := if a < B64 then a else B64 - 1

/-- number of base-2^64 digits: iterations of `while coeffd >= 1.0 { …; coeffd /= two_pow_64; }` -/
def digitCount (a : Nat) : Nat := (bitCount a + 63) / 64

def signFix (neg : Bool) (r : Nat) (q : Modulus) : R Nat := if neg then negateMod r q else pure r

/-- path `max_coeff_bit_count <= 64`: `coeffu = |c| as u64`, `Modulus::reduce`, `negate_u64_mod` when `coeffd < 0` -/
def path64 (qs : Array Modulus) (c : Int) : R (Array Nat) :=
  let coeffu := satU64 c.natAbs
  qs.mapM fun q => do
    let r ← barrett64 coeffu q
    signFix (c < 0) r q

/-- path `<= 128`: `[ (|c| % 2^64) as u64, (|c| / 2^64) as u64 ]`, `barrett_reduce_u128` -/
def path128 (qs : Array Modulus) (c : Int) : R (Array Nat) :=
  let a := c.natAbs
  let lo := a % B64
  let hi := satU64 (a / B64)
  qs.mapM fun q => do
    let r ← barrett128 lo hi q
    signFix (c < 0) r q

/-- slow path: base-2^64 digits into a `coeff_modulus_size`-long vector (index panic if there are more digits),
    `RNSBase::decompose`, sign -/
def pathBig (base : RNSBase) (c : Int) : R (Array Nat) := do
  let a := c.natAbs
  if digitCount a > base.size then .error .oob else
  let rs ← base.decompose a
  (Array.range base.size).mapM fun j => signFix (c < 0) (rs.getD j 0) (base.q j)

/-- the three-way selection on the bit count the function computed -/
def coeffToRns (base : RNSBase) (bits : Nat) (c : Int) : R (Array Nat) :=
  if bits ≤ 64 then path64 base.base c
  else if bits ≤ 128 then path128 base.base c
  else pathBig base c

/-! ### the encoding functions from the rounded coefficients on -/

structure Level where
  k : Nat
  base : RNSBase
  tables : Array NTTTables
  deriving Inhabited

def Level.n (l : Level) : Nat := 2 ^ l.k
/-- `total_coeff_modulus_bit_count` -/
def Level.totalBits (l : Level) : Nat := bitCount l.base.prod

instance : Inhabited NTTTables := ⟨⟨0, ⟨0,0,0,0,0⟩, 0, #[], #[], ⟨0,0⟩⟩⟩

/-- `scale <= 0.0 || scale.log2() + 1.0 >= total_bits` with exact comparison (scale = sm · 2^se): OK iff 0 < scale < 2^(B-1) -/
def scaleOk (sm se : Int) (B : Nat) : Bool :=
  decide (0 < sm) && (if se ≥ 0 then decide (sm * 2 ^ se.toNat < 2 ^ (B - 1)) && decide (1 ≤ B) else decide (sm < 2 ^ (B - 1) * 2 ^ (-se).toNat) && decide (1 ≤ B))

/-- decode's test `scale <= 0.0 || scale.log2() as usize >= total_bits`: OK iff 0 < scale < 2^B -/
def scaleDecOk (sm se : Int) (B : Nat) : Bool :=
  decide (0 < sm) && (if se ≥ 0 then decide (sm * 2 ^ se.toNat < 2 ^ B) else decide (sm < 2 ^ B * 2 ^ (-se).toNat))

/-- the RNS stage of `encode_internal_c64_array` / `encode_internal_f64_polynomial`: `bits` = the bit count the function
    computed, `coeffs` = the rounded coefficients (at most N; missing ones are 0); refusal, per-coefficient conversion,
    layout `[component][coefficient]`, forward NTT of every component -/
def encodeArrayRns (l : Level) (bits : Nat) (coeffs : Array Int) : R RnsPoly := do
  if bits ≥ l.totalBits then .error .refused else
  if coeffs.size > l.n then .error .refused else
  let rows ← coeffs.mapM (coeffToRns l.base bits)
  pure (Array.ofFn (n := l.base.size) fun j =>
    ntt (l.tables.getD j.val default) (Array.ofFn (n := l.n) fun i => (rows.getD i.val #[]).getD j.val 0))

/-- the RNS stage of `encode_internal_f64_single`: every coefficient of component j is the residue (NTT form of a constant) -/
def encodeSingleRns (l : Level) (bits : Nat) (c : Int) : R RnsPoly := do
  if bits ≥ l.totalBits then .error .refused else
  let row ← coeffToRns l.base bits c
  pure (Array.ofFn (n := l.base.size) fun j => Array.replicate l.n (row.getD j.val 0))

/-- residues of `encode_internal_i64_single` (REPAIRED form: `negate_u64_mod(reduce(value.unsigned_abs()))`) -/
def i64Residues (qs : Array Modulus) (v : Int) : R (Array Nat) :=
  qs.mapM fun q => do
    let r ← barrett64 v.natAbs q
    signFix (v < 0) r q

/-- `encode_internal_i64_single` for an `i64` value `v` -/
def encodeI64Single (l : Level) (v : Int) : R RnsPoly := do
  if bitCount v.natAbs + 2 ≥ l.totalBits then .error .refused else
  let row ← i64Residues l.base.base v
  pure (Array.ofFn (n := l.base.size) fun j => Array.replicate l.n (row.getD j.val 0))

/-! ### decoding -/

/-- limb `j` (base 2^64) of a multi-word value -/
def limb (x j : Nat) : Nat := (x / 2 ^ (64 * j)) % B64

/-- centred lift and limb fold of one composed coefficient `x` (`size` limbs; `Q` = total modulus, `thr` = upper-half
    threshold): the numerator of the value (value = numerator / scale) exactly as the limb loop forms it, and the sum of the
    absolute values of the terms (for the floating-point error bound of the oracle) -/
def decodeFold (size Q thr x : Nat) : Int × Nat :=
  if x ≥ thr then
    (List.range size).foldl (fun (acc : Int × Nat) j =>
      let xj := limb x j; let qj := limb Q j
      if xj > qj then (acc.1 + ((xj - qj : Nat) : Int) * 2 ^ (64 * j), acc.2 + (xj - qj) * 2 ^ (64 * j))
      else (acc.1 - ((qj - xj : Nat) : Int) * 2 ^ (64 * j), acc.2 + (qj - xj) * 2 ^ (64 * j))) (0, 0)
  else
    (List.range size).foldl (fun (acc : Int × Nat) j =>
      (acc.1 + (limb x j : Int) * 2 ^ (64 * j), acc.2 + limb x j * 2 ^ (64 * j))) (0, 0)

/-- `upper_half_threshold` of a CKKS level: (Q + 1) >> 1 -/
def upperHalfThreshold (Q : Nat) : Nat := (Q + 1) / 2

/-- the value of a decoded coefficient: numerator / scale, exactly -/
def decodeValue (num : Int) (scale : Rat) : Rat := (num : Rat) / scale

/-- decode up to the floating-point transform: inverse NTT of every component, CRT composition of every coefficient,
    centred lift + fold.  Result: per coefficient (numerator, absolute term sum). -/
def decodeCoeffs (l : Level) (p : RnsPoly) : R (Array (Int × Nat)) := do
  if p.size ≠ l.base.size then .error .refused else
  let coef := Array.ofFn (n := l.base.size) fun j => intt (l.tables.getD j.val default) (p.getD j.val #[])
  (Array.range l.n).mapM fun i => do
    let x ← l.base.compose (Array.ofFn (n := l.base.size) fun j => (coef.getD j.val #[]).getD i 0)
    pure (decodeFold l.base.size l.base.prod (upperHalfThreshold l.base.prod) x)

end Ckks
end HC
