/-
  Plaintext-level model of the matrix-product / convolution helpers (property C20):
    src/app/matmul/cheetah.rs   `MatmulHelper::new` (block search), `encode_weights_*`, `encode_inputs_*`,
                                `encode_outputs_*`, `output_terms`, `decrypt_outputs_*` (index map), plaintext
                                semantics of `pack_outputs`
    src/app/conv2d.rs           `Conv2dHelper::new` (block search), `encode_weights_*`, `encode_inputs_*`,
                                `encode_outputs_*`, `output_terms`, `decrypt_outputs_*`
    src/app/rns_plain/*         CRT split / merge of `RnspBatchEncoder`, component-wise evaluation

  Conventions (DESIGN.md §4).  A Rust buffer `vec![0; size]` that is then filled by nested `for` loops is the
  function `scatterA zero size lim writes`: the writes are listed in program order as (index, value) pairs and an
  index outside the buffer (or failing the code's `assert!`) is the refusal `oob`.  The functions are polymorphic
  in the coefficient type (`Nat` for the driver, any commutative ring for the theorems); matrices are accessed
  through their flat row-major index exactly as in the code.  `usize` arithmetic is exact (`Nat`): the theorems carry
  the size bounds under which the code's cost arithmetic cannot overflow.
  No Mathlib imports: this file is compiled into the native driver.
-/
import Heathcliff.Model.RNS
namespace HC.MM

def ceilDiv (a b : Nat) : Nat := (a + b - 1) / b
def usizeMax : Nat := 2^64 - 1

/-- `MatmulHelperObjective` (= `Conv2dHelperObjective`) -/
inductive Objective where
  | cipherPlain | plainCipher | cpAddPc
  deriving DecidableEq, Repr, Inhabited

/-- `for x in (1..=k).rev() { st = f st x }` -/
def downLoop {σ : Type} (f : σ → Nat → σ) : Nat → σ → σ
  | 0, st => st
  | k+1, st => downLoop f k (f st (k+1))

/-! ### buffers -/

/-- `vec![zero; size]`, then `buf[p] = v` for every `(p, v)` in program order.  `lim` carries an `assert!(p < lim)`
    of the code (pass `size` when there is none). -/
def scatterA {α : Type} (zero : α) (size lim : Nat) (ws : List (Nat × α)) : R (Array α) :=
  ws.foldlM (fun a pv => if pv.1 < lim ∧ pv.1 < a.size then .ok (a.setIfInBounds pv.1 pv.2) else .error .oob)
    (Array.replicate size zero)

/-- two nested loops `for a in 0..A { for c in 0..C {..} }` as the list of index pairs in program order -/
def pairs (A C : Nat) : List (Nat × Nat) :=
  (List.range A).flatMap fun a => (List.range C).map fun c => (a, c)

/-- four nested loops -/
def quads (A B C D : Nat) : List (Nat × Nat × Nat × Nat) :=
  (List.range A).flatMap fun a => (List.range B).flatMap fun b => (List.range C).flatMap fun c =>
    (List.range D).map fun d => (a, b, c, d)

/-- `let mut l = 0; while l < total { .. ; l += blk }`: the block start offsets -/
def blockStarts (total blk : Nat) : List Nat := (List.range (ceilDiv total blk)).map (· * blk)

def readAt {α : Type} (a : Array α) (i : Nat) : R α :=
  match a[i]? with
  | some v => .ok v
  | none => .error .oob

/-! ### coefficient packing: `MatmulHelper` -/

structure Best where
  b : Nat
  i : Nat
  o : Nat
  c : Nat
  deriving DecidableEq, Repr, Inhabited

def Best.init : Best := ⟨0, 0, 0, usizeMax⟩

def mmCost (obj : Objective) (bc ic oc : Nat) : Nat :=
  match obj with
  | .cipherPlain => bc * (ic + oc)
  | .plainCipher => (bc + ic) + oc
  | .cpAddPc => bc * ic + ic * oc + bc * oc

/-- body of `for i in 1..poly_degree / b` (the `break` at `i > input_dims` is a skip: `i` only grows) -/
def mmInner (N id od : Nat) (obj : Objective) (b bc : Nat) (st : Best) (i : Nat) : Best :=
  if i > id then st else
  let o := min (N / b / i) od
  if o < 1 then st else
  let c := mmCost obj bc (ceilDiv id i) (ceilDiv od o)
  if c ≥ st.c then st else ⟨b, i, o, c⟩

/-- body of `for b in (1..=batch_size).rev()` without LWE packing -/
def mmOuter (N bs id od : Nat) (obj : Objective) (st : Best) (b : Nat) : Best :=
  let bc := ceilDiv bs b
  if b > N then st else
  if bc * 2 > st.c then st else
  (List.range' 1 (N / b - 1)).foldl (mmInner N id od obj b bc) st

def mmSearch (N bs id od : Nat) (obj : Objective) : Best :=
  downLoop (mmOuter N bs id od obj) bs Best.init

/-- `floor(log2(floor(N^0.33)))` in exact arithmetic: the largest `e` with `2^(100 e) ≤ N^33`
    (the code computes it in `f64`; agreement is checked by correspondence) -/
def packExp (N : Nat) : Nat :=
  let rec go : Nat → Nat → Nat
    | 0, e => e
    | f+1, e => if 2^(100 * (e+1)) ≤ N^33 then go f (e+1) else e
  go 64 0

/-- `ceil_two_power` / `2^ceil(log2 n)`: the least power of two `≥ n` -/
def ceilTwoPower (n : Nat) : Nat :=
  let rec go : Nat → Nat → Nat
    | 0, x => x
    | f+1, x => if x < n then go f (2 * x) else x
  go 64 1

/-- the fixed input block of the LWE-packing variant -/
def packI (N id : Nat) : Nat :=
  let i := 2 ^ packExp N
  if i > id then ceilTwoPower id else i

def mmPackCost (obj : Objective) (bc ic oc i : Nat) : Nat :=
  match obj with
  | .cipherPlain => bc * ic + ceilDiv (bc * oc) i * 2
  | .plainCipher => ic * oc + ceilDiv (bc * oc) i * 2
  | .cpAddPc => bc * ic + ic * oc + ceilDiv (bc * oc) i * 2

/-- body of `for b in (1..=batch_size).rev()` with LWE packing -/
def mmPackStep (N bs id od : Nat) (obj : Objective) (i : Nat) (st : Best) (b : Nat) : Best :=
  let bc := ceilDiv bs b
  if b > N then st else
  let o := min (N / b / i) od
  if o < 1 then st else
  let c := mmPackCost obj bc (ceilDiv id i) (ceilDiv od o) i
  if c ≥ st.c then st else ⟨b, i, o, c⟩

def mmPackSearch (N bs id od : Nat) (obj : Objective) : Best :=
  downLoop (mmPackStep N bs id od obj (packI N id)) bs Best.init

structure Helper where
  bs : Nat      -- batch_size
  id : Nat      -- input_dims
  od : Nat      -- output_dims
  bb : Nat      -- batch_block
  ib : Nat      -- input_block
  ob : Nat      -- output_block
  n : Nat       -- poly_degree
  pack : Bool
  deriving Repr, Inhabited

/-- `MatmulHelper::new` -/
def Helper.new (bs id od N : Nat) (obj : Objective) (pack : Bool) : R Helper :=
  if bs = 0 ∨ id = 0 ∨ od = 0 ∨ N = 0 then .error .other else
  let st := if pack then mmPackSearch N bs id od obj else mmSearch N bs id od obj
  .ok ⟨bs, id, od, st.b, st.i, st.o, N, pack⟩

/-- position of entry (row `db`, column `dj` of the block) in an encoded input polynomial -/
def inPos (h : Helper) (db dj : Nat) : Nat := db * h.ib * h.ob + dj
/-- position of weight entry (row `di`, column `dj` of the block): rows are reversed -/
def wPos (h : Helper) (dj di : Nat) : Nat := dj * h.ib + h.ib - di - 1
/-- position of output entry (row `db`, column `dj` of the block) in a product polynomial -/
def outPos (h : Helper) (db dj : Nat) : Nat := db * h.ib * h.ob + dj * h.ib + h.ib - 1
def outPosPacked (h : Helper) (db dj off : Nat) : Nat := db * h.ib * h.ob + dj * h.ib + off

/-- `encode_weight_small_bfv/ckks`: block rows `li..ui` (input dimension), columns `lj..uj` -/
def encWeightSmall {α : Type} (h : Helper) (zero : α) (w : Nat → α) (li ui lj uj : Nat) : R (Array α) :=
  scatterA zero (h.ib * h.ob) h.n
    ((pairs (uj - lj) (ui - li)).map fun p => (wPos h p.1 p.2, w ((li + p.2) * h.od + (lj + p.1))))

/-- `encode_weights_*`: `[input block][output block]` -/
def encodeWeights {α : Type} (h : Helper) (zero : α) (w : Nat → α) (wlen : Nat) : R (List (List (Array α))) :=
  if wlen ≠ h.id * h.od then .error .other else
  if h.ib = 0 ∨ h.ob = 0 then .error .other else      -- the `while` loops would not advance
  (blockStarts h.id h.ib).mapM fun li => (blockStarts h.od h.ob).mapM fun lj =>
    do let a ← encWeightSmall h zero w li (min h.id (li + h.ib)) lj (min h.od (lj + h.ob))
       if a.size > h.n then .error .refused else pure a     -- `encode_polynomial`

def encInputBlock {α : Type} (h : Helper) (zero : α) (x : Nat → α) (li ui lj uj : Nat) : R (Array α) :=
  scatterA zero h.n h.n
    ((pairs (ui - li) (uj - lj)).map fun p => (inPos h p.1 p.2, x ((li + p.1) * h.id + (lj + p.2))))

/-- `encode_inputs_*`: `[batch block][input block]` -/
def encodeInputs {α : Type} (h : Helper) (zero : α) (x : Nat → α) (xlen : Nat) : R (List (List (Array α))) :=
  if xlen ≠ h.bs * h.id then .error .other else
  if h.bb = 0 ∨ h.ib = 0 then .error .other else
  (blockStarts h.bs h.bb).mapM fun li => (blockStarts h.id h.ib).mapM fun lj =>
    encInputBlock h zero x li (min h.bs (li + h.bb)) lj (min h.id (lj + h.ib))

def encOutputBlock {α : Type} (h : Helper) (zero : α) (y : Nat → α) (li ui lj uj : Nat) : R (Array α) :=
  scatterA zero h.n h.n
    ((pairs (ui - li) (uj - lj)).map fun p => (outPos h p.1 p.2, y ((li + p.1) * h.od + (lj + p.2))))

/-- `encode_outputs_*` -/
def encodeOutputs {α : Type} (h : Helper) (zero : α) (y : Nat → α) (ylen : Nat) : R (List (List (Array α))) :=
  if ylen ≠ h.bs * h.od then .error .other else
  if h.bb = 0 ∨ h.ob = 0 then .error .other else
  if !h.pack then
    (blockStarts h.bs h.bb).mapM fun li => (blockStarts h.od h.ob).mapM fun lj =>
      encOutputBlock h zero y li (min h.bs (li + h.bb)) lj (min h.od (lj + h.ob))
  else
    if h.ib = 0 then .error .other else
    let bbc := ceilDiv h.bs h.bb
    let obc := ceilDiv h.od h.ob
    do let row ← (List.range (ceilDiv (bbc * obc) h.ib)).mapM fun pid =>
         scatterA zero h.n h.n
           (((pairs bbc obc).filter fun d => (d.1 * obc + d.2) / h.ib = pid).flatMap fun d =>
             let li := d.1 * h.bb
             let lj := d.2 * h.ob
             let off := (d.1 * obc + d.2) % h.ib
             (pairs (min h.bs (li + h.bb) - li) (min h.od (lj + h.ob) - lj)).map fun p =>
               (outPosPacked h p.1 p.2 off, y ((li + p.1) * h.od + (lj + p.2))))
       pure [row]

/-- `output_terms` -/
def outputTerms (h : Helper) : List Nat := (pairs h.bb h.ob).map fun p => outPos h p.1 p.2

/-- `input_terms` (deprecated in the code) -/
def inputTerms (h : Helper) : List Nat := (pairs h.bb h.ib).map fun p => inPos h p.1 p.2

def getPoly {α : Type} (bufs : List (List (Array α))) (i j : Nat) : R (Array α) :=
  match bufs[i]? with
  | none => .error .oob
  | some row => match row[j]? with
    | none => .error .oob
    | some a => .ok a

/-- index map of `decrypt_outputs_*`: `bufs` are the decoded plaintext polynomials (`[di][dj]`, or `[0][packed id]`
    with LWE packing) exactly as the decoder returns them -/
def decodeOutputs {α : Type} (h : Helper) (zero : α) (bufs : List (List (Array α))) : R (Array α) :=
  if h.bb = 0 ∨ h.ob = 0 then .error .other else
  let obc := ceilDiv h.od h.ob
  do let ws ← (pairs (ceilDiv h.bs h.bb) obc).mapM fun d => do
       let li := d.1 * h.bb
       let lj := d.2 * h.ob
       let buf ← if !h.pack then getPoly bufs d.1 d.2
                 else (if h.ib = 0 then .error .other else getPoly bufs 0 ((d.1 * obc + d.2) / h.ib))
       (pairs (min h.bs (li + h.bb) - li) (min h.od (lj + h.ob) - lj)).mapM fun p => do
         let v ← readAt buf (if !h.pack then outPos h p.1 p.2 else outPosPacked h p.1 p.2 ((d.1 * obc + d.2) % h.ib))
         pure ((li + p.1) * h.od + (lj + p.2), v)
     scatterA zero (h.bs * h.od) (h.bs * h.od) ws.flatten

/-- plaintext semantics of `pack_outputs`: ciphertext number `c` (row major over `[di][dj]`) contributes its
    coefficients at positions `q·ib + ib − 1` to positions `q·ib + (c mod ib)` of packed polynomial `c / ib`
    (shift by `−(ib−1)`, field trace keeping the multiples of `ib`, shift by the slot, sum) -/
def packPlain {α : Type} (h : Helper) (zero : α) (polys : List (Array α)) : List (Array α) :=
  (List.range (ceilDiv polys.length h.ib)).map fun g =>
    Array.ofFn (n := h.n) fun p =>
      match polys[g * h.ib + p.val % h.ib]? with
      | some a => a.getD (p.val / h.ib * h.ib + h.ib - 1) zero
      | none => zero

/-! ### 2-D convolution: `Conv2dHelper` -/

structure ConvShape where
  b : Nat       -- batch_size
  ci : Nat      -- input_channels
  co : Nat      -- output_channels
  h : Nat       -- image_height
  w : Nat       -- image_width
  kh : Nat      -- kernel_height
  kw : Nat      -- kernel_width
  deriving Repr, Inhabited, DecidableEq

structure CBest where
  b : Nat
  h : Nat
  w : Nat
  ci : Nat
  co : Nat
  c : Nat
  deriving DecidableEq, Repr, Inhabited

def CBest.init : CBest := ⟨0, 0, 0, 0, 0, usizeMax⟩

/-- `(lo..=hi).rev()` -/
def downRange (lo hi : Nat) : List Nat := (List.range (hi + 1 - lo)).reverse.map (· + lo)

def cvCost (obj : Objective) (cin cout cw : Nat) : Nat :=
  match obj with
  | .cipherPlain => cin + cout
  | .plainCipher => cw + cout
  | .cpAddPc => cin + cout + cw

/-- innermost loop body of `Conv2dHelper::new` (`upper` = slot_count / b / h / w) -/
def cvStep (S : ConvShape) (obj : Objective) (b h w upper : Nat) (st : CBest) (co : Nat) : CBest :=
  let ci := min S.ci (upper / co)
  if ci = 0 then st else
  let cutB := ceilDiv S.b b
  let cutH := ceilDiv (S.h - S.kh + 1) (h - S.kh + 1)
  let cutW := ceilDiv (S.w - S.kw + 1) (w - S.kw + 1)
  let cutCi := ceilDiv S.ci ci
  let cutCo := ceilDiv S.co co
  let cost := cvCost obj (cutB * cutH * cutW * cutCi) (cutB * cutH * cutW * cutCo) (cutCi * cutCo)
  if cost < st.c then ⟨b, h, w, ci, co, cost⟩ else st

def cvSearch (S : ConvShape) (N : Nat) (obj : Objective) : CBest :=
  (downRange 1 S.b).foldl (fun st b =>
    (downRange S.kh (min S.h (N / b))).foldl (fun st h =>
      (downRange S.kw (min S.w (N / b / h))).foldl (fun st w =>
        (downRange 1 (min S.co (N / b / h / w))).foldl (cvStep S obj b h w (N / b / h / w)) st) st) st) CBest.init

structure CHelper where
  S : ConvShape
  bb : Nat      -- batch_block
  hb : Nat      -- image_height_block
  wb : Nat      -- image_width_block
  cib : Nat     -- input_channel_block
  cob : Nat     -- output_channel_block
  n : Nat       -- slot_count
  deriving Repr, Inhabited

def CHelper.new (S : ConvShape) (N : Nat) (obj : Objective) : CHelper :=
  let st := cvSearch S N obj
  ⟨S, st.b, st.h, st.w, st.ci, st.co, N⟩

def CHelper.blockSize (h : CHelper) : Nat := h.hb * h.wb
/-- the buffer `spread` of `encode_weights_*` after the repair (sized with `image_height_block`) -/
def CHelper.spreadSize (h : CHelper) : Nat := h.cib * h.cob * h.wb * h.hb
/-- the buffer size of the pinned code (sized with `image_height`) -/
def CHelper.pinnedSpreadSize (h : CHelper) : Nat := h.cib * h.cob * h.wb * h.S.h

def cwPos (h : CHelper) (doc dic ki kj : Nat) : Nat :=
  doc * h.cib * h.blockSize + (h.cib - 1 - dic) * h.blockSize + ki * h.wb + kj
def cxPos (h : CHelper) (db dc ti tj : Nat) : Nat :=
  db * h.cib * h.cob * h.blockSize + dc * h.blockSize + ti * h.wb + tj
def cyPos (h : CHelper) (db dc i j : Nat) : Nat :=
  (db * h.cib * h.cob + dc * h.cib + h.cib - 1) * h.blockSize
    + (h.hb - (h.hb - h.S.kh + 1) + i) * h.wb + (h.wb - (h.wb - h.S.kw + 1) + j)

def cvEncWeightBlock {α : Type} (h : CHelper) (zero : α) (w : Nat → α) (loc uoc lic uic : Nat) : R (Array α) :=
  do let a ← scatterA zero h.spreadSize h.spreadSize
       ((quads (uoc - loc) (uic - lic) h.S.kh h.S.kw).map fun q =>
         (cwPos h q.1 q.2.1 q.2.2.1 q.2.2.2,
          w (((loc + q.1) * h.S.ci + (lic + q.2.1)) * (h.S.kh * h.S.kw)
              + (h.S.kh - q.2.2.1 - 1) * h.S.kw + (h.S.kw - q.2.2.2 - 1))))
     if a.size > h.n then .error .refused else pure a      -- `encode_polynomial`

/-- `encode_weights_*`: `[output channel block][input channel block]` -/
def cvEncodeWeights {α : Type} (h : CHelper) (zero : α) (w : Nat → α) (wlen : Nat) : R (List (List (Array α))) :=
  if wlen ≠ h.S.kh * h.S.kw * h.S.ci * h.S.co then .error .other else
  if h.cib = 0 ∨ h.cob = 0 then .error .other else
  (blockStarts h.S.co h.cob).mapM fun loc => (blockStarts h.S.ci h.cib).mapM fun lic =>
    cvEncWeightBlock h zero w loc (min h.S.co (loc + h.cob)) lic (min h.S.ci (lic + h.cib))

def CHelper.sh (h : CHelper) : Nat := ceilDiv (h.S.h - (h.S.kh - 1)) (h.hb - (h.S.kh - 1))
def CHelper.sw (h : CHelper) : Nat := ceilDiv (h.S.w - (h.S.kw - 1)) (h.wb - (h.S.kw - 1))
def CHelper.totalBatch (h : CHelper) : Nat := ceilDiv h.S.b h.bb * h.sh * h.sw

def cvEncInputBlock {α : Type} (h : CHelper) (zero : α) (x : Nat → α) (lb ub lci uci si ui sj uj : Nat) : R (Array α) :=
  let imsz := h.S.h * h.S.w
  scatterA zero h.n h.n
    ((quads (ub - lb) (uci - lci) (ui - si) (uj - sj)).map fun q =>
      (cxPos h q.1 q.2.1 q.2.2.1 q.2.2.2,
       x ((lb + q.1) * h.S.ci * imsz + (lci + q.2.1) * imsz + (si + q.2.2.1) * h.S.w + (sj + q.2.2.2))))

/-- `encode_inputs_*`: `[batch block × tile row × tile column][input channel block]` -/
def cvEncodeInputs {α : Type} (h : CHelper) (zero : α) (x : Nat → α) (xlen : Nat) : R (List (List (Array α))) :=
  if xlen ≠ h.S.b * h.S.ci * h.S.h * h.S.w then .error .other else
  if h.bb = 0 ∨ h.cib = 0 ∨ h.S.kh = 0 ∨ h.S.kw = 0 then .error .other else
  do let groups ← (blockStarts h.S.b h.bb).mapM fun lb => (pairs h.sh h.sw).mapM fun t =>
       let si := t.1 * (h.hb - (h.S.kh - 1))
       let sj := t.2 * (h.wb - (h.S.kw - 1))
       (blockStarts h.S.ci h.cib).mapM fun lci =>
         cvEncInputBlock h zero x lb (min h.S.b (lb + h.bb)) lci (min h.S.ci (lci + h.cib))
           si (min h.S.h (si + h.hb)) sj (min h.S.w (sj + h.wb))
     pure groups.flatten

/-- the (b, c, i, j) loop nest shared by `encode_outputs_*` and `decrypt_outputs_*` for group `eb`, channel block `lc`:
    (position in the polynomial, flat output index) for the entries that pass the range test -/
def cvOutIdx (h : CHelper) (eb lc : Nat) : List (Nat × Nat) :=
  let yh := h.hb - h.S.kh + 1
  let yw := h.wb - h.S.kw + 1
  let oyh := h.S.h - h.S.kh + 1
  let oyw := h.S.w - h.S.kw + 1
  let ob := eb / (h.sh * h.sw)
  let si := (eb % (h.sh * h.sw)) / h.sw
  let sj := eb % h.sw
  let lb := ob * h.bb
  let ub := min h.S.b (lb + h.bb)
  let uc := min h.S.co (lc + h.cob)
  ((quads (ub - lb) (uc - lc) yh yw).filter fun q => si * yh + q.2.2.1 < oyh ∧ sj * yw + q.2.2.2 < oyw).map fun q =>
    (cyPos h q.1 q.2.1 q.2.2.1 q.2.2.2,
     (lb + q.1) * h.S.co * oyh * oyw + (lc + q.2.1) * oyh * oyw + (si * yh + q.2.2.1) * oyw + (sj * yw + q.2.2.2))

/-- `encode_outputs_*` -/
def cvEncodeOutputs {α : Type} (h : CHelper) (zero : α) (y : Nat → α) (ylen : Nat) : R (List (List (Array α))) :=
  if ylen ≠ h.S.b * h.S.co * (h.S.h - h.S.kh + 1) * (h.S.w - h.S.kw + 1) then .error .other else
  if h.bb = 0 ∨ h.cob = 0 ∨ h.S.kh = 0 ∨ h.S.kw = 0 then .error .other else
  (List.range h.totalBatch).mapM fun eb => (blockStarts h.S.co h.cob).mapM fun lc =>
    scatterA zero h.n h.n ((cvOutIdx h eb lc).map fun pi => (pi.1, y pi.2))

/-- `output_terms` -/
def cvOutputTerms (h : CHelper) : List Nat :=
  (quads h.bb h.cob (h.hb - h.S.kh + 1) (h.wb - h.S.kw + 1)).map fun q => cyPos h q.1 q.2.1 q.2.2.1 q.2.2.2

/-- index map of `decrypt_outputs_*` (`bufs[eb][lc / cob]` = decoded polynomial as the decoder returns it) -/
def cvDecodeOutputs {α : Type} (h : CHelper) (zero : α) (bufs : List (List (Array α))) : R (Array α) :=
  if h.bb = 0 ∨ h.cob = 0 ∨ h.S.kh = 0 ∨ h.S.kw = 0 then .error .other else
  let size := h.S.b * h.S.co * (h.S.h - h.S.kh + 1) * (h.S.w - h.S.kw + 1)
  do let ws ← (pairs h.totalBatch (ceilDiv h.S.co h.cob)).mapM fun d => do
       let buf ← getPoly bufs d.1 d.2
       (cvOutIdx h d.1 (d.2 * h.cob)).mapM fun pi => do
         let v ← readAt buf pi.1
         pure (pi.2, v)
     scatterA zero size size ws.flatten

/-! ### BOLT slot packing: `bolt_cp.rs`, `bolt_cc_cr.rs`, `bolt_cc_dc.rs`

  Everything lives on SLOT VECTORS (what `BatchEncoder::encode_new` is given / `decode_new` returns): `N` slots in two rows of
  `N/2`.  `rotate_rows(v, s)` rotates both rows left by `s` (slot `i` of a row receives slot `i + s` of that row; a negative step
  `-s` is the step `N/2 − s`), `rotate_columns` exchanges the rows (the Galois action on slots: C11 `slotExp_rotate` /
  `slotExp_swap`, C04R `batchDecode_rotate_rows` / `_swap_rows`).  Slot-wise `add` / `mul` are parameters (the driver passes
  arithmetic modulo t, the theorems the operations of a commutative ring).  A polynomial set `Plain2d` / `Cipher2d` is a list of
  lists of slot vectors. -/

def rotRows {α : Type} (zero : α) (N s : Nat) (v : Array α) : Array α :=
  Array.ofFn (n := N) fun i => v.getD (i.val / (N / 2) * (N / 2) + (i.val % (N / 2) + s) % (N / 2)) zero

def swapRows {α : Type} (zero : α) (N : Nat) (v : Array α) : Array α :=
  Array.ofFn (n := N) fun i => v.getD ((i.val + N / 2) % N) zero

def slotZip {α : Type} (f : α → α → α) (zero : α) (N : Nat) (a b : Array α) : Array α :=
  Array.ofFn (n := N) fun i => f (a.getD i.val zero) (b.getD i.val zero)

/-- `multiply_plain` by the 0/1 mask of the slots `[lo, hi)` -/
def slotMask {α : Type} (zero : α) (N lo hi : Nat) (a : Array α) : Array α :=
  Array.ofFn (n := N) fun i => if lo ≤ i.val ∧ i.val < hi then a.getD i.val zero else zero

/-- `set_or_add` on an optional accumulator -/
def accAdd {α : Type} (add : α → α → α) (zero : α) (N : Nat) (acc : Option (Array α)) (v : Array α) : Option (Array α) :=
  match acc with
  | none => some v
  | some a => some (slotZip add zero N a v)

def getSlots {α : Type} (l : List (Array α)) (i : Nat) : R (Array α) :=
  match l[i]? with
  | some v => .ok v
  | none => .error .oob

def getRow {α : Type} (l : List (List (Array α))) (i : Nat) : R (List (Array α)) :=
  match l[i]? with
  | some v => .ok v
  | none => .error .oob

def unwrapAcc {α : Type} (o : Option (Array α)) : R (Array α) :=
  match o with
  | some v => .ok v
  | none => .error .other       -- `unwrap()` on `None`

/-- column `k` moved by `rot` columns in the (row of `half` columns) × (2 rows) arrangement -/
def boltShift (half k rot : Nat) : Nat := (rot + k) % half + (rot / half + k / half) % 2 * half

/-! #### `MatmulBoltCp` (ciphertext × plaintext, LHS column-major) -/

structure BoltCp where
  N : Nat
  mAll : Nat     -- m
  m : Nat        -- regular.m = min(m, N/2)
  r : Nat
  n : Nat
  gap : Nat      -- column_gap
  s : Nat        -- column_slot_count
  irc : Nat      -- input_rotate_count  (baby steps)
  orc : Nat      -- output_rotate_count (giant steps)
  deriving Repr, Inhabited

/-- the baby-step / giant-step split search of `MatmulBoltCpSmall::new` -/
def boltCpSplit (s ic oc : Nat) : Nat :=
  let rec go : Nat → Nat → Nat → Nat → Nat
    | 0, _, bi, _ => bi
    | f+1, irc, bi, best =>
      if irc < s then
        let c := (irc - 1) * ic + (s / irc - 1) * oc
        if c < best then go f (2 * irc) irc c else go f (2 * irc) bi best
      else bi
  go 64 1 1 usizeMax

/-- `MatmulBoltCp::new` (degenerate shapes — a zero dimension, fewer than two columns per polynomial — divide by zero in the code
    and are not modelled) -/
def BoltCp.new (m r n N : Nat) : R BoltCp :=
  let mr := min m (N / 2)
  let gap := ceilTwoPower mr
  if mr = 0 ∨ r = 0 ∨ n = 0 ∨ N / gap < 2 then .error .other else
  let s := N / gap
  let irc := boltCpSplit s (ceilDiv r s) (ceilDiv n s)
  if irc = 0 then .error .other else
  .ok ⟨N, m, mr, r, n, gap, s, irc, s / irc⟩

/-- `MatmulBoltCpSmall::encode_inputs` / `encode_outputs` on a row slice of `len` entries of a matrix with `width` columns:
    polynomial `i` holds columns `[i·s, min(width, i·s + s))`, column `c` at slots `(c mod s)·gap + j`, row `j` -/
def boltColMajor {α : Type} (N gap s m width : Nat) (zero : α) (a : Nat → α) (len i : Nat) : R (Array α) :=
  let lo := i * s
  let hi := min width (lo + s)
  scatterA zero N N (((pairs (hi - lo) m).filter fun cj => cj.2 * width + (lo + cj.1) < len).map fun cj =>
    ((lo + cj.1) % s * gap + cj.2, a (cj.2 * width + (lo + cj.1))))

/-- row parts of the general helper: `[part][polynomial]` -/
def boltRowParts {α : Type} (N gap s m mAll width : Nat) (zero : α) (x : Nat → α) : R (List (List (Array α))) :=
  (List.range (ceilDiv mAll m)).mapM fun p =>
    let lower := p * m
    let upper := min (lower + m) mAll
    (List.range (ceilDiv width s)).mapM fun i =>
      boltColMajor N gap s m width zero (fun id => x (lower * width + id)) ((upper - lower) * width) i

def boltCpEncodeInputs {α : Type} (h : BoltCp) (zero : α) (x : Nat → α) (xlen : Nat) : R (List (List (Array α))) :=
  if xlen ≠ h.mAll * h.r then .error .other else boltRowParts h.N h.gap h.s h.m h.mAll h.r zero x

def boltCpEncodeOutputs {α : Type} (h : BoltCp) (zero : α) (y : Nat → α) (ylen : Nat) : R (List (List (Array α))) :=
  if ylen ≠ h.mAll * h.n then .error .other else boltRowParts h.N h.gap h.s h.m h.mAll h.n zero y

/-- one weight polynomial: rotation class (`ir`, `or`), output polynomial `i`, input polynomial `j` -/
def boltCpEncW {α : Type} (h : BoltCp) (zero : α) (b : Nat → α) (ir or i j : Nat) : R (Array α) :=
  let half := h.s / 2
  let rot := or * h.irc + ir
  let corr := or * h.irc % h.s
  scatterA zero h.N h.N (((pairs h.s h.gap).filter fun kt =>
      j * h.s + boltShift half kt.1 rot < h.r ∧ i * h.s + kt.1 < h.n).map fun kt =>
    (boltShift half kt.1 corr * h.gap + kt.2, b ((j * h.s + boltShift half kt.1 rot) * h.n + (i * h.s + kt.1))))

/-- `encode_weights`: `[ir·orc + or][i·input_count + j]` -/
def boltCpEncodeWeights {α : Type} (h : BoltCp) (zero : α) (w : Nat → α) (wlen : Nat) : R (List (List (Array α))) :=
  if wlen ≠ h.r * h.n then .error .other else
  (pairs h.irc h.orc).mapM fun io => (pairs (ceilDiv h.n h.s) (ceilDiv h.r h.s)).mapM fun ij =>
    boltCpEncW h zero w io.1 io.2 ij.1 ij.2

/-- the input polynomial after the rotations of baby step `ir` (`rotate_rows` by one column per step; at `ir = s/2` the original is
    reloaded with its rows exchanged) -/
def boltCpRotIn {α : Type} (h : BoltCp) (zero : α) (a : Array α) : Nat → Array α
  | 0 => a
  | ir+1 => if ir + 1 = h.s / 2 then swapRows zero h.N a else rotRows zero h.N h.gap (boltCpRotIn h zero a ir)

/-- `MatmulBoltCpSmall::multiply` on slot vectors, for one part -/
def boltCpMulPart {α : Type} (h : BoltCp) (add mul : α → α → α) (zero : α) (a : List (Array α)) (B : List (List (Array α))) :
    R (List (Array α)) :=
  let ic := ceilDiv h.r h.s
  let oc := ceilDiv h.n h.s
  if a.length ≠ ic then .error .other else
  (List.range oc).mapM fun i => do
    -- outputs[or][i] = Σ_ir Σ_j rot_ir(a_j) ⊙ B[ir·orc + or][i·ic + j]
    let outs ← (List.range h.orc).mapM fun or =>
      (pairs h.irc ic).foldlM (fun (acc : Option (Array α)) irj => do
        let aj ← getSlots a irj.2
        let row ← getRow B (irj.1 * h.orc + or)
        let b ← getSlots row (i * ic + irj.2)
        pure (accAdd add zero h.N acc (slotZip mul zero h.N (boltCpRotIn h zero aj irj.1) b))) none
    -- giant steps, from the last class down: rotate the running sum by `irc` columns, add the class; the classes that crossed the
    -- row boundary are set aside with their rows exchanged
    let st ← (List.range h.orc).reverse.foldlM (fun (st : Option (Array α) × Option (Array α)) or => do
        let sum := match st.1 with
          | some v => if h.irc * h.gap < h.N / 2 then some (rotRows zero h.N (h.irc * h.gap) v) else some v
          | none => none
        let part := (outs.getD or none)
        let sum := match part with
          | some p => accAdd add zero h.N sum p
          | none => sum
        if or = h.orc / 2 then
          match sum with
          | some v => pure (none, some (swapRows zero h.N v))
          | none => pure (sum, st.2)
        else pure (sum, st.2)) ((none : Option (Array α)), (none : Option (Array α)))
    let fin := match st.2 with
      | some hv => accAdd add zero h.N st.1 hv
      | none => st.1
    unwrapAcc fin

def boltCpMultiply {α : Type} (h : BoltCp) (add mul : α → α → α) (zero : α) (A B : List (List (Array α))) :
    R (List (List (Array α))) :=
  if A.length ≠ ceilDiv h.mAll h.m then .error .other else A.mapM fun a => boltCpMulPart h add mul zero a B

/-- `decode_outputs` of the column-major layout: entry (row `i` of the part, column `j`) at polynomial `j / s`, slot `(j mod s)·gap + i` -/
def boltColMajorDecode {α : Type} (gap s m mAll width : Nat) (zero : α) (Y : List (List (Array α))) : R (Array α) :=
  do let ws ← (List.range Y.length).mapM fun p => do
       let part ← getRow Y p
       let lower := p * m
       let upper := min (lower + m) mAll
       (pairs (upper - lower) width).mapM fun ij => do
         let poly ← getSlots part (ij.2 / s)
         let v ← readAt poly (ij.2 % s * gap + ij.1)
         pure ((lower + ij.1) * width + ij.2, v)
     scatterA zero (mAll * width) (mAll * width) ws.flatten

def boltCpDecodeOutputs {α : Type} (h : BoltCp) (zero : α) (Y : List (List (Array α))) : R (Array α) :=
  if Y.any (fun p => p.length ≠ ceilDiv h.n h.s) then .error .other else boltColMajorDecode h.gap h.s h.m h.mAll h.n zero Y

/-! #### `MatmulBoltCcCr` (ciphertext × ciphertext, LHS column-major, RHS row-major; outputs by diagonals) -/

structure BoltCc where
  N : Nat
  mAll : Nat
  r : Nat
  nAll : Nat
  m : Nat        -- regular.m
  gap : Nat
  gsc : Nat      -- gap_slot_count
  deriving Repr, Inhabited

/-- `MatmulBoltCcCr::new`: the block side is `min(max(m, n), N/2)` -/
def BoltCc.newCr (m r n N : Nat) : R BoltCc :=
  let mr := min (max m n) (N / 2)
  let gap := ceilTwoPower mr
  if mr = 0 ∨ r = 0 ∨ N / 2 = 0 then .error .other else
  .ok ⟨N, m, r, n, mr, gap, ceilDiv N gap⟩

/-- `MatmulBoltCcDc::new`: the block side is `min(max(m, r), N/2)` -/
def BoltCc.newDc (m r n N : Nat) : R BoltCc :=
  let mr := min (max m r) (N / 2)
  let gap := ceilTwoPower mr
  if mr = 0 ∨ n = 0 ∨ N / 2 = 0 then .error .other else
  .ok ⟨N, m, r, n, mr, gap, ceilDiv N gap⟩

def boltCrEncodeInputs {α : Type} (h : BoltCc) (zero : α) (x : Nat → α) (xlen : Nat) : R (List (List (Array α))) :=
  if xlen ≠ h.mAll * h.r then .error .other else boltRowParts h.N h.gap h.gsc h.m h.mAll h.r zero x

/-- `MatmulBoltCcCrSmall::encode_weights` for the column strip `[cs, ce)`: polynomial `i` holds rows `[i·gsc, …)`, row `ρ` at slots
    `(ρ mod gsc)·gap + j`, column `cs + j` -/
def boltCrEncW {α : Type} (h : BoltCc) (zero : α) (b : Nat → α) (blen cs ce i : Nat) : R (Array α) :=
  let lo := i * h.gsc
  let hi := min h.r (lo + h.gsc)
  scatterA zero h.N h.N (((pairs (hi - lo) (min h.m (ce - cs))).filter fun rj =>
      (lo + rj.1) * h.nAll + rj.2 + cs < blen).map fun rj =>
    ((lo + rj.1) % h.gsc * h.gap + rj.2, b ((lo + rj.1) * h.nAll + rj.2 + cs)))

def boltCrEncodeWeights {α : Type} (h : BoltCc) (zero : α) (w : Nat → α) (wlen : Nat) : R (List (List (Array α))) :=
  if wlen ≠ h.r * h.nAll then .error .other else
  (List.range (ceilDiv h.nAll h.m)).mapM fun p =>
    (List.range (ceilDiv h.r h.gsc)).mapM fun i => boltCrEncW h zero w wlen (p * h.m) (min (p * h.m + h.m) h.nAll) i

/-- `sum_inplace`: fold all columns onto every column (log-many rotations, the last one across the rows) -/
def boltSumAll {α : Type} (add : α → α → α) (zero : α) (N gap : Nat) (a : Array α) : Array α :=
  let rec go : Nat → Nat → Array α → Array α
    | 0, _, a => a
    | f+1, rc, a =>
      if rc = N then a else
      let t := if rc < N / 2 then rotRows zero N rc a else swapRows zero N a
      go f (2 * rc) (slotZip add zero N a t)
  go 64 gap a

/-- `MatmulBoltCcCrSmall::multiply`: diagonal `shift` of the product (entries `(i, (i + shift) mod m)`) is collected at polynomial
    `shift / gsc`, slots `(shift mod gsc)·gap + i`; the wrapped part of the diagonal comes from the rotation by `shift − m` -/
def boltCrMulSmall {α : Type} (h : BoltCc) (add mul : α → α → α) (zero : α) (a b : List (Array α)) : R (List (Array α)) :=
  if a.length ≠ b.length then .error .other else
  let diag (rot lo hi : Nat) (acc : Option (Array α)) : R (Option (Array α)) := do
    let ps ← (List.range a.length).foldlM (fun (acc : Option (Array α)) i => do
      let ai ← getSlots a i
      let bi ← getSlots b i
      pure (accAdd add zero h.N acc (slotZip mul zero h.N (rotRows zero h.N rot bi) ai))) none
    let ps ← unwrapAcc ps
    pure (accAdd add zero h.N acc (slotMask zero h.N lo hi (boltSumAll add zero h.N h.gap ps)))
  (List.range (ceilDiv h.m h.gsc)).mapM fun o => do
    let acc ← ((List.range h.m).filter fun sh => sh / h.gsc = o).foldlM (fun acc sh =>
      diag (sh % (h.N / 2)) (sh % h.gsc * h.gap) (sh % h.gsc * h.gap + h.m - sh) acc) none
    let acc ← (((List.range h.m).reverse.filter fun sh => sh ≠ 0 ∧ sh / h.gsc = o)).foldlM (fun acc sh =>
      diag ((h.N / 2 - (h.m - sh) % (h.N / 2)) % (h.N / 2)) (sh % h.gsc * h.gap + h.m - sh) (sh % h.gsc * h.gap + h.m) acc) acc
    unwrapAcc acc

/-- `MatmulBoltCcCr::multiply`: `[i·wcount + j]` -/
def boltCrMultiply {α : Type} (h : BoltCc) (add mul : α → α → α) (zero : α) (A B : List (List (Array α))) :
    R (List (List (Array α))) :=
  if A.length ≠ ceilDiv h.mAll h.m ∨ B.length ≠ ceilDiv h.nAll h.m then .error .other else
  (pairs A.length B.length).mapM fun ij => do
    let a ← getRow A ij.1
    let b ← getRow B ij.2
    boltCrMulSmall h add mul zero a b

/-- `decode_outputs` (cc_cr): block `(i, j)` = polynomial set `i·wcount + j`; entry `(u, (u + shift) mod m)` of the block at polynomial
    `shift / gsc`, slot `(shift mod gsc)·gap + u` -/
def boltCrDecodeOutputs {α : Type} (h : BoltCc) (zero : α) (Y : List (List (Array α))) : R (Array α) :=
  let ic := ceilDiv h.mAll h.m
  let wc := ceilDiv h.nAll h.m
  if Y.length ≠ ic * wc then .error .other else
  do let ws ← (pairs ic wc).mapM fun ij => do
       let part ← getRow Y (ij.1 * wc + ij.2)
       let si := ij.1 * h.m
       let sj := ij.2 * h.m
       -- the small decoder fills the whole m × m block; the general one copies the part inside the matrix
       let blk ← (pairs h.m h.m).mapM fun su => do      -- (shift, u)
         let poly ← getSlots part (su.1 / h.gsc)
         let v ← readAt poly (su.1 % h.gsc * h.gap + su.2)
         pure (su.2, (su.2 + su.1) % h.m, v)
       pure ((blk.filter fun e => si + e.1 < h.mAll ∧ sj + e.2.1 < h.nAll).map fun e => ((si + e.1) * h.nAll + (sj + e.2.1), e.2.2))
     scatterA zero (h.mAll * h.nAll) (h.mAll * h.nAll) ws.flatten

def boltCrEncodeOutputs {α : Type} (h : BoltCc) (zero : α) (y : Nat → α) (ylen : Nat) : R (List (List (Array α))) :=
  if ylen ≠ h.mAll * h.nAll then .error .oob else
  (pairs (ceilDiv h.mAll h.m) (ceilDiv h.nAll h.m)).mapM fun ij =>
    let si := ij.1 * h.m
    let sj := ij.2 * h.m
    (List.range (ceilDiv h.m h.gsc)).mapM fun o =>
      scatterA zero h.N h.N ((((List.range h.m).filter fun sh => sh / h.gsc = o).flatMap fun sh =>
        (List.range h.m).map fun u =>
          (sh % h.gsc * h.gap + u,
           if si + u < h.mAll ∧ sj + (u + sh) % h.m < h.nAll then y ((si + u) * h.nAll + (sj + (u + sh) % h.m)) else zero)))

/-! #### `MatmulBoltCcDc` (ciphertext × ciphertext, LHS by diagonals, RHS column-major) -/

/-- `MatmulBoltCcDcSmall::encode_inputs` for the block starting at `(sy, sx)`: polynomial `i`, slot `j·gap + k` holds
    `a[sy + k][sx + (i·gsc + k + j) mod m]` -/
def boltDcEncIn {α : Type} (h : BoltCc) (zero : α) (a : Nat → α) (sy sx i : Nat) : R (Array α) :=
  scatterA zero h.N h.N (((pairs h.gsc h.gap).filter fun jk =>
      sy + jk.2 < h.mAll ∧ sx + (i * h.gsc + jk.2 + jk.1) % h.m < h.r).map fun jk =>
    (jk.1 * h.gap + jk.2, a ((sy + jk.2) * h.r + (sx + (i * h.gsc + jk.2 + jk.1) % h.m))))

/-- `MatmulBoltCcDc::encode_inputs`: blocks in ROW-MAJOR grid order `[i·wcount + j]` -/
def boltDcEncodeInputs {α : Type} (h : BoltCc) (zero : α) (x : Nat → α) (xlen : Nat) : R (List (List (Array α))) :=
  if xlen ≠ h.mAll * h.r then .error .other else
  (pairs (ceilDiv h.mAll h.m) (ceilDiv h.r h.m)).mapM fun ij =>
    (List.range (ceilDiv h.m h.gsc)).mapM fun i => boltDcEncIn h zero x (ij.1 * h.m) (ij.2 * h.m) i

/-- `MatmulBoltCcDcSmall::encode_weights` for the row strip starting at `sy` -/
def boltDcEncW {α : Type} (h : BoltCc) (zero : α) (b : Nat → α) (sy i : Nat) : R (Array α) :=
  let lo := i * h.gsc
  let hi := min h.nAll (lo + h.gsc)
  scatterA zero h.N h.N (((pairs (hi - lo) h.m).filter fun ck => sy + ck.2 < h.r ∧ lo + ck.1 < h.nAll).map fun ck =>
    (ck.1 * h.gap + ck.2, b ((sy + ck.2) * h.nAll + (lo + ck.1))))

def boltDcEncodeWeights {α : Type} (h : BoltCc) (zero : α) (w : Nat → α) (wlen : Nat) : R (List (List (Array α))) :=
  if wlen ≠ h.r * h.nAll then .error .other else
  (List.range (ceilDiv h.r h.m)).mapM fun p =>
    (List.range (ceilDiv h.nAll h.gsc)).mapM fun i => boltDcEncW h zero w (p * h.m) i

/-- `spread_inputs`: keep the slots `[lo, hi)` (inside one column) and copy that column onto every column -/
def boltSpread {α : Type} (add : α → α → α) (zero : α) (N gap lo hi : Nat) (a : Array α) : R (Array α) :=
  if hi = 0 ∨ lo / gap ≠ (hi - 1) / gap then .error .other else      -- `assert_eq!(low / gap, (high - 1) / gap)`
  let rec go : Nat → Nat → Nat → Array α → Array α
    | 0, _, _, a => a
    | f+1, rc, sid, a =>
      if rc = N then a else
      let t := if rc < N / 2 then (if sid % 2 = 0 then rotRows zero N (N / 2 - rc) a else rotRows zero N rc a)
               else swapRows zero N a
      go f (2 * rc) (sid / 2) (slotZip add zero N a t)
  .ok (go 64 gap (lo / gap) (slotMask zero N lo hi a))

/-- `MatmulBoltCcDcSmall::multiply` (before relinearisation, which does not change the slots) -/
def boltDcMulSmall {α : Type} (h : BoltCc) (add mul : α → α → α) (zero : α) (a b : List (Array α)) : R (List (Array α)) :=
  if a.length ≠ ceilDiv h.m h.gsc ∨ b.length ≠ ceilDiv h.nAll h.gsc then .error .other else
  (List.range b.length).mapM fun o => do
    let bo ← getSlots b o
    let step (rot lo hi sh : Nat) (acc : Option (Array α)) : R (Option (Array α)) := do
      let ai ← getSlots a (sh / h.gsc)
      let ma ← boltSpread add zero h.N h.gap lo hi ai
      pure (accAdd add zero h.N acc (slotZip mul zero h.N (rotRows zero h.N rot bo) ma))
    let acc ← (List.range h.m).foldlM (fun acc sh =>
      step (sh % (h.N / 2)) (sh % h.gsc * h.gap) (sh % h.gsc * h.gap + (h.m - sh)) sh acc) none
    let acc ← ((List.range h.m).reverse.filter fun sh => sh ≠ 0).foldlM (fun acc sh =>
      step ((h.N / 2 - (h.m - sh) % (h.N / 2)) % (h.N / 2)) (sh % h.gsc * h.gap + (h.m - sh)) (sh % h.gsc * h.gap + (h.m - sh) + sh) sh acc) acc
    unwrapAcc acc

/-- `MatmulBoltCcDc::multiply`: output part `i` = Σ_j small(A[i·bcount + j], B[j]) -/
def boltDcMultiply {α : Type} (h : BoltCc) (add mul : α → α → α) (zero : α) (A B : List (List (Array α))) :
    R (List (List (Array α))) :=
  let bc := B.length
  if A.length ≠ ceilDiv h.mAll h.m * ceilDiv h.r h.m ∨ bc ≠ ceilDiv h.r h.m then .error .other else
  (List.range (ceilDiv h.mAll h.m)).mapM fun i => do
    let parts ← (List.range bc).mapM fun j => do
      let a ← getRow A (i * bc + j)
      let b ← getRow B j
      boltDcMulSmall h add mul zero a b
    match parts with
    | [] => .error .other
    | p0 :: rest => pure (rest.foldl (fun acc p => (acc.zip p).map fun ap => slotZip add zero h.N ap.1 ap.2) p0)

def boltDcDecodeOutputs {α : Type} (h : BoltCc) (zero : α) (Y : List (List (Array α))) : R (Array α) :=
  if Y.length ≠ ceilDiv h.mAll h.m ∨ Y.any (fun p => p.length ≠ ceilDiv h.nAll h.gsc) then .error .other else
  boltColMajorDecode h.gap h.gsc h.m h.mAll h.nAll zero Y

def boltDcEncodeOutputs {α : Type} (h : BoltCc) (zero : α) (y : Nat → α) (ylen : Nat) : R (List (List (Array α))) :=
  if ylen ≠ h.mAll * h.nAll then .error .oob else
  (List.range (ceilDiv h.mAll h.m)).mapM fun p =>
    (List.range (ceilDiv h.nAll h.gsc)).mapM fun o =>
      scatterA zero h.N h.N ((pairs (min h.nAll (o * h.gsc + h.gsc) - o * h.gsc) h.m).map fun ci =>
        (ci.1 * h.gap + ci.2, if p * h.m + ci.2 < h.mAll then y ((p * h.m + ci.2) * h.nAll + (o * h.gsc + ci.1)) else zero))

/-! ### RNS plaintext wrapper -/

/-- `RNSBase::decompose_array` on `count` values of `size` words each: output layout `[component][value]` -/
def rnsSplit (b : RNSBase) (vals : List Nat) : R (List (List Nat)) :=
  do let rs ← vals.mapM fun v => b.decompose v
     pure ((List.range b.size).map fun i => rs.map fun r => r.getD i 0)

/-- `RNSBase::compose_array` -/
def rnsMerge (b : RNSBase) (comps : List (List Nat)) (count : Nat) : R (List Nat) :=
  (List.range count).mapM fun j => b.compose ((comps.map fun c => c.getD j 0).toArray)

end HC.MM
