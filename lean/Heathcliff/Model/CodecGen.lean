/- The scalar I/O primitives the Rust code uses on this run (extracted by tools/extract.py into
   Gen/Serialize.lean) as modes of the codec model. -/
import Heathcliff.Model.Codec
import Heathcliff.Gen.Serialize
namespace HC.Codec

def genWMode : SK → WMode
  | .u64 => if HC.Gen.Serialize.u64WriterUsesWriteAll then .writeAll else .write
  | .usize => if HC.Gen.Serialize.usizeWriterUsesWriteAll then .writeAll else .write
  | .u8 => if HC.Gen.Serialize.u8WriterUsesWriteAll then .writeAll else .write

def genRMode : SK → RMode
  | .u64 => if HC.Gen.Serialize.u64ReaderPropagates then .propagate else .unwrap
  | .usize => if HC.Gen.Serialize.usizeReaderPropagates then .propagate else .unwrap
  | .u8 => if HC.Gen.Serialize.u8ReaderPropagates then .propagate else .unwrap

end HC.Codec
