/-
  Model of src/multiparty/participant.rs (and the share encoder contract of src/multiparty/utils.rs).

  * `Reveal` = `PolynomialRevelationProtocol`: `broadcasted` is a vector of optional polynomials indexed by the SENDER id
    (`receive` overwrites slot `sender_id`, an id outside the vector is an index panic); `finish` first asserts that every slot
    except the party's own is filled, then adds the filled slots IN SLOT ORDER onto the party's own polynomial (`result`).
    A filled own slot is added as well (the code does not exclude it).
  * every protocol = a round function producing the polynomial(s) a party broadcasts, written once, generically, over the
    ring operations the code performs (`Ops`): instantiated with the RNS/NTT arithmetic of the library (driver: bit-for-bit
    correspondence with the Rust code), with exact schoolbook arithmetic in Z_q[X]/(X^N+1) (driver: independent oracle) and with
    an arbitrary commutative ring (theorems of Props/C18).
  * randomness (secret keys, common-tape polynomials `a`, ternary `u`, centred-binomial noise) and the scaled plaintexts
    produced by `add_plain`/`sub_plain` are inputs.
  * `decryptPolynomial` = the per-scheme final decoding of the summed phase.  BGV: the REPAIRED behaviour (inverse NTT +
    `decrypt_mod_t` + correction factor, as in `Decryptor::bgv_decrypt`); the pinned tree applied the BFV routine
    `decrypt_scale_and_round` to the NTT-form phase (DESIGN.md §7).
-/
import Heathcliff.Model.Scheme
namespace HC.MP

/-- the ring operations a protocol step performs, as the code performs them (each may refuse);
    `toNtt`/`fromNtt`: representation changes; `scale t`: `multiply_scalar_inplace_p` by the plain modulus (BGV noise) -/
structure Ops (α : Type) where
  add : α → α → R α
  sub : α → α → R α
  mul : α → α → R α
  neg : α → R α
  scale : Nat → α → R α
  toNtt : α → α
  fromNtt : α → α

/-- the operations of a ring, never refusing; representation changes are the identity (the NTT is a ring isomorphism, C09) -/
def Ops.ring {α : Type} [Add α] [Sub α] [Mul α] [Neg α] [NatCast α] : Ops α :=
  ⟨fun a b => .ok (a + b), fun a b => .ok (a - b), fun a b => .ok (a * b), fun a => .ok (-a),
   fun t a => .ok ((t : α) * a), id, id⟩

/-! ### PolynomialRevelationProtocol -/

structure Reveal (α : Type) where
  id : Nat                       -- participant_id
  own : α                        -- `result` before `finish`
  slots : List (Option α)        -- `broadcasted`, one slot per participant

variable {α : Type}

def Reveal.new (count id : Nat) (own : α) : Reveal α := ⟨id, own, List.replicate count none⟩

/-- `receive(sender_id, stream)`: `self.broadcasted[sender_id] = Some(polynomial)` -/
def Reveal.receive (p : Reveal α) (sender : Nat) (m : α) : R (Reveal α) :=
  if sender < p.slots.length then .ok { p with slots := p.slots.set sender (some m) } else .error .oob

/-- a delivery history: messages in the order in which they arrive -/
def Reveal.receiveAll (p : Reveal α) : List (Nat × α) → R (Reveal α)
  | [] => .ok p
  | (s, m) :: rest => match p.receive s m with
    | .ok p' => p'.receiveAll rest
    | .error e => .error e

/-- `all(|(i, x)| x.is_some() || i == participant_id)` -/
def allSentFrom (id : Nat) : Nat → List (Option α) → Bool
  | _, [] => true
  | i, x :: xs => (x.isSome || i == id) && allSentFrom id (i + 1) xs

def Reveal.allSent (p : Reveal α) : Bool := allSentFrom p.id 0 p.slots

/-- the loop of `finish`: `add_inplace_p(result, p0)` for every filled slot, in slot order -/
def sumSlots (add : α → α → R α) : α → List (Option α) → R α
  | acc, [] => .ok acc
  | acc, none :: xs => sumSlots add acc xs
  | acc, some m :: xs => match add acc m with
    | .ok a => sumSlots add a xs
    | .error e => .error e

/-- `finish`: the completeness assertion, then the sum -/
def Reveal.finish (o : Ops α) (p : Reveal α) : R α :=
  if p.allSent then sumSlots o.add p.own p.slots else .error .refused

/-- a whole run of one party: fresh protocol object, deliveries in arrival order, finish -/
def revealRun (o : Ops α) (count id : Nat) (own : α) (deliveries : List (Nat × α)) : R α :=
  match (Reveal.new count id own).receiveAll deliveries with
  | .ok p => p.finish o
  | .error e => .error e

/-! ### round functions -/

/-- `sample_noise(.., is_ntt_form = true, ..)`: the centred-binomial sample `e` (coefficient form) is transformed and, in BGV,
    multiplied by the plain modulus -/
def noiseOf (o : Ops α) (sch : Scheme) (t : Nat) (e : α) : R α :=
  let x := o.toNtt e
  if sch = .bgv then o.scale t x else .ok x

/-- `generate_public_key` (`encrypt_zero::symmetric_with_c1_prng`, NTT form): p0_i = -(s_i·a + e_i); p1 = a is common -/
def pkShare (o : Ops α) (sch : Scheme) (t : Nat) (s a e : α) : R α := do
  let c0 ← o.mul s a
  let nz ← noiseOf o sch t e
  let c0 ← o.add c0 nz
  o.neg c0

/-- relinearisation key, round 1, decomposition index j (`w` = the RNS element that is `P mod q_j` in component j, 0 elsewhere):
    (h0, h1) = (-(u·a) + s·w + e0, s·a + e1); `u` is the ternary sample in coefficient form -/
def rlkRound1 (o : Ops α) (sch : Scheme) (t : Nat) (s a u e0 e1 w : α) : R (α × α) := do
  let un := o.toNtt u
  let ua ← o.mul un a
  let h0 ← o.neg ua
  let sw ← o.mul s w
  let h0 ← o.add h0 sw
  let n0 ← noiseOf o sch t e0
  let h0 ← o.add h0 n0
  let h1 ← o.mul s a
  let n1 ← noiseOf o sch t e1
  let h1 ← o.add h1 n1
  pure (h0, h1)

/-- round 2 on the summed round-1 polynomials: (h0', h1') = (s·h0 + e2, (u - s)·h1 + e3) -/
def rlkRound2 (o : Ops α) (sch : Scheme) (t : Nat) (s u h0 h1 e2 e3 : α) : R (α × α) := do
  let a0 ← o.mul s h0
  let n2 ← noiseOf o sch t e2
  let a0 ← o.add a0 n2
  let d ← o.sub (o.toNtt u) s
  let a1 ← o.mul d h1
  let n3 ← noiseOf o sch t e3
  let a1 ← o.add a1 n3
  pure (a0, a1)

/-- `RelinKeysGenerationProtocol::finish`: key_j = (Σh0' + Σh1', Σh1) -/
def rlkFinish (o : Ops α) (h0p h1p h1 : α) : R (α × α) := do
  let k0 ← o.add h0p h1p
  pure (k0, h1)

/-- `key_switch`: h_i = (s_i - s'_i)·c1 + e_i, in the representation of the ciphertext -/
def ksShare (o : Ops α) (sch : Scheme) (t : Nat) (ntt : Bool) (s s' c1 e : α) : R α := do
  let d ← o.sub s s'
  let tmp := if ntt then c1 else o.toNtt c1
  let h ← o.mul d tmp
  let nz ← noiseOf o sch t e
  let h ← o.add h nz
  pure (if ntt then h else o.fromNtt h)

/-- `decrypt` (and the first half of `cipher_to_shares`): h_i = s_i·c1 + e_i -/
def decShare (o : Ops α) (sch : Scheme) (t : Nat) (ntt : Bool) (s c1 e : α) : R α := do
  let tmp := if ntt then c1 else o.toNtt c1
  let h ← o.mul s tmp
  let nz ← noiseOf o sch t e
  let h ← o.add h nz
  pure (if ntt then h else o.fromNtt h)

/-- `public_key_switch` to (p0', p1'): (h0_i, h1_i) = (s_i·c1 + u_i·p0' + e0_i, p1'·u_i + e1_i) -/
def pksShare (o : Ops α) (sch : Scheme) (t : Nat) (ntt : Bool) (s c1 p0 p1 u e0 e1 : α) : R (α × α) := do
  let tmp := if ntt then c1 else o.toNtt c1
  let h0 ← o.mul s tmp
  let un := o.toNtt u
  let up ← o.mul un p0
  let h0 ← o.add h0 up
  let n0 ← noiseOf o sch t e0
  let h0 ← o.add h0 n0
  let h0 := if ntt then h0 else o.fromNtt h0
  let h1 ← o.mul p1 un
  let n1 ← noiseOf o sch t e1
  let h1 ← o.add h1 n1
  let h1 := if ntt then h1 else o.fromNtt h1
  pure (h0, h1)

/-- `cipher_to_shares`: every party but 0 also adds the first polynomial of `0 - plain(share_i)` (`negPlain`, produced by
    `sub_plain_inplace` on a zeroed c0) -/
def c2sShare (o : Ops α) (sch : Scheme) (t : Nat) (ntt : Bool) (id : Nat) (s c1 e negPlain : α) : R α := do
  let h ← decShare o sch t ntt s c1 e
  if id ≠ 0 then o.add h negPlain else pure h

/-- `shares_to_cipher`: the party's ciphertext is (plain(share_i), a) with the common-tape `a`; h_i = (-s_i)·a + e_i, every party
    but 0 adds its own c0 -/
def s2cShare (o : Ops α) (sch : Scheme) (t : Nat) (ntt : Bool) (id : Nat) (s a e plain : α) : R α := do
  let ns ← o.neg s
  let tmp := if ntt then a else o.toNtt a
  let h ← o.mul ns tmp
  let nz ← noiseOf o sch t e
  let h ← o.add h nz
  let h := if ntt then h else o.fromNtt h
  if id ≠ 0 then o.add h plain else pure h

/-- `KeySwitchProtocol::finish` / `DecryptionProtocol::finish` (before decoding): c0 + Σh -/
def addToC0 (o : Ops α) (c0 h : α) : R α := o.add c0 h

/-! ### concrete RNS instance (the arithmetic of `util::polysmallmod` at one level) -/

def rnsSub (l : Level) (a b : RnsPoly) : R RnsPoly := rnsZip l a b subMod
def rnsMap (l : Level) (a : RnsPoly) (f : Nat → Modulus → R Nat) : R RnsPoly :=
  (List.range l.size).foldlM (fun acc i => do
    let c ← mapM' (a.getD i #[]) (fun x => f x (l.q i))
    pure (acc.push c)) #[]
def rnsNeg (l : Level) (a : RnsPoly) : R RnsPoly := rnsMap l a negateMod
def rnsScale (l : Level) (t : Nat) (a : RnsPoly) : R RnsPoly := rnsMap l a (fun x m => mulMod x t m)

def rnsOps (l : Level) : Ops RnsPoly :=
  ⟨rnsAdd l, rnsSub l, rnsDyadic l, rnsNeg l, rnsScale l, rnsNtt l, rnsIntt l⟩

/-- the `si * w` operand of round 1: `P mod q_j` in every slot of component j, zero elsewhere -/
def rlkW (l : Level) (j : Nat) : RnsPoly :=
  let special := (l.q (l.size - 1)).value
  Array.ofFn (n := l.size) fun i =>
    if i.val = j then Array.replicate l.n (special % (l.q j).value) else Array.replicate l.n 0

/-! ### final decoding -/

inductive PlainOut where
  | coeffs (p : Poly)        -- BFV / BGV: trimmed coefficient list
  | rns (p : RnsPoly)        -- CKKS: the phase itself

/-- `decrypt_polynomial` -/
def decryptPolynomial (l : Level) (ntt : Bool) (cf : Nat) (target : RnsPoly) : R PlainOut :=
  match l.scheme with
  | .bfv => do
    let d ← l.tool.decryptScaleAndRound target
    pure (.coeffs (trimPlain d))
  | .ckks => pure (.rns target)
  | .bgv => do
    let ph := if ntt then rnsIntt l target else target
    let d ← l.tool.decryptModT ph
    let d ← if cf ≠ 1 then do
        match ← tryInvert cf l.t.value with
        | none => .error .refused
        | some fix => mapM' d (fun x => mulMod x fix l.t)
      else pure d
    pure (.coeffs (trimPlain d))

/-- `BFVShareSampler::sample`: `poly_modulus_degree` draws of `Uniform::new(0, t - 1)` (upper bound exclusive): the range of a share slot -/
def shareSlotRange (t : Nat) : Nat × Nat := (0, t - 2)

end HC.MP
