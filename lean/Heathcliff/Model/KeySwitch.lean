/-
  Model of `Evaluator::switch_key_inplace_internal` (hybrid key switching with one special prime), of `relinearize_internal`
  and of `apply_galois_inplace` (src/evaluator.rs).

  `keyMs` / `keyTables` are the key-level moduli / NTT tables (the last one is the special prime), the ciphertext lives at a
  level with `dsz` (= decomp_modulus_size) moduli, a prefix of the key-level ones.  A key-switching key is
  `key[j][k][component]`: for every decomposition index j < dsz a two-polynomial key over ALL key-level moduli.

  The 128-bit lazy accumulation of the code (reduce after every 256 summands) is modelled by the exact sum followed by one
  reduction: the accumulator cannot overflow for ≤ 64 summands of (value < 4q) × (key residue < q) (q < 2^61), and both the code's
  final value and this one are the canonical residue of the same sum.
-/
import Heathcliff.Model.Evaluator
import Heathcliff.Model.Galois
namespace HC

abbrev KSKey := Array (Array RnsPoly)      -- [decomposition index j][k ∈ {0,1}] ↦ RNS polynomial over the key-level moduli

structure KeyLevel where
  n : Nat
  ms : Array Modulus            -- key-level moduli, last = special prime
  tables : Array NTTTables
  invPModQ : Array MulOperand   -- `inv_q_last_mod_q` of the key level: P^{-1} mod q_j
  invPModT : Nat                -- `inv_q_last_mod_t` of the key level (BGV)
  t : Modulus
  deriving Inhabited

def KeyLevel.m (kl : KeyLevel) (i : Nat) : Modulus := kl.ms.getD i default
def KeyLevel.tb (kl : KeyLevel) (i : Nat) : NTTTables := kl.tables.getD i default

/-- accumulate Σ_j operand_j ⊙ key[j][k][keyIndex] modulo the key-level modulus `keyIndex`, for one RNS index i -/
def ksAccumulate (kl : KeyLevel) (dsz : Nat) (isNtt : Bool) (target targetCoef : RnsPoly) (key : KSKey) (i : Nat) (kcc : Nat) :
    R (List Poly) := do
  let ksz := kl.ms.size
  let keyIndex := if i = dsz then ksz - 1 else i
  let mq := kl.m keyIndex
  -- operand for every decomposition index j
  let ops ← (List.range dsz).mapM fun j =>
    if isNtt ∧ i = j then pure (target.getD j #[])
    else do
      let src := targetCoef.getD j #[]
      let red ← if (kl.m j).value ≤ mq.value then pure src else mapM' src (fun x => barrett64 x mq)
      pure (nttLazy (kl.tb keyIndex) red)
  (List.range kcc).mapM fun k =>
    (List.range kl.n).foldlM (fun (acc : Array Nat) l => do
      let s := (List.range dsz).foldl (fun tot j =>
        tot + (ops.getD j #[]).getD l 0 * (((key.getD j #[]).getD k #[]).getD keyIndex #[]).getD l 0) 0
      if s ≥ 2^128 then .error .overflow else
      let r ← barrett128 (s % B64) (s / B64) mq
      pure (acc.push r)) #[]

/-- `switch_key_inplace_internal(encrypted, target, keys, index)`: returns the updated first `kcc` polynomials of `encrypted` -/
def switchKey (kl : KeyLevel) (scheme : Scheme) (dsz : Nat) (ct : Ct) (target : RnsPoly) (key : KSKey) : R Ct := do
  let ksz := kl.ms.size
  if ksz < 2 ∨ dsz + 1 > ksz ∨ key.size < dsz then .error .refused else
  let isNtt := ct.ntt
  (match scheme with
   | .bfv => if isNtt then Except.error Err.refused else pure ()
   | _ => if !isNtt then Except.error Err.refused else pure ())
  let kcc := (key.getD 0 #[]).size
  let targetCoef : RnsPoly := if isNtt then Array.ofFn (n := dsz) fun j => intt (kl.tb j.val) (target.getD j.val #[]) else target
  -- poly_prod[k][i] for i in 0..dsz (index dsz = special prime)
  let prods ← (List.range (dsz + 1)).mapM fun i => ksAccumulate kl dsz isNtt target targetCoef key i kcc
  let prod (k i : Nat) : Poly := (prods.getD i []).getD k #[]
  let P := kl.m (ksz - 1)
  let newPolys ← (List.range kcc).mapM fun k => do
    match scheme with
    | .bgv => do
      let tLast := intt (kl.tb (ksz - 1)) (prod k dsz)
      let kk0 ← mapM' tLast (fun x => do let y ← barrett64 x kl.t; negateMod y kl.t)
      let kk ← if kl.invPModT ≠ 1 then mapM' kk0 (fun x => mulMod x kl.invPModT kl.t) else pure kk0
      let comps ← (List.range dsz).mapM fun j => do
        let mj := kl.m j
        let delta0 ← mapM' kk (fun x => do let y ← barrett64 x mj; mulMod y P.value mj)
        let cmod ← mapM' tLast (fun x => barrett64 x mj)
        let delta1 ← zipM' delta0 cmod (fun a b => addMod a b mj)
        let delta2 := ntt (kl.tb j) delta1
        let d ← zipM' (prod k j) delta2 (fun a b => subMod a b mj)
        let d ← mapM' d (fun x => mulOperandMod x (kl.invPModQ.getD j default) mj)
        zipM' ((ct.polys.getD k #[]).getD j #[]) d (fun a b => addMod a b mj)
      pure comps.toArray
    | _ => do
      let tl0 := inttLazy (kl.tb (ksz - 1)) (prod k dsz)
      let half := P.value / 2
      let tLast ← mapM' tl0 (fun x => do let y ← ckAdd x half; barrett64 y P)
      let comps ← (List.range dsz).mapM fun j => do
        let mj := kl.m j
        let qi := mj.value
        let tmp0 ← if P.value > qi then mapM' tLast (fun x => barrett64 x mj) else pure tLast
        let hm ← barrett64 half mj
        let fix ← ckSub qi hm
        let tmp1 ← mapM' tmp0 (fun x => ckAdd x fix)
        let (tmp2, pp, qiLazy) :=
          if isNtt then (nttLazy (kl.tb j) tmp1, prod k j, qi * 4)
          else (tmp1, inttLazy (kl.tb j) (prod k j), qi * 2)
        let d ← zipM' pp tmp2 (fun a b => do let z ← ckSub qiLazy b; ckAdd a z)
        let d ← mapM' d (fun x => mulOperandMod x (kl.invPModQ.getD j default) mj)
        zipM' ((ct.polys.getD k #[]).getD j #[]) d (fun a b => addMod a b mj)
      pure comps.toArray
  let updated := (List.range ct.polys.size).map fun idx => if idx < kcc then newPolys.getD idx #[] else ct.polys.getD idx #[]
  pure { ct with polys := updated.toArray }

/-- `relinearize_internal(encrypted, keys, 2)`: switch the last polynomial away, repeatedly; `keys i` = key for s^(i) (i ≥ 2) -/
def relinearize (kl : KeyLevel) (scheme : Scheme) (dsz : Nat) (keys : Nat → Option KSKey) : Nat → Ct → R Ct
  | 0, _ => .error .other
  | fuel+1, ct =>
    let size := ct.polys.size
    if size < 2 then .error .refused
    else if size = 2 then pure ct
    else match keys (size - 1) with
      | none => .error .refused
      | some key => do
        let target := ct.polys.getD (size - 1) #[]
        let ct' ← switchKey kl scheme dsz ct target key
        relinearize kl scheme dsz keys fuel { ct' with polys := ct'.polys.extract 0 (size - 1) }

/-- `apply_galois_inplace(encrypted, g, keys)` for a size-2 ciphertext -/
def applyGalois (kl : KeyLevel) (l : Level) (scheme : Scheme) (ct : Ct) (g : Nat) (key : KSKey) : R Ct := do
  if ct.polys.size ≠ 2 then .error .refused else
  if g % 2 = 0 ∨ g > 2 * l.n then .error .refused else
  let ap (p : RnsPoly) : R RnsPoly :=
    (List.range l.size).foldlM (fun acc i => do
      let c ← if ct.ntt then pure (galoisApplyNtt l.k (p.getD i #[]) g) else galoisApply l.k (p.getD i #[]) g (l.q i)
      pure (acc.push c)) #[]
  let c0 ← ap (ct.polys.getD 0 #[])
  let c1 ← ap (ct.polys.getD 1 #[])
  let ct' : Ct := { ct with polys := #[c0, rnsZero l] }
  switchKey kl scheme l.size ct' c1 key

end HC
