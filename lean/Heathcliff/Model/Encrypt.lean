/-
  Model of ENCRYPTION (src/util/rlwe.rs `encrypt_zero::{asymmetric_with_u_prng, symmetric_with_c1_prng}`,
  src/encryptor.rs `encrypt_zero_internal` / `encrypt_internal`, src/text.rs `Ciphertext::expand_seed`):
  the arithmetic that builds a fresh ciphertext from the polynomials the samplers drew.  WHICH polynomials are drawn, in which
  order and from which generator is the subject of Model/Rng.lean (`symCore`, `asymCore`); the functions at the end of this
  file (`encryptZeroSymPrng`, `encryptZeroAsymPrng`, `expandSeed`) put the two together.

  Conventions: polynomials are `RnsPoly` = [component][coefficient]; the drawn polynomials (`u`, `e_j`, `a`) are handed in in
  the RNS encoding the samplers write (`sample::ternary` / `centered_binomial` / `uniform`).  The public key is the array of its
  polynomials in NTT form with all key-level components; a level uses the first `l.size` of them (the code hands
  `public_key.poly(j)` with the level's `coeff_modulus` to `dyadic_product_p`).  The secret key is given by its signed
  coefficients (`skNtt` = the stored NTT form, as in `dotProductCtSk`).
  No Mathlib: this file is compiled into the native driver.
-/
import Heathcliff.Model.Evaluator
import Heathcliff.Model.Rng
namespace HC

/-- `polymod::multiply_scalar_inplace_p(poly, scalar, ..)`: every coefficient times the scalar, component-wise -/
def rnsScalar (l : Level) (a : RnsPoly) (s : Nat) : R RnsPoly :=
  (List.range l.size).foldlM (fun acc i => do
    let c ← mapM' (a.getD i #[]) (fun x => mulMod x s (l.q i))
    pure (acc.push c)) #[]

/-- `is_ntt_form` chosen by `encrypt_zero_internal`: CKKS and BGV ciphertexts are made in NTT form, BFV in coefficient form -/
def Scheme.encNtt : Scheme → Bool
  | .bfv => false
  | .ckks => true
  | .bgv => true

/-- the error term that is added to a ciphertext polynomial: `e` (NTT'd for NTT-form ciphertexts), times t for BGV
    (`sample::centered_binomial(..); if is_ntt_form { ntt_p } if BGV { multiply_scalar_inplace_p(.., t) }`) -/
def encErrorTerm (l : Level) (e : RnsPoly) (isNtt : Bool) : R RnsPoly := do
  let e := if isNtt then rnsNtt l e else e
  if l.scheme = .bgv then rnsScalar l e l.t.value else pure e

/-- `encrypt_zero::asymmetric_with_u_prng` at level `l` as a function of the drawn polynomials:
    `u` (ternary) and `es[j]` (one centred-binomial error per public-key polynomial), all in the samplers' RNS encoding.
    c_j = pk_j·u + e_j  (BGV: + t·e_j).  The code runs two loops over j (products first, then errors); the iterations are
    independent, they are fused here. -/
def encryptZeroAsym (l : Level) (pk : Array RnsPoly) (u : RnsPoly) (es : Array RnsPoly) (isNtt : Bool) : R Ct := do
  let un := rnsNtt l u                                            -- polymod::ntt_p(&mut u, ..)
  let cs ← (List.range pk.size).mapM fun j => do
    let p ← rnsDyadic l un (pk.getD j #[])                       -- dyadic_product_p(&u, public_key.poly(j), ..)
    let p := if isNtt then p else rnsIntt l p                     -- if !is_ntt_form { intt_p }
    let e ← encErrorTerm l (es.getD j #[]) isNtt
    rnsAdd l p e                                                  -- add_inplace_p(destination.poly_mut(j), &u, ..)
  pure ⟨cs.toArray, isNtt, 1⟩

/-- `save_seed` is switched off when flag + seed do not fit into one polynomial:
    `if poly_u64_count < prng_seed_u64_count + 1 { save_seed = false }` -/
def seedSaved (l : Level) (saveSeed : Bool) : Bool :=
  saveSeed && !(l.n * l.size < (Gen.PRNG_SEED_BYTES + 7) / 8 + 1)

/-- `encrypt_zero::symmetric_with_c1_prng` at level `l` as a function of the drawn polynomials: `a` = the output of
    `sample::uniform` on the generator seeded with the public seed, `e` = the centred-binomial error.
    (c0, c1) = (−(a·s + e), a)  (BGV: t·e).
    With a saved seed the stored object carries the seed instead of c1; the value returned here has in c1 what
    `expand_seed` regenerates (`a` itself), see `Ct.toSeeded` / `expandSeed`.
    * NTT form: the sample IS c1 (NTT form).
    * coefficient form without seed: the sample is taken as the NTT form of c1, c1 is inverse-transformed at the end.
    * coefficient form with seed: the sample is c1 in coefficient form, it is transformed for the product. -/
def encryptZeroSym (l : Level) (sk : Array Int) (a e : RnsPoly) (isNtt saveSeed : Bool) : R Ct := do
  let save := seedSaved l saveSeed
  let c1n := if isNtt || !save then a else rnsNtt l a            -- c1 in NTT representation
  let c0 ← rnsDyadic l (skNtt l sk) c1n                           -- dyadic_product_p(secret_key.data(), c1, .., c0)
  let noise := if isNtt then rnsNtt l e else e
  let c0 := if isNtt then c0 else rnsIntt l c0
  let noise ← if l.scheme = .bgv then rnsScalar l noise l.t.value else pure noise
  let c0 ← rnsAdd l c0 noise
  let c0 ← rnsNeg l c0
  let c1 := if !isNtt && !save then rnsIntt l c1n else a
  pure ⟨#[c0, c1], isNtt, 1⟩

/-- how `encrypt_zero_internal` is asked to encrypt, with the polynomials that the call draws -/
inductive EncMode where
  /-- public key; `prev` = the previous level (`prev_context_data`) if there is one: the encryption is made THERE
      (`u`, `es` are drawn with that level's parameters) and divided by its last prime -/
  | asym (prev : Option Level) (pk : Array RnsPoly) (u : RnsPoly) (es : Array RnsPoly)
  /-- secret key -/
  | sym (sk : Array Int) (a e : RnsPoly) (saveSeed : Bool)

/-- the modulus switch inside public-key encryption: per polynomial `divide_and_round_q_last_inplace` (BFV),
    `divide_and_round_q_last_ntt_inplace` (CKKS), `mod_t_and_divide_q_last_ntt_inplace` (BGV) of the PREVIOUS level `pl`,
    then the first `keep` components are copied (`temp.poly(i)[..poly_element_count]`).  Metadata (form, scale, correction
    factor) is copied from `temp`: the correction factor stays 1 (the ciphertext encrypts zero). -/
def encDivideQLast (pl : Level) (keep : Nat) (temp : Ct) : R Ct := do
  let ps ← temp.polys.toList.mapM (fun p => do
    let o ← match pl.scheme with
      | .ckks => pl.tool.divideAndRoundQLastNtt pl.tables p
      | .bfv => pl.tool.divideAndRoundQLast p
      | .bgv => pl.tool.modTAndDivideQLastNtt pl.tables p
    pure (o.extract 0 keep))
  pure { temp with polys := ps.toArray }

/-- `Encryptor::encrypt_zero_internal(parms_id, is_asymmetric, save_seed, ..)` for the level `l` denoted by `parms_id` -/
def encryptZeroInternal (l : Level) : EncMode → R Ct
  | .asym (some pl) pk u es => do
    let temp ← encryptZeroAsym pl pk u es l.scheme.encNtt
    encDivideQLast pl l.size temp
  | .asym none pk u es => encryptZeroAsym l pk u es l.scheme.encNtt
  | .sym sk a e saveSeed => encryptZeroSym l sk a e l.scheme.encNtt saveSeed

/-- BFV `encrypt_internal`: encryption of zero at the first level, then `multiply_add_plain` into c0
    (context constants of the first level handed in as for `multiplyAddPlain`) -/
def bfvEncrypt (l : Level) (coeffDivPlain : Array MulOperand) (qModT upperHalf : Nat) (m : EncMode) (plain : Poly) : R Ct := do
  let z ← encryptZeroInternal l m
  let c0 ← multiplyAddPlain l coeffDivPlain qModT upperHalf plain (z.polys.getD 0 #[])
  pure { z with polys := z.polys.setIfInBounds 0 c0 }

/-- the BGV plaintext lift of `encrypt_internal`: coefficients at or above `plain_upper_half_threshold` get
    `plain_upper_half_increment` added.  `fast` = `using_fast_plain_lift` (increment per component: q_i − t, plain `u64`
    additions); otherwise the increment is ONE multi-word value (Q − t, `size` limbs), added with `add_uint_u64`
    (result truncated to `size` limbs) and the sums are decomposed by `base_q().decompose_array`. -/
def bgvLiftPlain (l : Level) (fast : Bool) (thr : Nat) (incr : Array Nat) (plain : Poly) : R RnsPoly := do
  if plain.size > l.n then .error .refused else
  if fast then
    let comps ← (List.range l.size).mapM fun i =>
      (List.range l.n).mapM fun j =>
        if j < plain.size then
          let m := plain.getD j 0
          if m ≥ thr then ckAdd m (incr.getD i 0) else pure m
        else pure 0
    pure (comps.map List.toArray).toArray
  else do
    let k := l.size
    let vals := (List.range l.n).map fun j =>
      if j < plain.size then
        let m := plain.getD j 0
        if m ≥ thr then (toNat (incr.toList.take k) + m) % 2^(64 * k) else m
      else 0
    let cols ← vals.mapM (fun v => l.tool.baseQ.decompose v)
    pure (untranspose cols.toArray k)

/-- BGV `encrypt_internal`: encryption of zero at the first level, lifted plaintext transformed and added into c0 -/
def bgvEncrypt (l : Level) (fast : Bool) (thr : Nat) (incr : Array Nat) (m : EncMode) (plain : Poly) : R Ct := do
  let z ← encryptZeroInternal l m
  let lifted ← bgvLiftPlain l fast thr incr plain
  let c0 ← rnsAdd l (z.polys.getD 0 #[]) (rnsNtt l lifted)
  pure { z with polys := z.polys.setIfInBounds 0 c0 }

/-- CKKS `encrypt_internal`: encryption of zero at the plaintext's level, the (NTT-form, RNS) plaintext added into c0 -/
def ckksEncrypt (l : Level) (m : EncMode) (plain : RnsPoly) : R Ct := do
  let z ← encryptZeroInternal l m
  let c0 ← rnsAdd l (z.polys.getD 0 #[]) plain
  pure { z with polys := z.polys.setIfInBounds 0 c0 }

/-! ### key generation (src/key.rs `KeyGenerator::generate_sk`, `generate_pk` / `create_public_key`) -/

/-- `KeyGenerator::generate_sk` at the key level `l`: `sample::ternary` writes the secret in the samplers' RNS encoding, `ntt_p`
    transforms it; the result is the stored secret key (= `skNtt l s` for the signed coefficients s: `genSecretKey_eq_skNtt`) -/
def genSecretKey (l : Level) (tern : RnsPoly) : RnsPoly := rnsNtt l tern

/-- `KeyGenerator::create_public_key(save_seed)` = `generate_pk` = `encrypt_zero::symmetric(secret_key, key_parms_id,
    is_ntt_form = true, save_seed, ..)` at the key level `l` — for every scheme the public key is made in NTT form; `a`, `e` are the
    polynomials the call draws (`uniform` on the public-seed generator, `centered_binomial`).  With a saved seed the stored key carries
    the seed in place of polynomial 1; the value here has what `expand_seed` regenerates (as for `encryptZeroSym`). -/
def genPublicKey (l : Level) (sk : Array Int) (a e : RnsPoly) (saveSeed : Bool) : R Ct :=
  encryptZeroSym l sk a e true saveSeed

/-! ### seeded ciphertexts -/

/-- a seed-compressed ciphertext: c0 and, in place of c1, the flag word + the 64-byte seed -/
structure SeededCt where
  c0 : RnsPoly
  seed : Rng.Seed
  ntt : Bool
  cf : Nat := 1

/-- what is stored when `save_seed` is in force: c1 is replaced by the seed -/
def Ct.toSeeded (ct : Ct) (seed : Rng.Seed) : SeededCt := ⟨ct.polys.getD 0 #[], seed, ct.ntt, ct.cf⟩

def toRns (c : List (List Nat)) : RnsPoly := (c.map List.toArray).toArray
def ofRns (p : RnsPoly) : List (List Nat) := p.toList.map Array.toList

/-- `Ciphertext::expand_seed`: c1 := `sample::uniform` on `BlakeRNG::from_seed(stored seed)` with the ciphertext's level -/
def expandSeed (U : Rng.Uniform) (xof : Rng.Xof) (l : Level) (s : SeededCt) : R Ct := do
  let r ← Rng.uniformPoly U xof (Rng.fromSeed s.seed) l.n (l.qs.toList.map (·.value))
  pure ⟨#[s.c0, toRns r.1], s.ntt, s.cf⟩

/-! ### the generators and the arithmetic together -/

/-- `encrypt_zero::symmetric_with_c1_prng` from the two generators: public seed from `c1prng`, `a` expanded from it,
    `e` from the noise generator (draw order: `Rng.symCore`); returns the ciphertext (c1 = expanded view), the public seed and
    the advanced c1 generator -/
def encryptZeroSymPrng (U : Rng.Uniform) (xof : Rng.Xof) (l : Level) (sk : Array Int) (c1prng boot : Rng.St)
    (isNtt saveSeed : Bool) : R (Ct × Rng.Seed × Rng.St) := do
  let d := Rng.symCore U xof ⟨l.n, l.qs.toList.map (·.value), 2⟩ c1prng boot []
  let a ← d.1.mask
  let e ← (d.1.noise.getD 0 (.error .other))
  let ct ← encryptZeroSym l sk (toRns a) (toRns e) isNtt saveSeed
  pure (ct, d.1.publicSeed.getD [], d.2)

/-- `encrypt_zero::asymmetric_with_u_prng` from the two generators (draw order: `Rng.asymCore`) -/
def encryptZeroAsymPrng (U : Rng.Uniform) (xof : Rng.Xof) (l : Level) (pk : Array RnsPoly) (uprng noisePrng : Rng.St)
    (isNtt : Bool) : R (Ct × Rng.St) := do
  let d := Rng.asymCore U xof ⟨l.n, l.qs.toList.map (·.value), pk.size⟩ uprng noisePrng []
  let u ← d.1.mask
  let es ← Rng.mapR id d.1.noise
  let ct ← encryptZeroAsym l pk (toRns u) (es.map toRns).toArray isNtt
  pure (ct, d.2)

end HC
