/-
  Model of src/app/lwe.rs (LWE extraction / assembly, field trace, division by N, PackLWEs).

  Two levels:
  (a) value level, bit exact on RNS polynomials: `extractLwe`, `assembleLwe`, `divideByDegree`
      (`negacyclicShift` of Model/NTT.lean is the monomial shift the extraction uses);
  (b) phase level: what the ciphertext-level loops of `field_trace_inplace` and `pack_lwe_ciphertexts` do to the
      phase c0 + c1·s of their operands.  `apply_galois` acts on the phase as X ↦ X^g (`sigmaPoly`: the index / sign
      rule of `GaloisTool::apply`, i.e. of `galoisApply` in Model/Galois.lean, over an arbitrary coefficient type; the
      key switch only adds noise), `negacyclic_shift_ps` as multiplication by X^s (`shiftPoly`), `add`/`sub` as
      `+`/`-`, `divide_by_poly_modulus_degree_inplace` as multiplication by the inverse of N.
      The coefficient type is generic (`Int` in the driver, any commutative ring in the theorems).
-/
import Heathcliff.Model.Galois
import Heathcliff.Model.Scheme
namespace HC

/-! ### (a) value level -/

/-- `LWECiphertext` (the parameter id is the level the caller passes; the CKKS scale is carried unchanged) -/
structure Lwe where
  c1 : RnsPoly          -- [component][coeff]
  c0 : Array Nat        -- one residue per component
  cf : Nat := 1
  deriving Inhabited

/-- `check_ciphertext` restricted to what a dumped ciphertext can violate: shape, canonical residues, correction factor -/
def ctValidFor (l : Level) (ct : Ct) : Bool :=
  ct.polys.all (fun p => p.size = l.size ∧
      (List.range l.size).all (fun i => (p.getD i #[]).size = l.n ∧ (p.getD i #[]).all (· < (l.q i).value)))
  ∧ (if l.scheme = .bgv then 0 < ct.cf ∧ ct.cf < l.t.value else ct.cf = 1)

/-- `Evaluator::extract_lwe(encrypted, term)` -/
def extractLwe (l : Level) (ct : Ct) (term : Nat) : R Lwe := do
  if ct.polys.size ≠ 2 then .error .other else          -- assert_eq!(size, 2)
  if !ctValidFor l ct then .error .refused else
  -- NTT-form input: `transform_from_ntt_new`, then the coefficient-form branch
  let c0p := if ct.ntt then rnsIntt l (ct.polys.getD 0 #[]) else ct.polys.getD 0 #[]
  let c1p := if ct.ntt then rnsIntt l (ct.polys.getD 1 #[]) else ct.polys.getD 1 #[]
  -- `let shift = if term == 0 {0} else {poly_modulus_degree * 2 - term}` (plain subtraction)
  let shift ← if term = 0 then pure 0 else ckSub (l.n * 2) term
  let c1 : RnsPoly := Array.ofFn (n := l.size) fun i => negacyclicShift (c1p.getD i.val #[]) shift (l.q i.val)
  -- `encrypted.poly_component(0, i)[term]` (index panic for term ≥ N)
  if term ≥ l.n then .error .oob else
  let c0 : Array Nat := Array.ofFn (n := l.size) fun i => (c0p.getD i.val #[]).getD term 0
  pure ⟨c1, c0, ct.cf⟩

/-- `LWECiphertext::assemble_lwe`: poly 0 = the constant c0 (per component), poly 1 = c1, coefficient form -/
def assembleLwe (l : Level) (w : Lwe) : Ct :=
  let p0 : RnsPoly := Array.ofFn (n := l.size) fun i => (Array.replicate l.n 0).setIfInBounds 0 (w.c0.getD i.val 0)
  ⟨#[p0, w.c1], false, w.cf⟩

/-- `divide_by_poly_modulus_degree_inplace(encrypted, mul)`: every component times N^{-1} (· mul) mod q_i -/
def divideByDegree (l : Level) (ct : Ct) (mul : Option Nat) : R Ct := do
  if !ctValidFor l ct then .error .refused else
  let ops ← (List.range l.size).mapM fun i => do
    let op := (l.tbl i).invDegree
    match mul with
    | none => pure op
    | some m =>
      let p := m * op.operand          -- u128 product of two u64
      let r ← barrett128 (p % B64) (p / B64) (l.q i)
      MulOperand.new r (l.q i)
  let polys ← ct.polys.toList.mapM fun p =>
    (List.range l.size).foldlM (fun (acc : RnsPoly) i => do
      let c ← mapM' (p.getD i #[]) (fun x => mulOperandMod x (ops.getD i default) (l.q i))
      pure (acc.push c)) #[]
  pure { ct with polys := polys.toArray }

/-! ### (b) phase level -/

section Phase
variable {α : Type} [Zero α] [Add α] [Sub α] [Neg α] [Mul α]

/-- multiplication by X^s modulo X^n + 1 (s < 2n) in gather form: coefficient e of the product comes from
    coefficient e − s (mod n), negated once for every wrap past n.  (`shift_coeff_rule` in Props/C19 shows the
    scatter loop of `negacyclicShift` computes exactly this.) -/
def shiftPoly (n : Nat) (a : Array α) (s : Nat) : Array α :=
  let r := s % n
  let flip := (s / n) % 2 = 1
  Array.ofFn (n := n) fun e =>
    if r ≤ e.val then (if flip then - a.getD (e.val - r) 0 else a.getD (e.val - r) 0)
    else (if flip then a.getD (e.val + n - r) 0 else - a.getD (e.val + n - r) 0)

/-- X ↦ X^g modulo X^n + 1: the loop of `GaloisTool::apply` (coefficient i goes to index i·g mod n,
    negated when ⌊i·g/n⌋ is odd) -/
def sigmaPoly (n : Nat) (a : Array α) (g : Nat) : Array α :=
  (List.range n).foldl (fun (res : Array α) i =>
      let raw := i * g
      res.setIfInBounds (raw % n) (if (raw / n) % 2 = 1 then - a.getD i 0 else a.getD i 0)) (Array.replicate n 0)

def addPoly (n : Nat) (a b : Array α) : Array α := Array.ofFn (n := n) fun i => a.getD i.val 0 + b.getD i.val 0
def subPoly (n : Nat) (a b : Array α) : Array α := Array.ofFn (n := n) fun i => a.getD i.val 0 - b.getD i.val 0
def scalePoly (n : Nat) (c : α) (a : Array α) : Array α := Array.ofFn (n := n) fun i => c * a.getD i.val 0

/-- `field_trace_inplace(encrypted, keys, logn)` on the phase, N = 2^k:
    `while poly_degree > (1 << logn) { encrypted += apply_galois(encrypted, poly_degree + 1); poly_degree >>= 1 }` -/
def fieldTracePoly (k logn : Nat) (a : Array α) : Array α :=
  (List.range (k - logn)).foldl (fun (a : Array α) i => addPoly (2^k) a (sigmaPoly (2^k) a (2^(k - i) + 1))) a

/-- `l` with `2^l ≥ count` minimal (`while (1<<l) < lwes_count { l += 1 }`) -/
def packLogGo : Nat → Nat → Nat → Nat
  | 0, _, l => l
  | f+1, c, l => if 2^l < c then packLogGo f c (l+1) else l
def packLog (count : Nat) : Nat := packLogGo count count 0

/-- the initial array `rlwes`: slot i holds input `reverse_bits(i, l)` divided by N, or zero when there is no such input -/
def packLeaves (k l : Nat) (ninv : α) (ins : Array (Array α)) : Array (Array α) :=
  Array.ofFn (n := 2^l) fun i =>
    let idx := brev l i.val
    if idx < ins.size then scalePoly (2^k) ninv (ins.getD idx #[]) else Array.replicate (2^k) 0

/-- the new `even` of one butterfly of layer `layer`:
    `temp = X^shift·odd; odd = even − temp; even += temp; odd = σ_{2^(layer+1)+1}(odd); even += odd` -/
def packMerge (k layer : Nat) (even odd : Array α) : Array α :=
  let n := 2^k
  let temp := shiftPoly n odd (n / 2^(layer+1))
  let odd' := subPoly n even temp
  let even' := addPoly n even temp
  addPoly n even' (sigmaPoly n odd' (2^(layer+1) + 1))

/-- the `odd` slot after the same butterfly (never read again by later layers) -/
def packOddAfter (k layer : Nat) (even odd : Array α) : Array α :=
  let n := 2^k
  sigmaPoly n (subPoly n even (shiftPoly n odd (n / 2^(layer+1)))) (2^(layer+1) + 1)

/-- one layer over the whole array (pairs `offset`, `offset + gap` for `offset = 0, 2·gap, …` are disjoint, so the
    in-place loop is this index-wise map) -/
def packLayer (k l layer : Nat) (arr : Array (Array α)) : Array (Array α) :=
  let gap := 2^layer
  Array.ofFn (n := 2^l) fun i =>
    if i.val % (2*gap) = 0 then packMerge k layer (arr.getD i.val #[]) (arr.getD (i.val + gap) #[])
    else if i.val % (2*gap) = gap then packOddAfter k layer (arr.getD (i.val - gap) #[]) (arr.getD i.val #[])
    else arr.getD i.val #[]

/-- the argument checks of `pack_lwe_ciphertexts`: at least one and at most N inputs (else it panics) -/
def packAccepts (count n : Nat) : Bool := 0 < count ∧ count ≤ n

/-- `pack_lwe_ciphertexts` on the phases of the assembled inputs (`ninv` = the inverse of N in the coefficient ring) -/
def packPoly (k : Nat) (ninv : α) (ins : Array (Array α)) : Array α :=
  let l := packLog ins.size
  let merged := (List.range l).foldl (fun arr layer => packLayer k l layer arr) (packLeaves k l ninv ins)
  fieldTracePoly k l (merged.getD 0 #[])

end Phase

end HC
