/-
  Model of the scheme layer that all ciphertext-level properties share (src/encryptor.rs, src/util/scaling_variant.rs):
  ciphertext objects, the secret-key power array, `dot_product_ct_sk_array`, the three decryption routines,
  `invariant_noise_budget`, BFV `multiply_add_plain` / `multiply_sub_plain`, the BGV plaintext lift.

  A level is described by its moduli (a prefix of the key-level moduli); the per-level tools (`RNSTool`, NTT tables)
  are rebuilt from the moduli by the models of C09/C10.
-/
import Heathcliff.Model.RNS
namespace HC

inductive Scheme where | bfv | ckks | bgv
  deriving DecidableEq, Repr, Inhabited

/-- a ciphertext at some level: `polys[i][component][coeff]` -/
structure Ct where
  polys : Array RnsPoly
  ntt : Bool
  cf : Nat := 1            -- BGV correction factor
  deriving Inhabited

/-- the per-level context the routines need -/
structure Level where
  scheme : Scheme
  n : Nat
  k : Nat                  -- log2 n
  qs : Array Modulus
  t : Modulus              -- plain modulus (value 0 for CKKS)
  tables : Array NTTTables
  tool : RNSTool
  deriving Inhabited

instance : Inhabited NTTTables := ⟨⟨0, ⟨0,0,0,0,0⟩, 0, #[], #[], ⟨0,0⟩⟩⟩

def Level.size (l : Level) : Nat := l.qs.size
def Level.q (l : Level) (i : Nat) : Modulus := l.qs.getD i default
def Level.tbl (l : Level) (i : Nat) : NTTTables := l.tables.getD i default

/-- the secret key as signed coefficients ↦ its NTT form in every component of the level -/
def skNtt (l : Level) (sk : Array Int) : RnsPoly :=
  Array.ofFn (n := l.size) fun i =>
    let q := (l.q i.val).value
    ntt (l.tbl i.val) (sk.map fun c => (c % (q : Int)).toNat)

/-- component-wise helpers on RNS polynomials (all components canonical) -/
def rnsZip (l : Level) (a b : RnsPoly) (f : Nat → Nat → Modulus → R Nat) : R RnsPoly :=
  (List.range l.size).foldlM (fun acc i => do
    let c ← zipM' (a.getD i #[]) (b.getD i #[]) (fun x y => f x y (l.q i))
    pure (acc.push c)) #[]

def rnsAdd (l : Level) (a b : RnsPoly) : R RnsPoly := rnsZip l a b addMod
def rnsDyadic (l : Level) (a b : RnsPoly) : R RnsPoly := rnsZip l a b mulMod
def rnsNtt (l : Level) (a : RnsPoly) : RnsPoly := Array.ofFn (n := l.size) fun i => ntt (l.tbl i.val) (a.getD i.val #[])
def rnsIntt (l : Level) (a : RnsPoly) : RnsPoly := Array.ofFn (n := l.size) fun i => intt (l.tbl i.val) (a.getD i.val #[])
def rnsZero (l : Level) : RnsPoly := Array.replicate l.size (Array.replicate l.n 0)

/-- powers s, s², …, s^m in NTT form (`compute_secret_key_array`: each is the dyadic product of the previous with s) -/
def skPowers (l : Level) (s : RnsPoly) : Nat → R (List RnsPoly)
  | 0 => pure []
  | 1 => pure [s]
  | m+2 => do
    let prev ← skPowers l s (m+1)
    let last := prev.getLastD s
    let nxt ← rnsDyadic l last s
    pure (prev ++ [nxt])

/-- `dot_product_ct_sk_array`: c_0 + c_1 s + … + c_{m} s^m, in the representation of the ciphertext -/
def dotProductCtSk (l : Level) (sk : Array Int) (ct : Ct) : R RnsPoly := do
  let size := ct.polys.size
  if size < 2 then .error .refused else
  let s := skNtt l sk
  let pows ← skPowers l s (size - 1)
  let c0 := ct.polys.getD 0 #[]
  if size = 2 then
    let c1 := ct.polys.getD 1 #[]
    if ct.ntt then do
      let d ← rnsDyadic l c1 s
      rnsAdd l d c0
    else do
      let d ← rnsDyadic l (rnsNtt l c1) s
      rnsAdd l (rnsIntt l d) c0
  else do
    let prods ← (List.range (size - 1)).mapM fun i => do
      let ci := ct.polys.getD (i+1) #[]
      let ci := if ct.ntt then ci else rnsNtt l ci
      rnsDyadic l ci (pows.getD i #[])
    let sum ← prods.foldlM (fun acc p => rnsAdd l acc p) (rnsZero l)
    let sum := if ct.ntt then sum else rnsIntt l sum
    rnsAdd l sum c0

/-- trailing zero coefficients are dropped, at least one coefficient is kept (`resize(max(sig, 1))`) -/
def trimPlain (p : Poly) : Poly :=
  let sig := sigWords p.toList
  p.extract 0 (max sig 1)

def bfvDecrypt (l : Level) (sk : Array Int) (ct : Ct) : R Poly := do
  if ct.ntt then .error .refused else
  let ph ← dotProductCtSk l sk ct
  let d ← l.tool.decryptScaleAndRound ph
  pure (trimPlain d)

def bgvDecrypt (l : Level) (sk : Array Int) (ct : Ct) : R Poly := do
  if !ct.ntt then .error .refused else
  let ph ← dotProductCtSk l sk ct
  let d ← l.tool.decryptModT (rnsIntt l ph)
  let d ← if ct.cf ≠ 1 then do
      match ← tryInvert ct.cf l.t.value with
      | none => .error .refused
      | some fix => mapM' d (fun x => mulMod x fix l.t)
    else pure d
  pure (trimPlain d)

/-- CKKS decryption returns the phase itself (NTT form, all components) -/
def ckksDecrypt (l : Level) (sk : Array Int) (ct : Ct) : R RnsPoly := do
  if !ct.ntt then .error .refused else
  dotProductCtSk l sk ct

/-- `invariant_noise_budget` (BFV: the phase is multiplied by t first; BGV: not), value-level model of
    compose_array + poly_infty_norm + the bit-count difference -/
def noiseBudget (l : Level) (sk : Array Int) (ct : Ct) : R Nat := do
  if ct.ntt then .error .refused else
  if l.scheme = .ckks then .error .refused else
  let ph ← dotProductCtSk l sk ct
  let ph ← if l.scheme = .bfv then
      (List.range l.size).foldlM (fun acc i => do
        let c ← mapM' (ph.getD i #[]) (fun x => mulMod x l.t.value (l.q i))
        pure (acc.push c)) (#[] : RnsPoly)
    else pure ph
  let Q := l.tool.baseQ.prod
  let negThr := (Q + 1) / 2
  let vals ← (transpose ph l.n).toList.mapM (fun col => l.tool.baseQ.compose col)
  let norm := vals.foldl (fun acc v => let a := if v ≥ negThr then Q - v else v; if a > acc then a else acc) 0
  let d : Int := (bitCount Q : Int) - (bitCount norm : Int) - 1
  pure d.toNat

/-- `multiply_add_plain`: Δ·m with rounding correction, added to `dest` (first poly of a BFV ciphertext).
    Constants of the context (`coeff_div_plain_modulus`, `q mod t`, `plain_upper_half_threshold = (t+1)/2`)
    are passed in; C13 ties them to their definitions. -/
def multiplyAddPlain (l : Level) (coeffDivPlain : Array MulOperand) (qModT upperHalf : Nat)
    (plain : Poly) (dest : RnsPoly) : R RnsPoly := do
  if plain.size > l.n then .error .refused else
  (List.range l.size).foldlM (fun acc j => do
    let comp := dest.getD j #[]
    let comp' ← (List.range l.n).foldlM (fun (c : Array Nat) i =>
      if i < plain.size then do
        let m := plain.getD i 0
        let lo := mulLo m qModT
        let hi := mulHi m qModT
        let (n0, carry) := addU64 lo upperHalf
        let n1 ← ckAdd hi carry
        if l.t.value = 0 then .error .other else
        let fix := ((n0 + B64 * n1) / l.t.value) % B64
        let sc ← mulOperandAddMod m (coeffDivPlain.getD j default) fix (l.q j)
        let v ← addMod (comp.getD i 0) sc (l.q j)
        pure (c.push v)
      else pure (c.push (comp.getD i 0))) #[]
    pure (acc.push comp')) #[]

/-- `multiply_sub_plain`: the same scaled and rounded value Δ(m), SUBTRACTED from `dest` (`sub_plain` of the evaluator for BFV).
    The code has no `assert!` on the plaintext length; a plaintext longer than the degree ends in an out-of-bounds panic there
    (for a non-empty modulus chain), here in a refusal. -/
def multiplySubPlain (l : Level) (coeffDivPlain : Array MulOperand) (qModT upperHalf : Nat)
    (plain : Poly) (dest : RnsPoly) : R RnsPoly := do
  if plain.size > l.n then .error .refused else
  (List.range l.size).foldlM (fun acc j => do
    let comp := dest.getD j #[]
    let comp' ← (List.range l.n).foldlM (fun (c : Array Nat) i =>
      if i < plain.size then do
        let m := plain.getD i 0
        let lo := mulLo m qModT
        let hi := mulHi m qModT
        let (n0, carry) := addU64 lo upperHalf
        let n1 ← ckAdd hi carry
        if l.t.value = 0 then .error .other else
        let fix := ((n0 + B64 * n1) / l.t.value) % B64
        let sc ← mulOperandAddMod m (coeffDivPlain.getD j default) fix (l.q j)
        let v ← subMod (comp.getD i 0) sc (l.q j)
        pure (c.push v)
      else pure (c.push (comp.getD i 0))) #[]
    pure (acc.push comp')) #[]

end HC
