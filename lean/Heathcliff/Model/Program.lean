/-
  Programs over the MODEL's BGV evaluator operations (property C02: "for every well-typed program of evaluator operations").
  Syntax, evaluation with the model functions (`R`-valued: a refusal / error of any operation propagates), and the a-priori
  bookkeeping (correction factor, noise bound) that the homomorphism theorem `hom_program_bgv` (Proofs/C02PH.lean) uses.
  Core Lean only (no Mathlib): everything here is executable and decidable.
-/
import Heathcliff.Model.Evaluator
import Heathcliff.Model.KeySwitch
namespace HC

/-- the multipliers of `translate_inplace`: (new factor, e1, e2) — (f, 1, 1) for equal correction factors (no balancing), else what
    `balance_correction_factors` returns -/
def c02p_balance (t : Modulus) (f1 f2 : Nat) : Option (Nat × Nat × Nat) :=
  if f1 = f2 then some (f1, 1, 1) else
    match balanceCorrectionFactors f1 f2 t with
    | .ok r => some r
    | .error _ => none

/-- programs over ciphertext inputs `inp i` and NTT-form plaintext inputs (index `k` of `mulPlain`); `square p` is `mul p p` -/
inductive BProg where
  | inp (i : Nat)
  | neg (p : BProg)
  | add (p q : BProg)
  | sub (p q : BProg)
  | mul (p q : BProg)
  | mulPlain (p : BProg) (k : Nat)
  deriving Repr, DecidableEq

/-- evaluation with the model's operations: `negate`, `add` / `sub` (= `translate_inplace` with BGV balancing, all size pairs),
    `multiply` (`bgv_multiply`, all size pairs), `multiply_plain` (NTT-form plaintext) -/
def BProg.eval (l : Level) (cts : Nat → Ct) (pls : Nat → RnsPoly) : BProg → R Ct
  | .inp i => pure (cts i)
  | .neg p => do let a ← p.eval l cts pls; ctNegate l a
  | .add p q => do let a ← p.eval l cts pls; let b ← q.eval l cts pls; ctTranslateBalanced l a b false
  | .sub p q => do let a ← p.eval l cts pls; let b ← q.eval l cts pls; ctTranslateBalanced l a b true
  | .mul p q => do let a ← p.eval l cts pls; let b ← q.eval l cts pls; bgvMultiply l a b
  | .mulPlain p k => do let a ← p.eval l cts pls; ctMultiplyPlainNtt l a (pls k)

/-- the ciphertext / plaintext inputs a program reads -/
def BProg.ctInputs : BProg → List Nat
  | .inp i => [i]
  | .neg p => p.ctInputs
  | .add p q | .sub p q | .mul p q => p.ctInputs ++ q.ctInputs
  | .mulPlain p _ => p.ctInputs
def BProg.plInputs : BProg → List Nat
  | .inp _ => []
  | .neg p => p.plInputs
  | .add p q | .sub p q | .mul p q => p.plInputs ++ q.plInputs
  | .mulPlain p k => k :: p.plInputs

/-- a-priori bookkeeping: (correction factor, bound on the ∞-norm of the phase `cf·m + t·e`) of the result, from the correction factors and
    bounds of the inputs (`inp i`), the bounds of the plaintext readings (`plB k`), the plain modulus and the degree:
    ‖−v‖ = ‖v‖, ‖e1·a ± e2·b‖ ≤ e1‖a‖ + e2‖b‖ (e1 = e2 = 1 or the balancing multipliers), ‖a ⋆ b‖ ≤ N‖a‖‖b‖.
    `none` only where balancing fails (which the model refuses as well). -/
def BProg.noiseUB (t : Modulus) (n : Nat) (inp : Nat → Nat × Nat) (plB : Nat → Nat) : BProg → Option (Nat × Nat)
  | .inp i => some (inp i)
  | .neg p => p.noiseUB t n inp plB
  | .add p q | .sub p q =>
    match p.noiseUB t n inp plB, q.noiseUB t n inp plB with
    | some (f1, b1), some (f2, b2) =>
      match c02p_balance t f1 f2 with
      | some (f, e1, e2) => some (f, e1 * b1 + e2 * b2)
      | none => none
    | _, _ => none
  | .mul p q =>
    match p.noiseUB t n inp plB, q.noiseUB t n inp plB with
    | some (f1, b1), some (f2, b2) => some ((f1 * f2) % t.value, n * b1 * b2)
    | _, _ => none
  | .mulPlain p k =>
    match p.noiseUB t n inp plB with
    | some (f1, b1) => some (f1, n * b1 * plB k)
    | none => none

/-! ### levelled programs: the same operations plus `mod_switch_to_next`; every value carries the chain index of its level, binary operations
    on operands of different levels are refused (as `parms_id` mismatches are in the code), `mod_switch_to_next` at chain index 0 is refused
    (`modSwitchToNextPlan`) -/

/-- Σ_{k<m} S^k -/
def geoSum (S : Nat) : Nat → Nat
  | 0 => 0
  | m+1 => 1 + S * geoSum S m

inductive LProg where
  | inp (i : Nat)
  | neg (p : LProg)
  | add (p q : LProg)
  | sub (p q : LProg)
  | mul (p q : LProg)
  | mulPlain (p : LProg) (k : Nat)
  | modSwitch (p : LProg)
  | relin (p : LProg)
  deriving Repr, DecidableEq

/-- a-priori bound on the ∞-norm of the key-switching noise of one BGV relinearisation step with `dsz` digits, special prime `P`, moduli `≤ A`,
    key errors `‖e_i‖∞ ≤ Be`, `‖s‖₁ ≤ S`:  ⌊(dsz·A·N·Be + P·t·(1 + S)) / P⌋  (`switchKey_noise_bound_bgv`) -/
def ksNoise (P t dsz A n Be S : Nat) : Nat := (dsz * (A * (n * Be)) + P * t * (1 + S)) / P

/-- does the program relinearise? (the key hypotheses of the theorem are only needed then) -/
def LProg.usesRelin : LProg → Bool
  | .inp _ => false
  | .neg p | .modSwitch p | .mulPlain p _ => p.usesRelin
  | .add p q | .sub p q | .mul p q => p.usesRelin || q.usesRelin
  | .relin _ => true

/-- evaluation: `chain c` is the level with chain index c; inputs carry their chain index -/
def LProg.eval (chain : Nat → Level) (kl : KeyLevel) (rk : KSKey) (cts : Nat → Nat × Ct) (pls : Nat → Nat × RnsPoly) : LProg → R (Nat × Ct)
  | .inp i => pure (cts i)
  | .neg p => do
    let a ← p.eval chain kl rk cts pls
    let r ← ctNegate (chain a.1) a.2
    pure (a.1, r)
  | .add p q => do
    let a ← p.eval chain kl rk cts pls
    let b ← q.eval chain kl rk cts pls
    if a.1 ≠ b.1 then .error .refused else do
    let r ← ctTranslateBalanced (chain a.1) a.2 b.2 false
    pure (a.1, r)
  | .sub p q => do
    let a ← p.eval chain kl rk cts pls
    let b ← q.eval chain kl rk cts pls
    if a.1 ≠ b.1 then .error .refused else do
    let r ← ctTranslateBalanced (chain a.1) a.2 b.2 true
    pure (a.1, r)
  | .mul p q => do
    let a ← p.eval chain kl rk cts pls
    let b ← q.eval chain kl rk cts pls
    if a.1 ≠ b.1 then .error .refused else do
    let r ← bgvMultiply (chain a.1) a.2 b.2
    pure (a.1, r)
  | .mulPlain p k => do
    let a ← p.eval chain kl rk cts pls
    if a.1 ≠ (pls k).1 then .error .refused else do
    let r ← ctMultiplyPlainNtt (chain a.1) a.2 (pls k).2
    pure (a.1, r)
  | .modSwitch p => do
    let a ← p.eval chain kl rk cts pls
    if a.1 = 0 then .error .refused else do
    let r ← modSwitchScaleNext (chain a.1) a.2
    pure (a.1 - 1, r)
  | .relin p => do
    -- `relinearize_inplace` with the key for s² (`rk`, made at the key level `kl`); sizes above 3 are outside this program class
    let a ← p.eval chain kl rk cts pls
    if a.2.polys.size > 3 then .error .refused else do
    let r ← relinearize kl .bgv (chain a.1).size (fun i => if i = 2 then some rk else none) 3 a.2
    pure (a.1, r)

def LProg.ctInputs : LProg → List Nat
  | .inp i => [i]
  | .neg p | .modSwitch p | .relin p => p.ctInputs
  | .add p q | .sub p q | .mul p q => p.ctInputs ++ q.ctInputs
  | .mulPlain p _ => p.ctInputs
def LProg.plInputs : LProg → List Nat
  | .inp _ => []
  | .neg p | .modSwitch p | .relin p => p.plInputs
  | .add p q | .sub p q | .mul p q => p.plInputs ++ q.plInputs
  | .mulPlain p k => k :: p.plInputs

/-- a-priori bookkeeping (chain index, correction factor, size, bound on the ∞-norm of the phase).  `S` bounds ‖s‖₁.  Modulus switching:
    `‖v'‖ ≤ ‖v‖ / q_L + t·Σ_{k<size} S^k` (rounding term of `mod_t_and_divide_q_last` spread over the powers of the secret), factor `·q_L^{-1} mod t` -/
def LProg.noiseUB (chain : Nat → Level) (kl : KeyLevel) (A Be : Nat) (S : Nat) (inp : Nat → Nat × Nat × Nat × Nat) (plB : Nat → Nat × Nat) :
    LProg → Option (Nat × Nat × Nat × Nat)
  | .inp i => some (inp i)
  | .neg p => p.noiseUB chain kl A Be S inp plB
  | .add p q | .sub p q =>
    match p.noiseUB chain kl A Be S inp plB, q.noiseUB chain kl A Be S inp plB with
    | some (l1, f1, s1, b1), some (l2, f2, s2, b2) =>
      if l1 ≠ l2 then none else
      match c02p_balance (chain l1).t f1 f2 with
      | some (f, e1, e2) => some (l1, f, max s1 s2, e1 * b1 + e2 * b2)
      | none => none
    | _, _ => none
  | .mul p q =>
    match p.noiseUB chain kl A Be S inp plB, q.noiseUB chain kl A Be S inp plB with
    | some (l1, f1, s1, b1), some (l2, f2, s2, b2) =>
      if l1 ≠ l2 then none else some (l1, (f1 * f2) % (chain l1).t.value, s1 + s2 - 1, (chain l1).n * b1 * b2)
    | _, _ => none
  | .mulPlain p k =>
    match p.noiseUB chain kl A Be S inp plB with
    | some (l1, f1, s1, b1) => if l1 ≠ (plB k).1 then none else some (l1, f1, s1, (chain l1).n * b1 * (plB k).2)
    | none => none
  | .modSwitch p =>
    match p.noiseUB chain kl A Be S inp plB with
    | some (l1, f1, s1, b1) =>
      if l1 = 0 then none else
      some (l1 - 1, (f1 * (chain l1).tool.invQLastModT) % (chain l1).t.value, s1,
        b1 / ((chain l1).q ((chain l1).size - 1)).value + (chain l1).t.value * geoSum S s1)
    | none => none
  | .relin p =>
    match p.noiseUB chain kl A Be S inp plB with
    | some (l1, f1, s1, b1) =>
      if s1 = 2 then some (l1, f1, 2, b1)
      else if s1 = 3 then
        some (l1, f1, 2, b1 + ksNoise (kl.m (kl.ms.size - 1)).value (chain l1).t.value (chain l1).size A (chain l1).n Be S)
      else none
    | none => none


/-! ### BFV programs: negate / add / sub (`translate_inplace`, all size pairs) / multiply, square (BEHZ `bfv_multiply`, all size pairs) on
    coefficient-form ciphertexts of one level (`T` = the NTT tables of the auxiliary base Bsk) -/

inductive FProg where
  | inp (i : Nat)
  | neg (p : FProg)
  | add (p q : FProg)
  | sub (p q : FProg)
  | mul (p q : FProg)
  deriving Repr, DecidableEq

def FProg.eval (l : Level) (T : Array NTTTables) (cts : Nat → Ct) : FProg → R Ct
  | .inp i => pure (cts i)
  | .neg p => do let a ← p.eval l T cts; ctNegate l a
  | .add p q => do let a ← p.eval l T cts; let b ← q.eval l T cts; ctTranslate l a b false
  | .sub p q => do let a ← p.eval l T cts; let b ← q.eval l T cts; ctTranslate l a b true
  | .mul p q => do let a ← p.eval l T cts; let b ← q.eval l T cts; bfvMultiply l T a b

def FProg.ctInputs : FProg → List Nat
  | .inp i => [i]
  | .neg p => p.ctInputs
  | .add p q | .sub p q | .mul p q => p.ctInputs ++ q.ctInputs

/-- the BEHZ noise-growth bound of one `bfv_multiply`, scaled by 2^34 (= `c02x_F` of Proofs/C02X.lean: N degree, K = |q|, S ≥ ‖s‖₁, operand
    sizes na, nb, operand invariant-noise bounds Va, Vb) -/
def bfvMulF (N t K S na nb Va Vb : Nat) : Nat :=
  N * ((2 * t * ((2^32 + 2 * K) * geoSum S na) + 2^33) * Vb + (2 * t * ((2^32 + 2 * K) * geoSum S nb) + 2^33) * Va)
    + 2^33 * N * Vb + 2 * 2^33 * t * (K * geoSum S (na + nb - 1))

/-- a-priori bookkeeping for BFV: (size, bound on the invariant noise ‖[t·x]_Q‖∞); every node checks that the bound stays below Q/2
    (`none` otherwise: the message is then no longer determined by the phase) -/
def FProg.noiseUB (N t K Q S : Nat) (inp : Nat → Nat × Nat) : FProg → Option (Nat × Nat)
  | .inp i => some (inp i)
  | .neg p => p.noiseUB N t K Q S inp
  | .add p q | .sub p q =>
    match p.noiseUB N t K Q S inp, q.noiseUB N t K Q S inp with
    | some (s1, b1), some (s2, b2) => if 2 * (b1 + b2) < Q then some (max s1 s2, b1 + b2) else none
    | _, _ => none
  | .mul p q =>
    match p.noiseUB N t K Q S inp, q.noiseUB N t K Q S inp with
    | some (s1, b1), some (s2, b2) =>
      if bfvMulF N t K S s1 s2 b1 b2 < 2^33 * Q then some (s1 + s2 - 1, bfvMulF N t K S s1 s2 b1 b2 / 2^34) else none
    | _, _ => none

end HC
