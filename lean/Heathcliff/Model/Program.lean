/-
  Programs over the MODEL's BGV evaluator operations (property C02: "for every well-typed program of evaluator operations").
  Syntax, evaluation with the model functions (`R`-valued: a refusal / error of any operation propagates), and the a-priori
  bookkeeping (correction factor, noise bound) that the homomorphism theorem `hom_program_bgv` (Proofs/C02PH.lean) uses.
  Core Lean only (no Mathlib): everything here is executable and decidable.
-/
import Heathcliff.Model.Evaluator
namespace HC

/-- the multipliers of `translate_inplace`: (new factor, e1, e2) — (f, 1, 1) for equal correction factors (no balancing), else what
    `balance_correction_factors` returns -/
def c02p_balance (t : Modulus) (f1 f2 : Nat) : Option (Nat × Nat × Nat) :=
  if f1 = f2 then some (f1, 1, 1) else
    match balanceCorrectionFactors f1 f2 t with
    | .ok r => some r
    | .error _ => none

/-- programs over ciphertext inputs `inp i` and NTT-form plaintext inputs (index `k` of `mulPlain`); `square p` is `mul p p` -/
inductive BProg where
  | inp (i : Nat)
  | neg (p : BProg)
  | add (p q : BProg)
  | sub (p q : BProg)
  | mul (p q : BProg)
  | mulPlain (p : BProg) (k : Nat)
  deriving Repr, DecidableEq

/-- evaluation with the model's operations: `negate`, `add` / `sub` (= `translate_inplace` with BGV balancing, all size pairs),
    `multiply` (`bgv_multiply`, all size pairs), `multiply_plain` (NTT-form plaintext) -/
def BProg.eval (l : Level) (cts : Nat → Ct) (pls : Nat → RnsPoly) : BProg → R Ct
  | .inp i => pure (cts i)
  | .neg p => do let a ← p.eval l cts pls; ctNegate l a
  | .add p q => do let a ← p.eval l cts pls; let b ← q.eval l cts pls; ctTranslateBalanced l a b false
  | .sub p q => do let a ← p.eval l cts pls; let b ← q.eval l cts pls; ctTranslateBalanced l a b true
  | .mul p q => do let a ← p.eval l cts pls; let b ← q.eval l cts pls; bgvMultiply l a b
  | .mulPlain p k => do let a ← p.eval l cts pls; ctMultiplyPlainNtt l a (pls k)

/-- the ciphertext / plaintext inputs a program reads -/
def BProg.ctInputs : BProg → List Nat
  | .inp i => [i]
  | .neg p => p.ctInputs
  | .add p q | .sub p q | .mul p q => p.ctInputs ++ q.ctInputs
  | .mulPlain p _ => p.ctInputs
def BProg.plInputs : BProg → List Nat
  | .inp _ => []
  | .neg p => p.plInputs
  | .add p q | .sub p q | .mul p q => p.plInputs ++ q.plInputs
  | .mulPlain p k => k :: p.plInputs

/-- a-priori bookkeeping: (correction factor, bound on the ∞-norm of the phase `cf·m + t·e`) of the result, from the correction factors and
    bounds of the inputs (`inp i`), the bounds of the plaintext readings (`plB k`), the plain modulus and the degree:
    ‖−v‖ = ‖v‖, ‖e1·a ± e2·b‖ ≤ e1‖a‖ + e2‖b‖ (e1 = e2 = 1 or the balancing multipliers), ‖a ⋆ b‖ ≤ N‖a‖‖b‖.
    `none` only where balancing fails (which the model refuses as well). -/
def BProg.noiseUB (t : Modulus) (n : Nat) (inp : Nat → Nat × Nat) (plB : Nat → Nat) : BProg → Option (Nat × Nat)
  | .inp i => some (inp i)
  | .neg p => p.noiseUB t n inp plB
  | .add p q | .sub p q =>
    match p.noiseUB t n inp plB, q.noiseUB t n inp plB with
    | some (f1, b1), some (f2, b2) =>
      match c02p_balance t f1 f2 with
      | some (f, e1, e2) => some (f, e1 * b1 + e2 * b2)
      | none => none
    | _, _ => none
  | .mul p q =>
    match p.noiseUB t n inp plB, q.noiseUB t n inp plB with
    | some (f1, b1), some (f2, b2) => some ((f1 * f2) % t.value, n * b1 * b2)
    | _, _ => none
  | .mulPlain p k =>
    match p.noiseUB t n inp plB with
    | some (f1, b1) => some (f1, n * b1 * plB k)
    | none => none

end HC
