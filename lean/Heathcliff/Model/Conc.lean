/-
  C17 — transition systems for the lazily filled caches that are shared between threads.

  Part 1  secret-key power cache: `Decryptor::compute_secret_key_array` + `dot_product_ct_sk_array`
          (src/encryptor.rs) and `KeyGenerator::compute_secret_key_array` + `generate_rlk` (src/key.rs).
          The two `compute_secret_key_array` bodies are textually identical; one model serves both.
  Part 2  Galois permutation-table cache: `GaloisTool::apply_ntt` (src/util/galois.rs).
  Part 3  the same protocol one level lower (explicit reader count / writer flag of the `RwLock`), used for
          the deadlock-freedom theorem.

  Modelling conventions (DESIGN.md §4 "Threads"): a region in which a thread holds a lock is ONE atomic step;
  everything a thread does between two lock regions touches only thread-local data.  A schedule is a list of
  thread ids; `step`/`run` are total (a step of a finished / non-existent thread leaves the state unchanged).
  Cache contents are abstract: `P` is the type of an RNS polynomial in NTT form with the dyadic product `mul`;
  entry `i` of a correct cache is `ent i` = s^(i+1).
  Core Lean only (the compiled driver imports this file).
-/
namespace HC.Conc

/-! ## Part 1: the secret-key power cache -/

/-- what the cache code needs from polynomials: the dyadic product and NTT(secret key) -/
structure Alg (P : Type) where
  mul : P → P → P
  s : P

variable {P : Type}

/-- `ent i` = s^(i+1): `next = dyadic_product(last, first)` iterated -/
def Alg.ent (A : Alg P) : Nat → P
  | 0 => A.s
  | i + 1 => A.mul (A.ent i) A.s

/-- `pow p` = s^p for p ≥ 1 (entry `p-1`) -/
def Alg.pow (A : Alg P) (p : Nat) : P := A.ent (p - 1)

/-- the correct cache of length `n`: `[s^1, …, s^n]` -/
def powers (A : Alg P) (n : Nat) : List P := (List.range n).map A.ent

/-- one iteration of the compute loop: `next = last * first` appended; with an empty array the index
    `old_size + i - 1` underflows and the code panics (`none`) -/
def extendOnce (A : Alg P) (arr : List P) : Option (List P) :=
  match arr.getLast?, arr.head? with
  | some l, some f => some (arr ++ [A.mul l f])
  | _, _ => none

/-- `for i in 0..k` of the compute loop -/
def extend (A : Alg P) : Nat → List P → Option (List P)
  | 0, arr => some arr
  | k + 1, arr => match extendOnce A arr with
    | some a => extend A k a
    | none => none

/-- program counter of one call `dot_product_ct_sk_array` / `generate_rlk`:
    R = read-lock phase of `compute_secret_key_array` (size snapshot, copy),
    C = local computation of the missing powers (no lock),
    W = write-lock phase (re-check, swap),
    U = use phase (read lock, the caller reads the first `want` entries),
    done / panicked = finished. -/
inductive PC | R | C | W | U | done | panicked
  deriving DecidableEq, Repr, BEq

def PC.toStr : PC → String
  | .R => "R" | .C => "C" | .W => "W" | .U => "U" | .done => "D" | .panicked => "P"

structure Thr (P : Type) where
  want : Nat                      -- `max_power`
  pc : PC := .R
  oldR : Nat := 0                 -- `old_size` seen under the read lock
  newArr : List P := []           -- the thread-local `secret_key_array`
  result : Option (List P) := none -- the entries the use phase read
  deriving BEq

structure St (P : Type) where
  cache : List P
  thr : List (Thr P)
  deriving BEq

/-- one atomic step of a thread; `recheck = false` is the BUGGY variant whose write phase swaps
    unconditionally (used only to show what the check is built to notice). -/
def stepThr (recheck : Bool) (A : Alg P) (cache : List P) (t : Thr P) : List P × Thr P :=
  match t.pc with
  | .R =>
    let old := cache.length
    let new := max old t.want
    if old = new then (cache, { t with pc := .U })                -- `return` (the read lock is released)
    else (cache, { t with pc := .C, oldR := old, newArr := cache }) -- copy `[..old_size]`, drop the lock
  | .C =>
    match extend A (max t.oldR t.want - t.oldR) t.newArr with
    | some a => (cache, { t with pc := .W, newArr := a })
    | none => (cache, { t with pc := .panicked })
  | .W =>
    let old := cache.length
    let new := max old t.want
    if recheck = true ∧ old = new then (cache, { t with pc := .U }) -- "Do we still need to update size?"
    else (t.newArr, { t with pc := .U })                            -- `*write_lock = secret_key_array`
  | .U =>
    -- the caller slices `want` polynomials out of the array: out of range = panic
    if t.want ≤ cache.length then (cache, { t with pc := .done, result := some (cache.take t.want) })
    else (cache, { t with pc := .panicked })
  | .done => (cache, t)
  | .panicked => (cache, t)

def step (recheck : Bool) (A : Alg P) (i : Nat) (σ : St P) : St P :=
  match σ.thr[i]? with
  | none => σ
  | some t =>
    let r := stepThr recheck A σ.cache t
    { cache := r.1, thr := σ.thr.set i r.2 }

def run (recheck : Bool) (A : Alg P) : List Nat → St P → St P
  | [], σ => σ
  | i :: is, σ => run recheck A is (step recheck A i σ)

/-- initial state: a correct cache of `n0` powers, one thread per requested power, all before their R phase -/
def init (A : Alg P) (n0 : Nat) (wants : List Nat) : St P :=
  { cache := powers A n0, thr := wants.map fun w => { want := w } }

/-- a thread that can still take a step -/
def PC.live : PC → Bool
  | .done => false | .panicked => false | _ => true

def St.final (σ : St P) : Bool := σ.thr.all fun t => !t.pc.live

/-- run every call to completion one after the other (4 steps suffice for one call) -/
def seqSchedule (k : Nat) : List Nat := (List.range k).flatMap fun i => [i, i, i, i]

/-- the observable log of a run: (thread, phase executed, cache length after the step) -/
def runTrace (recheck : Bool) (A : Alg P) : List Nat → St P → List (Nat × PC × Nat)
  | [], _ => []
  | i :: is, σ =>
    let σ' := step recheck A i σ
    let ph := match σ.thr[i]? with | some t => t.pc | none => .done
    (i, ph, σ'.cache.length) :: runTrace recheck A is σ'

/-! ## Part 2: the Galois permutation-table cache -/

/-- program counter inside one `apply_ntt` call: check (read lock), generate-and-store (write lock), use (read lock) -/
inductive GPC | chk | gen | use | done | panicked
  deriving DecidableEq, Repr, BEq

def GPC.toStr : GPC → String
  | .chk => "K" | .gen => "G" | .use => "U" | .done => "D" | .panicked => "P"

structure GThr (T : Type) where
  calls : List Nat                 -- table indices of the successive `apply_ntt` calls of this thread's operation
  pos : Nat := 0                   -- index of the current call
  pc : GPC := .chk
  seen : List (Option T) := []     -- the table each finished call permuted with (`none` = an empty table)
  deriving BEq

structure GSt (T : Type) where
  tables : List (Option T)         -- `permutation_tables`; `none` = `vec![]`
  thr : List (GThr T)
  deriving BEq

variable {T : Type}

def gstepThr (gen : Nat → T) (tables : List (Option T)) (t : GThr T) : List (Option T) × GThr T :=
  match t.calls[t.pos]? with
  | none => (tables, { t with pc := .done })
  | some idx =>
    match t.pc with
    | .chk =>
      match tables[idx]? with
      | none => (tables, { t with pc := .panicked })           -- `(*tables)[index]` out of range
      | some none => (tables, { t with pc := .gen })           -- need_to_generate
      | some (some _) => (tables, { t with pc := .use })
    | .gen => (tables.set idx (some (gen idx)), { t with pc := .use })  -- no re-check: stores unconditionally
    | .use =>
      match tables[idx]? with
      | none => (tables, { t with pc := .panicked })
      | some e =>
        let pos := t.pos + 1
        (tables, { t with seen := t.seen ++ [e], pos := pos, pc := if pos < t.calls.length then .chk else .done })
    | .done => (tables, t)
    | .panicked => (tables, t)

def gstep (gen : Nat → T) (i : Nat) (σ : GSt T) : GSt T :=
  match σ.thr[i]? with
  | none => σ
  | some t =>
    let r := gstepThr gen σ.tables t
    { tables := r.1, thr := σ.thr.set i r.2 }

def grun (gen : Nat → T) : List Nat → GSt T → GSt T
  | [], σ => σ
  | i :: is, σ => grun gen is (gstep gen i σ)

/-- `n` tables of which those at `pre` are already generated -/
def ginitTables (gen : Nat → T) (n : Nat) (pre : List Nat) : List (Option T) :=
  (List.range n).map fun i => if pre.contains i then some (gen i) else none

def ginit (gen : Nat → T) (n : Nat) (pre : List Nat) (progs : List (List Nat)) : GSt T :=
  { tables := ginitTables gen n pre,
    thr := progs.map fun c => { calls := c, pc := if c.isEmpty then .done else .chk } }

def GPC.live : GPC → Bool
  | .done => false | .panicked => false | _ => true

def GSt.final (σ : GSt T) : Bool := σ.thr.all fun t => !t.pc.live

def filled (tables : List (Option T)) : List Nat :=
  (List.range tables.length).filter fun i => match tables[i]? with | some (some _) => true | _ => false

def grunTrace (gen : Nat → T) : List Nat → GSt T → List (Nat × GPC × List Nat)
  | [], _ => []
  | i :: is, σ =>
    let σ' := gstep gen i σ
    let ph := match σ.thr[i]? with | some t => t.pc | none => .done
    (i, ph, filled σ'.tables) :: grunTrace gen is σ'

/-! ## Part 3: the lock level (explicit `RwLock` state) for deadlock freedom

Every lock region of Parts 1/2 is split into *acquire* (may be disabled) and *body+release* (always enabled).
`std::sync::RwLock`: `read()` needs no writer, `write()` needs no writer and no reader.  The phases are the
same for both caches: a call is a sequence of regions, each a read region or a write region, separated by
lock-free code; which regions follow is data dependent, so the model lets the *data level* decide: the lock
level only records, per thread, whether it is outside any region (`out`), waiting to enter a read / write
region (`wantR`/`wantW`), or inside one (`inR`/`inW`).  After leaving a region a thread nondeterministically
(`next` oracle) goes to any of `out`-then-`wantR`, `wantW`, or `fin`. -/

inductive LPC | wantR | inR | wantW | inW | fin
  deriving DecidableEq, Repr, BEq

structure LSt where
  readers : Nat
  writer : Bool
  thr : List LPC
  deriving BEq, DecidableEq

/-- is the next step of a thread at `pc` enabled? -/
def lenabled (σ : LSt) : LPC → Bool
  | .wantR => !σ.writer
  | .wantW => !σ.writer && σ.readers == 0
  | .inR => true
  | .inW => true
  | .fin => false

/-- where a thread goes after leaving a region: wait for the next region (`wantR`/`wantW`) or finish -/
def normNext (nxt : LPC) : LPC := match nxt with | .inR => .wantR | .inW => .wantW | p => p

/-- one lock-level step of thread `i`; `nxt` = what the thread does after releasing (chosen by the data level);
    a disabled or finished thread leaves the state unchanged -/
def lstep (nxt : LPC) (i : Nat) (σ : LSt) : LSt :=
  match σ.thr[i]? with
  | none => σ
  | some pc =>
    if lenabled σ pc then
      match pc with
      | .wantR => { σ with readers := σ.readers + 1, thr := σ.thr.set i .inR }
      | .wantW => { σ with writer := true, thr := σ.thr.set i .inW }
      | .inR => { σ with readers := σ.readers - 1, thr := σ.thr.set i (normNext nxt) }
      | .inW => { σ with writer := false, thr := σ.thr.set i (normNext nxt) }
      | .fin => σ
    else σ

def lrun : List (Nat × LPC) → LSt → LSt
  | [], σ => σ
  | (i, nxt) :: is, σ => lrun is (lstep nxt i σ)

/-- all threads about to enter their first (read) region, lock free -/
def linit (k : Nat) : LSt := { readers := 0, writer := false, thr := List.replicate k .wantR }

end HC.Conc
