/-
  Support definitions of the GENERATED skeletons of src/multiparty/participant.rs (`Gen/MpFns.lean`, tools/rs2lean_mp.py).
  Core Lean only.  Nothing here is specific to one protocol: a draw tape, the `for j in 0..n` loop, `iter().enumerate()` loops over the
  `broadcasted` vector, checked indexing of vectors of polynomials.
-/
import Heathcliff.Model.Multiparty
namespace HC.MP

/-- which sampler of `util::rlwe::sample` a draw comes from -/
inductive DrawKind where
  | uniform | ternary | cbd
  deriving DecidableEq, Repr

/-- the polynomials a generator will produce, in the order in which they are drawn, each tagged with the sampler that draws it.
    (A sampler call on a tape whose next entry has another tag - or on an empty tape - is an error: the theorems give the tape
    the exact shape the code consumes, so the draw COUNT, ORDER and KIND are part of every equality.) -/
abbrev Tape (α : Type) := List (DrawKind × α)

def draw {α : Type} (k : DrawKind) : Tape α → R (α × Tape α)
  | [] => .error .other
  | (k', x) :: rest => if k' = k then .ok (x, rest) else .error .other

/-- `for j in lo..lo+n { s = body(j, s) }` -/
def loopFrom {σ : Type} (body : Nat → σ → R σ) : Nat → Nat → σ → R σ
  | 0, _, s => .ok s
  | n + 1, j, s => match body j s with
    | .ok s' => loopFrom body n (j + 1) s'
    | .error e => .error e

/-- `for j in 0..n` -/
def loopM {σ : Type} (n : Nat) (body : Nat → σ → R σ) (s : σ) : R σ := loopFrom body n 0 s

/-- `xs.iter().enumerate().all(|(i, x)| f i x)` -/
def enumAllFrom {β : Type} (f : Nat → β → Bool) : Nat → List β → Bool
  | _, [] => true
  | i, x :: xs => f i x && enumAllFrom f (i + 1) xs

/-- `for (i, x) in xs.iter().enumerate() { acc = f(i, x, acc) }` -/
def enumForFrom {β γ : Type} (f : Nat → β → γ → R γ) : Nat → List β → γ → R γ
  | _, [], acc => .ok acc
  | i, x :: xs, acc => match f i x acc with
    | .ok a => enumForFrom f (i + 1) xs a
    | .error e => .error e

/-- `xs.into_iter().map(f).collect()` with a panicking `f` (every element, in order; the first error stops) -/
def mapRM {β γ : Type} (f : β → R γ) : List β → R (List γ)
  | [] => .ok []
  | x :: xs => match f x with
    | .ok y => match mapRM f xs with
      | .ok ys => .ok (y :: ys)
      | .error e => .error e
    | .error e => .error e

/-- `for x in xs.iter_mut() { x.receive(stream)? }`: every element, in order, threading the stream -/
def mapStreamM {β σ : Type} (f : β → σ → R (β × σ)) : List β → σ → R (List β × σ)
  | [], s => .ok ([], s)
  | x :: xs, s => match f x s with
    | .ok (y, s') => match mapStreamM f xs s' with
      | .ok (ys, s'') => .ok (y :: ys, s'')
      | .error e => .error e
    | .error e => .error e

/-- `deserialize_polynomial(stream)`: the next polynomial of the stream (the wire format itself is C17's subject) -/
def nextPoly {β : Type} : List β → R (β × List β)
  | [] => .error .other
  | x :: xs => .ok (x, xs)

def idxP {β : Type} (l : List β) (i : Nat) : R β := match l[i]? with | some x => .ok x | none => .error .oob
def setP {β : Type} (l : List β) (i : Nat) (v : β) : R (List β) := if i < l.length then .ok (l.set i v) else .error .oob

/-- `assert!(c)` / a panicking `if` -/
def need (c : Bool) : R Unit := if c then .ok () else .error .refused

end HC.MP
