/-
  Model of the structural logic of src/evaluator.rs that is shared by the schemes:
  the index arithmetic of ciphertext products (`bfv_multiply` / `ckks_multiply` / `bgv_multiply` step "dyadic
  multiplication on arbitrary size ciphertexts"), the size logic of `translate_inplace` (add / sub of ciphertexts of
  different sizes), and `balance_correction_factors` (BGV).
-/
import Heathcliff.Model.Scheme
import Heathcliff.Gen.Constants
namespace HC

/-- the pairs (index into encrypted1, index into encrypted2) visited for output polynomial `i`:
    `curr_encrypted1_first + j`, `curr_encrypted2_first - j` for `j < steps` -/
def mulPairs (n1 n2 i : Nat) : List (Nat × Nat) :=
  let last1 := min i (n1 - 1)
  let first2 := min i (n2 - 1)
  let first1 := i - first2
  let steps := last1 - first1 + 1
  (List.range steps).map fun j => (first1 + j, first2 - j)

/-- sizes and polynomial-wise structure of `translate_inplace` (no correction-factor mismatch):
    result polynomial `i` of `a ± b` in terms of the operands' polynomials -/
inductive TrTerm where
  | both (i : Nat)        -- a_i ± b_i
  | left (i : Nat)        -- a_i
  | right (i : Nat)       -- ± b_i  (negated in a subtraction)
  deriving DecidableEq, Repr

def translateShape (n1 n2 : Nat) : List TrTerm :=
  (List.range (max n1 n2)).map fun i =>
    if i < min n1 n2 then .both i else if n1 > n2 then .left i else .right i

/-- `balance_correction_factors(factor1, factor2, t)`: returns (new factor, e1, e2) -/
def balanceLoop (t : Modulus) : Nat → Int → Int → Int → Int → Nat → Nat → Int → R (Nat × Nat)
  | 0, _, _, _, _, _, _, _ => .error .other
  | fuel+1, prevA, a, prevB, b, e1, e2, sum =>
    if a = 0 then pure (e1, e2) else do
    let q := Int.tdiv prevA a    -- i64 `/` and `%` truncate toward zero
    let temp := Int.tmod prevA a
    let b' ← ckI64 (prevB - q * b)
    let a' := temp
    let amod0 ← barrett64 a'.natAbs t
    let amod ← if a' < 0 then negateMod amod0 t else pure amod0
    let bmod0 ← barrett64 b'.natAbs t
    let bmod ← if b' < 0 then negateMod bmod0 t else pure bmod0
    let half := t.value / 2
    let bal (x : Nat) : Int := if x > half then (x : Int) - t.value else x
    let (e1', e2', sum') :=
      if amod ≠ 0 ∧ gcdU64 amod t.value = 1 then
        let ns := (bal amod).natAbs + (bal bmod).natAbs
        if (ns : Int) < sum then (amod, bmod, (ns : Int)) else (e1, e2, sum)
      else (e1, e2, sum)
    balanceLoop t fuel a a' b b' e1' e2' sum'

def balanceCorrectionFactors (f1 f2 : Nat) (t : Modulus) : R (Nat × Nat × Nat) := do
  match ← tryInvert f1 t.value with
  | none => .error .refused
  | some inv => do
    let ratio ← mulMod inv f2 t
    let half := t.value / 2
    let bal (x : Nat) : Int := if x > half then (x : Int) - t.value else x
    let sum : Int := (bal ratio).natAbs + (bal 1).natAbs
    let (e1, e2) ← balanceLoop t 200 (t.value : Int) (ratio : Int) 0 1 ratio 1 sum
    let f ← mulMod e1 f1 t
    pure (f, e1, e2)

end HC

namespace HC

/-- `mod_switch_scale_to_next_internal`: divide every polynomial by the last prime (scheme-specific rounding),
    drop the last component; BGV multiplies the correction factor by q_last^{-1} mod t.  The CKKS scale is handled
    by the caller (a float). -/
def modSwitchScaleNext (l : Level) (ct : Ct) : R Ct := do
  if l.size < 2 then .error .refused else
  match l.scheme with
  | .bfv => if ct.ntt then .error .refused else do
      let ps ← ct.polys.toList.mapM (fun p => do let o ← l.tool.divideAndRoundQLast p; pure (o.extract 0 (l.size - 1)))
      pure { ct with polys := ps.toArray }
  | .ckks => if !ct.ntt then .error .refused else do
      let ps ← ct.polys.toList.mapM (fun p => do let o ← l.tool.divideAndRoundQLastNtt l.tables p; pure (o.extract 0 (l.size - 1)))
      pure { ct with polys := ps.toArray }
  | .bgv => if !ct.ntt then .error .refused else do
      let ps ← ct.polys.toList.mapM (fun p => do let o ← l.tool.modTAndDivideQLastNtt l.tables p; pure (o.extract 0 (l.size - 1)))
      let cf ← mulMod ct.cf l.tool.invQLastModT l.t
      pure { ct with polys := ps.toArray, cf := cf }

/-- `mod_switch_drop_to_next_internal` (CKKS `mod_switch_to_next`): drop the last RNS component -/
def modSwitchDropNext (l : Level) (ct : Ct) : R Ct :=
  if l.size < 2 then .error .refused
  else if l.scheme = .ckks ∧ !ct.ntt then .error .refused
  else pure { ct with polys := ct.polys.map (fun p => p.extract 0 (l.size - 1)) }

/-- the level bookkeeping of `mod_switch_to` / `rescale_to`: chain indices decrease by one per step until the target;
    a target above the current level is refused.  Structural recursion on the distance: termination is by construction. -/
def switchSteps (cur tgt : Nat) : R (List Nat) :=
  if cur < tgt then .error .refused
  else pure ((List.range (cur - tgt)).map (fun i => cur - 1 - i))

end HC

namespace HC

/-- `Ciphertext::is_valid_for` (metadata + buffer + data) for a ciphertext whose parms id denotes level `l`:
    size 0 or 2..16, every polynomial has `l.size` components of `n` canonical residues, scale = 1.0 (BFV/BGV) resp. ≠ 0
    (CKKS) — passed in as two Booleans —, correction factor 1 (BFV/CKKS) resp. in [1, t − 1] (BGV) -/
def ctValid (l : Level) (ct : Ct) (scaleIsOne scaleIsZero : Bool) : Bool :=
  let size := ct.polys.size
  let sizeOk := size = 0 ∨ (2 ≤ size ∧ size ≤ 16)
  let shapeOk := ct.polys.all fun p => p.size = l.size ∧
    (List.range l.size).all fun i => let c := p.getD i #[]; c.size = l.n ∧ c.all (· < (l.q i).value)
  let scaleOk := match l.scheme with
    | .bfv | .bgv => scaleIsOne
    | .ckks => !scaleIsZero
  let cfOk := match l.scheme with
    | .bfv | .ckks => ct.cf = 1
    | .bgv => ct.cf ≠ 0 ∧ ct.cf < l.t.value
  sizeOk && shapeOk && scaleOk && cfOk

end HC

namespace HC

def rnsSub (l : Level) (a b : RnsPoly) : R RnsPoly := rnsZip l a b subMod
def rnsNeg (l : Level) (a : RnsPoly) : R RnsPoly :=
  (List.range l.size).foldlM (fun acc i => do
    let c ← mapM' (a.getD i #[]) (fun x => negateMod x (l.q i))
    pure (acc.push c)) #[]

/-- `translate_inplace` for equal correction factors: polynomial-wise add / sub with the shape of `translateShape` -/
def ctTranslate (l : Level) (a b : Ct) (sub : Bool) : R Ct := do
  if a.ntt ≠ b.ntt then .error .refused else
  if a.cf ≠ b.cf then .error .other else          -- (balancing path not modelled here)
  let ps ← (translateShape a.polys.size b.polys.size).mapM fun t =>
    match t with
    | .both i => if sub then rnsSub l (a.polys.getD i #[]) (b.polys.getD i #[]) else rnsAdd l (a.polys.getD i #[]) (b.polys.getD i #[])
    | .left i => pure (a.polys.getD i #[])
    | .right i => if sub then rnsNeg l (b.polys.getD i #[]) else pure (b.polys.getD i #[])
  pure { a with polys := ps.toArray }

def ctNegate (l : Level) (a : Ct) : R Ct := do
  let ps ← a.polys.toList.mapM (fun p => rnsNeg l p)
  pure { a with polys := ps.toArray }

/-- the size check of `Ciphertext::resize_internal` (src/text.rs), reached through `Ciphertext::resize` from the three
    multiplications with `dest_size = encrypted1_size + encrypted2_size - 1`:
    `if (size < HE_CIPHERTEXT_SIZE_MIN && size != 0) || (size > HE_CIPHERTEXT_SIZE_MAX) { panic!("[Invalid argument] Size invalid.") }`.
    The two limits are the regenerated constants of `Gen/Constants.lean`. -/
def ctResizeRefuses (size : Nat) : Bool :=
  (size < Gen.HE_CIPHERTEXT_SIZE_MIN && size != 0) || size > Gen.HE_CIPHERTEXT_SIZE_MAX

/-- `ckks_multiply` (also the dyadic step of `bgv_multiply`): output polynomial i = Σ over `mulPairs` of dyadic products,
    accumulated with modular additions.  As in the code, the destination is resized to n1 + n2 − 1 polynomials before anything is
    computed, and `resize` refuses a size outside {0} ∪ [2, 16] (`ctResizeRefuses`). -/
def ctMultiplyDyadic (l : Level) (a b : Ct) : R Ct := do
  if !a.ntt ∨ !b.ntt then .error .refused else
  let n1 := a.polys.size; let n2 := b.polys.size
  if n1 < 1 ∨ n2 < 1 then .error .refused else
  if ctResizeRefuses (n1 + n2 - 1) then .error .refused else
  let ps ← (List.range (n1 + n2 - 1)).mapM fun i =>
    (mulPairs n1 n2 i).foldlM (fun acc p => do
      let pr ← rnsDyadic l (a.polys.getD p.1 #[]) (b.polys.getD p.2 #[])
      rnsAdd l acc pr) (rnsZero l)
  pure { a with polys := ps.toArray }

/-- `multiply_plain_ntt`: every polynomial times the (NTT-form) plaintext, component-wise -/
def ctMultiplyPlainNtt (l : Level) (a : Ct) (p : RnsPoly) : R Ct := do
  if !a.ntt then .error .refused else
  let ps ← a.polys.toList.mapM (fun c => rnsDyadic l c p)
  pure { a with polys := ps.toArray }

/-- `is_scale_within_bounds` for CKKS: scale > 0 and ⌊log2 scale⌋ < bit count of the level's modulus,
    i.e. scale < 2^bits (no logarithm needed) -/
def ckksScaleOk (scale : Float) (totalBits : Nat) : Bool :=
  !(scale ≤ 0.0) && scale < Float.ofScientific 1 false 0 * (Float.ofNat 2) ^ (Float.ofNat totalBits)

end HC

namespace HC

/-- component-wise map with a per-component modulus list -/
def compsZip (ms : Array Modulus) (a b : RnsPoly) (f : Nat → Nat → Modulus → R Nat) : R RnsPoly :=
  (List.range ms.size).foldlM (fun acc i => do
    let c ← zipM' (a.getD i #[]) (b.getD i #[]) (fun x y => f x y (ms.getD i default))
    pure (acc.push c)) #[]

def compsMap (ms : Array Modulus) (a : RnsPoly) (f : Nat → Modulus → R Nat) : R RnsPoly :=
  (List.range ms.size).foldlM (fun acc i => do
    let c ← mapM' (a.getD i #[]) (fun x => f x (ms.getD i default))
    pure (acc.push c)) #[]

/-- `bfv_multiply` (BEHZ steps 1–8) for ciphertexts of any sizes.
    `bskTables` are the NTT tables of the auxiliary base Bsk (`base_Bsk_ntt_tables`). -/
def bfvMultiply (l : Level) (bskTables : Array NTTTables) (a b : Ct) : R Ct := do
  if a.ntt ∨ b.ntt then .error .refused else
  -- `encrypted1.resize(.., dest_size)` comes before the lifts in the code: a size outside {0} ∪ [2, 16] is refused there
  if ctResizeRefuses (a.polys.size + b.polys.size - 1) then .error .refused else
  let tool := l.tool
  let qMs := l.qs
  let bskMs := tool.baseBsk.base
  let n := l.n
  let zeroQ : RnsPoly := Array.replicate qMs.size (Array.replicate n 0)
  let zeroB : RnsPoly := Array.replicate bskMs.size (Array.replicate n 0)
  -- steps (1)–(3): lift to q ∪ Bsk, Montgomery-reduce, NTT (lazy) in both bases
  let lift (c : Ct) : R (List RnsPoly × List RnsPoly) := do
    let qs := c.polys.toList.map fun p => Array.ofFn (n := qMs.size) fun i => nttLazy (l.tbl i.val) (p.getD i.val #[])
    let bs ← c.polys.toList.mapM fun p => do
      let ext ← tool.fastbconvMTilde p
      let red ← tool.smMrq ext
      pure (Array.ofFn (n := bskMs.size) fun i => nttLazy (bskTables.getD i.val default) (red.getD i.val #[]))
    pure (qs, bs)
  let (aq, ab) ← lift a
  let (bq, bb) ← lift b
  let n1 := a.polys.size; let n2 := b.polys.size
  if n1 < 1 ∨ n2 < 1 then .error .refused else
  -- step (4): dyadic tensor product in both bases
  let tensor (ms : Array Modulus) (xs ys : List RnsPoly) (zero : RnsPoly) : R (List RnsPoly) :=
    (List.range (n1 + n2 - 1)).mapM fun i =>
      (mulPairs n1 n2 i).foldlM (fun acc p => do
        let pr ← compsZip ms (xs.getD p.1 #[]) (ys.getD p.2 #[]) mulMod
        compsZip ms acc pr addMod) zero
  let dq ← tensor qMs aq bq zeroQ
  let db ← tensor bskMs ab bb zeroB
  -- step (5): back from NTT form
  let dq := dq.map fun p => Array.ofFn (n := qMs.size) fun i => intt (l.tbl i.val) (p.getD i.val #[])
  let db := db.map fun p => Array.ofFn (n := bskMs.size) fun i => intt (bskTables.getD i.val default) (p.getD i.val #[])
  -- steps (6)–(8): multiply by t, floor-divide by q into Bsk, Shenoy–Kumaresan back to q
  let outs ← (List.range (n1 + n2 - 1)).mapM fun i => do
    let tq ← compsMap qMs (dq.getD i #[]) (fun x m => mulMod x l.t.value m)
    let tb ← compsMap bskMs (db.getD i #[]) (fun x m => mulMod x l.t.value m)
    let fl ← tool.fastFloor (tq ++ tb)
    tool.fastbconvSk fl
  pure { a with polys := outs.toArray }

/-- `bgv_multiply`: the dyadic tensor product of NTT-form ciphertexts; the correction factors multiply -/
def bgvMultiply (l : Level) (a b : Ct) : R Ct := do
  let c ← ctMultiplyDyadic l a b
  let cf ← mulMod a.cf b.cf l.t
  pure { c with cf := cf }

end HC

namespace HC

/-! ### squaring (`bgv_square`, `ckks_square`, `bfv_square` of src/evaluator.rs): NOT defined as a product with itself — the code has a
    fast path for size 2 (c0², 2·c0·c1 computed as `c0·c1` ADDED TO ITSELF, c1²) and falls back to the product routine
    (`self.xxx_multiply(encrypted, &encrypted.clone())`) for every other size.  That these are the products `x·x` is a theorem
    (Proofs/C02S.lean), not a definition. -/

/-- `bgv_square`, data part: NTT form required; sizes ≠ 2 go to `bgv_multiply(encrypted, &encrypted.clone())`; for size 2 the destination
    is resized to 3 (`resize`: `ctResizeRefuses`), then in the order of the code `temp[0] = c0 ⊙ c0`, `temp[1] = c0 ⊙ c1`,
    `temp[1] += temp[1]` (`add_inplace_p` of the block to itself through a raw-pointer alias: coefficient-wise, so every word is read
    before it is written), `temp[2] = c1 ⊙ c1`; the correction factor becomes cf·cf mod t -/
def bgvSquare (l : Level) (a : Ct) : R Ct := do
  if !a.ntt then .error .refused else
  if a.polys.size ≠ 2 then bgvMultiply l a a else
  if ctResizeRefuses (a.polys.size + a.polys.size - 1) then .error .refused else
  let c0 := a.polys.getD 0 #[]; let c1 := a.polys.getD 1 #[]
  let d0 ← rnsDyadic l c0 c0
  let m ← rnsDyadic l c0 c1
  let d1 ← rnsAdd l m m
  let d2 ← rnsDyadic l c1 c1
  let cf ← mulMod a.cf a.cf l.t
  pure { a with polys := #[d0, d1, d2], cf := cf }

/-- `ckks_square`, data part (the scale bookkeeping is `ckksProductBookkeeping`, as for `ckks_multiply`): sizes ≠ 2 go to
    `ckks_multiply(encrypted, &encrypted.clone())`; for size 2 the ciphertext is resized to 3 and updated IN PLACE in the order
    `c2 = c1 ⊙ c1`, `c1 = c0 ⊙ c1`, `c1 += c1` (the second operand of `add_inplace_p` is an alias of the block just written, i.e. the
    product, not the old c1), `c0 = c0 ⊙ c0` -/
def ckksSquare (l : Level) (a : Ct) : R Ct := do
  if !a.ntt then .error .refused else
  if a.polys.size ≠ 2 then ctMultiplyDyadic l a a else
  if ctResizeRefuses (a.polys.size + a.polys.size - 1) then .error .refused else
  let c0 := a.polys.getD 0 #[]; let c1 := a.polys.getD 1 #[]
  let d2 ← rnsDyadic l c1 c1
  let m ← rnsDyadic l c0 c1
  let d1 ← rnsAdd l m m
  let d0 ← rnsDyadic l c0 c0
  pure { a with polys := #[d0, d1, d2] }

/-- `bfv_square`: coefficient form required; sizes ≠ 2 go to `bfv_multiply(encrypted, &encrypted.clone())`; for size 2 the BEHZ steps
    (1)–(3) and (5)–(8) are those of `bfv_multiply` (per polynomial instead of per batch: same values), step (4) is the fast path
    `c0², c0·c1 added to itself, c1²` in BOTH bases (on the lazily transformed operands; the products are reduced) -/
def bfvSquare (l : Level) (bskTables : Array NTTTables) (a : Ct) : R Ct := do
  if a.ntt then .error .refused else
  if a.polys.size ≠ 2 then bfvMultiply l bskTables a a else
  if ctResizeRefuses (a.polys.size + a.polys.size - 1) then .error .refused else
  let tool := l.tool
  let qMs := l.qs
  let bskMs := tool.baseBsk.base
  -- steps (1)–(3): in the code polynomial by polynomial (base q: lazy NTT - pure -; base Bsk: extend, Montgomery-reduce, lazy NTT); the same
  -- values, and the same first failure, as the batch form of `bfvMultiply`
  let aq := a.polys.toList.map fun p => Array.ofFn (n := qMs.size) fun i => nttLazy (l.tbl i.val) (p.getD i.val #[])
  let ab ← a.polys.toList.mapM fun p => do
    let ext ← tool.fastbconvMTilde p
    let red ← tool.smMrq ext
    pure (Array.ofFn (n := bskMs.size) fun i => nttLazy (bskTables.getD i.val default) (red.getD i.val #[]))
  -- step (4): the square in both bases
  let sq (ms : Array Modulus) (xs : List RnsPoly) : R (List RnsPoly) := do
    let x0 := xs.getD 0 #[]; let x1 := xs.getD 1 #[]
    let d0 ← compsZip ms x0 x0 mulMod
    let m ← compsZip ms x0 x1 mulMod
    let d1 ← compsZip ms m m addMod
    let d2 ← compsZip ms x1 x1 mulMod
    pure [d0, d1, d2]
  let dq ← sq qMs aq
  let db ← sq bskMs ab
  -- step (5)
  let dq := dq.map fun p => Array.ofFn (n := qMs.size) fun i => intt (l.tbl i.val) (p.getD i.val #[])
  let db := db.map fun p => Array.ofFn (n := bskMs.size) fun i => intt (bskTables.getD i.val default) (p.getD i.val #[])
  -- steps (6)–(8)
  let outs ← (List.range 3).mapM fun i => do
    let tq ← compsMap qMs (dq.getD i #[]) (fun x m => mulMod x l.t.value m)
    let tb ← compsMap bskMs (db.getD i #[]) (fun x m => mulMod x l.t.value m)
    let fl ← tool.fastFloor (tq ++ tb)
    tool.fastbconvSk fl
  pure { a with polys := outs.toArray }

end HC

namespace HC

/-- `translate_inplace` including the BGV branch that balances different correction factors first -/
def ctTranslateBalanced (l : Level) (a b : Ct) (sub : Bool) : R Ct := do
  if a.cf = b.cf then ctTranslate l a b sub else do
    let (f, e1, e2) ← balanceCorrectionFactors a.cf b.cf l.t
    let scale (c : Ct) (e : Nat) : R Ct := do
      let ps ← c.polys.toList.mapM (fun p => compsMap l.qs p (fun x m => mulMod x e m))
      pure { c with polys := ps.toArray, cf := f }
    let a' ← scale a e1
    let b' ← scale b e2
    ctTranslate l a' b' sub

end HC

namespace HC

/-! ### decision logic of the level-walk entry points, of the CKKS scale bookkeeping and of the `multiply_plain` dispatch (translator phase 4g:
    the skeletons generated from src/evaluator.rs into Gen/EvalFns.lean / Gen/EvalCtFns.lean are proved equal to these) -/

/-- which internal routine one step down the chain runs: `mod_switch_scale_to_next_internal` (`modSwitchScaleNext`) or
    `mod_switch_drop_to_next_internal` (`modSwitchDropNext`) -/
inductive SwitchKind where
  | scale | drop
  deriving DecidableEq, Repr

def SwitchKind.code : SwitchKind → Nat
  | .scale => 1
  | .drop => 2

/-- the step of the model behind a kind -/
def SwitchKind.step : SwitchKind → Level → Ct → R Ct
  | .scale => modSwitchScaleNext
  | .drop => modSwitchDropNext

/-- `mod_switch_to_next`: BFV and BGV divide by the dropped prime, CKKS drops it -/
def modSwitchNextKind : Scheme → SwitchKind
  | .bfv | .bgv => .scale
  | .ckks => .drop

/-- `mod_switch_to_next` on chain indices: an invalid ciphertext and the last level (chain index 0) are refused; otherwise the scheme's
    routine runs and the ciphertext arrives one index down -/
def modSwitchToNextPlan (valid : Bool) (cur : Nat) (s : Scheme) : R (SwitchKind × Nat) :=
  if valid = false ∨ cur = 0 then .error .refused else pure (modSwitchNextKind s, cur - 1)

/-- `rescale_to_next`: as above, CKKS only, always the dividing routine -/
def rescaleToNextPlan (valid : Bool) (cur : Nat) (s : Scheme) : R (SwitchKind × Nat) :=
  if valid = false ∨ cur = 0 ∨ s ≠ .ckks then .error .refused else pure (SwitchKind.scale, cur - 1)

/-- `rescale_to`: an invalid ciphertext, a target above the current level and every scheme but CKKS are refused - ALSO when the target is
    the current level -; otherwise the level walk `switchSteps` (every step is `modSwitchScaleNext`, cf. `c05u_switchTo`) -/
def rescaleToPlan (valid : Bool) (cur tgt : Nat) (s : Scheme) : R (List Nat) :=
  if valid = false ∨ s ≠ .ckks then .error .refused else switchSteps cur tgt

/-- the refusals of `mod_switch_drop_to_next_internal` (CKKS `mod_switch_to_next`): CKKS in coefficient form, no next level, and a scale
    that does not fit the level the ciphertext ARRIVES at (`scaleOkNext` = `is_scale_within_bounds(scale, next level)`, for CKKS
    `ckksScaleOk scale (bit count of the next level's modulus)`) -/
def modSwitchDropDecision (s : Scheme) (ntt hasNext scaleOkNext : Bool) : R Unit :=
  if (s = .ckks ∧ ntt = false) ∨ hasNext = false ∨ scaleOkNext = false then .error .refused else pure ()

/-- CKKS bookkeeping of a ciphertext product (`ckks_multiply`, `ckks_square`): both operands in NTT form, the destination size
    `n1 + n2 - 1` passes `Ciphertext::resize`, the recorded scale becomes the PRODUCT of the operands' scales (second component 1 = "one
    product recorded") and must be within the bounds of the OPERANDS' level (`okProd`; for CKKS `ckksScaleOk (s1 * s2) bits(level)`,
    the rule of `c03k_opMul`) -/
def ckksProductBookkeeping (ntt1 ntt2 : Bool) (n1 n2 : Nat) (okProd : Bool) : R (Nat × Nat) :=
  if ntt1 = false ∨ ntt2 = false then .error .refused
  else if ctResizeRefuses (n1 + n2 - 1) then .error .refused
  else if okProd = false then .error .refused
  else pure (n1 + n2 - 1, 1)

/-- the scale rule at the end of `multiply_plain_ntt` / `multiply_plain_normal`: only CKKS records the product (and checks it, AFTER the
    multiplication, against the ciphertext's level); result = how many products the scale slot has absorbed -/
def mulPlainScaleRule (s : Scheme) (okProd : Bool) : R Nat :=
  if s = .ckks then (if okProd then pure 1 else .error .refused) else pure 0

/-- the steps `multiply_plain_inplace` is composed of -/
inductive PlainStep where
  | mulNtt | mulNormal | plainToNtt | ctToNtt | ctFromNtt
  deriving DecidableEq, Repr

def PlainStep.code : PlainStep → Nat
  | .mulNtt => 1 | .mulNormal => 2 | .plainToNtt => 3 | .ctToNtt => 4 | .ctFromNtt => 5

/-- `multiply_plain_inplace`: what runs for the four combinations of representations -/
def multiplyPlainPlan (ctNtt ptNtt : Bool) : List PlainStep :=
  match ctNtt, ptNtt with
  | true, true => [.mulNtt]
  | false, false => [.mulNormal]
  | true, false => [.plainToNtt, .mulNtt]
  | false, true => [.ctToNtt, .mulNtt, .ctFromNtt]

/-- `transform_to_ntt_inplace` / `transform_from_ntt_inplace` (full, reduced transforms of every component) -/
def ctToNtt (l : Level) (a : Ct) : R Ct :=
  if a.ntt then .error .refused else pure { a with polys := a.polys.map (rnsNtt l), ntt := true }
def ctFromNtt (l : Level) (a : Ct) : R Ct :=
  if !a.ntt then .error .refused else pure { a with polys := a.polys.map (rnsIntt l), ntt := false }

/-- `multiply_plain_inplace` with an NTT-form plaintext, for both representations of the ciphertext -/
def ctMultiplyPlain (l : Level) (a : Ct) (p : RnsPoly) : R Ct :=
  if a.ntt then ctMultiplyPlainNtt l a p
  else do
    let a' ← ctToNtt l a
    let r ← ctMultiplyPlainNtt l a' p
    ctFromNtt l r

/-- running a plan whose steps are all modelled (NTT-form plaintext) -/
def runPlainPlan (l : Level) (p : RnsPoly) : List PlainStep → Ct → R Ct
  | [], a => pure a
  | .mulNtt :: t, a => do let r ← ctMultiplyPlainNtt l a p; runPlainPlan l p t r
  | .ctToNtt :: t, a => do let r ← ctToNtt l a; runPlainPlan l p t r
  | .ctFromNtt :: t, a => do let r ← ctFromNtt l a; runPlainPlan l p t r
  | _ :: _, _ => .error .other

/-- the route `multiply_plain_normal` (coefficient-form ciphertext and plaintext) takes, as step codes (tools/rs2lean.py, `SK_MUL_PLAIN_NORMAL`):
    a plaintext with ONE non-zero coefficient is a monomial multiplication (13; for a "negative" coefficient without the fast plain lift the
    coefficient is lifted to every modulus first: 10 lift, 11 RNS decompose, 12 per-modulus monomial); otherwise the plaintext is lifted
    (22 fast / 20, 21 multi-precision + decompose), transformed (23), the ciphertext transformed lazily (24), multiplied (25) and transformed
    back with the FULL inverse transform (26) -/
def multiplyPlainNormalRoute (nonzero : Nat) (monoUpper fastLift : Bool) : List Nat :=
  if nonzero = 1 then (if monoUpper = true ∧ fastLift = false then [10, 11, 12] else [13])
  else (if fastLift then [22] else [20, 21]) ++ [23, 24, 25, 26]

/-- route, then the scale rule (`mulPlainScaleRule`, at BOTH exits of the function); the last entry is 100 + number of products recorded -/
def multiplyPlainNormalPlan (nonzero : Nat) (monoUpper fastLift : Bool) (s : Scheme) (okProd : Bool) : R (List Nat) := do
  let sc ← mulPlainScaleRule s okProd
  pure (multiplyPlainNormalRoute nonzero monoUpper fastLift ++ [100 + sc])

end HC

namespace HC

/-! ### NTT-form plaintexts down the chain (`mod_switch_to_next_plain*`, `mod_switch_plain_to*`) -/

/-- `mod_switch_drop_to_next_plain_internal`: a coefficient-form plaintext, a plaintext on the last level and a scale that does not fit
    the level the plaintext ARRIVES at are refused; otherwise the buffer is resized to degree × (prime count of the NEXT level) words -/
def plainDropNextWords (ntt hasNext okNext : Bool) (nNext kNext : Nat) : R Nat :=
  if ntt = false ∨ hasNext = false ∨ okNext = false then .error .refused else ckMul nNext kNext

/-- `Vec::resize(m, 0)` on the flat word buffer of a plaintext -/
def resizeWords (d : List Nat) (m : Nat) : List Nat := d.take m ++ List.replicate (m - d.length) 0

/-- the level walk of `mod_switch_plain_to_inplace` over chain indices (index 0 = last level): a coefficient-form plaintext and an
    upward target are refused; target = current level is the identity WITHOUT any check (the loop body never runs); otherwise the object
    must be valid and the walk visits cur − 1, …, tgt (`switchSteps`) -/
def plainSwitchToPlan (valid ntt : Bool) (cur tgt : Nat) : R (List Nat) :=
  if ntt = false then .error .refused
  else if cur < tgt then .error .refused
  else if cur = tgt then pure []
  else if valid = false then .error .refused
  else switchSteps cur tgt

/-- the data of a plaintext after walking the levels `steps`: at every level the buffer is resized to `n · kc level` words
    (`kc` = number of coefficient primes of a level of the chain) -/
def plainWalkData (kc : Nat → Nat) (n : Nat) (d : List Nat) (steps : List Nat) : List Nat :=
  steps.foldl (fun d lvl => resizeWords d (n * kc lvl)) d

end HC

namespace HC

/-! ### CKKS scale agreement (`util::are_close_f64`, the predicate behind `are_same_scale` / `match_scale` of add, sub, add_plain, sub_plain) -/

/-- `are_close_f64(v1, v2)` on exact values `v_i = m_i · 2^(e_i)` (positive finite doubles are such dyadic numbers):
    `|v1 − v2| < 2^-52 · max(v1, v2, 1)`, evaluated in integers after scaling by a common power of two (`closeInts a b one`: a, b the scaled values, `one` the scaled 1).
    TRUSTED reading of the float code `(value1 - value2).abs() < f64::EPSILON * value1.max(value2).max(1.0)`: the product on the right is exact
    (a power of two times a double), and the difference on the left is exact whenever the operands are within a factor two of each other
    (Sterbenz) — otherwise both the rounded and the exact difference exceed half the larger operand and the verdict is `false` either way. -/
def closeInts (a b one : Int) : Bool := decide (((a - b).natAbs : Int) * 4503599627370496 < max (max a b) one)   -- 2^52

def areCloseDy (m1 e1 m2 e2 : Int) : Bool :=
  let e := min (min e1 e2) 0
  closeInts (m1 * 2 ^ (e1 - e).toNat) (m2 * 2 ^ (e2 - e).toNat) (2 ^ (-e).toNat)

end HC
