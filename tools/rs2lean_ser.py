"""Translator phase 4i ("stream mode"): the wire format of src/serialize.rs.  Output: Gen/SerFns.lean (`HC.GenS`).

A `serialize` body is read as a WRITER program over an abstract stream (`W S E Nat`: state = the stream, result = the byte count the
function returns, `?` = propagate the stream's error with whatever was already written), a `deserialize` body as a READER program over a
byte list (`Rd a = Bytes -> Except DErr (a x Bytes)`, `read_exact` = all-or-eof), `serialized_size` / the size helpers as pure
arithmetic (`T` = total, `P` = partial: `R = Except Err` for `a - b` and `v[i]`).  The lowering is continuation passing: every
effectful sub-expression is bound in evaluation order, an `if` / `match` with effects in its arms duplicates the continuation, every
`for` loop becomes an auxiliary definition by recursion over the list it iterates, returning the variables its body assigns.
`x.serialize(stream)`, `T::deserialize(stream)`, `x.serialized_size()` are resolved by the STATIC type of `x` / `T` to the generated
function of that impl (generic `I` = a function parameter).  Whatever is not listed in the tables below raises `Unsupported`
(extract.py exits non-zero, Gen/SerFns.lean becomes a stub that does not elaborate).  Uses the tokenizer / parser of rs2lean.py (T)."""
import re, os, hashlib

SR = "src/serialize.rs"
KEYWORDS = {"end", "from", "at", "in", "then", "do", "fun", "where", "with", "open", "show", "have", "by", "local", "prefix", "instance", "self"}
SCALAR = ("u64", "usize", "u8", "int")          # all `Nat` in Lean
PREFIX = {"SecretKey": "sk", "u64": "u64", "usize": "usize", "u8": "u8", "bool": "bool", "f64": "f64", "Modulus": "modulus", "SchemeType": "scheme",
          "ParmsID": "pid", "EncryptionParameters": "params", "Plaintext": "plain"}
LEAN_TY = {"u64": "Nat", "usize": "Nat", "u8": "Nat", "int": "Nat", "bool": "Bool", "f64": "Nat", "Modulus": "Nat", "SchemeType": "Nat",
           "ParmsID": "List Nat", "EncryptionParameters": "Params", "Plaintext": "Plain", "I": "α", "unit": "Unit", "bytes": "Bytes",
           "Level": "Level", "CtV": "CtV", "Ciphertext": "CtV", "CdParms": "Level", "HeContext": "Ctx", "CtFlat": "CtFlat", "SecretKey": "Plain", "PublicKey": "CtV", "KSwitchKeys": "KSwitch CtV", "RelinKeys": "KSwitch CtV", "GaloisKeys": "KSwitch CtV"}
# context-dependent serializers (`x.serialize(context, stream)`): static type -> generated function
CTX_PREFIX = {"Ciphertext": "ct", "PublicKey": "pk", "KSwitchKeys": "kswitch", "RelinKeys": "relin", "GaloisKeys": "galois"}
# functions translated elsewhere (Gen/WordFns.lean, partial: `R`): name -> (Lean name, result type)
EXTERN_P = {"get_significant_bit_count": ("GenW.get_significant_bit_count", "usize")}

# TRUSTED reading tables ------------------------------------------------------------------------------------------------------------
# accessor methods: (receiver type, method, number of arguments) -> (result type, Lean template; {0} = receiver, {1}.. = arguments)
ACCESSORS = {
    ("Modulus", "value", 0): ("u64", "{0}"),                              # a Modulus is represented by its value
    ("f64", "to_bits", 0): ("u64", "{0}"),                                # an f64 is represented by its IEEE bit pattern
    ("EncryptionParameters", "scheme", 0): ("SchemeType", "{0}.scheme"),
    ("EncryptionParameters", "poly_modulus_degree", 0): ("usize", "{0}.n"),
    ("EncryptionParameters", "coeff_modulus", 0): (("vec", "Modulus"), "{0}.coeffMod"),
    ("EncryptionParameters", "plain_modulus", 0): ("Modulus", "{0}.plainMod"),
    ("EncryptionParameters", "use_special_prime_for_encryption", 0): ("bool", "{0}.special"),
    ("Plaintext", "parms_id", 0): ("ParmsID", "{0}.pid"),
    ("Plaintext", "data", 0): (("vec", "u64"), "{0}.data"),
    ("Plaintext", "scale", 0): ("f64", "{0}.scale"),
    # the ciphertext functions: `self` = the view `CtV`; `context` = the model's `Ctx`, `get_context_data(id)` = `Ctx.find id` (an Option:
    # the code's `.unwrap()` on it panics for an unknown parms id), a `ContextData` = the model's `Level`
    ("HeContext", "get_context_data", 1): (("opt", "Level"), "({0}.find {1})"),
    ("Level", "parms", 0): ("CdParms", "{0}"),
    ("CdParms", "scheme", 0): ("SchemeType", "{0}.scheme"),
    ("CdParms", "coeff_modulus", 0): (("vec", "Modulus"), "{0}.moduli"),
    ("CdParms", "poly_modulus_degree", 0): ("usize", "{0}.n"),
    ("SecretKey", "as_plaintext", 0): ("Plaintext", "{0}"),                # a SecretKey is represented by its plaintext (`SecretKey::new(p)` = p)
    ("PublicKey", "as_ciphertext", 0): ("Ciphertext", "{0}"),             # a PublicKey is represented by (the view of) its ciphertext
    ("KSwitchKeys", "parms_id", 0): ("ParmsID", "{0}.pid"),               # `Codec.KSwitch CtV`
    ("KSwitchKeys", "keys", 0): (("vec", ("vec", "PublicKey")), "{0}.keys"),
    ("RelinKeys", "as_kswitch_keys", 0): ("KSwitchKeys", "{0}"),          # newtypes over KSwitchKeys
    ("GaloisKeys", "as_kswitch_keys", 0): ("KSwitchKeys", "{0}"),
    ("Ciphertext", "parms_id", 0): ("ParmsID", "{0}.pid"),
    ("Ciphertext", "size", 0): ("usize", "{0}.size"),
    ("Ciphertext", "is_ntt_form", 0): ("bool", "{0}.ntt"),
    ("Ciphertext", "scale", 0): ("f64", "{0}.scale"),
    ("Ciphertext", "correction_factor", 0): ("u64", "{0}.cf"),
    ("Ciphertext", "contains_seed", 0): ("bool", "{0}.seeded"),
    ("Ciphertext", "data", 0): (("vec", "u64"), "{0}.data"),
    ("Ciphertext", "poly", 1): (("vec", "u64"), "({0}.poly {1})"),
    ("Ciphertext", "poly_component", 2): (("vec", "u64"), "({0}.comp {1} {2})"),
    ("Ciphertext", "coeff_modulus_size", 0): ("usize", "{0}.cms"),
    ("Ciphertext", "poly_modulus_degree", 0): ("usize", "{0}.deg"),
}
# associated functions: (type, name, number of arguments) -> (result type, Lean template, guard template or None)
# a guard is the condition under which the Rust function does NOT panic (read off its body; the pattern checks in `check_setters`
# make sure the body still contains those checks)
STATICS = {
    ("Modulus", "new", 1): ("Modulus", "{1}", None),
    ("f64", "from_bits", 1): ("f64", "{1}", None),
    ("u64", "from_le_bytes", 1): ("u64", "(leVal {1})", None),
    ("usize", "from_le_bytes", 1): ("usize", "(leVal {1})", None),
    ("EncryptionParameters", "new", 1): ("EncryptionParameters", "(Params.mk {1} 0 [] 0 false)", None),
    ("SecretKey", "new", 1): ("SecretKey", "{1}", None),
    ("Plaintext", "new", 0): ("Plaintext", "(Plain.mk [0, 0, 0, 0] [] oneF64)", None),
}
# builder / mutator methods: (type, method) -> (Lean template of the new object, guard template or None); {0} receiver, {1} argument
MUTATORS = {
    ("EncryptionParameters", "set_poly_modulus_degree"): ("{{ {0} with n := {1} }}", "(!({0}.scheme == 0 && decide ({1} > 0)))"),
    ("EncryptionParameters", "set_coeff_modulus"): ("{{ {0} with coeffMod := {1} }}",
        "(!({0}.scheme == 0 && !({1}).isEmpty) && !(decide (({1}).length > HC.Gen.HE_COEFF_MOD_COUNT_MAX) || decide (({1}).length < HC.Gen.HE_COEFF_MOD_COUNT_MIN)))"),
    ("EncryptionParameters", "set_plain_modulus"): ("{{ {0} with plainMod := {1} }}", "(({0}.scheme == 1 || {0}.scheme == 3) || {1} == 0)"),
    ("EncryptionParameters", "set_use_special_prime_for_encryption"): ("{{ {0} with special := {1} }}", None),
    ("Plaintext", "set_parms_id"): ("{{ {0} with pid := {1} }}", None),
    ("Plaintext", "set_coeff_count"): ("{0}", None),            # `coeff_count` is not part of the wire view (the reader sets it to data.len())
    ("Plaintext", "set_scale"): ("{{ {0} with scale := {1} }}", None),
    ("Plaintext", "data_mut="): ("{{ {0} with data := {1} }}", None),          # `*x.data_mut() = v`
}


def lty(t):
    if isinstance(t, (tuple, list)):
        if t[0] == "vec": return "List " + wrap(lty(t[1]))
        if t[0] == "arr": return "List " + wrap(lty(t[1]))
        if t[0] == "opt": return "Option " + wrap(lty(t[1]))
        if t[0] == "bytes": return "Bytes"
    if t is None: raise KeyError("unresolved element type")
    return LEAN_TY[t]


def wrap(s): return "(" + s + ")" if " " in s else s


def make_parser(T):
    class SParser(T.Parser):
        """rs2lean's parser + generic parameter lists on `fn` (skipped), `where` clauses (skipped), `Result<T>`, the `?` operator
        (node `try`), turbofish paths `Vec::<Modulus>::deserialize`, `size_of::<u64>()` (node `gpath`), `.collect::<Vec<_>>()`"""
        def fn_item(self):
            self.accept("pub"); self.expect("fn")
            name = self.ident(); self.fname = name
            if self.peek() == "<":
                d = 0
                while True:
                    t = self.next()
                    if t == "<": d += 1
                    elif t == ">":
                        d -= 1
                        if d == 0: break
                    elif t == "": self.fail("unterminated generics")
            self.expect("(")
            params = []
            while not self.accept(")"):
                if self.peek() in ("&", "self"):
                    save = self.i
                    isref = self.accept("&"); ismut = isref and self.accept("mut")
                    if self.accept("self"):
                        params.append(("self", ("selfty", "mut" if ismut else "ref" if isref else "val"), False))
                        if not self.accept(","): self.expect(")"); break
                        continue
                    self.i = save
                mut = self.accept("mut")
                pn = self.ident(); self.expect(":"); pt = self.ty()
                params.append((pn, pt, mut))
                if not self.accept(","): self.expect(")"); break
            ret = ("tuple", [])
            if self.accept("->"): ret = self.ty()
            if self.kind() == "id" and self.peek() == "where":
                while self.peek() != "{": self.next()
            body = self.block()
            return {"name": name, "params": params, "ret": ret, "body": body}

        def accept(self, s):
            if s == ">" and self.kind() == "p" and self.peek() == ">>":          # `Result<Vec<I>>`: split the token
                self.t[self.i] = ("p", ">", self.t[self.i][2]); return True
            return super().accept(s)

        def ty(self):
            if self.kind() == "id" and self.peek() == "Result" and self.peek(1) == "<":
                self.next(); self.next(); el = self.ty(); self.expect(">"); return ("result", el)
            if self.kind() == "id" and self.peek() == "_": self.next(); return ("name", "_")
            return super().ty()

        def targs(self):
            self.expect("<"); ts = []
            while not self.accept(">"):
                ts.append(self.ty())
                if not self.accept(","): self.expect(">"); break
            return ts

        def postfix(self):
            e = self.primary()
            while True:
                if self.peek() == "(" and self.kind() == "p":
                    if e[0] == "path": e = ("call", e[1], self.args())
                    elif e[0] == "gpath": e = ("gcall", e[1], e[2], self.args())
                    else: self.fail("call of a non-path expression")
                elif self.peek() == "." and self.kind() == "p":
                    self.next()
                    if self.kind() == "num": self.fail("tuple field access")
                    nm = self.ident()
                    if self.peek() == "::":
                        self.next(); self.targs()                     # `.collect::<Vec<_>>()`: the type argument is not needed
                        e = ("mcall", e, nm, self.args())
                    elif self.peek() == "(": e = ("mcall", e, nm, self.args())
                    else: e = ("field", e, nm)
                elif self.peek() == "[" and self.kind() == "p":
                    self.next(); ix = self.with_ns(False, lambda: self.expr()); self.expect("]")
                    e = ("index", e, ix)
                elif self.peek() == "?" and self.kind() == "p": self.next(); e = ("try", e)
                else: return e

        def primary(self):
            k = self.kind(); p = self.peek()
            if k == "str": self.next(); return ("str",)           # only inside `Err(std::io::Error::new(.., "msg"))`, which is read as a whole
            if k == "id" and p not in ("if", "true", "false", "match", "loop", "while", "for", "unsafe", "move", "return", "break"):
                # a path, possibly with `::<T, ..>` segments
                save = self.i
                segs = [self.ident()]; targs = []
                while self.peek() == "::" and self.kind() == "p":
                    self.next()
                    if self.peek() == "<": targs.append((len(segs), self.targs()))
                    else: segs.append(self.ident())
                if targs:
                    return ("gpath", segs, targs)
                self.i = save
            return super().primary()
    return SParser


class Lower:
    def __init__(self, gen, fn, ent, mode, selfty, generic):
        self.gen, self.T, self.fn, self.ent, self.mode, self.selfty, self.generic = gen, gen.T, fn, ent, mode, selfty, generic
        self.name = ent["lean"]; self.nt = 0; self.nloop = 0; self.aux = []; self.loops = {}
        self.m = {"W": "w", "R": "r", "P": "p", "T": ""}[mode]

    def fail(self, what, ln=None):
        raise self.T.Unsupported(f"{self.fn['file']}: fn {self.fn['name']} ({self.name})" + (f", line {ln}" if ln else "") + f": unsupported (stream mode): {what}")

    # ---- monad plumbing
    def bind(self, m, var, rest):
        if self.mode == "T": return f"let {var} := {m};\n{rest}"
        return f"{self.m}bind ({m}) fun {var} =>\n{rest}"
    def pure(self, e): return e if self.mode == "T" else f"{self.m}pure ({e})"
    def let(self, var, e, rest): return f"let {var} := {e};\n{rest}"
    def panic(self):
        if self.mode == "W": return "wpanic"
        if self.mode == "R": return "rfail .bad"
        if self.mode == "P": return "(.error .other)"
        self.fail("a panic in a total function")
    def fresh(self): self.nt += 1; return f"t{self.nt}"
    def lname(self, rust): return rust + "_" if rust in KEYWORDS else rust

    def mty(self, t):
        s = lty(t)
        if self.mode == "W": return "W S E " + wrap(s)
        if self.mode == "R": return "Rd " + wrap(s)
        if self.mode == "P": return "R " + wrap(s)
        return s

    def ctx_binders(self):
        b = []
        if self.mode == "W": b.append("{S E : Type} (st : WStream S E)")
        if self.ent.get("expand"): b.append("(expand : List Nat → Level → List Nat)")
        if self.generic:
            b.insert(0, "{α : Type}")
            b.append({"W": "(item' : α → W S E Nat)", "R": "(item' : Rd α)", "T": "(item' : α → Nat)", "P": "(item' : α → R Nat)"}[self.mode])
        return " ".join(b)
    def ctx_args(self):
        a = []
        if self.mode == "W": a.append("st")
        if self.ent.get("expand"): a.append("expand")
        if self.generic: a.append("item'")
        return " ".join(a)

    # ---- types
    def ntp(self, t):
        """`ParmsID` is the array type it abbreviates"""
        return ("arr", "u64", self.gen.sizes["ParmsID"] // 8) if t == "ParmsID" else t

    def rty(self, t):
        """Rust type node -> internal type"""
        if t[0] == "name" and t[1] == "ParmsID": return self.ntp("ParmsID")
        if t[0] == "ref": return self.rty(t[2])
        if t[0] == "vec": return ("vec", self.rty(t[1]))
        if t[0] == "arr": return ("arr", self.rty(t[1]), t[2]) if t[2] is not None else ("vec", self.rty(t[1]))
        if t[0] == "name":
            n = t[1]
            if n == "Self": return self.ntp(self.selfty)
            if n in LEAN_TY or n in ("HeContext", "Ciphertext"): return n
            if n == "I" and self.generic: return "I"
            if n == "T": return "stream"
        if t[0] == "selfty": return self.ntp(self.selfty)
        self.fail(f"type {t}")

    def is_nat(self, t): return t in SCALAR or t in ("f64", "Modulus", "SchemeType")

    # ---- serializer dispatch by static type
    def ser_fn(self, kind, t):
        """Lean term of the generated `serialize` / `deserialize` / `serialized_size` function for static type t (without its object argument)"""
        st = "st " if (self.mode == "W" and kind == "serialize") else ""
        if isinstance(t, tuple) and t[0] == "vec":
            inner = self.ser_fn(kind, t[1])
            return f"vec_{kind} {st}{wrap(inner)}"
        if t == "I":
            if not self.generic: self.fail("generic item outside a generic impl")
            return "item'"
        if isinstance(t, tuple) and t[0] == "arr" and t[1] == "u64" and t[2] == self.gen.sizes["ParmsID"] // 8: t = "ParmsID"
        if t == "int": self.fail(f"`{kind}` on an integer literal of unknown type")
        if t not in PREFIX: self.fail(f"`{kind}` on type {t}")
        target = f"{PREFIX[t]}_{kind}"
        if target not in self.gen.done and target != self.name: self.fail(f"`{kind}` of {t} is used before it is generated")
        if kind == "serialized_size" and self.gen.done.get(target, self.mode) not in ("T",): self.fail(f"{target} is not total")
        return f"{target} {st}".strip()

    def csize_fn(self, t, cx):
        """the generated context-dependent `serialized_size` (partial: `R Nat`) for static type t"""
        if isinstance(t, tuple) and t[0] == "vec": return f"cvec_serialized_size {wrap(self.csize_fn(t[1], cx))}"
        if t == "I":
            if not self.generic: self.fail("generic item outside a generic impl")
            return "item'"
        if t not in CTX_PREFIX: self.fail(f"`serialized_size(context)` on type {t}")
        target = f"{CTX_PREFIX[t]}_serialized_size"
        if target not in self.gen.done: self.fail(f"{target} is used before it is generated")
        return f"{target} {cx}"

    def cser_fn(self, t, cx):
        """the generated context-dependent `serialize` for static type t"""
        if isinstance(t, tuple) and t[0] == "vec": return f"cvec_serialize st {wrap(self.cser_fn(t[1], cx))}"
        if t == "I":
            if not self.generic: self.fail("generic item outside a generic impl")
            return "item'"
        if t not in CTX_PREFIX: self.fail(f"`serialize(context, stream)` on type {t}")
        target = f"{CTX_PREFIX[t]}_serialize"
        if target not in self.gen.done: self.fail(f"{target} is used before it is generated")
        return f"{target} st {cx}"

    # ---- expressions (CPS): k(code, type) -> code of the rest
    def ce(self, e, env, k):
        T = self.T; tag = e[0]
        if tag == "num": return k(str(e[1]), e[2] or "int")
        if tag == "bool": return k("true" if e[1] else "false", "bool")
        if tag == "float":
            if e[1] != "1.0": self.fail(f"float literal {e[1]}")
            return k("oneF64", "f64")                      # the IEEE bit pattern of 1.0 (Model/Codec.lean)
        if tag == "vecrep":
            if not (e[1][0] == "num" and e[1][1] == 0 and e[1][2] == "u64"): self.fail("vec![x; n] with x other than 0u64")
            return self.ce(e[2], env, lambda c, t: k(f"(List.replicate {c} 0)", ("vec", "u64")))
        if tag == "paren": return self.ce(e[1], env, lambda c, t: k(c if re.fullmatch(r"[\w.]+", c) else "(" + c + ")", t))
        if tag == "path":
            segs = e[1]
            if segs == ["None"] and "None" not in env: return k("none", ("opt", None))
            if len(segs) == 1:
                if segs[0] not in env: self.fail(f"unknown name `{segs[0]}`")
                return k(*env[segs[0]])
            if segs[-2] == "SchemeType" and segs[-1] in self.gen.scheme: return k(str(self.gen.scheme[segs[-1]]), "SchemeType")
            if segs[-1] == "CIPHERTEXT_SEED_FLAG" and segs[-2] == "text": return k(str(self.gen.seed_flag), "u64")
            self.fail(f"path {'::'.join(segs)}")
        if tag in ("deref", "ref"): return self.ce(e[-1], env, k)
        if tag == "cast":
            tgt = self.rty(e[2])
            def kc(c, t):
                if tgt == "u8":
                    if t in ("u8", "SchemeType"): return k(c, "u8")
                    if t in ("u64", "usize", "int"): return k(f"({c} % 256)", "u8")
                if tgt in ("u64", "usize") and t in ("u8", "u64", "usize", "int"): return k(c, tgt)
                self.fail(f"cast {t} as {tgt}")
            return self.ce(e[1], env, kc)
        if tag == "bin": return self.cbin(e, env, k)
        if tag == "un" and e[1] == "!": return self.ce(e[2], env, lambda c, t: k(f"(!{c})", "bool") if t == "bool" else self.fail("`!` on a non-bool"))
        if tag == "array":
            if all(x[0] == "num" and x[1] == 0 for x in e[1]) and e[1] and e[1][0][2] in ("u8", "u64"):
                return k(f"(List.replicate {len(e[1])} 0)", ("arr", e[1][0][2], len(e[1])))
            if len(e[1]) == 1: return self.ce(e[1][0], env, lambda c, t: k(f"[{c}]", ("arr", t, 1)))
            self.fail("array literal")
        if tag == "if":
            c, a, b = e[1], e[2], e[3]
            if b is None: self.fail("`if` without `else` as a value")
            if not self.effectful(("blockexpr", a)) and not self.effectful(("blockexpr", b)) and not a[0] and not b[0]:
                return self.ce(c, env, lambda cc, ct: self.ce(a[1], env, lambda ca, ta: self.ce(b[1], env,
                    lambda cb, tb: k(f"(if {self.cond(cc, ct)} then {ca} else {cb})", self.join(ta, tb)))))
            return self.ce(c, env, lambda cc, ct:
                f"if {self.cond(cc, ct)} then\n{self.cblock(a, env, None, k)}\nelse\n{self.cblock(b, env, None, k)}")
        if tag == "match": return self.cmatch(e, env, lambda blk, env2: self.cblock_or_expr(blk, env2, k))
        if tag == "blockexpr": return self.cblock(e[1], env, None, k)
        if tag == "try":
            r = self.me(e[1], env)
            def kt(mc, mt):
                v = self.fresh()
                return self.bind(mc, v, k(v, mt))
            return r(kt)
        if tag == "index" and e[2][0] == "range":
            lo, hi, incl = e[2][1], e[2][2], e[2][3]
            if incl or hi is None: self.fail("slice range form")
            def ksl(cb, tb):
                if not (isinstance(tb, tuple) and tb[0] == "vec"): self.fail("slicing a non-vector")
                def kh(ch, th):
                    if lo is None:
                        return f"if {ch} ≤ {cb}.length then\n" + k(f"({cb}.take {ch})", tb) + f"\nelse {self.panic()}"
                    return self.ce(lo, env, lambda cl, tl: f"if {cl} ≤ {ch} ∧ {ch} ≤ {cb}.length then\n" + k(f"(({cb}.drop {cl}).take ({ch} - {cl}))", tb) + f"\nelse {self.panic()}")
                return self.ce(hi, env, kh)
            return self.ce(e[1], env, ksl)
        if tag == "index":
            def ki(cb, tb):
                def kj(ci, ti):
                    if isinstance(tb, tuple) and tb[0] in ("arr", "bytes") and e[2][0] == "num" and e[2][1] < tb[2]:
                        return k(f"({cb}.getD {ci} 0)", tb[1] if tb[0] == "arr" else "u8")
                    if isinstance(tb, tuple) and tb[0] in ("vec", "arr") and self.mode in ("P", "W", "R") and self.is_nat(tb[1]):
                        v = self.fresh()
                        return self.bind(f"pidx {cb} {ci}" if self.mode == "P" else f"{self.m}lift (pidx {cb} {ci})", v, k(v, tb[1]))
                    self.fail(f"indexing a value of type {tb} (mode {self.mode})")
                return self.ce(e[2], env, kj)
            return self.ce(e[1], env, ki)
        if tag in ("call", "gcall"): return self.ccall(e, env, k)
        if tag == "mcall": return self.cmcall(e, env, k)
        self.fail(f"expression node `{tag}`")

    def cond(self, c, t):
        if t != "bool": self.fail("condition is not a bool")
        return c

    def join(self, a, b):
        if a == b: return a
        if a == "int": return b
        if b == "int": return a
        if isinstance(a, tuple) and isinstance(b, tuple) and a[0] == b[0] == "opt":
            return ("opt", a[1] if a[1] is not None else b[1])
        self.fail(f"branches of different types {a} / {b}")

    def effectful(self, x):
        """does the syntax tree contain `?`, a monadic call, `unwrap`, a partial operation?"""
        if isinstance(x, tuple):
            if x and x[0] == "try": return True
            if x and x[0] == "mcall" and x[2] in ("unwrap", "contains_seed", "expand_seed"): return True
            if x and x[0] == "bin" and x[1] == "-": return True
            if x and x[0] in ("call",) and x[1][-1] in ("Err", "Ok"): return True
            if x and x[0] == "call" and self.gen.done.get(x[1][-1]) == "P": return True
            if x and x[0] in ("assert", "panic"): return True
            return any(self.effectful(y) for y in x)
        if isinstance(x, list): return any(self.effectful(y) for y in x)
        return False

    def cbin(self, e, env, k):
        op, l, r = e[1], e[2], e[3]
        def kl(cl, tl):
            def kr(cr, tr):
                nat = self.is_nat(tl) and self.is_nat(tr)
                if op in ("+", "*") and nat: return k(f"({cl} {op} {cr})", self.join_nat(tl, tr))
                if op in ("/", "%") and nat:
                    if not (r[0] == "num" and r[1] > 0): self.fail(f"`{op}` by something that is not a non-zero literal")
                    return k(f"({cl} {op} {cr})", self.join_nat(tl, tr))
                if op == "-" and nat:
                    if self.mode != "P": self.fail("`-` outside a partial (P) function")
                    v = self.fresh()
                    return self.bind(f"ckSub {cl} {cr}", v, k(v, self.join_nat(tl, tr)))
                if op == "&" and nat: return k(f"({cl} &&& {cr})", self.join_nat(tl, tr))
                if op == "|" and nat: return k(f"({cl} ||| {cr})", self.join_nat(tl, tr))
                if op == ">>" and nat:
                    if not (r[0] == "num" and r[1] < 64): self.fail("`>>` by a non-literal amount")
                    return k(f"({cl} >>> {cr})", tl)
                if op == "<<" and nat:
                    if tl != "u64": self.fail("`<<` on a type other than u64")
                    # overflow-checked shift: an amount >= 64 panics; the result is truncated to 64 bits
                    return f"if {cr} < 64 then\n" + k(f"(({cl} <<< {cr}) % 18446744073709551616)", "u64") + f"\nelse {self.panic()}"
                if op in ("==", "!=") and (nat or tl == tr):
                    return k(f"({cl} {'==' if op == '==' else '!='} {cr})", "bool")
                if op in ("<", "<=", ">", ">=") and nat: return k(f"(decide ({cl} {op.replace('<=', '≤').replace('>=', '≥')} {cr}))", "bool")
                if op in ("&&", "||") and tl == tr == "bool":
                    if self.effectful(r): self.fail("short-circuit operator with an effectful right operand")
                    return k(f"({cl} {op} {cr})", "bool")
                self.fail(f"operator `{op}` on {tl} / {tr}")
            return self.ce(r, env, kr)
        return self.ce(l, env, kl)

    def join_nat(self, a, b):
        if a == "int": return b
        if b == "int" or a == b: return a
        self.fail(f"arithmetic on different integer types {a} / {b}")

    def args(self, es, env, k, acc=None):
        acc = acc or []
        if not es: return k(acc)
        return self.ce(es[0], env, lambda c, t: self.args(es[1:], env, k, acc + [(c, t)]))

    def size_of(self, ty):
        n = ty[1] if ty[0] == "name" else None
        if n in self.gen.sizes: return self.gen.sizes[n]
        self.fail(f"size_of::<{ty}>")

    def ccall(self, e, env, k):
        if e[0] == "gcall":
            segs, targs, args = e[1], e[2], e[3]
            if segs[-1] == "size_of" and not args and len(targs) == 1 and targs[0][0] == len(segs):
                return k(str(self.size_of(targs[0][1][0])), "usize")
            self.fail(f"call {'::'.join(segs)}::<..>")
        segs, args = e[1], e[2]
        fn = segs[-1]
        if fn == "Some" and len(segs) == 1 and len(args) == 1: return self.ce(args[0], env, lambda c, t: k(f"(some {c})", ("opt", t)))
        if len(segs) >= 2 and (segs[-2], fn, len(args)) in STATICS:
            rt, tpl, guard = STATICS[(segs[-2], fn, len(args))]
            return self.args(args, env, lambda cs: k(tpl.format("", *[c for c, _ in cs]), rt))
        if segs[-2:] == ["SchemeType", "from"] and len(args) == 1:
            # `impl From<u8> for SchemeType`: the listed literals, anything else panics (arms read from the source by Gen.read_enums)
            def kf(c, t):
                if t != "u8": self.fail("SchemeType::from on a non-u8")
                g = " || ".join(f"{c} == {v}" for v in sorted(self.gen.scheme.values()))
                return f"if {g} then\n{k(c, 'SchemeType')}\nelse {self.panic()}"
            return self.ce(args[0], env, kf)
        if segs[-2:] == ["Ciphertext", "from_members"] and len(args) == 8:
            return self.args(args, env, lambda cs: k("(CtFlat.mk " + " ".join(c for c, _ in cs) + ")", "CtFlat"))
        if fn == "with_capacity" and segs[-2:] == ["Vec", "with_capacity"]:
            return self.ce(args[0], env, lambda c, t: k("[]", ["vec", None]))
        if self.mode == "P" and len(segs) <= 2 and (fn in EXTERN_P or self.gen.done.get(fn) == "P"):
            ln_, rt_ = EXTERN_P[fn] if fn in EXTERN_P else (fn, self.gen.rets[fn])
            def kp(cs):
                v = self.fresh()
                return self.bind(f"{ln_} {' '.join(c for c, _ in cs)}", v, k(v, rt_))
            return self.args(args, env, kp)
        if fn in self.gen.done and len(segs) <= 2 and self.gen.done[fn] == "T":
            return self.args(args, env, lambda cs: k(f"({fn} {' '.join(c for c, _ in cs)})", self.gen.rets[fn]))
        self.fail(f"call {'::'.join(segs)} in value position")

    def cmcall(self, e, env, k):
        recv, m, args = e[1], e[2], e[3]
        if m == "map" and recv[0] == "mcall" and recv[2] == "iter" and len(args) == 1 and args[0][0] == "closure":
            return self.cmap(recv[1], args[0], env, k)
        if m == "collect" and not args: return self.ce(recv, env, k)
        def kr(c, t):
            if m == "serialized_size" and len(args) == 1 and args[0][0] == "path" and len(args[0][1]) == 1 \
                    and env.get(args[0][1][0], (None, None))[1] == "HeContext":
                if self.mode != "P": self.fail("context-dependent serialized_size outside a P function")
                v = self.fresh()
                return self.bind(f"{self.csize_fn(t, env[args[0][1][0]][0])} {c}", v, k(v, "usize"))
            if m == "serialized_size" and not args: return k(f"({self.ser_fn('serialized_size', t)} {c})", "usize")
            if m == "len" and not args and isinstance(t, (tuple, list)) and t[0] in ("vec", "arr"): return k(f"{c}.length", "usize")
            if m == "to_le_bytes" and not args and t in ("u64", "usize"): return k(f"(leBytes {self.gen.sizes[t]} {c})", ("bytes", None, self.gen.sizes[t]))
            if m == "unwrap" and not args and isinstance(t, tuple) and t[0] == "opt":
                v = self.fresh()
                return f"(match {c} with\n| some {v} => (\n{k(v, t[1])})\n| none => {self.panic()})"
            if m == "iter" and not args: return k(c, t)
            if m == "unwrap_or" and len(args) == 1 and isinstance(t, tuple) and t[0] == "opt":
                return self.ce(args[0], env, lambda cd, td: k(f"({c}.getD {cd})", t[1]))
            if t == "CtFlat" and m == "contains_seed" and not args:
                v = self.fresh()
                return f"(match ctfContainsSeed {c} with\n| some {v} => (\n{k(v, 'bool')})\n| none => {self.panic()})"
            if t == "CtFlat" and m == "expand_seed" and len(args) == 1 and self.ent.get("expand"):
                v = self.fresh()
                return self.ce(args[0], env, lambda cc, tc: f"(match ctfExpandSeed expand {cc} {c} with\n| some {v} => (\n{k(v, 'CtFlat')})\n| none => {self.panic()})")
            if (t, m, len(args)) in ACCESSORS:
                rt, tpl = ACCESSORS[(t, m, len(args))]
                return self.args(args, env, lambda cs: k(tpl.format(c, *[x for x, _ in cs]), self.ntp(rt)))
            if (t, m) in MUTATORS and len(args) == 1:
                tpl, guard = MUTATORS[(t, m)]
                def ka(cs):
                    new = tpl.format(c, cs[0][0]); v = self.fresh()
                    body = self.let(v, new, k(v, t))
                    if guard: return f"if {guard.format(c, cs[0][0])} then\n{body}\nelse {self.panic()}"
                    return body
                return self.args(args, env, ka)
            self.fail(f"method `{m}` on type {t}")
        return self.ce(recv, env, kr)

    def cmap(self, src, clo, env, k):
        params, body = clo[1], clo[2]
        if len(params) != 1 or not isinstance(params[0][0], str) or body[0]: self.fail("closure form in `.map`")
        x = params[0][0]
        def ks(c, t):
            if not (isinstance(t, tuple) and t[0] == "vec"): self.fail("`.iter().map` on a non-vector")
            env2 = dict(env); env2[x] = (self.lname(x), t[1])
            res = {}
            def kb(cb, tb): res["t"] = tb; return self.pure(cb)
            outer = (self.mode, self.m)
            if self.mode in ("W", "R"): self.mode, self.m = "P", "p"        # the closure is a partial PURE computation; its failure is a panic
            try: inner = self.ce(body[1], env2, kb)
            finally: self.mode, self.m = outer
            if self.mode == "T": return k(f"(List.map (fun {self.lname(x)} => {inner}) {c})", ("vec", res["t"]))
            if self.mode not in ("P", "W", "R"): self.fail("`.map` with effects in a total function")
            v = self.fresh()
            call = f"pmapM (fun {self.lname(x)} =>\n{inner}) {c}"
            return self.bind(call if self.mode == "P" else f"{self.m}lift ({call})", v, k(v, ("vec", res["t"])))
        return self.ce(src, env, ks)

    # ---- monadic calls: returns a function taking k(monadic code, result type)
    def me(self, e, env):
        if e[0] == "mcall":
            recv, m, args = e[1], e[2], e[3]
            if recv == ("path", ["stream"]) and self.mode == "W" and m in ("write_all", "write") and len(args) == 1:
                def run(k):
                    def kb(c, t):
                        if not (isinstance(t, tuple) and (t[0] == "bytes" or (t[0] == "arr" and t[1] == "u8"))): self.fail(f"stream.{m} of a non-byte buffer ({t})")
                        return k(f"wio (st.{'writeAll' if m == 'write_all' else 'write'} {c})", "unit" if m == "write_all" else "usize")
                    return self.ce(args[0], env, kb)
                return run
            if m == "serialize" and self.mode == "W" and len(args) == 2 and args[1] == ("path", ["stream"]) and args[0][0] == "path" \
                    and len(args[0][1]) == 1 and env.get(args[0][1][0], (None, None))[1] == "HeContext":
                cx = env[args[0][1][0]][0]
                return lambda k: self.ce(recv, env, lambda c, t: k(f"{self.cser_fn(t, cx)} {c}", "usize"))
            if m == "serialize" and self.mode == "W" and args == [("path", ["stream"])]:
                return lambda k: self.ce(recv, env, lambda c, t: k(f"{self.ser_fn('serialize', t)} {c}", "usize"))
        if e[0] in ("call", "gcall"):
            segs = e[1]; args = e[-1]; fn = segs[-1]
            if fn == "deserialize" and self.mode == "R" and args == [("path", ["stream"])]:
                if e[0] == "gcall":
                    if not (segs[:-1] == ["Vec"] and len(e[2]) == 1 and e[2][0][0] == 1 and len(e[2][0][1]) == 1): self.fail("turbofish deserialize")
                    t = ("vec", self.rty(e[2][0][1][0]))
                else: t = self.rty(("name", segs[-2]))
                return lambda k: k(self.ser_fn("deserialize", t), t)
            if e[0] == "call" and fn in self.gen.done and self.gen.done[fn] == self.mode and self.mode != "T":
                sargs = [a for a in args if a != ("path", ["stream"])]
                if (len(sargs) != len(args)) != (self.mode in ("W", "R")): self.fail(f"stream argument of `{fn}`")
                pre = "st " if self.mode == "W" else ""
                return lambda k: self.args(sargs, env, lambda cs: k(f"{fn} {pre}{' '.join(c for c, _ in cs)}", self.gen.rets[fn]))
        self.fail(f"not a recognised effectful call: {e[0]} {e[1] if e[0] != 'mcall' else e[2]}")

    # ---- match on SchemeType
    def cmatch(self, e, env, karm):
        scrut, arms = e[1], e[2]
        def ks(c, t):
            if t != "SchemeType": self.fail("`match` on something that is not a SchemeType")
            out = ""; closed = False
            for pats, body in arms:
                if closed: self.fail("match arm after `_`")
                blk = body[1] if body[0] == "blockexpr" else ([], body)
                if any(p[0] == "wild" for p in pats):
                    out += karm(blk, env); closed = True
                else:
                    cs = []
                    for p in pats:
                        if not (p[0] == "path" and len(p[1]) == 2 and p[1][0] == "SchemeType" and p[1][1] in self.gen.scheme): self.fail(f"match pattern {p}")
                        cs.append(f"{c} == {self.gen.scheme[p[1][1]]}")
                    out += f"if {' || '.join(cs)} then\n{karm(blk, env)}\nelse "
            if not closed: self.fail("match without a final `_` arm")
            return out
        return self.ce(scrut, env, ks)

    def cblock_or_expr(self, blk, env, k):
        return self.cblock(blk, env, None, k)

    # ---- blocks: `kend(env)` = code when the block ends without a value; `kval(code, type)` = what to do with the block's value
    def cblock(self, blk, env, kend, kval=None):
        stmts, tail = blk
        return self.cs(list(stmts), tail, dict(env), kend, kval)

    def cs(self, stmts, tail, env, kend, kval):
        if not stmts:
            if tail is not None:
                if kval is None: self.fail("block value where none is expected")
                if tail[0] in ("match", "if") and kval == "TAIL": return self.ctail(tail, env)
                if kval == "TAIL": return self.ctail(tail, env)
                return self.ce(tail, env, kval)
            if kval == "TAIL": self.fail("function body ends without a value")
            if kend is None:
                if kval is not None: return kval("()", "unit")
                self.fail("block ends without a value")
            return kend(env)
        s = stmts[0]; rest = lambda env2: self.cs(stmts[1:], tail, env2, kend, kval)
        tag = s[0]; ln = s[-1] if isinstance(s[-1], int) else None
        if tag == "let" and isinstance(s[1], str) and s[4] is not None and s[4][0] == "ref" and s[4][1] and s[4][2][0] == "index" \
                and s[4][2][1][0] == "path" and len(s[4][2][1][1]) == 1 and s[4][2][2][0] == "range":
            # a mutable WINDOW `let w = &mut v[lo..hi];`: value semantics = copy out (bounds-checked), work on the copy, write back when the
            # enclosing block ends (`w` is not used after it; `v` is not touched while `w` lives: the borrow checker guarantees both)
            x = s[4][2][1][1][0]; rng = s[4][2][2]
            if x not in env or rng[1] is None or rng[2] is None or rng[3]: self.fail("window form", ln)
            if kend is None or self.mode != "R": self.fail("a mutable window outside a reader's loop / branch body", ln)
            cx, tx_ = env[x]
            if not (isinstance(tx_, tuple) and tx_[0] == "vec" and self.is_nat(tx_[1])): self.fail("window of a non-vector", ln)
            w = self.lname(s[1]); self.nwin = getattr(self, "nwin", 0) + 1; lo_, hi_ = f"wlo{self.nwin}", f"whi{self.nwin}"
            def klo(cl, tl):
                def khi(ch, th):
                    env2 = dict(env); env2[s[1]] = (w, tx_)
                    def kend2(env3):
                        env4 = dict(env3); env4.pop(s[1], None)
                        return self.let(cx, f"{cx}.take {lo_} ++ {env3[s[1]][0]} ++ {cx}.drop {hi_}", kend(env4))
                    body = self.cs(stmts[1:], tail, env2, kend2, kval)
                    return self.let(lo_, cl, self.let(hi_, ch, f"if {lo_} ≤ {hi_} ∧ {hi_} ≤ {cx}.length then\n" +
                                    self.let(w, f"({cx}.drop {lo_}).take ({hi_} - {lo_})", body) + f"\nelse {self.panic()}"))
                return self.ce(rng[2], env, khi)
            return self.ce(rng[1], env, klo)
        if tag == "let":
            _, pat, mut, ty, init, _ln = s
            if not isinstance(pat, str) or init is None: self.fail("`let` form", ln)
            def kl(c, t):
                if ty is not None: t = self.rty(ty) if t == "int" else t
                env2 = dict(env); n = self.lname(pat); env2[pat] = (n, t)
                if c == n: return rest(env2)
                return self.let(n, c, rest(env2))
            return self.ce(init, env, kl)
        if tag == "assign":
            _, lhs, op, rhs, _ln = s
            if lhs[0] == "deref" and lhs[1][0] == "mcall" and lhs[1][2] == "data_mut" and op is None and lhs[1][1][0] == "path":
                x = lhs[1][1][1][0]; c0, t0 = env[x]
                if (t0, "data_mut=") not in MUTATORS: self.fail("`*x.data_mut() = ..`", ln)
                def ka(c, t):
                    env2 = dict(env); env2[x] = (c0, t0)
                    return self.let(c0, MUTATORS[(t0, "data_mut=")][0].format(c0, c), rest(env2))
                return self.ce(rhs, env, ka)
            if lhs[0] == "index" and lhs[1][0] == "path" and len(lhs[1][1]) == 1 and lhs[1][1][0] in env and op is None and lhs[2][0] != "range":
                x = lhs[1][1][0]; c0, t0 = env[x]
                if not (isinstance(t0, tuple) and t0[0] == "vec" and self.is_nat(t0[1])): self.fail("indexed store into a non-vector", ln)
                if self.mode == "T": self.fail("indexed store in a total function", ln)
                # the index is evaluated, then the right-hand side, then the bounds check of the store
                return self.ce(lhs[2], env, lambda ci, ti: self.ce(rhs, env, lambda c, t:
                    f"if {ci} < {c0}.length then\n" + self.let(c0, f"{c0}.set {ci} {c}", rest(env)) + f"\nelse {self.panic()}"))
            if lhs[0] != "path" or len(lhs[1]) != 1 or lhs[1][0] not in env: self.fail("assignment target", ln)
            x = lhs[1][0]; c0, t0 = env[x]
            def ka(c, t):
                if op is None: new = c
                elif op == "+" and self.is_nat(t0): new = f"{c0} + {c}"
                elif op == ">>" and self.is_nat(t0) and rhs[0] == "num" and rhs[1] < 64: new = f"{c0} >>> {c}"
                elif op == "|" and self.is_nat(t0): new = f"{c0} ||| {c}"
                else: self.fail(f"compound assignment `{op}=`", ln)
                env2 = dict(env); env2[x] = (c0, self.join_nat(t0, t) if self.is_nat(t0) and self.is_nat(t) else t0)
                return self.let(c0, new, rest(env2))
            return self.ce(rhs, env, ka)
        if tag == "expr":
            e = s[1]
            if e[0] == "try" and e[1][0] == "mcall" and e[1][2] == "read_exact" and e[1][1] == ("path", ["stream"]) and self.mode == "R":
                a = e[1][3]
                if len(a) != 1 or a[0][0] != "ref" or not a[0][1] or a[0][2][0] != "path": self.fail("read_exact argument", ln)
                x = a[0][2][1][0]; c0, t0 = env.get(x, (None, None))
                if not (isinstance(t0, tuple) and t0[0] == "arr" and t0[1] == "u8"): self.fail("read_exact into something that is not a `[0u8; n]` local", ln)
                env2 = dict(env); env2[x] = (c0, ("bytes", None, t0[2]))
                return self.bind(f"rreadExact .{self.ent['kind']} {t0[2]}", c0, rest(env2))
            if e[0] == "assert":
                if self.mode == "T": self.fail("assert in a total function", ln)
                return self.ce(e[1], env, lambda c, t: f"if {self.cond(c, t)} then\n{rest(env)}\nelse {self.panic()}")
            if e[0] == "mcall" and e[2] == "push" and e[1][0] == "path" and len(e[3]) == 1:
                x = e[1][1][0]; c0, t0 = env[x]
                def kp(c, t):
                    if not (isinstance(t0, (tuple, list)) and t0[0] == "vec"): self.fail("push on a non-vector", ln)
                    if t0[1] is None: t0[1] = t
                    elif t0[1] != t: self.fail("push of a different element type", ln)
                    return self.let(c0, f"{c0} ++ [{c}]", rest(env))
                return self.ce(e[3][0], env, kp)
            if e[0] == "mcall" and e[1][0] == "path" and len(e[1][1]) == 1 and e[1][1][0] in env and (env[e[1][1][0]][1], e[2]) in MUTATORS:
                x = e[1][1][0]; c0, t0 = env[x]
                def km(c, t): return self.let(c0, c, rest(env)) if c != c0 else rest(env)
                return self.cmcall(e, env, km)
            if e[0] in ("match", "if"):
                # a branching STATEMENT: the continuation is duplicated into every branch (variables re-bound in a branch stay re-bound)
                def branch(blk, env2):
                    if blk[1] is not None and blk[1][0] not in ("match", "if"): self.fail("value of a branch is discarded", ln)
                    st = list(blk[0]) + ([("expr", blk[1])] if blk[1] is not None else [])
                    return self.cs(st, None, dict(env2), lambda env3: self.cs(stmts[1:], tail, self.merge(env, env3), kend, kval), None)
                arms = [b for _, b in e[2]] if e[0] == "match" else [("blockexpr", e[2])] + ([("blockexpr", e[3])] if e[3] is not None else [])
                if not any(self.effectful(a) or self.has_return(a) for a in arms):
                    # no effects, no escape: the statement only re-binds variables -> ONE conditional VALUE (the tuple of those variables)
                    asg = self.assigned(arms, set())
                    state = [x for x in env if x in asg]
                    tup = lambda e3: "(" + ", ".join(e3[x][0] for x in state) + ")" if len(state) != 1 else e3[state[0]][0]
                    def vbranch(blk, env2):
                        if blk[1] is not None: self.fail("value of a branch is discarded", ln)
                        return self.cs(list(blk[0]), None, dict(env2), lambda env3: tup(env3), None)
                    if not state: return rest(env)
                    if e[0] == "match": val = self.cmatch(e, env, vbranch)
                    else: val = self.ce(e[1], env, lambda c, t: f"if {self.cond(c, t)} then\n{vbranch(e[2], env)}\nelse\n{vbranch(e[3], env) if e[3] is not None else tup(env)}")
                    pat = tup(env) if len(state) == 1 else "⟨" + ", ".join(env[x][0] for x in state) + "⟩"
                    return f"let {pat} := (\n{indent(val, 2)});\n{rest(env)}"
                if e[0] == "match": return self.cmatch(e, env, branch)
                els = branch(e[3], env) if e[3] is not None else rest(env)
                return self.ce(e[1], env, lambda c, t: f"if {self.cond(c, t)} then\n{branch(e[2], env)}\nelse\n{els}")
            if e[0] == "try":
                return self.ce(e, env, lambda c, t: rest(env))
            self.fail(f"expression statement `{e[0]}`", ln)
        if tag == "for": return self.cfor(s, env, rest)
        if tag == "return":
            if s[1] is None: self.fail("bare return", ln)
            return self.ctail(s[1], env)
        self.fail(f"statement `{tag}`", ln)

    def has_return(self, x):
        if isinstance(x, tuple):
            if x and x[0] in ("return", "break"): return True
            return any(self.has_return(y) for y in x)
        if isinstance(x, list): return any(self.has_return(y) for y in x)
        return False

    def merge(self, outer, inner):
        """environment after a branch: the outer names with the branch's (possibly re-bound) entries"""
        return {n: inner.get(n, v) for n, v in outer.items()}

    # ---- function result (`Result<..>` in W / R mode, a plain value in T / P mode)
    def ctail(self, e, env):
        if self.mode in ("T", "P"):
            if e[0] == "match": return self.cmatch(e, env, lambda blk, env2: self.cs(list(blk[0]), blk[1], dict(env2), None, "TAIL"))
            return self.ce(e, env, lambda c, t: self.pure(c))
        if e[0] == "call" and e[1] == ["Ok"] and len(e[2]) == 1: return self.ce(e[2][0], env, lambda c, t: self.pure(c))
        if e[0] == "call" and e[1] == ["Err"]:
            if self.mode == "R": return "rfail .bad"
            return "winvalid"
        if e[0] == "match": return self.cmatch(e, env, lambda blk, env2: self.cs(list(blk[0]), blk[1], dict(env2), None, "TAIL"))
        if e[0] == "if":
            if e[3] is None: self.fail("`if` without else as the result")
            return self.ce(e[1], env, lambda c, t: f"if {self.cond(c, t)} then\n{self.cs(list(e[2][0]), e[2][1], dict(env), None, 'TAIL')}\nelse\n{self.cs(list(e[3][0]), e[3][1], dict(env), None, 'TAIL')}")
        return self.me(e, env)(lambda mc, mt: mc)

    # ---- loops
    def assigned(self, x, acc):
        if isinstance(x, tuple):
            if x and x[0] == "assign" and x[1][0] == "path": acc.add(x[1][1][0])
            if x and x[0] == "assign" and x[1][0] == "index" and x[1][1][0] == "path": acc.add(x[1][1][1][0])
            if x and x[0] == "mcall" and x[2] == "push" and x[1][0] == "path": acc.add(x[1][1][0])
            if x and x[0] == "let" and isinstance(x[4], tuple) and x[4] and x[4][0] == "ref" and x[4][1] and x[4][2][0] == "index" and x[4][2][1][0] == "path":
                acc.add(x[4][2][1][1][0])                               # `let w = &mut v[..]`: v is written back
            if x and x[0] == "for":
                it_ = x[2]
                while it_[0] == "mcall" and it_[2] in ("enumerate", "chunks_mut", "iter_mut"): it_ = it_[1]
                if x[2][0] == "mcall" and x[2][2] in ("enumerate", "iter_mut"):
                    if it_[0] == "index": it_ = it_[1]
                    if it_[0] == "path": acc.add(it_[1][0])              # `for .. in v.iter_mut()` / `v[a..b].iter_mut()` / `v.chunks_mut(n).enumerate()`
                if x[2][0] == "ref" and x[2][1] and x[2][2][0] == "path": acc.add(x[2][2][1][0])
            for y in x: self.assigned(y, acc)
        elif isinstance(x, list):
            for y in x: self.assigned(y, acc)
        return acc

    def names(self, x, acc):
        if isinstance(x, tuple):
            if x and x[0] == "path" and len(x[1]) == 1: acc.add(x[1][0])
            for y in x: self.names(y, acc)
        elif isinstance(x, list):
            for y in x: self.names(y, acc)
        return acc

    def cfor(self, s, env, rest):
        _, v, it, body, ln = s
        if isinstance(v, tuple) and v[0] == "tuplepat" and len(v[1]) == 2 and it[0] == "mcall" and it[2] == "enumerate" and not it[3] \
                and it[1][0] == "mcall" and it[1][2] == "chunks_mut" and len(it[1][3]) == 1 and it[1][1][0] == "path" and len(it[1][1][1]) == 1:
            # `for (j, c) in p.chunks_mut(n).enumerate() { .. }`: the body may only change the chunk `c` (and read the stream)
            if self.mode != "R": self.fail("chunks_mut loop outside a reader", ln)
            jn, cn = v[1]; pv = it[1][1][1][0]; cp, tp = env[pv]
            if not (isinstance(tp, tuple) and tp[0] == "vec" and self.is_nat(tp[1])): self.fail("chunks_mut of a non-vector", ln)
            bad = [x for x in self.assigned(body, set()) if x in env]
            if bad: self.fail(f"chunks_mut loop body assigns {bad}", ln)
            def kn_(cnn, tnn):
                env2 = dict(env); env2[jn] = (self.lname(jn), "usize"); env2[cn] = (self.lname(cn), tp)
                inner = self.cblock(body, env2, lambda env3: self.pure(env3[cn][0]), None)
                return f"if {cnn} = 0 then {self.panic()} else\n" + self.bind(
                    f"rchunksM {cnn} (fun {self.lname(jn)} {self.lname(cn)} =>\n{inner}) {cp}.length 0 {cp}", cp, rest(env))
            return self.ce(it[1][3][0], env, kn_)
        if not isinstance(v, str): self.fail("tuple pattern in `for`", ln)
        # fill form: `for x in &mut A { *x = E; }` / `for x in A.iter_mut() { *x = E; }`
        fill = None
        if it[0] == "ref" and it[1] and it[2][0] == "path": fill = it[2][1][0]
        if it[0] == "mcall" and it[2] == "iter_mut" and it[1][0] == "path": fill = it[1][1][0]
        if it[0] == "mcall" and it[2] == "iter_mut" and it[1][0] == "index" and it[1][1][0] == "path" and it[1][2][0] == "range" \
                and it[1][2][1] is not None and it[1][2][2] is not None and not it[1][2][3] and self.mode == "R":
            # `for x in p[lo..hi].iter_mut() { *x = e; }`: fill a bounds-checked slice of p, write it back
            st, tl = body; pv = it[1][1][1][0]; cp, tp = env[pv]
            if not (len(st) == 1 and tl is None and st[0][0] == "assign" and st[0][1] == ("deref", ("path", [v])) and st[0][2] is None):
                self.fail("`for x in p[a..b].iter_mut()` with a body other than `*x = e;`", ln)
            if not (isinstance(tp, tuple) and tp[0] == "vec" and self.is_nat(tp[1])): self.fail("slice fill of a non-vector", ln)
            env2 = dict(env); env2[v] = (self.lname(v), tp[1])
            inner = self.ce(st[0][3], env2, lambda c, t: self.pure(c))
            self.nwin = getattr(self, "nwin", 0) + 1; lo_, hi_ = f"wlo{self.nwin}", f"whi{self.nwin}"
            return self.ce(it[1][2][1], env, lambda cl, tl_: self.ce(it[1][2][2], env, lambda ch, th_:
                self.let(lo_, cl, self.let(hi_, ch, f"if {lo_} ≤ {hi_} ∧ {hi_} ≤ {cp}.length then\n" +
                    self.bind(f"rfill (fun {self.lname(v)} =>\n{inner}) (({cp}.drop {lo_}).take ({hi_} - {lo_}))", "w_",
                              self.let(cp, f"{cp}.take {lo_} ++ w_ ++ {cp}.drop {hi_}", rest(env))) + f"\nelse {self.panic()}"))))
        if fill is not None:
            st, tl = body
            if not (len(st) == 1 and tl is None and st[0][0] == "assign" and st[0][1] == ("deref", ("path", [v])) and st[0][2] is None):
                self.fail("`for x in &mut a` with a body other than `*x = e;`", ln)
            if self.mode != "R": self.fail("fill loop outside a reader", ln)
            c0, t0 = env[fill]
            if not (isinstance(t0, tuple) and t0[0] in ("arr", "vec") and self.is_nat(t0[1])): self.fail("fill loop over a non-integer array", ln)
            env2 = dict(env); env2[v] = (self.lname(v), t0[1])
            inner = self.ce(st[0][3], env2, lambda c, t: self.pure(c))
            return self.bind(f"rfill (fun {self.lname(v)} =>\n{inner}) {c0}", c0, rest(env))
        # general form: recursion over the list of iterated values
        if it[0] == "range":
            if it[3] or it[1] is None or it[2] is None: self.fail("range form", ln)
            elty = "usize"
            def with_list(k): return self.ce(it[1], env, lambda cl, tl: self.ce(it[2], env, lambda ch, th: k(f"(List.range' {cl} ({ch} - {cl}))")))
        else:
            holder = {}
            def with_list(k):
                def kk(c, t):
                    if not (isinstance(t, (tuple, list)) and t[0] in ("vec", "arr")): self.fail(f"`for` over a value of type {t}", ln)
                    holder["t"] = t[1]; return k(c)
                return self.ce(it, env, kk)
        def go(lst):
            elt = elty if it[0] == "range" else holder["t"]
            # in DECLARATION order (not by name: renaming a local must not permute the helper's arguments)
            asg = self.assigned(body, set()); nms = self.names(body, set())
            state = [x for x in env if x in asg]
            used = [x for x in env if x in nms and x not in state and env[x][1] != "stream"
                    and not (env[x][1] == "HeContext" and self.ent.get("drop_ctx"))]
            lname = "@LOOP@"
            env2 = dict(env)
            if v != "_": env2[v] = (self.lname(v), elt)
            rec = lambda env3: f"{lname} {self.ctx_args()} {' '.join(env[x][0] for x in used)} rest_ {' '.join(env3[x][0] for x in state)}".replace("  ", " ")
            bcode = self.cblock(body, env2, rec, None)
            tup = lambda e: (", ".join(e[x][0] for x in state) if len(state) != 1 else e[state[0]][0]) if state else "()"
            sty = " × ".join(wrap(lty(env[x][1])) for x in state) if state else "Unit"
            hd = "_" if v == "_" else self.lname(v)
            sig = f"def {lname} {self.ctx_binders()} " + " ".join(f"({env[x][0]} : {lty(env[x][1])})" for x in used)
            sig += f" : List {wrap(lty(elt))} → " + "".join(f"{wrap(lty(env[x][1]))} → " for x in state) + self.mty_raw(sty)
            pats = "".join(f", {env[x][0]}" for x in state)
            text = f"{sig}\n  | []{pats} => {self.pure('(' + tup(env) + ')')}\n  | {hd} :: rest_{pats} =>\n{indent(bcode, 4)}"
            order = []                                      # the helper's own temporaries, renumbered by first occurrence (u1, u2, ..)
            for m_ in re.finditer(r"\b(?:t|wlo|whi)\d+\b", text):
                if m_.group() not in order: order.append(m_.group())
            pref = lambda nm: re.match(r"[a-z]+", nm).group()
            num = lambda nm: [x for x in order if pref(x) == pref(nm)].index(nm) + 1
            text = re.sub(r"\b(?:t|wlo|whi)\d+\b", lambda m_: ("u%d" if pref(m_.group()) == "t" else pref(m_.group()) + "_%d") % num(m_.group()), text)
            if text in self.loops: real = self.loops[text]          # the same loop again (duplicated continuation): one definition
            else:
                self.nloop += 1; real = f"{self.name}_loop{self.nloop}"; self.loops[text] = real
                self.aux.append(text.replace("@LOOP@", real))
            lname = real
            res = "(" + tup(env) + ")" if len(state) != 1 else env[state[0]][0]
            if not state: res = "_"
            call = f"{lname} {self.ctx_args()} {' '.join(env[x][0] for x in used)} {lst} {' '.join(env[x][0] for x in state)}".replace("  ", " ")
            if len(state) > 1: res = "⟨" + ", ".join(env[x][0] for x in state) + "⟩"
            return self.bind(call, res, rest(env))
        return with_list(go)

    def mty_raw(self, s):
        if self.mode == "W": return "W S E " + wrap(s)
        if self.mode == "R": return "Rd " + wrap(s)
        if self.mode == "P": return "R " + wrap(s)
        return s

    # ---- whole function
    def run(self):
        fn = self.fn; env = {}; binders = []
        for pn, pt, mut in fn["params"]:
            if pn == "self":
                env["self"] = ("self_", self.ntp(self.selfty)); binders.append(f"(self_ : {lty(self.selfty)})"); continue
            t = self.rty(pt)
            if t == "stream": env[pn] = ("st", "stream"); continue
            if t == "HeContext":
                env[pn] = ("ctx", "HeContext")
                if not self.ent.get("drop_ctx"): binders.append("(ctx : Ctx)")
                continue
            env[pn] = (self.lname(pn), t); binders.append(f"({self.lname(pn)} : {lty(t)})")
        if self.ent.get("ctx_first"): binders.sort(key=lambda b: 0 if b.startswith("(ctx") else 1)
        ret = fn["ret"]
        if self.mode in ("W", "R"):
            if ret[0] != "result": self.fail("a stream function must return Result<..>")
            rt = self.rty(ret[1])
            if self.mode == "R" and rt == "Ciphertext": rt = "CtFlat"          # readers BUILD a ciphertext: `from_members`
        else: rt = self.rty(ret)
        body = self.cs(list(fn["body"][0]), fn["body"][1], env, None, "TAIL")
        doc = f"/-- `{self.ent['where']}`  {fn['file']}:{fn['line0']}-{fn['line1']}  sha256/64(normalised source) = {fn['hash']} -/"
        sig = f"def {self.name} {self.ctx_binders()} {' '.join(binders)} : {self.mty(rt)} :=".replace("  ", " ")
        self.gen.rets[self.name] = rt
        return "\n\n".join(self.aux + [f"{doc}\n{sig}\n{indent(body, 2)}"])


def indent(s, n): return "\n".join(" " * n + l for l in s.split("\n"))


PRELUDE = """/-! ### the three readings (fixed text emitted by tools/rs2lean_ser.py) -/

/-- failure of a writer: the stream's own error (propagated by `?`), a panic (`assert_eq!`, slice bounds), or the writer's own
    `Err(io::Error::new(InvalidData, ..))` -/
inductive WErr (E : Type) where
  | io (e : E) | panic | invalid
  deriving Repr

/-- a writer program: runs on a stream state, returns `Ok(value)` / `Err` AND the stream as it is afterwards
    (bytes written before a failure stay written) -/
abbrev W (S E α : Type) := S → Except (WErr E) α × S
def wpure {S E α : Type} (a : α) : W S E α := fun s => (.ok a, s)
def wbind {S E α β : Type} (m : W S E α) (f : α → W S E β) : W S E β := fun s =>
  match m s with
  | (.ok a, s') => f a s'
  | (.error e, s') => (.error e, s')
def wpanic {S E α : Type} : W S E α := fun s => (.error .panic, s)
def winvalid {S E α : Type} : W S E α := fun s => (.error .invalid, s)
/-- a partial pure computation inside a writer (`v[i]`, `get_u64_limit`): its failure is a panic -/
def wlift {S E α : Type} (r : R α) : W S E α := fun s =>
  match r with
  | .ok a => (.ok a, s)
  | .error _ => (.error .panic, s)
/-- what `T: Write` offers: `write` (count of bytes taken) and `write_all` -/
structure WStream (S E : Type) where
  write : Bytes → S → Except E Nat × S
  writeAll : Bytes → S → Except E Unit × S
/-- a stream call followed by `?` -/
def wio {S E α : Type} (m : S → Except E α × S) : W S E α := fun s =>
  match m s with
  | (.ok a, s') => (.ok a, s')
  | (.error e, s') => (.error (.io e), s')

/-- a reader program over an in-memory stream: value and remaining bytes, or an error -/
abbrev Rd (α : Type) := Bytes → Except DErr (α × Bytes)
def rpure {α : Type} (a : α) : Rd α := fun bs => .ok (a, bs)
def rbind {α β : Type} (m : Rd α) (f : α → Rd β) : Rd β := fun bs =>
  match m bs with
  | .ok (a, r) => f a r
  | .error e => .error e
def rfail {α : Type} (e : DErr) : Rd α := fun _ => .error e
/-- `stream.read_exact(&mut buf)?` with `buf : [u8; n]`, inside the scalar impl `k` -/
def rreadExact (k : SK) (n : Nat) : Rd Bytes := readExact k n
/-- `for x in &mut a { *x = e(x)?; }` -/
def rfill (f : Nat → Rd Nat) : List Nat → Rd (List Nat)
  | [] => rpure []
  | x :: xs => rbind (f x) fun v => rbind (rfill f xs) fun vs => rpure (v :: vs)

/-- `for (j, c) in v.chunks_mut(n).enumerate() { c := f j c }` (n > 0; the last chunk may be shorter); fuel = the number of elements -/
def rchunksM (n : Nat) (f : Nat → List Nat → Rd (List Nat)) : Nat → Nat → List Nat → Rd (List Nat)
  | 0, _, _ => rpure []
  | fuel + 1, j, v =>
    if v.isEmpty then rpure []
    else rbind (f j (v.take n)) fun c => rbind (rchunksM n f fuel (j + 1) (v.drop n)) fun r => rpure (c ++ r)

/-- a partial pure computation inside a reader: its failure is a panic -/
def rlift {α : Type} (r : R α) : Rd α := fun bs =>
  match r with
  | .ok a => .ok (a, bs)
  | .error _ => .error .bad

/-- what `Ciphertext::from_members(size, coeff_modulus_size, poly_modulus_degree, data, parms_id, scale, correction_factor, is_ntt_form)` builds -/
structure CtFlat where
  size : Nat
  k : Nat
  n : Nat
  data : List Nat
  pid : List Nat
  scale : Nat
  cf : Nat
  ntt : Bool
  deriving DecidableEq, Repr

/-- TRUSTED reading of `impl ExpandSeed for Ciphertext :: contains_seed` (src/text.rs): `size != HE_CIPHERTEXT_SIZE_MIN` ⇒ false, else
    `self.poly(1)[0] == CIPHERTEXT_SEED_FLAG` with `poly(1) = &data[d..2d]`, `d = k·n` (`none` = the slice / the index panics) -/
def ctfContainsSeed (c : CtFlat) : Option Bool :=
  if c.size != HC.Gen.HE_CIPHERTEXT_SIZE_MIN then some false
  else if 2 * (c.k * c.n) ≤ c.data.length ∧ 0 < c.k * c.n then some (c.data.getD (c.k * c.n) 0 == seedFlag) else none

/-- TRUSTED reading of `expand_seed` (src/text.rs): panics unless `contains_seed()`; the 64 seed bytes are the 8 words after the flag word;
    `rlwe::sample::uniform(prng(seed), level parameters, poly_mut(1))` overwrites polynomial 1 — the model's abstract `expand seed level` -/
def ctfExpandSeed (expand : List Nat → Level → List Nat) (ctx : Ctx) (c : CtFlat) : Option CtFlat :=
  match ctfContainsSeed c, ctx.find c.pid with
  | some true, some lv => some { c with data := c.data.take (c.k * c.n) ++ expand ((c.data.drop (c.k * c.n + 1)).take seedWords) lv }
  | _, _ => none

/-- partial arithmetic (`a - b`, `v[i]`): `R = Except Err` of Model/Word.lean -/
def ppure {α : Type} (a : α) : R α := .ok a
def pbind {α β : Type} (m : R α) (f : α → R β) : R β := match m with | .ok a => f a | .error e => .error e
def pidx (l : List Nat) (i : Nat) : R Nat := match l[i]? with | some x => .ok x | none => .error .oob
def pmapM {α β : Type} (f : α → R β) : List α → R (List β)
  | [] => .ok []
  | x :: xs => pbind (f x) fun v => pbind (pmapM f xs) fun vs => .ok (v :: vs)

/-- what the size functions read off a `Ciphertext` (`poly i` = the length-carrying slice `self.poly(i)`) -/
structure CtV where
  pid : List Nat
  size : Nat
  ntt : Bool
  scale : Nat
  cf : Nat
  seeded : Bool
  data : List Nat
  poly : Nat → List Nat
  comp : Nat → Nat → List Nat      -- `poly_component(i, j)`
  cms : Nat       -- `coeff_modulus_size()`
  deg : Nat       -- `poly_modulus_degree()`
"""


class Gen:
    def __init__(self, T, tr, spec):
        self.T, self.tr, self.spec, self.repo = T, tr, spec, tr.repo
        self.done = {}; self.rets = {}; self.Parser = make_parser(T)
        self.src = T.strip_comments(open(os.path.join(self.repo, SR)).read())
        self.read_enums(); self.read_sizes(); self.check_setters()
        tx = T.strip_comments(open(os.path.join(self.repo, "src/text.rs")).read())
        m = re.search(r"\bconst\s+CIPHERTEXT_SEED_FLAG\s*:\s*u64\s*=\s*(0x[0-9A-Fa-f_]+|[0-9_]+)\s*;", tx)
        self.need(m, "const CIPHERTEXT_SEED_FLAG not found in src/text.rs")
        self.seed_flag = int(m.group(1).replace("_", ""), 0)

    def need(self, cond, what):
        if not cond: raise self.T.Unsupported(f"stream mode: {what}")

    def read_enums(self):
        """`enum SchemeType` (declaration order = `as u8` value, no explicit discriminants) and `impl From<u8> for SchemeType` must agree"""
        s = self.T.strip_comments(open(os.path.join(self.repo, "src/encryption_parameters.rs")).read())
        m = re.search(r"\benum\s+SchemeType\s*\{(.*?)\}", s, flags=re.S)
        self.need(m, "enum SchemeType not found")
        body = re.sub(r"#\[[^\]]*\]", "", m.group(1))
        vs = [v.strip() for v in body.split(",") if v.strip()]
        self.need(all(re.fullmatch(r"\w+", v) for v in vs), f"enum SchemeType has discriminants / fields: {vs}")
        self.scheme = {v: i for i, v in enumerate(vs)}
        m = re.search(r"impl\s+From<u8>\s+for\s+SchemeType\s*\{\s*fn\s+from\s*\(\s*value\s*:\s*u8\s*\)\s*->\s*Self\s*\{\s*match\s+value\s*\{(.*?)\}\s*\}\s*\}", s, flags=re.S)
        self.need(m, "impl From<u8> for SchemeType: unexpected shape")
        arms = re.findall(r"(\w+)\s*=>\s*([^,]+),?", m.group(1))
        seen = {}
        for p, b in arms:
            if p == "_": self.need("panic!" in b, "From<u8> for SchemeType: `_` arm does not panic"); continue
            mm = re.fullmatch(r"SchemeType::(\w+)", b.strip())
            self.need(mm and p.isdigit(), f"From<u8> for SchemeType: arm {p} => {b}")
            seen[mm.group(1)] = int(p)
        self.need(seen == self.scheme, f"`as u8` order {self.scheme} and From<u8> {seen} differ")

    def const(self, rel, name):
        s = self.T.strip_comments(open(os.path.join(self.repo, rel)).read())
        m = re.search(r"\bconst\s+%s\s*:\s*usize\s*=\s*(\d+)\s*;" % name, s)
        self.need(m, f"const {name} not found in {rel}")
        return int(m.group(1))

    def read_sizes(self):
        """`size_of::<T>()` on a 64-bit target"""
        sz = {"u64": 8, "usize": 8, "u8": 1}
        s = self.T.strip_comments(open(os.path.join(self.repo, "src/encryption_parameters.rs")).read())
        self.need(re.search(r"\btype\s+ParmsID\s*=\s*crate::util::hash::HashBlock\s*;", s), "type ParmsID = HashBlock not found")
        h = self.T.strip_comments(open(os.path.join(self.repo, "src/util/hash.rs")).read())
        self.need(re.search(r"\btype\s+HashBlock\s*=\s*\[\s*u64\s*;\s*HASH_BLOCK_U64_COUNT\s*\]\s*;", h), "type HashBlock = [u64; HASH_BLOCK_U64_COUNT] not found")
        sz["ParmsID"] = 8 * self.const("src/util/hash.rs", "HASH_BLOCK_U64_COUNT")
        r = self.T.strip_comments(open(os.path.join(self.repo, "src/util/random_generator.rs")).read())
        self.need(re.search(r"\bstruct\s+PRNGSeed\s*\(\s*pub\s*\[\s*u8\s*;\s*HE_PRNG_SEED_BYTES\s*\]\s*\)\s*;", r), "struct PRNGSeed(pub [u8; HE_PRNG_SEED_BYTES]) not found")
        sz["PRNGSeed"] = self.const("src/util/basic.rs", "HE_PRNG_SEED_BYTES")
        self.sizes = sz

    def check_setters(self):
        """the guards of MUTATORS are readings of src/encryption_parameters.rs: make sure the checks they describe are still there"""
        s = re.sub(r"\s+", " ", self.T.strip_comments(open(os.path.join(self.repo, "src/encryption_parameters.rs")).read()))
        for pat, what in (
            (r"fn set_poly_modulus_degree\(mut self, poly_modulus_degree: usize\) -> Self \{ if let SchemeType::None = self\.scheme \{ if poly_modulus_degree > 0 \{ panic!\([^)]*\); \} \} self\.poly_modulus_degree = poly_modulus_degree; self\.compute_parms_id\(\); self \}", "set_poly_modulus_degree"),
            (r"fn set_coeff_modulus\(mut self, coeff_modulus: &\[Modulus\]\) -> Self \{ if let SchemeType::None = self\.scheme \{ if !coeff_modulus\.is_empty\(\) \{ panic!\([^)]*\); \} \} if coeff_modulus\.len\(\) > util::HE_COEFF_MOD_COUNT_MAX \|\| coeff_modulus\.len\(\) < util::HE_COEFF_MOD_COUNT_MIN \{ panic!\([^)]*\); \} self\.coeff_modulus = coeff_modulus\.to_vec\(\); self\.compute_parms_id\(\); self \}", "set_coeff_modulus"),
            (r"fn set_plain_modulus\(mut self, plain_modulus: &Modulus\) -> Self \{ match self\.scheme \{ SchemeType::BFV \| SchemeType::BGV => \(\), _ => \{ if !plain_modulus\.is_zero\(\) \{ panic!\([^)]*\); \} \} \} self\.plain_modulus = \*plain_modulus; self\.compute_parms_id\(\); self \}", "set_plain_modulus"),
            (r"fn set_use_special_prime_for_encryption\(mut self, use_special_prime_for_encryption: bool\) -> Self \{ self\.use_special_prime_for_encryption = use_special_prime_for_encryption; self \}", "set_use_special_prime_for_encryption"),
            (r"pub fn new\(scheme: SchemeType\) -> Self \{ let mut ret = EncryptionParameters \{ scheme, coeff_modulus: vec!\[\], poly_modulus_degree: 0, plain_modulus: Modulus::new\(0\), parms_id: PARMS_ID_ZERO, use_special_prime_for_encryption: false, \}; ret\.compute_parms_id\(\); ret \}", "EncryptionParameters::new"),
        ):
            self.need(re.search(pat, s), f"src/encryption_parameters.rs: `{what}` no longer has the body the MUTATORS / STATICS table reads (re-read it and update tools/rs2lean_ser.py)")

    def locate(self, ent):
        """(offset of `fn`, end offset, first line) of the function described by the table entry"""
        src = self.src
        if "impl" in ent:
            pat = r"\bimpl(?:\s*<[^>{]*>)?\s+" + r"\s+".join(re.escape(w) for w in ent["impl"].split()) + r"\s*\{"
            blocks = [(m.end() - 1, self.T.brace_block(src, m.end() - 1, "impl " + ent["impl"])) for m in re.finditer(pat, src)]
            self.need(blocks, f"`impl {ent['impl']}` not found in {SR}")
        else: blocks = [(0, len(src))]
        hits = []
        for lo, hi in blocks:
            for m in re.finditer(r"\bfn\s+%s\s*[<(]" % re.escape(ent["fn"]), src[lo:hi]):
                # inherent / free functions only at depth of the block
                hits.append(lo + m.start())
        if "impl" not in ent:
            # free function: must not sit inside an impl block
            hits = [h for h in hits if not re.search(r"\bimpl\b[^;{}]*\{[^}]*$", src[max(0, h - 400):h]) or src[:h].count("{") == src[:h].count("}")]
        self.need(len(hits) == 1, f"fn {ent['fn']} found {len(hits)} times" + (f" in `impl {ent['impl']}`" if "impl" in ent else ""))
        off = hits[0]; j = src.index("{", off); end = self.T.brace_block(src, j, "fn " + ent["fn"])
        return off, end, src.count("\n", 0, off) + 1

    def parse(self, ent):
        off, end, line = self.locate(ent)
        text = self.src[off:end]
        text = re.sub(r"\buse\s+[\w:]+\s*;", lambda m: " " * len(m.group()), text)        # `use` inside a body: names are resolved by their last segment anyway
        toks = self.T.tokenize(text, line)
        p = self.Parser(toks, ent["fn"]); fn = p.fn_item()
        norm = " ".join(t[1] for t in toks[:p.i])
        fn.update({"file": SR, "line0": line, "line1": toks[p.i - 1][2], "hash": hashlib.sha256(norm.encode()).hexdigest()[:16]})
        return fn

    def one(self, ent):
        fn = self.parse(ent)
        lw = Lower(self, fn, ent, ent["mode"], ent.get("selfty"), ent.get("generic", False))
        text = lw.run()
        self.done[ent["lean"]] = ent["mode"]
        if ent["fn"] not in self.done: self.done[ent["fn"]] = ent["mode"]; self.rets[ent["fn"]] = self.rets[ent["lean"]]
        return text

    def run(self):
        out = ["/- GENERATED by tools/rs2lean_ser.py (via tools/extract.py) from %s -- do not edit.\n   Stream-mode translation of the serializers (TRANSLATOR.md phase 4i / notes/work7-N.md): writers `W`, readers `Rd`, sizes. -/" % SR,
               "import Heathcliff.Model.Codec", "import Heathcliff.Model.Word", "import Heathcliff.Gen.WordFns", "import Heathcliff.Gen.Constants", "",
               "set_option linter.unusedVariables false", "", "namespace HC.GenS", "open HC HC.Codec", "", PRELUDE]
        for ent in self.spec["table"]:
            out.append(self.one(ent)); out.append("")
        out += ["end HC.GenS", ""]
        return "\n".join(out)


def impl_entries(ty, rust_impl, prefix, kind=None, generic=False, selfty=None):
    selfty = selfty or ty
    base = {"impl": rust_impl, "selfty": selfty, "generic": generic, "kind": kind}
    return [dict(base, fn="serialized_size", mode="T", lean=f"{prefix}_serialized_size", where=f"impl {rust_impl} :: serialized_size"),
            dict(base, fn="serialize", mode="W", lean=f"{prefix}_serialize", where=f"impl {rust_impl} :: serialize"),
            dict(base, fn="deserialize", mode="R", lean=f"{prefix}_deserialize", where=f"impl {rust_impl} :: deserialize")]


TABLE = (
    impl_entries("u64", "Serializable for u64", "u64", kind="u64")
    + impl_entries("usize", "Serializable for usize", "usize", kind="usize")
    + impl_entries("u8", "Serializable for u8", "u8", kind="u8")
    + impl_entries("bool", "Serializable for bool", "bool")
    + impl_entries("f64", "Serializable for f64", "f64")
    + impl_entries("Modulus", "Serializable for Modulus", "modulus")
    + impl_entries("Vec", "Serializable for Vec<I>", "vec", generic=True, selfty=("vec", "I"))
    + impl_entries("SchemeType", "Serializable for SchemeType", "scheme")
    + impl_entries("EncryptionParameters", "Serializable for EncryptionParameters", "params")
    + impl_entries("ParmsID", "Serializable for ParmsID", "pid")
    + impl_entries("Plaintext", "Serializable for Plaintext", "plain")
    + impl_entries("SecretKey", "Serializable for SecretKey", "sk")
    + [{"fn": "get_u64_limit", "mode": "P", "lean": "get_u64_limit", "where": "fn get_u64_limit"},
       {"fn": "write_u64_limited", "mode": "W", "lean": "write_u64_limited", "where": "fn write_u64_limited"},
       {"fn": "read_u64_limited", "mode": "R", "lean": "read_u64_limited", "where": "fn read_u64_limited"},
       {"fn": "serialize_full", "impl": "Ciphertext", "selfty": "Ciphertext", "mode": "W", "lean": "ct_serialize_full", "where": "impl Ciphertext :: serialize_full", "ctx_first": True},
       {"fn": "serialize", "impl": "SerializableWithHeContext for Ciphertext", "selfty": "Ciphertext", "mode": "W", "lean": "ct_serialize", "where": "impl SerializableWithHeContext for Ciphertext :: serialize", "ctx_first": True},
       {"fn": "serialize", "impl": "SerializableWithHeContext for PublicKey", "selfty": "PublicKey", "mode": "W", "lean": "pk_serialize", "where": "impl SerializableWithHeContext for PublicKey :: serialize", "ctx_first": True},
       {"fn": "serialize", "impl": "SerializableWithHeContext for Vec<I>", "selfty": ("vec", "I"), "generic": True, "mode": "W", "lean": "cvec_serialize", "where": "impl SerializableWithHeContext for Vec<I> :: serialize", "drop_ctx": True},
       {"fn": "serialize", "impl": "SerializableWithHeContext for KSwitchKeys", "selfty": "KSwitchKeys", "mode": "W", "lean": "kswitch_serialize", "where": "impl SerializableWithHeContext for KSwitchKeys :: serialize", "ctx_first": True},
       {"fn": "serialize", "impl": "SerializableWithHeContext for RelinKeys", "selfty": "RelinKeys", "mode": "W", "lean": "relin_serialize", "where": "impl SerializableWithHeContext for RelinKeys :: serialize", "ctx_first": True},
       {"fn": "serialize", "impl": "SerializableWithHeContext for GaloisKeys", "selfty": "GaloisKeys", "mode": "W", "lean": "galois_serialize", "where": "impl SerializableWithHeContext for GaloisKeys :: serialize", "ctx_first": True},
       {"fn": "deserialize_full", "impl": "Ciphertext", "selfty": "Ciphertext", "mode": "R", "lean": "ct_deserialize_full", "where": "impl Ciphertext :: deserialize_full", "ctx_first": True, "expand": True},
       {"fn": "deserialize", "impl": "SerializableWithHeContext for Ciphertext", "selfty": "Ciphertext", "mode": "R", "lean": "ct_deserialize", "where": "impl SerializableWithHeContext for Ciphertext :: deserialize", "ctx_first": True, "expand": True},
       {"fn": "serialized_full_size", "impl": "Ciphertext", "selfty": "Ciphertext", "mode": "P", "lean": "ct_serialized_full_size", "where": "impl Ciphertext :: serialized_full_size", "ctx_first": True},
       {"fn": "serialized_size", "impl": "SerializableWithHeContext for Ciphertext", "selfty": "Ciphertext", "mode": "P", "lean": "ct_serialized_size", "where": "impl SerializableWithHeContext for Ciphertext :: serialized_size", "ctx_first": True},
       {"fn": "serialized_terms_size", "impl": "Ciphertext", "selfty": "Ciphertext", "mode": "P", "lean": "ct_serialized_terms_size", "where": "impl Ciphertext :: serialized_terms_size", "ctx_first": True},
       {"fn": "serialized_size", "impl": "SerializableWithHeContext for PublicKey", "selfty": "PublicKey", "mode": "P", "lean": "pk_serialized_size", "where": "impl SerializableWithHeContext for PublicKey :: serialized_size", "ctx_first": True},
       {"fn": "serialized_size", "impl": "SerializableWithHeContext for Vec<I>", "selfty": ("vec", "I"), "generic": True, "mode": "P", "lean": "cvec_serialized_size", "where": "impl SerializableWithHeContext for Vec<I> :: serialized_size", "drop_ctx": True},
       {"fn": "serialized_size", "impl": "SerializableWithHeContext for KSwitchKeys", "selfty": "KSwitchKeys", "mode": "P", "lean": "kswitch_serialized_size", "where": "impl SerializableWithHeContext for KSwitchKeys :: serialized_size", "ctx_first": True},
       {"fn": "serialized_size", "impl": "SerializableWithHeContext for RelinKeys", "selfty": "RelinKeys", "mode": "P", "lean": "relin_serialized_size", "where": "impl SerializableWithHeContext for RelinKeys :: serialized_size", "ctx_first": True},
       {"fn": "serialized_size", "impl": "SerializableWithHeContext for GaloisKeys", "selfty": "GaloisKeys", "mode": "P", "lean": "galois_serialized_size", "where": "impl SerializableWithHeContext for GaloisKeys :: serialized_size", "ctx_first": True}]
)


def generate(T, tr, spec):
    spec = dict(spec); spec.setdefault("table", TABLE)
    return Gen(T, tr, spec).run()
