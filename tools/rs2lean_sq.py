# Task S: skeleton tables for the DATA of `Evaluator::bgv_square` / `Evaluator::ckks_square` (src/evaluator.rs) over the flat ciphertext
# buffer, generated into Gen/EvalCtFns.lean as `ct_bgv_square` / `ct_ckks_square` (imported by tools/rs2lean.py; kept in a file of its
# own so that the hunks in rs2lean.py stay small).
#
# TRUSTED readings (besides those of SK_TRANSLATE / SK_CKKS_SQ: `data()` = the flat buffer, `polys_mut(a, b)` = `&mut data[a*d..b*d]`,
# `poly(i)` / `poly_mut(i)` = `data[i*d..(i+1)*d]`, d = degree * moduli.len(); `resize` = size check + `data.resize` + new size):
#  * table option `unsafe_inline`: `unsafe { stmts }` = `stmts` (the block only licenses the raw-pointer expressions below);
#  * `std::slice::from_raw_parts(X[a..b].as_ptr(), len)` bound by a `let` and used once as the READ-ONLY operand of a coefficient-wise kernel
#    whose destination is the same block = the contents of `X[a..a+len]` at the time of the call (the kernel reads word i of both
#    operands before it writes word i; nothing else touches X between the `let` and the call);
#  * `let c = std::slice::from_raw_parts[_mut](encrypted.poly[_mut](i).as_[mut_]ptr(), len)`: `c` is a NAME for the region
#    `data[i*d..i*d+len]` (a handle): every later use reads / writes the region as it is THEN - so `add_inplace_p(c1mut, c1, ..)` after
#    `dyadic_product_p(c0, c1, .., c1mut)` adds the product to itself;
#  * the fallback `self.xxx_multiply(encrypted, &encrypted.clone())` is reported as `route = 1` (the buffer is returned untouched; the
#    product routine on (x, x) is the model's `bgvMultiply l x x` / `ctMultiplyDyadic l x x`).

def square_tables(EV, CSZ, PLEN, SC_OK, SC_OK_FIRST, scale_ok):
    CTXS = "self.get_context_data(encrypted.parms_id())"
    FIRSTCD = "self.context.first_context_data().unwrap()"
    RESIZE = ("assert!(!(($dest < HE_CIPHERTEXT_SIZE_MIN && $dest != 0) || $dest > HE_CIPHERTEXT_SIZE_MAX)); "
              "data.resize($dest * n * moduli.len(), 0); size1 = $dest;")
    common_exprs = {"encrypted.is_ntt_form()": "ntt", CTXS + ".parms().poly_modulus_degree()": "n", CTXS + ".parms().coeff_modulus()": "moduli",
                    "encrypted.size()": "size1"}
    sk_bgv = {
        "sig": "fn bgv_square(data: &mut Vec<u64>, size_in: usize, cf_in: u64, ntt: bool, moduli: &[Modulus], t: &Modulus, n: usize) -> (usize, u64, usize)",
        "prologue": "let mut size1 = size_in; let mut cf = cf_in; let mut route: usize = 0;", "epilogue": "(size1, cf, route)",
        "unsafe_inline": True,
        "handles": [CTXS, CTXS + ".parms()"],
        "exprs": dict(common_exprs, **{
            "encrypted.data()": "data",
            "std::slice::from_raw_parts($x[1 * $dq..2 * $dq].as_ptr(), $dq)": "&$x[1 * $dq..1 * $dq + $dq]"}),
        "effects": {
            "self.bgv_multiply(encrypted, &encrypted.clone())": "route = 1;",
            "encrypted.resize(&self.context, %s.parms_id(), $dest)" % CTXS: RESIZE,
            "encrypted.polys_mut(0, $dest).copy_from_slice(&$x)": "data[0 * %s..$dest * %s].copy_from_slice(&$x);" % (PLEN, PLEN),
            "encrypted.set_correction_factor(util::multiply_u64_mod(encrypted.correction_factor(), encrypted.correction_factor(), %s.parms().plain_modulus()))" % CTXS:
                "cf = util::multiply_u64_mod(cf, cf, t);"}}
    def raw(i, m): return "std::slice::from_raw_parts%s(encrypted.poly%s(%d).as_%sptr(), $d)" % ("_mut" if m else "", "_mut" if m else "", i, "mut_" if m else "")
    def region(i, m): return "&%sdata[%d * %s..%d * %s + $d]" % ("mut " if m else "", i, PLEN, i, PLEN)
    sk_ckks = {
        "sig": "fn ckks_square(data: &mut Vec<u64>, size_in: usize, ntt: bool, moduli: &[Modulus], n: usize, ok_own: bool, ok_prod: bool, "
               "ok_own_first: bool, ok_prod_first: bool) -> (usize, usize, usize)",
        "prologue": "let mut size1 = size_in; let mut sc: usize = 0; let mut route: usize = 0;", "epilogue": "(size1, sc, route)",
        "unsafe_inline": True,
        "handles": [CTXS, CTXS + ".parms()"] + [raw(i, True) for i in range(3)] + [raw(i, False) for i in range(2)],
        "exprs": dict(common_exprs, **dict(
            [(raw(i, True), region(i, True)) for i in range(3)] + [(raw(i, False), region(i, False)) for i in range(2)] +
            [(scale_ok("encrypted", CTXS), SC_OK), (scale_ok("encrypted", FIRSTCD), SC_OK_FIRST)])),
        "effects": {
            "self.ckks_multiply(encrypted, &encrypted.clone())": "route = 1;",
            "encrypted.resize(&self.context, %s.parms_id(), $dest)" % CTXS: RESIZE,
            "encrypted.set_scale(encrypted.scale() * encrypted.scale())": "sc = sc + 1;"},
        "optional": [scale_ok("encrypted", CTXS), scale_ok("encrypted", FIRSTCD)]}
    CTXM = "self.get_context_data(encrypted1.parms_id())"
    # `bgv_multiply` (also the fallback route of `bgv_square`): the DATA loops on the flat buffers
    sk_bgv_mul = {
        "sig": "fn bgv_multiply(d1: &mut Vec<u64>, size1_in: usize, cf1_in: u64, d2: &[u64], size2: usize, cf2: u64, ntt1: bool, ntt2: bool, "
               "moduli: &[Modulus], t: &Modulus, n: usize) -> (usize, u64)",
        "prologue": "let mut size1 = size1_in; let mut cf1 = cf1_in;", "epilogue": "(size1, cf1)",
        "handles": [CTXM, CTXM + ".parms()"],
        "exprs": {"encrypted1.is_ntt_form()": "ntt1", "encrypted2.is_ntt_form()": "ntt2", CTXM + ".parms().poly_modulus_degree()": "n",
                  CTXM + ".parms().coeff_modulus()": "moduli", "encrypted1.size()": "size1", "encrypted2.size()": "size2",
                  "encrypted1.data()": "d1", "encrypted2.data()": "d2"},
        "effects": {
            "encrypted1.resize(&self.context, %s.parms_id(), $dest)" % CTXM:
                "assert!(!(($dest < HE_CIPHERTEXT_SIZE_MIN && $dest != 0) || $dest > HE_CIPHERTEXT_SIZE_MAX)); "
                "d1.resize($dest * n * moduli.len(), 0); size1 = $dest;",
            "encrypted1.polys_mut(0, $dest).copy_from_slice(&$x)": "d1[0 * %s..$dest * %s].copy_from_slice(&$x);" % (PLEN, PLEN),
            "encrypted1.set_correction_factor(util::multiply_u64_mod(encrypted1.correction_factor(), encrypted2.correction_factor(), %s.parms().plain_modulus()))" % CTXM:
                "cf1 = util::multiply_u64_mod(cf1, cf2, t);"}}
    # `ckks_multiply`: the same data loops, the result copied over the whole (resized) buffer, then the scale bookkeeping of `SK_CKKS_MUL`
    sk_ckks_mul = {
        "sig": "fn ckks_multiply(d1: &mut Vec<u64>, size1_in: usize, d2: &[u64], size2: usize, ntt1: bool, ntt2: bool, moduli: &[Modulus], n: usize, "
               "ok_own: bool, ok_prod: bool, ok_own_first: bool, ok_prod_first: bool) -> (usize, usize)",
        "prologue": "let mut size1 = size1_in; let mut sc: usize = 0;", "epilogue": "(size1, sc)",
        "handles": [CTXM, CTXM + ".parms()"],
        "exprs": {"encrypted1.is_ntt_form()": "ntt1", "encrypted2.is_ntt_form()": "ntt2", CTXM + ".parms().poly_modulus_degree()": "n",
                  CTXM + ".parms().coeff_modulus()": "moduli", "encrypted1.size()": "size1", "encrypted2.size()": "size2",
                  "encrypted1.data()": "d1", "encrypted2.data()": "d2",
                  scale_ok("encrypted1", CTXM): SC_OK, scale_ok("encrypted1", FIRSTCD): SC_OK_FIRST},
        "effects": {
            "encrypted1.resize(&self.context, %s.parms_id(), $dest)" % CTXM:
                "assert!(!(($dest < HE_CIPHERTEXT_SIZE_MIN && $dest != 0) || $dest > HE_CIPHERTEXT_SIZE_MAX)); "
                "d1.resize($dest * n * moduli.len(), 0); size1 = $dest;",
            "encrypted1.data_mut().copy_from_slice(&$x)": "d1[0..d1.len()].copy_from_slice(&$x);",
            "encrypted1.set_scale(encrypted1.scale() * encrypted2.scale())": "sc = sc + 1;"},
        "optional": [scale_ok("encrypted1", CTXM), scale_ok("encrypted1", FIRSTCD)]}
    return [
        {"file": EV, "fn": "ckks_multiply", "impl": "Evaluator", "lean": "ct_ckks_multiply", "register_as": "ckks_multiply_ct", "model": "ctMultiplyDyadic + ckksProductBookkeeping",
         "skeleton": sk_ckks_mul, "consts": CSZ, "panic_escape": True},
        {"file": EV, "fn": "bgv_multiply", "impl": "Evaluator", "lean": "ct_bgv_multiply", "register_as": "bgv_multiply_ct", "model": "bgvMultiply (Model/Evaluator.lean)",
         "skeleton": sk_bgv_mul, "consts": CSZ, "panic_escape": True},
        {"file": EV, "fn": "bgv_square", "impl": "Evaluator", "lean": "ct_bgv_square", "register_as": "bgv_square_ct", "model": "bgvSquare (Model/Evaluator.lean)",
         "skeleton": sk_bgv, "consts": CSZ, "panic_escape": True},
        {"file": EV, "fn": "ckks_square", "impl": "Evaluator", "lean": "ct_ckks_square", "register_as": "ckks_square_ct", "model": "ckksSquare + ckksProductBookkeeping",
         "skeleton": sk_ckks, "consts": CSZ, "panic_escape": True},
    ]
