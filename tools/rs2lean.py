#!/usr/bin/env python3
"""rs2lean: translator from a SMALL subset of Rust (word-level arithmetic of Heathcliff) to Lean 4 definitions that follow the
modelling conventions of lean/Heathcliff/Model/Word.lean (see TRANSLATOR.md).  Anything outside the subset raises `Unsupported`
naming the function and the construct: the translator never guesses.
usage (stand-alone):  rs2lean.py <repo>            prints the generated Heathcliff/Gen/WordFns.lean"""
import re, sys, os, hashlib


class Unsupported(Exception):
    pass


# ------------------------------------------------------------------------------------------------ lexer

def strip_comments(src):
    """remove // and /* */ comments, keep every newline (line numbers stay valid)"""
    out = []; i = 0; n = len(src)
    while i < n:
        if src.startswith("//", i):
            j = src.find("\n", i); j = n if j < 0 else j
            i = j
        elif src.startswith("/*", i):
            j = src.find("*/", i + 2)
            if j < 0: raise Unsupported("unterminated block comment")
            out.append("\n" * src.count("\n", i, j + 2)); i = j + 2
        else:
            out.append(src[i]); i += 1
    return "".join(out)


PUNCT = ["<<=", ">>=", "..=", "...", "::", "->", "=>", "==", "!=", "<=", ">=", "&&", "||", "+=", "-=", "*=", "/=", "%=", "^=", "&=", "|=",
         "<<", ">>", "..", "+", "-", "*", "/", "%", "^", "&", "|", "!", "=", "<", ">", "(", ")", "[", "]", "{", "}", ",", ";", ":", ".", "#", "?"]
INT_SUFFIX = "u8|u16|u32|u64|u128|usize|i8|i16|i32|i64|i128|isize"
TOK_RE = re.compile(r"(?P<ws>\s+)|(?P<str>\x22(?:[^\x22\\]|\\.)*\x22)|(?P<float>[0-9][0-9_]*\.[0-9][0-9_]*(?:f64|f32)?)|(?P<num>(?:0x[0-9a-fA-F_]+|[0-9][0-9_]*)(?:%s)?)|(?P<id>[A-Za-z_][A-Za-z0-9_]*)|(?P<p>%s)"
                    % (INT_SUFFIX, "|".join(re.escape(p) for p in PUNCT)))


def tokenize(src, line0=1):
    toks = []; i = 0; line = line0
    while i < len(src):
        m = TOK_RE.match(src, i)
        if not m: raise Unsupported(f"line {line}: cannot tokenize {src[i:i+20]!r}")
        if m.lastgroup == "ws": line += m.group().count("\n")
        else: toks.append((m.lastgroup, m.group(), line))
        i = m.end()
    toks.append(("eof", "", line))
    return toks


# ------------------------------------------------------------------------------------------------ parser (AST = tuples)

BINPREC = [["||"], ["&&"], ["==", "!=", "<", ">", "<=", ">="], ["|"], ["^"], ["&"], ["<<", ">>"], ["+", "-"], ["*", "/", "%"]]
ASSIGN_OPS = ["=", "+=", "-=", "*=", "/=", "%=", "^=", "&=", "|=", "<<=", ">>="]


class Parser:
    def __init__(self, toks, fname="?"):
        self.t = toks; self.i = 0; self.fname = fname; self.ns = False     # ns: inside an `if`/`while`/`match` head (no struct literals)

    def with_ns(self, flag, f):
        old = self.ns; self.ns = flag
        try: return f()
        finally: self.ns = old

    def fail(self, what):
        raise Unsupported(f"fn {self.fname}, line {self.t[self.i][2]}: {what} (at `{self.t[self.i][1]}`)")

    def peek(self, k=0): return self.t[self.i + k][1]
    def kind(self, k=0): return self.t[self.i + k][0]
    def line(self): return self.t[self.i][2]
    def next(self): tok = self.t[self.i]; self.i += 1; return tok[1]
    def accept(self, s):
        if self.kind() != "eof" and self.peek() == s and self.kind() != "num": self.i += 1; return True
        return False
    def expect(self, s):
        if not self.accept(s): self.fail(f"expected `{s}`")
    def ident(self):
        if self.kind() != "id": self.fail("identifier expected")
        return self.next()

    # ---- types
    def ty(self):
        if self.accept("&"):
            mut = self.accept("mut")
            inner = self.ty()
            return ("ref", mut, inner)
        if self.accept("["):
            el = self.ty()
            n = None
            if self.accept(";"):
                if self.kind() != "num": self.fail("array length must be a literal")
                n = parse_int(self.next())[0]
            self.expect("]")
            return ("arr", el, n)
        if self.accept("("):
            els = []
            while not self.accept(")"):
                els.append(self.ty())
                if not self.accept(","): self.expect(")"); break
            return ("tuple", els)
        name = self.ident()
        while self.accept("::"): name = self.ident()
        if self.peek() == "<":
            if name == "Option": self.next(); el = self.ty(); self.expect(">"); return ("option", el)      # phase 4e (handler mode only)
            if name != "Vec": self.fail("generic type")
            self.next(); el = self.ty(); self.expect(">"); return ("vec", el)
        return ("name", name)

    # ---- items
    def fn_item(self):
        self.accept("pub")
        self.expect("fn")
        name = self.ident(); self.fname = name
        if self.peek() == "<": self.fail("generic function")
        self.expect("(")
        params = []
        while not self.accept(")"):
            if self.peek() in ("&", "self"):
                # &self / &mut self receivers
                save = self.i
                isref = self.accept("&"); ismut = isref and self.accept("mut")
                if self.accept("self"):
                    params.append(("self", ("selfty", "mut" if ismut else "ref" if isref else "val"), False))
                    if not self.accept(","): self.expect(")"); break
                    continue
                self.i = save
            mut = self.accept("mut")
            pn = self.ident(); self.expect(":"); pt = self.ty()
            params.append((pn, pt, mut))
            if not self.accept(","): self.expect(")"); break
        ret = ("tuple", [])
        if self.accept("->"): ret = self.ty()
        l0 = self.line()
        body = self.block()
        return {"name": name, "params": params, "ret": ret, "body": body}

    def block(self):
        """returns (stmts, tail_expr_or_None)"""
        self.expect("{")
        stmts = []; tail = None
        while True:
            if self.accept("}"): break
            if self.accept(";"): continue
            if self.peek() == "#" and self.kind() == "p":
                # phase 4m (C17, conc mode): `#[cfg(feature = "verif")] <stmt>` = a statement of the verification build only (yield points,
                # add-only hooks): the PRODUCTION configuration is translated, the statement is skipped.  Any other attribute is refused.
                if [self.peek(k) for k in range(1, 9)] != ["[", "cfg", "(", "feature", "=", '"verif"', ")", "]"]: self.fail("attribute on a statement")
                self.i += 9; d = 0
                if self.peek() == "{":
                    while True:
                        t = self.next(); d += {"{": 1, "}": -1}.get(t, 0)
                        if d == 0: break
                        if self.kind() == "eof": self.fail("unterminated cfg block")
                else:
                    while not (d == 0 and self.peek() == ";"):
                        if self.kind() == "eof" or (d == 0 and self.peek() == "}"): self.fail("cfg statement without `;`")
                        t = self.next(); d += {"{": 1, "(": 1, "[": 1, "}": -1, ")": -1, "]": -1}.get(t, 0)
                    self.next()
                continue
            if tail is not None:
                # the previous block-like expression was a statement after all
                stmts.append(("expr", tail)); tail = None
            ln = self.line()
            p = self.peek()
            if self.kind() == "id" and p == "let":
                self.next()
                mut = self.accept("mut")
                if self.accept("("):
                    names = []
                    while not self.accept(")"):
                        m2 = self.accept("mut"); names.append(self.ident())
                        if not self.accept(","): self.expect(")"); break
                    pat = ("tuplepat", names)
                else:
                    pat = self.ident()
                ty = None
                if self.accept(":"): ty = self.ty()
                init = None
                if self.accept("="): init = self.expr()
                self.expect(";")
                stmts.append(("let", pat, mut, ty, init, ln))
            elif self.kind() == "id" and p == "return":
                self.next()
                e = None
                if self.peek() not in (";", "}"): e = self.expr()
                self.accept(";")
                stmts.append(("return", e, ln))
            elif self.kind() == "id" and p == "break":
                self.next()
                if self.peek() not in (";", "}"): self.fail("break with label/value")
                self.accept(";")
                stmts.append(("break", ln))
            elif self.kind() == "id" and p == "continue":
                if not getattr(self, "allow_continue", False): self.fail("continue")
                self.next(); self.accept(";"); stmts.append(("continue", ln))      # phase 4h (app mode only, tools/rs2lean_app.py)
            elif self.kind() == "id" and p == "loop":
                self.next(); b = self.block(); stmts.append(("loop", b, ln))
            elif self.kind() == "id" and p == "while":
                self.next(); c = self.expr(nostruct=True); b = self.block(); stmts.append(("while", c, b, ln))
            elif self.kind() == "id" and p == "for":
                self.next()
                if self.accept("("):                       # phase 4e: `for (x, y) in a.iter_mut().zip(..)` (handler mode; refused by the main lowering)
                    ps = []
                    while not self.accept(")"):
                        ps.append(self.ident())
                        if not self.accept(","): self.expect(")"); break
                    v = ("tuplepat", tuple(ps))
                else: v = self.ident()
                self.expect("in"); it = self.expr(nostruct=True); b = self.block()
                stmts.append(("for", v, it, b, ln))
            elif self.kind() == "id" and p == "unsafe" and self.peek(1) == "{":            # phase 4g: only a skeleton table can give it a reading (effects key `unsafe`)
                self.next(); b = self.block(); stmts.append(("unsafe", b, ln))
            elif self.kind() == "id" and p in ("fn", "struct", "impl", "use", "const", "static", "unsafe", "macro_rules", "mod"):
                self.fail(f"`{p}` inside a function body")
            else:
                # a statement that STARTS with `if` / `match` ends with that expression, as in rustc (phase 4g: `if c { panic!() } *dest = x;` was
                # read as the product `(if ..) * dest`)
                e = self.primary() if (self.kind() == "id" and p in ("if", "match")) else self.expr()
                if self.peek() in ASSIGN_OPS and self.kind() == "p":
                    op = self.next(); r = self.expr();
                    if self.peek() != "}": self.expect(";")
                    stmts.append(("assign", e, None if op == "=" else op[:-1], r, ln))
                elif self.accept(";"):
                    stmts.append(("expr", e, ln))
                elif self.peek() == "}":
                    tail = e
                elif e[0] in ("if", "iflet", "blockexpr", "match"):     # (`match` as a statement, phase 4g: only skeleton mode `match_stmt` lowers it)
                    tail = e      # block-like expression statement; decided at the next iteration
                else:
                    self.fail("`;` expected")
        return (stmts, tail)

    # ---- expressions
    def expr(self, nostruct=False):
        if nostruct: return self.with_ns(True, lambda: self.expr())
        if self.kind() == "p" and self.peek() == "..":               # `..hi` (slice ranges)
            self.next()
            return ("range", None, self.binexpr(0), False)
        e = self.binexpr(0)
        if self.peek() in ("..", "..=") and self.kind() == "p":
            incl = self.next() == "..="
            if self.kind() == "p" and self.peek() in ("]", ")"):
                if incl: self.fail("`..=` without an upper bound")
                return ("range", e, None, False)               # `lo..`
            hi = self.binexpr(0)
            return ("range", e, hi, incl)
        return e

    def binexpr(self, lvl):
        if lvl == len(BINPREC): return self.castexpr()
        l = self.binexpr(lvl + 1)
        while self.kind() == "p" and self.peek() in BINPREC[lvl]:
            op = self.next()
            r = self.binexpr(lvl + 1)
            l = ("bin", op, l, r)
            if lvl == 2 and self.kind() == "p" and self.peek() in BINPREC[2]: self.fail("chained comparison")
        return l

    def castexpr(self):
        e = self.unary()
        while self.kind() == "id" and self.peek() == "as":
            self.next(); t = self.ty(); e = ("cast", e, t)
        return e

    def unary(self):
        if self.kind() == "p":
            if self.accept("!"): return ("un", "!", self.unary())
            if self.accept("-"): return ("un", "-", self.unary())
            if self.accept("*"): return ("deref", self.unary())
            if self.accept("&"):
                mut = self.accept("mut")
                return ("ref", mut, self.unary())
            if self.peek() == "&&": self.fail("double reference")
        return self.postfix()

    def args(self):
        a = []
        self.expect("(")
        def go():
            while not self.accept(")"):
                a.append(self.expr())
                if not self.accept(","): self.expect(")"); break
            return a
        return self.with_ns(False, go)

    def postfix(self):
        e = self.primary()
        while True:
            if self.peek() == "(" and self.kind() == "p":
                if e[0] != "path": self.fail("call of a non-path expression")
                e = ("call", e[1], self.args())
            elif self.peek() == "." and self.kind() == "p":
                self.next()
                if self.kind() == "num":
                    k, suf = parse_int(self.next())
                    if suf is not None: self.fail("tuple field access")
                    e = ("tfield", e, k); continue
                nm = self.ident()
                if self.peek() == "(" : e = ("mcall", e, nm, self.args())
                elif self.peek() == "::": self.fail("turbofish")
                else: e = ("field", e, nm)
            elif self.peek() == "[" and self.kind() == "p":
                self.next(); ix = self.with_ns(False, lambda: self.expr()); self.expect("]")
                e = ("index", e, ix)
            elif self.peek() == "?" : self.fail("`?` operator")
            else: return e

    def primary(self):
        k = self.kind(); p = self.peek()
        if k == "num":
            v, suf = parse_int(self.next()); return ("num", v, suf)
        if k == "float": return ("float", self.next())
        if k == "p" and p in ("(", "[", "{") and self.ns: return self.with_ns(False, lambda: self.primary())
        if k == "p" and p == "(":
            self.next()
            if self.accept(")"): return ("tuple", [])
            e = self.expr()
            if self.accept(","):
                els = [e]
                while not self.accept(")"):
                    els.append(self.expr())
                    if not self.accept(","): self.expect(")"); break
                return ("tuple", els)
            self.expect(")"); return ("paren", e)
        if k == "p" and p == "[":
            self.next(); els = []
            if self.accept("]"): return ("array", [])
            first = self.expr()
            if self.accept(";"):
                if self.kind() != "num": self.fail("array repeat length must be a literal")
                n = parse_int(self.next())[0]; self.expect("]")
                return ("array", [first] * n)
            els = [first]
            while not self.accept("]"):
                self.expect(",");
                if self.accept("]"): break
                els.append(self.expr())
            return ("array", els)
        if k == "p" and p == "{":
            return ("blockexpr", self.block())
        if k == "p" and p == "|": return self.closure()
        if k == "p" and p == "||": self.fail("closure without parameters")
        if k == "id":
            if p == "if":
                self.next()
                if self.peek() == "let":
                    # phase 4e: `if let Some(x) = e { .. }` (node `iflet`; handler mode only, the main lowering refuses the node)
                    self.next()
                    if self.peek() != "Some": self.fail("if let (pattern other than `Some(x)`)")
                    self.next(); self.expect("("); pv = self.ident(); self.expect(")"); self.expect("=")
                    sc = self.expr(nostruct=True); a = self.block(); b = None
                    if self.accept("else"): b = self.block()
                    return ("iflet", pv, sc, a, b)
                c = self.expr(nostruct=True); a = self.block(); b = None
                if self.accept("else"):
                    if self.peek() == "if": b = ([], self.primary())
                    else: b = self.block()
                return ("if", c, a, b)
            if p in ("true", "false"): self.next(); return ("bool", p == "true")
            if p == "match": return self.match_expr()
            if p == "unsafe" and self.peek(1) == "{" and getattr(self, "allow_continue", False):      # phase 4h (app mode only): a skeleton table must give it a reading
                self.next(); return ("unsafeexpr", self.block())
            if p in ("loop", "while", "for", "unsafe", "move", "return", "break"): self.fail(f"`{p}` in expression position")
            segs = [self.ident()]
            while self.accept("::"): segs.append(self.ident())
            if self.peek() == "!" and self.peek(1) in ("(", "[", "{"): return self.macro(segs[-1])
            if self.peek() == "{" and segs[-1][0].isupper() and not self.ns: return self.struct_lit(segs[-1])
            return ("path", segs)
        self.fail("expression expected")


    def closure(self):
        """`|x: T, y: U| body` (typed parameters, no `move`); body = block or expression.  Iterator adaptors (`for_each`) also take
        untyped parameters and one flat tuple pattern: `|c| ..`, `|(r, c)| ..`, `|(r, &c)| ..` (parameter type None / pattern); their body
        may be a single assignment `*r = e`"""
        self.expect("|"); params = []
        def pat():
            # parameter pattern: `x`, `&x`, `(p, q)`  (phase 4: iterator closures `|c|`, `|(r, &c)|`)
            if self.accept("&"): return ("refpat", self.ident())
            if self.accept("("):
                ps = []
                while not self.accept(")"):
                    ps.append(pat())
                    if not self.accept(","): self.expect(")"); break
                return ("tuplepat", ps)
            return self.ident()
        while not self.accept("|"):
            pn = pat()
            params.append((pn, self.ty() if self.accept(":") else None))
            if not self.accept(","): self.expect("|"); break
        if self.peek() == "->": self.fail("closure with a declared return type")
        if self.peek() == "{": body = self.block()
        else:
            ln = self.line(); e = self.expr()
            if self.peek() in ASSIGN_OPS and self.kind() == "p":      # `|c| *c = f(*c)`: an assignment as the closure body
                op = self.next(); r = self.expr()
                body = ([("assign", e, None if op == "=" else op[:-1], r, ln)], None)
            else: body = ([], e)
        return ("closure", params, body)

    def struct_lit(self, name):
        """`Name { f: e, g }` (field shorthand allowed; no `..base`)"""
        self.expect("{"); fields = []
        def go():
            while not self.accept("}"):
                if self.peek() == "..": self.fail("struct update syntax")
                f = self.ident()
                e = self.expr() if self.accept(":") else ("path", [f])
                fields.append((f, e))
                if not self.accept(","): self.expect("}"); break
            return ("structlit", name, fields)
        return self.with_ns(False, go)

    def macro(self, name):
        """`assert!(c, "msg")`, `assert_eq!(a, b, "msg")`, `panic!("msg")`, `vec![a, b]`, `vec![x; n]` - everything else is refused"""
        self.next()                                  # `!`
        if name == "unreachable":                    # phase 4j (rng mode only: the main lowering refuses the node)
            self.expect("("); self.expect(")"); return ("unreachable",)
        if name in ("assert", "panic", "assert_eq"):
            self.expect("(")
            def go():
                c = None
                if name == "assert": c = self.expr()
                if name == "assert_eq":                  # phase 4f: `assert_eq!(a, b, "msg")` = `assert!(a == b, "msg")` (operands evaluated left to right)
                    l = self.expr(); self.expect(","); r = self.expr()
                    return_eq = ("bin", "==", l, r)
                # the message (string literals are not tokens of the subset): skip to the matching `)`
                d = 1
                while d > 0:
                    if self.kind() == "eof": self.fail("unterminated macro")
                    t = self.next()
                    if t == "(": d += 1
                    elif t == ")": d -= 1
                if name == "assert_eq": return ("assert", return_eq)
                return ("assert", c) if name == "assert" else ("panic",)
            return self.with_ns(False, go)
        if name == "vec":
            self.expect("[")
            def go():
                if self.accept("]"): return ("vec", [])
                first = self.expr()
                if self.accept(";"):
                    n = self.expr(); self.expect("]"); return ("vecrep", first, n)
                els = [first]
                while not self.accept("]"):
                    self.expect(",")
                    if self.accept("]"): break
                    els.append(self.expr())
                return ("vec", els)
            return self.with_ns(False, go)
        self.fail(f"macro {name}!")

    def match_expr(self):
        """`match e { P | Q => a, R => b, _ => c }` with path / literal patterns only"""
        self.next()
        scrut = self.expr(nostruct=True)
        self.expect("{"); arms = []
        def go():
            while not self.accept("}"):
                pats = []
                while True:
                    if self.kind() == "id" and self.peek() == "_": self.next(); pats.append(("wild",))
                    elif self.kind() == "num": v, suf = parse_int(self.next()); pats.append(("num", v, suf))
                    elif self.kind() == "p" and self.peek() == "-" and self.kind(1) == "num":      # phase 4j: negative literal pattern
                        self.next(); v, suf = parse_int(self.next()); pats.append(("num", -v, suf))
                    elif self.kind() == "id":
                        segs = [self.ident()]
                        while self.accept("::"): segs.append(self.ident())
                        if self.peek() in ("(", "{"): self.fail("match pattern with fields")
                        pats.append(("path", segs))
                    else: self.fail("match pattern")
                    if not self.accept("|"): break
                if self.peek() == "if": self.fail("match guard")
                self.expect("=>")
                if self.peek() == "{" : body = ("blockexpr", self.block()); self.accept(",")
                else:
                    body = self.expr()
                    if not self.accept(","):
                        if self.peek() != "}": self.fail("`,` expected after match arm")
                arms.append((pats, body))
            return ("match", scrut, arms)
        return self.with_ns(False, go)


def parse_int(text):
    m = re.fullmatch(r"(0x[0-9a-fA-F_]+|[0-9][0-9_]*?)_?(%s)?" % INT_SUFFIX, text)
    if not m: raise Unsupported(f"bad integer literal {text}")
    return int(m.group(1).replace("_", ""), 0), m.group(2)


def find_fn(src_stripped, name, rel, lo=0, hi=None):
    """locate the unique `fn <name>(` item in comment-stripped source (between offsets lo..hi); returns (start offset, line)"""
    hi = len(src_stripped) if hi is None else hi
    ms = list(re.finditer(r"(?:\bpub(?:\([a-z]+\))?\s+)?\bfn\s+%s\s*\(" % re.escape(name), src_stripped[lo:hi]))
    if not ms: raise Unsupported(f"fn {name} not found in {rel}")
    if len(ms) > 1: raise Unsupported(f"fn {name} is defined {len(ms)} times in {rel}")
    return lo + ms[0].start(), src_stripped.count("\n", 0, lo + ms[0].start()) + 1


def brace_block(src, j, what):
    """offset just after the `}` matching the `{` at offset j"""
    d = 0
    for q in range(j, len(src)):
        if src[q] == "{": d += 1
        elif src[q] == "}":
            d -= 1
            if d == 0: return q + 1
    raise Unsupported(f"{what}: unbalanced braces")


def find_impl(src, impl, rel):
    """the unique `impl <impl> {` block (whitespace-insensitive header); returns (body start, body end, self type, aliases)"""
    pat = r"\bimpl\s+" + r"\s+".join(re.escape(w) for w in impl.split()) + r"\s*\{"
    ms = list(re.finditer(pat, src))
    if len(ms) != 1: raise Unsupported(f"`impl {impl}` found {len(ms)} times in {rel}")
    j = ms[0].end() - 1; end = brace_block(src, j, f"impl {impl}")
    body = src[j:end]
    aliases = {m.group(1): m.group(2) for m in re.finditer(r"\btype\s+(\w+)\s*=\s*(\w+)\s*;", body)}
    return j, end, impl.split()[-1], aliases


def parse_fn(repo, rel, name, impl=None, allow_continue=False, pre=None):
    src = strip_comments(open(os.path.join(repo, rel)).read())
    lo, hi, selfty, aliases = 0, None, None, {}
    if impl is not None:
        pat = r"\bimpl\s+" + r"\s+".join(re.escape(w) for w in impl.split()) + r"\s*\{"
        blocks = list(re.finditer(pat, src))
        if len(blocks) > 1:
            # phase 4: a type with several `impl T { .. }` blocks (RNSTool): the function must occur in exactly one of them
            hits = []
            for mb in blocks:
                j0 = mb.end() - 1; e0 = brace_block(src, j0, f"impl {impl}")
                if re.search(r"\bfn\s+%s\s*\(" % re.escape(name), src[j0:e0]): hits.append((j0, e0))
            if len(hits) != 1: raise Unsupported(f"fn {name} found in {len(hits)} of the {len(blocks)} `impl {impl}` blocks of {rel}")
            lo, hi = hits[0]; selfty = impl.split()[-1]
            aliases = {m.group(1): m.group(2) for m in re.finditer(r"\btype\s+(\w+)\s*=\s*(\w+)\s*;", src[lo:hi])}
        else: lo, hi, selfty, aliases = find_impl(src, impl, rel)
    off, line = find_fn(src, name, rel if impl is None else f"{rel} (impl {impl})", lo, hi)
    j = src.index("{", off); end = brace_block(src, j, f"fn {name} in {rel}")
    toks = tokenize(src[off:end] if pre is None else pre(src[off:end], name), line)      # `pre` (phase 4k): table-declared text rewrite (float erasure)
    p = Parser(toks, name); p.allow_continue = allow_continue
    fn = p.fn_item()
    end_line = toks[p.i - 1][2]
    norm = " ".join(t[1] for t in toks[:p.i])
    fn.update({"file": rel, "line0": line, "line1": end_line, "hash": hashlib.sha256(norm.encode()).hexdigest()[:16], "norm": norm,
               "selfty": selfty, "aliases": aliases, "impl": impl})
    return fn


def parse_struct(repo, rel, name):
    """fields of `struct <name> { a: T, pub b: U }` (plain named types only)"""
    src = strip_comments(open(os.path.join(repo, rel)).read())
    ms = list(re.finditer(r"\bstruct\s+%s\s*\{" % re.escape(name), src))
    if len(ms) != 1: raise Unsupported(f"struct {name} found {len(ms)} times in {rel}")
    j = ms[0].end() - 1; end = brace_block(src, j, f"struct {name}")
    fields = []
    for item in src[j + 1:end - 1].split(","):
        item = item.strip()
        if not item: continue
        m = re.fullmatch(r"(?:pub(?:\([a-z]+\))?\s+)?(\w+)\s*:\s*(\w+)", item)
        if not m: raise Unsupported(f"struct {name} in {rel}: field `{item}` is not `name: PlainType`")
        fields.append((m.group(1), m.group(2)))
    if not fields: raise Unsupported(f"struct {name} in {rel}: no fields")
    return fields


# ------------------------------------------------------------------------------------------------ lowering to a small monadic IR

WORD = ("u64", "usize", "u8", "int")


class Var:
    def __init__(self, kind, lean, ty=None, init=True, rust=None):
        self.kind, self.lean, self.ty, self.init, self.rust = kind, lean, ty, init, rust
    isref = False; vec = False; mut = False
    def copy(self):
        v = Var(self.kind, list(self.lean) if isinstance(self.lean, list) else self.lean, self.ty,
                list(self.init) if isinstance(self.init, list) else self.init, self.rust)
        v.isref, v.vec, v.mut = self.isref, self.vec, self.mut
        if hasattr(self, "closure"): v.closure = self.closure
        return v
    def names(self): return self.lean if isinstance(self.lean, list) else [self.lean]


def is_tup(t): return isinstance(t, tuple) and t[0] == "tuple"


class Val:
    def __init__(self, atom, ty, deps=(), widened=False, parts=None):
        self.atom, self.ty, self.deps, self.widened, self.parts = atom, ty, set(deps), widened, parts   # widened: a u64 value cast to u128


class Code:
    """ops: ('let', pat, expr) | ('bind', pat, mexpr) | ('letcode', pat, Code);  term: ('ret', expr) | ('tailm', mexpr) | ('call', expr) |
    ('if', cond, Code, Code)"""
    def __init__(self, ops, term): self.ops, self.term = ops, term
    def pure(self, fn_monadic):
        for o in self.ops:
            if o[0] == "bind": return False
            if o[0] == "letcode" and not o[2].pure(fn_monadic): return False
        t = self.term
        if t[0] == "tailm": return False
        if t[0] == "call": return not fn_monadic
        if t[0] == "if": return t[2].pure(fn_monadic) and t[3].pure(fn_monadic)
        return True


class K:
    """continuation: fn(env, val_or_None, ops) -> term; `live` = rust variables live when it is entered; identity = returns val unchanged"""
    def __init__(self, fn, live, identity=False, toplevel=False): self.fn, self.live, self.identity, self.toplevel = fn, set(live), identity, toplevel


def unparen(s):
    if s.startswith("(") and s.endswith(")"):
        d = 0
        for i, c in enumerate(s):
            if c == "(": d += 1
            elif c == ")":
                d -= 1
                if d == 0 and i != len(s) - 1: return s
        return s[1:-1]
    return s


def pat_names(p): return set(re.findall(r"[A-Za-z_][A-Za-z0-9_']*", p))


def strip_paren(e):
    while e[0] == "paren": e = e[1]
    return e


CLOSURE_CAPS = {}      # per function (set by FnTranslate.signature): closure local -> variables its body mentions


def uses(e, acc=None):
    """rust variable names occurring in an AST fragment (expressions, statements, blocks), conservatively"""
    acc = set() if acc is None else acc
    if isinstance(e, tuple):
        if len(e) >= 2 and e[0] == "path":
            if len(e[1]) == 1: acc.add(e[1][0])
            return acc
        if e and e[0] == "call":
            for a in e[2]: uses(a, acc)
            if len(e[1]) == 1 and e[1][0] in CLOSURE_CAPS: acc |= CLOSURE_CAPS[e[1][0]]     # a call of a local closure reads its captures
            return acc
        for x in e: uses(x, acc)
    elif isinstance(e, list):
        for x in e: uses(x, acc)
    return acc


def has_escape(x, in_loop=False):
    """does a block / statement / expression contain `return` (anywhere) or a `break` that leaves it"""
    if isinstance(x, list): return any(has_escape(y, in_loop) for y in x)
    if not isinstance(x, tuple) or not x: return False
    if x[0] == "return": return True
    if x[0] == "break": return not in_loop
    if x[0] in ("loop", "while", "for"): return any(has_escape(y, True) for y in x[1:] if isinstance(y, (tuple, list)))
    if x[0] in ("path", "num", "bool"): return False
    return any(has_escape(y, in_loop) for y in x if isinstance(y, (tuple, list)))


def has_panic_or_loop(x, with_for=False):
    """phase 4g (table option `panic_escape`): does a branch contain a `panic!` or a `loop` / `while`?  Such an `if` is lowered like one with a
    `return` inside: the continuation is duplicated into the branches (a panicking arm needs no merge value; a loop in an arm keeps the
    function's own continuation)"""
    if isinstance(x, list): return any(has_panic_or_loop(y, with_for) for y in x)
    if not isinstance(x, tuple) or not x: return False
    if x[0] in ("panic", "loop", "while") or (with_for and x[0] == "for"): return True      # (`for`: table option `for_escape`, phase 4m)
    if x[0] in ("path", "num", "bool"): return False
    return any(has_panic_or_loop(y, with_for) for y in x if isinstance(y, (tuple, list)))


def lvalue_root(e):
    e = strip_paren(e)
    if e[0] == "path" and len(e[1]) == 1: return e[1][0]
    if e[0] in ("deref", "index"): return lvalue_root(e[1])
    if e[0] == "ref": return lvalue_root(e[2])
    return None


def assigned(x, acc=None, declared=None, push=False):
    """rust names assigned (=, op=, &mut borrow, mem::swap) inside x, and names declared by `let` inside x"""
    acc = set() if acc is None else acc; declared = set() if declared is None else declared
    if isinstance(x, list):
        for y in x: assigned(y, acc, declared, push)
    elif isinstance(x, tuple) and x:
        if x[0] == "assign":
            r = lvalue_root(x[1])
            if r: acc.add(r)
            assigned(x[3], acc, declared, push)
        elif x[0] == "let":
            if isinstance(x[1], str): declared.add(x[1])
            else: declared.update(x[1][1])
            if x[4] is not None: assigned(x[4], acc, declared, push)
        elif x[0] == "ref" and x[1]:
            r = lvalue_root(x[2])
            if r: acc.add(r)
        elif x[0] == "mcall" and x[2] == "resize":
            r = lvalue_root(x[1])
            if r: acc.add(r)
            assigned(x[3], acc, declared)
        elif x[0] == "mcall" and x[2] in ("copy_from_slice", "fill"):      # (`fill`: phase 4k)
            r = lvalue_root(x[1])
            if r: acc.add(r)
            assigned(x[3], acc, declared)
        elif x[0] == "call":
            for a in x[2]:
                assigned(a, acc, declared, push)
                a2 = strip_paren(a)
                if a2[0] == "path" and len(a2[1]) == 1: acc.add(("maybe", a2[1][0]))   # bare out-parameter reborrow
        elif x[0] in ("path", "num", "bool"): pass
        else:
            if push and x[0] == "mcall" and x[2] == "push":  # phase 4d (soundness fix): `v.push(x)` mutates `v`; asked for by the merge of an `if`
                # statement only (loops pass a pushed-to vector on as a re-bound captured parameter, which is equivalent and what the
                # existing equalities are proved against)
                r = lvalue_root(x[1])
                if r: acc.add(r)
            for y in x:
                if isinstance(y, (tuple, list)): assigned(y, acc, declared, push)
    return acc, declared


# ---- phase 4: iterator chains `X.iter_mut().for_each(|c| ..)`, `X.iter_mut().zip(Y.iter()).for_each(|(r, c)| ..)` as index loops

def subst_iter(x, ref_names, val_names, ivar, fail):
    """closure body -> loop body: `*p` (p bound to an element reference) and `p` (bound by a `&p` pattern) become `X[ivar]`"""
    if isinstance(x, list): return [subst_iter(y, ref_names, val_names, ivar, fail) for y in x]
    if not isinstance(x, tuple) or not x: return x
    if x[0] == "deref":
        b = strip_paren(x[1])
        if b[0] == "path" and len(b[1]) == 1 and b[1][0] in ref_names:
            return ("index", ("path", [ref_names[b[1][0]]]), ("path", [ivar]))
    if x[0] == "path":
        if len(x[1]) == 1 and x[1][0] in val_names: return ("index", ("path", [val_names[x[1][0]]]), ("path", [ivar]))
        if len(x[1]) == 1 and x[1][0] in ref_names: fail(f"iterator closure uses the element reference `{x[1][0]}` other than as `*{x[1][0]}`")
        return x
    if x[0] == "closure": fail("closure inside an iterator closure")
    if x[0] == "let" and ((isinstance(x[1], str) and (x[1] in ref_names or x[1] in val_names))): fail("iterator closure shadows its parameter")
    return tuple(subst_iter(y, ref_names, val_names, ivar, fail) if isinstance(y, (tuple, list)) else y for y in x)


def desugar_iters(x, fail, ctr):
    """rewrite every statement `<iter chain>.for_each(<closure>)` of a block tree into `for it in 0..len { body }`.
    Accepted chains: `X.iter_mut()`, `X.iter_mut().zip(Y.iter())`, `X.iter().zip(Y.iter_mut())` with X, Y plain slice variables.
    `zip` stops at the shorter side: trip count = min(X.len(), Y.len()) (AST node `minlen`)."""
    def side(e):
        e = strip_paren(e)
        if e[0] == "mcall" and e[2] in ("iter", "iter_mut") and not e[3]:
            r = strip_paren(e[1])
            if r[0] == "path" and len(r[1]) == 1: return (r[1][0], e[2] == "iter_mut")
        fail("iterator chain: only `x.iter()` / `x.iter_mut()` of a slice variable (optionally one `.zip(..)`) is accepted")
    def bind(pat, sd, refs, vals):
        name, ismut = sd
        if isinstance(pat, str): refs[pat] = name
        elif pat[0] == "refpat":
            if ismut: fail("`&x` pattern on an `iter_mut()` element")
            vals[pat[1]] = name
        else: fail("iterator closure parameter pattern")
    def stmt(s):
        if not isinstance(s, tuple) or not s: return s
        if s[0] == "expr":
            e = strip_paren(s[1])
            if e[0] == "mcall" and e[2] == "for_each":
                if len(e[3]) != 1 or strip_paren(e[3][0])[0] != "closure": fail("for_each without a closure literal")
                clo = strip_paren(e[3][0]); recv = strip_paren(e[1])
                if len(clo[1]) != 1 or clo[1][0][1] is not None: fail("for_each closure must have one untyped parameter")
                pat = clo[1][0][0]; refs = {}; vals = {}
                if recv[0] == "mcall" and recv[2] == "zip" and len(recv[3]) == 1:
                    a, b = side(recv[1]), side(recv[3][0])
                    if not (isinstance(pat, tuple) and pat[0] == "tuplepat" and len(pat[1]) == 2): fail("zip closure parameter must be a pair pattern")
                    bind(pat[1][0], a, refs, vals); bind(pat[1][1], b, refs, vals)
                    if a[0] == b[0]: fail("zip of a slice with itself")
                    count = ("minlen", ("path", [a[0]]), ("path", [b[0]]))
                else:
                    a = side(recv)
                    if not a[1]: fail("for_each over a shared iterator (no effect)")
                    bind(pat, a, refs, vals)
                    count = ("mcall", ("path", [a[0]]), "len", [])
                ctr[0] += 1; ivar = f"it{ctr[0]}_"
                body = subst_iter([clo[2][0], clo[2][1]], refs, vals, ivar, fail)
                blk = (body[0], body[1])
                if blk[1] is not None: blk = (blk[0] + [("expr", blk[1], s[2] if len(s) > 2 else None)], None)
                return ("for", ivar, ("range", ("num", 0, None), count, False), block(blk), s[2] if len(s) > 2 else None)
            return ("expr", expr(s[1])) + tuple(s[2:])
        if s[0] == "let": return ("let", s[1], s[2], s[3], None if s[4] is None else expr(s[4]), s[5])
        if s[0] == "assign": return ("assign", s[1], s[2], expr(s[3]), s[4])
        if s[0] == "return": return ("return", None if s[1] is None else expr(s[1]), s[2])
        if s[0] == "loop": return ("loop", block(s[1]), s[2])
        if s[0] == "while": return ("while", s[1], block(s[2]), s[3])
        if s[0] == "for": return ("for", s[1], s[2], block(s[3]), s[4])
        return s
    def expr(e):
        if not isinstance(e, tuple) or not e: return e
        if e[0] == "if": return ("if", e[1], block(e[2]), None if e[3] is None else block(e[3]))
        if e[0] == "blockexpr": return ("blockexpr", block(e[1]))
        if e[0] == "paren": return ("paren", expr(e[1]))
        return e
    def block(blk):
        stmts, tail = blk
        if tail is not None:
            t0 = strip_paren(tail)
            if t0[0] == "mcall" and t0[2] == "for_each": stmts = stmts + [("expr", tail, None)]; tail = None
        return ([stmt(t) for t in stmts], None if tail is None else expr(tail))
    return block(x)


class FnLower:
    def __init__(self, tr, fn, opts):
        self.tr, self.fn, self.opts = tr, fn, opts
        self.name = opts.get("lean", fn["name"])
        self.nv = 0; self.nt = 0; self.nloop = 0
        self.aux = []            # rendered auxiliary (loop) definitions
        self.loop_brk = []       # stack of K for `break`
        self.loop_stack = []     # enclosing `for` loops whose body is being lowered: what a loop nested inside must pass on
        self.monadic_used = False
        self.namemap = []

    def fail(self, what, ln=None):
        raise Unsupported(f"{self.fn['file']}: fn {self.name}" + (f", line {ln}" if ln else "") + f": unsupported: {what}")

    def tmp(self): self.nt += 1; return f"t{self.nt}"
    def newvar(self, rust):
        self.nv += 1; n = f"v{self.nv}"; self.namemap.append(f"{n}={rust}"); return n

    # ---------------------------------------------------------------- types
    def wty(self, t, what="type"):
        if t[0] == "name" and t[1] == "isize": return "i64"            # 64-bit target (the harness): isize = i64
        if t[0] == "name" and t[1] in ("u64", "usize", "u8", "u128", "bool", "i64", "u32", "i32"): return t[1]
        self.fail(f"{what} {t}")

    # ---------------------------------------------------------------- liveness
    def live_block(self, blk, out, brk):
        stmts, tail = blk
        L = set(out)
        if tail is not None: L = self.live_expr(tail, L, brk)
        for s in reversed(stmts): L = self.live_stmt(s, L, brk)
        return L

    def live_expr(self, e, out, brk):
        if e[0] == "if":
            a = self.live_block(e[2], out, brk)
            b = self.live_block(e[3], out, brk) if e[3] is not None else set(out)
            return uses(e[1]) | a | b
        if e[0] == "blockexpr": return self.live_block(e[1], out, brk)
        if e[0] == "paren": return self.live_expr(e[1], out, brk)
        return set(out) | uses(e)

    def live_stmt(self, s, out, brk):
        k = s[0]
        if k == "let":
            L = set(out)
            if isinstance(s[1], str): L.discard(s[1])
            else: L -= set(s[1][1])
            return self.live_expr(s[4], L, brk) if s[4] is not None else L
        if k == "assign":
            lhs = strip_paren(s[1])
            if s[2] is None and lhs[0] == "path" and len(lhs[1]) == 1:
                L = set(out); L.discard(lhs[1][0]); return self.live_expr(s[3], L, brk)
            return set(out) | uses(s[1]) | uses(s[3])
        if k == "expr": return self.live_expr(s[1], out, brk)
        if k == "return": return (uses(s[1]) if s[1] is not None else set()) | self.ret_live
        if k == "break": return set(brk)
        if k in ("loop", "while", "for"):
            body = s[1] if k == "loop" else s[2] if k == "while" else s[3]
            base = set() if k == "loop" else (uses(s[1]) | set(out)) if k == "while" else (uses(s[2]) | set(out))
            H = set(base)
            while True:
                H2 = H | self.live_block(body, H, out)
                if H2 == H: return H
                H = H2
        self.fail(f"statement {k}")

    def live_rest(self, stmts, i, tail, k):
        brk = self.loop_brk[-1].live if self.loop_brk else set()
        return self.live_block((stmts[i:], tail), k.live, brk)

    # ---------------------------------------------------------------- expressions
    def lookup(self, env, name, ln=None):
        if name not in env: self.fail(f"unknown identifier `{name}`", ln)
        return env[name]

    def seq(self, thunks, ops):
        """evaluate thunks left to right; refuse when a later one re-binds a variable an earlier atom refers to"""
        vals = []
        for th in thunks:
            n0 = len(ops)
            v = th()
            bound = set()
            for o in ops[n0:]: bound |= pat_names(o[1])
            for w in vals:
                if isinstance(w, Val) and (w.deps & bound): self.fail("operand evaluated before a later operand re-assigns one of its variables")
            vals.append(v)
        return vals

    def ex(self, e, env, ops):
        r = self.ex_m(e, env, ops)
        if r[0] == "v": return r[1]
        t = self.tmp(); ops.append(("bind", t, r[1])); self.monadic_used = True
        return Val(t, r[2], [t])

    def ex_into(self, pat, e, env, ops):
        """bind the value of e to the Lean pattern/name `pat`"""
        e0 = strip_paren(e)
        if e0[0] == "if":
            code, ty = self.if_value(e0, env, ops)
            ops.append(("letcode", pat, code)); return ty
        r = self.ex_m(e, env, ops)
        if r[0] == "v": ops.append(("let", pat, unparen(r[1].atom))); return r[1].ty
        ops.append(("bind", pat, r[1])); self.monadic_used = True
        return r[2]

    def word(self, v, what):
        if v.ty not in WORD: self.fail(f"{what}: operand of type {v.ty}")
        return v

    def elem(self, var, k, ln=None):
        if k >= len(var.lean): self.fail(f"constant index {k} out of bounds for `{var.rust}` (width {len(var.lean)})", ln)
        return var.lean[k]

    def canon(self, e, env):
        """canonical source text of an accessor expression (handle locals replaced by what they stand for); None if not of that shape"""
        k = e[0]
        def c(x): return self.canon(x, env)
        def call_args(a):
            parts = [c(x) for x in a]
            return None if any(q is None for q in parts) else "(" + ", ".join(parts) + ")"
        if k == "paren": q = c(e[1]); return None if q is None else f"({q})"
        if k == "path":
            if len(e[1]) == 1 and e[1][0] in env and env[e[1][0]].kind == "handle": return env[e[1][0]].lean
            if len(e[1]) == 1 and e[1][0] in env and env[e[1][0]].kind != "handle": return None     # ordinary locals are not canonical
            return "::".join(e[1])
        if k == "num": return str(e[1])
        if k == "float": return e[1]
        if k == "bool": return "true" if e[1] else "false"          # round 7 (worker T): `c.flag = true` as a skeleton effect key
        if k == "mcall":
            r, a = c(e[1]), call_args(e[3]); return None if r is None or a is None else f"{r}.{e[2]}{a}"
        if k == "field": r = c(e[1]); return None if r is None else f"{r}.{e[2]}"
        if k == "tfield": r = c(e[1]); return None if r is None else f"{r}.{e[2]}"
        if k == "call": a = call_args(e[2]); return None if a is None else "::".join(e[1]) + a
        if k == "cast":
            r = c(e[1]); return None if r is None or e[2][0] != "name" else f"{r} as {e[2][1]}"
        if k == "un": r = c(e[2]); return None if r is None else e[1] + r
        if k == "deref": r = c(e[1]); return None if r is None else "*" + r
        if k == "ref": r = c(e[2]); return None if r is None else "&" + r
        if k == "bin":
            l, r = c(e[2]), c(e[3]); return None if l is None or r is None else f"{l} {e[1]} {r}"
        if k == "index":
            l, r = c(e[1]), c(e[2]); return None if l is None or r is None else f"{l}[{r}]"
        if k == "range" and e[1] is not None and e[2] is not None and not e[3]:      # (task S) `x[lo..hi]` inside a raw-pointer alias expression
            l, r = c(e[1]), c(e[2]); return None if l is None or r is None else f"{l}..{r}"
        return None

    def abstracted(self, e, env):
        """the table's abstraction entry for e (an accessor chain / float test the table declares to be an input), if any"""
        if not self.abs: return None
        c = self.canon(e, env)
        if c is None or c not in self.abs: return None
        self.abs_used.add(c)
        return (c, self.abs[c])

    def abs_in(self, x, env, acc=None):
        """abstracted inputs (binder, type) whose accessor chain occurs inside the AST fragment x (a loop captures them)"""
        acc = [] if acc is None else acc
        if isinstance(x, list):
            for y in x: self.abs_in(y, env, acc)
        elif isinstance(x, tuple) and x:
            if x[0] in ("field", "mcall", "bin", "cast", "un", "call", "path", "paren", "deref", "ref"):
                try: c = self.canon(x, env)
                except Exception: c = None
                if c is not None and self.abs.get(c) is not None and self.abs[c] not in acc: acc.append(self.abs[c])
            if x[0] in ("index", "mcall", "call"):
                try:
                    ai = self.abs_indexed(x, env, mark=False)
                    if ai is not None and ai[0] not in acc: acc.append(ai[0])
                    ex = self.extern_of(x, env)
                    if ex is not None and (ex[0]["binder"], self.ext_ty(ex[0])) not in acc: acc.append((ex[0]["binder"], self.ext_ty(ex[0])))
                except Unsupported: pass
            for y in x:
                if isinstance(y, (tuple, list)): self.abs_in(y, env, acc)
        return acc

    ABS_TY = {"Nat": "usize", "Int": "i64", "Modulus": "mod", "MulOperand": ("struct", "MultiplyU64ModOperand"), "List Nat": "list"}
    # abstracted getters that return an object: Lean type -> (variable kind, value type).  Slices of structs (`&Vec<Modulus>`,
    # `&Vec<MultiplyU64ModOperand>`) are read-only lists: only `.len()` and (checked) indexing are accepted on them
    ABS_OBJ = {"List Nat": ("list", "list"), "Modulus": ("mod", "mod"), "List Modulus": ("modlist", "modlist"),
               "List MulOperand": ("moplist", "moplist")}
    ABS_IDX = {"List Modulus": ("idxMod", "mod"), "List MulOperand": ("idxOp", ("struct", "MultiplyU64ModOperand")), "List Nat": ("idx", "u64"),
               "List (List Nat)": ("idxRow", "list")}      # phase 4f: a `Vec<Vec<u64>>` field; `&m[i]` is a (read-only) row

    def abs_indexed(self, e, env, mark=True):
        """phase 4: an INDEXED abstraction - `<chain>[i]` / `<chain>.m(i)` where the table lists `<chain>[#]` / `<chain>.m(#)` as a list
        input: returns ((binder, type), index expression)"""
        if not getattr(self, "abs", None): return None
        e = strip_paren(e)
        if e[0] == "index" and strip_paren(e[2])[0] != "range":
            c = self.canon(e[1], env); key = None if c is None else f"{c}[#]"; ix = e[2]
        elif e[0] == "mcall" and len(e[3]) == 1:
            c = self.canon(e[1], env); key = None if c is None else f"{c}.{e[2]}(#)"; ix = e[3][0]
        else: return None
        if key is None or self.abs.get(key) is None: return None
        if mark: self.abs_used.add(key)
        return (self.abs[key], ix)

    def extern_of(self, e, env):
        """phase 4: a call the table declares to be an abstract FUNCTION input `F : Nat -> List Nat -> R (List Nat)` (table index, data):
        `path(&mut data, &tables[i])` or `tables[i].method(&mut data)`; returns (entry, index expr, data argument, receiver first?)"""
        exts = self.opts.get("extern", [])
        if not exts: return None
        e = strip_paren(e)
        def tab_index(x, ent):
            x = strip_paren(x)
            if x[0] == "ref" and not x[1]: x = strip_paren(x[2])
            if x[0] == "index" and self.canon(x[1], env) == ent["tables"]: return x[2]
            return None
        if e[0] == "call" and len(e[2]) == 2:
            for ent in exts:
                if ent.get("call") == "::".join(e[1]):
                    ix = tab_index(e[2][1], ent)
                    if ix is None: self.fail(f"extern `{ent['call']}`: second argument is not `&{ent['tables']}[i]`")
                    return (ent, ix, e[2][0], False)
        if e[0] == "call" and len(e[2]) == 1:
            # phase 4k: a free function of ONE `&[u64]` argument returning a u64 (`F : List Nat -> Nat`): stands for a float computation erased by
            # the table (`pre_text`), e.g. `round_q(&temp[a..b])`
            for ent in exts:
                if ent.get("fcall") == "::".join(e[1]): return (ent, None, e[2][0], "fcall")
        if e[0] == "mcall" and len(e[3]) == 1:
            for ent in exts:
                if ent.get("mcall") == e[2]:
                    ix = tab_index(e[1], ent)
                    if ix is not None: return (ent, ix, e[3][0], True)
        if e[0] == "mcall" and len(e[3]) == 2:
            # phase 4f: `<accessor chain>.method(&input, &mut output)` on an object the translator does not model (a `BaseConverter` field of
            # `RNSTool`): an abstract FUNCTION input `F : List Nat -> List Nat -> R (List Nat)` (input, old output |-> new output)
            rc = None
            try: rc = self.canon(e[1], env)
            except Exception: rc = None
            if rc is not None:
                for ent in exts:
                    if ent.get("rcall") == f"{rc}.{e[2]}": return (ent, None, (e[3][0], e[3][1]), "rcall")
        return None

    RCALL_TY = "List Nat → List Nat → R (List Nat)"
    def ext_ty(self, ent): return self.RCALL_TY if "rcall" in ent else "List Nat → Nat" if "fcall" in ent else self.EXTERN_TY

    def ex_m(self, e, env, ops):
        k = e[0]
        if k == "val": return ("v", e[1])
        if k == "paren": return self.ex_m(e[1], env, ops)
        ab = self.abstracted(e, env)
        if ab is not None:
            c, ent = ab
            if ent is None: self.fail(f"`{c}` is an opaque handle but is used as a value")
            name, ty = ent
            if ty == "Bool": return ("v", Val(f"({name} = true)", "bool", [name]))
            if ty in self.ABS_TY: return ("v", Val(name, self.ABS_TY[ty], [name]))
            if ty in self.tr.enums_lean: return ("v", Val(name, ("enum", self.tr.enums_lean[ty]), [name]))
            if ty in self.ABS_OBJ: return ("v", Val(name, self.ABS_OBJ[ty][1], [name]))
            self.fail(f"abstraction `{c}` of type {ty}")
        ai = self.abs_indexed(e, env)
        if ai is not None:
            (name, ty), ixe = ai
            if ty not in self.ABS_IDX: self.fail(f"indexed abstraction of type {ty}")
            i = self.word(self.ex(ixe, env, ops), "index")
            self.monadic_used = True
            return ("m", f"{self.ABS_IDX[ty][0]} {name} {i.atom}", self.ABS_IDX[ty][1])
        if k == "minlen":
            a, b = self.lookup(env, e[1][1][0]), self.lookup(env, e[2][1][0])
            if a.kind != "list" or b.kind != "list": self.fail("zip of something that is not a slice")
            return ("v", Val(f"(min {a.lean}.length {b.lean}.length)", "usize", [a.lean, b.lean]))
        if k == "tfield":
            b = strip_paren(e[1])
            if b[0] == "path" and len(b[1]) == 1 and self.lookup(env, b[1][0]).kind == "tup":
                v = env[b[1][0]]; tys = v.ty[1]
                if e[2] >= len(tys): self.fail(f"tuple field .{e[2]} of a {len(tys)}-tuple")
                proj = ".2" * e[2] + (".1" if e[2] < len(tys) - 1 else "")
                return ("v", Val(f"{v.lean}{proj}", tys[e[2]], [v.lean]))
            self.fail("tuple field access on something that is not a local bound to a tuple result")
        if k == "float": self.fail(f"float literal {e[1]} outside an abstracted expression")
        if k == "structlit": return self.struct_lit(e, env, ops)
        if k == "match": return self.match_value(e, env, ops)
        if k in ("vec", "vecrep"): return self.vec_lit(e, env, ops)
        if k == "num":
            if e[2] in ("i64", "isize"): return ("v", Val(f"(Int.ofNat {e[1]})", "i64"))
            if e[2] not in (None, "u64", "usize", "u8"): self.fail(f"integer literal with suffix {e[2]}")
            return ("v", Val(str(e[1]), e[2] or "int"))
        if k == "bool": return ("v", Val("True" if e[1] else "False", "bool"))
        if k == "path":
            if len(e[1]) != 1:
                if len(e[1]) >= 2 and e[1][-2] in self.tr.enums and e[1][-1] in self.tr.enums[e[1][-2]]["ctors"]:      # phase 4d: `Enum::Variant` as a value
                    en = self.tr.enums[e[1][-2]]
                    return ("v", Val(f"{en['lean']}{en['ctors'][e[1][-1]]}", ("enum", e[1][-2])))
                if e[1][-1] in self.consts: return ("v", Val(str(self.consts[e[1][-1]][0]), self.consts[e[1][-1]][1]))
                self.fail(f"path {'::'.join(e[1])}")
            if e[1][0] not in env and e[1][0] in self.consts: return ("v", Val(str(self.consts[e[1][0]][0]), self.consts[e[1][0]][1]))
            v = self.lookup(env, e[1][0])
            if v.kind == "w":
                if not v.init: self.fail(f"read of uninitialised variable `{e[1][0]}`")
                return ("v", Val(v.lean, v.ty, [v.lean]))
            if v.kind == "b": return ("v", Val(f"({v.lean} = true)", "bool", [v.lean]))
            if v.kind == "mod": return ("v", Val(v.lean, "mod", [v.lean]))
            if v.kind == "mulop": return ("v", Val(v.lean, ("struct", "MultiplyU64ModOperand"), [v.lean]))
            if v.kind == "struct": return ("v", Val(v.lean, ("struct", v.ty), [v.lean]))
            if v.kind == "val": return ("v", Val(v.lean, v.ty, [v.lean]))
            if v.kind == "list": return ("v", Val(v.lean, "list", [v.lean]))
            if v.kind == "ilist": return ("v", Val(v.lean, "ilist", [v.lean]))
            if v.kind in ("modlist", "moplist"): return ("v", Val(v.lean, v.kind, [v.lean]))
            self.fail(f"use of `{e[1][0]}` ({v.kind}) as a value")
        if k == "deref":
            b = strip_paren(e[1])
            if b[0] == "path" and len(b[1]) == 1 and self.lookup(env, b[1][0]).kind == "out":
                v = env[b[1][0]]
                if not v.init: self.fail(f"read of out-parameter `*{b[1][0]}` before assignment (internal: should be in-out)")
                return ("v", Val(v.lean, v.ty, [v.lean]))
            if b[0] == "path" and len(b[1]) == 1 and self.lookup(env, b[1][0]).kind in ("w", "mod", "struct", "mulop") and getattr(env[b[1][0]], "isref", False):
                return self.ex_m(b, env, ops)             # `*r` of a shared reference parameter: the value
            self.fail("dereference of something that is not a reference parameter")
        if k == "index" and strip_paren(e[2])[0] == "range":
            return ("v", self.list_arg(e, env, ops, "sub-slice"))
        if k == "index":
            b = strip_paren(e[1]); ix = strip_paren(e[2])
            if b[0] == "mcall" and b[2] == "const_ratio" and not b[3]:
                m = self.modvar(b[1], env)
                if ix[0] != "num" or ix[1] > 2: self.fail("const_ratio() index must be a literal 0..2")
                return ("v", Val(f"{m}.cr{ix[1]}", "u64", [m]))
            if b[0] == "path" and len(b[1]) == 1:
                v = self.lookup(env, b[1][0])
                if v.kind == "cr":
                    if ix[0] != "num" or ix[1] > 2: self.fail("const_ratio index must be a literal 0..2")
                    return ("v", Val(f"{v.lean}.cr{ix[1]}", "u64", [v.lean]))
                if v.kind in ("arr", "outarr"):
                    if ix[0] != "num": self.fail(f"non-constant index into fixed array `{b[1][0]}`")
                    n = self.elem(v, ix[1])
                    if v.kind == "outarr" and not v.init[ix[1]]: self.fail(f"read of `{b[1][0]}[{ix[1]}]` before assignment (internal)")
                    return ("v", Val(n, "u64", [n]))
                if v.kind == "list":
                    i = self.word(self.ex(e[2], env, ops), "index")
                    self.monadic_used = True
                    return ("m", f"idx {v.lean} {i.atom}", "u64")
                if v.kind in ("modlist", "moplist"):
                    # element of a read-only slice of structs (`&coeff_modulus[j]`): bounds-checked, the element is a value
                    i = self.word(self.ex(e[2], env, ops), "index")
                    self.monadic_used = True
                    return ("m", f"idxT {v.lean} {i.atom}", "mod" if v.kind == "modlist" else ("struct", "MultiplyU64ModOperand"))
            self.fail("index expression")
        if k == "field":
            b = strip_paren(e[1])
            if b[0] == "path" and len(b[1]) == 1 and self.lookup(env, b[1][0]).kind == "mulop" and e[2] in ("operand", "quotient"):
                return ("v", Val(f"{env[b[1][0]].lean}.{e[2]}", "u64", [env[b[1][0]].lean]))
            if b[0] == "path" and len(b[1]) == 1 and self.lookup(env, b[1][0]).kind == "struct":
                v = env[b[1][0]]; st = self.tr.structs[v.ty]
                ft = dict(st["fields"]).get(e[2])
                if ft is None: self.fail(f"struct {v.ty} has no field {e[2]}")
                if ft in ("u64", "usize"): return ("v", Val(f"{v.lean}.{e[2]}", ft, [v.lean]))
                if ft == "Modulus": return ("v", Val(f"{v.lean}.{e[2]}", "mod", [v.lean]))
                self.fail(f"field {e[2]} of type {ft}")
            self.fail(f"field access .{e[2]}")
        if k == "mcall": return self.mcall(e, env, ops)
        if k == "un" and e[1] == "-": return self.neg(e, env, ops)
        if k == "un":
            v = self.ex(e[2], env, ops)
            if e[1] == "!":
                if v.ty == "bool": return ("v", Val(f"(¬ {v.atom})", "bool", v.deps))
                if v.ty in ("u64", "usize"): return ("v", Val(f"(notW {v.atom})", v.ty, v.deps))
            self.fail(f"unary {e[1]} on {v.ty}")
        if k == "un" and False: pass
        if k == "cast": return self.cast(e, env, ops)
        if k == "bin": return self.binop(e, env, ops)
        if k == "call": return self.call(e, env, ops)
        if k == "tuple" and e[1]:
            vals = self.seq([(lambda x=x: self.ex(x, env, ops)) for x in e[1]], ops)
            deps = set()
            for v in vals: deps |= v.deps
            return ("v", Val("(" + ", ".join(unparen(v.atom) for v in vals) + ")", ("tuple", [v.ty for v in vals]), deps, parts=[v.atom for v in vals]))
        if k == "if":
            code, ty = self.if_value(e, env, ops)
            t = self.tmp(); ops.append(("letcode", t, code)); return ("v", Val(t, ty, [t]))
        if k == "ref" and not e[1]: return self.ex_m(e[2], env, ops)        # `&x` of a value: shared borrow = the value
        self.fail(f"expression form `{k}`")

    def struct_lit(self, e, env, ops):
        _, name, fields = e
        if name == "Self": name = self.fn["selfty"]
        st = self.tr.structs.get(name)
        if st is None: self.fail(f"struct literal of unregistered struct {name}")
        if sorted(f for f, _ in fields) != sorted(f for f, _ in st["fields"]):
            self.fail(f"struct literal {name}: fields {[f for f, _ in fields]} do not match the definition {[f for f, _ in st['fields']]}")
        vals = self.seq([(lambda x=x: self.ex(x, env, ops)) for _, x in fields], ops)
        deps = set(); parts = []
        for (f, _), v in zip(fields, vals):
            ft = dict(st["fields"])[f]
            if ft in ("u64", "usize"):
                if v.ty not in WORD: self.fail(f"field {f}: value of type {v.ty}")
            elif ft == "Modulus":
                if v.ty != "mod": self.fail(f"field {f}: value of type {v.ty}")
            else: self.fail(f"field {f} of type {ft}")
            deps |= v.deps; parts.append(f"{f} := {unparen(v.atom)}")
        return ("v", Val("{ " + ", ".join(parts) + f" : {st['lean']} }}", ("struct", name), deps))

    def match_value(self, e, env, ops):
        """`match` on an enum-typed abstraction, as a value: lowered to an if-chain on (decidable) equalities; a missing `_` arm
        makes the last arm the else branch (rustc has checked exhaustiveness; every pattern must still be a mapped variant)"""
        _, scrut, arms = e
        sv = self.ex(scrut, env, ops)
        if not (isinstance(sv.ty, tuple) and sv.ty[0] == "enum"): self.fail(f"match on a value of type {sv.ty}")
        ctors = self.tr.enums[sv.ty[1]]["ctors"]
        chain = None
        for j, (pats, body) in reversed(list(enumerate(arms))):
            wild = any(p[0] == "wild" for p in pats)
            if wild and j != len(arms) - 1: self.fail("`_` arm that is not the last one")
            blk = body[1] if body[0] == "blockexpr" else ([], body)
            conds = []
            if not wild:
                for p in pats:
                    if p[0] != "path" or p[1][-1] not in ctors: self.fail(f"match pattern {p} (not a mapped variant of {sv.ty[1]})")
                    conds.append(f"{sv.atom} = {ctors[p[1][-1]]}")
            if chain is None: chain = blk[1] if (not blk[0] and blk[1] is not None) else ("blockexpr", blk); continue
            cv = Val("(" + " ∨ ".join(conds) + ")", "bool", sv.deps)
            chain = ("if", ("val", cv), blk, ([], chain))
        return self.ex_m(chain, env, ops)

    def vec_lit(self, e, env, ops):
        if e[0] == "vecrep":
            x, n = self.seq([lambda: self.ex(e[1], env, ops), lambda: self.ex(e[2], env, ops)], ops)
            if x.ty not in WORD or n.ty not in WORD: self.fail(f"vec![x; n] with x : {x.ty}, n : {n.ty}")
            return ("v", Val(f"(List.replicate {n.atom} {x.atom})", "list", x.deps | n.deps))
        if not e[1]: return ("v", Val("(List.nil (α := Nat))", "list"))
        vals = self.seq([(lambda x=x: self.ex(x, env, ops)) for x in e[1]], ops)
        deps = set()
        for v in vals:
            if v.ty not in WORD: self.fail(f"vec! element of type {v.ty}")
            deps |= v.deps
        return ("v", Val("[" + ", ".join(unparen(v.atom) for v in vals) + "]", "list", deps))

    def modvar(self, e, env):
        e = strip_paren(e)
        if e[0] == "path" and len(e[1]) == 1 and self.lookup(env, e[1][0]).kind == "mod": return env[e[1][0]].lean
        self.fail("method receiver is not a `&Modulus` parameter")

    def mcall(self, e, env, ops):
        recv, m, args = strip_paren(e[1]), e[2], e[3]
        exn = self.extern_of(e, env)
        if exn is not None: return self.extern_call(exn, env, ops)
        r0 = strip_paren(recv[2]) if recv[0] == "ref" and not recv[1] else recv
        if m in ("value", "bit_count", "reduce") and not (r0[0] == "path" and len(r0[1]) == 1 and r0[1][0] in env and env[r0[1][0]].kind != "handle") \
                and (self.abstracted(r0, env) is not None or self.abs_indexed(r0, env, mark=False) is not None
                     or (r0[0] == "index" and strip_paren(r0[1])[0] == "path" and len(strip_paren(r0[1])[1]) == 1 and strip_paren(r0[1])[1][0] in env
                         and env[strip_paren(r0[1])[1][0]].kind == "modlist")):          # round 7 (worker T): `moduli[i].value()` on a `&[Modulus]` parameter
            rv = self.ex(r0, env, ops)                      # a modulus obtained from an abstracted accessor (`self.t`, `base_q[i]`)
            if rv.ty != "mod": self.fail(f"method {m}() on a value of type {rv.ty}")
            if m == "value" and not args: return ("v", Val(f"{rv.atom}.value", "u64", rv.deps))
            if m == "bit_count" and not args: return ("v", Val(f"{rv.atom}.bits", "usize", rv.deps))
            recv = ("val", rv)
        if m == "reduce" and len(args) == 1 and (recv[0] == "val" or (recv[0] == "path" and len(recv[1]) == 1 and recv[1][0] in env and env[recv[1][0]].kind == "mod")):
            sig = self.tr.msigs.get(("Modulus", "reduce"))
            if sig is None: self.fail("Modulus::reduce is not a translated function")
            return self.call_sig(sig, "Modulus::reduce", [recv] + list(args), env, ops)
        if recv[0] == "path" and len(recv[1]) == 1 and recv[1][0] in env and env[recv[1][0]].kind == "mod":
            lean = env[recv[1][0]].lean
            if m == "value" and not args: return ("v", Val(f"{lean}.value", "u64", [lean]))
            if m == "bit_count" and not args: return ("v", Val(f"{lean}.bits", "usize", [lean]))
            sig = self.tr.msigs.get(("Modulus", m))
            if sig is not None: return self.call_sig(sig, f"Modulus::{m}", [recv] + list(args), env, ops)
            self.fail(f"Modulus method {m}()")
        if recv[0] == "path" and len(recv[1]) == 1 and recv[1][0] in env and env[recv[1][0]].kind in ("struct", "mulop"):
            v = env[recv[1][0]]; sname = v.ty if v.kind == "struct" else "MultiplyU64ModOperand"
            sig = self.tr.msigs.get((sname, m))
            if sig is None: self.fail(f"method {sname}::{m} is not a translated function")
            return self.call_sig(sig, f"{sname}::{m}", [recv] + list(args), env, ops)
        if recv[0] == "path" and len(recv[1]) == 1 and recv[1][0] in env and env[recv[1][0]].kind == "list" and getattr(env[recv[1][0]], "vec", False):
            v = env[recv[1][0]]
            if m == "resize" and len(args) == 2 and v.mut:
                nn, fill = self.seq([lambda: self.ex(args[0], env, ops), lambda: self.ex(args[1], env, ops)], ops)
                if nn.ty not in WORD or fill.ty not in WORD: self.fail("Vec::resize arguments")
                ops.append(("let", v.lean, f"resizeL {v.lean} {nn.atom} {fill.atom}"))
                return ("v", Val("()", "unit"))
            if m == "push" and len(args) == 1:
                a = self.ex(args[0], env, ops)
                if a.ty not in WORD: self.fail(f"push of a {a.ty}")
                ops.append(("let", v.lean, f"{v.lean} ++ [{unparen(a.atom)}]"))
                return ("v", Val("()", "unit"))
            if m == "reserve" and len(args) == 1:
                self.ex(args[0], env, ops)                 # capacity hint: only the (checked) evaluation of the argument is observable
                return ("v", Val("()", "unit"))
        if m == "to_vec" and not args and recv[0] == "path" and len(recv[1]) == 1 and recv[1][0] in env and env[recv[1][0]].kind == "list":
            return ("v", Val(env[recv[1][0]].lean, "list", [env[recv[1][0]].lean]))      # a copy: the same value
        if m == "to_vec" and not args and recv[0] == "index" and strip_paren(recv[2])[0] == "range":      # phase 4m: `x[lo..hi].to_vec()`: a copy of a (bounds-checked) sub-slice
            return ("v", self.list_arg(recv, env, ops, "to_vec"))
        if m in ("max", "min") and len(args) == 1:
            a, b = self.seq([lambda: self.ex(recv, env, ops), lambda: self.ex(args[0], env, ops)], ops)
            if a.ty in ("u64", "usize") and b.ty in ("u64", "usize", "int"):
                return ("v", Val(f"({m} {a.atom} {b.atom})", a.ty, a.deps | b.deps))
            if a.ty == "i64" and b.ty in ("i64", "int"):      # phase 4m: `x.max(0)` on isize / i64 (Int.max / Int.min)
                return ("v", Val(f"({m} {a.atom} {b.atom})", "i64", a.deps | b.deps))
            self.fail(f"{m} on {a.ty}, {b.ty}")
        if m == "contains" and len(args) == 1 and recv[0] == "range":
            x = strip_paren(args[0])
            if x[0] == "ref" and not x[1]: x = x[2]
            lo, hi, xv = self.seq([lambda: self.ex(recv[1], env, ops), lambda: self.ex(recv[2], env, ops), lambda: self.ex(x, env, ops)], ops)
            for v in (lo, hi, xv):
                if v.ty not in WORD: self.fail(f"range contains on {v.ty}")
            return ("v", Val(f"({lo.atom} ≤ {xv.atom} ∧ {xv.atom} {'≤' if recv[3] else '<'} {hi.atom})", "bool", lo.deps | hi.deps | xv.deps))
        if m == "push" and len(args) == 1 and recv[0] == "path" and len(recv[1]) == 1 and recv[1][0] in env and env[recv[1][0]].kind == "ilist":
            v = env[recv[1][0]]; a = self.ex(args[0], env, ops)
            if a.ty not in ("i32", "int"): self.fail(f"push of a {a.ty} onto a Vec<i32>")
            ops.append(("let", v.lean, f"{v.lean} ++ [{unparen(a.atom)}]"))
            return ("v", Val("()", "unit"))
        if m == "abs" and not args and self.is_i32(recv, env):
            a = self.ex(recv, env, ops)
            self.monadic_used = True                       # `i32::abs`: i32::MIN panics with overflow checks
            return ("m", f"ckI32 (Int.ofNat (Int.natAbs {a.atom}))", "i32")
        if m == "abs" and not args:
            a = self.ex(recv, env, ops)
            if a.ty != "i64": self.fail("abs on " + str(a.ty))
            self.monadic_used = True                       # `i64::abs` negates with the crate's overflow checks: i64::MIN panics
            return ("m", f"ckI64 (Int.ofNat (Int.natAbs {a.atom}))", "i64")
        if m == "unsigned_abs" and not args:
            a = self.ex(recv, env, ops)
            if a.ty != "i64": self.fail("unsigned_abs on " + str(a.ty))
            return ("v", Val(f"(Int.natAbs {a.atom})", "u64", a.deps))
        if recv[0] == "path" and len(recv[1]) == 1 and recv[1][0] in env and env[recv[1][0]].kind in ("list", "modlist", "moplist"):
            if m == "len" and not args: return ("v", Val(f"{env[recv[1][0]].lean}.length", "usize", [env[recv[1][0]].lean]))
            if m == "is_empty" and not args: return ("v", Val(f"({env[recv[1][0]].lean}.length = 0)", "bool", [env[recv[1][0]].lean]))      # phase 4k
            if m == "fill" and len(args) == 1 and env[recv[1][0]].kind == "list" and getattr(env[recv[1][0]], "mut", False):              # phase 4k: `x.fill(w)`
                a = self.word(self.ex(args[0], env, ops), "fill value")
                ops.append(("let", env[recv[1][0]].lean, f"List.replicate {env[recv[1][0]].lean}.length {a.atom}"))
                return ("v", Val("()", "unit"))
            self.fail(f"slice method {m}()")
        if m in ("wrapping_add", "wrapping_sub", "wrapping_mul") and len(args) == 1:
            a, b = self.seq([lambda: self.ex(recv, env, ops), lambda: self.ex(args[0], env, ops)], ops)
            for v in (a, b):
                if v.ty not in ("u64", "usize", "int"): self.fail(f"{m} on {v.ty}")
            if a.ty == "int" and b.ty == "int": self.fail(f"{m} on untyped literals")
            f = {"wrapping_add": "wAdd", "wrapping_sub": "wSub", "wrapping_mul": "wMul"}[m]
            return ("v", Val(f"({f} {a.atom} {b.atom})", a.ty if a.ty != "int" else b.ty, a.deps | b.deps))
        if m == "cmp" and len(args) == 1:                  # phase 4d: `a.cmp(&b)` on words
            b0 = strip_paren(args[0])
            if b0[0] == "ref" and not b0[1]: b0 = b0[2]
            a, b = self.seq([lambda: self.ex(recv, env, ops), lambda: self.ex(b0, env, ops)], ops)
            if a.ty not in ("u64", "usize") or b.ty not in ("u64", "usize"): self.fail(f"cmp on {a.ty}, {b.ty}")
            return ("v", Val(f"(cmpW {a.atom} {b.atom})", ("enum", "Ordering"), a.deps | b.deps))
        if m == "reverse_bits" and not args:
            a = self.ex(recv, env, ops)
            if a.ty not in ("u32", "u64"): self.fail("reverse_bits on " + str(a.ty))
            return ("v", Val(f"(revBits {32 if a.ty == 'u32' else 64} {a.atom})", a.ty, a.deps))
        if m == "leading_zeros" and not args:
            a = self.ex(recv, env, ops)
            if a.ty != "u64": self.fail("leading_zeros on " + a.ty)
            return ("v", Val(f"(clz64 {a.atom})", "u32", a.deps))
        self.fail(f"method call .{m}()")

    def cast(self, e, env, ops):
        dst = self.wty(e[2], "cast to")
        inner = strip_paren(e[1])
        v = self.ex(e[1], env, ops)
        if v.ty == "bool":
            if dst in ("u8", "u64", "usize"): return ("v", Val(f"(if {unparen(v.atom)} then 1 else 0)", dst, v.deps))
            self.fail(f"cast bool -> {dst}")
        if v.ty in ("u8", "int") and dst in ("u8", "u64", "usize"): return ("v", Val(v.atom, dst, v.deps))
        if v.ty in ("u64", "usize") and dst in ("u64", "usize"): return ("v", Val(v.atom, dst, v.deps))
        if v.ty == "u32" and dst in ("u64", "usize", "u32"): return ("v", Val(v.atom, dst, v.deps))
        if v.ty in ("u64", "usize", "int") and dst == "u32": return ("v", Val(f"({v.atom} % 4294967296)", "u32", v.deps))     # truncating cast
        if v.ty in ("u64", "usize", "int") and dst == "i64": return ("v", Val(f"(asI64 {v.atom})", "i64", v.deps))
        if v.ty == "i64" and dst in ("u64", "usize"): return ("v", Val(f"(asU64 {v.atom})", dst, v.deps))      # (`as usize`, phase 4m: 64-bit target)
        if v.ty in ("u8", "u64", "usize") and dst == "u128": return ("v", Val(v.atom, "u128", v.deps, widened=True))
        if v.ty == "u128" and dst == "u64":
            if inner[0] == "bin" and inner[1] == ">>" and strip_paren(inner[3])[0] == "num" and strip_paren(inner[3])[1] >= 64:
                return ("v", Val(v.atom, "u64", v.deps))          # (x: u128 >> 64) < 2^64: the truncation is a no-op
            return ("v", Val(f"({v.atom} % B64)", "u64", v.deps))
        self.fail(f"cast {v.ty} -> {dst}")

    def binop(self, e, env, ops):
        op = e[1]
        if op in ("<<", ">>") and strip_paren(e[3])[0] != "num" and self.const_int(e[3]) is not None:
            e = ("bin", op, e[2], ("num", self.const_int(e[3]), None))          # constant-folded shift amount
        if op in ("&&", "||"):
            l = self.ex(e[2], env, ops)
            ops2 = []
            r = self.ex(e[3], env, ops2)
            if l.ty != "bool" or r.ty != "bool": self.fail(f"`{op}` on non-bool")
            if ops2:
                # short circuit with an effectful right operand: `l && r` = `if l { r } else { false }` (`||`: `if l { true } else { r }`)
                for o in ops2:
                    if pat_names(o[1]) & set(n for v in env.values() if v.kind != "handle" for n in (v.names() if v.kind != "cr" else [])):
                        self.fail(f"right operand of `{op}` assigns a variable")
                self.monadic_used = True
                t = self.tmp()
                rc = Code(ops2, ("ret", f"decide ({unparen(r.atom)})"))
                code = Code([], ("if", unparen(l.atom), rc, Code([], ("ret", "false")))) if op == "&&" else \
                       Code([], ("if", unparen(l.atom), Code([], ("ret", "true")), rc))
                ops.append(("letcode", f"{t} : Bool", code))
                return ("v", Val(f"({t} = true)", "bool", [t]))
            return ("v", Val(f"({l.atom} {'∧' if op == '&&' else '∨'} {r.atom})", "bool", l.deps | r.deps))
        # phase 4d: in `a op b` with `a : i32` the right operand is an i32 too - this types an untyped literal shifted by a variable
        # (`zi * (1 << i)`); the hint never crosses into the operands of a shift (its amount has a type of its own)
        outer_hint = getattr(self, "lit_hint", None)
        vals_l = []
        def left():
            if op in ("<<", ">>"): self.lit_hint = None
            v = self.ex(e[2], env, ops); vals_l.append(v); return v
        def right():
            self.lit_hint = "i32" if (vals_l and vals_l[0].ty == "i32" and op in ("+", "-", "*", "&", "|", "^")) else None
            return self.ex(e[3], env, ops)
        try: l, r = self.seq([left, right], ops)
        finally: self.lit_hint = outer_hint
        deps = l.deps | r.deps
        if op in ("<<", ">>") and l.ty == "int" and outer_hint == "i32" and strip_paren(e[2])[0] == "num": l = Val(l.atom, "i32", l.deps)
        if "i32" in (l.ty, r.ty): return self.binop_i32(op, l, r, deps, e)
        if op in ("==", "!=", "<", ">", "<=", ">="):
            if not ((l.ty in WORD and r.ty in WORD) or (l.ty == r.ty == "i64") or (l.ty == "i64" and r.ty == "int") or (l.ty == r.ty == "u128")
                    or (op in ("==", "!=") and l.ty == r.ty and isinstance(l.ty, tuple) and l.ty[0] == "enum")):
                self.fail(f"comparison of {l.ty} with {r.ty}")
            sym = {"==": "=", "!=": "≠", "<": "<", ">": ">", "<=": "≤", ">=": "≥"}[op]
            return ("v", Val(f"({l.atom} {sym} {r.atom})", "bool", deps))
        if l.ty == "u128" or r.ty == "u128":
            if op == "*" and l.widened and r.widened:       # product of two zero-extended u64 values: < 2^128, cannot overflow
                return ("v", Val(f"({l.atom} * {r.atom})", "u128", deps))
            if op in ("<<", ">>"):
                rr = strip_paren(e[3])
                if l.ty != "u128" or rr[0] != "num" or rr[1] >= 128: self.fail(f"u128 shift `{op}` by a non-constant (or >= 128) amount")
                if op == ">>": return ("v", Val(f"({l.atom} >>> {rr[1]})", "u128", deps))
                if l.widened and rr[1] <= 64: return ("v", Val(f"({l.atom} <<< {rr[1]})", "u128", deps))     # zero-extended u64 << k, k <= 64: < 2^128, exact
                return ("v", Val(f"(({l.atom} <<< {rr[1]}) % B128)", "u128", deps))
            if l.ty != "u128" or r.ty != "u128": self.fail(f"`{op}` on {l.ty}, {r.ty}")
            if op in ("&", "|", "^"): return ("v", Val(f"({l.atom} { {'&': '&&&', '|': '|||', '^': '^^^'}[op]} {r.atom})", "u128", deps))
            self.monadic_used = True
            if op == "*": return ("m", f"ckMul128 {l.atom} {r.atom}", "u128")
            if op == "+": return ("m", f"ckAdd128 {l.atom} {r.atom}", "u128")
            if op == "-": return ("m", f"ckSub {l.atom} {r.atom}", "u128")
            if op in ("/", "%"): return ("m", f"{'ckDiv' if op == '/' else 'ckMod'} {l.atom} {r.atom}", "u128")
            self.fail(f"u128 arithmetic `{op}`")
        if l.ty == "i64" or r.ty == "i64": return self.binop_i64(op, l, r, deps)
        if (l.ty not in WORD or r.ty not in WORD) and not (op in ("<<", ">>") and l.ty == "u32"): self.fail(f"`{op}` on {l.ty}, {r.ty}")
        ty = l.ty if l.ty != "int" else r.ty
        if op in ("+", "-", "*"):
            if "u8" in (l.ty, r.ty) or ty == "int": self.fail(f"`{op}` on {l.ty}, {r.ty} (only 64-bit checked arithmetic is modelled)")
            self.monadic_used = True
            return ("m", f"{ {'+': 'ckAdd', '-': 'ckSub', '*': 'ckMul'}[op]} {l.atom} {r.atom}", ty)
        if op in ("/", "%"):
            rr = strip_paren(e[3])
            if rr[0] == "num" and rr[1] != 0: return ("v", Val(f"({l.atom} {op} {r.atom})", ty, deps))
            self.monadic_used = True
            return ("m", f"{'ckDiv' if op == '/' else 'ckMod'} {l.atom} {r.atom}", ty)
        if op in ("&", "|", "^"):
            if "u8" in (l.ty, r.ty) and not ("int" in (l.ty, r.ty) or l.ty == r.ty): self.fail(f"`{op}` on {l.ty}, {r.ty}")
            return ("v", Val(f"({l.atom} { {'&': '&&&', '|': '|||', '^': '^^^'}[op]} {r.atom})", ty, deps))
        if op in ("<<", ">>") and (l.ty == "u32" or self.const_int(e[3]) is None):
            # shift by a variable amount (or of a u32): the amount is checked against the width (`attempt to shift with overflow`)
            if l.ty not in ("u64", "usize", "u32", "int") or r.ty not in ("u64", "usize", "u32", "int"): self.fail(f"shift `{op}` on {l.ty} by {r.ty}")
            if l.ty == "int" and strip_paren(e[2])[0] == "num": self.fail(f"shift `{op}` of an untyped literal by a variable amount (type unknown)")
            w = 32 if l.ty == "u32" else 64          # a variable initialised with an untyped literal is a 64-bit word (as for + - *)
            self.monadic_used = True
            return ("m", f"{'ckShr' if op == '>>' else 'ckShl'} {w} {l.atom} {r.atom}", "usize" if l.ty == "int" else l.ty)
        if op in ("<<", ">>"):
            rr = strip_paren(e[3])
            if rr[0] != "num": rr = ("num", self.const_int(rr), None)         # a compile-time constant amount
            if rr[1] >= 64: self.fail(f"shift `{op}` by a non-constant (or >= 64) amount")
            if l.ty == "u8": self.fail("shift of u8")
            if op == ">>": return ("v", Val(f"({l.atom} >>> {rr[1]})", ty, deps))
            return ("v", Val(f"(({l.atom} <<< {rr[1]}) % B64)", "u64" if ty == "int" else ty, deps))
        self.fail(f"operator `{op}`")

    def const_int(self, e):
        """value of a compile-time constant expression: literal, table constant, `c - k` / `c + k` of such (rustc folds it too)"""
        e = strip_paren(e)
        if e[0] == "num": return e[1]
        if e[0] == "path" and e[1][-1] in self.consts and not (len(e[1]) == 1 and False): return self.consts[e[1][-1]][0]
        if e[0] == "bin" and e[1] in ("+", "-"):
            a, b = self.const_int(e[2]), self.const_int(e[3])
            if a is None or b is None: return None
            v = a + b if e[1] == "+" else a - b
            return v if 0 <= v < 2**64 else None
        return None

    def is_i32(self, e, env):
        e = strip_paren(e)
        return e[0] == "path" and len(e[1]) == 1 and e[1][0] in env and env[e[1][0]].kind == "w" and env[e[1][0]].ty == "i32"

    def binop_i32(self, op, l, r, deps, e):
        """phase 4d: i32 = Int; `+ - *` overflow-checked (`ckI32`), `&` two's complement (`andI32`), `>> k` arithmetic (`shrI32`),
        `x << v` checks only the amount (`ckShlI32`: wraps like the hardware shift), comparisons"""
        if op in ("<<", ">>"):
            if l.ty != "i32" or r.ty not in ("i32", "int"): self.fail(f"shift `{op}` on {l.ty} by {r.ty}")
            k = self.const_int(e[3])
            if op == ">>":
                if k is None or k >= 32: self.fail("i32 `>>` by a non-constant (or >= 32) amount")
                return ("v", Val(f"(shrI32 {l.atom} {k})", "i32", deps))
            self.monadic_used = True
            return ("m", f"ckShlI32 {l.atom} {r.atom}", "i32")
        if not (l.ty in ("i32", "int") and r.ty in ("i32", "int")): self.fail(f"`{op}` on {l.ty}, {r.ty}")
        if op in ("==", "!=", "<", ">", "<=", ">="):
            sym = {"==": "=", "!=": "≠", "<": "<", ">": ">", "<=": "≤", ">=": "≥"}[op]
            return ("v", Val(f"({l.atom} {sym} {r.atom})", "bool", deps))
        if op in ("+", "-", "*"):
            self.monadic_used = True
            return ("m", f"ckI32 ({unparen(l.atom)} {op} {unparen(r.atom)})", "i32")
        if op == "&": return ("v", Val(f"(andI32 {l.atom} {r.atom})", "i32", deps))
        self.fail(f"i32 operator `{op}`")

    def binop_i64(self, op, l, r, deps):
        if not (l.ty in ("i64", "int") and r.ty in ("i64", "int")): self.fail(f"`{op}` on {l.ty}, {r.ty}")
        if op in ("+", "-", "*"):
            self.monadic_used = True
            return ("m", f"ckI64 ({unparen(l.atom)} {op} {unparen(r.atom)})", "i64")
        if op in ("/", "%"):       # truncating; panics on a zero divisor and on i64::MIN / -1 (prelude)
            self.monadic_used = True
            return ("m", f"{'ckDivI64' if op == '/' else 'ckModI64'} {l.atom} {r.atom}", "i64")
        self.fail(f"i64 operator `{op}`")

    # value of an `if` expression whose branches neither escape nor assign outer variables
    def if_value(self, e, env, ops=None):
        if e[3] is None: self.fail("`if` without `else` used as a value")
        if has_escape(e[2][0]) or has_escape(e[3][0]) or has_escape(e[2][1]) or has_escape(e[3][1]):
            self.fail("`return`/`break` inside an `if` used as a value")
        for blk in (e[2], e[3]):
            a, d = assigned([blk[0], blk[1]])
            outer = {x for x in a if isinstance(x, str) and x in env and x not in d}
            # round 7 (worker T, soundness fix): a mutable slice / Vec passed BARE to a call inside the branch (a re-borrow of a `&mut`) is written by
            # the callee; the updated value would be lost when the branch's value is bound (found on `HeContext::new`: `let first = if .. { .. f(&mut map) .. }`)
            outer |= {x[1] for x in a if not isinstance(x, str) and x[1] in env and x[1] not in d and env[x[1]].kind == "list" and getattr(env[x[1]], "mut", False)}
            if outer: self.fail(f"`if` used as a value assigns outer variables {sorted(outer)}")
        ops0 = []
        c = self.ex(e[1], env, ops0)
        if ops0:
            if ops is None: self.fail("condition of a value-`if` needs statements")   # (kept simple; conditions here are comparisons)
            ops.extend(ops0)            # the condition is evaluated first: its statements go in front of the `if`
        if c.ty != "bool": self.fail("`if` condition is not bool")
        tys = []
        def kv(env2, val, ops):
            if val is None: self.fail("branch of a value-`if` has no value")
            tys.append(val.ty); return ("ret", unparen(val.atom))
        kk = K(kv, set(), identity=True); kk.on_type = tys.append
        ca = self.block_code(e[2], dict_copy(env), kk)
        cb = self.block_code(e[3], dict_copy(env), kk)
        ty = next((t for t in tys if t != "int"), "int")
        return Code([], ("if", unparen(c.atom), ca, cb)), ty

    # ---------------------------------------------------------------- calls
    def lv_target(self, a, env, what, ops=None):
        """Lean name + setter for the place a `&mut` argument points to"""
        a = strip_paren(a)
        if a[0] == "ref":
            if not a[1]: self.fail(f"{what}: `&` where `&mut` is needed")
            a = strip_paren(a[2])
        if a[0] == "deref": a = strip_paren(a[1])
        if a[0] == "path" and len(a[1]) == 1:
            v = self.lookup(env, a[1][0])
            if v.kind in ("w", "out"):
                if v.kind == "w" and v.ty not in ("u64", "int", "usize"): self.fail(f"{what}: &mut of a {v.ty}")
                def setinit(): v.init = True
                return v.lean, (lambda: v.init), setinit
        if a[0] == "index":
            b = strip_paren(a[1]); ix = strip_paren(a[2])
            if b[0] == "path" and len(b[1]) == 1 and ix[0] == "num":
                v = self.lookup(env, b[1][0])
                if v.kind in ("arr", "outarr"):
                    n = self.elem(v, ix[1])
                    def setinit():
                        if v.kind == "outarr": v.init[ix[1]] = True
                    return n, (lambda: True if v.kind == "arr" else v.init[ix[1]]), setinit
            if b[0] == "path" and len(b[1]) == 1 and ops is not None and self.lookup(env, b[1][0]).kind == "list" and env[b[1][0]].mut:
                # `&mut list[i]`: the bounds check happens where the argument is evaluated (it also yields the old value, for in-out
                # parameters); the callee's result is written back with `List.set` after the call
                v = env[b[1][0]]
                i = self.word(self.ex(a[2], env, ops), "index")
                t = self.tmp(); ops.append(("bind", t, f"idx {v.lean} {i.atom}")); self.monadic_used = True
                def setinit(): ops.append(("let", v.lean, f"{v.lean}.set {i.atom} {t}"))
                return t, (lambda: True), setinit
        self.fail(f"{what}: unsupported `&mut` argument")

    def arr_arg(self, a, env, width, what, mut):
        a = strip_paren(a)
        if a[0] == "ref": a = strip_paren(a[2])
        if a[0] == "mcall" and a[2] in ("as_mut_slice", "as_slice") and not a[3]: a = strip_paren(a[1])      # phase 4k: `arr.as_mut_slice()` = `&mut arr`
        if a[0] == "path" and len(a[1]) == 1:
            v = self.lookup(env, a[1][0])
            if v.kind in ("arr", "outarr"):
                if len(v.lean) < width: self.fail(f"{what}: array `{a[1][0]}` has {len(v.lean)} elements, callee touches {width}")
                return v
        self.fail(f"{what}: argument must be a fixed-size array / constant-indexed slice")

    def call(self, e, env, ops):
        path, args = e[1], e[2]
        fname = path[-1]
        if path[-2:] == ["mem", "swap"] or path == ["swap"]:
            if len(args) != 2: self.fail("swap arity")
            (la, ia, sa), (lb, ib, sb) = self.lv_target(args[0], env, "swap"), self.lv_target(args[1], env, "swap")
            if not (ia() and ib()): self.fail("swap of an uninitialised variable")
            ops.append(("let", f"({la}, {lb})", f"({lb}, {la})"))
            return ("v", Val("()", "unit"))
        if len(path) == 1 and path[0] in env and env[path[0]].kind == "closure": return self.closure_call(env[path[0]], args, env, ops)
        if path[-2:] in (["cmp", "max"], ["cmp", "min"]) and len(args) == 2:          # phase 4d: `std::cmp::max/min` on words
            a, b = self.seq([lambda: self.ex(args[0], env, ops), lambda: self.ex(args[1], env, ops)], ops)
            if a.ty not in WORD or b.ty not in WORD: self.fail(f"std::cmp::{fname} on {a.ty}, {b.ty}")
            return ("v", Val(f"({fname} {a.atom} {b.atom})", a.ty if a.ty != "int" else b.ty, a.deps | b.deps))
        exn = self.extern_of(e, env)
        if exn is not None: return self.extern_call(exn, env, ops)
        sig = None
        if len(path) >= 2 and (path[-2] == "Self" or path[-2] in self.tr.structs or (path[-2], fname) in self.tr.msigs):
            sig = self.tr.msigs.get((self.fn["selfty"] if path[-2] == "Self" else path[-2], fname))
        if sig is None and not (len(path) >= 2 and path[-2][0].isupper()): sig = self.tr.sigs.get(fname)
        if sig is None: self.fail(f"call to `{'::'.join(path)}` which is not a translated function")
        return self.call_sig(sig, fname, args, env, ops)

    EXTERN_TY = "Nat → List Nat → R (List Nat)"

    def slice_bounds(self, v, rng, env, ops):
        """(lo atom, hi atom) of `v[lo..hi]`, evaluated in order (open ends: 0 / the length)"""
        if rng[3]: self.fail("inclusive slice range")
        lo = self.word(self.ex(rng[1], env, ops), "slice bound").atom if rng[1] is not None else "0"
        hi = self.word(self.ex(rng[2], env, ops), "slice bound").atom if rng[2] is not None else f"{v.lean}.length"
        return lo, hi

    def list_arg(self, a, env, ops, what):
        """a `&[u64]` argument: a slice variable / Vec local, or a sub-slice `&x[lo..hi]` (bounds-checked where it is evaluated)"""
        a2 = strip_paren(a)
        if a2[0] == "ref": a2 = strip_paren(a2[2])
        if a2[0] == "path" and len(a2[1]) == 1 and self.lookup(env, a2[1][0]).kind == "list":
            v = env[a2[1][0]]; return Val(v.lean, "list", [v.lean])
        if a2[0] == "index" and strip_paren(a2[2])[0] == "range":
            b = strip_paren(a2[1])
            if b[0] == "path" and len(b[1]) == 1 and self.lookup(env, b[1][0]).kind == "list":
                v = env[b[1][0]]
                lo, hi = self.slice_bounds(v, strip_paren(a2[2]), env, ops)
                t = self.tmp(); ops.append(("bind", t, f"slice {v.lean} {lo} {hi}")); self.monadic_used = True
                return Val(t, "list", [t])
        ab = self.abstracted(a2, env)
        if ab is not None and ab[1] is not None and ab[1][1] == "List Nat": return Val(ab[1][0], "list", [ab[1][0]])
        ai = self.abs_indexed(a2, env)
        if ai is not None and ai[0][1] == "List (List Nat)":          # phase 4f: a row of an abstracted `Vec<Vec<u64>>` (bounds-checked read)
            (name, ty), ixe = ai
            i = self.word(self.ex(ixe, env, ops), "index")
            t = self.tmp(); ops.append(("bind", t, f"{self.ABS_IDX[ty][0]} {name} {i.atom}")); self.monadic_used = True
            return Val(t, "list", [t])
        self.fail(f"{what}: slice argument")

    def mlist_arg(self, a, env, ops, what):
        """a `&mut [u64]` argument: (value passed, function that writes the callee's result `new` back)"""
        a2 = strip_paren(a)
        if a2[0] == "ref":
            if not a2[1]: self.fail(f"{what}: `&` where `&mut` is needed")
            a2 = strip_paren(a2[2])
        if a2[0] == "path" and len(a2[1]) == 1 and self.lookup(env, a2[1][0]).kind == "list" and env[a2[1][0]].mut:
            v = env[a2[1][0]]
            return Val(v.lean, "list", [v.lean]), v.lean, (lambda: None)
        if a2[0] == "index" and strip_paren(a2[2])[0] == "range":
            b = strip_paren(a2[1])
            if b[0] == "path" and len(b[1]) == 1 and self.lookup(env, b[1][0]).kind == "list" and env[b[1][0]].mut:
                v = env[b[1][0]]
                lo, hi = self.slice_bounds(v, strip_paren(a2[2]), env, ops)
                t = self.tmp(); ops.append(("bind", t, f"slice {v.lean} {lo} {hi}")); self.monadic_used = True
                t2 = self.tmp()
                def wb(): ops.append(("let", v.lean, f"splice {v.lean} {lo} {t2}"))
                return Val(t, "list", [t]), t2, wb
        self.fail(f"{what}: unsupported `&mut [u64]` argument")

    def extern_call(self, exn, env, ops):
        ent, ixe, data, recv_first = exn
        cell = {}
        if recv_first == "fcall":                        # phase 4k: pure function of one slice
            v = self.list_arg(data, env, ops, f"extern {ent['binder']}")
            self.extern_used.add(ent["binder"])
            return ("v", Val(f"({ent['binder']} {v.atom})", "u64", set(v.deps) | {ent["binder"]}))
        if recv_first == "rcall":                        # phase 4f: `recv.method(&input, &mut output)`; arguments in evaluation order
            def th_in(): return self.list_arg(data[0], env, ops, f"extern {ent['binder']}")
            def th_out():
                v, name, wb = self.mlist_arg(data[1], env, ops, f"extern {ent['binder']}"); cell["x"] = (name, wb); return v
            iv, ov = self.seq([th_in, th_out], ops)
            self.extern_used.add(ent["binder"])
            ops.append(("bind", cell["x"][0], f"{ent['binder']} {iv.atom} {ov.atom}")); self.monadic_used = True
            cell["x"][1]()
            return ("v", Val("()", "unit"))
        def th_ix(): return self.word(self.ex(ixe, env, ops), "table index")
        def th_data():
            v, name, wb = self.mlist_arg(data, env, ops, f"extern {ent['binder']}"); cell["x"] = (name, wb); return v
        vals = self.seq([th_ix, th_data] if recv_first else [th_data, th_ix], ops)
        ix, dv = (vals[0], vals[1]) if recv_first else (vals[1], vals[0])
        self.extern_used.add(ent["binder"])
        ops.append(("bind", cell["x"][0], f"{ent['binder']} {ix.atom} {dv.atom}")); self.monadic_used = True
        cell["x"][1]()
        return ("v", Val("()", "unit"))

    def closure_call(self, cv, args, env, ops):
        """call of a local closure = call of its auxiliary definition (captures are immutable: their values at the definition)"""
        cname, capnames, ptys, rty, mon = cv.closure
        if len(args) != len(ptys): self.fail(f"call of closure `{cv.rust}`: arity")
        vals = self.seq([(lambda a=a: self.ex(a, env, ops)) for a in args], ops)
        deps = set(capnames)
        for ty, v in zip(ptys, vals):
            if ty == "i64":
                if v.ty != "i64": self.fail(f"call of closure `{cv.rust}`: argument of type {v.ty} for an i64 parameter")
            elif v.ty not in WORD: self.fail(f"call of closure `{cv.rust}`: argument of type {v.ty} for a {ty} parameter")
            deps |= v.deps
        callstr = " ".join([cname] + capnames + [v.atom for v in vals])
        if mon:
            self.monadic_used = True
            return ("m", callstr, rty)
        if rty == "bool": return ("v", Val(f"({callstr} = true)", "bool", deps))
        return ("v", Val(f"({callstr})", rty, deps))

    def qual(self, sig):
        """Lean name of a translated function as seen from the file being generated"""
        return sig["lean"] if sig.get("ns") in (None, self.tr.cur_ns) or sig["lean"].endswith(" fuel") else f"{sig['ns']}.{sig['lean']}"

    def call_sig(self, sig, fname, args, env, ops):
        if len(args) != len(sig["params"]): self.fail(f"call to {fname}: arity")
        thunks = []; outs = []
        for a, p in zip(args, sig["params"]):
            kind = p[0]
            if kind == "handle": continue
            if kind in ("struct", "structmut"):
                a2 = strip_paren(a)
                if a2[0] == "ref": a2 = strip_paren(a2[2])
                def th(a2=a2, p=p):
                    v = self.ex(a2, env, ops)
                    if v.ty != ("struct", p[1]): self.fail(f"call to {fname}: argument of type {v.ty} for a {p[1]} parameter")
                    return v
                thunks.append(th)
                if kind == "structmut":
                    if not (a2[0] == "path" and len(a2[1]) == 1 and self.lookup(env, a2[1][0]).kind == "struct"): self.fail(f"call to {fname}: `&mut self` receiver must be a local struct variable")
                    outs.append((env[a2[1][0]].lean, lambda: None))
            elif kind == "b":
                def th(a=a):
                    v = self.ex(a, env, ops)
                    if v.ty != "bool": self.fail(f"call to {fname}: argument of type {v.ty} for a bool parameter")
                    return Val(f"(decide {v.atom})", "bool", v.deps)
                thunks.append(th)
            elif kind == "wi":
                def th(a=a):
                    v = self.ex(a, env, ops)
                    if v.ty != "i64": self.fail(f"call to {fname}: argument of type {v.ty} for a signed parameter")
                    return v
                thunks.append(th)
            elif kind == "w":
                def th(a=a, p=p):
                    v = self.ex(a, env, ops)
                    if p[1] == "u32":
                        if v.ty not in ("u32", "int"): self.fail(f"call to {fname}: argument of type {v.ty} for a u32 parameter")
                    elif v.ty not in WORD: self.fail(f"call to {fname}: argument of type {v.ty} for a {p[1]} parameter")
                    return v
                thunks.append(th)
            elif kind in ("mod", "mulop"):
                a2 = strip_paren(a)
                if a2[0] == "ref": a2 = strip_paren(a2[2])
                def th(a2=a2, kind=kind):
                    v = self.ex(a2, env, ops)
                    if v.ty != ("mod" if kind == "mod" else ("struct", "MultiplyU64ModOperand")): self.fail(f"call to {fname}: {kind} argument of type {v.ty}")
                    return v
                thunks.append(th)
            elif kind == "slice":
                v = self.arr_arg(a, env, p[1], f"call to {fname}", False)
                for j in range(p[1]):
                    if v.kind == "outarr" and not v.init[j]: self.fail(f"call to {fname}: reads `{v.rust}[{j}]` before assignment")
                    thunks.append(lambda n=v.lean[j]: Val(n, "u64", [n]))
            elif kind == "list":
                thunks.append(lambda a=a: self.list_arg(a, env, ops, f"call to {fname}"))
            elif kind == "modlist":
                a2 = strip_paren(a)
                if a2[0] == "ref": a2 = strip_paren(a2[2])
                abm = self.abstracted(a2, env) if getattr(self, "abs", None) else None
                if abm is not None and abm[1] is not None and abm[1][1] == "List Modulus":      # phase 4k: an abstracted `&[Modulus]` getter (`self.base_q.base()`) as argument
                    thunks.append(lambda n=abm[1][0]: Val(n, "modlist", [n])); continue
                if not (a2[0] == "path" and len(a2[1]) == 1 and self.lookup(env, a2[1][0]).kind == "modlist"): self.fail(f"call to {fname}: `&[Modulus]` argument")
                thunks.append(lambda a2=a2: Val(env[a2[1][0]].lean, "modlist", [env[a2[1][0]].lean]))
            elif kind == "mlist":
                cell = {}
                def th(a=a, cell=cell):
                    v, name, wb = self.mlist_arg(a, env, ops, f"call to {fname}"); cell["x"] = (name, wb); return v
                thunks.append(th); outs.append(cell)
            elif kind == "out":
                cell = {}
                def th(a=a, p=p, cell=cell):      # evaluated in argument order (a `&mut list[i]` target does a bounds check there)
                    lean, isinit, setinit = self.lv_target(a, env, f"call to {fname}", ops)
                    cell["x"] = (lean, setinit)
                    if p[1]:
                        if not isinit(): self.fail(f"call to {fname}: in-out argument is uninitialised")
                        return Val(lean, "u64", [lean])
                    return None
                thunks.append(th); outs.append(cell)
            elif kind == "outarr":
                v = self.arr_arg(a, env, p[1], f"call to {fname}", True)
                for j in range(p[1]):
                    if p[2][j]:
                        if v.kind == "outarr" and not v.init[j]: self.fail(f"call to {fname}: in-out element uninitialised")
                        thunks.append(lambda n=v.lean[j]: Val(n, "u64", [n]))
                    def setinit(v=v, j=j):
                        if v.kind == "outarr": v.init[j] = True
                    outs.append((v.lean[j], setinit))
            else: self.fail(f"call to {fname}: parameter kind {kind}")
        vals = [v for v in self.seq(thunks, ops) if v is not None]
        outs = [o["x"] if isinstance(o, dict) else o for o in outs]
        callstr = " ".join([self.qual(sig)] + [v.atom for v in vals])
        rty = sig["ret"]
        if sig["monadic"]: self.monadic_used = True
        if not outs and not is_tup(rty):
            if sig["monadic"]: return ("m", callstr, rty)
            deps = set()
            for v in vals: deps |= v.deps
            return ("v", Val(f"({callstr})", rty, deps))
        names = [o[0] for o in outs]
        t = None
        if is_tup(rty):
            ts = [self.tmp() for _ in rty[1]]
            pat = "(" + ", ".join(names + ts) + ")"
            ops.append(("bind" if sig["monadic"] else "let", pat, callstr))
            for _, setinit in outs: setinit()
            return ("v", Val("(" + ", ".join(ts) + ")", rty, ts, parts=ts))
        if rty != "unit": t = self.tmp(); names.append(t)
        pat = names[0] if len(names) == 1 else "(" + ", ".join(names) + ")"
        ops.append(("bind" if sig["monadic"] else "let", pat, callstr))
        for _, setinit in outs: setinit()
        if t is None: return ("v", Val("()", "unit"))
        if rty == "bool": return ("v", Val(f"({t} = true)", "bool", [t]))
        return ("v", Val(t, rty, [t]))

    def neg(self, e, env, ops):
        inner = strip_paren(e[2])
        if inner[0] == "num" and inner[2] in (None, "i64", "isize"): return ("v", Val(f"(-{inner[1]})", "i64"))
        v = self.ex(e[2], env, ops)
        if v.ty == "i32":
            self.monadic_used = True
            return ("m", f"ckI32 (-{v.atom})", "i32")
        if v.ty != "i64": self.fail(f"unary - on {v.ty}")
        self.monadic_used = True
        return ("m", f"ckI64 (-{v.atom})", "i64")


def dict_copy(env): return {k: v.copy() for k, v in env.items()}


# ------------------------------------------------------------------------------------------------ statements, blocks, loops

class FnLower2(FnLower):
    def block_code(self, blk, env, k, nested=True):
        outer = set(env.keys())
        def kf(env2, v, ops2): return k.fn({n: w for n, w in env2.items() if n in outer}, v, ops2)
        k2 = K(kf, k.live, k.identity, k.toplevel); k2.on_type = getattr(k, "on_type", None)
        ops = []
        term = self.stmts(blk[0], 0, blk[1], env, ops, k2, nested)
        return Code(ops, term)

    def cond(self, e, env, ops):
        c = self.ex(e, env, ops)
        if c.ty != "bool": self.fail("condition is not bool")
        return unparen(c.atom)

    def tail(self, e, env, ops, k, nested):
        e0 = strip_paren(e)
        if e0[0] == "if" and e0[3] is not None:
            c = self.cond(e0[1], env, ops)
            a = self.block_code(e0[2], dict_copy(env), k); b = self.block_code(e0[3], dict_copy(env), k)
            return ("if", c, a, b)
        if e0[0] == "if":
            return self.stmts([("expr", e0, None)], 0, None, env, ops, k, nested)
        if e0[0] == "blockexpr":
            return self.stmts(e0[1][0], 0, e0[1][1], env, ops, k, True)
        if e0[0] == "panic":
            self.monadic_used = True
            return ("tailm", f".error .{self.panic_err}")
        if k.identity:
            r = self.ex_m(e0, env, ops)
            if r[0] == "m":
                self.monadic_used = True
                if getattr(k, "on_type", None): k.on_type(r[2])        # value-blocks (closures, value-`if`): the type of a monadic tail
                return ("tailm", r[1])
            if r[1].ty == "unit": return k.fn(env, None, ops)
            return k.fn(env, r[1], ops)
        v = self.ex(e0, env, ops)
        return k.fn(env, None if v.ty == "unit" else v, ops)

    def flat(self, v):
        return v.names() if v.kind != "cr" else []

    def stmts(self, stmts, i, tail, env, ops, k, nested):
        if i == len(stmts):
            if tail is None: return k.fn(env, None, ops)
            return self.tail(tail, env, ops, k, nested)
        s = stmts[i]; kind = s[0]; ln = s[-1] if isinstance(s[-1], int) else None
        nxt = lambda: self.stmts(stmts, i + 1, tail, env, ops, k, nested)
        if kind == "let":
            self.let(s, env, ops, nested); return nxt()
        if kind == "assign":
            self.assign(s, env, ops); return nxt()
        if kind == "return":
            if s[1] is None: return self.kfun.fn(env, None, ops)
            return self.tail(s[1], env, ops, self.kfun, nested)
        if kind == "break":
            if not self.loop_brk: self.fail("break outside a loop", ln)
            return self.loop_brk[-1].fn(env, None, ops)
        if kind in ("loop", "while"):
            return self.loop(s, stmts, i, tail, env, ops, k, nested)
        if kind == "for": return self.for_loop(s, stmts, i, tail, env, ops, k, nested)
        if kind == "expr":
            e = strip_paren(s[1])
            if e[0] == "if": return self.if_stmt(e, stmts, i, tail, env, ops, k, nested)
            if e[0] == "blockexpr":
                rest = K(lambda env2, _v, ops2: self.stmts(stmts, i + 1, tail, env2, ops2, k, nested), self.live_rest(stmts, i + 1, tail, k), toplevel=k.toplevel)
                return self.stmts(e[1][0], 0, e[1][1], env, ops, rest, True)
            if e[0] == "mcall" and e[2] == "copy_from_slice" and len(e[3]) == 1:
                # `x[a..b].copy_from_slice(&y[c..d])`: both sub-slices are bounds-checked (target first), lengths must agree (else panic)
                tgt = strip_paren(e[1])
                if self.opts.get("whole_copy") and tgt[0] == "path" and len(tgt[1]) == 1 and self.lookup(env, tgt[1][0]).kind == "list" and env[tgt[1][0]].mut:
                    # phase 4m (tools/rs2lean_dec.py): `x.copy_from_slice(src)` of a WHOLE mutable slice variable: panics unless the lengths agree
                    v = env[tgt[1][0]]; src = self.list_arg(e[3][0], env, ops, "copy_from_slice"); self.monadic_used = True
                    ops.append(("bind", v.lean, f"copyWhole {v.lean} {src.atom}")); return nxt()
                if not (tgt[0] == "index" and strip_paren(tgt[2])[0] == "range"): self.fail("copy_from_slice target is not a sub-slice", ln)
                tb = strip_paren(tgt[1])
                if not (tb[0] == "path" and len(tb[1]) == 1 and self.lookup(env, tb[1][0]).kind == "list" and env[tb[1][0]].mut): self.fail("copy_from_slice into something that is not a mutable slice variable", ln)
                v = env[tb[1][0]]
                lo, hi = self.slice_bounds(v, strip_paren(tgt[2]), env, ops)
                t0 = self.tmp(); ops.append(("bind", t0, f"slice {v.lean} {lo} {hi}")); self.monadic_used = True
                src = self.list_arg(e[3][0], env, ops, "copy_from_slice")
                ops.append(("bind", v.lean, f"copySlice {v.lean} {lo} {hi} {src.atom}"))
                return nxt()
            if e[0] in ("call", "mcall"):
                self.ex(e, env, ops); return nxt()
            if e[0] == "assert":
                c = self.cond(e[1], env, ops)
                self.monadic_used = True
                ops_a = []
                a = Code(ops_a, self.stmts(stmts, i + 1, tail, env, ops_a, k, nested))
                return ("if", c, a, Code([], ("tailm", f".error .{self.panic_err}")))
            if e[0] == "panic":
                self.monadic_used = True
                return ("tailm", f".error .{self.panic_err}")
            self.fail(f"expression statement `{e[0]}` (value discarded)", ln)
        self.fail(f"statement {kind}", ln)

    def let(self, s, env, ops, nested):
        _, pat, mut, ty, init, ln = s
        if not isinstance(pat, str): return self.let_tuple(s, env, ops, nested)
        if nested and pat in env and pat in self.ever_assigned: self.fail(f"`let {pat}` shadows an outer variable (that is assigned somewhere) inside a nested block", ln)
        dty = None
        if ty is not None:
            if ty[0] == "arr": dty = "arr"
            else: dty = self.wty(ty, "let type")
        if init is None:
            if dty in (None, "u64", "usize"): env[pat] = Var("w", self.newvar(pat), dty or "u64", init=False, rust=pat); return
            self.fail(f"uninitialised `let` of type {dty}", ln)
        i0 = strip_paren(init)
        if i0[0] == "closure":
            # a local closure: inlined at every call.  Its captures must be immutable (never assigned anywhere in the function), so that
            # by-reference capture = the value at the definition = the value at the call
            if mut or pat in self.ever_assigned: self.fail(f"closure `{pat}` is mutable / re-assigned", ln)
            if any(q[1] is None or not isinstance(q[0], str) for q in i0[1]): self.fail(f"closure `{pat}`: parameter without a type / with a pattern", ln)
            pnames = [q[0] for q in i0[1]]
            caps = {x for x in uses([i0[2][0], i0[2][1]]) if x in env and x not in pnames}
            a_in, d_in = assigned([i0[2][0], i0[2][1]])
            bad = {x for x in caps if x in self.strictly_assigned or (x in self.ever_assigned and env[x].kind not in ("w", "b", "mod", "mulop", "cr", "val"))} | {x for x in a_in if isinstance(x, str) and x not in d_in and x not in pnames}
            if bad: self.fail(f"closure `{pat}` captures / assigns mutable variables {sorted(bad)}", ln)
            if has_escape([i0[2][0], i0[2][1]]): self.fail(f"`return`/`break` inside closure `{pat}`", ln)
            self.nclos = getattr(self, "nclos", 0) + 1
            cname = f"{self.name}_closure{self.nclos}"
            env2 = dict_copy(env); binders = []; capnames = []
            for x in [y for y in env if y in caps]:
                cvv = env[x]
                if cvv.kind not in ("w", "b", "mod", "mulop", "val") or not self.all_init(env, [x]): self.fail(f"closure `{pat}` captures `{x}` ({cvv.kind})", ln)
                tyl = "Int" if cvv.ty in ("i64", "i32") else self.LEANTY.get(cvv.kind, "Nat")
                binders.append(f"({cvv.lean} : {tyl})"); capnames.append(cvv.lean)
            ptys = []
            for (pn, pt) in i0[1]:
                ty = self.wty(self.rty(pt), "closure parameter type")
                if ty not in ("u64", "usize", "u8", "i64"): self.fail(f"closure parameter of type {ty}", ln)
                n = self.newvar(pn); binders.append(f"({n} : {'Int' if ty == 'i64' else 'Nat'})"); ptys.append(ty)
                env2[pn] = Var("w", n, ty, rust=pn)
            tys = []
            def kv(env3, val, ops3):
                if val is None: self.fail(f"closure `{pat}` has no value")
                tys.append(val.ty); return ("ret", unparen(val.atom))
            kk = K(kv, set(), identity=True); kk.on_type = tys.append
            save_mu = self.monadic_used
            code = self.block_code(i0[2], env2, kk)
            rty = next((t for t in tys if t != "int"), "int")
            if not (rty in WORD or rty in ("i64", "bool")): self.fail(f"closure `{pat}` returns a {rty}", ln)
            mon = not code.pure(True)
            self.monadic_used = save_mu
            self.aux.append({"kind": "closure", "name": cname, "binders": binders, "code": code, "mon": mon, "line": ln, "rust": pat,
                             "rty": "Int" if rty == "i64" else "Bool" if rty == "bool" else "Nat"})
            v = Var("closure", None, rust=pat); v.closure = (cname, capnames, ptys, rty, mon); env[pat] = v
            return
        ab = self.abstracted(i0, env)
        if ab is None and i0[0] == "ref" and not i0[1]:                 # phase 4k: `let h = &<opaque accessor chain>;` names the same handle
            ab2 = self.abstracted(strip_paren(i0[2]), env)
            if ab2 is not None and ab2[1] is None: ab = ab2
        if ab is not None and ab[1] is None:
            env[pat] = Var("handle", ab[0], rust=pat); return          # a local standing for an opaque accessor chain
        if ab is not None and self.opts.get("alias_abstract") and ab[1][1] == "Nat" and not mut and pat not in self.strictly_assigned and ty is None:
            # (table option) an immutable local naming an abstracted word: an alias of the input, no `let` is emitted
            self.namemap.append(f"{ab[1][0]}={pat}")
            env[pat] = Var("w", ab[1][0], "usize", rust=pat); return
        if ab is not None and ab[1][1] in self.ABS_OBJ:
            # a local naming an abstracted object (a slice / a modulus the context hands out by reference): an alias of the input
            if mut or pat in self.ever_assigned: self.fail(f"`{pat}` names an abstracted object but is mutable / re-assigned", ln)
            env[pat] = Var(self.ABS_OBJ[ab[1][1]][0], ab[1][0], rust=pat); return
        if i0[0] == "array":
            vals = []
            base = self.newvar(pat)
            for j, el in enumerate(i0[1]):
                n = f"{base}_{j}"
                t = self.ex_into(n, el, env, ops)
                if t not in WORD: self.fail("array element type " + t, ln)
                vals.append(n)
            if not vals: self.fail("empty array literal", ln)
            env[pat] = Var("arr", vals, "u64", rust=pat); return
        if i0[0] == "mcall" and i0[2] == "const_ratio" and not i0[3]:
            env[pat] = Var("cr", self.modvar(i0[1], env), rust=pat); return
        if i0[0] == "path" and len(i0[1]) == 1 and i0[1][0] in env and env[i0[1][0]].kind in ("mod", "mulop", "cr", "list", "modlist", "moplist"):
            env[pat] = env[i0[1][0]]; return
        # phase 4k: `let row = self.matrix[i].as_slice();` / `= &self.matrix[i];`: a read-only row of an abstracted `Vec<Vec<u64>>` (bounds-checked here)
        r0 = i0
        if r0[0] == "mcall" and r0[2] == "as_slice" and not r0[3]: r0 = strip_paren(r0[1])
        if r0[0] == "ref" and not r0[1]: r0 = strip_paren(r0[2])
        ai0 = self.abs_indexed(r0, env, mark=False) if getattr(self, "abs", None) else None
        if ai0 is not None and ai0[0][1] == "List (List Nat)" and not mut and pat not in self.strictly_assigned:
            rv = self.list_arg(r0, env, ops, f"`let {pat}`")
            env[pat] = Var("list", rv.atom, rust=pat); return
        n = self.newvar(pat)
        if i0[0] == "vec" and not i0[1] and pat in self.ilist_vars:       # phase 4d: `let mut res = vec![]` of the returned `Vec<i32>`
            ops.append(("let", f"{n} : List Int", "[]")); env[pat] = Var("ilist", n, rust=pat); return
        # evaluate first (the initialiser may mention the variable being shadowed)
        ops1 = []
        t = self.ex_into(n, init, env, ops1)
        if pat in self.i32vars:                # phase 4d: integer-literal fallback (see infer_i32)
            if t == "int" and ops1 and ops1[-1][0] == "let": ops1[-1] = ("let", f"{n} : Int", ops1[-1][2]); t = "i32"
            else: self.fail(f"`{pat}` falls back to i32 but is initialised with a {t}", ln)
        if pat in self.i64vars:
            if t == "int" and ops1 and ops1[-1][0] == "let": ops1[-1] = ("let", f"{n} : Int", ops1[-1][2]); t = "i64"
            elif t != "i64": self.fail(f"`{pat}` is used as an i64 but initialised with a {t}", ln)
        if t == "bool":
            o = ops1[-1]
            if o[0] != "let": self.fail("bool local from a non-pure expression", ln)
            ops1[-1] = ("let", f"{n} : Bool", f"decide ({o[2]})")
            env[pat] = Var("b", n, "bool", rust=pat)
        elif t in WORD: env[pat] = Var("w", n, (dty if dty in WORD else None) or t, rust=pat)
        elif t in ("i64", "u128", "u32", "i32"): env[pat] = Var("w", n, t, rust=pat)
        elif t == "mod": env[pat] = Var("mod", n, rust=pat)
        elif isinstance(t, tuple) and t[0] == "struct": env[pat] = Var("struct", n, t[1], rust=pat)
        elif isinstance(t, tuple) and t[0] == "enum": env[pat] = Var("val", n, t, rust=pat)
        elif t == "list": env[pat] = Var("list", n, rust=pat); env[pat].vec = True; env[pat].mut = bool(mut)
        elif is_tup(t) and not mut and all(x in WORD for x in t[1]) and ops1 and ops1[-1][0] == "let":
            ops1[-1] = ("let", n, "(" + ops1[-1][2] + ")"); env[pat] = Var("tup", n, t, rust=pat)     # `let r = f(..)` with a tuple result: only `r.k` is accepted
        else: self.fail(f"`let` of a value of type {t}", ln)
        ops.extend(ops1)

    def let_tuple(self, s, env, ops, nested):
        _, pat, mut, ty, init, ln = s
        if init is None: self.fail("tuple `let` without initialiser", ln)
        v = self.ex(init, env, ops)
        if not is_tup(v.ty) or len(v.ty[1]) != len(pat[1]): self.fail("tuple pattern does not match the value", ln)
        for name, part, t in zip(pat[1], v.parts, v.ty[1]):
            if name == "_": continue
            if nested and name in env and name in self.ever_assigned: self.fail(f"`let {name}` shadows an outer variable (that is assigned somewhere) inside a nested block", ln)
            if t not in WORD and t != "i64": self.fail(f"tuple component of type {t}", ln)
            n = self.newvar(name); ops.append(("let", n, part)); env[name] = Var("w", n, t, rust=name)

    def lhs_target(self, lhs, env, ln):
        lhs = strip_paren(lhs)
        if lhs[0] == "path" and len(lhs[1]) == 1:
            v = self.lookup(env, lhs[1][0], ln)
            if v.kind == "w":
                def si(): v.init = True
                return v.lean, v.ty, (lambda: v.init), si
            self.fail(f"assignment to `{lhs[1][0]}` ({v.kind})", ln)
        if lhs[0] == "deref":
            b = strip_paren(lhs[1])
            if b[0] == "path" and len(b[1]) == 1 and self.lookup(env, b[1][0], ln).kind == "out":
                v = env[b[1][0]]
                def si(): v.init = True
                return v.lean, "u64", (lambda: v.init), si
        if lhs[0] == "index":
            n, isinit, si = self.lv_target(lhs, env, "assignment")
            return n, "u64", isinit, si
        self.fail("assignment target", ln)

    def assign(self, s, env, ops):
        _, lhs, op, rhs, ln = s
        l0 = strip_paren(lhs)
        if l0[0] == "field" and strip_paren(l0[1])[0] == "path" and len(strip_paren(l0[1])[1]) == 1 and self.lookup(env, strip_paren(l0[1])[1][0], ln).kind == "struct":
            v = env[strip_paren(l0[1])[1][0]]; ft = dict(self.tr.structs[v.ty]["fields"]).get(l0[2])
            if ft not in ("u64", "usize"): self.fail(f"assignment to field {l0[2]} of type {ft}", ln)
            if op is not None: self.fail("compound assignment to a struct field", ln)
            r = self.ex(rhs, env, ops)
            if r.ty not in WORD: self.fail(f"assignment of {r.ty} to field {l0[2]}", ln)
            ops.append(("let", v.lean, f"{{ {v.lean} with {l0[2]} := {unparen(r.atom)} }}"))
            return
        if l0[0] == "index" and strip_paren(l0[1])[0] == "path" and len(strip_paren(l0[1])[1]) == 1 and self.lookup(env, strip_paren(l0[1])[1][0], ln).kind == "list" \
                and env[strip_paren(l0[1])[1][0]].mut:
            v = env[strip_paren(l0[1])[1][0]]
            if op is not None:
                # `s[i] op= rhs` on primitives: the right operand first, then the place (index, bounds check), then the checked operation
                r, i = self.seq([lambda: self.ex(rhs, env, ops), lambda: self.ex(l0[2], env, ops)], ops)
                if r.ty not in WORD or i.ty not in WORD: self.fail(f"slice element compound assignment of {r.ty} at index of type {i.ty}", ln)
                t = self.tmp(); ops.append(("bind", t, f"idx {v.lean} {i.atom}")); self.monadic_used = True
                nv = self.ex(("bin", op, ("val", Val(t, "u64", [t])), ("val", r)), env, ops)
                ops.append(("let", v.lean, f"{v.lean}.set {i.atom} {unparen(nv.atom)}"))
                return
            r, i = self.seq([lambda: self.ex(rhs, env, ops), lambda: self.ex(l0[2], env, ops)], ops)     # value first, then the place
            if r.ty not in WORD or i.ty not in WORD: self.fail(f"slice element assignment of {r.ty} at index of type {i.ty}", ln)
            ops.append(("bind", v.lean, f"setIdx {v.lean} {i.atom} {r.atom}")); self.monadic_used = True
            return
        if l0[0] == "path" and len(l0[1]) == 1 and op is None and self.lookup(env, l0[1][0], ln).kind == "list" and env[l0[1][0]].mut and getattr(env[l0[1][0]], "vec", False):
            # round 7 (worker T): `v = <Vec<u64> value>` on a mutable `Vec<u64>` (whole-vector assignment, e.g. `v = vec![0; n]`)
            v = env[l0[1][0]]; r = self.ex(rhs, env, ops)
            if r.ty != "list": self.fail(f"assignment of {r.ty} to the vector `{l0[1][0]}`", ln)
            ops.append(("let", v.lean, unparen(r.atom))); return
        lean, ty, isinit, setinit = self.lhs_target(lhs, env, ln)
        if op is None:
            t = self.ex_into(lean, rhs, env, ops)
            if not (t in WORD and ty in WORD or t == ty or (ty == "i64" and t == "int")): self.fail(f"assignment of {t} to {ty}", ln)
        else:
            if not isinit(): self.fail("compound assignment to an uninitialised variable", ln)
            r = self.ex(rhs, env, ops)                      # Rust evaluates the right operand of `op=` first (primitive types)
            cur = Val(lean, ty, [lean])
            self.ex_into(lean, ("bin", op, ("val", cur), ("val", r)) if op not in ("<<", ">>") else ("bin", op, ("val", cur), rhs), env, ops)
        setinit()

    def merge_names(self, env, names):
        out = []
        for n in names:
            v = env[n]
            if v.kind in ("w", "b", "out", "struct", "list", "ilist"): out.append(v.lean)
            elif v.kind in ("arr", "outarr"): out.extend(v.lean)
            else: self.fail(f"variable `{n}` ({v.kind}) assigned inside a branch")
        return out

    def all_init(self, env, names):
        for n in names:
            v = env[n]
            if isinstance(v.init, list):
                if not all(v.init): return False
            elif not v.init: return False
        return True

    def assigned_outer(self, x, env, push=False):
        a, d = assigned(x, push=push)
        res = set()
        for y in a:
            if isinstance(y, str):
                if y in env and y not in d: res.add(y)
            elif y[1] in env and (env[y[1]].kind in ("out", "outarr") or (env[y[1]].kind == "list" and env[y[1]].mut)) and y[1] not in d: res.add(y[1])
        return res

    def if_stmt(self, e, stmts, i, tail, env, ops, k, nested):
        after = self.live_rest(stmts, i + 1, tail, k)
        c = self.cond(e[1], env, ops)
        eb = e[3] if e[3] is not None else ([], None)
        if has_escape([e[2][0], e[2][1], eb[0], eb[1]]) or (self.opts.get("panic_escape") and has_panic_or_loop([e[2][0], e[2][1], eb[0], eb[1]], self.opts.get("for_escape"))):
            rest = K(lambda env2, _v, ops2: self.stmts(stmts, i + 1, tail, env2, ops2, k, nested), after, toplevel=k.toplevel)
            a = self.block_code(e[2], dict_copy(env), rest); b = self.block_code(eb, dict_copy(env), rest)
            return ("if", c, a, b)
        asg = self.assigned_outer([e[2][0], e[2][1], eb[0], eb[1]], env, push=True)
        live_out = after | (self.ret_live & asg)
        mv = [n for n in env if n in asg and n in live_out]
        names = self.merge_names(env, mv)
        def km(env2, _v, ops2):
            if not self.all_init(env2, mv): self.fail(f"a variable of {mv} is not assigned on every path through an `if`")
            return ("ret", "()" if not names else names[0] if len(names) == 1 else "(" + ", ".join(names) + ")")
        kk = K(km, set(mv))
        a = self.block_code(e[2], dict_copy(env), kk); b = self.block_code(eb, dict_copy(env), kk)
        code = Code([], ("if", c, a, b))
        if names: ops.append(("letcode", names[0] if len(names) == 1 else "(" + ", ".join(names) + ")", code))
        elif not code.pure(True): ops.append(("letcode", "_", code))
        for n in mv:
            v = env[n]
            v.init = [True] * len(v.init) if isinstance(v.init, list) else True
        return self.stmts(stmts, i + 1, tail, env, ops, k, nested)

    def for_loop(self, s, stmts, i, tail, env, ops, k, nested):
        """`for v in lo..hi` / `for v in (lo..hi).rev()`: exact trip count `hi - lo` (truncated: empty when hi <= lo), no fuel needed"""
        _, var, it, body, ln = s
        if not isinstance(var, str): self.fail("`for` with a tuple pattern (accepted in handler mode only)", ln)
        if not k.toplevel and self.opts.get("nested_loops"): return self.for_loop_nested(s, stmts, i, tail, env, ops, k, nested)     # phase 4c
        if not k.toplevel and not self.loop_stack: self.fail("loop whose continuation is not the function's own (nested in a value-`if`/merge)", ln)
        it = strip_paren(it); rev = False
        if it[0] == "mcall" and it[2] == "rev" and not it[3]: rev = True; it = strip_paren(it[1])
        if it[0] != "range" or it[3]: self.fail("`for` iterator is not `lo..hi` or `(lo..hi).rev()`", ln)
        if var in env: self.fail(f"loop variable `{var}` shadows an outer variable", ln)
        lo, hi = self.seq([lambda: self.ex(it[1], env, ops), lambda: self.ex(it[2], env, ops)], ops)
        for v in (lo, hi):
            if v.ty not in ("usize", "int", "u64"): self.fail(f"range bound of type {v.ty}", ln)
        lo_lit = strip_paren(it[1])[0] == "num"
        if rev and not lo_lit: self.fail("reversed range with a non-literal lower bound", ln)
        count = hi.atom if lo.atom == "0" else f"({hi.atom} - {lo.atom})"
        self.nloop += 1
        after = self.live_rest(stmts, i + 1, tail, k)
        brk = self.loop_brk[-1].live if self.loop_brk else set()
        head = self.live_stmt(s, after, brk)
        asg = self.assigned_outer([body[0], body[1]], env)
        need = head | after
        carried = [n for n in env if n in asg and n in need]
        captured = [n for n in env if n in need and n not in carried]
        if self.loop_stack:
            # nested `for` (a function of its own, see below): it captures only what its own body and bounds read
            own = self.live_stmt(s, set(), brk)
            captured = [n for n in captured if n in own]
        for n in carried + captured:
            if not self.all_init(env, [n]): self.fail(f"variable `{n}` is live across the loop but not initialised before it", ln)
        for n in carried:
            if env[n].kind not in ("w", "b", "arr", "out", "outarr", "list", "struct", "ilist"): self.fail(f"loop-carried variable `{n}` of kind {env[n].kind}", ln)
        cap_names = []; cap_binders = []
        for n in captured:
            v = env[n]
            if v.kind == "handle": continue
            nm = [v.lean] if v.kind == "cr" else v.names()
            tyl = "Modulus" if v.kind == "cr" else ("Int" if v.ty in ("i64", "i32") else self.LEANTY.get(v.kind, "Nat"))
            for x in nm:
                if v.kind == "struct": tyl = self.tr.structs[v.ty]["lean"]
                if v.kind == "val" and isinstance(v.ty, tuple) and v.ty[0] == "enum": tyl = self.tr.enums[v.ty[1]]["lean"]
                if x not in cap_names: cap_names.append(x); cap_binders.append(f"({x} : {tyl})")
        for (bn, bt) in (self.abs_in([body[0], body[1]], env) if self.abs else []):
            if bn not in cap_names: cap_names.append(bn); cap_binders.append(f"({bn} : {bt})")
        if self.abs and not self.loop_stack:
            # phase 4f: the continuation of a top-level `for` is emitted inside it (at exhaustion): the abstracted inputs the REST of the
            # function reads are captured too (before: an unbound identifier in the generated file, i.e. no such function was ever accepted)
            envc = env
            for st in stmts[i + 1:]:
                # phase 4k: a handle local introduced by the continuation (`let h = &self.conv;`) is known while scanning the continuation,
                # so that an extern receiver call through it (`h.as_ref().unwrap().fast_convert_array(..)`) is captured as well
                if st[0] == "let" and isinstance(st[1], str) and st[4] is not None:
                    j0 = strip_paren(st[4])
                    if j0[0] == "ref" and not j0[1]: j0 = strip_paren(j0[2])
                    try: cc = self.canon(j0, envc)
                    except Exception: cc = None
                    if cc is not None and cc in self.abs and self.abs[cc] is None:
                        if envc is env: envc = dict_copy(env)
                        envc[st[1]] = Var("handle", cc, rust=st[1])
            for (bn, bt) in self.abs_in([list(stmts[i + 1:]), tail] if tail is not None else [list(stmts[i + 1:])], envc):
                if bn not in cap_names: cap_names.append(bn); cap_binders.append(f"({bn} : {bt})")
        if self.opts.get("alias_abstract"):
            # captured inputs in TABLE order after the ordinary locals (independent of the order of the `let`s that name them)
            order = {ent[0]: q for q, ent in enumerate(e for e in self.abs.values() if e is not None)}
            pairs = list(zip(cap_names, cap_binders))
            pairs = [p for p in pairs if p[0] not in order] + sorted([p for p in pairs if p[0] in order], key=lambda p: order[p[0]])
            cap_names = [p[0] for p in pairs]; cap_binders = [p[1] for p in pairs]
        car_names = []; car_types = []
        for n in carried:
            v = env[n]
            for x in v.names():
                car_names.append(x); car_types.append("Int" if v.ty in ("i64", "i32") else self.LEANTY.get(v.kind, "Nat"))
        # a `for` nested in the body of another `for` is emitted as a function of its own that RETURNS its loop-carried state
        # (no continuation inside it): its body must not leave it (`return` / `break`)
        nested_for = bool(self.loop_stack)
        fuelname = "fuel"
        lname = f"{self.name}_loop{self.nloop}"
        iv = self.newvar(var)
        def callstr(fuel, ivar): return " ".join([lname] + cap_names + [fuel] + ([] if rev else [ivar]) + car_names)
        if nested_for:
            if has_escape([body[0], body[1]], False): self.fail("`return` / `break` inside a nested `for`", ln)
            if not car_names: self.fail("nested `for` without loop-carried state", ln)
            state = car_names[0] if len(car_names) == 1 else "(" + ", ".join(car_names) + ")"
            krest = K(lambda env2, _v, ops2: ("ret", state), after)
        else:
            krest = K(lambda env2, _v, ops2: self.stmts(stmts, i + 1, tail, env2, ops2, k, nested), after, toplevel=True)
        kcont = K(lambda env2, _v, ops2: ("call", callstr(fuelname, f"({iv} + 1)")), head)
        self.loop_brk.append(krest)
        self.loop_stack.append(lname)
        envb = dict_copy(env); envb[var] = Var("w", iv, "usize", rust=var)
        bops = []
        if rev: bops.append(("let", iv, fuelname if lo.atom == "0" else f"{lo.atom} + {fuelname}"))
        inner = self.block_code(body, envb, kcont)
        bcode = Code(bops + inner.ops, inner.term)
        self.loop_stack.pop()
        self.loop_brk.pop()
        xops = []; xcode = Code(xops, krest.fn(dict_copy(env), None, xops))
        ent = {"name": lname, "binders": cap_binders, "car_types": ([] if rev else ["Nat"]) + car_types,
               "car_names": ([] if rev else [iv]) + car_names, "body": bcode, "exhaust": xcode,
               "fuel": f"trip count {count}", "line": ln}
        if nested_for:
            self.monadic_used = True
            ent["rty"] = "R (" + " × ".join(car_types) + ")" if len(car_types) > 1 or " " in car_types[0] else "R " + car_types[0]
            self.aux.append(ent)
            ops.append(("bind", state, callstr(count, lo.atom)))
            return self.stmts(stmts, i + 1, tail, env, ops, k, nested)
        self.aux.append(ent)
        return ("call", callstr(count, lo.atom))

    LEANTY = {"w": "Nat", "b": "Bool", "out": "Nat", "mod": "Modulus", "mulop": "MulOperand", "list": "List Nat", "ilist": "List Int",
              "modlist": "List Modulus", "moplist": "List MulOperand"}

    def for_loop_nested(self, s, stmts, i, tail, env, ops, k, nested):
        """phase 4: a `for v in lo..hi` whose continuation is NOT the function's own (inside another loop's body / a branch): an auxiliary
        definition that RETURNS the loop-carried state, `let (state) <- f_loopN captured.. (hi - lo) lo state..`; no `break`/`return` inside"""
        _, var, it, body, ln = s
        it = strip_paren(it)
        if it[0] != "range" or it[3] or it[1] is None or it[2] is None: self.fail("nested `for` iterator is not `lo..hi`", ln)
        if has_escape([body[0], body[1]]): self.fail("`return`/`break` inside a nested loop", ln)
        if var in env: self.fail(f"loop variable `{var}` shadows an outer variable", ln)
        lo, hi = self.seq([lambda: self.ex(it[1], env, ops), lambda: self.ex(it[2], env, ops)], ops)
        for v in (lo, hi):
            if v.ty not in ("usize", "int", "u64"): self.fail(f"range bound of type {v.ty}", ln)
        count = hi.atom if lo.atom == "0" else f"({hi.atom} - {lo.atom})"
        self.nloop += 1
        after = self.live_rest(stmts, i + 1, tail, k)
        brk = self.loop_brk[-1].live if self.loop_brk else set()
        inside = self.live_stmt(s, set(), brk) - {var}           # read inside the loop (before being written there)
        asg = self.assigned_outer([body[0], body[1]], env, push=bool(self.opts.get("push_carried")))      # (phase 4m: table flag - a pushed-to Vec is loop-carried state)
        carried = [n for n in env if n in asg and (n in after or n in inside)]
        captured = [n for n in env if n in inside and n not in carried]
        if not carried: self.fail("nested loop without loop-carried state", ln)
        for n in carried + captured:
            if not self.all_init(env, [n]): self.fail(f"variable `{n}` is live across the loop but not initialised before it", ln)
        for n in carried:
            if env[n].kind not in ("w", "b", "arr", "out", "outarr", "list", "struct"): self.fail(f"loop-carried variable `{n}` of kind {env[n].kind}", ln)
        cap_names = []; cap_binders = []
        for n in captured:
            v = env[n]
            if v.kind in ("handle", "closure"): continue
            nm = [v.lean] if v.kind == "cr" else v.names()
            tyl = "Modulus" if v.kind == "cr" else ("Int" if v.ty in ("i64", "i32") else self.LEANTY.get(v.kind, "Nat"))
            for x in nm:
                if v.kind == "struct": tyl = self.tr.structs[v.ty]["lean"]
                if v.kind == "val" and isinstance(v.ty, tuple) and v.ty[0] == "enum": tyl = self.tr.enums[v.ty[1]]["lean"]
                if x not in cap_names: cap_names.append(x); cap_binders.append(f"({x} : {tyl})")
        for (bn, bt) in (self.abs_in([body[0], body[1]], env) if (self.abs or self.opts.get("extern")) else []):
            if bn not in cap_names: cap_names.append(bn); cap_binders.append(f"({bn} : {bt})")
        car_names = []; car_types = []
        for n in carried:
            v = env[n]
            for x in v.names():
                car_names.append(x); car_types.append("Int" if v.ty in ("i64", "i32") else self.tr.structs[v.ty]["lean"] if v.kind == "struct" else self.LEANTY.get(v.kind, "Nat"))
        lname = f"{self.name}_loop{self.nloop}"
        iv = self.newvar(var)
        def callstr(fuel, ivar): return " ".join([lname] + cap_names + [fuel, ivar] + car_names)
        state = car_names[0] if len(car_names) == 1 else "(" + ", ".join(car_names) + ")"
        kcont = K(lambda env2, _v, ops2: ("call", callstr("fuel", f"({iv} + 1)")), set(inside) | set(carried))
        self.loop_brk.append(K(lambda *a: self.fail("break inside a nested loop", ln), set()))
        envb = dict_copy(env); envb[var] = Var("w", iv, "usize", rust=var)
        bcode = self.block_code(body, envb, kcont)
        self.loop_brk.pop()
        self.monadic_used = True
        self.aux.append({"name": lname, "binders": cap_binders, "car_types": ["Nat"] + car_types, "car_names": [iv] + car_names, "body": bcode,
                         "exhaust": Code([], ("ret", state)), "fuel": f"trip count {count}; returns the loop-carried state", "line": ln,
                         "rty": "R (" + " × ".join(car_types) + ")"})
        ops.append(("bind", state, callstr(count, lo.atom)))
        for n in carried:
            v = env[n]; v.init = [True] * len(v.init) if isinstance(v.init, list) else True
        return self.stmts(stmts, i + 1, tail, env, ops, k, nested)

    def loop(self, s, stmts, i, tail, env, ops, k, nested):
        ln = s[-1]
        if not k.toplevel: self.fail("loop that is not at the top level of the function body", ln)
        if self.loop_stack: self.fail("`loop`/`while` nested in the body of a `for` (only `for` in `for` is supported)", ln)
        lo = self.opts.get("loops", [])
        if self.nloop >= len(lo): self.fail("loop without a fuel entry in the translation table", ln)
        lopt = lo[self.nloop]; self.nloop += 1
        body = s[1] if s[0] == "loop" else s[2]
        after = self.live_rest(stmts, i + 1, tail, k)
        brk = self.loop_brk[-1].live if self.loop_brk else set()
        head = self.live_stmt(s, after, brk)
        asg = self.assigned_outer([body[0], body[1]], env)
        need = head | after
        carried = [n for n in env if n in asg and n in need]
        captured = [n for n in env if n in need and n not in carried]
        for n in carried + captured:
            if not self.all_init(env, [n]):
                self.fail(f"variable `{n}` is live across the loop but not initialised before it", ln)
        for n in carried:
            if env[n].kind not in ("w", "b", "arr", "out", "outarr", "list", "struct", "ilist"): self.fail(f"loop-carried variable `{n}` of kind {env[n].kind}", ln)
        cap_names = []; cap_binders = []
        for n in captured:
            v = env[n]
            if v.kind == "handle": continue
            nm = [v.lean] if v.kind == "cr" else v.names()
            tyl = "Modulus" if v.kind == "cr" else ("Int" if v.ty in ("i64", "i32") else self.LEANTY.get(v.kind, "Nat"))
            for x in nm:
                if v.kind == "struct": tyl = self.tr.structs[v.ty]["lean"]
                if v.kind == "val" and isinstance(v.ty, tuple) and v.ty[0] == "enum": tyl = self.tr.enums[v.ty[1]]["lean"]
                if x not in cap_names: cap_names.append(x); cap_binders.append(f"({x} : {tyl})")
        for (bn, bt) in (self.abs_in([s[1], body[0], body[1]] if s[0] == "while" else [body[0], body[1]], env) if self.abs else []):
            if bn not in cap_names: cap_names.append(bn); cap_binders.append(f"({bn} : {bt})")
        car_names = []; car_types = []
        for n in carried:
            v = env[n]
            for x in v.names():
                car_names.append(x); car_types.append("Int" if v.ty in ("i64", "i32") else self.LEANTY.get(v.kind, "Nat"))
        if not car_names: self.fail("loop without loop-carried state", ln)
        lname = f"{self.name}_loop{self.nloop}"
        def callstr(fuel): return " ".join([lname] + cap_names + [fuel] + car_names)
        krest = K(lambda env2, _v, ops2: self.stmts(stmts, i + 1, tail, env2, ops2, k, nested), after, toplevel=True)
        kcont = K(lambda env2, _v, ops2: ("call", callstr("fuel")), head)
        self.loop_brk.append(krest)
        if s[0] == "while":
            bops = []; envb = dict_copy(env)
            c = self.cond(s[1], envb, bops)
            inner = self.block_code(body, dict_copy(envb), kcont)
            out_ops = []
            bcode = Code(bops, ("if", c, inner, Code(out_ops, krest.fn(dict_copy(envb), None, out_ops))))
        else:
            bcode = self.block_code(body, dict_copy(env), kcont)
        self.loop_brk.pop()
        if lopt.get("exhausted", "error") == "break":
            xops = []; xcode = Code(xops, krest.fn(dict_copy(env), None, xops))
        else:
            self.monadic_used = True
            xcode = Code([], ("tailm", ".error .other"))
        self.aux.append({"name": lname, "binders": cap_binders, "car_types": car_types, "car_names": car_names,
                         "body": bcode, "exhaust": xcode, "fuel": lopt["fuel"], "line": ln})
        return ("call", callstr(str(lopt["fuel"])))


# ------------------------------------------------------------------------------------------------ function level: signature, rendering

def const_index_width(body, name):
    """max constant index + 1 of `name[...]` in the body; None if `name` is used in any other way"""
    width = [0]; other = [False]
    def walk(x):
        if isinstance(x, list):
            for y in x: walk(y)
            return
        if not isinstance(x, tuple) or not x: return
        if x[0] == "index":
            b = strip_paren(x[1]); ix = strip_paren(x[2])
            if b[0] == "path" and b[1] == [name]:
                if ix[0] == "num": width[0] = max(width[0], ix[1] + 1)
                else: other[0] = True; walk(ix)
                return
        if x[0] == "path":
            if x[1] == [name]: other[0] = True
            return
        if x[0] == "ref" and x[1]:
            inner = strip_paren(x[2])
            if inner[0] == "index" and strip_paren(inner[1]) == ("path", [name]) and strip_paren(inner[2])[0] == "num":
                width[0] = max(width[0], strip_paren(inner[2])[1] + 1); return
        for y in x:
            if isinstance(y, (tuple, list)): walk(y)
    walk([body[0], body[1]])
    return None if other[0] or width[0] == 0 else width[0]


def parse_snippet(text, kind, fname):
    """parse a table-supplied Rust snippet: kind = 'expr' | 'stmts' | 'params' | 'type'"""
    if kind == "expr":
        p = Parser(tokenize(text), fname); e = p.expr()
        if p.kind() != "eof": p.fail("trailing tokens in a table expression")
        return e
    if kind == "stmts":
        p = Parser(tokenize("{" + text + "}"), fname); b = p.block()
        if b[1] is not None: return b[0] + [("expr", b[1], None)]
        return b[0]
    if kind == "fn":
        p = Parser(tokenize(text), fname); return p.fn_item()
    raise AssertionError(kind)


class Skeleton:
    """table-driven rewriting of a method that works on opaque objects into a plain function over pseudo-variables:
       "skeleton": {"sig": "fn f(cur0: usize, tgt: usize) -> Vec<usize>", "prologue": "...", "epilogue": "...",
                    "handles": [canonical texts], "exprs": {canonical text: rust expr}, "effects": {canonical stmt text: rust stmts}}
       Every original parameter (and `self`) is an opaque handle; a `let x = <handle>` is substituted away; an expression / statement
       whose canonical text is listed is replaced; whatever then still mentions a handle fails in the lowering (unknown identifier)."""
    def __init__(self, lower, fn, sk):
        self.lo, self.fn, self.sk = lower, fn, sk
        self.used = set()
        self.env = {}
        for (pn, pt, mut) in fn["params"]: self.env[pn] = Var("handle", pn, rust=pn)

    def canon(self, e):
        if isinstance(e, tuple) and e and e[0] == "assign" and e[2] is None:
            l, r = self.lo.canon(e[1], self.env), self.lo.canon(e[3], self.env)
            return None if l is None or r is None else f"{l} = {r}"
        if isinstance(e, tuple) and e and e[0] in ("field", "mcall", "bin", "cast", "un", "call", "path", "paren", "deref", "ref", "index"):
            return self.lo.canon(e, self.env)
        return None

    def expr(self, e):
        if not isinstance(e, tuple) or not e: return e
        if e[0] in ("if",):
            return ("if", self.expr(e[1]), self.block(e[2]), None if e[3] is None else self.block(e[3]))
        if e[0] == "blockexpr": return ("blockexpr", self.block(e[1]))
        if e[0] == "match": return ("match", self.expr(e[1]), [(pats, self.expr(b)) for pats, b in e[2]])
        c = self.canon(e)
        key, rep = self.lookup("exprs", c)
        if key is not None:
            self.used.add(key); return ("paren", parse_snippet(rep, "expr", self.fn["name"]))
        if e[0] in ("num", "bool", "float", "path", "panic"): return e
        return tuple(self.expr(x) if isinstance(x, tuple) else [self.expr(y) if isinstance(y, tuple) else y for y in x] if isinstance(x, list) else x for x in e)

    def block(self, blk):
        stmts, tail = blk
        saved = dict(self.env)
        out = []
        items = list(stmts) + ([("expr", tail, None, "tail")] if tail is not None else [])
        newtail = None
        for s in items:
            istail = len(s) == 4 and s[3] == "tail"
            if s[0] == "let" and isinstance(s[1], str) and s[4] is not None:
                c = self.canon(strip_paren(s[4]))
                hk = self.lookup("handles", c)[0]                            # (task S) handle entries may contain `$name` wildcards
                if hk is not None:
                    self.used.add(hk); self.env[s[1]] = Var("handle", c, rust=s[1]); continue
                out.append(("let", s[1], s[2], s[3], self.expr(s[4]), s[5])); continue
            if s[0] in ("expr", "assign"):
                c = self.canon(strip_paren(s[1])) if s[0] == "expr" else self.canon(s)
                key, rep = self.lookup("effects", c)
                if key is not None:
                    self.used.add(key); out += parse_snippet(rep, "stmts", self.fn["name"]); continue
            if s[0] == "for" and isinstance(s[1], str):                      # phase 4g: a `for` loop the table declares to be a pure data effect
                key, rep = self.lookup("effects", self.for_key(s))
                if key is not None:
                    self.used.add(key); out += parse_snippet(rep, "stmts", self.fn["name"]); continue
            if s[0] == "unsafe" and self.sk.get("unsafe_inline"):               # (task S) `unsafe { stmts }` = stmts; the raw-pointer expressions inside need table readings
                ub = self.block(s[1])
                if ub[1] is not None and strip_paren(ub[1])[0] == "if": ub = (ub[0] + [("expr", ub[1], None)], None)      # phase 4m: a trailing unit `if .. else ..`
                if ub[1] is not None: self.lo.fail("`unsafe` block with a value")
                out += ub[0]; continue
            if s[0] == "unsafe" and "unsafe" in self.sk.get("effects", {}):      # phase 4g: an `unsafe { .. }` block the table declares to be a pure data effect
                self.used.add("unsafe"); out += parse_snippet(self.sk["effects"]["unsafe"], "stmts", self.fn["name"]); continue
            if s[0] == "expr" and strip_paren(s[1])[0] == "match" and self.sk.get("match_stmt"):      # phase 4g: `match` in statement / tail position
                out.append(("expr", self.match_chain(strip_paren(s[1]), s), s[2] if len(s) > 2 and not istail else None)); continue
            if s[0] == "expr":
                e2 = self.expr(s[1])
                if istail: newtail = e2
                else: out.append(("expr", e2, s[2] if len(s) > 2 else None))
            elif s[0] == "assign": out.append(("assign", self.expr(s[1]), s[2], self.expr(s[3]), s[4]))
            elif s[0] == "return" and s[1] is None and self.sk.get("epilogue"):       # phase 4g: a bare `return;` leaves through the skeleton's epilogue
                epi = parse_snippet(self.sk["epilogue"], "stmts", self.fn["name"])
                if epi and epi[-1][0] == "expr" and epi[-1][2] is None: out += epi[:-1] + [("return", epi[-1][1], s[2])]
                else: out += epi + [("return", None, s[2])]
            elif s[0] == "return": out.append(("return", None if s[1] is None else self.expr(s[1]), s[2]))
            elif s[0] == "loop": out.append(("loop", self.block(s[1]), s[2]))
            elif s[0] == "while": out.append(("while", self.expr(s[1]), self.block(s[2]), s[3]))
            elif s[0] == "for": out.append(("for", s[1], self.expr(s[2]), self.block(s[3]), s[4]))
            else: out.append(s)
        self.env = saved
        return (out, newtail)

    def lookup(self, table, c):
        """phase 4g: table entry for the canonical text `c`: the exact key, else a key with `$name` wildcards (each stands for ONE identifier - an
        ordinary local of the function, so that renaming it changes nothing); returns (key, replacement with the wildcards substituted)"""
        tab = self.sk.get(table, {})
        if isinstance(tab, list): tab = {k: k for k in tab}
        if c is None: return None, None
        if c in tab: return c, tab[c]
        for key, rep in tab.items():
            if "$" not in key: continue
            seen = set()
            def grp(m):
                if m.group(1) in seen: return "(?P=%s)" % m.group(1)      # (task S) repeated wildcard = the same identifier again
                seen.add(m.group(1)); return "(?P<%s>[A-Za-z_][A-Za-z0-9_]*)" % m.group(1)
            rx = re.sub(r"\\\$(\w+)", grp, re.escape(key))
            m = re.fullmatch(rx, c)
            if m:
                for n, v in m.groupdict().items(): rep = re.sub(r"\$" + n + r"\b", v, rep)
                return key, rep
        return None, None

    def for_key(self, s):
        """canonical header `for v in lo..hi` of a `for` statement (None if the range is not canonical)"""
        it = strip_paren(s[2])
        if it[0] != "range" or it[1] is None or it[2] is None or it[3]: return None
        lo, hi = self.canon(strip_paren(it[1])) if strip_paren(it[1])[0] != "num" else str(strip_paren(it[1])[1]), self.canon(strip_paren(it[2])) if strip_paren(it[2])[0] != "num" else str(strip_paren(it[2])[1])
        if lo is None or hi is None:
            def txt(x):
                x = strip_paren(x)
                return x[1][0] if x[0] == "path" and len(x[1]) == 1 else None
            lo = lo if lo is not None else txt(it[1]); hi = hi if hi is not None else txt(it[2])
        return None if lo is None or hi is None else f"for {s[1]} in {lo}..{hi}"

    def match_chain(self, e, s):
        """statement / tail `match S { A | B => x, C => y, _ => z }` with enum-path patterns -> `if S == A || S == B { x } else if S == C { y } else { z }`.
        The scrutinee must be rewritten by the table to a plain pseudo-variable (it is mentioned once per pattern)."""
        scr = self.expr(e[1]); s0 = strip_paren(scr)
        if not (s0[0] == "path" and len(s0[1]) == 1): self.lo.fail("statement `match`: the scrutinee is not mapped to a pseudo-variable by the skeleton table")
        arms = e[2]; chain = None
        for j, (pats, body) in reversed(list(enumerate(arms))):
            wild = any(p[0] == "wild" for p in pats)
            if wild and j != len(arms) - 1: self.lo.fail("`_` arm that is not the last one")
            body = strip_paren(body)
            blk = self.block(body[1]) if body[0] == "blockexpr" else self.block(([], body))
            if chain is None:
                if not wild: self.lo.fail("statement `match` without a final `_` arm")
                chain = blk; continue
            cond = None
            for p in pats:
                if p[0] != "path": self.lo.fail(f"match pattern {p}")
                c1 = ("bin", "==", s0, ("path", p[1]))
                cond = c1 if cond is None else ("bin", "||", cond, c1)
            chain = ([], ("if", cond, blk, chain))
        return chain[1] if not chain[0] and chain[1] is not None else ("blockexpr", chain)

    def run(self):
        sig = parse_snippet(self.sk["sig"] + " {}", "fn", self.fn["name"])
        body = self.block(self.fn["body"])
        pro = parse_snippet(self.sk.get("prologue", ""), "stmts", self.fn["name"])
        epi = parse_snippet(self.sk.get("epilogue", ""), "stmts", self.fn["name"])
        stmts = pro + body[0] + ([("expr", body[1], None)] if body[1] is not None else [])
        tail = None
        if epi and epi[-1][0] == "expr" and epi[-1][2] is None: tail = epi[-1][1]; epi = epi[:-1]
        elif not epi and body[1] is not None and self.sk.get("keep_tail"): stmts = pro + body[0]; tail = body[1]      # phase 4m: the function's own tail value
        unused = [c for c in list(self.sk.get("handles", [])) + list(self.sk.get("exprs", {})) + list(self.sk.get("effects", {}))
                  if c not in self.used and c not in self.sk.get("optional", [])]      # `optional` (phase 4g): readings of sibling calls that need not occur
        if unused: self.lo.fail(f"skeleton table entries never matched: {unused}")
        new = dict(self.fn); new["params"] = sig["params"]; new["ret"] = sig["ret"]; new["body"] = (stmts + epi, tail)
        new["selfty"] = None
        return new


class FnTranslate(FnLower2):
    def infer_i64(self):
        """names of locals that are i64: declared / cast so, or combined with / assigned from such (fixpoint; types only - every
        operator checks its operand types again, a wrong guess fails loudly)"""
        vs = set()
        def is_i64(e):
            e = strip_paren(e)
            if e[0] == "cast": return e[2] == ("name", "i64")
            if e[0] == "path": return len(e[1]) == 1 and e[1][0] in vs
            if e[0] == "bin" and e[1] in ("+", "-", "*"): return is_i64(e[2]) or is_i64(e[3])
            return False
        def mark(e):
            e = strip_paren(e); ch = False
            if e[0] == "path" and len(e[1]) == 1 and e[1][0] not in vs: vs.add(e[1][0]); return True
            if e[0] == "bin" and e[1] in ("+", "-", "*"): return mark(e[2]) | mark(e[3])
            return False
        def walk(x):
            ch = False
            if isinstance(x, list):
                for y in x: ch |= walk(y)
                return ch
            if not isinstance(x, tuple) or not x: return False
            if x[0] == "let" and isinstance(x[1], str):
                if (x[3] == ("name", "i64") or (x[4] is not None and is_i64(x[4]))) and x[1] not in vs: vs.add(x[1]); ch = True
                if x[1] in vs and x[4] is not None and strip_paren(x[4])[0] in ("path", "bin"): ch |= mark(x[4])
            if x[0] == "assign":
                l = strip_paren(x[1])
                if l[0] == "path" and len(l[1]) == 1:
                    if is_i64(x[3]) and l[1][0] not in vs: vs.add(l[1][0]); ch = True
                    if l[1][0] in vs and strip_paren(x[3])[0] in ("path", "bin"): ch |= mark(x[3])
            if x[0] == "bin" and x[1] in ("+", "-", "*") and is_i64(x): ch |= mark(x)
            for y in x:
                if isinstance(y, (tuple, list)): ch |= walk(y)
            return ch
        body = [self.fn["body"][0], self.fn["body"][1]]
        while walk(body): pass
        return vs

    def infer_i32(self):
        """phase 4d.  (1) integer-literal fallback: a `let [mut] x = <unsuffixed literal>;` without a type whose every other occurrence is
        `x += lit` / `x -= lit` or the AMOUNT of a shift (`Shl<T> for i32` exists for every integer `T`: no constraint) has type i32 in Rust.
        (2) the local returned by a function of type `Vec<i32>` (tail expression / `return x`) is a `Vec<i32>`."""
        body = [self.fn["body"][0], self.fn["body"][1]]
        cands = set()
        def lets(x):
            if isinstance(x, list):
                for y in x: lets(y)
            elif isinstance(x, tuple) and x:
                if x[0] == "let" and isinstance(x[1], str) and x[3] is None and x[4] is not None:
                    i0 = strip_paren(x[4])
                    if i0[0] == "num" and i0[2] is None: cands.add(x[1])
                for y in x:
                    if isinstance(y, (tuple, list)): lets(y)
        lets(body)
        total = {c: 0 for c in cands}; ok = {c: 0 for c in cands}
        def count(x):
            if isinstance(x, list):
                for y in x: count(y)
            elif isinstance(x, tuple) and x:
                if x[0] == "path" and len(x[1]) == 1 and x[1][0] in total: total[x[1][0]] += 1
                if x[0] == "assign" and x[2] in ("+", "-", "+=", "-="):
                    l = strip_paren(x[1]); r = strip_paren(x[3])
                    if l[0] == "path" and len(l[1]) == 1 and l[1][0] in ok and r[0] == "num" and r[2] is None: ok[l[1][0]] += 1
                if x[0] == "bin" and x[1] in ("<<", ">>"):
                    r = strip_paren(x[3])
                    if r[0] == "path" and len(r[1]) == 1 and r[1][0] in ok: ok[r[1][0]] += 1
                for y in x:
                    if isinstance(y, (tuple, list)): count(y)
        count(body)
        i32vars = {c for c in cands if total[c] > 0 and total[c] == ok[c]}
        ilist = set()
        if self.rty(self.fn["ret"]) == ("vec", ("name", "i32")):
            def rets(x):
                if isinstance(x, list):
                    for y in x: rets(y)
                elif isinstance(x, tuple) and x:
                    if x[0] == "return" and x[1] is not None and strip_paren(x[1])[0] == "path" and len(strip_paren(x[1])[1]) == 1: ilist.add(strip_paren(x[1])[1][0])
                    for y in x:
                        if isinstance(y, (tuple, list)): rets(y)
            rets(body)
            t = self.fn["body"][1]
            if t is not None and strip_paren(t)[0] == "path" and len(strip_paren(t)[1]) == 1: ilist.add(strip_paren(t)[1][0])
        return i32vars, ilist

    def signature(self):
        fn = self.fn
        self.i64vars = self.infer_i64()
        self.i32vars, self.ilist_vars = self.infer_i32()
        CLOSURE_CAPS.clear()
        def find_closures(x):
            if isinstance(x, list):
                for y in x: find_closures(y)
            elif isinstance(x, tuple) and x:
                if x[0] == "let" and isinstance(x[1], str) and x[4] is not None and strip_paren(x[4])[0] == "closure":
                    c = strip_paren(x[4]); CLOSURE_CAPS[x[1]] = uses([c[2][0], c[2][1]]) - {q[0] for q in c[1] if isinstance(q[0], str)}
                for y in x:
                    if isinstance(y, (tuple, list)): find_closures(y)
        find_closures([fn["body"][0], fn["body"][1]])
        params = []; self.binders = []; env = {}
        body = fn["body"]
        np = 0
        # names that are the target of an assignment / `&mut` borrow somewhere in the body: only these take part in branch merges and
        # loop states, so only these must not be shadowed inside nested blocks
        a_all, _d = assigned([fn["body"][0], fn["body"][1]])
        self.ever_assigned = {x if isinstance(x, str) else x[1] for x in a_all}
        self.strictly_assigned = {x for x in a_all if isinstance(x, str)}       # without "passed bare to a call" (only a re-borrow of a `&mut` can write)
        self.abs = {}; self.abs_used = set()
        for ent in self.opts.get("abstract", []):
            if ent[0] in self.abs: self.fail(f"abstraction `{ent[0]}` listed twice")
            self.abs[ent[0]] = None if len(ent) == 1 or ent[1] is None else (ent[1], ent[2])
        self.extern_used = set()
        self.consts = {c: self.tr.const(rel, c) for c, rel in self.opts.get("consts", {}).items()}
        self.panic_err = self.opts.get("panic", "refused")
        self_binders = []
        for (pn, pt, mut) in fn["params"]:
            lean = f"a{np}"; np += 1; self.namemap.append(f"{lean}={pn}")
            pt = self.rty(pt)
            if pt[0] == "selfty" and fn["selfty"] == "Modulus" and pt[1] == "ref":          # `impl Modulus { fn f(&self, ..) }`: the hand model's Modulus
                params.append(("mod",)); env[pn] = Var("mod", lean, rust=pn); env[pn].isref = True; self.binders.append(f"({lean} : Modulus)")
                continue
            if pt[0] == "selfty":
                st = self.tr.structs.get(fn["selfty"])
                if st is None:
                    if not self.abs and not self.opts.get("extern"): self.fail(f"`self` of unregistered struct {fn['selfty']} (and no abstraction table)")      # (phase 4k: an `extern` table alone also makes `self` a handle)
                    params.append(("handle",)); env[pn] = Var("handle", "self", rust=pn); np -= 1; self.namemap.pop(); continue
                if pt[1] == "val": self.fail("by-value `self`")
                params.append(("structmut" if pt[1] == "mut" else "struct", fn["selfty"]))
                env[pn] = Var("struct", lean, fn["selfty"], rust=pn); env[pn].isref = True
                self.binders.append(f"({lean} : {st['lean']})")
                continue
            if pt[0] == "ref" and not pt[1] and pt[2][0] == "name" and pt[2][1] in ("u64", "usize"): pt = pt[2]; isref = True     # `&u64`: a word
            else: isref = False
            if pt[0] == "name" and pt[1] in ("u64", "usize", "u8", "u32"):
                params.append(("w", pt[1])); env[pn] = Var("w", lean, pt[1], rust=pn); env[pn].isref = isref; self.binders.append(f"({lean} : Nat)")
            elif pt[0] == "name" and pt[1] in ("i64", "isize"):
                params.append(("wi", "i64")); env[pn] = Var("w", lean, "i64", rust=pn); self.binders.append(f"({lean} : Int)")
            elif pt[0] == "name" and pt[1] == "i32":           # phase 4d: i32 = Int with `ckI32`-checked arithmetic
                params.append(("wi", "i32")); env[pn] = Var("w", lean, "i32", rust=pn); self.binders.append(f"({lean} : Int)")
            elif pt[0] == "name" and pt[1] == "bool":
                params.append(("b",)); env[pn] = Var("b", lean, "bool", rust=pn); self.binders.append(f"({lean} : Bool)")
            elif pt[0] == "name" and pt[1] in self.tr.enums:        # phase 4g: a registered enum by value (skeleton pseudo-parameters `scheme: SchemeType`)
                params.append(("enum", pt[1])); env[pn] = Var("val", lean, ("enum", pt[1]), rust=pn); self.binders.append(f"({lean} : {self.tr.enums[pt[1]]['lean']})")
            elif self.abs and (pt == ("name", "f64") or (pt[0] == "ref" and not pt[1] and pt[2][0] == "name" and pt[2][1] in self.opts.get("opaque", []))
                               or (pt[0] == "ref" and not pt[1] and pt[2][0] == "arr" and pt[2][1][0] == "name" and pt[2][1][1] in self.opts.get("opaque", []))):
                # an opaque object: usable only inside the accessor expressions the table abstracts
                params.append(("handle",)); env[pn] = Var("handle", pn, rust=pn); np -= 1; self.namemap.pop()
            elif pt[0] == "ref" and not pt[1] and pt[2][0] == "name" and pt[2][1] in self.tr.structs and pt[2][1] != "MultiplyU64ModOperand":
                params.append(("struct", pt[2][1])); env[pn] = Var("struct", lean, pt[2][1], rust=pn); env[pn].isref = True
                self.binders.append(f"({lean} : {self.tr.structs[pt[2][1]]['lean']})")
            elif pt[0] == "ref" and not pt[1] and pt[2] == ("name", "Modulus"):
                params.append(("mod",)); env[pn] = Var("mod", lean, rust=pn); env[pn].isref = True; self.binders.append(f"({lean} : Modulus)")
            elif pt[0] == "ref" and not pt[1] and pt[2] == ("name", "MultiplyU64ModOperand"):
                params.append(("mulop",)); env[pn] = Var("mulop", lean, rust=pn); env[pn].isref = True; self.binders.append(f"({lean} : MulOperand)")
            elif pt[0] == "ref" and not pt[1] and pt[2][0] == "arr" and pt[2][1] == ("name", "Modulus") and pt[2][2] is None:
                params.append(("modlist",)); env[pn] = Var("modlist", lean, rust=pn); self.binders.append(f"({lean} : List Modulus)")
            elif pt[0] == "ref" and not pt[1] and pt[2][0] == "arr" and pt[2][1] == ("name", "u64"):
                w = const_index_width(body, pn)
                if w is None and pt[2][2] is None:
                    params.append(("list",)); env[pn] = Var("list", lean, rust=pn); self.binders.append(f"({lean} : List Nat)")
                    continue
                if w is None: self.fail(f"array parameter `{pn}` is not only indexed by constants")
                if pt[2][2] is not None and w > pt[2][2]: self.fail(f"constant index beyond the array type of `{pn}`")
                names = [f"{lean}_{j}" for j in range(w)]
                params.append(("slice", w)); env[pn] = Var("arr", names, "u64", rust=pn)
                self.binders += [f"({n} : Nat)" for n in names]
            elif pt[0] == "ref" and pt[1] and pt[2] == ("name", "u64"):
                params.append(["out", None]); env[pn] = Var("out", lean, "u64", init=False, rust=pn)
            elif pt[0] == "ref" and pt[1] and pt[2] == ("vec", ("name", "u64")):
                # `&mut Vec<u64>`: like `&mut [u64]` (input and first result), but its length may change (`resize`)
                params.append(("mlist",)); env[pn] = Var("list", lean, rust=pn); env[pn].mut = True; env[pn].vec = True
                self.binders.append(f"({lean} : List Nat)")
            elif pt[0] == "ref" and pt[1] and pt[2][0] == "arr" and pt[2][1] == ("name", "u64"):
                w = const_index_width(body, pn)
                if w is None:
                    if pt[2][2] is not None: self.fail(f"`&mut [u64; N]` parameter `{pn}` is not only indexed by constants")
                    params.append(("mlist",)); env[pn] = Var("list", lean, rust=pn); env[pn].mut = True
                    self.binders.append(f"({lean} : List Nat)"); continue
                names = [f"{lean}_{j}" for j in range(w)]
                params.append(["outarr", w, None]); env[pn] = Var("outarr", names, "u64", init=[False] * w, rust=pn)
            else: self.fail(f"parameter `{pn}` of type {pt}")
        # in-out analysis of the `&mut` parameters; the Lean binders follow the Rust parameter order
        self.ret_live = set()
        pre_binders = self.binders; self.binders = []; bi = 0
        for (pn, pt, mut), p in zip(fn["params"], params):
            if p[0] in ("structmut", "mlist"):
                self.ret_live.add(pn); self.binders += pre_binders[bi:bi + 1]; bi += 1
            elif p[0] == "handle": pass
            elif p[0] == "out":
                io = self.inout_keys(pn, None)
                p[1] = io[pn]; v = env[pn]
                if p[1]: v.init = True; self.binders.append(f"({v.lean} : Nat)")
                self.ret_live.add(pn)
            elif p[0] == "outarr":
                io = self.inout_keys(pn, p[1])
                p[2] = [io[(pn, j)] for j in range(p[1])]; v = env[pn]
                for j in range(p[1]):
                    if p[2][j]: v.init[j] = True; self.binders.append(f"({v.lean[j]} : Nat)")
                self.ret_live.add(pn)
            else:
                cnt = p[1] if p[0] == "slice" else 1
                self.binders += pre_binders[bi:bi + cnt]; bi += cnt
        assert bi == len(pre_binders)
        # abstracted inputs (table order) come last
        for key, ent in self.abs.items():
            if ent is not None: self.binders.append(f"({ent[0]} : {ent[1]})")
        seen_ext = []
        for ent in self.opts.get("extern", []):          # abstract FUNCTION inputs (phase 4), after the accessor inputs
            if ent["binder"] not in seen_ext: seen_ext.append(ent["binder"]); self.binders.append(f"({ent['binder']} : {self.ext_ty(ent)})")
        rt = self.rty(fn["ret"])
        if rt == ("tuple", []): ret = "unit"
        elif rt[0] == "name" and rt[1] in ("u64", "usize", "u8", "bool", "u32"): ret = rt[1]
        elif rt[0] == "name" and rt[1] in ("i64", "isize"): ret = "i64"
        elif rt[0] == "name" and rt[1] in self.tr.structs: ret = ("struct", rt[1])
        elif rt[0] == "name" and rt[1] in self.tr.enums: ret = ("enum", rt[1])          # phase 4d
        elif rt == ("vec", ("name", "usize")) or rt == ("vec", ("name", "u64")): ret = "list"
        elif rt == ("vec", ("name", "i32")): ret = "ilist"
        elif rt[0] == "tuple" and all(t[0] == "name" and t[1] in ("u64", "usize", "i64") for t in rt[1]): ret = ("tuple", [t[1] for t in rt[1]])
        else: self.fail(f"return type {rt}")
        self.ret = ret
        self.outs = [pn for (pn, pt, mut), p in zip(fn["params"], params) if p[0] in ("out", "outarr", "structmut", "mlist")]
        tys = []
        for pn in self.outs: tys += [self.tr.structs[env[pn].ty]["lean"]] if env[pn].kind == "struct" else ["List Nat"] if env[pn].kind == "list" else ["Nat"] * len(env[pn].names())
        if is_tup(ret): tys += ["Int" if t == "i64" else "Nat" for t in ret[1]]
        elif isinstance(ret, tuple) and ret[0] == "struct": tys.append(self.tr.structs[ret[1]]["lean"])
        elif isinstance(ret, tuple) and ret[0] == "enum": tys.append(self.tr.enums[ret[1]]["lean"])
        elif ret == "list": tys.append("List Nat")
        elif ret == "ilist": tys.append("List Int")
        elif ret != "unit": tys.append("Bool" if ret == "bool" else "Int" if ret == "i64" else "Nat")
        if not tys: self.fail("function without result")
        self.ret_lean = " × ".join(tys)
        self.params = [tuple(p) if not isinstance(p, tuple) else p for p in params]
        return env

    def rty(self, t):
        """resolve `Self`, `Self::Assoc` and the impl's associated types"""
        if t[0] == "name":
            al = self.fn.get("aliases") or {}
            if t[1] in al: return ("name", al[t[1]])
            if t[1] == "Self" and self.fn.get("selfty"): return ("name", self.fn["selfty"])
            return t
        if t[0] == "ref": return ("ref", t[1], self.rty(t[2]))
        if t[0] == "arr": return ("arr", self.rty(t[1]), t[2])
        if t[0] == "vec": return ("vec", self.rty(t[1]))
        return t

    def inout_keys(self, pn, width):
        """which parts of a `&mut` parameter are read before the function has definitely assigned them (conservative)"""
        keys = [pn] if width is None else [(pn, j) for j in range(width)]
        defined = set(); inout = {k: False for k in keys}; stopped = [False]
        def rd(k):
            if k not in defined: inout[k] = True
        def rd_all():
            for k in keys: rd(k)
        def key_of(e):
            e = strip_paren(e)
            if e[0] == "ref": e = strip_paren(e[2])
            if width is None:
                if e[0] == "deref" and strip_paren(e[1]) == ("path", [pn]): return [pn]
                if e == ("path", [pn]): return [pn]
            else:
                if e[0] == "index" and strip_paren(e[1]) == ("path", [pn]) and strip_paren(e[2])[0] == "num": return [(pn, strip_paren(e[2])[1])]
                if e == ("path", [pn]): return list(keys)
            return None
        def ev(e):
            """straight-line expression: reads / writes in evaluation order"""
            if pn not in uses(e): return
            e = strip_paren(e)
            if e[0] in ("if", "blockexpr"): rd_all(); return
            ks = key_of(e)
            if ks is not None and e[0] != "path":
                for k in ks: rd(k)
                return
            if e[0] == "call":
                sig = self.tr.sigs.get(e[1][-1])
                if e[1][-2:] == ["mem", "swap"] or sig is None or len(sig["params"]) != len(e[2]): rd_all(); return
                writes = []
                for a, p in zip(e[2], sig["params"]):
                    ks = key_of(a)
                    if p[0] == "out" and ks is not None and len(ks) == 1:
                        if p[1]: rd(ks[0])
                        writes.append(ks[0])
                    elif p[0] == "outarr" and ks is not None:
                        for j, kx in enumerate(ks[:p[1]]):
                            if p[2][j]: rd(kx)
                            writes.append(kx)
                    elif p[0] == "slice" and ks is not None:
                        for kx in ks[:p[1]]: rd(kx)
                    else: ev(a)
                if not stopped[0]: defined.update(writes)
                return
            if e[0] == "path": rd_all(); return
            for y in e:
                if isinstance(y, (tuple, list)):
                    if isinstance(y, list):
                        for z in y: ev(z)
                    else: ev(y)
        stmts, tail = self.fn["body"]
        for s in stmts + ([("expr", tail, None)] if tail is not None else []):
            if s[0] == "assign":
                ev(s[3])
                ks = key_of(s[1])
                if ks is not None and len(ks) == 1 and strip_paren(s[1])[0] != "path":
                    if s[2] is not None: rd(ks[0])
                    if not stopped[0]: defined.add(ks[0])
                else: ev(s[1])
            elif s[0] == "let":
                if s[4] is not None: ev(s[4])
            elif s[0] == "expr": ev(s[1])
            elif s[0] == "return":
                if s[1] is not None: ev(s[1])
            else:
                if pn in uses(list(s)): rd_all()
            if has_escape(list(s)): stopped[0] = True
            if s[0] == "return": break
        for k in keys:
            if k not in defined: inout[k] = True
        return inout

    def translate(self):
        if "skeleton" in self.opts:
            self.abs = {}
            self.fn = self.opts.get("skeleton_class", Skeleton)(self, self.fn, self.opts["skeleton"]).run()      # (`skeleton_class`: phase 4m, rs2lean_conc.py)
        if self.opts.get("iters"):
            self.fn = dict(self.fn); self.fn["body"] = desugar_iters(self.fn["body"], self.fail, [0])
        if self.opts.get("enum_iters"):                                     # phase 4k: `.iter().enumerate()` / `.chunks(k).enumerate()` chains (tools/rs2lean_rns4k.py)
            from rs2lean_rns4k import desugar_enumerate
            self.fn = dict(self.fn); self.fn["body"] = desugar_enumerate(self.fn["body"], self.fail, self.fn["name"])
        if self.opts.get("elem_borrows"):                                   # phase 4k: `let d = &mut x[i];` (tools/rs2lean_rns4k.py)
            from rs2lean_rns4k import desugar_elem_borrows
            self.fn = dict(self.fn); self.fn["body"] = desugar_elem_borrows(self.fn["body"], self.fail)
        env = self.signature()
        force = self.opts.get("monadic", False)
        # registered before lowering so that recursive calls resolve (monadic flag fixed by the table for recursive functions)
        sig = {"lean": self.name, "params": self.params, "ret": self.ret, "monadic": force, "ret_lean": self.ret_lean, "ns": self.tr.cur_ns}
        if self.opts.get("register_as"): self.tr.sigs[self.opts["register_as"]] = sig      # (skeleton variants of one method: callable under this name)
        elif self.fn.get("selfty"): self.tr.msigs[(self.fn["selfty"], self.fn["name"])] = sig
        else: self.tr.sigs[self.fn["name"]] = sig
        def kfun(env2, val, ops):
            parts = []
            for pn in self.outs:
                v = env2[pn]
                if not self.all_init(env2, [pn]): self.fail(f"out-parameter `{pn}` not assigned on a path that returns")
                parts += v.names()
            if self.ret != "unit":
                if val is None: self.fail("missing return value")
                if isinstance(self.ret, tuple) and self.ret[0] in ("struct", "enum") or self.ret in ("list", "i64", "ilist"):
                    if val.ty != self.ret and not (self.ret == "i64" and val.ty == "int"): self.fail(f"function returning {self.ret} returns {val.ty}")
                    parts.append(val.atom)
                elif is_tup(self.ret):
                    if not is_tup(val.ty) or len(val.ty[1]) != len(self.ret[1]): self.fail("tuple function returns " + str(val.ty))
                    for t, want in zip(val.ty[1], self.ret[1]):
                        if not (t == want or (t in WORD and want in WORD) or (t == "int" and want == "i64")): self.fail(f"tuple component {t} returned as {want}")
                    parts += val.parts
                elif self.ret == "bool":
                    if val.ty != "bool": self.fail("bool function returns " + val.ty)
                    parts.append(f"decide ({unparen(val.atom)})")
                else:
                    if val.ty not in WORD and not (self.ret == "u32" and val.ty == "u32"): self.fail(f"function returns {val.ty}")
                    if (self.ret == "u32") != (val.ty == "u32") and val.ty != "int": self.fail(f"function of type {self.ret} returns {val.ty}")
                    parts.append(val.atom)
            elif val is not None and val.ty != "unit": self.fail("value returned from a unit function")
            return ("ret", unparen(parts[0]) if len(parts) == 1 else "(" + ", ".join(unparen(p) for p in parts) + ")")
        self.kfun = K(kfun, self.ret_live, identity=(not self.outs and self.ret not in ("bool", "unit")), toplevel=True)
        rec = self.opts.get("recursive")
        if rec:
            if any(p[0] != "w" for p in self.params): self.fail("recursive function with non-word parameters")
            sig["lean"] = f"{self.name}_rec fuel"
        code = self.block_code(self.fn["body"], env, self.kfun, nested=False)
        sig["lean"] = self.name
        monadic = force or self.monadic_used
        if rec and monadic != force: self.fail("recursive function: set `monadic` in the table to what the body needs")
        sig["monadic"] = monadic
        unused = [c for c, ent in self.abs.items() if c not in self.abs_used]
        if unused: self.fail(f"abstraction table entries never matched: {unused}")
        unused = [ent["binder"] for ent in self.opts.get("extern", []) if ent["binder"] not in self.extern_used]
        if unused: self.fail(f"extern table entries never matched: {unused}")
        if rec: return self.render_rec(code, monadic, rec, env)
        return self.render(code, monadic)

    def render_rec(self, code, mon, rec, env):
        fn = self.fn; out = []
        rty = f"R ({self.ret_lean})" if mon and ("×" in self.ret_lean or " " in self.ret_lean) else (f"R {self.ret_lean}" if mon else self.ret_lean)
        names = [f"a{i}" for i in range(len(self.params))]
        ex = rec.get("exhausted", "error")
        if ex == "error":
            if not mon: self.fail("exhausted=error needs a monadic function")
            x = ".error .other"
        elif ex.startswith("param:"):
            pn = ex[6:]
            if pn not in [p[0] for p in fn["params"]]: self.fail(f"exhausted: no parameter {pn}")
            x = names[[p[0] for p in fn["params"]].index(pn)]
            if mon: x = "pure " + x
        else: self.fail(f"exhausted = {ex}")
        out.append(f"/-- `{fn['name']}`  {fn['file']}:{fn['line0']}-{fn['line1']}  sha256/64(normalised source) = {fn['hash']}")
        out.append(f"    names: {' '.join(self.namemap)};  the recursion is bounded by fuel ({rec['fuel']} at the entry point) -/")
        out.append(f"def {self.name}_rec : Nat → {' → '.join('Nat' for _ in names)} → {rty}")
        out.append(f"  | 0, {', '.join(names)} => {x}")
        if mon:
            out.append(f"  | fuel+1, {', '.join(names)} => do"); out += self.seq_m(code, 4, mon)
        else:
            out.append(f"  | fuel+1, {', '.join(names)} =>"); out += self.seq_p(code, 4)
        out.append("")
        out.append(f"def {self.name} {' '.join(self.binders)} : {rty} := {self.name}_rec {rec['fuel']} {' '.join(names)}")
        out.append("")
        return "\n".join(out)

    # ---------------------------------------------------------------- rendering
    def inline(self, code, mon):
        s = ""
        for o in code.ops:
            if o[0] == "let": s += f"let {o[1]} := {o[2]}; "
            elif o[0] == "letcode": s += f"let {o[1]} := {self.inline(o[2], mon)}; "
            else: raise AssertionError("bind in pure code")
        t = code.term
        if t[0] == "ret": s += t[1]
        elif t[0] == "call": s += t[1]
        elif t[0] == "if": s += f"if {t[1]} then {self.inline_p(t[2], mon)} else {self.inline_p(t[3], mon)}"
        return s

    def inline_p(self, code, mon):
        s = self.inline(code, mon)
        return s if re.fullmatch(r"[\w.']+|\(.*\)", s) and unparen(s) != s or re.fullmatch(r"[\w.']+", s) else f"({s})"

    def pure_of(self, code, mon):
        s = self.inline(code, mon)
        return "pure " + (s if re.fullmatch(r"[\w.']+", s) or (s.startswith("(") and unparen(s) != s) else f"({s})")

    def term_m(self, code, ind, mon):
        """a Lean term of type `R _` for a code tree (possibly several lines; continuation lines are indented by > ind)"""
        if code.pure(mon): return self.pure_of(code, mon)
        if not code.ops:
            t = code.term
            if t[0] in ("tailm", "call"): return t[1]
            if t[0] == "if":
                return (f"if {t[1]} then\n{' ' * (ind + 4)}{self.term_m(t[2], ind + 4, mon)}\n{' ' * (ind + 2)}else\n"
                        f"{' ' * (ind + 4)}{self.term_m(t[3], ind + 4, mon)}")
        return "(do\n" + "\n".join(self.seq_m(code, ind + 2, mon)) + ")"

    def seq_m(self, code, ind, mon):
        sp = " " * ind; lines = []
        if code.pure(mon): return [sp + self.pure_of(code, mon)]
        for o in code.ops:
            if o[0] == "let": lines.append(f"{sp}let {o[1]} := {o[2]}")
            elif o[0] == "bind": lines.append(f"{sp}let {o[1]} ← {o[2]}")
            elif o[0] == "letcode":
                if o[2].pure(mon): lines.append(f"{sp}let {o[1]} := {self.inline(o[2], mon)}")
                else:
                    # parenthesised: inside `do`, an unparenthesised `let x ← if ..` is a do-`if` (elaborated with join points)
                    t = self.term_m(o[2], ind, mon)
                    lines.append(f"{sp}let {o[1]} ← {'(' + t + ')' if t.startswith('if ') else t}")
        t = code.term
        if t[0] == "ret": lines.append(sp + self.pure_of(Code([], t), mon))
        elif t[0] in ("tailm", "call"): lines.append(sp + t[1])
        elif t[0] == "if":
            if Code([], t).pure(mon): lines.append(sp + self.pure_of(Code([], t), mon))
            else:
                lines.append(f"{sp}if {t[1]} then")
                lines += self.seq_m(t[2], ind + 2, mon)
                lines.append(f"{sp}else")
                lines += self.seq_m(t[3], ind + 2, mon)
        return lines

    def seq_p(self, code, ind):
        sp = " " * ind; lines = []
        for o in code.ops:
            if o[0] == "let": lines.append(f"{sp}let {o[1]} := {o[2]}")
            elif o[0] == "letcode": lines.append(f"{sp}let {o[1]} := {self.inline(o[2], False)}")
            else: raise AssertionError("bind in a pure function")
        t = code.term
        if t[0] in ("ret", "call"): lines.append(sp + t[1])
        elif t[0] == "if":
            lines.append(f"{sp}if {t[1]} then")
            lines.append(f"{sp}  {self.inline_p(t[2], False)}")
            lines.append(f"{sp}else")
            lines.append(f"{sp}  {self.inline_p(t[3], False)}")
        return lines

    def render(self, code, mon):
        fn = self.fn; out = []
        rty = f"R ({self.ret_lean})" if mon and ("×" in self.ret_lean or " " in self.ret_lean) else (f"R {self.ret_lean}" if mon else self.ret_lean)
        for a in self.aux:
            if a.get("kind") == "closure":
                out.append(f"/-- closure `{a['rust']}` at line {a['line']} of `{fn['name']}` ({fn['file']}); captured variables first -/")
                crty = f"R {a['rty']}" if a["mon"] else a["rty"]
                chead = f"def {a['name']} {' '.join(a['binders'])} : {crty} :="
                if a["mon"]: out.append(chead + " do"); out += self.seq_m(a["code"], 2, True)
                else: out.append(chead); out += self.seq_p(a["code"], 2)
                out.append(""); continue
            out.append(f"/-- loop at line {a['line']} of `{fn['name']}` ({fn['file']}); fuel {a['fuel']} at the call site -/")
            out.append(f"def {a['name']} {' '.join(a['binders'])} : {' → '.join(['Nat'] + list(a['car_types']) + [a.get('rty', rty)])}".replace("  ", " "))
            pats = "".join(", " + n for n in a["car_names"])          # (phase 4d: a loop may carry no state at all - `compare_uint`)
            fu = "fuel"
            if mon or "rty" in a:
                out.append(f"  | 0{pats} => {self.term_m(a['exhaust'], 4, mon)}")
                out.append(f"  | {fu}+1{pats} => do")
                out += self.seq_m(a["body"], 4, mon)
            else:
                out.append(f"  | 0{pats} =>"); out += self.seq_p(a["exhaust"], 4)
                out.append(f"  | {fu}+1{pats} =>"); out += self.seq_p(a["body"], 4)
            out.append("")
        out.append(f"/-- `{fn['name']}`  {fn['file']}:{fn['line0']}-{fn['line1']}  sha256/64(normalised source) = {fn['hash']}")
        out.append(f"    names: {' '.join(self.namemap)} -/")
        head = f"def {self.name} {' '.join(self.binders)} : {rty} :=".replace("  ", " ")
        if mon:
            out.append(head + " do"); out += self.seq_m(code, 2, mon)
        else:
            out.append(head); out += self.seq_p(code, 2)
        out.append("")
        return "\n".join(out)


# ------------------------------------------------------------------------------------------------ driver

PRELUDE = """/-- `a / b`, `a % b` with a divisor that is not a non-zero literal: division by zero panics -/
def ckDiv (a b : Nat) : R Nat := if b = 0 then .error .other else .ok (a / b)
def ckMod (a b : Nat) : R Nat := if b = 0 then .error .other else .ok (a % b)
/-- `u64::leading_zeros` -/
def clz64 (v : Nat) : Nat := 64 - (if v = 0 then 0 else Nat.log2 v + 1)
/-- `v as u64` for an `i64` value (two's complement reinterpretation) -/
def asU64 (v : Int) : Nat := (v % 18446744073709551616).toNat
/-- `i64` `/` and `%` (truncating): a zero divisor and `i64::MIN / -1`, `i64::MIN % -1` panic -/
def ckDivI64 (a b : Int) : R Int := if b = 0 then .error .other else ckI64 (Int.tdiv a b)
def ckModI64 (a b : Int) : R Int :=
  if b = 0 then .error .other else if a = -9223372036854775808 ∧ b = -1 then .error .overflow else .ok (Int.tmod a b)
/-- `x >> v`, `x << v` by a variable amount on a `w`-bit word: an amount `>= w` panics (overflow checks) -/
def ckShr (w x v : Nat) : R Nat := if v < w then .ok (x >>> v) else .error .overflow
def ckShl (w x v : Nat) : R Nat := if v < w then .ok ((x <<< v) % 2^w) else .error .overflow
/-- `u32::reverse_bits` / `u64::reverse_bits` (reverse the low `k` bits of `x < 2^k`) -/
def revBits : Nat → Nat → Nat
  | 0, _ => 0
  | k+1, x => (x % 2) * 2^k + revBits k (x / 2)
/-- u128 arithmetic (`u128` = Nat, invariant `< 2^128`): checked `*` and `+`; `-` is `ckSub`, `/ %` are `ckDiv`/`ckMod` -/
def B128 : Nat := 340282366920938463463374607431768211456
def ckMul128 (a b : Nat) : R Nat := if a * b < B128 then .ok (a * b) else .error .overflow
def ckAdd128 (a b : Nat) : R Nat := if a + b < B128 then .ok (a + b) else .error .overflow
/-- bounds-checked slice write -/
def setIdx (l : List Nat) (i v : Nat) : R (List Nat) := if i < l.length then .ok (l.set i v) else .error .oob
/-- bounds-checked slice read -/
def idx (l : List Nat) (i : Nat) : R Nat := match l[i]? with | some x => .ok x | none => .error .oob
"""

ENUMS = {"SchemeType": {"lean": "Scheme", "ctors": {"BFV": ".bfv", "BGV": ".bgv", "CKKS": ".ckks"}},
         # phase 4d: `std::cmp::Ordering` = Lean's `Ordering` (`a.cmp(&b)` on words = `cmpW a b` of the Word2 prelude)
         "Ordering": {"lean": "Ordering", "ctors": {"Less": ".lt", "Equal": ".eq", "Greater": ".gt"}}}

US = "src/util/uintsmallmod.rs"; UB = "src/util/basic.rs"; UN = "src/util/number_theory.rs"; UT = "src/util/ntt.rs"
# functions to translate, callees first.  `monadic`: force the result into `R` (to match the hand model's type; wrapping a total
# function in `pure` is always sound).  `loops`: one entry per loop in source order.
TABLE = [
    {"file": UB, "fn": "add_u64", "model": "addU64"},
    {"file": UB, "fn": "add_u64_carry", "model": "addU64Carry"},
    {"file": UB, "fn": "sub_u64", "model": "subU64"},
    {"file": UB, "fn": "sub_u64_borrow", "model": "subU64Borrow"},
    {"file": UB, "fn": "multiply_u64_high_word", "model": "mulHi"},
    {"file": UB, "fn": "multiply_u64_u64", "model": "(mulLo, mulHi)"},
    {"file": UB, "fn": "get_significant_bit_count", "model": "bitCount (for v < 2^64)"},
    {"file": UN, "fn": "gcd", "model": "gcdU64", "monadic": True, "recursive": {"fuel": 200, "exhausted": "param:x"}},
    {"file": UN, "fn": "xgcd", "model": "xgcd (y < 2^64)", "loops": [{"fuel": 200, "exhausted": "error"}]},
    {"file": UN, "fn": "try_invert_u64_mod_u64", "model": "tryInvert"},
    {"file": US, "fn": "increment_u64_mod", "model": "incrementMod"},
    {"file": US, "fn": "decrement_u64_mod", "model": "decrementMod"},
    {"file": US, "fn": "negate_u64_mod", "model": "negateMod"},
    {"file": US, "fn": "div2_u64_mod", "model": "div2Mod", "monadic": True},
    {"file": US, "fn": "add_u64_mod", "model": "addMod"},
    {"file": US, "fn": "sub_u64_mod", "model": "subMod", "monadic": True},
    {"file": US, "fn": "barrett_reduce_u128", "model": "barrett128"},
    {"file": US, "fn": "barrett_reduce_u64", "model": "barrett64"},
    {"file": US, "fn": "multiply_u64_mod", "model": "mulMod"},
    {"file": US, "fn": "multiply_u64operand_mod", "model": "mulOperandMod"},
    {"file": US, "fn": "multiply_u64operand_mod_lazy", "model": "mulOperandModLazy"},
    {"file": US, "fn": "multiply_add_u64_mod", "model": "mulAddMod"},
    {"file": US, "fn": "multiply_u64operand_add_u64_mod", "model": "mulOperandAddMod"},
    {"file": US, "fn": "modulo_uint", "model": "moduloUint (v ≠ [])"},
    {"file": UB, "fn": "add_u128_inplace", "model": "addU128 (+ carry out)"},
    {"file": US, "fn": "dot_product_mod", "model": "dotProductMod"},
    {"file": US, "fn": "exponentiate_u64_mod", "model": "exponentiateMod", "loops": [{"fuel": 64, "exhausted": "break"}]},
    # phase 2: multi-word loops writing through `&mut [u64]` (value semantics: the slice is an input and the first result)
    {"file": UB, "fn": "add_uint", "model": "addUint a b result.len()"},
    {"file": UB, "fn": "sub_uint", "model": "subUint a b result.len()"},
    {"file": UB, "fn": "add_uint_u64", "model": "addUintU64"},
    {"file": UB, "fn": "sub_uint_u64", "model": "subUintU64"},
    # phase 2: MultiplyU64ModOperand::new (u128 division, struct literal, `&mut self` method)
    {"file": UB, "fn": "divide_u128_u64_inplace", "model": "(inlined in MulOperand.new)"},
    {"file": US, "struct": "MultiplyU64ModOperand", "model": "MulOperand", "fields": ["operand", "quotient"]},
    {"file": US, "fn": "set_quotient", "impl": "MultiplyU64ModOperand", "lean": "mulop_set_quotient", "model": "MulOperand.new"},
    {"file": US, "fn": "new", "impl": "MultiplyU64ModOperand", "lean": "mulop_new", "model": "MulOperand.new"},
    # phase 3
    {"file": US, "fn": "try_invert_u64_mod", "model": "tryInvert v m.value"},
    {"file": UB, "fn": "negate_uint", "model": "negateUint a result.len()"},
    # (`left_shift_u192` / `right_shift_u192` translate (variable shifts = ckShl/ckShr) but their equalities are not proven yet: not listed)
    {"file": UB, "fn": "reverse_bits_u32", "model": "brev bit_count operand (operand < 2^bit_count, bit_count <= 32)", "monadic": True},
]

# Gen/NttFns.lean: the lazy modular arithmetic of the NTT butterflies (src/util/ntt.rs, `impl Arithmetic for ModArithLazy`)
AR = "Arithmetic for ModArithLazy"
TABLE_NTT = [
    {"file": UN, "fn": "is_primitive_root", "model": "isPrimitiveRoot (Model/NTT.lean)"},
    {"file": UT, "struct": "ModArithLazy"},
    {"file": UT, "fn": "new", "impl": "ModArithLazy", "lean": "mal_new", "model": "modArithLazy (two_times_modulus = 2 * value)"},
    {"file": UT, "fn": "add", "impl": AR, "lean": "mal_add", "model": "(modArithLazy m).add"},
    {"file": UT, "fn": "sub", "impl": AR, "lean": "mal_sub", "model": "(modArithLazy m).sub"},
    {"file": UT, "fn": "mul_root", "impl": AR, "lean": "mal_mul_root", "model": "(modArithLazy m).mulRoot"},
    {"file": UT, "fn": "mul_scalar", "impl": AR, "lean": "mal_mul_scalar", "model": "(modArithLazy m).mulRoot"},
    {"file": UT, "fn": "guard", "impl": AR, "lean": "mal_guard", "model": "(modArithLazy m).guard"},
]



class Translator:
    def __init__(self, repo, table=None):
        self.repo = repo; self.table = TABLE if table is None else table; self.sigs = {}; self.msigs = {}
        self.cur_ns = "GenW"
        # Rust struct -> Lean structure.  MultiplyU64ModOperand is the hand model's `MulOperand` (Model/Word.lean): the field list is
        # checked against the source; other structs (table entries `struct`) are emitted into the generated file.
        self.structs = {}; self.enums = dict(ENUMS); self.enums_lean = {v["lean"]: k for k, v in ENUMS.items()}
        self._consts = {}

    def const(self, rel, name):
        """value and type of `const NAME: T = <integer literal>;` in file rel"""
        if (rel, name) not in self._consts:
            src = strip_comments(open(os.path.join(self.repo, rel)).read())
            ms = re.findall(r"\bconst\s+%s\s*:\s*(\w+)\s*=\s*([0-9][0-9a-fA-Fx_]*)\s*;" % re.escape(name), src)
            al = re.findall(r"\bconst\s+%s\s*:\s*(\w+)\s*=\s*([A-Z][A-Z0-9_]*)\s*;" % re.escape(name), src)
            if not ms and len(al) == 1:          # `const A: T = B;` (alias of another literal constant of the same file)
                v, ty = self.const(rel, al[0][1])
                if ty != al[0][0]: raise Unsupported(f"constant {name}: alias of a constant of another type")
                self._consts[(rel, name)] = (v, ty); return (v, ty)
            if len(ms) != 1: raise Unsupported(f"constant {name}: {len(ms)} literal definitions in {rel}")
            if ms[0][0] not in ("usize", "u64"): raise Unsupported(f"constant {name} of type {ms[0][0]}")
            self._consts[(rel, name)] = (parse_int(ms[0][1])[0], ms[0][0])
        return self._consts[(rel, name)]

    def struct_entry(self, ent):
        fields = parse_struct(self.repo, ent["file"], ent["struct"])
        for f, t in fields:
            if t not in ("u64", "usize", "Modulus"): raise Unsupported(f"struct {ent['struct']}: field {f} of type {t}")
        if "model" in ent:      # an existing hand-model structure: same field names, in order
            if [f for f, _ in fields] != ent["fields"]: raise Unsupported(f"struct {ent['struct']}: fields {fields} differ from the hand model's {ent['fields']}")
            self.structs[ent["struct"]] = {"lean": ent["model"], "fields": fields}
            return f"-- struct `{ent['struct']}` ({ent['file']}) = `{ent['model']}` of the hand model (fields {', '.join(f for f, _ in fields)})\n"
        self.structs[ent["struct"]] = {"lean": ent["struct"], "fields": fields}
        out = [f"/-- struct `{ent['struct']}`  {ent['file']} -/", f"structure {ent['struct']} where"]
        out += [f"  {f} : {'Modulus' if t == 'Modulus' else 'Nat'}" for f, t in fields]
        return "\n".join(out) + "\n"

    def run_file(self, spec):
        """spec: {"ns", "imports", "table", "opens"} -> text of one generated file"""
        self.cur_ns = spec["ns"]
        files = sorted({e["file"] for e in spec["table"]})
        out = ["/- GENERATED by tools/rs2lean.py (via tools/extract.py) from " + ", ".join(files) + " -- do not edit.",
               "   One definition per Rust function, conventions of Heathcliff/Model/Word.lean (see TRANSLATOR.md):",
               "   u64 = Nat, plain + - * = ckAdd/ckSub/ckMul in R, wrapping_* = wAdd/wSub/wMul, `&mut` results are returned",
               "   (out-parameters first, then the return value); locals are named by position (v1, v2, ...; parameters a0, a1, ...). -/"]
        out += [f"import {m}" for m in spec["imports"]] + ["", "set_option linter.unusedVariables false", "", f"namespace HC.{spec['ns']}", "open HC"]
        out += [f"open {o}" for o in spec.get("opens", [])] + ["", spec.get("prelude", "")]
        for ent in spec["table"]:
            try:
                if "struct" in ent: out.append(self.struct_entry(ent)); continue
                fn = parse_fn(self.repo, ent["file"], ent["fn"], ent.get("impl"), pre=ent.get("pre_text"))
                out.append(FnTranslate(self, fn, ent).translate())
            except Unsupported as ex:
                raise Unsupported(f"rs2lean: {ent['file']}: {'fn ' + ent['fn'] if 'fn' in ent else 'struct ' + ent['struct']}: {ex}")
        out += [f"end HC.{spec['ns']}", ""]
        return "\n".join(out)

    def run(self):
        return self.run_file({"ns": "GenW", "imports": ["Heathcliff.Model.Word"], "table": self.table, "prelude": PRELUDE})


def ladder_file(tr, spec):
    """Gen/LadderFns.lean: the CONDITIONS of the error returns of a decision ladder (`HeContext::validate`).  Every block
    `if COND { c.qualifiers.parameter_error = ErrorType::X; return c; }` is located in source order; for the error codes listed in
    spec["conds"] the condition is translated (as the body of a pseudo-function `fn <fn>_cond_X() -> bool { COND }`, with the accessor
    chains of the table as inputs); the others are recorded as untied (text only)."""
    rel, fname, impl = spec["file"], spec["fn"], spec["impl"]
    src = strip_comments(open(os.path.join(tr.repo, rel)).read())
    lo, hi = 0, None
    if impl is not None: lo, hi, _, _ = find_impl(src, impl, rel)
    off, line = find_fn(src, fname, rel, lo, hi)
    j = src.index("{", off); end = brace_block(src, j, f"fn {fname}")
    body = src[j:end]
    rungs = []
    for m in re.finditer(r"c\s*\.\s*qualifiers\s*\.\s*parameter_error\s*=\s*ErrorType\s*::\s*(\w+)\s*;\s*return\s+c\s*;\s*\}", body):
        # the `{` that opens the block this assignment sits in
        d = 0; q = m.start() - 1
        while q >= 0:
            if body[q] == "}": d += 1
            elif body[q] == "{":
                if d == 0: break
                d -= 1
            q -= 1
        if q < 0: raise Unsupported(f"ladder {fname}: no enclosing block for {m.group(1)}")
        # the header: back to the previous `;`, `{` or `}`
        h = q - 1
        while h >= 0 and body[h] not in ";{}": h -= 1
        header = " ".join(body[h + 1:q].split())
        ln = line + body.count("\n", 0, h + 1)
        rungs.append((m.group(1), header, ln))
    if not rungs: raise Unsupported(f"ladder {fname}: no error returns found")
    tr.cur_ns = spec["ns"]
    out = [f"/- GENERATED by tools/rs2lean.py (via tools/extract.py) from {rel} (`fn {fname}`) -- do not edit.",
           "   The conditions of the error returns `if COND { c.qualifiers.parameter_error = ErrorType::X; return c; }` in source order;",
           "   one Boolean function per condition listed in the translator's table (accessor chains are inputs), see TRANSLATOR.md. -/"]
    out += [f"import {m}" for m in spec["imports"]] + ["", "set_option linter.unusedVariables false", "", f"namespace HC.{spec['ns']}", "open HC", "open HC.GenW", ""]
    seen = set(); order = []
    for name, header, ln in rungs:
        tied = name in spec["conds"] and name not in seen
        order.append((name, header, ln, tied))
        if name in seen or name not in spec["conds"]: continue
        seen.add(name)
        if not header.startswith("if ") or header.startswith("if let "): raise Unsupported(f"ladder {fname}: the guard of {name} is `{header}`, not a plain `if`")
        cond = header[3:]
        text = f"fn {fname}_cond_{name}() -> bool {{ {cond} }}"
        toks = tokenize(text, ln)
        pf = Parser(toks, f"{fname}_cond_{name}").fn_item()
        norm = " ".join(t[1] for t in toks)
        pf.update({"file": rel, "line0": ln, "line1": ln, "hash": hashlib.sha256(norm.encode()).hexdigest()[:16], "norm": norm,
                   "selfty": None, "aliases": {}, "impl": None})
        try: out.append(FnTranslate(tr, pf, dict(spec["conds"][name], lean=f"cond_{name}")).translate())
        except Unsupported as ex: raise Unsupported(f"rs2lean: {rel}: ladder {fname}, condition of {name}: {ex}")
    missing = [n for n in spec["conds"] if n not in seen]
    if missing: raise Unsupported(f"ladder {fname}: no error return for {missing}")
    out.append("/-- the error returns in source order: (error code, its condition is translated above) -/")
    out.append("def rungs : List (String × Bool) := [" + ", ".join(f'("{n}", {"true" if t else "false"})' for n, _, _, t in order) + "]")
    out.append("/-")
    out += [f"  line {ln}: {n}: {h}" for n, h, ln, _ in order]
    out += ["-/", "", f"end HC.{spec['ns']}", ""]
    return "\n".join(out)


FILES = []      # filled below: (file name, spec) in dependency order


def gen_all(repo):
    """all generated files of the translator: {file name: text}"""
    # every generated file on its own: a construct outside the accepted subset in ONE source function fails THAT file loudly (the file
    # is replaced by a stub that does not elaborate, so every theorem depending on it is re-checked and fails); the other files - and
    # the properties that do not depend on the failed one - are unaffected.  `GenFailed` values are turned into stubs by extract.py.
    res = {}
    tr = Translator(repo)     # shared: later files refer to the signatures of functions translated for earlier ones
    for name, spec in FILES:
        try:
            if spec.get("app_mode"): import rs2lean_app; res[name] = rs2lean_app.generate(sys.modules[__name__], tr, spec)      # phase 4h: application layer (tools/rs2lean_app.py)
            elif spec.get("handler_mode"):      # phase 4e: generic butterfly network + NTTTables wrappers (tools/rs2lean_dwt.py)
                import rs2lean_dwt
                res[name] = rs2lean_dwt.generate(sys.modules[__name__], tr, spec)
            elif spec.get("rng_mode"):        # phase 4j: BlakeRNG + samplers (tools/rs2lean_rng.py)
                import rs2lean_rng
                res[name] = rs2lean_rng.generate(sys.modules[__name__], tr, spec)
            elif spec.get("ser_mode"):        # phase 4i: stream programs of src/serialize.rs (tools/rs2lean_ser.py)
                import rs2lean_ser
                res[name] = rs2lean_ser.generate(sys.modules[__name__], tr, spec)
            elif spec.get("ctx_mode"):          # round 7 (worker T): statement ranges of `HeContext::validate` (tools/rs2lean_ctx.py)
                import rs2lean_ctx
                res[name] = rs2lean_ctx.generate(sys.modules[__name__], tr, spec)
            elif spec.get("ckks_mode"):       # phase 4k: integer side of the CKKS encoder (tools/rs2lean_ckks.py)
                import rs2lean_ckks
                res[name] = rs2lean_ckks.generate(sys.modules[__name__], tr, spec)
            elif spec.get("gal_mode"):          # round 7 (worker V): plan skeletons of the rotation layer (tools/rs2lean_gal.py)
                import rs2lean_gal
                res[name] = rs2lean_gal.generate(sys.modules[__name__], tr, spec)
            elif spec.get("mp_mode"):          # round 7 (worker W): multiparty protocol skeletons (tools/rs2lean_mp.py)
                import rs2lean_mp
                res[name] = rs2lean_mp.generate(sys.modules[__name__], tr, spec)
            else: res[name] = ladder_file(tr, spec) if spec.get("ladder") else tr.run_file(spec)
        except (Unsupported, SystemExit) as ex: res[name] = GenFailed(str(ex))
        except Exception as ex: res[name] = GenFailed("translator error: %s: %s" % (type(ex).__name__, ex))
    return res


class GenFailed(str):
    """marker: generation of one file failed; the text is the message"""


def gen_wordfns(repo):
    r = gen_all(repo)["WordFns.lean"]
    if isinstance(r, GenFailed): raise SystemExit("extract.py: " + r)
    return r



# Gen/ValidFns.lean: decision logic (src/evaluator.rs, src/valcheck.rs).  The objects these functions inspect (contexts, ciphertexts,
# floats) are not modelled by the translator: every accessor chain the function evaluates on them is declared here as an INPUT of the
# generated function (`abstract`: canonical source text -> (Lean binder, type); an entry without a binder is an opaque handle that may
# only occur inside other listed chains).  Locals that merely name a handle are substituted away, so renaming them changes nothing.
EV = "src/evaluator.rs"; VC = "src/valcheck.rs"
CD = "context.get_context_data(self.parms_id()).unwrap()"
TABLE_VALID = [
    {"file": EV, "fn": "is_scale_within_bounds", "impl": "Evaluator", "model": "ckksScaleOk (Model/Evaluator.lean)", "opaque": ["ContextData"],
     "abstract": [("context_data.parms().scheme()", "scheme", "Scheme"),
                  ("context_data.parms().plain_modulus().bit_count()", "plainBits", "Nat"),
                  ("context_data.total_coeff_modulus_bit_count()", "totalBits", "Nat"),
                  ("scale <= 0.0", "scaleNonPos", "Bool"),
                  ("scale.log2() as isize", "scaleLog2", "Int")]},
    {"file": VC, "fn": "is_metadata_valid_for", "impl": "ValCheck for Ciphertext", "lean": "ct_is_metadata_valid_for", "model": "ctValid (metadata part)",
     "opaque": ["HeContext"], "consts": {"HE_CIPHERTEXT_SIZE_MIN": UB, "HE_CIPHERTEXT_SIZE_MAX": UB},
     "abstract": [("context.parameters_set()", "parametersSet", "Bool"),
                  ("context.get_context_data(self.parms_id())",),
                  ("context.get_context_data(self.parms_id()).is_none()", "ctxMissing", "Bool"),
                  (CD,),
                  (CD + ".chain_index()", "chainIndex", "Nat"),
                  ("context.first_context_data().unwrap().chain_index()", "firstChainIndex", "Nat"),
                  (CD + ".parms()",),
                  (CD + ".parms().coeff_modulus()",),
                  (CD + ".parms().coeff_modulus().len()", "levelSize", "Nat"),
                  (CD + ".parms().poly_modulus_degree()", "levelN", "Nat"),
                  ("self.coeff_modulus_size()", "ctComponents", "Nat"),
                  ("self.poly_modulus_degree()", "ctN", "Nat"),
                  ("self.size()", "ctSize", "Nat"),
                  (CD + ".is_bfv()", "isBfv", "Bool"),
                  (CD + ".is_bgv()", "isBgv", "Bool"),
                  (CD + ".is_ckks()", "isCkks", "Bool"),
                  ("self.scale() != 1.0", "scaleNotOne", "Bool"),
                  ("self.scale() == 0.0", "scaleIsZero", "Bool"),
                  ("self.correction_factor()", "cf", "Nat"),
                  (CD + ".parms().plain_modulus()",),
                  (CD + ".parms().plain_modulus().value()", "tValue", "Nat")]},
    {"file": VC, "fn": "is_buffer_valid", "impl": "ValCheck for Ciphertext", "lean": "ct_is_buffer_valid", "model": "(flat buffer length; spec only)",
     "abstract": [("self.data().len()", "dataLen", "Nat"), ("self.coeff_modulus_size()", "ctComponents", "Nat"),
                  ("self.size()", "ctSize", "Nat"), ("self.poly_modulus_degree()", "ctN", "Nat")]},
]

# Gen/GaloisFns.lean: src/util/galois.rs (`GaloisTool` holds an RwLock: its two plain fields are inputs)
UG = "src/util/galois.rs"
TABLE_GALOIS = [
    {"file": UG, "fn": "get_elt_from_step", "impl": "GaloisTool", "model": "eltFromStep", "consts": {"GALOIS_GENERATOR": UG},
     "abstract": [("self.coeff_count", "coeffCount", "Nat")]},
    {"file": UG, "fn": "get_elts_all", "impl": "GaloisTool", "model": "eltsAll", "consts": {"GALOIS_GENERATOR": UG},
     "abstract": [("self.coeff_count", "coeffCount", "Nat"), ("self.coeff_count_power", "coeffCountPower", "Nat")]},
    {"file": UG, "fn": "get_index_from_elt", "impl": "GaloisTool", "model": "(g - 1) / 2 for odd g"},
    # phase 3
    {"file": UG, "fn": "apply", "impl": "GaloisTool", "lean": "galois_apply", "model": "galoisApply",
     "abstract": [("self.coeff_count", "coeffCount", "Nat"), ("self.coeff_count_power", "coeffCountPower", "Nat")]},
    {"file": UG, "fn": "generate_table_ntt", "impl": "GaloisTool", "model": "galoisTableNtt",
     "abstract": [("self.coeff_count", "coeffCount", "Nat"), ("self.coeff_count_power", "coeffCountPower", "Nat")]},
]

# Gen/EvalFns.lean (phase 3): src/evaluator.rs beyond pure validity checks
# level walk (C05): the objects are opaque; the TRUSTED reading of the accessors / effects is spelled out in the skeleton tables:
#   chain indices identify levels (`a.parms_id() != b` <=> their chain indices differ), one `mod_switch_to_next_inplace` /
#   `mod_switch_scale_to_next_internal` moves the ciphertext exactly one chain index down (or panics); the generated function returns the
#   trace of chain indices visited.  Fuel 2^64: a chain index is a usize, the walk cannot take more steps.
WALK_FUEL = 18446744073709551616
TABLE_EVAL = [
    {"file": EV, "fn": "balance_correction_factors", "impl": "Evaluator", "model": "balanceCorrectionFactors (Model/Evaluator.lean)",
     "loops": [{"fuel": 200, "exhausted": "error"}]},
    {"file": EV, "fn": "mod_switch_to_inplace", "impl": "Evaluator", "model": "switchSteps cur tgt (Model/Evaluator.lean)",
     "loops": [{"fuel": WALK_FUEL, "exhausted": "error"}],
     "skeleton": {"sig": "fn mod_switch_to_inplace(cur0: usize, tgt: usize) -> Vec<usize>",
                  "prologue": "let mut cur = cur0; let mut trace = vec![];", "epilogue": "trace",
                  "handles": ["self.get_context_data(encrypted.parms_id())", "self.get_context_data(parms_id)"],
                  "exprs": {"self.get_context_data(encrypted.parms_id()).chain_index()": "cur",
                            "self.get_context_data(parms_id).chain_index()": "tgt",
                            "encrypted.parms_id() != parms_id": "cur != tgt"},
                  "effects": {"self.mod_switch_to_next_inplace(encrypted)": "cur = cur - 1; trace.push(cur);"}}},
]

# Gen/RnsFns.lean (phase 4c): src/util/polysmallmod.rs (component-wise helpers written as iterator chains) and the RNSTool routines of
# src/util/rns.rs that divide by the last prime.  `self` is not modelled: every field / accessor the routine reads is an INPUT
# (scalars, `Modulus`, and LISTS indexed with a bounds check: `self.base_q.base_at(#)` etc.); the (i)NTT calls are abstract FUNCTION
# inputs `table index -> data -> R data` (`extern`).
UP = "src/util/polysmallmod.rs"; UR = "src/util/rns.rs"; MD = "src/modulus.rs"
RNS_Q = [("self.base_q.len()", "qSize", "Nat"), ("self.base_q.base_at(#)", "baseQ", "List Modulus"),
         ("self.coeff_count", "coeffCount", "Nat"), ("self.inv_q_last_mod_q[#]", "invQLastModQ", "List MulOperand")]
RNS_QB = [("self.base_q.len()", "qSize", "Nat"), ("self.base_q.base()",), ("self.base_q.base()[#]", "baseQ", "List Modulus"),
          ("self.coeff_count", "coeffCount", "Nat"), ("self.inv_q_last_mod_q[#]", "invQLastModQ", "List MulOperand"),
          ("self.t", "tMod", "Modulus"), ("self.inv_q_last_mod_t", "invQLastModT", "Nat")]
from rs2lean_rns4k import TABLE_RNS_4K      # phase 4k (worker Q): the rest of the BEHZ layer
TABLE_RNS = [
    {"file": MD, "fn": "reduce", "impl": "Modulus", "lean": "modulus_reduce", "model": "barrett64"},
    {"file": UP, "fn": "modulo", "iters": True, "model": "mapM barrett64"},
    {"file": UP, "fn": "negate_inplace", "iters": True, "model": "mapM negateMod"},
    {"file": UP, "fn": "add_scalar_inplace", "iters": True, "model": "mapM addMod"},
    {"file": UP, "fn": "sub_scalar_inplace", "iters": True, "model": "mapM subMod"},
    {"file": UP, "fn": "sub_inplace", "model": "zip subMod"},
    {"file": UP, "fn": "multiply_operand_inplace", "iters": True, "model": "mapM mulOperandMod"},
    {"file": UP, "fn": "multiply_scalar_inplace", "iters": True, "model": "mapM mulMod"},
    {"file": UR, "fn": "divide_and_round_q_last_inplace", "impl": "RNSTool", "model": "RNSTool.divideAndRoundQLast", "nested_loops": True,
     "abstract": RNS_Q},
    {"file": UR, "fn": "mod_t_and_divide_q_last_inplace", "impl": "RNSTool", "model": "RNSTool.modTAndDivideQLast", "nested_loops": True,
     "abstract": RNS_QB},
    {"file": UP, "fn": "multiply_operand", "iters": True, "model": "mapM mulOperandMod"},
    {"file": UR, "fn": "sm_mrq", "impl": "RNSTool", "model": "RNSTool.smMrq", "nested_loops": True,
     "abstract": [("self.base_Bsk.len()", "bskSize", "Nat"), ("self.base_Bsk.base_at(#)", "baseBsk", "List Modulus"), ("self.coeff_count", "coeffCount", "Nat"),
                  ("self.m_tilde", "mTilde", "Modulus"), ("self.neg_inv_prod_q_mod_m_tilde", "negInvProdQModMt", "MulOperand"),
                  ("self.prod_q_mod_Bsk[#]", "prodQModBsk", "List Nat"), ("self.inv_m_tilde_mod_Bsk[#]", "invMtModBsk", "List MulOperand")]},
    {"file": UB, "fn": "set_uint", "model": "copy of the first len words"},
    {"file": UR, "fn": "divide_and_round_q_last_ntt_inplace", "impl": "RNSTool", "model": "RNSTool.divideAndRoundQLastNtt", "nested_loops": True,
     "abstract": RNS_Q, "opaque": ["NTTTables"],
     "extern": [{"mcall": "inverse_ntt_negacyclic_harvey", "tables": "rns_ntt_tables", "binder": "inttF"},
                {"mcall": "ntt_negacyclic_harvey_lazy", "tables": "rns_ntt_tables", "binder": "nttLazyF"}]},
    {"file": UR, "fn": "mod_t_and_divide_q_last_ntt_inplace", "impl": "RNSTool", "model": "RNSTool.modTAndDivideQLastNtt", "nested_loops": True,
     "abstract": RNS_QB, "opaque": ["NTTTables"],
     "extern": [{"call": "polymod::intt", "tables": "rns_ntt_tables", "binder": "inttF"}, {"call": "polymod::ntt", "tables": "rns_ntt_tables", "binder": "nttF"}]},
    {"file": UR, "fn": "fast_convert_array", "impl": "BaseConverter", "model": "BaseConverter.fastConvertArray", "nested_loops": True,
     "abstract": [("self.ibase.len()", "ibaseSize", "Nat"), ("self.obase.len()", "obaseSize", "Nat"),
                  ("self.ibase.inv_punctured_prod_mod_base()[#]", "invPunct", "List MulOperand"),
                  ("self.ibase.base_at(#)", "ibase", "List Modulus"), ("self.obase.base_at(#)", "obase", "List Modulus"),
                  ("self.base_change_matrix[#]", "matrix", "List (List Nat)")]},
    {"file": UR, "fn": "fast_floor", "impl": "RNSTool", "model": "RNSTool.fastFloor", "nested_loops": True,
     "abstract": [("self.base_q.len()", "qSize", "Nat"), ("self.base_Bsk.len()", "bskSize", "Nat"), ("self.coeff_count", "coeffCount", "Nat"),
                  ("self.base_Bsk.base_at(#)", "baseBsk", "List Modulus"), ("self.inv_prod_q_mod_Bsk[#]", "invProdQModBsk", "List MulOperand")],
     "extern": [{"rcall": "self.base_q_to_Bsk_conv.fast_convert_array", "binder": "qToBskF"}]},
] + TABLE_RNS_4K
PRELUDE_RNS = """/-- bounds-checked reads of the list inputs that stand for `Vec<Modulus>` / `Vec<MultiplyU64ModOperand>` fields -/
def idxMod (l : List Modulus) (i : Nat) : R Modulus := match l[i]? with | some x => .ok x | none => .error .oob
def idxOp (l : List MulOperand) (i : Nat) : R MulOperand := match l[i]? with | some x => .ok x | none => .error .oob
/-- bounds-checked read of a row of a `Vec<Vec<u64>>` field (`&self.base_change_matrix[i]`) -/
def idxRow (l : List (List Nat)) (i : Nat) : R (List Nat) := match l[i]? with | some x => .ok x | none => .error .oob
/-- `&s[a..b]`: panics unless `a <= b <= s.len()` -/
def slice (l : List Nat) (a b : Nat) : R (List Nat) := if a ≤ b ∧ b ≤ l.length then .ok ((l.drop a).take (b - a)) else .error .oob
/-- write a callee's result for `&mut s[a..]` back (the callee cannot change the length of the sub-slice) -/
def splice (l : List Nat) (a : Nat) (s : List Nat) : List Nat := l.take a ++ s ++ l.drop (a + s.length)
/-- `x[lo..hi].copy_from_slice(src)` (bounds already checked): panics unless the lengths agree (same definition as in Gen/PolyFns.lean) -/
def copySlice (l : List Nat) (lo hi : Nat) (src : List Nat) : R (List Nat) :=
  if src.length = hi - lo then .ok (splice l lo src) else .error .refused
"""

# Gen/ScalingFns.lean (phase 4a): src/util/scaling_variant.rs, the BFV scaling  dest += / -= round(q*m/t)  (C01 / C02 / C07).
# The context / plaintext objects are opaque; what the functions read from them are inputs (getters returning slices are lists).
SV = "src/util/scaling_variant.rs"
ABS_SCALING = [("context_data.parms()",),
               ("context_data.parms().coeff_modulus()", "coeffModulus", "List Modulus"),
               ("plain.coeff_count()", "plainCoeffCount", "Nat"),
               ("context_data.parms().poly_modulus_degree()", "coeffCount", "Nat"),
               ("context_data.parms().plain_modulus()", "plainModulus", "Modulus"),
               ("context_data.coeff_div_plain_modulus()", "coeffDivPlain", "List MulOperand"),
               ("context_data.plain_upper_half_threshold()", "upperHalf", "Nat"),
               ("context_data.coeff_modulus_mod_plain_modulus()", "qModT", "Nat"),
               ("plain.data()", "plainData", "List Nat")]
SCALING_PRELUDE = """/-- bounds-checked read of a read-only slice of structs (`&coeff_modulus[j]`, `&coeff_div_plain_modulus[j]`) -/
def idxT {α : Type} (l : List α) (i : Nat) : R α := match l[i]? with | some x => .ok x | none => .error .oob
"""
TABLE_SCALING = [
    {"file": SV, "fn": "multiply_add_plain", "model": "multiplyAddPlain (Model/Scheme.lean)", "opaque": ["Plaintext", "ContextData"], "abstract": ABS_SCALING, "alias_abstract": True},
    {"file": SV, "fn": "multiply_sub_plain", "model": "multiplySubPlain (Model/Scheme.lean)", "opaque": ["Plaintext", "ContextData"], "abstract": ABS_SCALING, "alias_abstract": True},
]

# Gen/PolyFns.lean (phase 4b): src/util/polysmallmod.rs, the coefficient-wise polynomial arithmetic of the evaluator (one modulus: the
# kernels; `_p`: all components of one polynomial; `_ps`: several polynomials) on flat `&[u64]` buffers
PM = "src/util/polysmallmod.rs"
POLY_PRELUDE = """/-- bounds-checked read of a read-only slice of structs (`&moduli[i]`) -/
def idxT {α : Type} (l : List α) (i : Nat) : R α := match l[i]? with | some x => .ok x | none => .error .oob
/-- `&s[a..b]`: panics unless `a <= b <= s.len()` -/
def slice (l : List Nat) (a b : Nat) : R (List Nat) := if a ≤ b ∧ b ≤ l.length then .ok ((l.drop a).take (b - a)) else .error .oob
/-- write a callee's result for `&mut s[a..]` back (the callee cannot change the length of the sub-slice) -/
def splice (l : List Nat) (a : Nat) (s : List Nat) : List Nat := l.take a ++ s ++ l.drop (a + s.length)
/-- `x[lo..hi].copy_from_slice(src)` (bounds already checked): panics unless the lengths agree -/
def copySlice (l : List Nat) (lo hi : Nat) (src : List Nat) : R (List Nat) :=
  if src.length = hi - lo then .ok (splice l lo src) else .error .refused
"""
def _pk(fn, **kw): return dict({"file": PM, "fn": fn, "lean": "poly_" + fn, "iters": True}, **kw)
POLY_KERNELS = ["modulo", "negate", "negate_inplace", "add", "add_inplace", "sub", "sub_inplace", "add_scalar", "add_scalar_inplace",
                "sub_scalar", "sub_scalar_inplace", "multiply_scalar", "multiply_scalar_inplace", "multiply_operand", "multiply_operand_inplace",
                "dyadic_product", "dyadic_product_inplace", "negacyclic_shift", "negacyclic_multiply_mononomial",
                "negacyclic_multiply_mononomial_inplace"]
# wrappers: only those the library calls (src/evaluator.rs, src/encryptor.rs, ...); a generated function without a theorem only adds fragility
POLY_WRAPPERS = ["negate_inplace_p", "negate_inplace_ps", "add_inplace_p", "add_inplace_ps", "sub_inplace_p", "sub_inplace_ps",
                 "multiply_scalar_p", "multiply_scalar_inplace_p", "multiply_scalar_inplace_ps", "dyadic_product_p", "dyadic_product_inplace_p",
                 "negacyclic_shift_p", "negacyclic_shift_ps", "negacyclic_multiply_mononomial_inplace_p", "negacyclic_multiply_mononomial_inplace_ps"]
TABLE_POLY = [{"file": "src/modulus.rs", "fn": "reduce", "impl": "Modulus", "lean": "mod_reduce", "model": "barrett64"},
              {"file": UB, "fn": "set_uint", "model": "(copy of a prefix)"}] + \
             [_pk(k) for k in POLY_KERNELS] + [_pk(k) for k in POLY_WRAPPERS]

# Gen/EvalCtFns.lean (phase 4d): ciphertext-level evaluator primitives (src/evaluator.rs) over the FLAT ciphertext buffers.  Skeleton
# mode: the ciphertext / context objects are opaque; their data vectors, sizes, correction factors are pseudo-variables, the checks
# (`check_ciphertext`, `match_parms_id`, `match_scale`, NTT-form comparison) are Boolean inputs.  TRUSTED reading of the accessors:
# `data()` / `data_mut()` = the flat buffer, `polys_mut(a, b)` = `&mut data[a*d..b*d]` with d = degree * moduli.len() (src/text.rs),
# `resize(.., size)` = the size check of `resize_internal` + `data.resize(size*d, 0)` + `size = size`.
CTX1 = "self.get_context_data(ciphertext1.parms_id())"
PLEN = "(n * moduli.len())"
SK_TRANSLATE = {
    "sig": "fn translate_inplace(d1: &mut Vec<u64>, size1_in: usize, cf1_in: u64, d2: &[u64], size2: usize, cf2: u64, is_subtract: bool, "
           "valid1: bool, valid2: bool, same_parms: bool, ntt_differ: bool, same_scale: bool, moduli: &[Modulus], t: &Modulus, n: usize) -> (usize, u64)",
    "prologue": "let mut size1 = size1_in; let mut cf1 = cf1_in;", "epilogue": "(size1, cf1)",
    "handles": [CTX1, CTX1 + ".parms()"],
    # (phase 4g: the ordinary locals of the function are `$name` wildcards, so that renaming them changes nothing)
    "exprs": {"ciphertext1.is_ntt_form() != ciphertext2.is_ntt_form()": "ntt_differ",
              CTX1 + ".parms().coeff_modulus()": "moduli", CTX1 + ".parms().plain_modulus()": "t", CTX1 + ".parms().poly_modulus_degree()": "n",
              "ciphertext1.size()": "size1", "ciphertext2.size()": "size2",
              "ciphertext1.correction_factor() != ciphertext2.correction_factor()": "cf1 != cf2",
              "Self::balance_correction_factors(ciphertext1.correction_factor(), ciphertext2.correction_factor(), $pm)":
                  "Evaluator::balance_correction_factors(cf1, cf2, $pm)",
              "ciphertext1.data_mut()": "d1", "ciphertext2.data()": "d2", "ciphertext2.clone()": "d2.to_vec()",
              "$c.data_mut()": "$c",
              "ciphertext1.polys_mut($a, $b)": "&mut d1[$a * %s..$b * %s]" % (PLEN, PLEN)},
    "effects": {"self.check_ciphertext(ciphertext1)": "assert!(valid1);", "self.check_ciphertext(ciphertext2)": "assert!(valid2);",
                "self.match_parms_id(ciphertext1, ciphertext2)": "assert!(same_parms);",
                "self.match_scale(ciphertext1, ciphertext2)": "assert!(same_scale);",
                "ciphertext1.resize(&self.context, " + CTX1 + ".parms_id(), $m)":
                    "assert!(!(($m < HE_CIPHERTEXT_SIZE_MIN && $m != 0) || $m > HE_CIPHERTEXT_SIZE_MAX)); "
                    "d1.resize($m * n * moduli.len(), 0); size1 = $m;",
                "ciphertext1.set_correction_factor($f.0)": "cf1 = $f.0;",
                "$c.set_correction_factor($f.0)": "",
                "ciphertext1.polys_mut($a, $b).copy_from_slice(ciphertext2.polys($a2, $b2))":
                    "d1[$a * %s..$b * %s].copy_from_slice(&d2[$a2 * %s..$b2 * %s]);" % (PLEN, PLEN, PLEN, PLEN)}}
REC = "self.translate_inplace(ciphertext1, &$c, is_subtract)"
SK_TRANSLATE_EQ = dict(SK_TRANSLATE, effects=dict(SK_TRANSLATE["effects"], **{REC: "panic!();"}))      # recursion depth 2: cut off (unreachable: the factors are equal there)
SK_TRANSLATE_TOP = dict(SK_TRANSLATE, effects=dict(SK_TRANSLATE["effects"], **{REC:
    "let r = translate_inplace_eq(d1, size1, cf1, &$c, size2, cf1, is_subtract, valid1, valid2, same_parms, ntt_differ, same_scale, moduli, t, n); "
    "size1 = r.0; cf1 = r.1;"}))
CTXN = "self.get_context_data(ciphertext.parms_id())"
SK_NEGATE = {"sig": "fn negate_inplace(d: &mut Vec<u64>, size: usize, valid: bool, moduli: &[Modulus], n: usize)",
             "handles": [CTXN, CTXN + ".parms()"],
             "exprs": {CTXN + ".parms().coeff_modulus()": "moduli", CTXN + ".parms().poly_modulus_degree()": "n", "ciphertext.size()": "size",
                       "ciphertext.data_mut()": "d"},
             "effects": {"self.check_ciphertext(ciphertext)": "assert!(valid);"}}
CSZ = {"HE_CIPHERTEXT_SIZE_MIN": UB, "HE_CIPHERTEXT_SIZE_MAX": UB}
TABLE_EVALCT = [
    {"file": EV, "fn": "negate_inplace", "impl": "Evaluator", "lean": "ct_negate_inplace", "model": "ctNegate", "skeleton": SK_NEGATE},
    {"file": EV, "fn": "translate_inplace", "impl": "Evaluator", "lean": "ct_translate_inplace_eq", "register_as": "translate_inplace_eq",
     "model": "ctTranslate", "skeleton": SK_TRANSLATE_EQ, "consts": CSZ},
    {"file": EV, "fn": "translate_inplace", "impl": "Evaluator", "lean": "ct_translate_inplace", "register_as": "translate_inplace_top",
     "model": "ctTranslateBalanced", "skeleton": SK_TRANSLATE_TOP, "consts": CSZ},
]
EVALCT_PRELUDE = """/-- `Vec::resize(n, fill)` -/
def resizeL (l : List Nat) (n fill : Nat) : List Nat := l.take n ++ List.replicate (n - l.length) fill
"""

FILES += [
    ("WordFns.lean", {"ns": "GenW", "imports": ["Heathcliff.Model.Word"], "table": TABLE, "prelude": PRELUDE}),
    ("NttFns.lean", {"ns": "GenN", "imports": ["Heathcliff.Gen.WordFns"], "table": TABLE_NTT, "opens": ["HC.GenW"]}),
    ("GaloisFns.lean", {"ns": "GenG", "imports": ["Heathcliff.Gen.WordFns"], "table": TABLE_GALOIS, "opens": ["HC.GenW"]}),
    ("ValidFns.lean", {"ns": "GenV", "imports": ["Heathcliff.Gen.WordFns", "Heathcliff.Model.Scheme"], "table": TABLE_VALID, "opens": ["HC.GenW"]}),
    ("LadderFns.lean", {"ns": "GenL", "ladder": True, "imports": ["Heathcliff.Gen.WordFns"], "file": "src/context.rs", "impl": None, "fn": "validate",
                        "conds": {
        "InvalidCoeffModulusSize": {"consts": {"HE_COEFF_MOD_COUNT_MAX": UB, "HE_COEFF_MOD_COUNT_MIN": UB}, "abstract": [("coeff_modulus.len()", "k", "Nat")]},
        "InvalidCoeffModulusBitCount": {"consts": {"HE_USER_MOD_BIT_COUNT_MAX": UB, "HE_USER_MOD_BIT_COUNT_MIN": UB}, "abstract": [("coeff_modulus[i].value()", "q", "Nat")]},
        "InvalidPolyModulusDegree": {"consts": {"HE_POLY_MOD_DEGREE_MIN": UB, "HE_POLY_MOD_DEGREE_MAX": UB}, "abstract": [("poly_modulus_degree", "n", "Nat")]},
        "InvalidPlainModulusBitCount": {"consts": {"HE_PLAIN_MOD_BIT_COUNT_MAX": UB, "HE_PLAIN_MOD_BIT_COUNT_MIN": UB}, "abstract": [("plain_modulus.value()", "t", "Nat")]},
                        }}),
    ("EvalFns.lean", {"ns": "GenE", "imports": ["Heathcliff.Gen.WordFns"], "table": TABLE_EVAL, "opens": ["HC.GenW"]}),
    ("PolyFns.lean", {"ns": "GenP", "imports": ["Heathcliff.Gen.WordFns"], "table": TABLE_POLY, "opens": ["HC.GenW"], "prelude": POLY_PRELUDE}),
    ("EvalCtFns.lean", {"ns": "GenC", "imports": ["Heathcliff.Gen.PolyFns", "Heathcliff.Gen.EvalFns"], "table": TABLE_EVALCT,
                        "opens": ["HC.GenW", "HC.GenP"], "prelude": EVALCT_PRELUDE}),
    ("ScalingFns.lean", {"ns": "GenS", "imports": ["Heathcliff.Gen.WordFns"], "table": TABLE_SCALING, "opens": ["HC.GenW"], "prelude": SCALING_PRELUDE}),
    ("RnsFns.lean", {"ns": "GenR", "imports": ["Heathcliff.Gen.WordFns", "Heathcliff.Gen.PolyFns"], "table": TABLE_RNS, "opens": ["HC.GenW"], "prelude": PRELUDE_RNS}),
]

# Gen/Word2Fns.lean (phase 4d): more of src/util/basic.rs - the 192-bit shifts, multi-word comparison, the in-place add / sub and the
# multi-word modular add / sub built from them.  Functions of Gen/WordFns.lean are referred to as `GenW.f`.
PRELUDE_WORD2 = """/-- `a.cmp(&b)` on machine words -/
def cmpW (a b : Nat) : Ordering := if a < b then .lt else if a = b then .eq else .gt
/-- i32 = Int: `+ - *`, unary `-`, `abs` are overflow-checked -/
def ckI32 (v : Int) : R Int := if -(2^31 : Int) ≤ v ∧ v < 2^31 then pure v else .error .overflow
/-- the i32 with the given low 32 bits (two's complement) -/
def asI32 (n : Nat) : Int := if n % 4294967296 < 2147483648 then Int.ofNat (n % 4294967296) else Int.ofNat (n % 4294967296) - 4294967296
/-- `a & b` on i32 (two's complement) -/
def andI32 (a b : Int) : Int := asI32 ((a % 4294967296).toNat &&& (b % 4294967296).toNat)
/-- `a >> k` on i32, constant `k < 32`: arithmetic shift = floor division -/
def shrI32 (a : Int) (k : Nat) : Int := a / (2^k : Int)
/-- `a << v` on i32: only the AMOUNT is checked (`0 <= v < 32`); the value wraps (`1 << 31 = i32::MIN`) -/
def ckShlI32 (a v : Int) : R Int := if 0 ≤ v ∧ v < 32 then .ok (asI32 ((a % 4294967296).toNat * 2^v.toNat)) else .error .overflow
"""
TABLE_WORD2 = [
    {"file": UB, "fn": "left_shift_u192", "model": "leftShiftU192 [a0, a1, a2] s"},
    {"file": UB, "fn": "right_shift_u192", "model": "rightShiftU192 [a0, a1, a2] s"},
    {"file": UB, "fn": "compare_uint", "model": "compareUint"},
    {"file": UB, "fn": "is_greater_than_or_equal_uint", "model": "geUint"},
    {"file": UB, "fn": "add_uint_inplace", "model": "addUint a b a.len()"},
    {"file": UB, "fn": "sub_uint_inplace", "model": "subUint a b a.len()"},
    {"file": UB, "fn": "add_uint_mod", "model": "addUintMod"},
    {"file": UB, "fn": "sub_uint_mod", "model": "subUintMod"},
    {"file": UB, "fn": "add_uint_mod_inplace", "model": "addUintMod"},
    # number_theory.rs `naf` (i32 arithmetic); fuel 40 / exhaustion = leave the loop, as `nafLoop` of the hand model (an i32 has 32 bits)
    {"file": UN, "fn": "naf", "model": "HC.naf (|value| < 2^30)", "loops": [{"fuel": 40, "exhausted": "break"}]},
]
FILES += [
    ("Word2Fns.lean", {"ns": "GenW2", "imports": ["Heathcliff.Gen.WordFns"], "table": TABLE_WORD2, "opens": ["HC.GenW"], "prelude": PRELUDE_WORD2}),
    # phase 4k (worker Q): after Word2Fns, whose functions it calls
    ("Rns2Fns.lean", {"ns": "GenR2", "imports": ["Heathcliff.Gen.RnsFns", "Heathcliff.Gen.Word2Fns"], "table": __import__("rs2lean_rns4k").TABLE_RNS2_4K,
                      "opens": ["HC.GenW", "HC.GenR"]}),
]
# Gen/DwtFns.lean (phase 4e, handler mode - tools/rs2lean_dwt.py): the butterfly network `DWTHandler::transform_to_rev` / `transform_from_rev`
# (src/util/dwthandler.rs, generic over `trait Arithmetic`) and the `NTTTables` wrappers that run it with `ModArithLazy` (src/util/ntt.rs)
UD = "src/util/dwthandler.rs"
NTT_VIEW = {"coeff_count_power": "usize", "modulus": "Modulus", "inv_degree_modulo": "MultiplyU64ModOperand",
            "root_powers": "Vec<MultiplyU64ModOperand>", "inv_root_powers": "Vec<MultiplyU64ModOperand>", "ntt_handler": "NTTHandler"}
FILES += [
    ("DwtFns.lean", {"ns": "GenD", "handler_mode": True, "imports": ["Heathcliff.Gen.NttFns"],
                     "trait": {"file": UD, "name": "Arithmetic", "types": {"Value": "V", "Root": "R", "Scalar": "S"},
                               "methods": ["add", "sub", "mul_root", "mul_scalar", "guard"]},
                     "handler": {"file": UD, "name": "DWTHandler"},
                     "table": [
        {"file": UD, "fn": "transform_to_rev", "generic": True, "model": "runFwdA (Model/NTT.lean)"},
        {"file": UD, "fn": "transform_from_rev", "generic": True, "model": "runInvA, then map mulScalar"},
        {"file": UT, "instance": {"file": UT, "type": "ModArithLazy", "ns": "GenN"}},
        {"file": UT, "view": {"file": UT, "name": "NTTTables", "fields": NTT_VIEW}},
        {"file": UT, "fn": "ntt_negacyclic_harvey_lazy", "impl": "NTTTables", "model": "nttLazy"},
        {"file": UT, "fn": "ntt_negacyclic_harvey", "impl": "NTTTables", "model": "ntt"},
        {"file": UT, "fn": "inverse_ntt_negacyclic_harvey_lazy", "impl": "NTTTables", "model": "inttLazy"},
        {"file": UT, "fn": "inverse_ntt_negacyclic_harvey", "impl": "NTTTables", "model": "intt"},
    ]}),
]
# Gen/AppPrelude.lean, AppFns.lean, AppBatchFns.lean, AppLweFns.lean (phase 4h, app mode - tools/rs2lean_app.py, tables in tools/rs2lean_app_table.py)
import rs2lean_app_table
FILES += rs2lean_app_table.FILES


# ------------------------------------------------------------------------------------------------------------------------------------
# Phase 4g (worker L): evaluator-level DECISION skeletons (C05 level walk, C03 scale bookkeeping, C06 multiply_plain dispatch).
# All in skeleton mode.  New skeleton-table keys: `match_stmt` (a `match` in statement / tail position becomes an `if` chain on `==`;
# the scrutinee must be mapped to a pseudo-variable), `optional` (entries that need not occur: TRUSTED readings of sibling calls a
# variant of the function may use instead), effects keyed `for v in lo..hi` (a `for` loop declared to be a pure data effect: its body is
# not examined).  Table option `panic_escape`: an `if` with a `panic!` / loop in a branch is lowered with the continuation duplicated.
# TRUSTED readings (C05): levels are chain indices; `last_parms_id() == x.parms_id()` <=> chain index 0; `first_context_data()...scheme()` is
# the context's scheme; one `mod_switch_scale_to_next_internal` / `mod_switch_drop_to_next_internal` / `rescale_to_next_inplace` moves one
# index down (or panics - the internal routines are tied separately); the result is the TRACE of (routine code, chain index reached).
FIRST_SCHEME = "self.context.first_context_data().unwrap().parms().scheme()"
OP_SCALE, OP_DROP = 1, 2         # trace codes: which internal routine runs
SK_SWITCH_NEXT = {
    "sig": "fn mod_switch_to_next(valid: bool, cur: usize, scheme: SchemeType) -> Vec<usize>",
    "prologue": "let mut trace = vec![];", "epilogue": "trace", "match_stmt": True,
    "exprs": {"self.context.last_parms_id() == encrypted.parms_id()": "cur == 0", FIRST_SCHEME: "scheme"},
    "effects": {"self.check_ciphertext(encrypted)": "assert!(valid);",
                "self.mod_switch_scale_to_next_internal(encrypted, destination)": "trace.push(%d); trace.push(cur - 1);" % OP_SCALE,
                "self.mod_switch_drop_to_next_internal(encrypted, destination)": "trace.push(%d); trace.push(cur - 1);" % OP_DROP}}
SK_RESCALE_NEXT = dict(SK_SWITCH_NEXT, sig="fn rescale_to_next(valid: bool, cur: usize, scheme: SchemeType) -> Vec<usize>",
    effects={k: v for k, v in SK_SWITCH_NEXT["effects"].items() if "drop" not in k})
SK_RESCALE_TO = {
    "sig": "fn rescale_to(valid: bool, cur0: usize, tgt: usize, scheme: SchemeType) -> Vec<usize>",
    "prologue": "let mut cur = cur0; let mut trace = vec![];", "epilogue": "trace", "match_stmt": True,
    "handles": ["self.get_context_data(encrypted.parms_id())", "self.get_context_data(parms_id)", "destination.clone()"],
    "exprs": {"self.get_context_data(encrypted.parms_id()).chain_index()": "cur", "self.get_context_data(parms_id).chain_index()": "tgt",
              FIRST_SCHEME: "scheme", "destination.parms_id() != parms_id": "cur != tgt"},
    "effects": {"self.check_ciphertext(encrypted)": "assert!(valid);",
                "*destination = encrypted.clone()": "",
                "self.mod_switch_scale_to_next_internal(&destination.clone(), destination)": "cur = cur - 1; trace.push(cur);",
                # reading of the public one-step form (checks the ciphertext, refuses the last level and every scheme but CKKS, then one step down)
                "self.rescale_to_next_inplace(destination)": "assert!(valid); assert!(cur != 0); assert!(scheme == SchemeType::CKKS); cur = cur - 1; trace.push(cur);"},
    "optional": ["self.rescale_to_next_inplace(destination)", "destination.clone()", "self.mod_switch_scale_to_next_internal(&destination.clone(), destination)", FIRST_SCHEME]}
# `mod_switch_drop_to_next_internal` (CKKS `mod_switch_to_next`): the refusals; the scale must fit the level the ciphertext ARRIVES at.
# `ok_cur` / `ok_next` = `is_scale_within_bounds(encrypted.scale(), <current / next level's context data>)` (that function is tied in
# Gen/ValidFns.lean; the theorem instantiates the two Booleans with it at the two levels' bit counts).
CTXE = "self.get_context_data(encrypted.parms_id())"
SK_DROP_NEXT = {
    "sig": "fn mod_switch_drop_to_next_internal(scheme: SchemeType, ntt: bool, has_next: bool, ok_cur: bool, ok_next: bool) -> usize",
    "epilogue": "1",
    "handles": [CTXE, CTXE + ".parms()", CTXE + ".next_context_data()", CTXE + ".next_context_data().unwrap()", CTXE + ".next_context_data().unwrap().parms()",
                "encrypted.size()", CTXE + ".next_context_data().unwrap().parms().poly_modulus_degree()", CTXE + ".next_context_data().unwrap().parms().coeff_modulus().len()"],
    "exprs": {CTXE + ".parms().scheme()": "scheme", "encrypted.is_ntt_form()": "ntt", CTXE + ".next_context_data().is_none()": "!has_next",
              "Self::is_scale_within_bounds(encrypted.scale(), &%s.next_context_data().unwrap())" % CTXE: "ok_next",
              "Self::is_scale_within_bounds(encrypted.scale(), &%s)" % CTXE: "ok_cur"},
    "effects": {"destination.resize(&self.context, %s.next_context_data().unwrap().parms_id(), encrypted.size())" % CTXE: "",
                "for $i in 0..encrypted.size()": "",
                "destination.set_is_ntt_form(encrypted.is_ntt_form())": "", "destination.set_scale(encrypted.scale())": "",
                "destination.set_correction_factor(encrypted.correction_factor())": ""},
    "optional": ["Self::is_scale_within_bounds(encrypted.scale(), &%s)" % CTXE,
                 "Self::is_scale_within_bounds(encrypted.scale(), &%s.next_context_data().unwrap())" % CTXE]}
TABLE_EVAL += [
    {"file": EV, "fn": "mod_switch_to_next", "impl": "Evaluator", "model": "modSwitchToNextPlan (Model/Evaluator.lean)", "skeleton": SK_SWITCH_NEXT, "panic_escape": True},
    {"file": EV, "fn": "rescale_to_next", "impl": "Evaluator", "model": "rescaleToNextPlan", "skeleton": SK_RESCALE_NEXT, "panic_escape": True},
    {"file": EV, "fn": "rescale_to", "impl": "Evaluator", "model": "rescaleToPlan = switchSteps for CKKS", "skeleton": SK_RESCALE_TO, "panic_escape": True,
     "loops": [{"fuel": WALK_FUEL, "exhausted": "error"}]},
    {"file": EV, "fn": "mod_switch_drop_to_next_internal", "impl": "Evaluator", "model": "modSwitchDropDecision", "skeleton": SK_DROP_NEXT, "panic_escape": True},
]

# --- C05 (phase 4l): the to-TARGET walk of NTT-form PLAINTEXTS and the plaintext one-step routine (the ciphertext walk is in phase 3).
# TRUSTED readings: as above (levels are chain indices, index 0 = last level); `mod_switch_to_next_inplace(x)` / `mod_switch_to_next_plain_inplace(x)`
# = object checked, the last level refused, one index down (their internals are tied separately: `mod_switch_to_next`, and
# `mod_switch_drop_to_next_plain_internal` below); the walk's result is the list of chain indices visited.
# `mod_switch_drop_to_next_plain_internal`: result = the number of words the plaintext is resized to (degree x prime count of the NEXT level).
CTXP = "self.get_context_data(plain.parms_id())"
NEXTP = CTXP + ".next_context_data()"
SK_PLAIN_DROP_NEXT = {
    "sig": "fn mod_switch_drop_to_next_plain_internal(ntt: bool, has_next: bool, ok_next: bool, n_next: usize, k_next: usize) -> usize",
    "prologue": "let mut words: usize = 0;", "epilogue": "words",
    "handles": [CTXP, NEXTP, NEXTP + ".unwrap()", NEXTP + ".unwrap().parms()"],
    "exprs": {"plain.is_ntt_form()": "ntt", NEXTP + ".is_none()": "!has_next",
              "Self::is_scale_within_bounds(plain.scale(), &%s.unwrap())" % NEXTP: "ok_next",
              NEXTP + ".unwrap().parms().poly_modulus_degree()": "n_next", NEXTP + ".unwrap().parms().coeff_modulus().len()": "k_next"},
    "effects": {"plain.set_parms_id(PARMS_ID_ZERO)": "", "plain.resize($dest)": "words = $dest;",
                "plain.set_parms_id(*%s.unwrap().parms_id())" % NEXTP: ""}}
SK_PLAIN_TO = {
    "sig": "fn mod_switch_plain_to_inplace(valid: bool, ntt: bool, cur0: usize, tgt: usize) -> Vec<usize>",
    "prologue": "let mut cur = cur0; let mut trace = vec![];", "epilogue": "trace",
    "handles": [CTXP, "self.get_context_data(parms_id)"],
    "exprs": {"plain.is_ntt_form()": "ntt", CTXP + ".chain_index()": "cur", "self.get_context_data(parms_id).chain_index()": "tgt",
              "plain.parms_id() != parms_id": "cur != tgt"},
    "effects": {"self.mod_switch_to_next_plain_inplace(plain)": "assert!(valid); assert!(cur != 0); cur = cur - 1; trace.push(cur);"}}
TABLE_EVAL += [
    {"file": EV, "fn": "mod_switch_drop_to_next_plain_internal", "impl": "Evaluator", "model": "plainDropNextWords", "skeleton": SK_PLAIN_DROP_NEXT, "panic_escape": True},
    {"file": EV, "fn": "mod_switch_plain_to_inplace", "impl": "Evaluator", "model": "plainSwitchToPlan", "skeleton": SK_PLAIN_TO, "panic_escape": True,
     "loops": [{"fuel": WALK_FUEL, "exhausted": "error"}]},
]

# --- C03 / C06 (phase 4g): CKKS scale bookkeeping and `multiply_plain`.  Scales are floats (opaque): the skeletons track WHICH scale the
# ciphertext's scale slot holds (`sc`: 0 = the operand's own scale, +1 for every `set_scale(own * other)`), and take as Boolean inputs
# `is_scale_within_bounds(<own scale>, <the operand's level>)` (`ok_own`) and `is_scale_within_bounds(<product>, <the operand's level>)`
# (`ok_prod`); a check against the FIRST level's context data is a different input (`ok_prod_first`, optional reading).
def _scale_ok(ct, ctx): return "Self::is_scale_within_bounds(%s.scale(), &%s)" % (ct, ctx)
SC_OK = "(if sc == 0 { ok_own } else { ok_prod })"
SC_OK_FIRST = "(if sc == 0 { ok_own_first } else { ok_prod_first })"
FIRSTCD = "self.context.first_context_data().unwrap()"
RESIZE_READING = "assert!(!(($dest < HE_CIPHERTEXT_SIZE_MIN && $dest != 0) || $dest > HE_CIPHERTEXT_SIZE_MAX)); size1 = $dest;"
CTXM = "self.get_context_data(encrypted1.parms_id())"
SK_CKKS_MUL = {
    "sig": "fn ckks_multiply(ntt1: bool, ntt2: bool, size1_in: usize, size2: usize, n: usize, k: usize, ok_own: bool, ok_prod: bool, "
           "ok_own_first: bool, ok_prod_first: bool) -> (usize, usize)",
    "prologue": "let mut size1 = size1_in; let mut sc: usize = 0;", "epilogue": "(size1, sc)",
    "handles": [CTXM, CTXM + ".parms()", CTXM + ".parms().coeff_modulus()"],
    "exprs": {"encrypted1.is_ntt_form()": "ntt1", "encrypted2.is_ntt_form()": "ntt2", CTXM + ".parms().poly_modulus_degree()": "n",
              CTXM + ".parms().coeff_modulus().len()": "k", "encrypted1.size()": "size1", "encrypted2.size()": "size2",
              _scale_ok("encrypted1", CTXM): SC_OK, _scale_ok("encrypted1", FIRSTCD): SC_OK_FIRST},
    "effects": {"encrypted1.resize(&self.context, %s.parms_id(), $dest)" % CTXM: RESIZE_READING,
                "for $i in 0..$n": "", "encrypted1.data_mut().copy_from_slice(&$temp)": "",
                "encrypted1.set_scale(encrypted1.scale() * encrypted2.scale())": "sc = sc + 1;"},
    "optional": [_scale_ok("encrypted1", CTXM), _scale_ok("encrypted1", FIRSTCD)]}
CTXS = "self.get_context_data(encrypted.parms_id())"
SK_CKKS_SQ = {
    "sig": "fn ckks_square(ntt: bool, size1_in: usize, n: usize, k: usize, ok_own: bool, ok_prod: bool, ok_own_first: bool, ok_prod_first: bool) -> (usize, usize)",
    "prologue": "let mut size1 = size1_in; let mut sc: usize = 0;", "epilogue": "(size1, sc)",
    "handles": [CTXS, CTXS + ".parms()", CTXS + ".parms().coeff_modulus()"],
    "exprs": {"encrypted.is_ntt_form()": "ntt", CTXS + ".parms().poly_modulus_degree()": "n", CTXS + ".parms().coeff_modulus().len()": "k",
              "encrypted.size()": "size1", _scale_ok("encrypted", CTXS): SC_OK, _scale_ok("encrypted", FIRSTCD): SC_OK_FIRST},
    "effects": {"self.ckks_multiply(encrypted, &encrypted.clone())":
                    "let r = ckks_multiply_sk(ntt, ntt, size1, size1, n, k, ok_own, ok_prod, ok_own_first, ok_prod_first); size1 = r.0; sc = r.1;",
                "encrypted.resize(&self.context, %s.parms_id(), $dest)" % CTXS: RESIZE_READING,
                "unsafe": "", "encrypted.set_scale(encrypted.scale() * encrypted.scale())": "sc = sc + 1;"},
    "optional": [_scale_ok("encrypted", CTXS), _scale_ok("encrypted", FIRSTCD)]}
# `multiply_plain_ntt` on the FLAT buffers (data and bookkeeping): `poly_mut(i)` = `&mut data[i*d..(i+1)*d]`, d = degree * moduli.len() (src/text.rs)
CTXU = "self.context.get_context_data(encrypted.parms_id()).unwrap()"
SK_MUL_PLAIN_NTT = {
    "sig": "fn multiply_plain_ntt(d: &mut Vec<u64>, size: usize, pd: &[u64], plain_ntt: bool, same_parms: bool, moduli: &[Modulus], n: usize, "
           "scheme: SchemeType, ok_own: bool, ok_prod: bool) -> usize",
    "prologue": "let mut sc: usize = 0;", "epilogue": "sc",
    "handles": [CTXU, CTXU + ".parms()"],
    "exprs": {"plain.is_ntt_form()": "plain_ntt", "encrypted.parms_id() != plain.parms_id()": "!same_parms",
              CTXU + ".parms().coeff_modulus()": "moduli", CTXU + ".parms().poly_modulus_degree()": "n", "encrypted.size()": "size",
              "encrypted.poly_mut($i)": "&mut d[$i * %s..($i + 1) * %s]" % (PLEN, PLEN), "plain.data()": "pd",
              CTXU + ".parms().scheme()": "scheme", _scale_ok("encrypted", CTXU): SC_OK},
    "effects": {"encrypted.set_scale(encrypted.scale() * plain.scale())": "sc = sc + 1;"}}
# `multiply_plain_inplace`: the PLAN (which routines run, in which order) for the four representation combinations
P_MUL_NTT, P_MUL_NORMAL, P_PLAIN_TO_NTT, P_CT_TO_NTT, P_CT_FROM_NTT, P_RAW_NTT, P_RAW_NTT_LAZY, P_RAW_INTT, P_RAW_INTT_LAZY = 1, 2, 3, 4, 5, 6, 7, 8, 9
def _raw(fn): return "polymod::%s(encrypted.data_mut(), encrypted.size(), %s.parms().poly_modulus_degree(), %s.small_ntt_tables())" % (fn, CTXS, CTXS)
SK_MUL_PLAIN = {
    "sig": "fn multiply_plain_inplace(valid_ct: bool, valid_pt: bool, ct_ntt: bool, pt_ntt: bool) -> Vec<usize>",
    "prologue": "let mut plan = vec![];", "epilogue": "plan",
    "handles": ["plain.clone()", CTXS, CTXS + ".parms().poly_modulus_degree()", CTXS + ".small_ntt_tables()", "encrypted.size()"],
    "exprs": {"encrypted.is_ntt_form()": "ct_ntt", "plain.is_ntt_form()": "pt_ntt"},
    "effects": {"self.check_ciphertext(encrypted)": "assert!(valid_ct);", "self.check_plaintext(plain)": "assert!(valid_pt);",
                "self.multiply_plain_ntt(encrypted, plain)": "plan.push(%d);" % P_MUL_NTT,
                "self.multiply_plain_normal(encrypted, plain)": "plan.push(%d);" % P_MUL_NORMAL,
                "self.transform_plain_to_ntt_inplace(&plain.clone(), encrypted.parms_id())": "plan.push(%d);" % P_PLAIN_TO_NTT,
                "self.multiply_plain_ntt(encrypted, &plain.clone())": "plan.push(%d);" % P_MUL_NTT,
                "self.transform_to_ntt_inplace(encrypted)": "plan.push(%d);" % P_CT_TO_NTT,
                "self.transform_from_ntt_inplace(encrypted)": "plan.push(%d);" % P_CT_FROM_NTT,
                # readings of the raw kernels a variant may call instead of the checked transforms (no validity check, lazy = result only < 2q)
                _raw("ntt_ps"): "plan.push(%d);" % P_RAW_NTT, _raw("ntt_lazy_ps"): "plan.push(%d);" % P_RAW_NTT_LAZY,
                _raw("intt_ps"): "plan.push(%d);" % P_RAW_INTT, _raw("intt_lazy_ps"): "plan.push(%d);" % P_RAW_INTT_LAZY},
    "optional": [CTXS, CTXS + ".parms().poly_modulus_degree()", CTXS + ".small_ntt_tables()", "encrypted.size()",
                 _raw("ntt_ps"), _raw("ntt_lazy_ps"), _raw("intt_ps"), _raw("intt_lazy_ps"),
                 "self.transform_to_ntt_inplace(encrypted)", "self.transform_from_ntt_inplace(encrypted)"]}
TABLE_EVALCT += [
    {"file": EV, "fn": "ckks_multiply", "impl": "Evaluator", "lean": "ckks_multiply_sk", "register_as": "ckks_multiply_sk", "model": "ckksProductBookkeeping",
     "skeleton": SK_CKKS_MUL, "consts": CSZ, "panic_escape": True},
    {"file": EV, "fn": "ckks_square", "impl": "Evaluator", "lean": "ckks_square_sk", "model": "ckksProductBookkeeping", "skeleton": SK_CKKS_SQ, "consts": CSZ,
     "panic_escape": True},
    {"file": EV, "fn": "multiply_plain_ntt", "impl": "Evaluator", "lean": "ct_multiply_plain_ntt", "model": "ctMultiplyPlainNtt + scale rule", "skeleton": SK_MUL_PLAIN_NTT,
     "panic_escape": True},
    {"file": EV, "fn": "multiply_plain_inplace", "impl": "Evaluator", "lean": "ct_multiply_plain_plan", "model": "multiplyPlainPlan", "skeleton": SK_MUL_PLAIN,
     "panic_escape": True},
]
# `multiply_plain_normal` (coefficient-form operands): the ROUTE (monomial shortcut vs generic NTT route, fast plain lift or not) and the CKKS
# scale rule at both exits, as a plan.  The data steps are codes (TRUSTED reading: each listed call / loop only touches the data):
# 10 add_uint_u64 (lift one coefficient), 11 RNS decompose, 12 negacyclic_multiply_mononomials_inplace_ps (per-modulus monomial),
# 13 negacyclic_multiply_mononomial_inplace_ps, 20 lift loop (multi-precision), 21 decompose_array, 22 lift loop (fast: per modulus),
# 23 ntt_p(temp), 24 ntt_lazy_ps(ciphertext), 25 dyadic products, 26 intt_ps (FULL inverse transform); the last entry is 100 + sc.
MEXP = "plain.significant_coeff_count() - 1"
SK_MUL_PLAIN_NORMAL = {
    "sig": "fn multiply_plain_normal(nonzero: usize, mono_upper: bool, fast_lift: bool, n: usize, k: usize, scheme: SchemeType, ok_own: bool, ok_prod: bool) -> Vec<usize>",
    "prologue": "let mut plan = vec![]; let mut sc: usize = 0;", "epilogue": "plan.push(100 + sc); plan",
    "handles": [CTXS, CTXS + ".parms()", CTXS + ".parms().coeff_modulus()", CTXS + ".plain_upper_half_threshold()", CTXS + ".plain_upper_half_increment()",
                CTXS + ".small_ntt_tables()", "encrypted.size()", "plain.coeff_count()", MEXP],
    "exprs": {CTXS + ".parms().coeff_modulus().len()": "k", CTXS + ".parms().poly_modulus_degree()": "n", "plain.nonzero_coeff_count()": "nonzero",
              "plain.data_at(%s) >= %s.plain_upper_half_threshold()" % (MEXP, CTXS): "mono_upper",
              CTXS + ".qualifiers().using_fast_plain_lift": "fast_lift", CTXS + ".parms().scheme()": "scheme", _scale_ok("encrypted", CTXS): SC_OK},
    "effects": {"util::add_uint_u64(%s.plain_upper_half_increment(), plain.data_at(%s), &$t)" % (CTXS, MEXP): "plan.push(10);",
                CTXS + ".rns_tool().base_q().decompose(&$t)": "plan.push(11);",
                "polymod::negacyclic_multiply_mononomials_inplace_ps(encrypted.data_mut(), &$t, %s, encrypted.size(), $n, %s.parms().coeff_modulus())" % (MEXP, CTXS): "plan.push(12);",
                "polymod::negacyclic_multiply_mononomial_inplace_ps(encrypted.data_mut(), plain.data_at(%s), %s, encrypted.size(), $n, %s.parms().coeff_modulus())" % (MEXP, MEXP, CTXS): "plan.push(13);",
                "encrypted.set_scale(encrypted.scale() * plain.scale())": "sc = sc + 1;",
                "for $i in 0..plain.coeff_count()": "plan.push(20);",
                CTXS + ".rns_tool().base_q().decompose_array(&$t)": "plan.push(21);",
                "for $i in 0..$k": "plan.push(22);",
                "polymod::ntt_p(&$t, $n, %s.small_ntt_tables())" % CTXS: "plan.push(23);",
                "polymod::ntt_lazy_ps(encrypted.data_mut(), encrypted.size(), $n, %s.small_ntt_tables())" % CTXS: "plan.push(24);",
                "for $i in 0..encrypted.size()": "plan.push(25);",
                "polymod::intt_ps(encrypted.data_mut(), encrypted.size(), $n, %s.small_ntt_tables())" % CTXS: "plan.push(26);"}}
TABLE_EVALCT += [
    {"file": EV, "fn": "multiply_plain_normal", "impl": "Evaluator", "lean": "ct_multiply_plain_normal_plan", "model": "multiplyPlainNormalPlan", "skeleton": SK_MUL_PLAIN_NORMAL,
     "panic_escape": True},
]
for _n, _sp in FILES:
    if _n == "EvalFns.lean" and "Heathcliff.Model.Scheme" not in _sp["imports"]: _sp["imports"] = _sp["imports"] + ["Heathcliff.Model.Scheme"]
# Gen/SerFns.lean (phase 4i, stream mode - tools/rs2lean_ser.py): the serializers of src/serialize.rs as writer / reader / size programs
FILES += [("SerFns.lean", {"ns": "GenS", "ser_mode": True})]
# ------------------------------------------------------------------------------------------------------------------------------------
# Phase 4j (worker R): the seeded generator and the samplers (tools/rs2lean_rng.py, "rng mode"; notes/work7-R.md)
RG = "src/util/random_generator.rs"; RW = "src/util/rlwe.rs"
FILES += [
    ("RngFns.lean", {"ns": "GenRng", "rng_mode": True, "imports": ["Heathcliff.Model.Word", "Heathcliff.Gen.Rng"], "table": [
        {"file": RG, "struct": "BlakeRNG"},
        {"file": RG, "fn": "from_seed", "impl": "SeedableRng for BlakeRNG", "consts": {"BUFFER_SIZE": RG}, "model": "Rng.fromSeed"},
        {"file": RG, "fn": "refill_buffer", "impl": "BlakeRNG", "model": "Rng.refill"},
        {"file": RG, "fn": "next_u32", "impl": "RngCore for BlakeRNG", "consts": {"BUFFER_SIZE": RG}, "model": "Rng.nextU32"},
        {"file": RG, "fn": "next_u64", "impl": "RngCore for BlakeRNG", "consts": {"BUFFER_SIZE": RG}, "model": "Rng.nextU64"},
        {"file": RG, "fn": "fill_bytes", "impl": "RngCore for BlakeRNG", "consts": {"BUFFER_SIZE": RG}, "fuel": "{dest}.length + 1", "model": "Rng.fillBytes"},
        {"file": UB, "fn": "hamming_weight", "model": "Rng.hammingWeight"},
        {"file": RW, "fn": "centered_binomial", "mod": "sample", "model": "Rng.centeredBinomial"},
        {"file": RW, "fn": "ternary", "mod": "sample", "model": "Rng.ternary"},
        {"file": RW, "fn": "uniform", "mod": "sample", "model": "Rng.uniformPoly"},
        {"file": "src/text.rs", "fn": "contains_seed", "impl": "ExpandSeed for Ciphertext", "skeleton": "contains_seed",
         "consts": {"HE_CIPHERTEXT_SIZE_MIN": UB, "CIPHERTEXT_SEED_FLAG": ("src/text.rs", "u64")}, "model": "size = 2 and c1[0] = flag"},
        {"file": "src/text.rs", "fn": "expand_seed", "impl": "ExpandSeed for Ciphertext", "skeleton": "expand_seed", "model": "Encrypt.expandSeed (skeleton over the flat buffer)"},
    ]}),
]

# Phase 4k (worker Y): the integer side of the CKKS encoder (tools/rs2lean_ckks.py, "encoder mode"; notes/work7-Y.md)
import rs2lean_ckks as _ckks
FILES += [("CkksFns.lean", {"ns": "GenK", "ckks_mode": True, "imports": ["Heathcliff.Model.CkksEncoder", "Heathcliff.Gen.WordFns", "Heathcliff.Gen.PolyFns"],
                            "table": _ckks.TABLE})]


# (task S) data skeletons of `bgv_square` / `ckks_square` (tables in tools/rs2lean_sq.py)
from rs2lean_sq import square_tables
TABLE_EVALCT += square_tables(EV, CSZ, PLEN, SC_OK, SC_OK_FIRST, _scale_ok)

import rs2lean_ctx as _rs2lean_ctx          # round 7 (worker T): Gen/ContextFns.lean (tables in tools/rs2lean_ctx.py)
FILES += [("ContextFns.lean", _rs2lean_ctx.SPEC)]
# Phase 4m (worker X): C17, the phase structure of the lock-protected caches (tools/rs2lean_conc.py, "conc mode"; notes/work7-X.md)
import rs2lean_conc
FILES += rs2lean_conc.files(sys.modules[__name__])


import rs2lean_gal as _rs2lean_gal          # round 7 (worker V): Gen/GaloisPlanFns.lean (tables in tools/rs2lean_gal.py)
FILES += [("GaloisPlanFns.lean", _rs2lean_gal.SPEC)]

import rs2lean_mp as _rs2lean_mp            # round 7 (worker W): Gen/MpFns.lean (tools/rs2lean_mp.py)
FILES += [("MpFns.lean", _rs2lean_mp.SPEC)]

import rs2lean_dec as _rs2lean_dec          # round 7 (worker A, phase 4m): Gen/DecFns.lean (tables in tools/rs2lean_dec.py)
FILES += [("DecFns.lean", _rs2lean_dec.SPEC)]

if __name__ == "__main__":
    res = gen_all(sys.argv[1])
    print(res[sys.argv[2] if len(sys.argv) > 2 else "WordFns.lean"])
