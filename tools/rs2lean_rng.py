"""Translator phase 4j ("rng mode"): the seeded generator `BlakeRNG` (src/util/random_generator.rs: `refill_buffer`, `next_u32`, `next_u64`,
`fill_bytes`), `util::hamming_weight` (src/util/basic.rs) and the samplers of `mod sample` (src/util/rlwe.rs: `ternary`,
`centered_binomial`, `uniform`).  Output: Gen/RngFns.lean (`HC.GenRng`).

These functions work on BYTE buffers, a `&mut self` struct with array fields, a raw-pointer read, external crates (blake3, rand) and are
generic over `T: Rng` - none of which the main lowering of rs2lean.py (u64 words, `List Nat` slices of words) expresses.  They are lowered by
this small module, which uses the tokenizer / `Parser` of rs2lean.py (passed in as T).  Everything is lowered to `R = Except Err` code with
value semantics; every loop is an auxiliary definition that RETURNS the variables its body assigns (`for`: recursion on the exact trip
count; `while`: recursion on fuel given by the table, exhaustion = `.error .other`).  Whatever is not listed in notes/work7-R.md
("accepted subset of rng mode") raises `Unsupported` (extract.py exits non-zero, the file becomes a stub that does not elaborate).

TRUSTED readings (all in this file, each used exactly where its source text occurs; an entry that never matches is refused):
  * XOF_READING: the four statements of `refill_buffer` that key BLAKE3 with `seed ++ counter.to_le_bytes()` and fill the buffer =
    `self.buffer = xof(self.seed, self.counter)` with `xof` an INPUT of the generated functions (as the model's `Xof`);
  * PTR_READ: `*(self.buffer.as_ptr().add(p) as *const uN)` = little-endian read of N/8 bytes at `p` (little-endian host); reading past
    the end of the buffer is undefined behaviour and is rendered as `.error .oob` (the equalities show it is never reached);
  * `#[cfg(feature = "verif")] crate::verif::…;` statements (add-only recording hooks) are dropped;
  * `rng: &mut T` with `T: Rng` = a state of an abstract type `σ` with operations `RngOps σ` (fill_bytes, sample of a `Uniform<i32>` /
    `Uniform<u64>`); `Uniform::new_inclusive(lo, hi)` = the pair `(lo, hi)`, panicking (`.error .refused`) when `lo > hi` (rand 0.8.5);
    an integer literal pair gives `Uniform<i32>` (Rust's integer fallback), a `u64` operand gives `Uniform<u64>`;
  * FLOAT_TESTS: the two `are_close_f64` tests on compile-time constants, read as tests on the constants of Gen/Rng.lean;
  * `parms.coeff_modulus()` = the list `qs` of modulus VALUES (`coeff_modulus[j].value()` = `qs[j]`), `parms.poly_modulus_degree()` = `n`;
  * `contains_readings` / `expand_readings`: skeletons of `Ciphertext::contains_seed` / `expand_seed` (src/text.rs) over the flat data buffer
    (`poly(i)` / `poly_mut(i)` / `poly_component_mut(1, 0)` as sub-slices, the six raw-pointer statements that fetch the stored seed = the
    little-endian bytes of the 8 words after the flag word, `.error .oob` when they are not inside the buffer).
Also translated: `SeedableRng::from_seed` (struct literal with `[0; BUFFER_SIZE]`)."""
import re, os, hashlib

RUF = "src/util/random_generator.rs"

PRELUDE = """/-- the BLAKE3 block function: `xof seed counter` = what `refill_buffer` writes into the buffer (INPUT of the generated functions) -/
abbrev XofL := List Nat → Nat → List Nat
/-- bounds-checked element read / write of a byte or word buffer -/
def idx (l : List Nat) (i : Nat) : R Nat := match l[i]? with | some x => .ok x | none => .error .oob
def setIdx (l : List Nat) (i v : Nat) : R (List Nat) := if i < l.length then .ok (l.set i v) else .error .oob
/-- `&x[a..b]`: panics unless `a ≤ b ≤ len` -/
def slice (l : List Nat) (a b : Nat) : R (List Nat) := if a ≤ b ∧ b ≤ l.length then .ok ((l.drop a).take (b - a)) else .error .oob
/-- `dst[lo..hi].copy_from_slice(src)`: target range checked first, then the lengths must agree -/
def copySlice (l : List Nat) (lo hi : Nat) (src : List Nat) : R (List Nat) :=
  if lo ≤ hi ∧ hi ≤ l.length then (if src.length = hi - lo then .ok (l.take lo ++ src ++ l.drop hi) else .error .other) else .error .oob
/-- TRUSTED reading of `*(buf.as_ptr().add(p) as *const uN)` (N = 8·w, little-endian host); out of bounds = undefined behaviour -/
def readLE (b : List Nat) (p w : Nat) : R Nat :=
  if p + w ≤ b.length then .ok ((List.range w).foldr (fun k acc => b.getD (p + k) 0 + 256 * acc) 0) else .error .oob
/-- `i32` arithmetic: `+ - *` are overflow-checked; `&` is two's complement on 32 bits; `>>` is arithmetic -/
def ckI32 (v : Int) : R Int := if -(2^31 : Int) ≤ v ∧ v < 2^31 then pure v else .error .overflow
def asI32 (n : Nat) : Int := if n % 4294967296 < 2147483648 then Int.ofNat (n % 4294967296) else Int.ofNat (n % 4294967296) - 4294967296
def andI32 (a b : Int) : Int := asI32 ((a % 4294967296).toNat &&& (b % 4294967296).toNat)
def shrI32 (a : Int) (k : Nat) : Int := a / (2^k : Int)
def ckMod (a b : Nat) : R Nat := if b = 0 then .error .other else .ok (a % b)
/-- TRUSTED reading of `rand::distributions::Uniform::new_inclusive(lo, hi)`: the pair, `assert!(low <= high)` -/
def uniformNewI32 (lo hi : Int) : R (Int × Int) := if lo ≤ hi then .ok (lo, hi) else .error .refused
def uniformNewU64 (lo hi : Nat) : R (Nat × Nat) := if lo ≤ hi then .ok (lo, hi) else .error .refused
/-- `l.take a ++ s ++ l.drop (a + s.length)`: write-back of a mutable sub-slice -/
def splice (l : List Nat) (a : Nat) (s : List Nat) : List Nat := l.take a ++ s ++ l.drop (a + s.length)
/-- TRUSTED reading of `from_raw_parts(words.as_ptr().add(off) as *const u8, 8·cnt)` (little-endian host): the bytes of `cnt` consecutive
    words; reading past the end of the buffer is undefined behaviour, rendered as `.error .oob` -/
def leBytes (l : List Nat) (off cnt : Nat) : R (List Nat) :=
  if off + cnt ≤ l.length then .ok (((l.drop off).take cnt).flatMap fun w => (List.range 8).map fun b => w / 256 ^ b % 256) else .error .oob
/-- `T: Rng`: the operations the samplers use on the generator state `σ` -/
structure RngOps (σ : Type) where
  fill_bytes : σ → List Nat → R (σ × List Nat)
  sample_i32 : Int → Int → σ → R (σ × Int)
  sample_u64 : Nat → Nat → σ → R (σ × Nat)
"""

XOF_READING = [("let mut hash = blake3 :: Hasher :: new ( ) ;", ""),
               ("hash . update ( self . seed . as_ref ( ) ) ;", ""),
               ("hash . update ( & self . counter . to_le_bytes ( ) ) ;", ""),
               ("hash . finalize_xof ( ) . fill ( & mut self . buffer ) ;", "self . buffer = __xof ( self . seed , self . counter ) ;")]
PTR_READ = re.compile(r"\* \( self \. buffer \. as_ptr \( \) \. add \( self \. buffer_current \) as \* const u(32|64) \)")
HOOK = re.compile(r'# \[ cfg \( feature = "verif" \) \] crate :: verif :: [^;]* ;')
FLOAT_TESTS = {"util :: are_close_f64 ( 0.0 , NOISE_MAX_DEVIATION )": "Gen.NOISE_STD_DEV_X10 * Gen.NOISE_WIDTH_MULTIPLIER_X10 = 0",
               "util :: are_close_f64 ( 3.2 , NOISE_STANDARD_DEVIATION )": "Gen.NOISE_STD_DEV_X10 = 32"}
def contains_readings():
    """skeleton of `Ciphertext::contains_seed` (TRUSTED): `&self` = the flat buffer + `size`, `cn`, `ck`; `self.poly(1)` = `&data[1·d .. (1+1)·d]`"""
    D = "( cn * ck )"
    return [("fn contains_seed ( & self ) -> bool {", "fn contains_seed ( data : & [ u64 ] , size : usize , cn : usize , ck : usize ) -> bool {"),
            ("self . size", "size"),
            ("self . poly ( 1 )", "data [ 1 * %s .. ( 1 + 1 ) * %s ]" % (D, D))]


def expand_readings(seed_words):
    """skeleton of `Ciphertext::expand_seed` over the flat data buffer (TRUSTED; each key must occur exactly once):
    by-value `self` that is returned = the buffer as `&mut`; `contains_seed()` = the translated skeleton of it; `poly_mut(i)` = `&mut data[i·d .. (i+1)·d]`,
    d = degree · moduli; `poly_component_mut(1, 0)` = `&mut data[n·(1·k+0) .. +n]` (bounds-checked), and the six pointer statements = the
    64 bytes of the 8 words that follow its first word"""
    D = "( cn * ck )"; OFF = "cn * ( 1 * ck + 0 )"
    return [
        ("fn expand_seed ( mut self , context : & HeContext ) -> Self {",
         "fn expand_seed ( data : & mut [ u64 ] , size : usize , cn : usize , ck : usize , parms : & EncryptionParameters ) {"),
        ("self . contains_seed ( )", "contains_seed ( data , size , cn , ck )"),
        ("self . size ( )", "size"),
        # the six pointer statements; the local names are wildcards (renaming them is harmless), everything else is pinned
        ("re", r"let (\w+) = std :: mem :: size_of :: < PRNGSeed > \( \) ;\n"
               r"let (\w+) = self \. poly_component_mut \( 1 , 0 \) \. as_mut_ptr \( \) \. offset \( 1 \) as \* mut u8 ;\n"
               r"let (\w+) = std :: slice :: from_raw_parts \( \2 , \1 \) ;\n"
               r"let mut (\w+) = \[ 0_u8 ; util :: HE_PRNG_SEED_BYTES \] ;\n"
               r"\4 \. copy_from_slice \( & \3 \[ \.\. util :: HE_PRNG_SEED_BYTES \] \) ;\n"
               r"let (\w+) : PRNGSeed = PRNGSeed \( \4 \) ;",
         r"let comp = & data [ %s .. %s + cn ] ; let \5 = __le_bytes ( data , %s + 1 , %d ) ;" % (OFF, OFF, OFF, seed_words)),
        ("context . get_context_data ( self . parms_id ( ) ) . unwrap ( ) . parms ( )", "parms"),
        ("self . poly_mut ( 1 )", "& mut data [ 1 * %s .. ( 1 + 1 ) * %s ]" % (D, D)),
        ("}\nself\n}", "}\n}"),
    ]
WORDS = ("u8", "u32", "u64", "usize")
ID = re.compile(r"[A-Za-z_][A-Za-z0-9_']*")


def canon_text(T, src):
    """token text separated by single blanks (the form the reading tables are written in)"""
    out = []; i = 0
    # tokenise leniently: `#`, `*const` and strings are kept as raw characters so that the readings can match them
    for m in re.finditer(r'"(?:[^"\\]|\\.)*"|[A-Za-z_][A-Za-z0-9_]*|[0-9][0-9_]*\.[0-9][0-9_]*|0x[0-9a-fA-F_]+[a-z0-9]*|[0-9][0-9_a-z]*|<<=|>>=|\.\.=|::|->|=>|==|!=|<=|>=|&&|\|\||\+=|-=|\*=|/=|%=|\^=|&=|\|=|<<|>>|\.\.|\n|\S', src):
        out.append(m.group(0))
    return " ".join(out).replace(" \n ", "\n").replace("\n ", "\n").replace(" \n", "\n")


class Gen:
    def __init__(self, T, tr, spec):
        self.T, self.tr, self.spec = T, tr, spec
        self.sigs = {}          # translated functions: name -> dict(lean, params, ret, xof, ops)
        self.struct = None
        self.used_readings = set()

    def fail(self, msg): raise self.T.Unsupported("rng mode: " + msg)

    def const(self, rel, name):
        src = self.T.strip_comments(open(os.path.join(self.tr.repo, rel)).read())
        ms = re.findall(r"\bconst\s+%s\s*:\s*(?:usize|u64)\s*=\s*(0x[0-9a-fA-F_]+|[0-9_]+)\s*;" % name, src)
        if len(ms) != 1: self.fail(f"const {name}: usize/u64 = <literal> found {len(ms)} times in {rel}")
        return int(ms[0].replace("_", ""), 0)

    def parse_struct(self, ent):
        src = self.T.strip_comments(open(os.path.join(self.tr.repo, ent["file"])).read())
        ms = list(re.finditer(r"\bstruct\s+%s\s*\{" % ent["struct"], src))
        if len(ms) != 1: self.fail(f"struct {ent['struct']} found {len(ms)} times")
        j = ms[0].end() - 1; end = self.T.brace_block(src, j, "struct")
        fields = []
        for item in src[j + 1:end - 1].split(","):
            item = " ".join(item.split())
            if not item: continue
            m = re.fullmatch(r"(?:pub )?(\w+) ?: ?(.+)", item)
            if not m: self.fail(f"struct field `{item}`")
            t = m.group(2).replace(" ", "")
            if t in ("u64", "usize"): lt = "Nat"
            elif t == "[u8;BUFFER_SIZE]" or t == "PRNGSeed": lt = "List Nat"
            else: self.fail(f"struct {ent['struct']}: field type `{t}`")
            fields.append((m.group(1), lt, t))
        if "PRNGSeed" in [f[2] for f in fields] and not re.search(r"\bstruct\s+PRNGSeed\s*\(\s*pub\s*\[\s*u8\s*;\s*\w+\s*\]\s*\)", src):
            self.fail("struct PRNGSeed(pub [u8; N]) expected")
        self.struct = {"name": ent["struct"], "fields": fields}
        out = [f"/-- `struct {ent['struct']}` ({ent['file']}); `[u8; N]` / `PRNGSeed` fields are byte lists -/", f"structure {ent['struct']} where"]
        out += [f"  {f} : {lt}" for f, lt, _ in fields]
        return "\n".join(out) + "\n"

    def parse_fn(self, ent):
        T = self.T; rel = ent["file"]; name = ent["fn"]
        src = T.strip_comments(open(os.path.join(self.tr.repo, rel)).read())
        lo, hi = 0, len(src)
        if ent.get("impl"): lo, hi, _, _ = T.find_impl(src, ent["impl"], rel)
        if ent.get("mod"):
            ms = list(re.finditer(r"\bmod\s+%s\s*\{" % ent["mod"], src))
            if len(ms) != 1: self.fail(f"mod {ent['mod']} found {len(ms)} times in {rel}")
            lo = ms[0].end() - 1; hi = T.brace_block(src, lo, "mod")
        ms = list(re.finditer(r"\bfn\s+%s\s*(<[^>(]*>)?\s*\(" % re.escape(name), src[lo:hi]))
        if len(ms) != 1: self.fail(f"fn {name} found {len(ms)} times in {rel}")
        off = lo + ms[0].start(); line = src.count("\n", 0, off) + 1
        j = src.index("{", off); end = T.brace_block(src, j, f"fn {name}")
        text = src[off:end]
        generic = ms[0].group(1)
        if generic is not None:
            if "".join(generic.split()) != "<T:Rng>": self.fail(f"fn {name}: generic parameters `{generic}` (only `<T: Rng>`)")
            text = text.replace(generic, " " * len(generic), 1)
        norm = canon_text(T, text)
        h = hashlib.sha256(" ".join(norm.split()).encode()).hexdigest()[:16]
        # --- trusted readings applied to the canonical text
        norm, nh = HOOK.subn("", norm)
        if name == "refill_buffer":
            for key, rep in XOF_READING:
                if norm.count(key) != 1: self.fail(f"fn {name}: reading `{key}` matches {norm.count(key)} times")
                norm = norm.replace(key, rep)
        for cname, crel in ent.get("consts", {}).items():      # `[v; CONST]`: the parser wants a literal repeat length
            norm = re.sub(r"\[ (\S+) ; %s \]" % cname, lambda m: "[ %s ; %d ]" % (m.group(1), self.const(crel, cname)), norm)
        if ent.get("skeleton") == "contains_seed":
            for key, rep in contains_readings():
                if norm.count(key) != 1: self.fail(f"fn {name}: skeleton reading `{key}` matches {norm.count(key)} times")
                norm = norm.replace(key, rep)
        if ent.get("skeleton") == "expand_seed":
            nb = self.const("src/util/basic.rs", "HE_PRNG_SEED_BYTES")
            if nb % 8: self.fail("HE_PRNG_SEED_BYTES is not a multiple of 8")
            for ent_r in expand_readings(nb // 8):
                if ent_r[0] == "re":
                    norm, cnt = re.subn(ent_r[1], ent_r[2], norm)
                    if cnt != 1: self.fail(f"fn {name}: skeleton reading of the raw-pointer seed read matches {cnt} times")
                    continue
                key, rep = ent_r
                if norm.count(key) != 1: self.fail(f"fn {name}: skeleton reading `{key}` matches {norm.count(key)} times")
                norm = norm.replace(key, rep)
        norm, np_ = PTR_READ.subn(lambda m: "__read_le ( self . buffer , self . buffer_current , %d )" % (int(m.group(1)) // 8), norm)
        toks = T.tokenize(norm, line)
        p = T.Parser(toks, name)
        fn = p.fn_item()
        aliases = dict(re.findall(r"\btype\s+(\w+)\s*=\s*(\w+)\s*;", src[lo:hi])) if ent.get("impl") else {}
        fn.update({"file": rel, "line0": line, "line1": toks[p.i - 1][2], "hash": h, "generic": generic is not None, "aliases": aliases})
        return fn

    def generate(self):
        spec = self.spec
        files = sorted({e["file"] for e in spec["table"]})
        out = ["/- GENERATED by tools/rs2lean_rng.py (via tools/rs2lean.py, tools/extract.py) from " + ", ".join(files) + " -- do not edit.",
               "   Translator phase 4j (rng mode): bytes / u32 / u64 / usize = Nat, i32 = Int, byte and word buffers = List Nat, plain + - * are",
               "   overflow-checked (ckAdd/ckSub/ckMul on 64-bit words, ckI32), `&mut` parameters are returned (in parameter order, then the",
               "   return value); locals are named by position (v1, ...; parameters a0, ...; temporaries t1, ...). -/"]
        out += [f"import {m}" for m in spec["imports"]] + ["", "set_option linter.unusedVariables false", "", f"namespace HC.{spec['ns']}", "open HC", "", PRELUDE]
        for ent in spec["table"]:
            if "struct" in ent: out.append(self.parse_struct(ent)); continue
            fn = self.parse_fn(ent)
            out.append(Lower(self, fn, ent).translate())
        out += [f"end HC.{spec['ns']}", ""]
        return "\n".join(out)


class Lower:
    def __init__(self, gen, fn, ent):
        self.g, self.T, self.fn, self.ent = gen, gen.T, fn, ent
        self.name = ent.get("lean", fn["name"])
        self.nv = self.nt = self.nloop = self.ncl = 0
        self.namemap = []; self.aux = []; self.types = {}
        self.uses_xof = False; self.uses_ops = False

    def fail(self, what, ln=None):
        raise self.T.Unsupported(f"{self.fn['file']}: fn {self.fn['name']}" + (f", line {ln}" if ln else "") + f": unsupported (rng mode): {what}")

    def lean_ty(self, t):
        if t in WORDS: return "Nat"
        if t == "i32": return "Int"
        if t == "bool": return "Bool"
        if t in ("bytes", "words", "moduli"): return "List Nat"
        if t == "rng": return "σ"
        if t in ("self", "selfval"): return self.g.struct["name"]
        if t == "dist_i32": return "Int × Int"
        if t == "dist_u64": return "Nat × Nat"
        self.fail(f"type {t}")

    def newvar(self, rust, ty):
        self.nv += 1; n = f"v{self.nv}"; self.namemap.append(f"{n}={rust}"); self.types[n] = ty; return n

    def tmp(self, ty):
        self.nt += 1; n = f"t{self.nt}"; self.types[n] = ty; return n

    # ------------------------------------------------------------------ expressions: returns (atom, type); effects appended to ops
    def lit_as(self, v, ty, ln=None):
        if ty == "i32": return (f"({v})" if v < 0 else str(v)), "i32"
        if ty in WORDS:
            if v < 0: self.fail("negative literal of an unsigned type", ln)
            return str(v), ty
        self.fail(f"literal of type {ty}", ln)

    def is_lit(self, e):
        e = self.unp(e)
        return e[0] == "num" and e[2] is None or (e[0] == "un" and e[1] == "-" and self.unp(e[2])[0] == "num" and self.unp(e[2])[2] is None)

    def lit_val(self, e):
        e = self.unp(e)
        return e[1] if e[0] == "num" else -self.unp(e[2])[1]

    def unp(self, e):
        while e[0] == "paren": e = e[1]
        return e

    def ex(self, e, env, ops, want=None):
        """`want`: the type an untyped literal takes"""
        k = e[0]
        if k == "paren": return self.ex(e[1], env, ops, want)
        if k == "bool": return ("True" if e[1] else "False"), "bool"
        if self.is_lit(e):
            if want is None: self.fail("integer literal whose type is not fixed by its context")
            return self.lit_as(self.lit_val(e), want)
        if k == "num": return self.lit_as(e[1], e[2])
        if k == "path":
            if len(e[1]) == 1 and e[1][0] in env:
                v = env[e[1][0]]
                if v["ty"] == "closure": self.fail(f"closure `{e[1][0]}` used as a value")
                return v["lean"], v["ty"]
            if e[1][-1] in self.ent.get("consts", {}) and (len(e[1]) == 1 or e[1][:-1] == ["util"]):
                rel, cty = self.ent["consts"][e[1][-1]] if isinstance(self.ent["consts"][e[1][-1]], tuple) else (self.ent["consts"][e[1][-1]], "usize")
                return str(self.g.const(rel, e[1][-1])), cty
            self.fail(f"unknown identifier `{'::'.join(e[1])}`")
        if k == "field":
            if e[1] == ("path", ["self"]) and "self" in env:
                for f, lt, rt in self.g.struct["fields"]:
                    if f == e[2]: return f"{env['self']['lean']}.{f}", ("bytes" if lt == "List Nat" else rt)
            self.fail(f"field access `.{e[2]}`")
        if k == "index" and e[2][0] == "range":
            return self.ex(("ref", False, e), env, ops)
        if k == "index":
            b, bt = self.ex(e[1], env, ops)
            if bt not in ("bytes", "words", "moduli"): self.fail("indexing a value that is not a buffer")
            i, it = self.ex(e[2], env, ops, "usize")
            if it != "usize": self.fail("index that is not a usize")
            t = self.tmp({"bytes": "u8", "words": "u64", "moduli": "modulus"}[bt]); ops.append(f"let {t} ← idx {b} {i}")
            return t, self.types[t]
        if k == "cast":
            a, at = self.ex(e[1], env, ops)
            tt = e[2][1] if e[2][0] == "name" else None
            order = {"u8": 8, "u32": 32, "u64": 64, "usize": 64}
            if at in order and tt in order and order[at] <= order[tt]: return a, tt
            if at == "u8" and tt == "i32": return f"(Int.ofNat {a})", "i32"
            self.fail(f"cast {at} as {e[2]}")
        if k == "un" and e[1] == "!":
            a, at = self.ex(e[2], env, ops, want)
            if at == "bool": return f"(¬ {a})", "bool"
            if at == "usize": return f"(notW {a})", "usize"
            self.fail(f"`!` on {at}")
        if k == "ref" and not e[1] and e[2][0] == "index" and e[2][2][0] == "range":
            b, bt = self.ex(e[2][1], env, ops)
            if bt not in ("bytes", "words"): self.fail("sub-slice of a value that is not a buffer")
            lo, _ = self.ex(e[2][2][1], env, ops, "usize"); hi, _ = self.ex(e[2][2][2], env, ops, "usize")
            t = self.tmp(bt); ops.append(f"let {t} ← slice {b} {lo} {hi}"); return t, bt
        if k == "structlit":
            st = self.g.struct
            if st is None or e[1] not in ("Self", st["name"]): self.fail(f"struct literal `{e[1]}`")
            given = dict(e[2])
            if len(given) != len(e[2]) or set(given) != {f for f, _, _ in st["fields"]}: self.fail("struct literal: field set differs from the definition")
            parts = []
            for f, lt, rt in st["fields"]:
                fe = self.unp(given[f])
                if lt == "List Nat" and fe[0] == "array":
                    if not fe[1] or not all(self.is_lit(x) and self.lit_val(x) == self.lit_val(fe[1][0]) for x in fe[1]): self.fail("array field that is not `[literal; N]`")
                    if not 0 <= self.lit_val(fe[1][0]) < 256: self.fail("byte literal out of range")
                    a, at = f"(List.replicate {len(fe[1])} {self.lit_val(fe[1][0])})", "bytes"
                else: a, at = self.ex(fe, env, ops, rt if rt in WORDS else None)
                if at != ("bytes" if lt == "List Nat" else rt): self.fail(f"struct literal: field `{f}` gets a value of type {at}")
                parts.append(f"{f} := {a}")
            return "{ " + ", ".join(parts) + f" : {st['name']} }}", "selfval"
        if k == "bin": return self.binop(e, env, ops, want)
        if k == "mcall": return self.mcall(e, env, ops)
        if k == "call": return self.call(e, env, ops)
        if k == "if": return self.if_value(e, env, ops, want)
        if k == "match": return self.match_value(e, env, ops, want)
        self.fail(f"expression `{k}`")

    def binop(self, e, env, ops, want):
        op, l, r = e[1], e[2], e[3]
        if op in ("&&", "||"):
            ro = []
            a, at = self.ex(l, env, ops); b, bt = self.ex(r, env, ro)
            if ro: self.fail(f"`{op}` with an effectful right operand")
            if at != "bool" or bt != "bool": self.fail(f"`{op}` on non-Boolean operands")
            return f"({a} {'∧' if op == '&&' else '∨'} {b})", "bool"
        # literals take the type of the other operand
        if self.is_lit(l) and not self.is_lit(r):
            b, bt = self.ex(r, env, ops, want); a, at = self.ex(l, env, [], bt)      # a literal has no effects: order irrelevant
        else:
            a, at = self.ex(l, env, ops, want); b, bt = self.ex(r, env, ops, at if op not in ("<<", ">>") else "u32")
        if op in (">>", "<<"):
            if not self.is_lit(r): self.fail("shift by a non-literal amount")
            if at == "i32" and op == ">>" and 0 <= self.lit_val(r) < 32: return f"(shrI32 {a} {self.lit_val(r)})", "i32"
            self.fail(f"`{op}` on {at}")
        if at != bt: self.fail(f"`{op}` on operands of types {at} / {bt}")
        if op in ("==", "!=", "<", ">", "<=", ">="):
            if at not in WORDS + ("i32",): self.fail(f"comparison of {at}")
            return "(%s %s %s)" % (a, {'==': '=', '!=': '≠', '<=': '≤', '>=': '≥'}.get(op, op), b), "bool"
        if at in ("u64", "usize"):
            if op in ("+", "-", "*"):
                t = self.tmp(at); ops.append("let %s ← %s %s %s" % (t, {'+': 'ckAdd', '-': 'ckSub', '*': 'ckMul'}[op], a, b)); return t, at
            if op == "%":
                t = self.tmp(at); ops.append(f"let {t} ← ckMod {a} {b}"); return t, at
            if op == "&": return f"({a} &&& {b})", at
        if at == "u8" and op == "&": return f"({a} &&& {b})", at
        if at == "i32":
            if op in ("+", "-", "*"):
                t = self.tmp("i32"); ops.append(f"let {t} ← ckI32 ({a} {op} {b})"); return t, "i32"
            if op == "&": return f"(andI32 {a} {b})", "i32"
        self.fail(f"`{op}` on {at}")

    def if_value(self, e, env, ops, want):
        c, ct = self.ex(e[1], env, ops)
        if ct != "bool": self.fail("`if` condition that is not Boolean")
        if e[3] is None: self.fail("value `if` without `else`")
        res = []
        for blk in (e[2], e[3]):
            if blk[0]: self.fail("statements inside a value `if`")
            bo = []; a, at = self.ex(blk[1], env, bo, want)
            res.append((bo, a, at))
        if res[0][2] != res[1][2]: self.fail("value `if` with branches of different types")
        t = self.tmp(res[0][2])
        if res[0][2] == "bool":      # Boolean branches: the value is a `Bool`, used as the proposition `t = true`
            ops.append(f"let {t} : Bool ← (if {c} then {self.doblock(res[0][0], 'pure (decide ' + res[0][1] + ')')} else {self.doblock(res[1][0], 'pure (decide ' + res[1][1] + ')')})")
            return f"({t} = true)", "bool"
        ops.append(f"let {t} ← (if {c} then {self.doblock(res[0][0], 'pure ' + res[0][1])} else {self.doblock(res[1][0], 'pure ' + res[1][1])})")
        return t, res[0][2]

    def match_value(self, e, env, ops, want):
        s, st = self.ex(e[1], env, ops)
        if st != "i32": self.fail("`match` on a value that is not an i32")
        arms = e[2]
        if not arms or arms[-1][0] != [("wild",)]: self.fail("`match` without a final `_` arm")
        text = ""; rty = None
        for pats, body in arms[:-1]:
            cs = []
            for p in pats:
                if p[0] != "num" or p[2] not in (None, "i32"): self.fail("`match` pattern that is not an integer literal")
                cs.append(f"{s} = {self.lit_as(p[1], 'i32')[0]}")
            bo = []; a, at = self.ex(body, env, bo, want)
            if rty not in (None, at): self.fail("`match` arms of different types")
            rty = at
            text += f"if {' ∨ '.join(cs)} then {self.doblock(bo, 'pure ' + a)} else "
        last = arms[-1][1]
        if last[0] == "unreachable": text += ".error .other"
        elif last[0] == "panic": text += ".error .refused"
        else: self.fail("final `_` arm that is not `unreachable!()` / `panic!()`")
        t = self.tmp(rty); ops.append(f"let {t} ← ({text})")
        return t, rty

    def doblock(self, ops, last):
        if not ops: return last if last.startswith(".error") else f"({last})"
        return "(do " + "; ".join(ops + [last]) + ")"

    def mcall(self, e, env, ops):
        recv, m, args = e[1], e[2], e[3]
        # accessors of the opaque `parms`
        if recv[0] == "path" and recv[1][0] in env and env[recv[1][0]]["ty"] == "parms":
            if m == "coeff_modulus" and not args: return env["#qs"]["lean"], "moduli"
            if m == "poly_modulus_degree" and not args: return env["#n"]["lean"], "usize"
            self.fail(f"accessor `parms.{m}()`")
        if m == "len" and not args:
            a, at = self.ex(recv, env, ops)
            if at in ("bytes", "words", "moduli"): return f"{a}.length", "usize"
        if m == "value" and not args:
            a, at = self.ex(recv, env, ops)
            if at == "modulus": return a, "u64"
        if m == "wrapping_add" and len(args) == 1:
            a, at = self.ex(recv, env, ops)
            if at == "u64":
                b, _ = self.ex(args[0], env, ops, "u64"); return f"(wAdd {a} {b})", "u64"
        if m == "unsigned_abs" and not args:
            a, at = self.ex(recv, env, ops)
            if at == "i32": return f"(Int.natAbs {a})", "u32"
        if m == "sample" and len(args) == 1 and recv[0] == "path" and recv[1][0] in env and env[recv[1][0]]["ty"] == "rng":
            d, dt = self.ex(args[0], env, ops)
            if dt not in ("dist_i32", "dist_u64"): self.fail("`rng.sample(d)` with `d` that is not a `Uniform`")
            rv = env[recv[1][0]]["lean"]; vt = dt[5:]
            t = self.tmp(vt); ops.append(f"let ({rv}, {t}) ← G.sample_{vt} {d}.1 {d}.2 {rv}"); self.uses_ops = True
            return t, vt
        self.fail(f"method call `.{m}(…)`")

    def call(self, e, env, ops):
        segs, args = e[1], e[2]
        name = "::".join(segs)
        if name == "std::cmp::min" and len(args) == 2:
            a, at = self.ex(args[0], env, ops, "usize"); b, bt = self.ex(args[1], env, ops, at)
            if at != bt or at not in WORDS: self.fail("std::cmp::min on these operands")
            return f"(min {a} {b})", at
        if name == "__read_le":
            b, _ = self.ex(args[0], env, ops); p, _ = self.ex(args[1], env, ops); w = args[2][1]
            t = self.tmp("u32" if w == 4 else "u64"); ops.append(f"let {t} ← readLE {b} {p} {w}"); return t, self.types[t]
        if name == "__le_bytes":
            b, bt = self.ex(args[0], env, ops); o, _ = self.ex(args[1], env, ops, "usize")
            if bt != "words": self.fail("__le_bytes of a value that is not a word buffer")
            t = self.tmp("bytes"); ops.append(f"let {t} ← leBytes {b} {o} {args[2][1]}"); return t, "bytes"
        if name == "BlakeRNG::from_seed" and len(args) == 1 and "from_seed" in self.g.sigs:
            a, at = self.ex(args[0], env, ops)
            if at != "bytes": self.fail("BlakeRNG::from_seed of a value that is not a byte array")
            t = self.tmp("self"); ops.append(f"let {t} ← {self.g.sigs['from_seed']['lean']} {a}"); return t, "self"
        if name == "contains_seed" and "contains_seed" in self.g.sigs and len(args) == 4:
            xs = []
            for a, want_t in zip(args, ("words", "usize", "usize", "usize")):
                x, xt = self.ex(a, env, ops)
                if xt != want_t: self.fail(f"contains_seed: argument of type {xt}")
                xs.append(x)
            t = self.tmp("bool"); ops.append(f"let {t} ← {self.g.sigs['contains_seed']['lean']} {' '.join(xs)}"); return f"({t} = true)", "bool"
        if name == "__xof":
            s, _ = self.ex(args[0], env, ops); c, _ = self.ex(args[1], env, ops); self.uses_xof = True
            return f"(xof {s} {c})", "bytes"
        if name == "Uniform::new_inclusive" and len(args) == 2:
            if self.is_lit(args[0]) and self.is_lit(args[1]): ty = "i32"      # Rust's integer-literal fallback
            else: ty = None
            if ty is None:
                to = []; _, ty = self.ex(args[1] if self.is_lit(args[0]) else args[0], env, to)
            if ty not in ("i32", "u64"): self.fail(f"Uniform::new_inclusive on {ty}")
            a, _ = self.ex(args[0], env, ops, ty); b, _ = self.ex(args[1], env, ops, ty)
            t = self.tmp("dist_" + ty); ops.append(f"let {t} ← uniformNew{'I32' if ty == 'i32' else 'U64'} {a} {b}"); return t, "dist_" + ty
        key = canon_text(self.T, self.untok(e))
        if len(segs) == 1 and segs[0] in env and env[segs[0]]["ty"] == "closure":
            cl = env[segs[0]]
            if len(args) != 1 or args[0][0] != "path" or env.get(args[0][1][0], {}).get("ty") != "rng": self.fail("closure call: one generator argument expected")
            rv = env[args[0][1][0]]["lean"]
            t = self.tmp(cl["ret"]); ops.append(f"let ({rv}, {t}) ← {cl['lean']} G {rv}"); self.uses_ops = True
            return t, cl["ret"]
        short = segs[-1]
        if short in self.g.sigs and (len(segs) == 1 or segs[0] == "util"):
            sg = self.g.sigs[short]
            if sg["kind"] != "pure_fn" or len(args) != 1: self.fail(f"call of `{name}`")
            a, at = self.ex(args[0], env, ops)
            if at != sg["params"][0]: self.fail(f"call of `{name}` with an argument of type {at}")
            t = self.tmp(sg["ret"]); ops.append(f"let {t} ← {sg['lean']} {a}"); return t, sg["ret"]
        self.fail(f"call of `{name}`")

    def untok(self, e):
        """source text of a call expression of the FLOAT_TESTS table (only literals / paths as arguments)"""
        if e[0] == "call": return "::".join(e[1]) + "(" + ", ".join(self.untok(a) for a in e[2]) + ")"
        if e[0] == "path": return "::".join(e[1])
        if e[0] == "float": return e[1]
        if e[0] == "num": return str(e[1])
        return "?"

    def cond(self, e, env, ops):
        """conditions: the FLOAT_TESTS readings, `!` of them, or ordinary Boolean expressions"""
        u = self.unp(e)
        neg = False
        if u[0] == "un" and u[1] == "!": neg = True; u = self.unp(u[2])
        if u[0] == "call":
            key = canon_text(self.T, self.untok(u))
            if key in FLOAT_TESTS:
                self.g.used_readings.add(key)
                return ("¬ (%s)" if neg else "%s") % FLOAT_TESTS[key]
        c, ct = self.ex(e, env, ops)
        if ct != "bool": self.fail("condition that is not Boolean")
        return c

    # ------------------------------------------------------------------ statements
    def assigned(self, x, acc):
        """Rust names (re)bound by a statement list / expression (syntactic, conservative)"""
        if isinstance(x, tuple):
            if x and x[0] == "assign":
                r = x[1]
                while r[0] in ("index", "field", "paren"): r = r[1]
                if r[0] == "path": acc.add(r[1][0])
            if x and x[0] == "mcall":
                r = x[1]
                while r[0] in ("index", "field", "paren"): r = r[1]
                if r[0] == "path" and x[2] in ("sample", "fill_bytes", "refill_buffer", "copy_from_slice"): acc.add(r[1][0])
            if x and x[0] == "call":
                for a in x[2]:
                    if a[0] == "path": acc.add(a[1][0])          # a `&mut` variable passed bare (closure call, set_zero_uint)
            if x and x[0] == "ref" and x[1]:
                r = x[2]
                while r[0] in ("index", "field", "paren"): r = r[1]
                if r[0] == "path": acc.add(r[1][0])
            for y in x: self.assigned(y, acc)
        elif isinstance(x, list):
            for y in x: self.assigned(y, acc)
        return acc

    def state_vars(self, body, env):
        names = self.assigned(body, set())
        return [n for n in env if n in names and env[n]["ty"] not in ("closure", "parms") and not n.startswith("#") and env[n].get("mut")]

    def tup(self, leans): return leans[0] if len(leans) == 1 else "(" + ", ".join(leans) + ")"

    def block(self, blk, env, ops, k):
        """lower a block in statement position; k = text of what follows (None: fall through).  Returns True iff the block escaped (return / panic)"""
        stmts, tail = blk
        env = dict(env)
        for i, s in enumerate(stmts):
            if self.stmt(s, stmts[i + 1:], tail, env, ops, k): return True
        if tail is not None:
            if tail[0] == "panic": ops.append(".error .refused"); return True
            self.fail("block with a value in statement position")
        return False

    def stmt(self, s, rest, tail, env, ops, k):
        kind = s[0]; ln = s[-1] if isinstance(s[-1], int) else None
        if kind == "let":
            _, pat, mut, ty, init, ln = s
            if not isinstance(pat, str): self.fail("tuple pattern", ln)
            if init is None: self.fail("`let` without initialiser", ln)
            if init[0] == "closure": self.closure(pat, init, env, ln); return False
            if init[0] == "array":
                if not all(self.is_lit(x) for x in init[1]): self.fail("array literal of non-literals", ln)
                v = self.newvar(pat, "bytes"); env[pat] = {"lean": v, "ty": "bytes", "mut": mut, "arr": len(init[1])}
                ops.append(f"let {v} : List Nat := [{', '.join(str(self.lit_val(x)) for x in init[1])}]"); return False
            want = ty[1] if ty is not None and ty[0] == "name" else None
            if want is None and self.is_lit(init): want = self.infer_lit(pat, (rest, tail), env, ln)
            a, at = self.ex(init, env, ops, want)
            if want is not None and at != want: self.fail(f"`let {pat}: {want}` initialised with a value of type {at}", ln)
            if at in ("moduli",) or (at == "usize" and a == env.get("#n", {}).get("lean")) and not mut:
                env[pat] = {"lean": a, "ty": at, "mut": False}; self.namemap.append(f"{a}={pat}"); return False      # alias of an input
            if at == "selfval": at = "self"
            v = self.newvar(pat, at); env[pat] = {"lean": v, "ty": at, "mut": mut}
            ops.append(f"let {v} := {a}"); return False
        if kind == "assign":
            _, lhs, op, rhs, ln = s
            self.assign(lhs, op, rhs, env, ops, ln); return False
        if kind == "expr":
            e = s[1]
            if e[0] == "if": return self.if_stmt(e, rest, tail, env, ops, k)
            self.effect(e, env, ops, ln); return False
        if kind == "return":
            if s[1] is not None: self.fail("`return` with a value", ln)
            ops.append(self.result(env, None)); return True
        if kind == "unsafe":
            # an `unsafe { .. }` block in tail position of the function: transparent (its raw-pointer read was rewritten by PTR_READ)
            if rest or tail is not None: self.fail("`unsafe` block that is not the last statement", ln)
            ust, utail = s[1]
            env2 = env
            for i, u in enumerate(ust):
                if self.stmt(u, ust[i + 1:], utail, env2, ops, k): return True
            if utail is not None:
                a, at = self.ex(utail, env2, ops, self.ret_ty)
                ops.append(self.result(env2, (a, at)))
                return True
            return False
        if kind == "while": self.while_loop(s, env, ops); return False
        if kind == "for": self.for_loop(s, env, ops); return False
        self.fail(f"statement `{kind}`", ln)

    def infer_lit(self, name, x, env, ln):
        """type of `let [mut] name = <untyped literal>`: fixed by a use as slice / range bound or index (usize), or as an operand of a
        comparison / arithmetic operation whose other operand is `X.len()` or a variable of known integer type; otherwise refused"""
        found = set()
        me = ("path", [name])
        def other_ty(o):
            o = self.unp(o)
            if o[0] == "mcall" and o[2] == "len": return "usize"
            if o[0] == "path" and len(o[1]) == 1 and o[1][0] in env and env[o[1][0]]["ty"] in WORDS + ("i32",): return env[o[1][0]]["ty"]
            return None
        def walk(y):
            if isinstance(y, tuple):
                if y and y[0] == "bin" and y[1] not in ("<<", ">>", "&&", "||"):
                    if self.unp(y[2]) == me and other_ty(y[3]): found.add(other_ty(y[3]))
                    if self.unp(y[3]) == me and other_ty(y[2]): found.add(other_ty(y[2]))
                if y and y[0] == "range" and (y[1] == me or y[2] == me): found.add("usize")
                if y and y[0] == "index" and y[2] == me: found.add("usize")
                for z in y: walk(z)
            elif isinstance(y, list):
                for z in y: walk(z)
        walk(x)
        if len(found) != 1: self.fail(f"`let {name} = <integer literal>`: type not fixed by its uses ({sorted(found)})", ln)
        return found.pop()

    def result(self, env, val):
        outs = [env[p]["lean"] for p in self.out_params]
        if val is not None:
            if val[1] != self.ret_ty: self.fail(f"result of type {val[1]}, declared {self.ret_ty}")
            outs.append(f"(decide {val[0]})" if self.ret_ty == "bool" else val[0])
        elif self.ret_ty is not None: self.fail("missing result value")
        return "pure " + (self.tup(outs) if outs else "()")

    def set_self(self, env, field, val):
        sv = env["self"]["lean"]
        return f"let {sv} := {{ {sv} with {field} := {val} }}"

    def assign(self, lhs, op, rhs, env, ops, ln):
        if lhs[0] == "field" and lhs[1] == ("path", ["self"]):
            if "self" not in env or not env["self"].get("mut"): self.fail("assignment to a field of `&self`", ln)
            cur, ct = self.ex(lhs, env, [])
            if op is None: a, at = self.ex(rhs, env, ops, ct if ct in WORDS else None)
            else: a, at = self.binop(("bin", op, lhs, rhs), env, ops, None)
            if at != ct: self.fail(f"assignment of a {at} to a field of type {ct}", ln)
            ops.append(self.set_self(env, lhs[2], a)); return
        if lhs[0] == "path" and len(lhs[1]) == 1 and lhs[1][0] in env:
            v = env[lhs[1][0]]
            if not v.get("mut") or v["ty"] not in WORDS + ("i32",): self.fail(f"assignment to `{lhs[1][0]}`", ln)
            if op is None: a, at = self.ex(rhs, env, ops, v["ty"])
            else: a, at = self.binop(("bin", op, lhs, rhs), env, ops, None)
            if at != v["ty"]: self.fail(f"assignment of a {at} to a variable of type {v['ty']}", ln)
            ops.append(f"let {v['lean']} := {a}"); return
        if lhs[0] == "index" and lhs[1][0] == "path" and lhs[1][1][0] in env:
            v = env[lhs[1][1][0]]
            if not v.get("mut") or v["ty"] not in ("bytes", "words"): self.fail("assignment to an element of this value", ln)
            ety = "u8" if v["ty"] == "bytes" else "u64"
            # Rust evaluates the right operand first, then the place (index expression, bounds check)
            if op is None:
                a, at = self.ex(rhs, env, ops, ety)
                i, it = self.ex(lhs[2], env, ops, "usize")
            else:
                b, bt = self.ex(rhs, env, ops, ety)
                i, it = self.ex(lhs[2], env, ops, "usize")
                t = self.tmp(ety); ops.append(f"let {t} ← idx {v['lean']} {i}")
                if op != "&" or bt != ety: self.fail(f"`{op}=` on a buffer element", ln)
                a, at = f"({t} &&& {b})", ety
            if at != ety or it != "usize": self.fail(f"element assignment with types {at} / {it}", ln)
            ops.append(f"let {v['lean']} ← setIdx {v['lean']} {i} {a}"); return
        self.fail("assignment target", ln)

    def effect(self, e, env, ops, ln):
        """expression statements"""
        if e[0] == "mcall":
            recv, m, args = e[1], e[2], e[3]
            if recv == ("path", ["self"]) and not args and m in self.g.sigs and self.g.sigs[m]["kind"] == "self_unit":
                if not env["self"].get("mut"): self.fail("`&mut self` method called on `&self`", ln)
                sv = env["self"]["lean"]; ops.append(f"let {sv} ← {self.g.sigs[m]['lean']} xof {sv}"); self.uses_xof = True; return
            if m == "fill_bytes" and recv[0] == "path" and env.get(recv[1][0], {}).get("ty") == "rng" and len(args) == 1 \
               and args[0][0] == "ref" and args[0][1] and args[0][2][0] == "path" and env.get(args[0][2][1][0], {}).get("ty") == "bytes":
                rv = env[recv[1][0]]["lean"]; x = env[args[0][2][1][0]]
                if not x.get("mut"): self.fail("`&mut` of an immutable local", ln)
                ops.append(f"let ({rv}, {x['lean']}) ← G.fill_bytes {rv} {x['lean']}"); self.uses_ops = True; return
            if m == "copy_from_slice" and len(args) == 1 and recv[0] == "index" and recv[2][0] == "range" \
               and args[0][0] == "ref" and not args[0][1] and args[0][2][0] == "index" and args[0][2][2][0] == "range":
                dst = recv[1]; src = args[0][2][1]
                if dst[0] != "path" or env.get(dst[1][0], {}).get("ty") != "bytes" or not env[dst[1][0]].get("mut"): self.fail("copy_from_slice target", ln)
                d = env[dst[1][0]]["lean"]
                lo, _ = self.ex(recv[2][1], env, ops, "usize"); hi, _ = self.ex(recv[2][2], env, ops, "usize")
                sb, st = self.ex(src, env, ops)
                if st != "bytes": self.fail("copy_from_slice source", ln)
                a, _ = self.ex(args[0][2][2][1], env, ops, "usize"); b, _ = self.ex(args[0][2][2][2], env, ops, "usize")
                t = self.tmp("bytes"); ops.append(f"let {t} ← slice {sb} {a} {b}")
                ops.append(f"let {d} ← copySlice {d} {lo} {hi} {t}"); return
        if e[0] == "call" and "::".join(e[1]) in ("util::rlwe::sample::uniform",) and len(e[2]) == 3:
            fnm = e[1][-1]; sg = self.g.sigs.get(fnm)
            a_rng, a_parms, a_dst = e[2]
            if sg is None or sg["kind"] != "sampler": self.fail(f"call of `{fnm}` before its translation", ln)
            if not (a_rng[0] == "ref" and a_rng[1] and a_rng[2][0] == "path" and env.get(a_rng[2][1][0], {}).get("ty") == "self" and env[a_rng[2][1][0]].get("mut")):
                self.fail("sampler call: `&mut <BlakeRNG local>` expected", ln)
            if not (a_parms[0] == "path" and env.get(a_parms[1][0], {}).get("ty") == "parms"): self.fail("sampler call: parameters argument", ln)
            if not (a_dst[0] == "ref" and a_dst[1] and a_dst[2][0] == "index" and a_dst[2][2][0] == "range" and a_dst[2][1][0] == "path"
                    and env.get(a_dst[2][1][1][0], {}).get("ty") == "words" and env[a_dst[2][1][1][0]].get("mut")): self.fail("sampler call: `&mut buf[a..b]` expected", ln)
            g = env[a_rng[2][1][0]]["lean"]; d = env[a_dst[2][1][1][0]]["lean"]
            lo, _ = self.ex(a_dst[2][2][1], env, ops, "usize"); hi, _ = self.ex(a_dst[2][2][2], env, ops, "usize")
            t = self.tmp("words"); t2 = self.tmp("words")
            ops.append(f"let {t} ← slice {d} {lo} {hi}")
            ops.append(f"let ({g}, {t2}) ← {sg['lean']} B {g} {env['#qs']['lean']} {env['#n']['lean']} {t}")
            ops.append(f"let {d} := splice {d} {lo} {t2}"); self.uses_blake_ops = True; return
        if e[0] == "call" and "::".join(e[1]) == "util::set_zero_uint" and len(e[2]) == 1 and e[2][0][0] == "path":
            v = env.get(e[2][0][1][0])
            if v is None or v["ty"] != "words" or not v.get("mut"): self.fail("set_zero_uint argument", ln)
            ops.append(f"let {v['lean']} := List.replicate {v['lean']}.length 0"); return
        self.fail("expression statement", ln)

    def if_stmt(self, e, rest, tail, env, ops, k):
        thn, els = e[2], e[3]
        cops = []; c = self.cond(e[1], env, cops); ops += cops
        def escapes(blk):
            st, tl = blk
            return (st and st[-1][0] == "return") or (tl is not None and tl[0] == "panic") or (st and st[-1][0] == "expr" and st[-1][1][0] == "panic")
        if els is None and escapes(thn):
            if not self.toplevel: self.fail("`return` / `panic!` inside a loop body")
            bo = []
            st, tl = thn
            if st and st[-1][0] == "expr" and st[-1][1][0] == "panic": thn = (st[:-1], ("panic",))
            self.block(thn, env, bo, None)
            ro = []
            escaped = False
            env2 = dict(env)
            for i, s in enumerate(rest):
                if self.stmt(s, rest[i + 1:], tail, env2, ro, k): escaped = True; break
            if not escaped:
                if tail is not None: self.fail("function with a tail value after an escaping `if`")
                ro.append(self.result(env2, None))
            ops.append(f"if {c} then {self.doblock(bo[:-1], bo[-1])} else do")
            ops.append(ro)
            return True
        if els is not None: self.fail("`if … else` statement")
        st = self.state_vars(thn, env)
        if not st: self.fail("`if` statement without effect")
        bo = []
        if self.block(thn, env, bo, None): self.fail("escaping `if` branch")
        leans = [env[n]["lean"] for n in st]
        ops.append(f"let {self.tup(leans)} ← (if {c} then {self.doblock(bo, 'pure ' + self.tup(leans))} else pure {self.tup(leans)})")
        return False

    def captured(self, lines, env, exclude):
        text = " ".join(self.flatten(lines))
        ids = set(ID.findall(text))
        caps = []
        for n, v in env.items():
            if v["ty"] in ("closure", "parms"): continue
            root = v["lean"].split(".")[0]
            if root in ids and root not in exclude and root not in caps: caps.append(root)
        return caps

    def flatten(self, lines):
        out = []
        for l in lines:
            if isinstance(l, list): out += self.flatten(l)
            else: out.append(l)
        return out

    def binder(self, lean, env):
        for v in env.values():
            if v["lean"].split(".")[0] == lean: return f"({lean} : {self.lean_ty('self' if v['ty'] == 'self' else v['ty'])})"
        return f"({lean} : {self.lean_ty(self.types[lean])})"

    def head(self):
        return ("{σ : Type} (G : RngOps σ) " if self.fn["generic"] else "") + ("(xof : XofL) " if self.has_self else "") + \
               (f"(B : RngOps {self.g.struct['name']}) " if self.ent.get("skeleton") == "expand_seed" else "")

    def head_args(self):
        return ("G " if self.fn["generic"] else "") + ("xof " if self.has_self else "")

    def for_loop(self, s, env, ops):
        _, v, it, body, ln = s
        if not isinstance(v, str) or it[0] != "range" or it[3] or it[1] is None or it[2] is None: self.fail("`for` over something that is not `lo..hi`", ln)
        lo, _ = self.ex(it[1], env, ops, "usize"); hi, ht = self.ex(it[2], env, ops, "usize")
        if ht != "usize": self.fail("`for` bound that is not a usize", ln)
        st = self.state_vars(body, env)
        if not st: self.fail("`for` loop without loop-carried state", ln)
        self.nloop += 1; fname = f"{self.name}_loop{self.nloop}"
        iv = self.newvar(v, "usize")
        env2 = dict(env); env2[v] = {"lean": iv, "ty": "usize", "mut": False}
        bo = []
        old = self.toplevel; self.toplevel = False
        self.block(body, env2, bo, None)
        self.toplevel = old
        leans = [env[n]["lean"] for n in st]
        caps = self.captured(bo, env, set(leans) | {iv})
        cb = " ".join(self.binder(c, env) for c in caps)
        sty = " → ".join(self.lean_ty(env[n]["ty"]) for n in st); rty = " × ".join(self.lean_ty(env[n]["ty"]) for n in st)
        d = [f"/-- `for {v} in lo..hi` of `{self.fn['name']}` (line {ln}): arguments = trip count, `{v}`, loop-carried state -/",
             f"def {fname} {self.head()}{cb}{' ' if cb else ''}: Nat → Nat → {sty} → R ({rty})",
             f"  | 0, _, {', '.join(leans)} => pure {self.tup(leans)}",
             f"  | c + 1, {iv}, {', '.join(leans)} => do"]
        d += self.render(bo, 2)
        d.append(f"      {fname} {self.head_args()}{' '.join(caps)}{' ' if caps else ''}c ({iv} + 1) {' '.join(leans)}")
        self.aux.append("\n".join(d) + "\n")
        ops.append(f"let {self.tup(leans)} ← {fname} {self.head_args()}{' '.join(caps)}{' ' if caps else ''}({hi} - {lo}) {lo} {' '.join(leans)}")

    def while_loop(self, s, env, ops):
        _, c, body, ln = s
        fuel = self.ent.get("fuel")
        if fuel is None: self.fail("`while` loop without a fuel entry in the table", ln)
        if not self.toplevel: self.fail("nested `while`", ln)
        st = self.state_vars(body, env)
        co = []; cond = self.cond(c, env, co)
        if co: self.fail("`while` condition with effects", ln)
        self.nloop += 1; fname = f"{self.name}_loop{self.nloop}"
        bo = []
        old = self.toplevel; self.toplevel = False
        self.block(body, dict(env), bo, None)
        self.toplevel = old
        leans = [env[n]["lean"] for n in st]
        caps = self.captured(bo + [cond], env, set(leans))
        cb = " ".join(self.binder(c, env) for c in caps)
        sty = " → ".join(self.lean_ty(env[n]["ty"]) for n in st); rty = " × ".join(self.lean_ty(env[n]["ty"]) for n in st)
        d = [f"/-- `while` loop of `{self.fn['name']}` (line {ln}): recursion on fuel (exhaustion = the loop would still spin: `.error .other`) -/",
             f"def {fname} {self.head()}{cb}{' ' if cb else ''}: Nat → {sty} → R ({rty})",
             f"  | 0, {', '.join('_' for _ in leans)} => .error .other",
             f"  | fuel + 1, {', '.join(leans)} =>",
             f"    if {cond} then do"]
        d += self.render(bo, 2)
        d.append(f"      {fname} {self.head_args()}{' '.join(caps)}{' ' if caps else ''}fuel {' '.join(leans)}")
        d.append(f"    else pure {self.tup(leans)}")
        self.aux.append("\n".join(d) + "\n")
        ftxt = fuel
        for n, v in env.items(): ftxt = ftxt.replace("{" + n + "}", v["lean"])
        ops.append(f"let {self.tup(leans)} ← {fname} {self.head_args()}{' '.join(caps)}{' ' if caps else ''}({ftxt}) {' '.join(leans)}")

    def closure(self, name, cl, env, ln):
        """`let f = |rng: &mut T| { .. value }`: an auxiliary definition; the body may mention only its parameter"""
        params, body = cl[1], cl[2]
        if len(params) != 1 or params[0][1] != ("ref", True, ("name", "T")) or not isinstance(params[0][0], str): self.fail("closure: exactly one parameter `x: &mut T` expected", ln)
        self.ncl += 1; cname = f"{self.name}_closure{self.ncl}"
        rv = self.newvar(params[0][0], "rng")
        cenv = {params[0][0]: {"lean": rv, "ty": "rng", "mut": True}}
        bo = []
        stmts, tail = body
        if tail is None: self.fail("closure without a value", ln)
        old = self.toplevel; self.toplevel = False
        for i, s in enumerate(stmts):
            if self.stmt(s, stmts[i + 1:], tail, cenv, bo, None): self.fail("escaping statement in a closure", ln)
        a, at = self.ex(tail, cenv, bo)
        self.toplevel = old
        d = [f"/-- closure `{name}` of `{self.fn['name']}` (line {ln}) -/",
             f"def {cname} {{σ : Type}} (G : RngOps σ) ({rv} : σ) : R (σ × {self.lean_ty(at)}) := do"]
        d += self.render(bo + [f"pure ({rv}, {a})"], 0)
        self.aux.append("\n".join(d) + "\n")
        env[name] = {"lean": cname, "ty": "closure", "ret": at}

    def render(self, lines, depth):
        out = []
        for l in lines:
            if isinstance(l, list): out += self.render(l, depth + 1)
            else: out.append("  " * (depth + 1) + l)
        return out

    # ------------------------------------------------------------------ the function
    def translate(self):
        fn = self.fn
        env = {}; binders = []; self.out_params = []; self.has_self = False; self.toplevel = True
        kinds = []
        for i, (pn, pt, mut) in enumerate(fn["params"]):
            ln = f"a{i}"
            if pn == "self":
                if self.g.struct is None: self.fail("method before its struct entry")
                if pt[1] == "val": self.fail("by-value self")
                env["self"] = {"lean": ln, "ty": "self", "mut": pt[1] == "mut"}; self.has_self = True
                binders.append(f"({ln} : {self.g.struct['name']})"); self.namemap.append(f"{ln}=self")
                if pt[1] == "mut": self.out_params.append("self")
                kinds.append("self"); continue
            self.namemap.append(f"{ln}={pn}")
            if pt == ("ref", True, ("name", "T")) and fn["generic"]: ty = "rng"; isout = True
            elif pt == ("ref", False, ("name", "EncryptionParameters")):
                env[pn] = {"lean": "?", "ty": "parms"}
                env["#qs"] = {"lean": f"{ln}_qs", "ty": "moduli"}; env["#n"] = {"lean": f"{ln}_n", "ty": "usize"}
                binders.append(f"({ln}_qs : List Nat) ({ln}_n : Nat)"); kinds.append("parms"); continue
            elif pt == ("ref", True, ("arr", ("name", "u8"), None)): ty = "bytes"; isout = True
            elif pt == ("ref", True, ("arr", ("name", "u64"), None)): ty = "words"; isout = True
            elif pt == ("ref", False, ("arr", ("name", "u64"), None)): ty = "words"; isout = False
            elif pt[0] == "name" and pt[1] in WORDS: ty = pt[1]; isout = False
            elif pt == ("name", "bool"):
                env[pn] = {"lean": f"({ln} = true)", "ty": "bool", "mut": False}; binders.append(f"({ln} : Bool)"); kinds.append("bool"); continue
            elif pt[0] == "name" and fn.get("aliases", {}).get(pt[1]) == "PRNGSeed": ty = "bytes"; isout = False      # `seed: Self::Seed`, `type Seed = PRNGSeed;`
            else: self.fail(f"parameter `{pn}: {pt}`")
            env[pn] = {"lean": ln, "ty": ty, "mut": isout or mut}
            binders.append(f"({ln} : {self.lean_ty(ty)})"); kinds.append(ty)
            if isout: self.out_params.append(pn)
        rt = fn["ret"]
        if rt == ("tuple", []): self.ret_ty = None
        elif rt[0] == "name" and rt[1] in WORDS + ("i32", "bool"): self.ret_ty = rt[1]
        elif rt == ("name", "Self") and self.g.struct is not None and self.ent.get("impl", "").split()[-1] == self.g.struct["name"]: self.ret_ty = "selfval"
        else: self.fail(f"return type {rt}")
        ops = []
        stmts, tail = fn["body"]
        escaped = False
        for i, s in enumerate(stmts):
            if self.stmt(s, stmts[i + 1:], tail, env, ops, None): escaped = True; break
        if not escaped:
            if tail is not None:
                a, at = self.ex(tail, env, ops, self.ret_ty); ops.append(self.result(env, (a, at)))
            else: ops.append(self.result(env, None))
        outs = [self.lean_ty(env[p]["ty"]) for p in self.out_params] + ([self.lean_ty(self.ret_ty)] if self.ret_ty else [])
        rty = " × ".join(outs) if outs else "Unit"
        doc = [f"/-- {fn['file']}:{fn['line0']}-{fn['line1']}  `{fn['name']}`" + (f" (impl {self.ent['impl']})" if self.ent.get("impl") else "") +
               f"  sha256/64={fn['hash']}", f"    names: {' '.join(self.namemap)}" + (f"\n    model: {self.ent['model']}" if self.ent.get("model") else "") + " -/"]
        d = doc + [f"def {self.name} {self.head()}{' '.join(binders)} : R ({rty}) := do"] + self.render(ops, 0)
        kind = "sampler" if fn["generic"] and kinds == ["rng", "parms", "words"] and self.ret_ty is None else "other"
        if self.has_self and len(fn["params"]) == 1 and self.ret_ty is None: kind = "self_unit"
        if self.ret_ty == "selfval": kind = "ctor"
        if not self.has_self and not fn["generic"] and len(kinds) == 1 and self.ret_ty: kind = "pure_fn"
        self.g.sigs[fn["name"]] = {"lean": self.name, "kind": kind, "params": kinds, "ret": self.ret_ty}
        return "\n".join(self.aux) + ("\n" if self.aux else "") + "\n".join(d) + "\n"


def generate(T, tr, spec):
    g = Gen(T, tr, spec)
    text = g.generate()
    missing = [k for k in FLOAT_TESTS if k not in g.used_readings]
    if missing: g.fail("readings never matched: " + repr(missing))
    return text
