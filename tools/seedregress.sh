#!/bin/bash
# usage: tools/seedregress.sh [seeded-id ...]   (default: every directory under /verif/seeded)
# Regression over the archived seeded changes: applies each patch.diff to a scratch worktree of /repo (never to /repo itself), runs the
# quick check of the property it was written against, and prints one line per change: DETECTED / MISSED / PATCH-DOES-NOT-APPLY.
# Scratch trees live under /tmp/seedrun and are removed afterwards.
set -u
cd /verif
IDS=${@:-$(ls seeded)}
for id in $IDS; do
  P=${id%%-*}; D=/verif/seeded/$id; S=/tmp/seedrun/reg-$id
  rm -rf $S; mkdir -p $S
  git -C /repo worktree add --detach $S/repo HEAD -q 2>/dev/null
  if ! git -C $S/repo apply $D/patch.diff 2>/dev/null; then echo "$id PATCH-DOES-NOT-APPLY"; git -C /repo worktree remove --force $S/repo; rm -rf $S; continue; fi
  cp -r /verif/harness $S/harness; sed -i "s#path = \"/repo\"#path = \"$S/repo\"#" $S/harness/Cargo.toml
  mkdir -p $S/build; cp -r /verif/build/cargo $S/build/cargo 2>/dev/null
  out=$(VERIF_REPO=$S/repo VERIF_HARNESS=$S/harness VERIF_BUILD=$S/build VERIF_OUT=$S timeout 3000 ./check $P --tier quick 2>&1 | grep -E "^VIOLATION|^OK|^KNOWN" | head -1 | cut -c1-160)
  case "$out" in VIOLATION*) echo "$id DETECTED  $out";; *) echo "$id MISSED    $out";; esac
  git -C /repo worktree remove --force $S/repo; rm -rf $S
done
python3 /verif/tools/extract.py /repo /verif/lean/Heathcliff/Gen > /dev/null
